import DFV.Lemmas.C15Fld
import DFV.Lemmas.C15Rat
import DFV.Lemmas.C15Real
import DFV.Lemmas.C15Hist
import DFV.Lemmas.C15Cplx
import DFV.Lemmas.C15RoundCell
import DFV.Lemmas.C15Fl64
import DFV.Lemmas.C15Sqrt64
import DFV.Lemmas.C15RoundExec
import DFV.Lemmas.Rounding
import DFV.Lemmas.C15RoundCplx
import DFV.Lemmas.C15Acc
import DFV.Lemmas.C15RoundTree
/-!
# C15 — setting a norm rescales non-zero vectors only; orientation is the unit field

Theorems about the model of `Field.norm` (getter/setter), `Field.orientation`, the
constructor order values → norm → validity, `valid="norm"` and `update_field_values`
(`DFV/Model/C15.lean`).

Lengths are compared squared.  `sqrt` is a parameter; the hypothesis `SqrtAt sqrt x`
("`sqrt x` is the non-negative root of `x`") is carried explicitly, only at the arguments
actually used.  It is satisfiable: `sqrtQ` (the executable root the driver runs) satisfies
it at every rational square (`sqrtQ_sqrtAt`), and `Real.sqrt` at every non-negative real
(`real_sqrtAt`), so the cell-level theorems — stated over an arbitrary linearly ordered
field `K` — hold for real fields with no side condition.

Sections: one cell (exact arithmetic, any ordered field) · which cells count as zero,
scalars · whole fields (constant / array / callable norm, getter, orientation, constructor)
· validity never enters, the getter as a constructor call, a field as norm, histories
(`run`), acceptance of well-formed programs · the executable model (`sqrtQ`) · real fields
· complex fields (the `(re, im)` view) · rounded arithmetic (`FlOk fl u`: one rounding
after every operation; the bounds that justify the 16u / 4u / 8u comparators and the
oracle's tolerances) over any ordered field, over `ℝ` with `Real.sqrt`, over `Rat` with
the shared `Rounding` package · binary64 (`fl64` obeys the standard model) · the kernel with a
rounded root (`SqrtOk`) and its instance `fl64`/`sqrt64`: hypothesis-free theorems about the
executable kernel that the correspondence run compares bit for bit with NumPy · second round:
the same bounds for ANY number of components (`…_any`: one hypothesis `(n+1)²·u ≤ 2^-10`,
constants affine in `n`), the complex kernel as NumPy computes it (`cfl…`: `|z|²` with / without
a fused multiply-add, division through the rounded reciprocal) with end-to-end theorems for
`fl64`/`sqrt64` · laws (setting the norm twice = setting the last, idempotent orientation,
inclusive threshold) · acceptance as an equivalence (setter, histories, constructor, full
constructor with labels and mapping) · `Field.orientation` as the constructor call it is ·
norm given as a dictionary over subregions (through C02's model of `_as_array`).

Cells, components, targets, thresholds, meshes, masks, specifications and histories are
universally quantified.
-/
namespace DFV.C15
open DFV
set_option linter.unusedSectionVars false

/-! ## One cell, any ordered field -/
section Cell
variable {K : Type} [Field K] [LinearOrder K] [IsStrictOrderedRing K]

/-- the setter keeps the number of components of every cell (array shape unchanged) -/
theorem setCell_length (sqrt : K → K) (v : List K) (t : K) : (setCell sqrt v t).length = v.length := by
  unfold setCell
  rw [List.length_map, divWhere_length]

/-- **Non-zero vectors are rescaled**: the code's divide-then-multiply is exactly `(t/‖v‖)·v` -/
theorem setCell_nonzero (sqrt : K → K) (v : List K) (t : K)
    (hs : SqrtAt sqrt (sqLen v)) (hnz : sqLen v ≠ 0) :
    setCell sqrt v t = smul (t / sqrt (sqLen v)) v := by
  have hne : sqrt (sqLen v) ≠ 0 := fun e => hnz (hs.eq_zero_iff.mp e)
  unfold setCell normCell smul
  rw [divWhere_ne _ _ hne, List.map_map]
  apply List.map_congr_left
  intro x _
  simp only [Function.comp]
  field_simp

/-- … so the new vector has *exactly that length*: `‖v'‖² = t²` (any sign of `t`) -/
theorem setCell_sqLen (sqrt : K → K) (v : List K) (t : K)
    (hs : SqrtAt sqrt (sqLen v)) (hnz : sqLen v ≠ 0) :
    sqLen (setCell sqrt v t) = t * t := by
  have hne : sqrt (sqLen v) ≠ 0 := fun e => hnz (hs.eq_zero_iff.mp e)
  rw [setCell_nonzero sqrt v t hs hnz, sqLen_smul]
  calc t / sqrt (sqLen v) * (t / sqrt (sqLen v)) * sqLen v
      = t / sqrt (sqLen v) * (t / sqrt (sqLen v)) * (sqrt (sqLen v) * sqrt (sqLen v)) := by rw [hs.2]
    _ = t * t := by field_simp

/-- … and an *unchanged direction*: for a positive target the new vector is a positive multiple of the old one -/
theorem setCell_direction (sqrt : K → K) (v : List K) (t : K)
    (hs : SqrtAt sqrt (sqLen v)) (hnz : sqLen v ≠ 0) (ht : 0 < t) :
    ∃ c : K, 0 < c ∧ setCell sqrt v t = smul c v :=
  ⟨t / sqrt (sqLen v), div_pos ht (hs.pos hnz), setCell_nonzero sqrt v t hs hnz⟩

/-- parallelism stated without division: all 2×2 cross terms between new and old vector vanish (any target, also negative or zero) -/
theorem setCell_cross (sqrt : K → K) (v : List K) (t : K)
    (hs : SqrtAt sqrt (sqLen v)) (hnz : sqLen v ≠ 0) (a b : Nat) :
    (setCell sqrt v t).getD a 0 * v.getD b 0 = (setCell sqrt v t).getD b 0 * v.getD a 0 := by
  rw [setCell_nonzero sqrt v t hs hnz, smul_getD, smul_getD]; ring

/-- **Zero cells stay zero**, whatever the target -/
theorem setCell_zero (sqrt : K → K) (v : List K) (t : K)
    (h0 : SqrtAt sqrt 0) (hz : ∀ x ∈ v, x = 0) : setCell sqrt v t = zeros v := by
  unfold setCell normCell
  rw [(sqLen_eq_zero_iff v).mpr hz, h0.zero, divWhere_zero, map_mul_zeros]

/-- **zero in places**: a zero target gives a zero vector, whatever the old vector (no hypothesis on `sqrt` at all) -/
theorem setCell_target_zero (sqrt : K → K) (v : List K) : setCell sqrt v 0 = zeros v := by
  have e : ∀ w : List K, w.map (fun x => x * 0) = List.replicate w.length 0 := by
    intro w; simp
  unfold setCell
  rw [e, divWhere_length]; simp [zeros]

/-- getter after setter: the norm read back from a rescaled non-zero cell is `|t|` -/
theorem normCell_setCell (sqrt : K → K) (v : List K) (t : K)
    (hs : SqrtAt sqrt (sqLen v)) (hnz : sqLen v ≠ 0) (ht : SqrtAt sqrt (t * t)) :
    normCell sqrt (setCell sqrt v t) = |t| := by
  unfold normCell
  rw [setCell_sqLen sqrt v t hs hnz]; exact ht.mul_self

/-- setting the same non-negative norm twice changes nothing the second time -/
theorem setCell_idem (sqrt : K → K) (v : List K) (t : K)
    (hs : SqrtAt sqrt (sqLen v)) (hnz : sqLen v ≠ 0) (ht : SqrtAt sqrt (t * t)) (h0 : 0 ≤ t) :
    setCell sqrt (setCell sqrt v t) t = setCell sqrt v t := by
  rcases eq_or_lt_of_le h0 with rfl | hpos
  · rw [setCell_target_zero, setCell_target_zero, zeros_zeros]
  · have hl : sqLen (setCell sqrt v t) = t * t := setCell_sqLen sqrt v t hs hnz
    have hne : t * t ≠ 0 := (mul_pos hpos hpos).ne'
    rw [setCell_nonzero sqrt (setCell sqrt v t) t (by rw [hl]; exact ht) (by rw [hl]; exact hne), hl,
      ht.mul_self, abs_of_pos hpos, div_self hpos.ne', smul_one]

/-- the setter forgets the old magnitude: a positive rescaling of the input does not change the result -/
theorem setCell_scale_invariant (sqrt : K → K) (v : List K) (c t : K) (hc : 0 < c)
    (hs : SqrtAt sqrt (sqLen v)) (hs' : SqrtAt sqrt (sqLen (smul c v))) (hnz : sqLen v ≠ 0) :
    setCell sqrt (smul c v) t = setCell sqrt v t := by
  have hl : sqLen (smul c v) = c * c * sqLen v := sqLen_smul c v
  have hnz' : sqLen (smul c v) ≠ 0 := by rw [hl]; exact mul_ne_zero (mul_pos hc hc).ne' hnz
  have hroot : sqrt (sqLen (smul c v)) = c * sqrt (sqLen v) :=
    hs'.unique (mul_nonneg hc.le hs.1) (by rw [hl]; have := hs.2; nlinarith [this])
  have hne : sqrt (sqLen v) ≠ 0 := fun e => hnz (hs.eq_zero_iff.mp e)
  rw [setCell_nonzero sqrt _ t hs' hnz', setCell_nonzero sqrt v t hs hnz, hroot, smul_smul]
  congr 1
  field_simp

/-- above the threshold the orientation is `v/‖v‖` -/
theorem orientCell_far (sqrt : K → K) (atol : K) (v : List K) (hat : atol < normCell sqrt v) :
    orientCell sqrt atol v = v.map fun x => x / normCell sqrt v := by
  unfold orientCell
  have : closeZero atol (normCell sqrt v) = false := by
    rw [closeZero_eq, decide_eq_false_iff_not, not_le]
    exact lt_of_lt_of_le hat (le_abs_self _)
  simp [this]

/-- **orientation has unit length wherever the norm exceeds the absolute threshold** -/
theorem orientCell_unit (sqrt : K → K) (atol : K) (v : List K) (h0 : 0 ≤ atol)
    (hs : SqrtAt sqrt (sqLen v)) (hat : atol < normCell sqrt v) :
    sqLen (orientCell sqrt atol v) = 1 := by
  have hpos : 0 < sqrt (sqLen v) := lt_of_le_of_lt h0 hat
  rw [orientCell_far sqrt atol v hat, sqLen_map_div]
  unfold normCell
  rw [hs.2]
  exact div_self (fun e => hpos.ne' (hs.eq_zero_iff.mpr e))

/-- **… and is zero elsewhere** (code-level condition `|‖v‖| ≤ atol`, i.e. `np.isclose(‖v‖, 0)`) -/
theorem orientCell_zero (sqrt : K → K) (atol : K) (v : List K)
    (hle : |normCell sqrt v| ≤ atol) : orientCell sqrt atol v = zeros v := by
  unfold orientCell
  have : closeZero atol (normCell sqrt v) = true := by
    rw [closeZero_eq, decide_eq_true_iff]; exact hle
  simp [this]

/-- the same with the redundant absolute value removed (`‖v‖ ≥ 0`) -/
theorem orientCell_zero_le (sqrt : K → K) (atol : K) (v : List K) (hs : SqrtAt sqrt (sqLen v))
    (hle : normCell sqrt v ≤ atol) : orientCell sqrt atol v = zeros v :=
  orientCell_zero sqrt atol v (by unfold normCell at *; rw [abs_of_nonneg hs.1]; exact hle)

/-- every cell of the orientation is either zero (`‖v‖ ≤ atol`) or a unit vector (`‖v‖ > atol`) — nothing in between -/
theorem orientCell_dichotomy (sqrt : K → K) (atol : K) (v : List K) (h0 : 0 ≤ atol)
    (hs : SqrtAt sqrt (sqLen v)) :
    (normCell sqrt v ≤ atol ∧ orientCell sqrt atol v = zeros v) ∨
    (atol < normCell sqrt v ∧ sqLen (orientCell sqrt atol v) = 1) := by
  rcases le_or_gt (normCell sqrt v) atol with h | h
  · exact Or.inl ⟨h, orientCell_zero_le sqrt atol v hs h⟩
  · exact Or.inr ⟨h, orientCell_unit sqrt atol v h0 hs h⟩

/-- **orientation × norm reproduces the field** wherever `‖v‖ > atol` or `v = 0` (only the cells with `0 < ‖v‖ ≤ atol` are lost) -/
theorem orientCell_times_norm (sqrt : K → K) (atol : K) (v : List K) (h0 : 0 ≤ atol)
    (hz : SqrtAt sqrt 0) (h : atol < normCell sqrt v ∨ ∀ x ∈ v, x = 0) :
    (orientCell sqrt atol v).map (fun x => x * normCell sqrt v) = v := by
  rcases h with hat | hzero
  · have hne : normCell sqrt v ≠ 0 := (lt_of_le_of_lt h0 hat).ne'
    rw [orientCell_far sqrt atol v hat, List.map_map]
    conv_rhs => rw [← List.map_id v]
    apply List.map_congr_left
    intro x _
    simp only [Function.comp, id]
    field_simp
  · have hn : normCell sqrt v = 0 := by
      unfold normCell; rw [(sqLen_eq_zero_iff v).mpr hzero]; exact hz.zero
    rw [orientCell_zero sqrt atol v (by rw [hn, abs_zero]; exact h0), map_mul_zeros]
    exact (eq_zeros_of_all_zero hzero).symm

/-- above the threshold the orientation is what setting the norm to 1 gives -/
theorem orientCell_eq_setCell_one (sqrt : K → K) (atol : K) (v : List K) (h0 : 0 ≤ atol)
    (hat : atol < normCell sqrt v) : orientCell sqrt atol v = setCell sqrt v 1 := by
  have hne : normCell sqrt v ≠ 0 := (lt_of_le_of_lt h0 hat).ne'
  rw [orientCell_far sqrt atol v hat]
  unfold setCell
  rw [divWhere_ne _ _ hne, List.map_map]
  apply List.map_congr_left
  intro x _
  simp

/-- orientation does not depend on the magnitude (both vectors above the threshold) -/
theorem orientCell_scale_invariant (sqrt : K → K) (atol : K) (v : List K) (c : K) (hc : 0 < c)
    (h0 : 0 ≤ atol) (hs : SqrtAt sqrt (sqLen v)) (hs' : SqrtAt sqrt (sqLen (smul c v)))
    (hat : atol < normCell sqrt v) (hat' : atol < normCell sqrt (smul c v)) :
    orientCell sqrt atol (smul c v) = orientCell sqrt atol v := by
  have hl : sqLen (smul c v) = c * c * sqLen v := sqLen_smul c v
  have hroot : sqrt (sqLen (smul c v)) = c * sqrt (sqLen v) :=
    hs'.unique (mul_nonneg hc.le hs.1) (by rw [hl]; have := hs.2; nlinarith [this])
  have hne : sqrt (sqLen v) ≠ 0 := (lt_of_le_of_lt h0 hat).ne'
  rw [orientCell_far sqrt atol _ hat', orientCell_far sqrt atol v hat]
  unfold normCell
  rw [hroot]
  unfold smul
  rw [List.map_map]
  apply List.map_congr_left
  intro x _
  simp only [Function.comp]
  field_simp

/-- **unchanged direction, in the library's own vocabulary**: setting a norm above the
threshold does not change the orientation of a cell that was above the threshold -/
theorem orientCell_setCell (sqrt : K → K) (atol : K) (v : List K) (t : K) (h0 : 0 ≤ atol)
    (hs : SqrtAt sqrt (sqLen v)) (ht : SqrtAt sqrt (t * t))
    (hat : atol < normCell sqrt v) (htt : atol < t) :
    orientCell sqrt atol (setCell sqrt v t) = orientCell sqrt atol v := by
  have hpos : 0 < sqrt (sqLen v) := lt_of_le_of_lt h0 hat
  have hnz : sqLen v ≠ 0 := fun e => hpos.ne' (hs.eq_zero_iff.mpr e)
  have htpos : 0 < t := lt_of_le_of_lt h0 htt
  have hl : sqLen (setCell sqrt v t) = t * t := setCell_sqLen sqrt v t hs hnz
  have hn : normCell sqrt (setCell sqrt v t) = t := by
    rw [normCell_setCell sqrt v t hs hnz ht, abs_of_pos htpos]
  have e := setCell_nonzero sqrt v t hs hnz
  have hs' : SqrtAt sqrt (sqLen (smul (t / sqrt (sqLen v)) v)) := by rw [← e, hl]; exact ht
  rw [e]
  exact orientCell_scale_invariant sqrt atol v _ (div_pos htpos hpos) h0 hs hs' hat
    (by rw [← e, hn]; exact htt)

/-- **The property's sentence about the setter, for one cell**: whatever the old vector and
the target, the cell ends `Rescaled` — non-zero ⇒ squared length `t²`, parallel, same sense
for `t > 0`; zero ⇒ still zero. -/
theorem setCell_rescaled (sqrt : K → K) (v : List K) (t : K)
    (hs : SqrtAt sqrt (sqLen v)) (h0 : SqrtAt sqrt 0) : Rescaled v (setCell sqrt v t) t := by
  refine ⟨setCell_length sqrt v t, fun hnz => ⟨setCell_sqLen sqrt v t hs hnz,
    setCell_cross sqrt v t hs hnz, setCell_direction sqrt v t hs hnz⟩, fun hz => ?_⟩
  have hz' := (sqLen_eq_zero_iff v).mp hz
  rw [setCell_zero sqrt v t h0 hz']
  exact (eq_zeros_of_all_zero hz').symm

end Cell

/-! ### non-vacuity: the hypotheses are met by the executable root on concrete cells -/

example : SqrtAt sqrtQ (sqLen ([3, 4] : List Rat)) := by
  have h : sqLen ([3, 4] : List Rat) = 5 * 5 := by norm_num [sqLen]
  rw [h]; exact sqrtQ_sqrtAt 5
example : sqLen ([3, 4] : List Rat) ≠ 0 := by norm_num [sqLen]
example : SqrtAt sqrtQ (sqLen (smul (2 : Rat) [3, 4])) := by
  have h : sqLen (smul (2 : Rat) [3, 4]) = 10 * 10 := by norm_num [sqLen, smul]
  rw [h]; exact sqrtQ_sqrtAt 10
example : SqrtAt sqrtQ ((7 : Rat) * 7) := sqrtQ_sqrtAt 7
example : SqrtAt sqrtQ 0 := sqrtQ_zero
/-- the conclusion on that cell, computed: (3,4) set to norm 10 is (6,8) -/
example : setCell sqrtQ [3, 4] 10 = [6, 8] := by
  have h : sqLen ([3, 4] : List Rat) = 5 * 5 := by norm_num [sqLen]
  rw [setCell_nonzero sqrtQ _ _ (by rw [h]; exact sqrtQ_sqrtAt 5) (by norm_num [sqLen]), h,
    sqrtQ_mul_self]
  norm_num [smul]
example : atolDefault < normCell sqrtQ [3, 4] := by
  have h : sqLen ([3, 4] : List Rat) = 5 * 5 := by norm_num [sqLen]
  unfold normCell; rw [h, sqrtQ_mul_self]; norm_num [atolDefault]
example : normCell sqrtQ [0, 0] ≤ atolDefault := by
  have h : sqLen ([0, 0] : List Rat) = 0 * 0 := by norm_num [sqLen]
  unfold normCell; rw [h, sqrtQ_mul_self]; norm_num [atolDefault]

/-! ## One cell: which cells count as zero, scalars -/
section Cell2
variable {K : Type} [Field K] [LinearOrder K] [IsStrictOrderedRing K]

/-- **which cells count as zero for the orientation**, without a root: exactly those whose
*squared vector length* is at most `atol²` — the guard is on the length of the cell's
vector, not on its components -/
theorem orientCell_zero_iff (sqrt : K → K) (atol : K) (v : List K) (h0 : 0 ≤ atol)
    (hs : SqrtAt sqrt (sqLen v)) :
    closeZero atol (normCell sqrt v) = true ↔ sqLen v ≤ atol * atol := by
  rw [closeZero_eq, decide_eq_true_iff]
  unfold normCell
  rw [abs_of_nonneg hs.1]
  constructor
  · intro h
    rw [← hs.2]
    exact mul_le_mul h h hs.1 h0
  · intro h
    by_contra hc
    have hc' : atol < sqrt (sqLen v) := not_le.mp hc
    have : atol * atol < sqrt (sqLen v) * sqrt (sqLen v) := mul_lt_mul'' hc' hc' h0 h0
    rw [hs.2] at this
    exact absurd h (not_le.mpr this)

/-- **the zero guard is per cell, not per component**: whether a cell is normalised depends on
the length of its vector only — a cell whose vector is longer than the threshold is
normalised to unit length even if every single component is below the threshold (example
below: four components of 6e-9) -/
theorem orientCell_guard_per_cell (sqrt : K → K) (atol : K) (v : List K) (h0 : 0 ≤ atol)
    (hs : SqrtAt sqrt (sqLen v)) (hlen : atol * atol < sqLen v) :
    sqLen (orientCell sqrt atol v) = 1 ∧
    orientCell sqrt atol v = v.map fun x => x / normCell sqrt v := by
  have hat : atol < normCell sqrt v := by
    by_contra hc
    have := (orientCell_zero_iff sqrt atol v h0 hs).mp (by
      rw [closeZero_eq, decide_eq_true_iff]; unfold normCell; rw [abs_of_nonneg hs.1]
      exact not_lt.mp hc)
    exact absurd this (not_le.mpr hlen)
  exact ⟨orientCell_unit sqrt atol v h0 hs hat, orientCell_far sqrt atol v hat⟩

/-- **the setter has no threshold**: every cell with some non-zero component — however
small, also below the orientation's threshold — is rescaled to the target length, while the
orientation of the same cell is zero (the code guards the setter with `norm != 0.0` and
the orientation with `np.isclose(norm, 0)`) -/
theorem setCell_no_threshold (sqrt : K → K) (atol : K) (v : List K) (t : K) (h0 : 0 ≤ atol)
    (hs : SqrtAt sqrt (sqLen v)) (hex : ∃ x ∈ v, x ≠ 0) (hsmall : sqLen v ≤ atol * atol) :
    sqLen (setCell sqrt v t) = t * t ∧ orientCell sqrt atol v = zeros v := by
  obtain ⟨x, hx, hne⟩ := hex
  have hnz : sqLen v ≠ 0 := fun e => hne ((sqLen_eq_zero_iff v).mp e x hx)
  refine ⟨setCell_sqLen sqrt v t hs hnz, ?_⟩
  unfold orientCell
  rw [(orientCell_zero_iff sqrt atol v h0 hs).mpr hsmall]
  rfl

/-- **scalar fields**: the setter turns a non-zero scalar `a` into `±t` with the sign of `a` -/
theorem setCell_scalar (sqrt : K → K) (a t : K) (hs : SqrtAt sqrt (a * a)) (ha : a ≠ 0) :
    setCell sqrt [a] t = [if 0 < a then t else -t] := by
  have e : sqLen [a] = a * a := by simp [sqLen]
  have hs' : SqrtAt sqrt (sqLen [a]) := by rw [e]; exact hs
  have hnz : sqLen [a] ≠ 0 := by rw [e]; exact mul_self_ne_zero.mpr ha
  rw [setCell_nonzero sqrt [a] t hs' hnz, e, hs.mul_self]
  unfold smul
  simp only [List.map_cons, List.map_nil, List.cons.injEq, and_true]
  have habs : |a| ≠ 0 := abs_ne_zero.mpr ha
  split
  · rename_i hpos
    rw [abs_of_pos hpos]; field_simp
  · rename_i hneg
    have : a < 0 := lt_of_le_of_ne (not_lt.mp hneg) ha
    rw [abs_of_neg this]; field_simp

/-- **scalar fields**: the orientation of a scalar is its sign above the threshold, zero at or
below it -/
theorem orientCell_scalar (sqrt : K → K) (atol a : K) (hs : SqrtAt sqrt (a * a)) (h0 : 0 ≤ atol) :
    orientCell sqrt atol [a] = [if |a| ≤ atol then 0 else if 0 < a then 1 else -1] := by
  have e : sqLen [a] = a * a := by simp [sqLen]
  have hn : normCell sqrt [a] = |a| := by unfold normCell; rw [e, hs.mul_self]
  by_cases hle : |a| ≤ atol
  · rw [if_pos hle, orientCell_zero sqrt atol [a] (by rw [hn, abs_abs]; exact hle)]
    rfl
  · have hat : atol < normCell sqrt [a] := by rw [hn]; exact not_le.mp hle
    rw [if_neg hle, orientCell_far sqrt atol [a] hat, hn]
    simp only [List.map_cons, List.map_nil, List.cons.injEq, and_true]
    have hapos : 0 < |a| := lt_of_le_of_lt h0 (not_le.mp hle)
    have ha : a ≠ 0 := abs_pos.mp hapos
    split
    · rename_i hpos
      rw [abs_of_pos hpos]; field_simp
    · rename_i hneg
      have : a < 0 := lt_of_le_of_ne (not_lt.mp hneg) ha
      rw [abs_of_neg this]; field_simp

end Cell2

/-- four components of 6e-9 each: every component is below the threshold 1e-8, the vector
(length 1.2e-8) is above it -/
example : (∀ x ∈ ([6/1000000000, 6/1000000000, 6/1000000000, 6/1000000000] : List Rat), |x| ≤ atolDefault) ∧
    atolDefault * atolDefault < sqLen ([6/1000000000, 6/1000000000, 6/1000000000, 6/1000000000] : List Rat) ∧
    SqrtAt sqrtQ (sqLen ([6/1000000000, 6/1000000000, 6/1000000000, 6/1000000000] : List Rat)) := by
  refine ⟨?_, ?_, ?_⟩
  · intro x hx
    simp only [List.mem_cons, List.not_mem_nil, or_false, or_self] at hx
    subst hx
    rw [abs_of_pos (by norm_num)]; norm_num [atolDefault]
  · norm_num [sqLen, atolDefault]
  · have : sqLen ([6/1000000000, 6/1000000000, 6/1000000000, 6/1000000000] : List Rat) =
        (12/1000000000) * (12/1000000000) := by norm_num [sqLen]
    rw [this]; exact sqrtQ_sqrtAt _
/-- a non-zero scalar with a rational root of its square -/
example : SqrtAt sqrtQ ((-7 : Rat) * (-7)) ∧ (-7 : Rat) ≠ 0 := ⟨sqrtQ_sqrtAt (-7), by norm_num⟩
/-- a non-zero vector below the orientation's threshold (length 5e-9) -/
example : (∃ x ∈ ([3/1000000000, 4/1000000000] : List Rat), x ≠ 0) ∧
    sqLen ([3/1000000000, 4/1000000000] : List Rat) ≤ atolDefault * atolDefault := by
  refine ⟨⟨3/1000000000, by simp, by norm_num⟩, by norm_num [sqLen, atolDefault]⟩

/-! ## Whole fields (rational model run by the driver) -/
section Field
variable (sqrt : Rat → Rat)

/-- **Norm getter**: a one-component field on the same mesh with the same unit and validity;
its value at every cell is the non-negative number whose square is `Σ_c v_c²`. -/
theorem norm_eq (f : Fld) :
    (norm sqrt f).mesh = f.mesh ∧ (norm sqrt f).nvdim = 1 ∧ (norm sqrt f).unit = f.unit ∧
    (norm sqrt f).data.shape = f.mesh.n ∧
    (∀ i, (norm sqrt f).valid.get i = f.valid.get i) ∧
    ∀ i, SqrtAt sqrt (sqLen (f.data.get i)) →
      ∃ x, (norm sqrt f).data.get i = [x] ∧ 0 ≤ x ∧ x * x = sqLen (f.data.get i) :=
  ⟨rfl, rfl, rfl, rfl, fun _ => rfl, fun _ h => ⟨_, rfl, h.1, h.2⟩⟩

/-- … and the absolute value for scalar fields -/
theorem norm_scalar (f : Fld) (i : List Nat) (a : Rat) (hv : f.data.get i = [a])
    (hs : SqrtAt sqrt (a * a)) : (norm sqrt f).data.get i = [|a|] := by
  show [normCell sqrt (f.data.get i)] = [|a|]
  rw [hv]
  have e : sqLen [a] = a * a := by simp [sqLen]
  unfold normCell
  rw [e, hs.mul_self]

/-- the setter touches the array only: mesh, component count, validity, unit, labels and
mapping are the receiver's; `None` is a no-op -/
theorem setNorm_frame (f g : Fld) (s : Option NSpec) (h : setNorm sqrt f s = .ok g) :
    g.mesh = f.mesh ∧ g.nvdim = f.nvdim ∧ g.valid = f.valid ∧ g.unit = f.unit ∧
    g.vdims = f.vdims ∧ g.vmap = f.vmap ∧ (s = none → g = f) := by
  cases s with
  | none =>
    rw [setNorm_none] at h
    simp only [Except.ok.injEq] at h
    subst h; exact ⟨rfl, rfl, rfl, rfl, rfl, rfl, fun _ => rfl⟩
  | some s =>
    obtain ⟨t, _, rfl⟩ := setNorm_some_ok h
    exact ⟨rfl, rfl, rfl, rfl, rfl, rfl, fun e => by cases e⟩

/-- **Setter, any specification**: if `_as_array(spec, nvdim=1)` evaluates to the per-cell
targets `t`, then every cell ends `Rescaled` to its own target `t i`. -/
theorem setNorm_rescaled (f g : Fld) (s : NSpec) (t : NDA Rat)
    (ht : asArray1 f.mesh s = .ok t) (h : setNorm sqrt f (some s) = .ok g) (i : List Nat)
    (hs : SqrtAt sqrt (sqLen (f.data.get i))) (h0 : SqrtAt sqrt 0) :
    Rescaled (f.data.get i) (g.data.get i) (t.get i) := by
  rw [setNorm_of_target ht] at h
  simp only [Except.ok.injEq] at h
  subst h
  exact setCell_rescaled sqrt _ _ hs h0

/-- explicit form on a non-zero cell: `(t_i/‖v‖)·v` -/
theorem setNorm_nonzero (f g : Fld) (s : NSpec) (t : NDA Rat)
    (ht : asArray1 f.mesh s = .ok t) (h : setNorm sqrt f (some s) = .ok g) (i : List Nat)
    (hs : SqrtAt sqrt (sqLen (f.data.get i))) (hnz : sqLen (f.data.get i) ≠ 0) :
    g.data.get i = smul (t.get i / sqrt (sqLen (f.data.get i))) (f.data.get i) := by
  rw [setNorm_of_target ht] at h
  simp only [Except.ok.injEq] at h
  subst h
  exact setCell_nonzero sqrt _ _ hs hnz

/-- a cell whose target is zero ends zero ("zero in places") -/
theorem setNorm_target_zero (f g : Fld) (s : NSpec) (t : NDA Rat)
    (ht : asArray1 f.mesh s = .ok t) (h : setNorm sqrt f (some s) = .ok g) (i : List Nat)
    (hz : t.get i = 0) : g.data.get i = zeros (f.data.get i) := by
  rw [setNorm_of_target ht] at h
  simp only [Except.ok.injEq] at h
  subst h
  show setCell sqrt (f.data.get i) (t.get i) = _
  rw [hz]; exact setCell_target_zero sqrt _

/-- **constant norm**: always accepted; every cell is rescaled to `c` -/
theorem setNorm_const (f : Fld) (c : Rat) :
    ∃ g, setNorm sqrt f (some (.const c)) = .ok g ∧
      ∀ i, SqrtAt sqrt (sqLen (f.data.get i)) → SqrtAt sqrt 0 →
        Rescaled (f.data.get i) (g.data.get i) c :=
  ⟨_, setNorm_of_target (asArray1_const f.mesh c), fun i hs h0 =>
    setNorm_rescaled sqrt f _ (.const c) _ (asArray1_const f.mesh c)
      (setNorm_of_target (asArray1_const f.mesh c)) i hs h0⟩

/-- **per-cell array** of the mesh's shape: accepted; cell `i` is rescaled to `a[i]` -/
theorem setNorm_array (f : Fld) (a : NDA Rat) (hshape : a.shape = f.mesh.n) :
    ∃ g, setNorm sqrt f (some (.arr a)) = .ok g ∧
      ∀ i, SqrtAt sqrt (sqLen (f.data.get i)) → SqrtAt sqrt 0 →
        Rescaled (f.data.get i) (g.data.get i) (a.get i) :=
  ⟨_, setNorm_of_target (asArray1_arr f.mesh a hshape), fun i hs h0 =>
    setNorm_rescaled sqrt f _ (.arr a) _ (asArray1_arr f.mesh a hshape)
      (setNorm_of_target (asArray1_arr f.mesh a hshape)) i hs h0⟩

/-- per-cell array with an explicit component axis, shape `(*mesh.n, 1)`: accepted; every
in-range cell `i` is rescaled to `a[i, 0]` -/
theorem setNorm_array_col (f : Fld) (a : NDA Rat) (hshape : a.shape = f.mesh.n ++ [1]) :
    ∃ g, setNorm sqrt f (some (.arr a)) = .ok g ∧
      ∀ i : List Nat, i.length = f.mesh.n.length →
        (∀ k, k < f.mesh.n.length → i.getD k 0 < f.mesh.n.getD k 0) →
        SqrtAt sqrt (sqLen (f.data.get i)) → SqrtAt sqrt 0 →
        Rescaled (f.data.get i) (g.data.get i) (a.get (i ++ [0])) := by
  obtain ⟨t, ht, _, hget⟩ := bcastArr_col f.mesh a hshape
  refine ⟨_, setNorm_of_target (s := .arr a) ht, fun i hl hr hs h0 => ?_⟩
  rw [← hget i hl hr]
  exact setNorm_rescaled sqrt f _ (.arr a) t ht (setNorm_of_target (s := .arr a) ht) i hs h0

/-- **function of position**: accepted; cell `i` is rescaled to the function's value at the
centre of cell `i` -/
theorem setNorm_callable (f : Fld) (fn : List Rat → Rat) :
    ∃ g, setNorm sqrt f (some (.fn fn)) = .ok g ∧
      ∀ i, SqrtAt sqrt (sqLen (f.data.get i)) → SqrtAt sqrt 0 →
        Rescaled (f.data.get i) (g.data.get i) (fn (f.mesh.centre i)) :=
  ⟨_, setNorm_of_target (asArray1_fn f.mesh fn), fun i hs h0 =>
    setNorm_rescaled sqrt f _ (.fn fn) _ (asArray1_fn f.mesh fn)
      (setNorm_of_target (asArray1_fn f.mesh fn)) i hs h0⟩

/-- an array-like whose last axis is not 1 (and which is not of the mesh's shape) is
rejected — it could only be meant as a vector -/
theorem setNorm_array_rejected (f : Fld) (a : NDA Rat) (h1 : a.shape ≠ f.mesh.n)
    (h2 : a.shape.getLast? ≠ some 1) : setNorm sqrt f (some (.arr a)) = .error .value := by
  simp [setNorm, asArray1, bcastArr, h1, h2]

/-- **getter after setter**: reading the norm back gives `|t_i|` on the cells that were
non-zero and 0 on the cells that were zero -/
theorem norm_setNorm (f g : Fld) (s : NSpec) (t : NDA Rat)
    (ht : asArray1 f.mesh s = .ok t) (h : setNorm sqrt f (some s) = .ok g) (i : List Nat)
    (hs : SqrtAt sqrt (sqLen (f.data.get i))) (h0 : SqrtAt sqrt 0)
    (htt : SqrtAt sqrt (t.get i * t.get i)) :
    (norm sqrt g).data.get i = [if sqLen (f.data.get i) = 0 then 0 else |t.get i|] := by
  rw [setNorm_of_target ht] at h
  simp only [Except.ok.injEq] at h
  subst h
  show [normCell sqrt (setCell sqrt (f.data.get i) (t.get i))] = _
  split
  · rename_i hz
    rw [setCell_zero sqrt _ _ h0 ((sqLen_eq_zero_iff _).mp hz)]
    unfold normCell; rw [sqLen_zeros, h0.zero]
  · rename_i hnz
    rw [normCell_setCell sqrt _ _ hs hnz htt]

/-! ### orientation -/

/-- orientation keeps mesh, component count, mapping and validity; it carries no unit; the labels
are kept if there are any (or the field is a scalar field) — a vector field without labels comes
back with the constructor's default labels, because the getter passes `vdims=None` on -/
theorem orientation_frame (atol : Rat) (f : Fld) :
    (orientation sqrt atol f).mesh = f.mesh ∧ (orientation sqrt atol f).nvdim = f.nvdim ∧
    (orientation sqrt atol f).vdims = orientVdims f ∧
    (f.vdims ≠ none ∨ f.nvdim = 1 → (orientation sqrt atol f).vdims = f.vdims) ∧
    (orientation sqrt atol f).vmap = f.vmap ∧
    (orientation sqrt atol f).unit = none ∧
    (∀ i, (orientation sqrt atol f).valid.get i = f.valid.get i) ∧
    ∀ i, ((orientation sqrt atol f).data.get i).length = (f.data.get i).length := by
  refine ⟨rfl, rfl, rfl, fun h => ?_, rfl, rfl, fun _ => rfl, fun i => ?_⟩
  · show orientVdims f = f.vdims
    unfold orientVdims
    cases hv : f.vdims with
    | some l => rfl
    | none =>
      rcases h with h | h
      · exact absurd hv h
      · simp [Fld.defaultVdims, h]
  · show (orientCell sqrt atol (f.data.get i)).length = _
    unfold orientCell zeros
    split <;> simp

/-- **unit length wherever the field is non-zero** (norm above the absolute threshold) -/
theorem orientation_unit (atol : Rat) (h0 : 0 ≤ atol) (f : Fld) (i : List Nat)
    (hs : SqrtAt sqrt (sqLen (f.data.get i))) (hat : atol < normCell sqrt (f.data.get i)) :
    sqLen ((orientation sqrt atol f).data.get i) = 1 :=
  orientCell_unit sqrt atol _ h0 hs hat

/-- **zero elsewhere**: lengths up to the threshold count as zero -/
theorem orientation_zero (atol : Rat) (f : Fld) (i : List Nat)
    (hs : SqrtAt sqrt (sqLen (f.data.get i))) (hle : normCell sqrt (f.data.get i) ≤ atol) :
    (orientation sqrt atol f).data.get i = zeros (f.data.get i) :=
  orientCell_zero_le sqrt atol _ hs hle

/-- **orientation times norm reproduces the field** (cell-wise product of the two arrays)
on every cell that is above the threshold or exactly zero -/
theorem orientation_times_norm (atol : Rat) (h0 : 0 ≤ atol) (hz : SqrtAt sqrt 0) (f : Fld)
    (i : List Nat)
    (h : atol < normCell sqrt (f.data.get i) ∨ ∀ x ∈ f.data.get i, x = 0) :
    ((orientation sqrt atol f).data.get i).map
        (fun x => x * ((norm sqrt f).data.get i).getD 0 0) = f.data.get i :=
  orientCell_times_norm sqrt atol _ h0 hz h

/-- above the threshold, orientation is the field with its norm set to 1 -/
theorem orientation_eq_setNorm_one (atol : Rat) (h0 : 0 ≤ atol) (f g : Fld)
    (h : setNorm sqrt f (some (.const 1)) = .ok g) (i : List Nat)
    (hat : atol < normCell sqrt (f.data.get i)) :
    (orientation sqrt atol f).data.get i = g.data.get i := by
  rw [setNorm_of_target (asArray1_const f.mesh 1)] at h
  simp only [Except.ok.injEq] at h
  subst h
  exact orientCell_eq_setCell_one sqrt atol _ h0 hat

/-- **unchanged direction** at field level: wherever the old length and the target both
exceed the threshold, the orientation field is the same before and after the assignment -/
theorem setNorm_keeps_orientation (atol : Rat) (h0 : 0 ≤ atol) (f g : Fld) (s : NSpec) (t : NDA Rat)
    (ht : asArray1 f.mesh s = .ok t) (h : setNorm sqrt f (some s) = .ok g) (i : List Nat)
    (hs : SqrtAt sqrt (sqLen (f.data.get i))) (htt : SqrtAt sqrt (t.get i * t.get i))
    (hat : atol < normCell sqrt (f.data.get i)) (hta : atol < t.get i) :
    (orientation sqrt atol g).data.get i = (orientation sqrt atol f).data.get i := by
  rw [setNorm_of_target ht] at h
  simp only [Except.ok.injEq] at h
  subst h
  exact orientCell_setCell sqrt atol _ _ h0 hs htt hat hta

/-! ### constructor order, `valid="norm"`, later updates -/

/-- **Constructor order values → norm → validity**: the array of `Field(mesh, nvdim,
value, norm=s, valid=…)` is the value array rescaled cell by cell to the norm's targets,
and the validity is what the `valid` specification yields on that *final* array. -/
theorem mk_order (atol : Rat) (m : Mesh) (nvdim : Nat) (value : VSpec) (s : NSpec)
    (valid : ValidSpec) (unit : Option String) (g : Fld)
    (h : mk? sqrt atol m nvdim value (some s) valid unit = .ok g) :
    ∃ a t, valuesOf m nvdim value = .ok a ∧ asArray1 m s = .ok t ∧
      (∀ i, g.data.get i = setCell sqrt (a.get i) (t.get i)) ∧
      validOf sqrt atol g valid = .ok g.valid ∧
      g.mesh = m ∧ g.nvdim = nvdim ∧ g.unit = unit := by
  obtain ⟨_, a, ha, f1, h1, vd, hvd, rfl⟩ := mk_ok h
  obtain ⟨t, ht, rfl⟩ := setNorm_some_ok h1
  refine ⟨a, t, ha, ht, fun _ => rfl, ?_, rfl, rfl, rfl⟩
  cases valid <;> exact hvd

/-- without a norm the constructor stores the values as they are -/
theorem mk_no_norm (atol : Rat) (m : Mesh) (nvdim : Nat) (value : VSpec)
    (valid : ValidSpec) (unit : Option String) (g : Fld)
    (h : mk? sqrt atol m nvdim value none valid unit = .ok g) :
    ∃ a, valuesOf m nvdim value = .ok a ∧ ∀ i, g.data.get i = a.get i := by
  obtain ⟨_, a, ha, f1, h1, vd, hvd, rfl⟩ := mk_ok h
  rw [setNorm_none] at h1
  simp only [Except.ok.injEq] at h1
  subst h1
  exact ⟨a, ha, fun _ => rfl⟩

/-- **`valid="norm"` sees the array after the norm was applied**: a cell is valid iff its
value vector was non-zero *and* its target norm exceeds the threshold in absolute value. -/
theorem mk_valid_byNorm (atol : Rat) (h0 : 0 ≤ atol) (m : Mesh) (nvdim : Nat) (value : VSpec)
    (s : NSpec) (unit : Option String) (g : Fld) (a : NDA (List Rat)) (t : NDA Rat)
    (h : mk? sqrt atol m nvdim value (some s) .byNorm unit = .ok g)
    (ha : valuesOf m nvdim value = .ok a) (ht : asArray1 m s = .ok t) (i : List Nat)
    (hs : SqrtAt sqrt (sqLen (a.get i))) (hz : SqrtAt sqrt 0)
    (htt : SqrtAt sqrt (t.get i * t.get i)) :
    g.valid.get i = true ↔ sqLen (a.get i) ≠ 0 ∧ atol < |t.get i| := by
  obtain ⟨_, a', ha', f1, h1, vd, hvd, rfl⟩ := mk_ok h
  rw [ha] at ha'; cases ha'
  obtain ⟨t', ht', rfl⟩ := setNorm_some_ok h1
  have ht'' : asArray1 m s = .ok t' := ht'
  rw [ht] at ht''; cases ht''
  simp only [validOf, Except.ok.injEq] at hvd
  subst hvd
  show (!closeZero atol (normCell sqrt (setCell sqrt (a.get i) (t.get i)))) = true ↔ _
  rw [closeZero_eq]
  by_cases hnz : sqLen (a.get i) = 0
  · rw [setCell_zero sqrt _ _ hz ((sqLen_eq_zero_iff _).mp hnz)]
    unfold normCell
    rw [sqLen_zeros, hz.zero]
    simp [hnz, h0]
  · rw [normCell_setCell sqrt _ _ hs hnz htt]
    simp [hnz]

/-- **Later value updates do not re-apply an earlier norm**: after
`Field(…, norm=s)`, `update_field_values(v')` stores exactly the array `v'` evaluates to
(nothing is rescaled), and leaves the validity alone. -/
theorem update_forgets_norm (atol : Rat) (m : Mesh) (nvdim : Nat) (value value' : VSpec)
    (s : Option NSpec) (valid : ValidSpec) (unit : Option String) (g g' : Fld)
    (h : mk? sqrt atol m nvdim value s valid unit = .ok g)
    (hu : updateValues g value' = .ok g') :
    ∃ a', valuesOf m nvdim value' = .ok a' ∧ (∀ i, g'.data.get i = a'.get i) ∧
      g'.valid = g.valid ∧ g'.mesh = m := by
  obtain ⟨_, a, ha, f1, h1, vd, hvd, rfl⟩ := mk_ok h
  obtain ⟨a', ha', rfl⟩ := updateValues_ok hu
  obtain ⟨hm, hn, _⟩ := setNorm_frame sqrt _ f1 s h1
  refine ⟨a', ?_, fun _ => rfl, rfl, hm⟩
  have e1 : f1.mesh = m := hm
  have e2 : f1.nvdim = nvdim := hn
  simpa [e1, e2] using ha'

/-- … in particular the norm read after the update is the norm of the new values, not the
norm set earlier -/
theorem norm_after_update (atol : Rat) (m : Mesh) (nvdim : Nat) (value value' : VSpec)
    (s : Option NSpec) (valid : ValidSpec) (unit : Option String) (g g' : Fld) (a' : NDA (List Rat))
    (h : mk? sqrt atol m nvdim value s valid unit = .ok g)
    (hu : updateValues g value' = .ok g') (ha' : valuesOf m nvdim value' = .ok a') (i : List Nat) :
    (norm sqrt g').data.get i = [normCell sqrt (a'.get i)] := by
  obtain ⟨b, hb, hget, _, _⟩ := update_forgets_norm sqrt atol m nvdim value value' s valid unit g g' h hu
  rw [ha'] at hb; cases hb
  show [normCell sqrt (g'.data.get i)] = _
  rw [hget i]

end Field

/-! ### non-vacuity of the field-level hypotheses: a concrete constructor call succeeds -/

example : ∃ g, mk? sqrtQ atolDefault
    { region := { pmin := [0], pmax := [2], dims := ["x"], units := ["m"], tol := 0 },
      n := [2], bc := "", subs := [] } 2 (.vec [3, 4]) (some (.const 10)) .byNorm none = .ok g :=
  ⟨_, rfl⟩

/-! ## Validity, the getter as a constructor call, fields as norm, histories, acceptance -/
section Field2
variable (sqrt : Rat → Rat)

/-- **validity does not enter the norm setter**: the array after `field.norm = s` is the same
whatever the validity mask of the receiver is — masked cells are rescaled like all others -/
theorem setNorm_ignores_valid (f g : Fld) (vd : NDA Bool) (s : NSpec)
    (h : setNorm sqrt f (some s) = .ok g) :
    ∃ g', setNorm sqrt { f with valid := vd } (some s) = .ok g' ∧ g'.data = g.data ∧ g'.valid = vd := by
  obtain ⟨t, ht, rfl⟩ := setNorm_some_ok h
  exact ⟨_, setNorm_of_target (f := { f with valid := vd }) ht, rfl, rfl⟩

/-- … in particular an *invalid* cell with a non-zero vector ends with squared length `t_i²` -/
theorem setNorm_rescales_invalid (f g : Fld) (s : NSpec) (t : NDA Rat)
    (ht : asArray1 f.mesh s = .ok t) (h : setNorm sqrt f (some s) = .ok g) (i : List Nat)
    (hinv : f.valid.get i = false) (hs : SqrtAt sqrt (sqLen (f.data.get i)))
    (hnz : sqLen (f.data.get i) ≠ 0) :
    sqLen (g.data.get i) = t.get i * t.get i ∧ g.valid.get i = false := by
  rw [setNorm_of_target ht] at h
  simp only [Except.ok.injEq] at h
  subst h
  exact ⟨setCell_sqLen sqrt _ _ hs hnz, hinv⟩

/-- **constructor: the validity argument does not influence the array** (`norm=` is applied
to every cell before `valid=` is looked at) -/
theorem mk_data_ignores_valid (atol : Rat) (m : Mesh) (nvdim : Nat) (value : VSpec) (s : Option NSpec)
    (valid valid' : ValidSpec) (unit : Option String) (g g' : Fld)
    (h : mk? sqrt atol m nvdim value s valid unit = .ok g)
    (h' : mk? sqrt atol m nvdim value s valid' unit = .ok g') : g'.data = g.data := by
  obtain ⟨_, a, ha, f1, h1, vd, _, rfl⟩ := mk_ok h
  obtain ⟨_, a', ha', f1', h1', vd', _, rfl⟩ := mk_ok h'
  rw [ha] at ha'; cases ha'
  rw [h1] at h1'; cases h1'
  rfl

/-- **the norm getter is a constructor call** (`Field(mesh, nvdim=1, value=res, unit=…,
valid=self.valid)` with `res` the per-cell lengths): on a field whose validity array has the
mesh's shape that call is accepted and returns exactly `norm` -/
theorem norm_is_ctor_call (atol : Rat) (f : Fld) (hv : f.valid.shape = f.mesh.n) :
    mk? sqrt atol f.mesh 1 (.arr ⟨f.mesh.n, fun i => [normCell sqrt (f.data.get i)]⟩) none
      (.arr f.valid) f.unit = .ok (norm sqrt f) := by
  unfold mk? updateValues valuesOf setNorm setValid validOf
  simp [bcastArr_same f.mesh f.valid hv, norm, Fld.defaultVdims, defaultVmap]

/-! ### a field as norm -/

/-- **norm given as a field**: if the assignment is accepted, cell `i` is rescaled to the value
of the norm field at the cell containing the centre of cell `i` (a centre on a face goes
to the cell above) -/
theorem setNorm_field (f g h : Fld) (hm : f.mesh.Inv) (hh : h.mesh.Inv)
    (hg : setNorm sqrt f (some (.field h)) = .ok g) (i : List Nat)
    (hi : ∀ a, a < f.mesh.ndim → i.getD a 0 < f.mesh.nAt a)
    (hs : SqrtAt sqrt (sqLen (f.data.get i))) (h0 : SqrtAt sqrt 0) :
    Rescaled (f.data.get i) (g.data.get i)
      ((h.data.get (tab f.mesh.ndim fun a => h.mesh.indexAx a ((f.mesh.centre i).getD a 0))).getD 0 0) := by
  obtain ⟨t, ht, _⟩ := setNorm_some_ok hg
  have ht' : fieldAsArray1 f.mesh h = .ok t := ht
  rw [← fieldAsArray1_get ht' hm hh i hi]
  exact setNorm_rescaled sqrt f g (.field h) t ht hg i hs h0

/-- a one-component field **on the receiver's own mesh** is always accepted; cell `i` is
rescaled to that field's value at cell `i` -/
theorem setNorm_field_same_mesh (f h : Fld) (hm : f.mesh.Inv) (hmesh : h.mesh = f.mesh)
    (hnv : h.nvdim = 1) :
    ∃ g, setNorm sqrt f (some (.field h)) = .ok g ∧
      ∀ i : List Nat, i.length = f.mesh.ndim → (∀ a, a < f.mesh.ndim → i.getD a 0 < f.mesh.nAt a) →
        SqrtAt sqrt (sqLen (f.data.get i)) → SqrtAt sqrt 0 →
        Rescaled (f.data.get i) (g.data.get i) ((h.data.get i).getD 0 0) := by
  obtain ⟨t, ht, _, hget⟩ := fieldAsArray1_same f.mesh h hm hmesh hnv
  have ht' : asArray1 f.mesh (.field h) = .ok t := ht
  refine ⟨_, setNorm_of_target ht', fun i hl hi hs h0 => ?_⟩
  rw [← hget i hl hi]
  exact setNorm_rescaled sqrt f _ (.field h) t ht' (setNorm_of_target ht') i hs h0

/-- **refusals**: a vector field, or a field whose region does not contain the receiver's,
is rejected as norm -/
theorem setNorm_field_rejected (f h : Fld)
    (hbad : h.nvdim ≠ 1 ∨ h.mesh.region.containsReg f.mesh.region = false) :
    setNorm sqrt f (some (.field h)) = .error .value := by
  simp only [setNorm, asArray1, fieldAsArray1]
  rcases hbad with hb | hb
  · by_cases hc : h.mesh.region.containsReg f.mesh.region = true
    · simp [hc, hb]
    · simp [hc]
  · simp [hb]

/-- **array-likes: complete acceptance rule** of `_as_array(·, nvdim=1)`: accepted iff the shape
is the mesh's, or the last axis has length 1 and the shape broadcasts to `(*mesh.n, 1)` -/
theorem asArray1_arr_ok_iff (m : Mesh) (a : NDA Rat) :
    (∃ t, asArray1 m (.arr a) = .ok t) ↔
      a.shape = m.n ∨ (a.shape.getLast? = some 1 ∧ bcastOk a.shape (m.n ++ [1]) = true) := by
  simp only [asArray1, bcastArr]
  by_cases h1 : a.shape = m.n
  · simp [h1]
  · by_cases h2 : a.shape.getLast? = some 1
    · by_cases h3 : bcastOk a.shape (m.n ++ [1]) = true
      · simp [h1, h2, h3]
      · simp [h1, h2, h3]
    · simp [h1, h2]

/-! ### histories -/

/-- **frame over histories**: whatever a program of norm assignments, value updates and
validity assignments does, mesh, component count, unit, labels and mapping stay -/
theorem run_frame (atol : Rat) (hist : List Step) (f g : Fld) (h : run sqrt atol f hist = .ok g) :
    g.mesh = f.mesh ∧ g.nvdim = f.nvdim ∧ g.unit = f.unit ∧ g.vdims = f.vdims ∧ g.vmap = f.vmap := by
  induction hist generalizing f with
  | nil =>
    simp only [run, Except.ok.injEq] at h
    subst h; exact ⟨rfl, rfl, rfl, rfl, rfl⟩
  | cons s rest ih =>
    obtain ⟨f1, h1, hr⟩ := run_cons_ok h
    obtain ⟨a1, a2, a3, a4, a5⟩ := step_frame h1
    obtain ⟨b1, b2, b3, b4, b5⟩ := ih f1 hr
    exact ⟨b1.trans a1, b2.trans a2, b3.trans a3, b4.trans a4, b5.trans a5⟩

/-- **later value updates do not re-apply an earlier norm, over every history**: after any
program — any number of norm assignments among them — `update_field_values(v)` stores
exactly the array `v` evaluates to on the field's mesh, and leaves the validity as the
history before it left it -/
theorem run_update_last (atol : Rat) (hist : List Step) (f g : Fld) (v : VSpec)
    (h : run sqrt atol f (hist ++ [.update v]) = .ok g) :
    ∃ a g0, valuesOf f.mesh f.nvdim v = .ok a ∧ g.data = a ∧
      run sqrt atol f hist = .ok g0 ∧ g.valid = g0.valid := by
  obtain ⟨g0, h0, h1⟩ := run_append_ok hist [.update v] h
  obtain ⟨g1, hs, hr⟩ := run_cons_ok h1
  simp only [run, Except.ok.injEq] at hr
  subst hr
  obtain ⟨a, ha, rfl⟩ := updateValues_ok (show updateValues g0 v = .ok g1 from hs)
  obtain ⟨e1, e2, _⟩ := run_frame sqrt atol hist f g0 h0
  exact ⟨a, g0, by rw [← e1, ← e2]; exact ha, rfl, h0, rfl⟩

/-- **validity never enters the array, over every history**: deleting all validity
assignments from a program and starting from any validity mask gives the same array -/
theorem run_ignores_valid (atol : Rat) (hist : List Step) (f g : Fld) (vd : NDA Bool)
    (h : run sqrt atol f hist = .ok g) :
    ∃ g', run sqrt atol { f with valid := vd } (hist.filter fun s => !isSetValid s) = .ok g' ∧
      g'.data = g.data ∧ g'.valid = vd := by
  obtain ⟨g', hg', hs⟩ := run_sameArr hist (f := f) (f' := { f with valid := vd }) ⟨rfl, rfl, rfl⟩ h
  refine ⟨g', hg', hs.2.2.symm, ?_⟩
  -- no validity assignment is left, so the mask is still `vd`
  suffices H : ∀ (l : List Step) (f1 g1 : Fld), (∀ s ∈ l, isSetValid s = false) →
      run sqrt atol f1 l = .ok g1 → g1.valid = f1.valid by
    exact H _ _ _ (fun s hs => by simpa using (List.mem_filter.mp hs).2) hg'
  intro l
  induction l with
  | nil => intro f1 g1 _ h1; simp only [run, Except.ok.injEq] at h1; subst h1; rfl
  | cons s rest ih =>
    intro f1 g1 hall h1
    obtain ⟨f2, h2, hr⟩ := run_cons_ok h1
    rw [ih f2 g1 (fun s hs => hall s (List.mem_cons_of_mem _ hs)) hr]
    exact step_valid_unchanged (hall s List.mem_cons_self) h2

/-- **the constructor is the three-statement history values → norm → validity** on the blank
field (then the default labels are attached): every theorem about histories speaks about
`Field(mesh, nvdim, value, norm=…, valid=…)` too -/
theorem mk_eq_run (atol : Rat) (m : Mesh) (nvdim : Nat) (hn : 1 ≤ nvdim) (value : VSpec)
    (nrm : Option NSpec) (valid : ValidSpec) (unit : Option String) :
    mk? sqrt atol m nvdim value nrm valid unit =
      match run sqrt atol (blank m nvdim unit) [.update value, .setNorm nrm, .setValid valid] with
      | .error e => .error e
      | .ok f2 => .ok { f2 with vdims := Fld.defaultVdims nvdim, vmap := defaultVmap nvdim m.region.dims } := by
  unfold mk?
  rw [if_neg (by omega)]
  simp only [run, step, blank]
  cases updateValues (Fld.mk m nvdim ⟨m.n, fun _ => []⟩ ⟨m.n, fun _ => true⟩ none [] unit) value with
  | error e => rfl
  | ok f0 =>
    simp only
    cases setNorm sqrt f0 nrm with
    | error e => rfl
    | ok f1 =>
      simp only
      cases setValid sqrt atol f1 valid with
      | error e => rfl
      | ok f2 => rfl

/-- **acceptance over histories**: on a well-formed mesh every program whose statements are
well-formed for that mesh and component count runs to the end (no hidden refusal) -/
theorem run_accepts (atol : Rat) (hist : List Step) (f : Fld) (hm : f.mesh.Inv)
    (hwf : ∀ s ∈ hist, s.WF f.mesh f.nvdim) : ∃ g, run sqrt atol f hist = .ok g := by
  induction hist generalizing f with
  | nil => exact ⟨f, rfl⟩
  | cons s rest ih =>
    obtain ⟨f1, h1⟩ := step_accepts sqrt atol f hm s (hwf s List.mem_cons_self)
    obtain ⟨e1, e2, _⟩ := step_frame h1
    obtain ⟨g, hg⟩ := ih f1 (e1 ▸ hm) fun s hs => by
      rw [e1, e2]; exact hwf s (List.mem_cons_of_mem _ hs)
    exact ⟨g, by rw [run_cons_of rest h1]; exact hg⟩

/-- **the constructor accepts every well-formed call**: `nvdim ≥ 1`, values, norm and validity
well-formed for the mesh -/
theorem mk_accepts (atol : Rat) (m : Mesh) (hm : m.Inv) (nvdim : Nat) (hn : 1 ≤ nvdim) (value : VSpec)
    (hv : value.WF m nvdim) (nrm : Option NSpec) (hs : ∀ s, nrm = some s → s.WF m)
    (valid : ValidSpec) (hvd : valid.WF m) (unit : Option String) :
    ∃ g, mk? sqrt atol m nvdim value nrm valid unit = .ok g := by
  obtain ⟨a, ha⟩ := valuesOf_accepts m nvdim value hv
  unfold mk?
  rw [if_neg (by omega)]
  simp only [updateValues, ha]
  cases nrm with
  | none =>
    simp only [setNorm]
    obtain ⟨vd, hvd'⟩ := validOf_accepts sqrt atol
      { mesh := m, nvdim := nvdim, data := a, valid := ⟨m.n, fun _ => true⟩, vdims := none, vmap := [],
        unit := unit } valid hvd
    simp only [setValid, hvd']
    exact ⟨_, rfl⟩
  | some s =>
    obtain ⟨t, ht⟩ := asArray1_accepts m hm s (hs s rfl)
    simp only [setNorm, ht]
    obtain ⟨vd, hvd'⟩ := validOf_accepts sqrt atol
      { mesh := m, nvdim := nvdim, data := ⟨m.n, fun i => setCell sqrt (a.get i) (t.get i)⟩,
        valid := ⟨m.n, fun _ => true⟩, vdims := none, vmap := [], unit := unit } valid hvd
    simp only [setValid, hvd']
    exact ⟨_, rfl⟩

/-- **refusals of the constructor**, in the order the code checks: `nvdim < 1`; else a value
vector of the wrong length (that is not a per-cell sequence on a 1-d scalar mesh); else — the
values being acceptable — a norm array whose shape is not the mesh's and whose last axis is
not 1, a vector field as norm, or a norm field on a region that does not contain the mesh's -/
theorem mk_rejected (atol : Rat) (m : Mesh) (nvdim : Nat) (value : VSpec)
    (nrm : Option NSpec) (valid : ValidSpec) (unit : Option String)
    (h : nvdim < 1 ∨
      (∃ v, value = .vec v ∧ v.length ≠ nvdim ∧ ¬(nvdim = 1 ∧ m.n = [v.length])) ∨
      ((∃ a, valuesOf m nvdim value = .ok a) ∧
        ((∃ a, nrm = some (.arr a) ∧ a.shape ≠ m.n ∧ a.shape.getLast? ≠ some 1) ∨
         (∃ hf, nrm = some (.field hf) ∧
            (hf.nvdim ≠ 1 ∨ hf.mesh.region.containsReg m.region = false))))) :
    ∃ e, mk? sqrt atol m nvdim value nrm valid unit = .error e := by
  unfold mk?
  rcases h with h | h | ⟨⟨a, ha⟩, h⟩
  · rw [if_pos h]; exact ⟨_, rfl⟩
  · obtain ⟨v, rfl, hl, hs⟩ := h
    split
    · exact ⟨_, rfl⟩
    · simp only [updateValues, valuesOf, if_neg hs, if_pos hl]
      exact ⟨_, rfl⟩
  · split
    · exact ⟨_, rfl⟩
    · simp only [updateValues, ha]
      rcases h with ⟨b, rfl, h1, h2⟩ | ⟨hf, rfl, hbad⟩
      · have := setNorm_array_rejected sqrt
          { mesh := m, nvdim := nvdim, data := a, valid := ⟨m.n, fun _ => true⟩, vdims := none, vmap := [],
            unit := unit } b h1 h2
        simp only [this]
        exact ⟨_, rfl⟩
      · have := setNorm_field_rejected sqrt
          { mesh := m, nvdim := nvdim, data := a, valid := ⟨m.n, fun _ => true⟩, vdims := none, vmap := [],
            unit := unit } hf hbad
        simp only [this]
        exact ⟨_, rfl⟩

end Field2

/-! ### non-vacuity of the history theorems: a well-formed program on a well-formed mesh -/

example : exMesh.Inv := exMesh_inv
example : ∀ s ∈ [Step.setNorm (some (.const 2)), .setValid .byNorm, .update (.vec [3, 4]),
      .setNorm (some (.arr ⟨[2], fun _ => 5⟩)), .setNorm none],
    s.WF exMesh 2 := by
  intro s hs
  simp only [List.mem_cons, List.not_mem_nil, or_false] at hs
  rcases hs with rfl | rfl | rfl | rfl | rfl
  · trivial
  · trivial
  · rfl
  · exact Or.inl rfl
  · trivial
example : ∃ g, run sqrtQ atolDefault (blank exMesh 2 none)
    [.update (.vec [3, 4]), .setNorm (some (.const 10)), .setValid .byNorm] = .ok g := ⟨_, rfl⟩
/-- a field on the same mesh is a well-formed norm -/
example : (NSpec.field (blank exMesh 1 none)).WF exMesh := ⟨rfl, rfl⟩
/-- a norm field on a coarser mesh over the same region is accepted (one cell of width 2
under two cells of width 1) -/
example : ∃ t, fieldAsArray1 exMesh
    (blank { exMesh with n := [1] } 1 none) = .ok t := ⟨_, rfl⟩
example : ({ exMesh with n := [1] } : Mesh).Inv := mesh_inv_of_invB _ (by decide +kernel)
/-- a vector field as norm meets the refusal hypothesis -/
example : (blank exMesh 2 none).nvdim ≠ 1 ∨
    (blank exMesh 2 none).mesh.region.containsReg exMesh.region = false := Or.inl (by decide)
example : (blank exMesh 3 none).valid.shape = (blank exMesh 3 none).mesh.n := rfl
example : ∃ g, mk? sqrtQ atolDefault exMesh 2 (.vec [3, 4]) (some (.field (blank exMesh 1 none))) .byNorm none = .ok g :=
  mk_accepts sqrtQ atolDefault exMesh exMesh_inv 2 (by omega) (.vec [3, 4]) rfl _
    (fun s hs => by cases hs; exact ⟨rfl, rfl⟩) .byNorm trivial none

/-! ## The executable model itself (`sqrt := sqrtQ`, what the driver runs)

On every cell whose length is rational — all scaled Pythagorean vectors of the
correspondence run — the hypotheses about `sqrt` are theorems, not assumptions. -/
section Driver

/-- the model the driver runs rescales every rational-length cell as the property says,
for every kind of norm specification -/
theorem driver_setNorm_rescaled (f g : Fld) (s : NSpec) (t : NDA Rat)
    (ht : asArray1 f.mesh s = .ok t) (h : setNorm sqrtQ f (some s) = .ok g) (i : List Nat)
    (hr : ∃ q : Rat, sqLen (f.data.get i) = q * q) :
    Rescaled (f.data.get i) (g.data.get i) (t.get i) :=
  setNorm_rescaled sqrtQ f g s t ht h i (sqrtQ_sqrtAt_of_isSquare hr) sqrtQ_zero

/-- … its norm getter returns exactly the rational length `|q|` -/
theorem driver_norm_exact (f : Fld) (i : List Nat) (q : Rat) (hr : sqLen (f.data.get i) = q * q) :
    (norm sqrtQ f).data.get i = [|q|] := by
  show [normCell sqrtQ (f.data.get i)] = _
  unfold normCell; rw [hr, sqrtQ_mul_self]

/-- … and its orientation is zero at or below the threshold, a unit vector above it -/
theorem driver_orientation_dichotomy (atol : Rat) (h0 : 0 ≤ atol) (f : Fld) (i : List Nat) (q : Rat)
    (hr : sqLen (f.data.get i) = q * q) :
    (|q| ≤ atol ∧ (orientation sqrtQ atol f).data.get i = zeros (f.data.get i)) ∨
    (atol < |q| ∧ sqLen ((orientation sqrtQ atol f).data.get i) = 1) := by
  have hn : normCell sqrtQ (f.data.get i) = |q| := by unfold normCell; rw [hr, sqrtQ_mul_self]
  have := orientCell_dichotomy sqrtQ atol (f.data.get i) h0 (sqrtQ_sqrtAt_of_isSquare ⟨q, hr⟩)
  rw [hn] at this
  exact this

end Driver

/-! ## Real fields: `Real.sqrt`, no side condition -/
section Real

/-- for real vectors the setter's promise holds unconditionally -/
theorem real_setCell_rescaled (v : List ℝ) (t : ℝ) : Rescaled v (setCell Real.sqrt v t) t :=
  setCell_rescaled Real.sqrt v t (real_sqrtAt_sqLen v) real_sqrtAt_zero

/-- real vectors: the norm read back after the setter is `|t|` on non-zero cells -/
theorem real_normCell_setCell (v : List ℝ) (t : ℝ) (hnz : sqLen v ≠ 0) :
    normCell Real.sqrt (setCell Real.sqrt v t) = |t| :=
  normCell_setCell Real.sqrt v t (real_sqrtAt_sqLen v) hnz (real_sqrtAt_mul_self t)

/-- real vectors: the orientation is zero up to the threshold and a unit vector above it -/
theorem real_orientCell_dichotomy (atol : ℝ) (h0 : 0 ≤ atol) (v : List ℝ) :
    (normCell Real.sqrt v ≤ atol ∧ orientCell Real.sqrt atol v = zeros v) ∨
    (atol < normCell Real.sqrt v ∧ sqLen (orientCell Real.sqrt atol v) = 1) :=
  orientCell_dichotomy Real.sqrt atol v h0 (real_sqrtAt_sqLen v)

/-- real vectors: orientation × norm reproduces the vector above the threshold and at zero -/
theorem real_orientCell_times_norm (atol : ℝ) (h0 : 0 ≤ atol) (v : List ℝ)
    (h : atol < normCell Real.sqrt v ∨ ∀ x ∈ v, x = 0) :
    (orientCell Real.sqrt atol v).map (fun x => x * normCell Real.sqrt v) = v :=
  orientCell_times_norm Real.sqrt atol v h0 real_sqrtAt_zero h

end Real

/-! ## Complex fields -/
section Complex
variable {K : Type} [Field K] [LinearOrder K] [IsStrictOrderedRing K]

/-- **complex fields are real fields with twice as many components**: the norm of a complex
cell is the norm of its `(re, im)` view, and the setter and the orientation commute with
the view — so every theorem above about `setCell`, `normCell`, `orientCell` speaks about
complex fields as well -/
theorem complex_view (sqrt : K → K) (atol : K) (v : List (K × K)) (t : K) :
    cNormCell sqrt v = normCell sqrt (flattenC v) ∧
    flattenC (cSetCell sqrt v t) = setCell sqrt (flattenC v) t ∧
    flattenC (cOrientCell sqrt atol v) = orientCell sqrt atol (flattenC v) := by
  have hn : cNormCell sqrt v = normCell sqrt (flattenC v) := by
    unfold cNormCell normCell; rw [sqLen_flattenC]
  refine ⟨hn, ?_, ?_⟩
  · unfold cSetCell setCell divWhere
    rw [← hn]
    have e : (fun z : K × K => cmul z (t, 0)) = fun z => ((fun x => x * t) z.1, (fun x => x * t) z.2) := by
      funext z; exact cmul_real z t
    rw [e, flattenC_map (fun x => x * t)]
    congr 1
    split
    · exact flattenC_zeros v
    · exact flattenC_map (fun x => x / cNormCell sqrt v) v
  · unfold cOrientCell orientCell
    rw [← hn]
    split
    · exact flattenC_zeros v
    · exact flattenC_map (fun x => x / cNormCell sqrt v) v

/-- **complex fields, the property's sentence**: a non-zero complex cell ends with
`Σ|z_c|² = t²`, every component multiplied by the same positive real factor `t/‖v‖`
(so the phase of every component and the direction are kept); a zero cell stays zero -/
theorem complex_setCell (sqrt : K → K) (v : List (K × K)) (t : K)
    (hs : SqrtAt sqrt (cSqLen v)) (h0 : SqrtAt sqrt 0) :
    (cSqLen v ≠ 0 → cSqLen (cSetCell sqrt v t) = t * t ∧
      cSetCell sqrt v t = v.map fun z => (t / sqrt (cSqLen v) * z.1, t / sqrt (cSqLen v) * z.2)) ∧
    (cSqLen v = 0 → cSetCell sqrt v t = v.map fun _ => (0, 0)) := by
  obtain ⟨_, hset, _⟩ := complex_view sqrt 0 v t
  constructor
  · intro hnz
    have hs' : SqrtAt sqrt (sqLen (flattenC v)) := by rw [sqLen_flattenC]; exact hs
    have hnz' : sqLen (flattenC v) ≠ 0 := by rw [sqLen_flattenC]; exact hnz
    refine ⟨?_, ?_⟩
    · rw [← sqLen_flattenC, hset]; exact setCell_sqLen sqrt _ t hs' hnz'
    · have hne : cNormCell sqrt v ≠ 0 := fun e => hnz (hs.eq_zero_iff.mp e)
      unfold cSetCell
      rw [if_neg hne, List.map_map]
      apply List.map_congr_left
      intro z _
      simp only [Function.comp, cmul_real]
      unfold cNormCell
      have : sqrt (cSqLen v) ≠ 0 := hne
      rw [Prod.mk.injEq]; constructor <;> field_simp
  · intro hz
    have hn : cNormCell sqrt v = 0 := by unfold cNormCell; rw [hz]; exact h0.zero
    unfold cSetCell
    rw [if_pos hn, List.map_map]
    apply List.map_congr_left
    intro z _
    simp [cmul]

end Complex

/-- the complex cell (3+4i, 0) set to norm 10 is (6+8i, 0) -/
example : cSetCell sqrtQ [((3 : Rat), (4 : Rat)), (0, 0)] 10 = [(6, 8), (0, 0)] := by
  have hl : cSqLen [((3 : Rat), (4 : Rat)), (0, 0)] = 5 * 5 := by norm_num [cSqLen]
  have := (complex_setCell sqrtQ [((3 : Rat), (4 : Rat)), (0, 0)] 10 (by rw [hl]; exact sqrtQ_sqrtAt 5)
    sqrtQ_zero).1 (by rw [hl]; norm_num)
  rw [this.2, hl, sqrtQ_mul_self]
  norm_num

/-! ## Rounded arithmetic: the kernel as the code computes it -/
section Rounded
variable {K : Type} [Field K] [LinearOrder K] [IsStrictOrderedRing K]

/-- with `fl := id` the rounded kernel is the exact kernel the driver runs (norm, setter,
orientation), so the rounded definitions are a conservative extension of the model that
is tied to the code -/
theorem flKernel_id (sqrt : K → K) (atol : K) (v : List K) (t : K) :
    flNormCell id sqrt v = normCell sqrt v ∧ flSetCell id sqrt v t = setCell sqrt v t ∧
    flOrientCell id sqrt atol v = orientCell sqrt atol v := by
  have hn : flNormCell id sqrt v = normCell sqrt v := by
    unfold flNormCell normCell; rw [flSqLen_id]; rfl
  refine ⟨hn, ?_, ?_⟩
  · unfold flSetCell setCell divWhere
    rw [hn]; rfl
  · unfold flOrientCell orientCell
    rw [hn]; rfl

/-- **computed norm** (`np.linalg.norm`: rounded squares, rounded sums, rounded root): for
cells of at most four components it is within `15/4·u` of the length — below the `4u`
comparator of the correspondence run -/
theorem flNorm_rel_err (fl sqrt : K → K) (u : K) (h : FlOk fl u) (hu : u ≤ 1 / 1024) (v : List K)
    (hlen : v.length ≤ 4) (hs : SqrtAt sqrt (sqLen v)) (hs' : SqrtAt sqrt (flSqLen fl v)) :
    |flNormCell fl sqrt v - normCell sqrt v| ≤ 15 / 4 * u * normCell sqrt v :=
  flNormCell_err h hu v hlen hs hs'

/-- … and its square is within `8u` of `Σ_c v_c²` (the oracle's bound on the norm getter) -/
theorem flNorm_sq_err (fl sqrt : K → K) (u : K) (h : FlOk fl u) (hu : u ≤ 1 / 1024) (v : List K)
    (hlen : v.length ≤ 4) (hs : SqrtAt sqrt (sqLen v)) (hs' : SqrtAt sqrt (flSqLen fl v)) :
    |flNormCell fl sqrt v * flNormCell fl sqrt v - sqLen v| ≤ 8 * u * sqLen v :=
  flNormCell_sq_err h hu v hlen hs hs'

/-- **the setter's zero guard survives rounding and is per cell**: the computed norm is zero
exactly when every component is zero, so a zero cell stays exactly zero and every other
cell — however small its components — goes through the division -/
theorem flSetCell_guard (fl sqrt : K → K) (u : K) (h : FlOk fl u) (hu : u ≤ 1 / 1024) (v : List K)
    (t : K) (hlen : v.length ≤ 4) (hs' : SqrtAt sqrt (flSqLen fl v)) :
    ((∀ x ∈ v, x = 0) → flSetCell fl sqrt v t = zeros v) ∧
    ((∃ x ∈ v, x ≠ 0) →
      flSetCell fl sqrt v t = v.map fun x => fl (fl (x / flNormCell fl sqrt v) * t)) := by
  have hz := flNormCell_eq_zero_iff (sqrt := sqrt) h hu v hlen hs'
  constructor
  · intro hv
    exact flSetCell_of_eq h t (hz.mpr ((sqLen_eq_zero_iff v).mpr hv))
  · rintro ⟨x, hx, hne⟩
    exact flSetCell_of_ne t fun e => hne ((sqLen_eq_zero_iff v).mp (hz.mp e) x hx)

/-- **computed setter, per component**: every component of a non-zero cell is within `6u` of
the exact `(t/‖v‖)·v_c` — below the `16u` comparator -/
theorem flSetCell_comp_err (fl sqrt : K → K) (u : K) (h : FlOk fl u) (hu : u ≤ 1 / 1024) (v : List K)
    (t : K) (hlen : v.length ≤ 4) (hs : SqrtAt sqrt (sqLen v)) (hs' : SqrtAt sqrt (flSqLen fl v))
    (hnz : sqLen v ≠ 0) :
    ∃ f : K → K, flSetCell fl sqrt v t = v.map f ∧
      ∀ x, |f x - t / normCell sqrt v * x| ≤ 6 * u * |t / normCell sqrt v * x| := by
  have hne : flNormCell fl sqrt v ≠ 0 := fun e =>
    hnz ((flNormCell_eq_zero_iff (sqrt := sqrt) h hu v hlen hs').mp e)
  refine ⟨_, flSetCell_of_ne t hne, fun x => ?_⟩
  exact (quot_mul_err h hu (hs.pos hnz) (flNormCell_err h hu v hlen hs hs') x t).2

/-- **computed setter, length**: the squared length of the result is within `13u` of `t²`
(oracle bound `16u`) -/
theorem flSetCell_sqLen_err (fl sqrt : K → K) (u : K) (h : FlOk fl u) (hu : u ≤ 1 / 1024)
    (v : List K) (t : K) (hlen : v.length ≤ 4) (hs : SqrtAt sqrt (sqLen v))
    (hs' : SqrtAt sqrt (flSqLen fl v)) (hnz : sqLen v ≠ 0) :
    |sqLen (flSetCell fl sqrt v t) - t * t| ≤ 13 * u * (t * t) := by
  obtain ⟨f, hf, herr⟩ := flSetCell_comp_err fl sqrt u h hu v t hlen hs hs' hnz
  have hu0 := h.1
  have hb : normCell sqrt v ≠ 0 := fun e => hnz (hs.eq_zero_iff.mp e)
  have key := sqLen_map_err f (t / normCell sqrt v) (6 * u) (by linarith) v fun x _ => herr x
  have e : t / normCell sqrt v * (t / normCell sqrt v) * sqLen v = t * t := by
    have hb2 : sqLen v = normCell sqrt v * normCell sqrt v := hs.2.symm
    rw [hb2]; field_simp
  rw [e] at key
  rw [hf]
  have : 2 * (6 * u) + 6 * u * (6 * u) ≤ 13 * u := by nlinarith
  have := mul_le_mul_of_nonneg_right this (mul_self_nonneg t)
  linarith

/-- **computed setter, direction**: every 2×2 cross term between the result `w` and the old
vector satisfies `|w_a v_b − w_b v_a|·(1 − 6u) ≤ 12u·|w_a v_b|` (so it is below the oracle's
`16u·max(|w_a v_b|, |w_b v_a|)`) -/
theorem flSetCell_cross_err (fl sqrt : K → K) (u : K) (h : FlOk fl u) (hu : u ≤ 1 / 1024)
    (v : List K) (t : K) (hlen : v.length ≤ 4) (hs : SqrtAt sqrt (sqLen v))
    (hs' : SqrtAt sqrt (flSqLen fl v)) (hnz : sqLen v ≠ 0) (a b : Nat) (ha : a < v.length) :
    |(flSetCell fl sqrt v t).getD a 0 * v.getD b 0 - (flSetCell fl sqrt v t).getD b 0 * v.getD a 0|
        * (1 - 6 * u) ≤ 12 * u * |(flSetCell fl sqrt v t).getD a 0 * v.getD b 0| := by
  obtain ⟨f, hf, herr⟩ := flSetCell_comp_err fl sqrt u h hu v t hlen hs hs' hnz
  have hu0 := h.1
  rw [hf]
  have c1 := cross_err f (t / normCell sqrt v) (6 * u) v (fun x _ => herr x) a b
  have c2 := cross_low f (t / normCell sqrt v) (6 * u) v (fun x _ => herr x) a b ha
  have h1 : (0 : K) ≤ 1 - 6 * u := by linarith
  have := mul_le_mul_of_nonneg_right c1 h1
  nlinarith

/-- **computed setter, sense**: for a positive target the result has a positive dot product
with the old vector -/
theorem flSetCell_dot_pos (fl sqrt : K → K) (u : K) (h : FlOk fl u) (hu : u ≤ 1 / 1024)
    (v : List K) (t : K) (hlen : v.length ≤ 4) (hs : SqrtAt sqrt (sqLen v))
    (hs' : SqrtAt sqrt (flSqLen fl v)) (hnz : sqLen v ≠ 0) (ht : 0 < t) :
    0 < dot (flSetCell fl sqrt v t) v := by
  obtain ⟨f, hf, herr⟩ := flSetCell_comp_err fl sqrt u h hu v t hlen hs hs' hnz
  have hu0 := h.1
  rw [hf]
  have hlam : 0 < t / normCell sqrt v := div_pos ht (hs.pos hnz)
  have := dot_map_low f (t / normCell sqrt v) (6 * u) hlam.le v fun x _ => herr x
  have hS : 0 < sqLen v := lt_of_le_of_ne (sqLen_nonneg v) (Ne.symm hnz)
  have : 0 < (1 - 6 * u) * (t / normCell sqrt v * sqLen v) :=
    mul_pos (by linarith) (mul_pos hlam hS)
  linarith

/-- a zero target gives an exactly zero cell in rounded arithmetic too -/
theorem flSetCell_target_zero (fl sqrt : K → K) (u : K) (h : FlOk fl u) (v : List K) :
    flSetCell fl sqrt v 0 = zeros v := by
  have e : ∀ w : List K, w.map (fun x => fl (x * 0)) = List.replicate w.length 0 := by
    intro w; simp [h.zero]
  unfold flSetCell
  rw [e]
  split <;> simp [zeros]

/-- **computed orientation** above the threshold: every component within `39/8·u` of
`v_c/‖v‖` (comparator `8u`), squared length within `10u` of 1 (oracle `16u`), and
`orientation × computed norm` within **one** rounding of the field (oracle `8u`) -/
theorem flOrientCell_err (fl sqrt : K → K) (u atol : K) (h : FlOk fl u) (hu : u ≤ 1 / 1024)
    (v : List K) (hlen : v.length ≤ 4) (hs : SqrtAt sqrt (sqLen v))
    (hs' : SqrtAt sqrt (flSqLen fl v)) (h0 : 0 ≤ atol) (hat : atol < flNormCell fl sqrt v) :
    ∃ f : K → K, flOrientCell fl sqrt atol v = v.map f ∧
      (∀ x, |f x - x / normCell sqrt v| ≤ 39 / 8 * u * |x / normCell sqrt v|) ∧
      |sqLen (flOrientCell fl sqrt atol v) - 1| ≤ 10 * u ∧
      ∀ x, |f x * flNormCell fl sqrt v - x| ≤ u * |x| := by
  have hu0 := h.1
  have hnpos : 0 < flNormCell fl sqrt v := lt_of_le_of_lt h0 hat
  have hnz : sqLen v ≠ 0 := fun e =>
    hnpos.ne' ((flNormCell_eq_zero_iff (sqrt := sqrt) h hu v hlen hs').mpr e)
  have hcz : closeZero atol (flNormCell fl sqrt v) = false := by
    rw [closeZero_eq, decide_eq_false_iff_not, not_le, abs_of_pos hnpos]; exact hat
  have hf : flOrientCell fl sqrt atol v = v.map fun x => fl (x / flNormCell fl sqrt v) := by
    unfold flOrientCell; rw [hcz]; rfl
  have herr : ∀ x, |fl (x / flNormCell fl sqrt v) - x / normCell sqrt v| ≤
      39 / 8 * u * |x / normCell sqrt v| := fun x =>
    (quot_mul_err h hu (hs.pos hnz) (flNormCell_err h hu v hlen hs hs') x 1).1
  refine ⟨_, hf, herr, ?_, fun x => quot_times_err h hnpos.ne' x⟩
  have hb : normCell sqrt v ≠ 0 := fun e => hnz (hs.eq_zero_iff.mp e)
  have key := sqLen_map_err (fun x => fl (x / flNormCell fl sqrt v)) (1 / normCell sqrt v)
    (39 / 8 * u) (by linarith) v fun x _ => by
      have e1 : 1 / normCell sqrt v * x = x / normCell sqrt v := by ring
      rw [e1]; exact herr x
  have e : 1 / normCell sqrt v * (1 / normCell sqrt v) * sqLen v = 1 := by
    have hb2 : sqLen v = normCell sqrt v * normCell sqrt v := hs.2.symm
    rw [hb2]; field_simp
  rw [e] at key
  rw [hf]
  have : 2 * (39 / 8 * u) + 39 / 8 * u * (39 / 8 * u) ≤ 10 * u := by nlinarith
  linarith

/-- **the orientation's guard under rounding**: a cell whose length is at most
`atol/(1 + 15/4·u)` is zeroed, a cell whose length exceeds `atol/(1 − 15/4·u)` is
normalised; only lengths inside that band of relative width `≈ 7.5u` can go either way
(the harness leaves a band of `64u`) -/
theorem flOrientCell_band (fl sqrt : K → K) (u atol : K) (h : FlOk fl u) (hu : u ≤ 1 / 1024)
    (v : List K) (hlen : v.length ≤ 4) (hs : SqrtAt sqrt (sqLen v))
    (hs' : SqrtAt sqrt (flSqLen fl v)) :
    (normCell sqrt v * (1 + 15 / 4 * u) ≤ atol → flOrientCell fl sqrt atol v = zeros v) ∧
    (atol < normCell sqrt v * (1 - 15 / 4 * u) →
      flOrientCell fl sqrt atol v = v.map fun x => fl (x / flNormCell fl sqrt v)) := by
  have herr := abs_le.mp (flNormCell_err h hu v hlen hs hs')
  have hu0 := h.1
  have hn0 : 0 ≤ flNormCell fl sqrt v := h.nonneg (by linarith) hs'.1
  constructor
  · intro hle
    unfold flOrientCell
    have : closeZero atol (flNormCell fl sqrt v) = true := by
      rw [closeZero_eq, decide_eq_true_iff, abs_of_nonneg hn0]; linarith [herr.2]
    rw [this]; rfl
  · intro hlt
    unfold flOrientCell
    have : closeZero atol (flNormCell fl sqrt v) = false := by
      rw [closeZero_eq, decide_eq_false_iff_not, not_le, abs_of_nonneg hn0]; linarith [herr.1]
    rw [this]; rfl

end Rounded

/-! ### the rounded kernel over the reals (`Real.sqrt`, no side condition) and over `Rat`
with the shared `Rounding` package -/
section RoundedInst

/-- **real fields, any rounding that obeys the standard model with `u ≤ 2^-10`**: the setter's
result on a non-zero cell of at most four components has squared length within `13u` of
`t²`, every cross term with the old vector is relatively below `12u/(1−6u)`, and for a
positive target the dot product with the old vector is positive — no hypothesis on roots -/
theorem real_flSetCell (fl : ℝ → ℝ) (u : ℝ) (h : FlOk fl u) (hu : u ≤ 1 / 1024) (v : List ℝ) (t : ℝ)
    (hlen : v.length ≤ 4) (hnz : sqLen v ≠ 0) :
    |sqLen (flSetCell fl Real.sqrt v t) - t * t| ≤ 13 * u * (t * t) ∧
    (∀ a b : Nat, a < v.length →
      |(flSetCell fl Real.sqrt v t).getD a 0 * v.getD b 0 - (flSetCell fl Real.sqrt v t).getD b 0 * v.getD a 0|
        * (1 - 6 * u) ≤ 12 * u * |(flSetCell fl Real.sqrt v t).getD a 0 * v.getD b 0|) ∧
    (0 < t → 0 < dot (flSetCell fl Real.sqrt v t) v) := by
  have hs := real_sqrtAt_sqLen v
  have hs' : SqrtAt Real.sqrt (flSqLen fl v) :=
    real_sqrtAt (flSqLen_nonneg h (by linarith) v)
  exact ⟨flSetCell_sqLen_err fl _ u h hu v t hlen hs hs' hnz,
    fun a b ha => flSetCell_cross_err fl _ u h hu v t hlen hs hs' hnz a b ha,
    fun ht => flSetCell_dot_pos fl _ u h hu v t hlen hs hs' hnz ht⟩

/-- real fields: the computed norm is within `15/4·u` of the Euclidean length and its square
within `8u` of the sum of squares -/
theorem real_flNorm (fl : ℝ → ℝ) (u : ℝ) (h : FlOk fl u) (hu : u ≤ 1 / 1024) (v : List ℝ)
    (hlen : v.length ≤ 4) :
    |flNormCell fl Real.sqrt v - Real.sqrt (sqLen v)| ≤ 15 / 4 * u * Real.sqrt (sqLen v) ∧
    |flNormCell fl Real.sqrt v * flNormCell fl Real.sqrt v - sqLen v| ≤ 8 * u * sqLen v := by
  have hs := real_sqrtAt_sqLen v
  have hs' : SqrtAt Real.sqrt (flSqLen fl v) :=
    real_sqrtAt (flSqLen_nonneg h (by linarith) v)
  exact ⟨flNorm_rel_err fl _ u h hu v hlen hs hs', flNorm_sq_err fl _ u h hu v hlen hs hs'⟩

/-- real fields: the computed orientation above the threshold has squared length within `10u`
of 1 and, multiplied with the computed norm, reproduces every component within one rounding -/
theorem real_flOrientCell (fl : ℝ → ℝ) (u atol : ℝ) (h : FlOk fl u) (hu : u ≤ 1 / 1024) (v : List ℝ)
    (hlen : v.length ≤ 4) (h0 : 0 ≤ atol) (hat : atol < flNormCell fl Real.sqrt v) :
    |sqLen (flOrientCell fl Real.sqrt atol v) - 1| ≤ 10 * u ∧
    ∀ a : Nat, |(flOrientCell fl Real.sqrt atol v).getD a 0 * flNormCell fl Real.sqrt v - v.getD a 0| ≤
      u * |v.getD a 0| := by
  have hs := real_sqrtAt_sqLen v
  have hs' : SqrtAt Real.sqrt (flSqLen fl v) :=
    real_sqrtAt (flSqLen_nonneg h (by linarith) v)
  obtain ⟨f, hf, _, h2, h3⟩ := flOrientCell_err fl _ u atol h hu v hlen hs hs' h0 hat
  refine ⟨h2, fun a => ?_⟩
  rw [hf, getD_map_zero]
  split
  · exact h3 _
  · rename_i hge
    have : v.getD a 0 = 0 := by simp [List.getD_eq_getElem?_getD, not_lt.mp hge]
    rw [this]; simp

/-- the shared hypothesis package `C01.Rounding` (`Lemmas/Rounding.lean`) is an instance of
the standard model used here -/
theorem rounding_flOk (R : C01.Rounding) : FlOk R.fl R.u := ⟨R.u_nonneg, R.err⟩

/-- **rational model with a `Rounding`**: the bounds that justify the harness comparators —
computed norm within `15/4·u` (comparator `4u`), every component of the setter's result
within `6u` of the exact model's (comparator `16u`), squared length within `13u` of `t²`
(oracle `16u`) -/
theorem rounding_flSetCell (R : C01.Rounding) (hu : R.u ≤ 1 / 1024) (sqrt : Rat → Rat) (v : List Rat)
    (t : Rat) (hlen : v.length ≤ 4) (hs : SqrtAt sqrt (sqLen v)) (hs' : SqrtAt sqrt (flSqLen R.fl v))
    (hnz : sqLen v ≠ 0) :
    |flNormCell R.fl sqrt v - normCell sqrt v| ≤ 15 / 4 * R.u * normCell sqrt v ∧
    (∀ a : Nat, |(flSetCell R.fl sqrt v t).getD a 0 - (setCell sqrt v t).getD a 0| ≤
      6 * R.u * |(setCell sqrt v t).getD a 0|) ∧
    |sqLen (flSetCell R.fl sqrt v t) - t * t| ≤ 13 * R.u * (t * t) := by
  have h := rounding_flOk R
  refine ⟨flNorm_rel_err R.fl sqrt R.u h hu v hlen hs hs', fun a => ?_,
    flSetCell_sqLen_err R.fl sqrt R.u h hu v t hlen hs hs' hnz⟩
  obtain ⟨f, hf, herr⟩ := flSetCell_comp_err R.fl sqrt R.u h hu v t hlen hs hs' hnz
  rw [hf, setCell_nonzero sqrt v t hs hnz, smul_getD, getD_map_zero]
  split
  · exact herr _
  · rename_i hge
    have : v.getD a 0 = 0 := by simp [List.getD_eq_getElem?_getD, not_lt.mp hge]
    rw [this]; simp

end RoundedInst

/-! non-vacuity: a rounding that is not the identity obeys the standard model over `ℝ`; the
identity rounding is a `Rounding` over `Rat` for which the root hypotheses hold on (3,4) -/
example : FlOk (fun x : ℝ => x * (1 + 1 / 2048)) (1 / 1024) := by
  refine ⟨by norm_num, fun x => ?_⟩
  have : x * (1 + 1 / 2048) - x = x * (1 / 2048) := by ring
  rw [this, abs_mul, abs_of_pos (by norm_num : (0 : ℝ) < 1 / 2048)]
  nlinarith [abs_nonneg x]
example : ∃ R : C01.Rounding, R.u ≤ 1 / 1024 ∧ SqrtAt sqrtQ (flSqLen R.fl ([3, 4] : List Rat)) ∧
    SqrtAt sqrtQ (sqLen ([3, 4] : List Rat)) ∧ sqLen ([3, 4] : List Rat) ≠ 0 := by
  refine ⟨⟨id, 0, le_rfl, by norm_num, fun x => by simp⟩, by norm_num, ?_, ?_, by norm_num [sqLen]⟩
  · rw [flSqLen_id]
    have h : sqLen ([3, 4] : List Rat) = 5 * 5 := by norm_num [sqLen]
    rw [h]; exact sqrtQ_sqrtAt 5
  · have h : sqLen ([3, 4] : List Rat) = 5 * 5 := by norm_num [sqLen]
    rw [h]; exact sqrtQ_sqrtAt 5

/-! ## binary64: the rounding the driver runs and the harness compares bit for bit with NumPy -/
section Binary64

/-- **the rounding hypothesis is met by the executable binary64 rounding** `fl64` (round to
nearest even, 53 bits): `|fl64 x − x| ≤ 2^-53·|x|` for every rational `x` -/
theorem fl64_standard_model : FlOk fl64 (1 / 9007199254740992) := fl64_flOk

/-- … so the shared hypothesis package `Rounding` is inhabited by the function the
correspondence run checks against NumPy's arithmetic -/
theorem fl64_rounding : ∃ R : C01.Rounding, R.fl = fl64 ∧ R.u = 1 / 9007199254740992 ∧ R.u ≤ 1 / 1024 :=
  ⟨⟨fl64, 1 / 9007199254740992, by norm_num, by norm_num, fl64_flOk.2⟩, rfl, rfl, by norm_num⟩

/-- **the bounds for the kernel the driver runs with binary64 rounding** (`fl_cells`, compared
bit for bit with `Field.norm` / the norm setter on arbitrary binary64 vectors): with an exact
root at the two radicands, computed norm within `15/4·2^-53`, every component of the setter's
result within `6·2^-53` of the exact model's, squared length within `13·2^-53` of `t²` -/
theorem fl64_setCell_bounds (sqrt : Rat → Rat) (v : List Rat) (t : Rat) (hlen : v.length ≤ 4)
    (hs : SqrtAt sqrt (sqLen v)) (hs' : SqrtAt sqrt (flSqLen fl64 v)) (hnz : sqLen v ≠ 0) :
    |flNormCell fl64 sqrt v - normCell sqrt v| ≤ 15 / 4 * (1 / 9007199254740992) * normCell sqrt v ∧
    (∀ a : Nat, |(flSetCell fl64 sqrt v t).getD a 0 - (setCell sqrt v t).getD a 0| ≤
      6 * (1 / 9007199254740992) * |(setCell sqrt v t).getD a 0|) ∧
    |sqLen (flSetCell fl64 sqrt v t) - t * t| ≤ 13 * (1 / 9007199254740992) * (t * t) :=
  rounding_flSetCell ⟨fl64, 1 / 9007199254740992, by norm_num, by norm_num, fl64_flOk.2⟩ (by norm_num)
    sqrt v t hlen hs hs' hnz

end Binary64

/-! non-vacuity: on (3,4) the binary64 kernel is exact, so both root hypotheses hold with `sqrtQ` -/
example : flSqLen fl64 ([3, 4] : List Rat) = 5 * 5 := by decide +kernel
example : SqrtAt sqrtQ (flSqLen fl64 ([3, 4] : List Rat)) := by
  have h : flSqLen fl64 ([3, 4] : List Rat) = 5 * 5 := by decide +kernel
  rw [h]; exact sqrtQ_sqrtAt 5
example : flSetCell fl64 sqrtQ ([3, 4] : List Rat) 10 = [6, 8] := by decide +kernel
/-- and it does round: 1/3 is not representable -/
example : fl64 (1 / 3) = 6004799503160661 / 18014398509481984 := by decide +kernel

/-! ## The kernel with a rounded root: nothing but the rounding contracts is assumed -/
section Exec
variable {K : Type} [Field K] [LinearOrder K] [IsStrictOrderedRing K]

/-- **computed norm with a rounded root** (`SqrtOk`: the root's square within `2u + 3u²` of the
radicand): non-negative, its square within `10u` of `Σ_c v_c²`, zero exactly on zero cells —
no exact root is assumed anywhere -/
theorem flNorm_exec (fl sq : K → K) (u : K) (h : FlOk fl u) (hq : SqrtOk sq u) (hu : u ≤ 1 / 1024)
    (v : List K) (hlen : v.length ≤ 4) :
    0 ≤ flNormCell fl sq v ∧
    |flNormCell fl sq v * flNormCell fl sq v - sqLen v| ≤ 10 * u * sqLen v ∧
    (flNormCell fl sq v = 0 ↔ ∀ x ∈ v, x = 0) := by
  obtain ⟨h1, h2, h3⟩ := flNormCell_exec h hq hu v hlen
  exact ⟨h1, h2, h3.trans (sqLen_eq_zero_iff v)⟩

/-- **computed setter with a rounded root**: a zero cell stays exactly zero; on every other
cell the squared length of the result is within `15u` of `t²` (oracle `16u`), every cross
term with the old vector is relatively below `17/4·u/(1 − 17/8·u)`, and for a positive
target the dot product with the old vector is positive -/
theorem flSetCell_exec (fl sq : K → K) (u : K) (h : FlOk fl u) (hq : SqrtOk sq u) (hu : u ≤ 1 / 1024)
    (v : List K) (t : K) (hlen : v.length ≤ 4) :
    ((∀ x ∈ v, x = 0) → flSetCell fl sq v t = zeros v) ∧
    (sqLen v ≠ 0 →
      |sqLen (flSetCell fl sq v t) - t * t| ≤ 15 * u * (t * t) ∧
      (∀ a b : Nat, a < v.length →
        |(flSetCell fl sq v t).getD a 0 * v.getD b 0 - (flSetCell fl sq v t).getD b 0 * v.getD a 0|
          * (1 - 17 / 8 * u) ≤ 17 / 4 * u * |(flSetCell fl sq v t).getD a 0 * v.getD b 0|) ∧
      (0 < t → 0 < dot (flSetCell fl sq v t) v)) := by
  obtain ⟨hn0, hnsq, hnz⟩ := flNormCell_exec h hq hu v hlen
  have hu0 := h.1
  constructor
  · intro hv
    exact flSetCell_of_eq h t (hnz.mpr ((sqLen_eq_zero_iff v).mpr hv))
  · intro hS
    have hne : flNormCell fl sq v ≠ 0 := fun e => hS (hnz.mp e)
    have hnpos : 0 < flNormCell fl sq v := lt_of_le_of_ne hn0 (Ne.symm hne)
    have hSpos : 0 < sqLen v := lt_of_le_of_ne (sqLen_nonneg v) (Ne.symm hS)
    rw [flSetCell_of_ne t hne]
    set n := flNormCell fl sq v with hn
    have herr : ∀ x, |fl (fl (x / n) * t) - t / n * x| ≤ 17 / 8 * u * |t / n * x| := fun x =>
      (quot_mul_exec h hu n x t).2
    refine ⟨?_, fun a b ha => ?_, fun ht => ?_⟩
    · have key := sqLen_map_err (fun x => fl (fl (x / n) * t)) (t / n) (17 / 8 * u) (by linarith) v
        fun x _ => herr x
      have hq1 := ratio_err hu0 hu hSpos hnpos hnsq
      have e : t / n * (t / n) * sqLen v = t * t * (sqLen v / (n * n)) := by field_simp
      rw [e] at key
      set q := sqLen v / (n * n) with hqdef
      have hqb := abs_le.mp hq1
      have htt := mul_self_nonneg t
      have hq0 : 0 ≤ q := div_nonneg hSpos.le (mul_pos hnpos hnpos).le
      have hρ : 2 * (17 / 8 * u) + 17 / 8 * u * (17 / 8 * u) ≤ 43 / 10 * u := by nlinarith
      have hk : |sqLen (v.map fun x => fl (fl (x / n) * t)) - t * t * q| ≤ 43 / 10 * u * (t * t * q) :=
        le_trans key (mul_le_mul_of_nonneg_right hρ (mul_nonneg htt hq0))
      have hk2 : 43 / 10 * u * (t * t * q) ≤ 19 / 4 * u * (t * t) := by
        have : 43 / 10 * u * q ≤ 19 / 4 * u := by nlinarith
        nlinarith
      have hk3 : |t * t * q - t * t| ≤ 41 / 4 * u * (t * t) := by
        have : t * t * q - t * t = t * t * (q - 1) := by ring
        rw [this, abs_mul, abs_of_nonneg htt, mul_comm]
        exact mul_le_mul_of_nonneg_right hq1 htt
      have e2 : sqLen (v.map fun x => fl (fl (x / n) * t)) - t * t =
          (sqLen (v.map fun x => fl (fl (x / n) * t)) - t * t * q) + (t * t * q - t * t) := by ring
      rw [e2]
      have := abs_add_le (sqLen (v.map fun x => fl (fl (x / n) * t)) - t * t * q) (t * t * q - t * t)
      linarith
    · have c1 := cross_err (fun x => fl (fl (x / n) * t)) (t / n) (17 / 8 * u) v (fun x _ => herr x) a b
      have c2 := cross_low (fun x => fl (fl (x / n) * t)) (t / n) (17 / 8 * u) v (fun x _ => herr x) a b ha
      have h1 : (0 : K) ≤ 1 - 17 / 8 * u := by linarith
      have := mul_le_mul_of_nonneg_right c1 h1
      nlinarith
    · have hlam : 0 < t / n := div_pos ht hnpos
      have := dot_map_low (fun x => fl (fl (x / n) * t)) (t / n) (17 / 8 * u) hlam.le v fun x _ => herr x
      have : 0 < (1 - 17 / 8 * u) * (t / n * sqLen v) := mul_pos (by linarith) (mul_pos hlam hSpos)
      linarith

/-- **computed orientation with a rounded root**, above the threshold: squared length within
`13u` of 1 (oracle `16u`); times the computed norm it reproduces the field within one rounding -/
theorem flOrientCell_exec (fl sq : K → K) (u atol : K) (h : FlOk fl u) (hq : SqrtOk sq u)
    (hu : u ≤ 1 / 1024) (v : List K) (hlen : v.length ≤ 4) (h0 : 0 ≤ atol)
    (hat : atol < flNormCell fl sq v) :
    |sqLen (flOrientCell fl sq atol v) - 1| ≤ 13 * u ∧
    ∀ a : Nat, |(flOrientCell fl sq atol v).getD a 0 * flNormCell fl sq v - v.getD a 0| ≤ u * |v.getD a 0| := by
  obtain ⟨hn0, hnsq, hnz⟩ := flNormCell_exec h hq hu v hlen
  have hu0 := h.1
  have hnpos : 0 < flNormCell fl sq v := lt_of_le_of_lt h0 hat
  have hS : sqLen v ≠ 0 := fun e => hnpos.ne' (hnz.mpr e)
  have hSpos : 0 < sqLen v := lt_of_le_of_ne (sqLen_nonneg v) (Ne.symm hS)
  have hcz : closeZero atol (flNormCell fl sq v) = false := by
    rw [closeZero_eq, decide_eq_false_iff_not, not_le, abs_of_pos hnpos]; exact hat
  have hf : flOrientCell fl sq atol v = v.map fun x => fl (x / flNormCell fl sq v) := by
    unfold flOrientCell; rw [hcz]; rfl
  rw [hf]
  set n := flNormCell fl sq v with hn
  constructor
  · have key := sqLen_map_err (fun x => fl (x / n)) (1 / n) u hu0 v fun x _ => by
      have e1 : 1 / n * x = x / n := by ring
      rw [e1]; exact h.2 _
    have hq1 := ratio_err hu0 hu hSpos hnpos hnsq
    have e : 1 / n * (1 / n) * sqLen v = sqLen v / (n * n) := by field_simp
    rw [e] at key
    set q := sqLen v / (n * n) with hqdef
    have hqb := abs_le.mp hq1
    have hq0 : 0 ≤ q := div_nonneg hSpos.le (mul_pos hnpos hnpos).le
    have hk2 : (2 * u + u * u) * q ≤ 11 / 4 * u := by nlinarith
    have e2 : sqLen (v.map fun x => fl (x / n)) - 1 = (sqLen (v.map fun x => fl (x / n)) - q) + (q - 1) := by ring
    rw [e2]
    have := abs_add_le (sqLen (v.map fun x => fl (x / n)) - q) (q - 1)
    linarith
  · intro a
    rw [getD_map_zero]
    split
    · exact quot_times_err h hnpos.ne' _
    · rename_i hge
      have : v.getD a 0 = 0 := by simp [List.getD_eq_getElem?_getD, not_lt.mp hge]
      rw [this]; simp

end Exec

/-! ### … instantiated with the executable `fl64` / `sqrt64`: theorems about the very function the
correspondence run compares bit for bit with NumPy, for every rational (so every binary64) input -/
section Exec64

/-- the executable correctly rounded root meets the root contract with `u = 2^-53` -/
theorem sqrt64_sqrtOk : SqrtOk sqrt64 (1 / 9007199254740992) :=
  ⟨fun x hx => sqrt64_sq_err x hx, sqrt64_nonpos⟩

/-- **end to end for the bit-exact kernel**: for every rational cell of at most four components
and every target, the numbers `fl_cells` computes (found bit-identical to NumPy's by the
correspondence run, which records this per case) satisfy the property's promise with explicit slack `u = 2^-53`:
zero cells stay zero; otherwise squared length within `15u` of `t²`, cross terms relatively
below `17/4·u/(1−17/8·u)`, positive dot product for `t > 0`; the norm getter's square is
within `10u` of `Σ v_c²` -/
theorem exec64_setCell (v : List Rat) (t : Rat) (hlen : v.length ≤ 4) :
    ((∀ x ∈ v, x = 0) → flSetCell fl64 sqrt64 v t = zeros v) ∧
    (sqLen v ≠ 0 →
      |sqLen (flSetCell fl64 sqrt64 v t) - t * t| ≤ 15 * (1 / 9007199254740992) * (t * t) ∧
      (∀ a b : Nat, a < v.length →
        |(flSetCell fl64 sqrt64 v t).getD a 0 * v.getD b 0 - (flSetCell fl64 sqrt64 v t).getD b 0 * v.getD a 0|
          * (1 - 17 / 8 * (1 / 9007199254740992)) ≤
          17 / 4 * (1 / 9007199254740992) * |(flSetCell fl64 sqrt64 v t).getD a 0 * v.getD b 0|) ∧
      (0 < t → 0 < dot (flSetCell fl64 sqrt64 v t) v)) ∧
    |flNormCell fl64 sqrt64 v * flNormCell fl64 sqrt64 v - sqLen v| ≤ 10 * (1 / 9007199254740992) * sqLen v := by
  obtain ⟨h1, h2⟩ := flSetCell_exec fl64 sqrt64 _ fl64_flOk sqrt64_sqrtOk (by norm_num) v t hlen
  exact ⟨h1, h2, (flNorm_exec fl64 sqrt64 _ fl64_flOk sqrt64_sqrtOk (by norm_num) v hlen).2.1⟩

/-- … and the orientation the bit-exact kernel computes above the threshold has squared length
within `13u` of 1 and reproduces the field, times the computed norm, within one rounding -/
theorem exec64_orientCell (atol : Rat) (v : List Rat) (hlen : v.length ≤ 4) (h0 : 0 ≤ atol)
    (hat : atol < flNormCell fl64 sqrt64 v) :
    |sqLen (flOrientCell fl64 sqrt64 atol v) - 1| ≤ 13 * (1 / 9007199254740992) ∧
    ∀ a : Nat, |(flOrientCell fl64 sqrt64 atol v).getD a 0 * flNormCell fl64 sqrt64 v - v.getD a 0| ≤
      1 / 9007199254740992 * |v.getD a 0| :=
  flOrientCell_exec fl64 sqrt64 _ atol fl64_flOk sqrt64_sqrtOk (by norm_num) v hlen h0 hat

end Exec64

example : atolDefault < flNormCell fl64 sqrt64 ([1, 1 / 3] : List Rat) := by decide +kernel


/-! ## Rounded arithmetic for ANY number of components -/
section RoundedAny
variable {K : Type} [Field K] [LinearOrder K] [IsStrictOrderedRing K]

/-- **computed norm, any number `n` of components** (exact root at the two radicands): under the
single hypothesis `(n+1)²·u ≤ 2^-10` it is within `(n/2 + 2)·u` of the length and its square
within `(n+4)·u` of `Σ_c v_c²` (for `n = 4`: `4u` and `8u`, the constants of the table theorems) -/
theorem flNorm_err_any (fl sqrt : K → K) (u : K) (h : FlOk fl u) (v : List K)
    (hn : ((v.length : K) + 1) * ((v.length : K) + 1) * u ≤ 1 / 1024)
    (hs : SqrtAt sqrt (sqLen v)) (hs' : SqrtAt sqrt (flSqLen fl v)) :
    |flNormCell fl sqrt v - normCell sqrt v| ≤ ((v.length : K) / 2 + 2) * u * normCell sqrt v ∧
    |flNormCell fl sqrt v * flNormCell fl sqrt v - sqLen v| ≤ ((v.length : K) + 4) * u * sqLen v := by
  have s := small_len h.1 v.length hn
  have h1 := flNormCell_err_gen h v s hs hs'
  have hb0 : 0 ≤ normCell sqrt v := hs.1
  have hu0 := h.1
  set m := ((v.length : K) + 1) * u with hm
  have hη0 : 0 ≤ 1 / 2 * m + 513 / 512 * u := by have := s.m0; linarith
  constructor
  · refine le_trans h1 (mul_le_mul_of_nonneg_right ?_ hb0)
    rw [hm]; nlinarith
  · have hbb : normCell sqrt v * normCell sqrt v = sqLen v := hs.2
    have := sq_err (w := flNormCell fl sqrt v) (z := normCell sqrt v) (ρ := 1 / 2 * m + 513 / 512 * u) hη0
      (by rw [abs_of_nonneg hb0]; exact h1)
    rw [hbb] at this
    have h2 := s.two_sq hη0 (a := 1 / 2) (b := 513 / 512) (by norm_num) (by norm_num) le_rfl
    have hS := sqLen_nonneg v
    refine le_trans this (mul_le_mul_of_nonneg_right ?_ hS)
    refine le_trans h2 ?_
    rw [hm]; nlinarith

/-- **computed setter, any number of components** (exact root): the floating-point zero guard
is the exact per-cell guard; on a non-zero cell every component is within `(n/2 + 4)·u` of
`(t/‖v‖)·v_c`, the squared length within `(n+8)·u` of `t²`, every cross term with the old
vector relatively below `2ρ/(1−ρ)` with `ρ = (n/2+4)u`, and for `t > 0` the dot product with
the old vector is positive -/
theorem flSetCell_any (fl sqrt : K → K) (u : K) (h : FlOk fl u) (v : List K) (t : K)
    (hn : ((v.length : K) + 1) * ((v.length : K) + 1) * u ≤ 1 / 1024)
    (hs : SqrtAt sqrt (sqLen v)) (hs' : SqrtAt sqrt (flSqLen fl v)) :
    ((∀ x ∈ v, x = 0) → flSetCell fl sqrt v t = zeros v) ∧
    (sqLen v ≠ 0 →
      (∃ f : K → K, flSetCell fl sqrt v t = v.map f ∧
        ∀ x, |f x - t / normCell sqrt v * x| ≤ ((v.length : K) / 2 + 4) * u * |t / normCell sqrt v * x|) ∧
      |sqLen (flSetCell fl sqrt v t) - t * t| ≤ ((v.length : K) + 8) * u * (t * t) ∧
      (∀ a b : Nat, a < v.length →
        |(flSetCell fl sqrt v t).getD a 0 * v.getD b 0 - (flSetCell fl sqrt v t).getD b 0 * v.getD a 0|
          * (1 - ((v.length : K) / 2 + 4) * u) ≤
          2 * (((v.length : K) / 2 + 4) * u) * |(flSetCell fl sqrt v t).getD a 0 * v.getD b 0|) ∧
      (0 < t → 0 < dot (flSetCell fl sqrt v t) v)) := by
  have s := small_len h.1 v.length hn
  have hz := flNormCell_eq_zero_iff_gen (sqrt := sqrt) h v s hs'
  have hu0 := h.1
  have hm0 := s.m0
  have hm64 := s.m64
  have hu64 := s.u64
  constructor
  · intro hv
    exact flSetCell_of_eq h t (hz.mpr ((sqLen_eq_zero_iff v).mpr hv))
  · intro hnz
    have hne : flNormCell fl sqrt v ≠ 0 := fun e => hnz (hz.mp e)
    have hf := flSetCell_of_ne (fl := fl) (sqrt := sqrt) (v := v) t hne
    set m := ((v.length : K) + 1) * u with hm
    set ρ := 1 / 2 * m + 193 / 64 * u with hρ
    have hρ0 : 0 ≤ ρ := by rw [hρ]; linarith
    have hρc : ρ ≤ ((v.length : K) / 2 + 4) * u := by rw [hρ, hm]; nlinarith
    have hρ1 : ρ ≤ 1 / 2 := by rw [hρ]; linarith
    have herr : ∀ x, |fl (fl (x / flNormCell fl sqrt v) * t) - t / normCell sqrt v * x| ≤
        ρ * |t / normCell sqrt v * x| := fun x =>
      (quot_mul_gen h s (hs.pos hnz) (flNormCell_err_gen h v s hs hs') x t).2
    have hb : normCell sqrt v ≠ 0 := fun e => hnz (hs.eq_zero_iff.mp e)
    have hlamS : t / normCell sqrt v * (t / normCell sqrt v) * sqLen v = t * t := by
      have hb2 : sqLen v = normCell sqrt v * normCell sqrt v := hs.2.symm
      rw [hb2]; field_simp
    refine ⟨⟨_, hf, fun x => le_trans (herr x) (mul_le_mul_of_nonneg_right hρc (abs_nonneg _))⟩, ?_, ?_, ?_⟩
    · have key := sqLen_map_err _ (t / normCell sqrt v) ρ hρ0 v fun x _ => herr x
      rw [hlamS] at key
      rw [hf]
      have h2 := s.two_sq hρ0 (a := 1 / 2) (b := 193 / 64) (by norm_num) (by norm_num) (le_of_eq hρ)
      refine le_trans key (mul_le_mul_of_nonneg_right (le_trans h2 ?_) (mul_self_nonneg t))
      rw [hm]; nlinarith
    · intro a b ha
      rw [hf]
      have c1 := cross_err _ (t / normCell sqrt v) ρ v (fun x _ => herr x) a b
      have c2 := cross_low _ (t / normCell sqrt v) ρ v (fun x _ => herr x) a b ha
      set X := |(v.map fun x => fl (fl (x / flNormCell fl sqrt v) * t)).getD a 0 * v.getD b 0 -
        (v.map fun x => fl (fl (x / flNormCell fl sqrt v) * t)).getD b 0 * v.getD a 0| with hX
      set Y := |t / normCell sqrt v * v.getD a 0 * v.getD b 0| with hY
      set W := |(v.map fun x => fl (fl (x / flNormCell fl sqrt v) * t)).getD a 0 * v.getD b 0| with hW
      have hX0 : 0 ≤ X := abs_nonneg _
      have hY0 : 0 ≤ Y := abs_nonneg _
      have hW0 : 0 ≤ W := abs_nonneg _
      set ρ' := ((v.length : K) / 2 + 4) * u with hρ'
      -- X ≤ 2ρY, (1-ρ)Y ≤ W, ρ ≤ ρ'
      have h1 : X * (1 - ρ) ≤ 2 * ρ * W := by
        have := mul_le_mul_of_nonneg_left c2 (by linarith : (0 : K) ≤ 2 * ρ)
        nlinarith
      have h2 : X * (1 - ρ') ≤ X * (1 - ρ) := mul_le_mul_of_nonneg_left (by linarith) hX0
      have h3 : 2 * ρ * W ≤ 2 * ρ' * W := mul_le_mul_of_nonneg_right (by linarith) hW0
      linarith
    · intro ht
      rw [hf]
      have hlam : 0 < t / normCell sqrt v := div_pos ht (hs.pos hnz)
      have := dot_map_low _ (t / normCell sqrt v) ρ hlam.le v fun x _ => herr x
      have hS : 0 < sqLen v := lt_of_le_of_ne (sqLen_nonneg v) (Ne.symm hnz)
      have : 0 < (1 - ρ) * (t / normCell sqrt v * sqLen v) := mul_pos (by linarith) (mul_pos hlam hS)
      linarith


/-- **computed orientation, any number of components** (exact root), above the threshold:
every component within `(n/2 + 3)·u` of `v_c/‖v‖`, squared length within `(n+6)·u` of 1,
`orientation × computed norm` within one rounding of the field; and the threshold decision can
differ from the exact one only for lengths within the relative band `(n/2 + 2)·u` of `atol` -/
theorem flOrientCell_any (fl sqrt : K → K) (u atol : K) (h : FlOk fl u) (v : List K)
    (hn : ((v.length : K) + 1) * ((v.length : K) + 1) * u ≤ 1 / 1024)
    (hs : SqrtAt sqrt (sqLen v)) (hs' : SqrtAt sqrt (flSqLen fl v)) (h0 : 0 ≤ atol) :
    (atol < flNormCell fl sqrt v →
      ∃ f : K → K, flOrientCell fl sqrt atol v = v.map f ∧
        (∀ x, |f x - x / normCell sqrt v| ≤ ((v.length : K) / 2 + 3) * u * |x / normCell sqrt v|) ∧
        |sqLen (flOrientCell fl sqrt atol v) - 1| ≤ ((v.length : K) + 6) * u ∧
        ∀ x, |f x * flNormCell fl sqrt v - x| ≤ u * |x|) ∧
    (normCell sqrt v * (1 + ((v.length : K) / 2 + 2) * u) ≤ atol → flOrientCell fl sqrt atol v = zeros v) ∧
    (atol < normCell sqrt v * (1 - ((v.length : K) / 2 + 2) * u) →
      flOrientCell fl sqrt atol v = v.map fun x => fl (x / flNormCell fl sqrt v)) := by
  have s := small_len h.1 v.length hn
  have hz := flNormCell_eq_zero_iff_gen (sqrt := sqrt) h v s hs'
  have hu0 := h.1
  have hm0 := s.m0
  have hm64 := s.m64
  have hu64 := s.u64
  have hnerr := (flNorm_err_any fl sqrt u h v hn hs hs').1
  have hn0 : 0 ≤ flNormCell fl sqrt v := h.nonneg (by linarith) hs'.1
  refine ⟨fun hat => ?_, fun hle => ?_, fun hlt => ?_⟩
  · have hnpos : 0 < flNormCell fl sqrt v := lt_of_le_of_lt h0 hat
    have hnz : sqLen v ≠ 0 := fun e => hnpos.ne' (hz.mpr e)
    have hcz : closeZero atol (flNormCell fl sqrt v) = false := by
      rw [closeZero_eq, decide_eq_false_iff_not, not_le, abs_of_pos hnpos]; exact hat
    have hf : flOrientCell fl sqrt atol v = v.map fun x => fl (x / flNormCell fl sqrt v) := by
      unfold flOrientCell; rw [hcz]; rfl
    set m := ((v.length : K) + 1) * u with hm
    set ρ := 1 / 2 * m + 257 / 128 * u with hρ
    have hρ0 : 0 ≤ ρ := by rw [hρ]; linarith
    have hρc : ρ ≤ ((v.length : K) / 2 + 3) * u := by rw [hρ, hm]; nlinarith
    have herr : ∀ x, |fl (x / flNormCell fl sqrt v) - x / normCell sqrt v| ≤ ρ * |x / normCell sqrt v| :=
      fun x => (quot_mul_gen h s (hs.pos hnz) (flNormCell_err_gen h v s hs hs') x 1).1
    refine ⟨_, hf, fun x => le_trans (herr x) (mul_le_mul_of_nonneg_right hρc (abs_nonneg _)), ?_,
      fun x => quot_times_err h hnpos.ne' x⟩
    have hb : normCell sqrt v ≠ 0 := fun e => hnz (hs.eq_zero_iff.mp e)
    have key := sqLen_map_err (fun x => fl (x / flNormCell fl sqrt v)) (1 / normCell sqrt v) ρ hρ0 v
      fun x _ => by
        have e1 : 1 / normCell sqrt v * x = x / normCell sqrt v := by ring
        rw [e1]; exact herr x
    have e : 1 / normCell sqrt v * (1 / normCell sqrt v) * sqLen v = 1 := by
      have hb2 : sqLen v = normCell sqrt v * normCell sqrt v := hs.2.symm
      rw [hb2]; field_simp
    rw [e, mul_one] at key
    rw [hf]
    have h2 := s.two_sq hρ0 (a := 1 / 2) (b := 257 / 128) (by norm_num) (by norm_num) (le_of_eq hρ)
    refine le_trans key (le_trans h2 ?_)
    rw [hm]; nlinarith
  · have herr := abs_le.mp hnerr
    unfold flOrientCell
    have : closeZero atol (flNormCell fl sqrt v) = true := by
      rw [closeZero_eq, decide_eq_true_iff, abs_of_nonneg hn0]; linarith [herr.2]
    rw [this]; rfl
  · have herr := abs_le.mp hnerr
    unfold flOrientCell
    have : closeZero atol (flNormCell fl sqrt v) = false := by
      rw [closeZero_eq, decide_eq_false_iff_not, not_le, abs_of_nonneg hn0]; linarith [herr.1]
    rw [this]; rfl

/-- **computed norm with a rounded root, any number of components** (`SqrtOk`: no exact root
assumed): non-negative, its square within `(n+6)·u` of `Σ_c v_c²`, zero exactly on zero cells -/
theorem flNorm_exec_any (fl sq : K → K) (u : K) (h : FlOk fl u) (hq : SqrtOk sq u) (v : List K)
    (hn : ((v.length : K) + 1) * ((v.length : K) + 1) * u ≤ 1 / 1024) :
    0 ≤ flNormCell fl sq v ∧
    |flNormCell fl sq v * flNormCell fl sq v - sqLen v| ≤ ((v.length : K) + 6) * u * sqLen v ∧
    (flNormCell fl sq v = 0 ↔ ∀ x ∈ v, x = 0) := by
  have s := small_len h.1 v.length hn
  obtain ⟨h1, h2, h3⟩ := flNormCell_exec_gen h hq v s
  refine ⟨h1, le_trans h2 (mul_le_mul_of_nonneg_right ?_ (sqLen_nonneg v)), h3.trans (sqLen_eq_zero_iff v)⟩
  have := h.1; nlinarith

/-- **computed setter with a rounded root, any number of components**: a zero cell stays exactly
zero; on every other cell the squared length of the result is within `(n+10)·u` of `t²`, every
cross term with the old vector is relatively below `17/4·u/(1 − 17/8·u)`, and for a positive
target the dot product with the old vector is positive -/
theorem flSetCell_exec_any (fl sq : K → K) (u : K) (h : FlOk fl u) (hq : SqrtOk sq u) (v : List K) (t : K)
    (hn : ((v.length : K) + 1) * ((v.length : K) + 1) * u ≤ 1 / 1024) :
    ((∀ x ∈ v, x = 0) → flSetCell fl sq v t = zeros v) ∧
    (sqLen v ≠ 0 →
      |sqLen (flSetCell fl sq v t) - t * t| ≤ ((v.length : K) + 10) * u * (t * t) ∧
      (∀ a b : Nat, a < v.length →
        |(flSetCell fl sq v t).getD a 0 * v.getD b 0 - (flSetCell fl sq v t).getD b 0 * v.getD a 0|
          * (1 - 17 / 8 * u) ≤ 17 / 4 * u * |(flSetCell fl sq v t).getD a 0 * v.getD b 0|) ∧
      (0 < t → 0 < dot (flSetCell fl sq v t) v)) := by
  have s := small_len h.1 v.length hn
  obtain ⟨hn0, hnsq, hnz⟩ := flNormCell_exec_gen h hq v s
  have hu0 := h.1
  have hu64 := s.u64
  have hm0 := s.m0
  constructor
  · intro hv
    exact flSetCell_of_eq h t (hnz.mpr ((sqLen_eq_zero_iff v).mpr hv))
  · intro hS
    have hne : flNormCell fl sq v ≠ 0 := fun e => hS (hnz.mp e)
    have hnpos : 0 < flNormCell fl sq v := lt_of_le_of_ne hn0 (Ne.symm hne)
    have hSpos : 0 < sqLen v := lt_of_le_of_ne (sqLen_nonneg v) (Ne.symm hS)
    rw [flSetCell_of_ne t hne]
    set n := flNormCell fl sq v with hndef
    have herr : ∀ x, |fl (fl (x / n) * t) - t / n * x| ≤ 17 / 8 * u * |t / n * x| := fun x =>
      (quot_mul_exec h hu64 n x t).2
    refine ⟨?_, fun a b ha => ?_, fun ht => ?_⟩
    · have hq1 := ratio_small s hSpos hnpos hnsq
      have hκ0 : 0 ≤ |sqLen v / (n * n) - 1| := abs_nonneg _
      have key := sqLen_set_chain (fun x => fl (fl (x / n) * t)) v (ρ := 17 / 8 * u)
        (κ' := |sqLen v / (n * n) - 1|) (by linarith) hκ0 hSpos hnpos le_rfl herr
      have hc := set_chain_small s (ρ := 17 / 8 * u) (c := 17 / 8) (κ' := |sqLen v / (n * n) - 1|)
        (by linarith) (by norm_num) (by norm_num) le_rfl hκ0 hq1
      refine le_trans key (mul_le_mul_of_nonneg_right (le_trans hc ?_) (mul_self_nonneg t))
      nlinarith
    · have c1 := cross_err (fun x => fl (fl (x / n) * t)) (t / n) (17 / 8 * u) v (fun x _ => herr x) a b
      have c2 := cross_low (fun x => fl (fl (x / n) * t)) (t / n) (17 / 8 * u) v (fun x _ => herr x) a b ha
      have h1 : (0 : K) ≤ 1 - 17 / 8 * u := by linarith
      have := mul_le_mul_of_nonneg_right c1 h1
      nlinarith
    · have hlam : 0 < t / n := div_pos ht hnpos
      have := dot_map_low (fun x => fl (fl (x / n) * t)) (t / n) (17 / 8 * u) hlam.le v fun x _ => herr x
      have : 0 < (1 - 17 / 8 * u) * (t / n * sqLen v) := mul_pos (by linarith) (mul_pos hlam hSpos)
      linarith

/-- **computed orientation with a rounded root, any number of components**, above the threshold:
squared length within `(n+8)·u` of 1; times the computed norm it reproduces the field within
one rounding -/
theorem flOrientCell_exec_any (fl sq : K → K) (u atol : K) (h : FlOk fl u) (hq : SqrtOk sq u) (v : List K)
    (hn : ((v.length : K) + 1) * ((v.length : K) + 1) * u ≤ 1 / 1024) (h0 : 0 ≤ atol)
    (hat : atol < flNormCell fl sq v) :
    |sqLen (flOrientCell fl sq atol v) - 1| ≤ ((v.length : K) + 8) * u ∧
    ∀ a : Nat, |(flOrientCell fl sq atol v).getD a 0 * flNormCell fl sq v - v.getD a 0| ≤ u * |v.getD a 0| := by
  have s := small_len h.1 v.length hn
  obtain ⟨hn0, hnsq, hnz⟩ := flNormCell_exec_gen h hq v s
  have hu0 := h.1
  have hnpos : 0 < flNormCell fl sq v := lt_of_le_of_lt h0 hat
  have hS : sqLen v ≠ 0 := fun e => hnpos.ne' (hnz.mpr e)
  have hSpos : 0 < sqLen v := lt_of_le_of_ne (sqLen_nonneg v) (Ne.symm hS)
  have hcz : closeZero atol (flNormCell fl sq v) = false := by
    rw [closeZero_eq, decide_eq_false_iff_not, not_le, abs_of_pos hnpos]; exact hat
  have hf : flOrientCell fl sq atol v = v.map fun x => fl (x / flNormCell fl sq v) := by
    unfold flOrientCell; rw [hcz]; rfl
  rw [hf]
  set n := flNormCell fl sq v with hndef
  constructor
  · have hq1 := ratio_small s hSpos hnpos hnsq
    have hκ0 : 0 ≤ |sqLen v / (n * n) - 1| := abs_nonneg _
    have key := sqLen_set_chain (fun x => fl (x / n)) v (t := 1) (ρ := u)
      (κ' := |sqLen v / (n * n) - 1|) hu0 hκ0 hSpos hnpos le_rfl (fun x => by
        have e1 : 1 / n * x = x / n := by ring
        rw [e1]; exact h.2 _)
    have hc := set_chain_small s (ρ := u) (c := 1) (κ' := |sqLen v / (n * n) - 1|)
      hu0 (by norm_num) (by norm_num) (by linarith) hκ0 hq1
    rw [mul_one, mul_one] at key
    refine le_trans key (le_trans hc ?_)
    nlinarith
  · intro a
    rw [getD_map_zero]
    split
    · exact quot_times_err h hnpos.ne' _
    · rename_i hge
      have : v.getD a 0 = 0 := by simp [List.getD_eq_getElem?_getD, not_lt.mp hge]
      rw [this]; simp

end RoundedAny

section CplxRounded
variable {K : Type} [Field K] [LinearOrder K] [IsStrictOrderedRing K]

/-- with `fl := id` the rounded complex kernel (fused or not) is the exact complex kernel of the
model, so — through `complex_view` — the real kernel on the `(re, im)` view -/
theorem cflKernel_id (sqrt : K → K) (atol : K) (fused : Bool) (v : List (K × K)) (t : K) :
    cflNormCell id sqrt fused v = cNormCell sqrt v ∧ cflSetCell id sqrt fused v t = cSetCell sqrt v t ∧
    cflOrientCell id sqrt fused atol v = cOrientCell sqrt atol v := by
  have hs : cflSqLen id fused v = cSqLen v := by
    unfold cflSqLen
    suffices H : ∀ a : K, v.foldl (fun acc z => id (acc + cflAbs2 id fused z)) a = a + cSqLen v by
      rw [H, zero_add]
    induction v with
    | nil => intro a; simp [cSqLen]
    | cons z zs ih =>
      intro a
      simp only [List.foldl_cons, cSqLen]
      rw [ih]
      cases fused <;> simp [cflAbs2] <;> ring
  have hn : cflNormCell id sqrt fused v = cNormCell sqrt v := by
    unfold cflNormCell cNormCell; rw [hs]; rfl
  have hd : ∀ n : K, cflDivCell id v n = v.map fun z => (z.1 / n, z.2 / n) := by
    intro n
    unfold cflDivCell
    apply List.map_congr_left
    intro z _
    simp [div_eq_mul_inv]
  refine ⟨hn, ?_, ?_⟩
  · unfold cflSetCell cSetCell
    rw [hn, hd]
    apply List.map_congr_left
    intro z _
    simp [cmul_real]
  · unfold cflOrientCell cOrientCell
    rw [hn, hd]

/-- **computed norm of a complex cell** (`Σ|z_c|²` with or without a fused multiply-add, rounded
root), any number `n` of complex components with `(n+2)²·u ≤ 2^-10`: non-negative, its square
within `(n+7)·u` of `Σ|z_c|²`, zero exactly on the zero cell -/
theorem cflNorm_exec_any (fl sq : K → K) (u : K) (h : FlOk fl u) (hq : SqrtOk sq u) (fused : Bool)
    (v : List (K × K)) (hn : ((v.length : K) + 2) * ((v.length : K) + 2) * u ≤ 1 / 1024) :
    0 ≤ cflNormCell fl sq fused v ∧
    |cflNormCell fl sq fused v * cflNormCell fl sq fused v - cSqLen v| ≤ ((v.length : K) + 7) * u * cSqLen v ∧
    (cflNormCell fl sq fused v = 0 ↔ cSqLen v = 0) := by
  have s := small_len2 h.1 v.length hn
  obtain ⟨h1, h2, h3⟩ := cflNormCell_exec_gen h hq fused v s
  refine ⟨h1, le_trans h2 (mul_le_mul_of_nonneg_right ?_ (cSqLen_nonneg v)), h3⟩
  have := h.1; nlinarith

/-- **computed norm setter on a complex cell** (division through the rounded reciprocal — two
roundings — then the product with the real target): a zero cell stays exactly zero; on every
other cell real and imaginary part of every component are multiplied by the same real factor
up to `49/16·u` (three roundings), `Σ|z_c|²` of the result is within `(n+13)·u` of `t²`, every
cross term of the `(re, im)` view with the old view is relatively below
`49/8·u/(1 − 49/16·u)` (direction **and phases** kept), and for `t > 0` the real dot product of
the views is positive -/
theorem cflSetCell_exec_any (fl sq : K → K) (u : K) (h : FlOk fl u) (hq : SqrtOk sq u) (fused : Bool)
    (v : List (K × K)) (t : K) (hn : ((v.length : K) + 2) * ((v.length : K) + 2) * u ≤ 1 / 1024) :
    (cSqLen v = 0 → flattenC (cflSetCell fl sq fused v t) = zeros (flattenC v)) ∧
    (cSqLen v ≠ 0 →
      (∃ f : K → K, flattenC (cflSetCell fl sq fused v t) = (flattenC v).map f ∧
        ∀ x, |f x - t / cflNormCell fl sq fused v * x| ≤
          49 / 16 * u * |t / cflNormCell fl sq fused v * x|) ∧
      |cSqLen (cflSetCell fl sq fused v t) - t * t| ≤ ((v.length : K) + 13) * u * (t * t) ∧
      (∀ a b : Nat, a < (flattenC v).length →
        |(flattenC (cflSetCell fl sq fused v t)).getD a 0 * (flattenC v).getD b 0 -
            (flattenC (cflSetCell fl sq fused v t)).getD b 0 * (flattenC v).getD a 0|
          * (1 - 49 / 16 * u) ≤
          49 / 8 * u * |(flattenC (cflSetCell fl sq fused v t)).getD a 0 * (flattenC v).getD b 0|) ∧
      (0 < t → 0 < dot (flattenC (cflSetCell fl sq fused v t)) (flattenC v))) := by
  have s := small_len2 h.1 v.length hn
  obtain ⟨hn0, hnsq, hnz⟩ := cflNormCell_exec_gen h hq fused v s
  have hu0 := h.1
  have hu64 := s.u64
  have hm0 := s.m0
  constructor
  · intro hv
    exact flattenC_cflSet_of_eq h t (hnz.mpr hv)
  · intro hS
    have hne : cflNormCell fl sq fused v ≠ 0 := fun e => hS (hnz.mp e)
    have hnpos : 0 < cflNormCell fl sq fused v := lt_of_le_of_ne hn0 (Ne.symm hne)
    have hS' : sqLen (flattenC v) = cSqLen v := sqLen_flattenC v
    have hSpos : 0 < sqLen (flattenC v) := by
      rw [hS']; exact lt_of_le_of_ne (cSqLen_nonneg v) (Ne.symm hS)
    have hf := flattenC_cflSet_of_ne (fl := fl) (sq := sq) (fused := fused) (v := v) t hne
    rw [← sqLen_flattenC (cflSetCell fl sq fused v t), hf]
    set n := cflNormCell fl sq fused v with hndef
    have herr : ∀ x, |fl (fl (x * fl (1 / n)) * t) - t / n * x| ≤ 49 / 16 * u * |t / n * x| := fun x =>
      (recip_mul_err h hu64 n x t).2
    refine ⟨⟨_, rfl, herr⟩, ?_, fun a b ha => ?_, fun ht => ?_⟩
    · rw [← hS'] at hnsq
      have hq1 := ratio_small s hSpos hnpos hnsq
      have hκ0 : 0 ≤ |sqLen (flattenC v) / (n * n) - 1| := abs_nonneg _
      have key := sqLen_set_chain (fun x => fl (fl (x * fl (1 / n)) * t)) (flattenC v) (ρ := 49 / 16 * u)
        (κ' := |sqLen (flattenC v) / (n * n) - 1|) (by linarith) hκ0 hSpos hnpos le_rfl herr
      have hc := set_chain_small s (ρ := 49 / 16 * u) (c := 49 / 16)
        (κ' := |sqLen (flattenC v) / (n * n) - 1|) (by linarith) (by norm_num) (by norm_num) le_rfl hκ0 hq1
      refine le_trans key (mul_le_mul_of_nonneg_right (le_trans hc ?_) (mul_self_nonneg t))
      nlinarith
    · have c1 := cross_err (fun x => fl (fl (x * fl (1 / n)) * t)) (t / n) (49 / 16 * u) (flattenC v)
        (fun x _ => herr x) a b
      have c2 := cross_low (fun x => fl (fl (x * fl (1 / n)) * t)) (t / n) (49 / 16 * u) (flattenC v)
        (fun x _ => herr x) a b ha
      have h1 : (0 : K) ≤ 1 - 49 / 16 * u := by linarith
      have := mul_le_mul_of_nonneg_right c1 h1
      nlinarith
    · have hlam : 0 < t / n := div_pos ht hnpos
      have := dot_map_low (fun x => fl (fl (x * fl (1 / n)) * t)) (t / n) (49 / 16 * u) hlam.le (flattenC v)
        fun x _ => herr x
      have : 0 < (1 - 49 / 16 * u) * (t / n * sqLen (flattenC v)) :=
        mul_pos (by linarith) (mul_pos hlam hSpos)
      linarith

/-- **computed orientation of a complex cell**, above the threshold: `Σ|o_c|²` within `(n+11)·u`
of 1; real and imaginary parts times the computed norm reproduce the field within two
roundings (`33/16·u`; the reciprocal costs one more rounding than the real division) -/
theorem cflOrientCell_exec_any (fl sq : K → K) (u atol : K) (h : FlOk fl u) (hq : SqrtOk sq u)
    (fused : Bool) (v : List (K × K)) (hn : ((v.length : K) + 2) * ((v.length : K) + 2) * u ≤ 1 / 1024)
    (h0 : 0 ≤ atol) (hat : atol < cflNormCell fl sq fused v) :
    |cSqLen (cflOrientCell fl sq fused atol v) - 1| ≤ ((v.length : K) + 11) * u ∧
    ∀ a : Nat, |(flattenC (cflOrientCell fl sq fused atol v)).getD a 0 * cflNormCell fl sq fused v -
        (flattenC v).getD a 0| ≤ 33 / 16 * u * |(flattenC v).getD a 0| := by
  have s := small_len2 h.1 v.length hn
  obtain ⟨hn0, hnsq, hnz⟩ := cflNormCell_exec_gen h hq fused v s
  have hu0 := h.1
  have hu64 := s.u64
  have hnpos : 0 < cflNormCell fl sq fused v := lt_of_le_of_lt h0 hat
  have hS : cSqLen v ≠ 0 := fun e => hnpos.ne' (hnz.mpr e)
  have hS' : sqLen (flattenC v) = cSqLen v := sqLen_flattenC v
  have hSpos : 0 < sqLen (flattenC v) := by
    rw [hS']; exact lt_of_le_of_ne (cSqLen_nonneg v) (Ne.symm hS)
  have hcz : closeZero atol (cflNormCell fl sq fused v) = false := by
    rw [closeZero_eq, decide_eq_false_iff_not, not_le, abs_of_pos hnpos]; exact hat
  have hf : flattenC (cflOrientCell fl sq fused atol v) =
      (flattenC v).map fun x => fl (x * fl (1 / cflNormCell fl sq fused v)) := by
    unfold cflOrientCell; rw [hcz]; exact flattenC_cflDiv fl v _
  rw [← sqLen_flattenC (cflOrientCell fl sq fused atol v), hf]
  set n := cflNormCell fl sq fused v with hndef
  constructor
  · rw [← hS'] at hnsq
    have hq1 := ratio_small s hSpos hnpos hnsq
    have hκ0 : 0 ≤ |sqLen (flattenC v) / (n * n) - 1| := abs_nonneg _
    have key := sqLen_set_chain (fun x => fl (x * fl (1 / n))) (flattenC v) (t := 1) (ρ := 33 / 16 * u)
      (κ' := |sqLen (flattenC v) / (n * n) - 1|) (by linarith) hκ0 hSpos hnpos le_rfl (fun x => by
        have e1 : 1 / n * x = x / n := by ring
        rw [e1]; exact (recip_mul_err h hu64 n x 1).1)
    have hc := set_chain_small s (ρ := 33 / 16 * u) (c := 33 / 16)
      (κ' := |sqLen (flattenC v) / (n * n) - 1|) (by linarith) (by norm_num) (by norm_num) le_rfl hκ0 hq1
    rw [mul_one, mul_one] at key
    refine le_trans key (le_trans hc ?_)
    have := s.m0
    nlinarith
  · intro a
    rw [getD_map_zero]
    split
    · exact recip_times_err h hu64 hnpos.ne' _
    · rename_i hge
      have : (flattenC v).getD a 0 = 0 := by simp [List.getD_eq_getElem?_getD, not_lt.mp hge]
      rw [this]; simp

end CplxRounded

/-! ### … instantiated with the executable `fl64` / `sqrt64` -/
section Exec64Any

/-- **end to end for the bit-exact real kernel, any number of components** (fewer than two
million): for every rational cell and every target the numbers the executable kernel
`fl64`/`sqrt64` computes satisfy, with `u = 2^-53` and `n` the number of components: zero cells
stay zero; otherwise squared length within `(n+10)u` of `t²`, cross terms relatively below
`17/4·u/(1−17/8·u)`, positive dot product for `t > 0`; the norm's square within `(n+6)u` of
`Σ v_c²`; above the threshold the orientation's squared length within `(n+8)u` of 1 and
orientation × norm within one rounding of the field -/
theorem exec64_any (v : List Rat) (t atol : Rat) (hlen : v.length < 2000000) :
    ((∀ x ∈ v, x = 0) → flSetCell fl64 sqrt64 v t = zeros v) ∧
    (sqLen v ≠ 0 →
      |sqLen (flSetCell fl64 sqrt64 v t) - t * t| ≤ ((v.length : Rat) + 10) * (1 / 9007199254740992) * (t * t) ∧
      (∀ a b : Nat, a < v.length →
        |(flSetCell fl64 sqrt64 v t).getD a 0 * v.getD b 0 - (flSetCell fl64 sqrt64 v t).getD b 0 * v.getD a 0|
          * (1 - 17 / 8 * (1 / 9007199254740992)) ≤
          17 / 4 * (1 / 9007199254740992) * |(flSetCell fl64 sqrt64 v t).getD a 0 * v.getD b 0|) ∧
      (0 < t → 0 < dot (flSetCell fl64 sqrt64 v t) v)) ∧
    |flNormCell fl64 sqrt64 v * flNormCell fl64 sqrt64 v - sqLen v| ≤
      ((v.length : Rat) + 6) * (1 / 9007199254740992) * sqLen v ∧
    (0 ≤ atol → atol < flNormCell fl64 sqrt64 v →
      |sqLen (flOrientCell fl64 sqrt64 atol v) - 1| ≤ ((v.length : Rat) + 8) * (1 / 9007199254740992) ∧
      ∀ a : Nat, |(flOrientCell fl64 sqrt64 atol v).getD a 0 * flNormCell fl64 sqrt64 v - v.getD a 0| ≤
        1 / 9007199254740992 * |v.getD a 0|) := by
  have hn := count_ok v.length 1 (by omega) hlen
  simp only [Nat.cast_one] at hn
  obtain ⟨h1, h2⟩ := flSetCell_exec_any fl64 sqrt64 _ fl64_flOk sqrt64_sqrtOk v t hn
  exact ⟨h1, h2, (flNorm_exec_any fl64 sqrt64 _ fl64_flOk sqrt64_sqrtOk v hn).2.1,
    fun h0 hat => flOrientCell_exec_any fl64 sqrt64 _ atol fl64_flOk sqrt64_sqrtOk v hn h0 hat⟩

/-- **end to end for the bit-exact complex kernel** (what the correspondence run compares with
NumPy's arithmetic on `dtype=complex` fields, fused multiply-add or not): zero cells stay
zero; otherwise `Σ|z_c|²` of the result within `(n+13)u` of `t²`, cross terms of the `(re, im)`
views relatively below `49/8·u/(1−49/16·u)`, positive real dot product for `t > 0`; the norm's
square within `(n+7)u` of `Σ|z_c|²`; above the threshold the orientation has `Σ|o_c|²` within
`(n+11)u` of 1 -/
theorem exec64_complex (fused : Bool) (v : List (Rat × Rat)) (t atol : Rat) (hlen : v.length < 2000000) :
    (cSqLen v = 0 → flattenC (cflSetCell fl64 sqrt64 fused v t) = zeros (flattenC v)) ∧
    (cSqLen v ≠ 0 →
      |cSqLen (cflSetCell fl64 sqrt64 fused v t) - t * t| ≤
        ((v.length : Rat) + 13) * (1 / 9007199254740992) * (t * t) ∧
      (∀ a b : Nat, a < (flattenC v).length →
        |(flattenC (cflSetCell fl64 sqrt64 fused v t)).getD a 0 * (flattenC v).getD b 0 -
            (flattenC (cflSetCell fl64 sqrt64 fused v t)).getD b 0 * (flattenC v).getD a 0|
          * (1 - 49 / 16 * (1 / 9007199254740992)) ≤
          49 / 8 * (1 / 9007199254740992) *
            |(flattenC (cflSetCell fl64 sqrt64 fused v t)).getD a 0 * (flattenC v).getD b 0|) ∧
      (0 < t → 0 < dot (flattenC (cflSetCell fl64 sqrt64 fused v t)) (flattenC v))) ∧
    |cflNormCell fl64 sqrt64 fused v * cflNormCell fl64 sqrt64 fused v - cSqLen v| ≤
      ((v.length : Rat) + 7) * (1 / 9007199254740992) * cSqLen v ∧
    (0 ≤ atol → atol < cflNormCell fl64 sqrt64 fused v →
      |cSqLen (cflOrientCell fl64 sqrt64 fused atol v) - 1| ≤ ((v.length : Rat) + 11) * (1 / 9007199254740992)) := by
  have hn := count_ok v.length 2 (by omega) hlen
  simp only [Nat.cast_ofNat] at hn
  obtain ⟨h1, h2⟩ := cflSetCell_exec_any fl64 sqrt64 _ fl64_flOk sqrt64_sqrtOk fused v t hn
  refine ⟨h1, fun hS => ?_, (cflNorm_exec_any fl64 sqrt64 _ fl64_flOk sqrt64_sqrtOk fused v hn).2.1,
    fun h0 hat => (cflOrientCell_exec_any fl64 sqrt64 _ atol fl64_flOk sqrt64_sqrtOk fused v hn h0 hat).1⟩
  obtain ⟨_, a2, a3, a4⟩ := h2 hS
  exact ⟨a2, a3, a4⟩

end Exec64Any

/-! ### non-vacuity of the component-count-generic and complex rounding theorems -/

/-- seven components in binary64 meet the count hypothesis (as do two million) -/
example : (((([1, 2, 3, 4, 5, 6, 7] : List Rat).length : Rat) + 1) *
    ((([1, 2, 3, 4, 5, 6, 7] : List Rat).length : Rat) + 1) * (1 / 9007199254740992) ≤ 1 / 1024) := by
  norm_num
/-- the bit-exact kernel on nine components -/
example : flNormCell fl64 sqrt64 ([1, 1, 1, 1, 1, 1, 1, 1, 1] : List Rat) = 3 := by decide +kernel
example : sqLen ([1, 2, 3, 4, 5, 6, 7] : List Rat) ≠ 0 := by norm_num [sqLen]
/-- the complex kernel divides through the rounded reciprocal: `(3+4i, 0)` set to norm 10 is
`(6.000000000000001+8i, 0)`, not `(6+8i, 0)` — NumPy returns exactly this -/
example : flattenC (cflSetCell fl64 sqrt64 true [((3 : Rat), (4 : Rat)), (0, 0)] 10) =
    [6755399441055745 / 1125899906842624, 8, 0, 0] := by decide +kernel
example : cSqLen [((3 : Rat), (4 : Rat)), (0, 0)] ≠ 0 := by norm_num [cSqLen]
example : atolDefault < cflNormCell fl64 sqrt64 false [((3 : Rat), (4 : Rat)), (0, 0)] := by decide +kernel




/-! ## Laws of the setter and of the orientation (exact arithmetic, any ordered field) -/
section Laws
variable {K : Type} [Field K] [LinearOrder K] [IsStrictOrderedRing K]

/-- **setting the norm twice equals setting the last** (up to the sign of the first target):
after a positive first target the second assignment gives what it would have given on the
original vector; a negative first target flips the vector first; a zero first target is
irreversible (the cell is zero from then on).  Zero cells stay zero throughout. -/
theorem setCell_twice (sqrt : K → K) (v : List K) (t1 t2 : K) (hs : SqrtAt sqrt (sqLen v))
    (h0 : SqrtAt sqrt 0) (ht1 : SqrtAt sqrt (t1 * t1)) :
    setCell sqrt (setCell sqrt v t1) t2 =
      if t1 = 0 then zeros v else setCell sqrt v (if 0 < t1 then t2 else -t2) := by
  by_cases hz : sqLen v = 0
  · have hv := (sqLen_eq_zero_iff v).mp hz
    have e1 : ∀ t, setCell sqrt v t = zeros v := fun t => setCell_zero sqrt v t h0 hv
    rw [e1 t1, setCell_zero sqrt (zeros v) t2 h0 (fun x hx => mem_zeros hx), zeros_zeros]
    split
    · rfl
    · rw [e1]
  · by_cases h1 : t1 = 0
    · subst h1
      rw [if_pos rfl, setCell_target_zero,
        setCell_zero sqrt (zeros v) t2 h0 (fun x hx => mem_zeros hx), zeros_zeros]
    · rw [if_neg h1]
      have hl : sqLen (setCell sqrt v t1) = t1 * t1 := setCell_sqLen sqrt v t1 hs hz
      have hne : t1 * t1 ≠ 0 := mul_self_ne_zero.mpr h1
      have hnpos : sqrt (sqLen v) ≠ 0 := fun e => hz (hs.eq_zero_iff.mp e)
      rw [setCell_nonzero sqrt (setCell sqrt v t1) t2 (by rw [hl]; exact ht1) (by rw [hl]; exact hne), hl,
        ht1.mul_self, setCell_nonzero sqrt v t1 hs hz, smul_smul,
        setCell_nonzero sqrt v _ hs hz]
      congr 1
      have habs : |t1| ≠ 0 := abs_ne_zero.mpr h1
      split
      · rename_i hpos
        rw [abs_of_pos hpos]; field_simp
      · rename_i hneg
        have : t1 < 0 := lt_of_le_of_ne (not_lt.mp hneg) h1
        rw [abs_of_neg this]; field_simp

/-- … in particular for positive targets the last assignment wins -/
theorem setCell_setCell (sqrt : K → K) (v : List K) (t1 t2 : K) (hs : SqrtAt sqrt (sqLen v))
    (h0 : SqrtAt sqrt 0) (ht1 : SqrtAt sqrt (t1 * t1)) (hpos : 0 < t1) :
    setCell sqrt (setCell sqrt v t1) t2 = setCell sqrt v t2 := by
  rw [setCell_twice sqrt v t1 t2 hs h0 ht1, if_neg hpos.ne', if_pos hpos]

/-- **any number of assignments with positive targets equals the last one**, by induction over
the list of earlier targets -/
theorem setCell_foldl_last (sqrt : K → K) (ts : List K) (v : List K) (t : K)
    (hs : SqrtAt sqrt (sqLen v)) (h0 : SqrtAt sqrt 0)
    (hts : ∀ s ∈ ts, 0 < s ∧ SqrtAt sqrt (s * s)) :
    (ts ++ [t]).foldl (setCell sqrt) v = setCell sqrt v t := by
  induction ts generalizing v with
  | nil => rfl
  | cons s rest ih =>
    obtain ⟨hpos, hss⟩ := hts s List.mem_cons_self
    simp only [List.cons_append, List.foldl_cons]
    have hs' : SqrtAt sqrt (sqLen (setCell sqrt v s)) := by
      by_cases hz : sqLen v = 0
      · rw [setCell_zero sqrt v s h0 ((sqLen_eq_zero_iff v).mp hz), sqLen_zeros]; exact h0
      · rw [setCell_sqLen sqrt v s hs hz]; exact hss
    rw [ih (setCell sqrt v s) hs' fun x hx => hts x (List.mem_cons_of_mem _ hx)]
    exact setCell_setCell sqrt v s t hs h0 hss hpos

/-- the norm of the orientation: 1 above the threshold, 0 at or below it -/
theorem normCell_orientCell (sqrt : K → K) (atol : K) (v : List K) (h0 : 0 ≤ atol)
    (hs : SqrtAt sqrt (sqLen v)) (hs0 : SqrtAt sqrt 0) (hs1 : SqrtAt sqrt 1) :
    normCell sqrt (orientCell sqrt atol v) = if normCell sqrt v ≤ atol then 0 else 1 := by
  rcases orientCell_dichotomy sqrt atol v h0 hs with ⟨hle, hz⟩ | ⟨hgt, hu⟩
  · rw [if_pos hle, hz]; unfold normCell; rw [sqLen_zeros]; exact hs0.zero
  · rw [if_neg (not_le.mpr hgt)]; unfold normCell; rw [hu]
    exact hs1.unique zero_le_one (one_mul 1)

/-- **the orientation is idempotent** (threshold below 1): the orientation of the orientation is
the orientation -/
theorem orientCell_idem (sqrt : K → K) (atol : K) (v : List K) (h0 : 0 ≤ atol) (h1 : atol < 1)
    (hs : SqrtAt sqrt (sqLen v)) (hs0 : SqrtAt sqrt 0) (hs1 : SqrtAt sqrt 1) :
    orientCell sqrt atol (orientCell sqrt atol v) = orientCell sqrt atol v := by
  have hn := normCell_orientCell sqrt atol v h0 hs hs0 hs1
  rcases orientCell_dichotomy sqrt atol v h0 hs with ⟨hle, hz⟩ | ⟨hgt, hu⟩
  · rw [if_pos hle] at hn
    rw [orientCell_zero sqrt atol _ (by rw [hn, abs_zero]; exact h0), hz, zeros_zeros]
  · rw [if_neg (not_le.mpr hgt)] at hn
    rw [orientCell_far sqrt atol _ (by rw [hn]; exact h1), hn]
    conv_rhs => rw [← List.map_id (orientCell sqrt atol v)]
    apply List.map_congr_left
    intro x _
    simp

/-- **the threshold is inclusive**: `np.isclose(‖v‖, 0)` is `|‖v‖| ≤ atol`, so a cell whose length
is exactly `atol` has orientation zero, and every longer cell is normalised — there is no other
case (`closeZero` is decided by this comparison and nothing else) -/
theorem orientCell_threshold (sqrt : K → K) (atol : K) (v : List K) (h0 : 0 ≤ atol)
    (hs : SqrtAt sqrt (sqLen v)) :
    (closeZero atol (normCell sqrt v) = true ↔ normCell sqrt v ≤ atol) ∧
    (normCell sqrt v = atol → orientCell sqrt atol v = zeros v) ∧
    (atol < normCell sqrt v → sqLen (orientCell sqrt atol v) = 1) := by
  refine ⟨?_, fun he => orientCell_zero_le sqrt atol v hs (le_of_eq he),
    fun hgt => orientCell_unit sqrt atol v h0 hs hgt⟩
  rw [closeZero_eq, decide_eq_true_iff]
  unfold normCell
  rw [abs_of_nonneg hs.1]

end Laws

/-- boundary cases with the library's `1e-8`: a vector of length exactly `1e-8` has orientation
zero, a vector longer by `1e-17` is normalised -/
example : orientCell sqrtQ atolDefault [1 / 100000000, 0] = [0, 0] := by
  have h : sqLen ([1 / 100000000, 0] : List Rat) = (1 / 100000000) * (1 / 100000000) := by norm_num [sqLen]
  rw [orientCell_zero_le sqrtQ atolDefault _ (by rw [h]; exact sqrtQ_sqrtAt _)
    (by unfold normCell; rw [h, sqrtQ_mul_self]; norm_num [atolDefault])]
  rfl
example : sqLen (orientCell sqrtQ atolDefault [1 / 100000000 + 1 / 100000000000000000, 0]) = 1 := by
  have h : sqLen ([1 / 100000000 + 1 / 100000000000000000, 0] : List Rat) =
      (1 / 100000000 + 1 / 100000000000000000) * (1 / 100000000 + 1 / 100000000000000000) := by
    norm_num [sqLen]
  exact orientCell_unit sqrtQ atolDefault _ (by norm_num [atolDefault]) (by rw [h]; exact sqrtQ_sqrtAt _)
    (by unfold normCell; rw [h, sqrtQ_mul_self]; norm_num [atolDefault])
example : SqrtAt sqrtQ (1 : Rat) := by simpa using sqrtQ_sqrtAt 1
/-- three assignments (2, 7, 1/2), then 10: the same as assigning 10 at once -/
example : (([2, 7, 1 / 2] : List Rat) ++ [10]).foldl (setCell sqrtQ) ([3, 4] : List Rat) = setCell sqrtQ [3, 4] 10 := by
  have h : sqLen ([3, 4] : List Rat) = 5 * 5 := by norm_num [sqLen]
  refine setCell_foldl_last sqrtQ _ _ _ (by rw [h]; exact sqrtQ_sqrtAt 5) sqrtQ_zero ?_
  intro s hs
  simp only [List.mem_cons, List.not_mem_nil, or_false] at hs
  rcases hs with rfl | rfl | rfl
  · exact ⟨by norm_num, sqrtQ_sqrtAt _⟩
  · exact ⟨by norm_num, sqrtQ_sqrtAt _⟩
  · exact ⟨by norm_num, sqrtQ_sqrtAt _⟩


/-! ## Acceptance as an equivalence; assignments composed; the orientation as a constructor call -/
section Field3
variable (sqrt : Rat → Rat)

/-- **the norm setter accepts exactly the well-shaped specifications**: `None`, any number, any
callable, an array-like of the mesh's shape or with last axis 1 that broadcasts to
`(*mesh.n, 1)`, a one-component field whose region contains the receiver's (same axis names);
everything else is refused — and nothing else is needed (no hypothesis on the receiver) -/
theorem setNorm_accepts_iff (f : Fld) (o : Option NSpec) :
    (∃ g, setNorm sqrt f o = .ok g) ↔ ∀ s, o = some s → s.Accepted f.mesh :=
  setNorm_ok_iff sqrt f o

/-- a refused norm field raises a `ValueError` exactly when its region does not contain the
receiver's or it has more than one component (the two checks of the code, in that order) -/
theorem setNorm_field_refused_iff (f h : Fld) :
    setNorm sqrt f (some (.field h)) = .error .value ↔
      h.mesh.region.containsReg f.mesh.region = false ∨ h.nvdim ≠ 1 := by
  rw [← asArray1_field_value_iff]
  simp only [setNorm]
  cases asArray1 f.mesh (.field h) with
  | error e => simp
  | ok t => simp

/-- **a whole history is accepted iff every statement is well-shaped for the initial mesh and
component count** (both are invariant): no hidden refusal and no hidden acceptance, with no
hypothesis on the field -/
theorem run_accepts_iff (atol : Rat) (hist : List Step) (f : Fld) :
    (∃ g, run sqrt atol f hist = .ok g) ↔ ∀ s ∈ hist, s.Accepted f.mesh f.nvdim :=
  run_ok_iff sqrt atol hist f

/-- **the constructor is accepted iff** `nvdim ≥ 1` and value, norm and validity are
well-shaped for the mesh -/
theorem mk_accepts_iff (atol : Rat) (m : Mesh) (nvdim : Nat) (value : VSpec) (nrm : Option NSpec)
    (valid : ValidSpec) (unit : Option String) :
    (∃ g, mk? sqrt atol m nvdim value nrm valid unit = .ok g) ↔
      1 ≤ nvdim ∧ value.Accepted m nvdim ∧ (∀ s, nrm = some s → s.Accepted m) ∧ valid.Accepted m := by
  constructor
  · rintro ⟨g, hg⟩
    obtain ⟨hn, a, ha, f1, h1, vd, hvd, _⟩ := mk_ok hg
    refine ⟨hn, (valuesOf_ok_iff m nvdim value).mp ⟨a, ha⟩, (setNorm_ok_iff sqrt _ nrm).mp ⟨f1, h1⟩, ?_⟩
    have := (validOf_ok_iff sqrt atol f1 valid).mp ⟨vd, hvd⟩
    rwa [(setNorm_frame sqrt _ f1 nrm h1).1] at this
  · rintro ⟨hn, hv, hs, hvd⟩
    rw [mk_eq_run sqrt atol m nvdim hn]
    obtain ⟨g, hg⟩ := (run_ok_iff sqrt atol [.update value, .setNorm nrm, .setValid valid]
      (blank m nvdim unit)).mpr (by
        intro s hs'
        simp only [List.mem_cons, List.not_mem_nil, or_false] at hs'
        rcases hs' with rfl | rfl | rfl
        · exact hv
        · cases nrm with
          | none => trivial
          | some s => exact hs s rfl
        · exact hvd)
    rw [hg]
    exact ⟨_, rfl⟩

/-- `Field(mesh, nvdim, value, norm, valid, unit)` is the full constructor with `vdims=None,
vdim_mapping=None` -/
theorem mk_eq_mkFull (atol : Rat) (m : Mesh) (nvdim : Nat) (value : VSpec) (nrm : Option NSpec)
    (valid : ValidSpec) (unit : Option String) :
    mk? sqrt atol m nvdim value nrm valid unit = mkFull? sqrt atol m nvdim value nrm valid none none unit := by
  unfold mk? mkFull?
  split
  · rfl
  · cases updateValues (Fld.mk m nvdim ⟨m.n, fun _ => []⟩ ⟨m.n, fun _ => true⟩ none [] unit) value with
    | error e => rfl
    | ok f0 =>
      simp only
      cases setNorm sqrt f0 nrm with
      | error e => rfl
      | ok f1 =>
        simp only
        cases setValid sqrt atol f1 valid with
        | error e => rfl
        | ok f2 => rfl

/-- **the full constructor is accepted iff** the plain one is, the labels are `None`, `[]` or as
many distinct labels as components, and the mapping is `None`, empty, a single entry on an
unlabelled scalar field (dropped), or keyed by exactly the labels -/
theorem mkFull_accepts_iff (atol : Rat) (m : Mesh) (nvdim : Nat) (value : VSpec) (nrm : Option NSpec)
    (valid : ValidSpec) (vdims : Option (List String)) (vmap : Option (List (String × String)))
    (unit : Option String) :
    (∃ g, mkFull? sqrt atol m nvdim value nrm valid vdims vmap unit = .ok g) ↔
      (∃ g, mk? sqrt atol m nvdim value nrm valid unit = .ok g) ∧
      ∃ ls, vdimsSet nvdim vdims = .ok ls ∧
        ∀ mp, vmap = some mp → (mp.length = 1 ∧ nvdim = 1 ∧ ls = none) ∨ mp = [] ∨
          ∃ l, ls = some l ∧ sameKeys (mp.map (·.1)) l = true := by
  constructor
  · rintro ⟨g, hg⟩
    obtain ⟨hn, a, ha, f1, h1, vd, hvd, ls, hls, vm, hvm, _⟩ := mkFull_ok hg
    refine ⟨?_, ls, hls, (vmapSet_ok_iff nvdim ls m.region.dims vmap).mp ⟨vm, hvm⟩⟩
    rw [mk_accepts_iff]
    refine ⟨hn, (valuesOf_ok_iff m nvdim value).mp ⟨a, ha⟩, (setNorm_ok_iff sqrt _ nrm).mp ⟨f1, h1⟩, ?_⟩
    have := (validOf_ok_iff sqrt atol f1 valid).mp ⟨vd, hvd⟩
    rwa [(setNorm_frame sqrt _ f1 nrm h1).1] at this
  · rintro ⟨⟨g, hg⟩, ls, hls, hmp⟩
    obtain ⟨vm, hvm⟩ := (vmapSet_ok_iff nvdim ls m.region.dims vmap).mpr hmp
    obtain ⟨hn, a, ha, f1, h1, vd, hvd, _⟩ := mk_ok hg
    have h1' : setNorm sqrt (Fld.mk m nvdim a ⟨m.n, fun _ => true⟩ none [] unit) nrm = .ok f1 := h1
    unfold mkFull?
    rw [if_neg (by omega)]
    simp only [updateValues, ha, h1', setValid, hvd, hls, hvm]
    exact ⟨_, rfl⟩

/-- **`Field.orientation` is a constructor call** (`Field(mesh, nvdim=self.nvdim,
value=orientation_array, vdims=self.vdims, valid=self.valid, vdim_mapping=self.vdim_mapping)`):
on a field whose arrays have the mesh's shape, whose labels — if any — are as many distinct
labels as components and whose mapping is empty or keyed by the labels the result will have,
that call is accepted and returns exactly `orientation` (labels re-defaulted if there were none,
mapping kept, no unit) -/
theorem orientation_is_ctor_call (atol : Rat) (f : Fld) (hn : 1 ≤ f.nvdim)
    (hv : f.valid.shape = f.mesh.n)
    (hd : ∀ i ∈ indicesC f.mesh.n, (f.data.get i).length = f.nvdim)
    (hl : ∀ l, f.vdims = some l → l ≠ [] ∧ l.length = f.nvdim ∧ hasDup l = false)
    (hm : f.vmap = [] ∨ ∃ l, orientVdims f = some l ∧ sameKeys (f.vmap.map (·.1)) l = true) :
    orientation? sqrt atol f = .ok (orientation sqrt atol f) := by
  have hvm : vmapSet f.nvdim (orientVdims f) f.mesh.region.dims (some f.vmap) = .ok f.vmap := by
    simp only [vmapSet]
    rcases hm with h | ⟨l, hl', hk⟩
    · rw [h]; simp
    · rw [hl']
      have h1 : ¬(f.vmap.length = 1 ∧ f.nvdim = 1 ∧ (some l : Option (List String)) = none) := by
        rintro ⟨_, _, h⟩; cases h
      rw [if_neg h1]
      by_cases h2 : 0 < f.vmap.length
      · rw [if_pos h2]; simp only [hk, if_true]
      · rw [if_neg h2]
  unfold orientation? mkFull?
  rw [if_neg (by omega), orient_update sqrt atol f hd]
  simp only [setNorm, setValid, validOf]
  rw [bcastArr_same f.mesh f.valid hv]
  simp only [vdimsSet_live f hl, hvm]
  rfl

/-- … and the same getter is **refused** on a vector field whose labels were removed while its
mapping still carries keys (`f.vdims = []` after custom labels): the constructor re-applies
the default labels and then rejects the stale mapping — `Field.orientation` raises on such a
field -/
theorem orientation_refused_stale_mapping (atol : Rat) (f : Fld) (hn : 1 ≤ f.nvdim)
    (hv : f.valid.shape = f.mesh.n)
    (hd : ∀ i ∈ indicesC f.mesh.n, (f.data.get i).length = f.nvdim)
    (hnone : f.vdims = none) (hne : f.vmap ≠ [])
    (hbad : ∀ l, Fld.defaultVdims f.nvdim = some l → sameKeys (f.vmap.map (·.1)) l = false)
    (h1 : ¬(f.vmap.length = 1 ∧ f.nvdim = 1)) :
    ∃ e, orientation? sqrt atol f = .error e := by
  have hpos : 0 < f.vmap.length := by
    cases hm : f.vmap with
    | nil => exact absurd hm hne
    | cons x xs => simp
  have hvm : ∃ e, vmapSet f.nvdim (Fld.defaultVdims f.nvdim) f.mesh.region.dims (some f.vmap) = .error e := by
    simp only [vmapSet]
    rw [if_neg (by rintro ⟨a, b, _⟩; exact h1 ⟨a, b⟩), if_pos hpos]
    cases hdv : Fld.defaultVdims f.nvdim with
    | none => exact ⟨_, rfl⟩
    | some l =>
      simp only [hbad l hdv]
      exact ⟨_, rfl⟩
  obtain ⟨e, he⟩ := hvm
  refine ⟨e, ?_⟩
  unfold orientation? mkFull?
  rw [if_neg (by omega), orient_update sqrt atol f hd]
  simp only [setNorm, setValid, validOf]
  rw [bcastArr_same f.mesh f.valid hv]
  simp only [hnone, vdimsSet, he]

end Field3

section Field4
variable (sqrt : Rat → Rat)

/-- **setting the norm twice equals setting the last** (field level): if the first assignment
was accepted, the second one is accepted on the result iff it is accepted on the original
field, validity and frame agree, and on every cell whose first target was positive the two
arrays agree — the first assignment leaves no trace -/
theorem setNorm_twice (f g1 g2 : Fld) (s1 s2 : NSpec) (t1 : NDA Rat)
    (ht1 : asArray1 f.mesh s1 = .ok t1) (h1 : setNorm sqrt f (some s1) = .ok g1)
    (h2 : setNorm sqrt g1 (some s2) = .ok g2) :
    ∃ g2', setNorm sqrt f (some s2) = .ok g2' ∧ g2'.valid = g2.valid ∧ g2'.mesh = g2.mesh ∧
      ∀ i, SqrtAt sqrt (sqLen (f.data.get i)) → SqrtAt sqrt 0 →
        SqrtAt sqrt (t1.get i * t1.get i) → 0 < t1.get i → g2.data.get i = g2'.data.get i := by
  rw [setNorm_of_target ht1] at h1
  simp only [Except.ok.injEq] at h1
  subst h1
  obtain ⟨t2, ht2, rfl⟩ := setNorm_some_ok h2
  have ht2' : asArray1 f.mesh s2 = .ok t2 := ht2
  refine ⟨_, setNorm_of_target ht2', rfl, rfl, fun i hs h0 htt hpos => ?_⟩
  exact setCell_setCell sqrt (f.data.get i) (t1.get i) (t2.get i) hs h0 htt hpos

/-- **round trip, from the inputs alone**: a well-shaped specification is accepted, validity and
frame are untouched, and reading the norm back gives `|t_i|` on the cells that were non-zero
and 0 on the cells that were zero, `t` being what `_as_array(spec, nvdim=1)` evaluates to -/
theorem setNorm_roundtrip (f : Fld) (s : NSpec) (hacc : s.Accepted f.mesh) :
    ∃ g t, setNorm sqrt f (some s) = .ok g ∧ asArray1 f.mesh s = .ok t ∧
      g.valid = f.valid ∧ g.mesh = f.mesh ∧ g.unit = f.unit ∧
      ∀ i, SqrtAt sqrt (sqLen (f.data.get i)) → SqrtAt sqrt 0 → SqrtAt sqrt (t.get i * t.get i) →
        (norm sqrt g).data.get i = [if sqLen (f.data.get i) = 0 then 0 else |t.get i|] ∧
        Rescaled (f.data.get i) (g.data.get i) (t.get i) := by
  obtain ⟨t, ht⟩ := (asArray1_ok_iff f.mesh s).mpr hacc
  refine ⟨_, t, setNorm_of_target ht, ht, rfl, rfl, rfl, fun i hs h0 htt => ?_⟩
  exact ⟨norm_setNorm sqrt f _ s t ht (setNorm_of_target ht) i hs h0 htt,
    setNorm_rescaled sqrt f _ s t ht (setNorm_of_target ht) i hs h0⟩

/-- **the norm of the orientation field** is 1 wherever the field is above the threshold and
0 elsewhere -/
theorem norm_orientation (atol : Rat) (h0 : 0 ≤ atol) (f : Fld) (i : List Nat)
    (hs : SqrtAt sqrt (sqLen (f.data.get i))) (hs0 : SqrtAt sqrt 0) (hs1 : SqrtAt sqrt 1) :
    (norm sqrt (orientation sqrt atol f)).data.get i =
      [if normCell sqrt (f.data.get i) ≤ atol then 0 else 1] := by
  show [normCell sqrt (orientCell sqrt atol (f.data.get i))] = _
  rw [normCell_orientCell sqrt atol _ h0 hs hs0 hs1]

/-- **the orientation is idempotent** as a field operation (threshold below 1, as the library's
`1e-8`): array, validity, labels, mapping, unit — the whole field — are reproduced -/
theorem orientation_idem (atol : Rat) (h0 : 0 ≤ atol) (h1 : atol < 1) (f : Fld)
    (hs : ∀ i, SqrtAt sqrt (sqLen (f.data.get i))) (hs0 : SqrtAt sqrt 0) (hs1 : SqrtAt sqrt 1) :
    orientation sqrt atol (orientation sqrt atol f) = orientation sqrt atol f := by
  have hd : (fun i => orientCell sqrt atol (orientCell sqrt atol (f.data.get i))) =
      fun i => orientCell sqrt atol (f.data.get i) := by
    funext i; exact orientCell_idem sqrt atol _ h0 h1 (hs i) hs0 hs1
  have hv : orientVdims (orientation sqrt atol f) = orientVdims f := by
    show (match orientVdims f with
      | none => Fld.defaultVdims f.nvdim
      | some l => some l) = orientVdims f
    unfold orientVdims
    cases f.vdims with
    | some l => rfl
    | none =>
      simp only
      cases Fld.defaultVdims f.nvdim <;> rfl
  unfold orientation
  simp only [hd]
  congr 1

/-- **the orientation does not see a positive rescaling of the field**: wherever the vector
stays above the threshold before and after multiplying the whole field by `c > 0` -/
theorem orientation_scale_invariant (atol : Rat) (h0 : 0 ≤ atol) (c : Rat) (hc : 0 < c) (f : Fld)
    (i : List Nat) (hs : SqrtAt sqrt (sqLen (f.data.get i)))
    (hs' : SqrtAt sqrt (sqLen (smul c (f.data.get i))))
    (hat : atol < normCell sqrt (f.data.get i)) (hat' : atol < normCell sqrt (smul c (f.data.get i))) :
    (orientation sqrt atol (scaleF c f)).data.get i = (orientation sqrt atol f).data.get i :=
  orientCell_scale_invariant sqrt atol _ c hc h0 hs hs' hat hat'

end Field4

/-! ### non-vacuity: the constructor with labels and mapping, the orientation as that call -/

/-- labels `a, b` mapped onto the axis of a 1-d mesh is refused (two components, one axis is fine,
but the keys must be the labels): here the keys ARE the labels, so it is accepted -/
example : ∃ g, mkFull? sqrtQ atolDefault exMesh 2 (.vec [3, 4]) (some (.const 10)) .byNorm
    (some ["a", "b"]) (some [("a", "x"), ("b", "x")]) none = .ok g := ⟨_, rfl⟩
example : ∃ e, mkFull? sqrtQ atolDefault exMesh 2 (.vec [3, 4]) none .none
    (some ["a", "b"]) (some [("a", "x"), ("c", "x")]) none = .error e := ⟨_, rfl⟩
example : ∃ e, mkFull? sqrtQ atolDefault exMesh 2 (.vec [3, 4]) none .none
    (some ["a", "a"]) none none = .error e := ⟨_, rfl⟩

/-- a labelled field with a mapping (`exLabelled`, Lemmas/C15Acc) meets the hypotheses of
`orientation_is_ctor_call` -/
example : orientation? sqrtQ atolDefault exLabelled = .ok (orientation sqrtQ atolDefault exLabelled) :=
  orientation_is_ctor_call sqrtQ atolDefault exLabelled (by decide) rfl
    (by intro i hi
        have e : indicesC exMesh.n = [[0], [1]] := by decide +kernel
        have : i = [0] ∨ i = [1] := by
          have hi' : i ∈ indicesC exMesh.n := hi
          rw [e] at hi'; simpa using hi'
        rcases this with rfl | rfl <;> rfl)
    (by intro l hl; cases hl; exact ⟨by simp, rfl, by decide⟩)
    (Or.inr ⟨["a", "b"], rfl, by decide⟩)

/-- the same field after `f.vdims = []` (labels gone, mapping still keyed by them) meets the
hypotheses of `orientation_refused_stale_mapping` -/
example : ∃ e, orientation? sqrtQ atolDefault { exLabelled with vdims := none } = .error e :=
  orientation_refused_stale_mapping sqrtQ atolDefault { exLabelled with vdims := none } (by decide) rfl
    (by intro i hi
        have e : indicesC exMesh.n = [[0], [1]] := by decide +kernel
        have : i = [0] ∨ i = [1] := by
          have hi' : i ∈ indicesC exMesh.n := hi
          rw [e] at hi'; simpa using hi'
        rcases this with rfl | rfl <;> rfl)
    rfl (by simp [exLabelled])
    (by intro l hl
        have : l = ["x", "y"] := by
          have : Fld.defaultVdims 2 = some l := hl
          simpa [Fld.defaultVdims] using this.symm
        subst this; decide)
    (by rintro ⟨h, _⟩; simp [exLabelled] at h)



section DictNorm
variable (sqrt : Rat → Rat)

/-- **norm given as a dictionary over the mesh's subregions** (or as anything else
`Field._as_array` takes): the per-cell targets are exactly the one-component array C02's model
of `_as_array` produces — for a dictionary: the value of the first listed subregion that
contains the cell, the default elsewhere (C02's theorems `asArray_dict_first_containing`,
`dict_cell_*`, `dict_default_*` speak about this very array) — the assignment is accepted iff
that conversion is, raises the same error otherwise, leaves validity and frame alone and
rescales every cell to its target -/
theorem setNorm_spec (f : Fld) (s : C02.Spec Rat) :
    (∀ e, C02.asArray (fun v => v == 0) s f.mesh 1 = .error e →
      setNorm sqrt f (some (.spec s)) = .error e) ∧
    (∀ a, C02.asArray (fun v => v == 0) s f.mesh 1 = .ok a →
      ∃ g, setNorm sqrt f (some (.spec s)) = .ok g ∧ g.valid = f.valid ∧ g.mesh = f.mesh ∧
        g.unit = f.unit ∧
        ∀ i, SqrtAt sqrt (sqLen (f.data.get i)) → SqrtAt sqrt 0 →
          Rescaled (f.data.get i) (g.data.get i) (a.get (i ++ [0]))) := by
  constructor
  · intro e he
    simp only [setNorm, asArray1, he]
  · intro a ha
    have ht : asArray1 f.mesh (.spec s) = .ok ⟨f.mesh.n, fun i => a.get (i ++ [0])⟩ := by
      simp only [asArray1, ha]
    exact ⟨_, setNorm_of_target ht, rfl, rfl, rfl, fun i hs h0 =>
      setNorm_rescaled sqrt f _ (.spec s) _ ht (setNorm_of_target ht) i hs h0⟩

/-- **the general path agrees with the special ones**: a number, an array of the mesh's shape,
and — on a mesh without subregions — a dictionary that only has a constant `"default"`, handed
to the setter through `_as_array`'s general model, give the targets of `const` / `arr` / `const` -/
theorem asArray1_spec_agrees (m : Mesh) (c : Rat) (a : NDA Rat) (items : List (String × C02.Leaf Rat)) :
    asArray1 m (.spec (.leaf (.scalar c))) = asArray1 m (.const c) ∧
    (a.shape = m.n → asArray1 m (.spec (.leaf (.arr a))) = asArray1 m (.arr a)) ∧
    (m.subs = [] →
      asArray1 m (.spec (.dict items (some (.val ⟨[], fun _ => c⟩)))) = asArray1 m (.const c)) := by
  refine ⟨?_, fun hs => ?_, fun hsub => ?_⟩
  · simp only [asArray1, C02.asArray, C02.asLeaf]
    rw [if_neg (by omega)]
    rfl
  · simp only [asArray1, C02.asArray, C02.asLeaf, bcastArr, hs, and_self, if_true]
    simp only [Except.ok.injEq, NDA.mk.injEq, true_and]
    funext i
    simp
  · have hb : C02.bcastOk (m.n ++ [1]) ([] : List Nat) = true := by
      simp [C02.bcastOk, allLt]
    simp only [asArray1, C02.asArray, C02.fillOf, C02.bcast, hb, if_true, hsub, List.reverse_nil,
      C02.dictLoop]
    have hany : C02.anyNone (NDA.map some
        (⟨m.n ++ [1], fun j => (⟨[], fun _ => c⟩ : NDA Rat).get (C02.bcastIdx (m.n ++ [1]) [] j)⟩ : NDA Rat)) = false := by
      unfold C02.anyNone
      rw [List.any_eq_false]
      intro j _
      simp [NDA.map]
    simp only [hany]
    rfl

end DictNorm

/-- a dictionary norm on a mesh with one subregion is accepted by the executable model: the
cell in the subregion gets 10, the other one the default 5 -/
example : (match setNorm sqrtQ
    { mesh := { exMesh with subs := [("left", { exMesh.region with pmax := [1] })] }, nvdim := 2,
      data := ⟨[2], fun _ => [3, 4]⟩, valid := ⟨[2], fun _ => true⟩, vdims := none, vmap := [], unit := none }
    (some (.spec (.dict [("left", .scalar 10)] (some (.val ⟨[], fun _ => 5⟩))))) with
    | .ok g => decide (g.data.get [0] = [6, 8]) && decide (g.data.get [1] = [3, 4])
    | .error _ => false) = true := by decide +kernel



section FieldNorm
variable (sqrt : Rat → Rat)

/-- **norm given as a field on another mesh, from the inputs alone**: a one-component field whose
region contains the receiver's (same axis names) is accepted, and every cell `i` is rescaled
to the value of the norm field at the cell containing the centre of cell `i` (a centre on a face
goes to the cell above) — no hypothesis about the success of any intermediate step -/
theorem setNorm_field_accepted (f h : Fld) (hm : f.mesh.Inv) (hh : h.mesh.Inv)
    (hc : h.mesh.region.containsReg f.mesh.region = true) (hnv : h.nvdim = 1)
    (hd : h.mesh.region.dims = f.mesh.region.dims) :
    ∃ g, setNorm sqrt f (some (.field h)) = .ok g ∧ g.valid = f.valid ∧
      ∀ i : List Nat, (∀ a, a < f.mesh.ndim → i.getD a 0 < f.mesh.nAt a) →
        SqrtAt sqrt (sqLen (f.data.get i)) → SqrtAt sqrt 0 →
        Rescaled (f.data.get i) (g.data.get i)
          ((h.data.get (tab f.mesh.ndim fun a => h.mesh.indexAx a ((f.mesh.centre i).getD a 0))).getD 0 0) := by
  obtain ⟨g, hg⟩ := (setNorm_accepts_iff sqrt f (some (.field h))).mpr
    (fun s hs => by cases hs; exact ⟨hc, hnv, hd⟩)
  exact ⟨g, hg, (setNorm_frame sqrt f g _ hg).2.2.1, fun i hi hs h0 =>
    setNorm_field sqrt f g h hm hh hg i hi hs h0⟩

end FieldNorm

/-- the coarser norm field of the earlier example meets the three input conditions -/
example : (blank { exMesh with n := [1] } 1 none).mesh.region.containsReg exMesh.region = true ∧
    (blank { exMesh with n := [1] } 1 none).nvdim = 1 ∧
    (blank { exMesh with n := [1] } 1 none).mesh.region.dims = exMesh.region.dims :=
  ⟨by decide +kernel, rfl, rfl⟩



section AnyOrder
variable {K : Type} [Field K] [LinearOrder K] [IsStrictOrderedRing K]

/-- **the bounds do not depend on the order in which the squares are added**: for ANY bracketing
`tr` of the sum (left to right as NumPy does up to seven components, pairwise as it does from
eight on, or any other), with `v` the components, `n` their number, a rounded root and
`(n+1)²·u ≤ 2^-10`: the computed norm `ν = fl(sq(Σ))` is non-negative, zero exactly on the zero
cell, `ν²` within `(n+6)·u` of `Σ v_c²`; the setter's arithmetic `fl(fl(x/ν)·t)` yields squared
length within `(n+10)·u` of `t²`, cross terms relatively below `17/4·u/(1−17/8·u)`, positive
dot product for `t > 0`; the orientation's arithmetic `fl(x/ν)` yields squared length within
`(n+8)·u` of 1 -/
theorem any_order_exec (fl sq : K → K) (u : K) (h : FlOk fl u) (hq : SqrtOk sq u) (tr : SqTree K) (t : K)
    (hn : ((tr.leaves.length : K) + 1) * ((tr.leaves.length : K) + 1) * u ≤ 1 / 1024) :
    0 ≤ fl (sq (tr.flSum fl)) ∧
    |fl (sq (tr.flSum fl)) * fl (sq (tr.flSum fl)) - sqLen tr.leaves| ≤
      ((tr.leaves.length : K) + 6) * u * sqLen tr.leaves ∧
    (fl (sq (tr.flSum fl)) = 0 ↔ ∀ x ∈ tr.leaves, x = 0) ∧
    (sqLen tr.leaves ≠ 0 →
      |sqLen (tr.leaves.map fun x => fl (fl (x / fl (sq (tr.flSum fl))) * t)) - t * t| ≤
        ((tr.leaves.length : K) + 10) * u * (t * t) ∧
      (∀ a b : Nat, a < tr.leaves.length →
        |(tr.leaves.map fun x => fl (fl (x / fl (sq (tr.flSum fl))) * t)).getD a 0 * tr.leaves.getD b 0 -
            (tr.leaves.map fun x => fl (fl (x / fl (sq (tr.flSum fl))) * t)).getD b 0 * tr.leaves.getD a 0|
          * (1 - 17 / 8 * u) ≤
          17 / 4 * u * |(tr.leaves.map fun x => fl (fl (x / fl (sq (tr.flSum fl))) * t)).getD a 0 * tr.leaves.getD b 0|) ∧
      (0 < t → 0 < dot (tr.leaves.map fun x => fl (fl (x / fl (sq (tr.flSum fl))) * t)) tr.leaves) ∧
      |sqLen (tr.leaves.map fun x => fl (x / fl (sq (tr.flSum fl)))) - 1| ≤ ((tr.leaves.length : K) + 8) * u) := by
  have s := small_len h.1 tr.leaves.length hn
  have herr := tr.flSum_err_small h s
  have hu0 := s.u0
  have hm0 := s.m0
  have hg0 : 0 ≤ ((tr.leaves.length : K) + 1) * u + u / 1024 := by linarith
  have hg : ((tr.leaves.length : K) + 1) * u + u / 1024 ≤ 1 / 512 := by
    have := s.m64; have := s.u64; linarith
  have hS := sqLen_nonneg tr.leaves
  obtain ⟨h1, h2, h3⟩ := norm_exec_gen h hq s.u64 hg0 hg hS herr
  have h2' : |fl (sq (tr.flSum fl)) * fl (sq (tr.flSum fl)) - sqLen tr.leaves| ≤
      (((tr.leaves.length : K) + 1) * u + 65 / 16 * u) * sqLen tr.leaves :=
    le_trans h2 (mul_le_mul_of_nonneg_right (by linarith) hS)
  refine ⟨h1, le_trans h2' (mul_le_mul_of_nonneg_right (by nlinarith) hS),
    h3.trans (sqLen_eq_zero_iff _), fun hnz => ?_⟩
  have hnpos : 0 < fl (sq (tr.flSum fl)) := lt_of_le_of_ne h1 (fun e => hnz (h3.mp e.symm))
  have hSpos : 0 < sqLen tr.leaves := lt_of_le_of_ne hS (Ne.symm hnz)
  obtain ⟨a1, a2, a3⟩ := setMap_exec h s tr.leaves t hnpos hSpos h2'
  have a4 := orientMap_exec h s tr.leaves hnpos hSpos h2'
  refine ⟨le_trans a1 (mul_le_mul_of_nonneg_right (by nlinarith) (mul_self_nonneg t)), a2, a3,
    le_trans a4 (by nlinarith)⟩

end AnyOrder

/-- … in particular for binary64 (`fl64`, `sqrt64`) and every bracketing of fewer than two million
rational squares: the computed norm's square is within `(n+6)·2^-53` of the sum of squares,
whatever the summation order -/
theorem exec64_any_order (tr : SqTree Rat) (hlen : tr.leaves.length < 2000000) :
    0 ≤ fl64 (sqrt64 (tr.flSum fl64)) ∧
    |fl64 (sqrt64 (tr.flSum fl64)) * fl64 (sqrt64 (tr.flSum fl64)) - sqLen tr.leaves| ≤
      ((tr.leaves.length : Rat) + 6) * (1 / 9007199254740992) * sqLen tr.leaves ∧
    (fl64 (sqrt64 (tr.flSum fl64)) = 0 ↔ ∀ x ∈ tr.leaves, x = 0) := by
  have hn := count_ok tr.leaves.length 1 (by omega) hlen
  simp only [Nat.cast_one] at hn
  obtain ⟨h1, h2, h3, _⟩ := any_order_exec fl64 sqrt64 _ fl64_flOk sqrt64_sqrtOk tr 1 hn
  exact ⟨h1, h2, h3⟩

/-- nine squares added pairwise (a balanced bracketing) in binary64 -/
example : ((SqTree.node (.node (.node (.leaf 1) (.leaf 2)) (.node (.leaf 3) (.leaf 4)))
      (.node (.node (.leaf 5) (.leaf 6)) (.node (.leaf 7) (.node (.leaf 8) (.leaf (9 : Rat)))))).leaves.length : Rat) = 9 := by
  norm_num [SqTree.leaves]


end DFV.C15
