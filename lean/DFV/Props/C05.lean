import DFV.Lemmas.C05Examples
import DFV.Lemmas.C05Rot
import DFV.Lemmas.C05Iter
import DFV.Lemmas.C05Perm
import DFV.Lemmas.C05RotK
import DFV.Lemmas.C05Valid
import DFV.Lemmas.C05Obj
import DFV.Lemmas.C05ExamplesObj
/-!
# C05 — grad, div, curl and Laplacian are the textbook combinations of the derivatives

Property theorems about the model `DFV/Model/C05.lean` of `Field.grad / div / curl /
laplace` (composed from C04's `Field.diff` exactly as `field.py` does).  Mesh dimension,
cell counts, cell sizes, dims names, component labels, the component-to-axis mapping,
periodic directions, data and (where it matters) validity masks are universally quantified.
Helper lemmas live in `DFV/Lemmas/C05.lean`.
-/
set_option linter.unusedSimpArgs false
namespace DFV.C05
open DFV DFV.C04

/-! ## 1. The four operators are the textbook combinations of the directional derivatives

`D f ax order c i` is the value at cell `i` of the `order`-th derivative along axis `ax` of
stored component `c` (C04's `Field.diff`).  The theorems relate the code-shaped compositions
(`getattr`, `_r_dim_mapping`, `diff`, `-`, `<<`, `sum` with its reflected `0 + f`, every
intermediate field built through the constructor) to index-level formulas, for every mesh
dimension, every dims naming, every labels, every mapping. -/

/-- **Gradient.**  If `grad` accepts the field then the field is scalar, the result has one
component per mesh axis — in the order of `region.dims`, whatever the axes are called — and
component `a` at every cell is the first derivative along axis `a`; mesh and validity are
the operand's. -/
theorem grad_eq (f g : Fld) (hd : DimsOk f) (h : grad f = .ok g) :
    f.nvdim = 1 ∧ g.nvdim = f.mesh.ndim ∧ g.mesh = f.mesh ∧ (∀ i, g.valid.get i = f.valid.get i) ∧
    ∀ i a, a < f.mesh.ndim → (g.data.get i).getD a 0 = D f a 1 0 i := by
  obtain ⟨hl, hdup⟩ := hd
  unfold grad at h
  split at h
  · cases h
  · rename_i hn
    have hn1 : f.nvdim = 1 := by omega
    split at h
    · cases h
    · rename_i ds hds
      obtain ⟨l, e⟩ := mapE_ok _ _ _ hds
      -- every derivative is the C04 derivative along its axis
      have hk : ∀ k (hk : k < ds.length), C04.diff f k 1 true = .ok ds[k] := by
        intro k hk
        have := e k (by omega) hk
        rw [← diffDim_eq f k 1 hdup (by omega)]
        rw [List.getD_eq_getElem?_getD, List.getElem?_eq_getElem (by omega)]
        exact this
      have hs : ∀ d ∈ ds, d.nvdim = 1 := by
        intro d hd
        obtain ⟨k, hk', rfl⟩ := List.getElem_of_mem hd
        rw [(diff_ok (hk k hk')).2.1, hn1]
      cases ds with
      | nil => simp [stack] at h
      | cons d0 ds' =>
        simp only [stack] at h
        obtain ⟨s1, s2, s3, s4⟩ := stackGo_ok ds' d0 g (fun d hd => hs d (by simp [hd])) h
        have hd0 : d0.nvdim = 1 := hs d0 (by simp)
        have hm0 := (diff_ok (hk 0 (by simp))).1
        simp only [List.getElem_cons_zero] at hm0
        refine ⟨hn1, ?_, by rw [s1, hm0], ?_, ?_⟩
        · rw [s2, hd0, ← hl, ← l]; simp; omega
        · intro i
          have hv0 := (diff_ok (hk 0 (by simp))).2.2.1
          simp only [List.getElem_cons_zero] at hv0
          rw [s4 i, hv0]
          exact and_all_const (f.valid.get i) ds' (fun d => d.valid.get i) (by
            intro d hd
            obtain ⟨k, hk', rfl⟩ := List.getElem_of_mem hd
            have := (diff_ok (hk (k + 1) (by simp; omega))).2.2.1
            simp only [List.getElem_cons_succ] at this
            rw [this])
        · intro i a ha
          have ha' : a < (d0 :: ds').length := by rw [l, hl]; exact ha
          have hg : a < g.nvdim := by rw [s2, hd0]; simp at ha'; omega
          rw [← cellv_getD g i a hg, s3 i]
          have hc0 : cellv d0 i = [(d0.data.get i).getD 0 0] := by simp [cellv, hd0, tab]
          rw [hc0]
          have : ([(d0.data.get i).getD 0 0] ++ ds'.map fun d => (d.data.get i).getD 0 0)
              = (d0 :: ds').map fun d => (d.data.get i).getD 0 0 := by simp
          rw [this, List.getD_eq_getElem?_getD, List.getElem?_map, List.getElem?_eq_getElem ha']
          simp only [Option.map_some, Option.getD_some]
          exact diff_data (hk a ha') i 0 (by omega)

/-- **Divergence.**  If `div` accepts the field then `nvdim = ndim`, and whenever stored
component `c` is mapped (by `vdim_mapping`, through its label — whatever the label's
spelling and wherever the component is stored) onto axis `σ c`, the value at every cell is
`Σ_c ∂(component c)/∂(axis σ c)`. -/
theorem div_eq (f g : Fld) (vs : List String) (σ : Nat → Nat) (hdims : DimsOk f)
    (hv : f.vdims = some vs) (hvl : vs.length = f.nvdim) (hvd : hasDup vs = false)
    (hσ : ∀ c, c < f.nvdim → σ c < f.mesh.ndim ∧
      Fld.lookup f.vmap (vs.getD c "") = some (f.mesh.region.dims.getD (σ c) ""))
    (h : div f = .ok g) :
    f.nvdim = f.mesh.ndim ∧ g.nvdim = 1 ∧ g.mesh = f.mesh ∧ (∀ i, g.valid.get i = f.valid.get i) ∧
    ∀ i, (g.data.get i).getD 0 0 = sumTo f.nvdim fun c => D f (σ c) 1 c i := by
  unfold div at h
  split at h
  · cases h
  · rename_i hn
    rw [hv] at h
    simp only [] at h
    split at h
    · cases h
    · split at h
      · cases h
      · rename_i ts hts
        obtain ⟨l, e⟩ := mapE_ok _ _ _ hts
        have ht : ∀ k (hk : k < ts.length), ts[k].nvdim = 1 ∧ ts[k].mesh = f.mesh ∧ ts[k].valid = f.valid ∧
            ∀ i, (ts[k].data.get i).getD 0 0 = D f (σ k) 1 k i := by
          intro k hk
          have hk' : k < vs.length := by omega
          have := e k hk' hk
          have hgk : vs[k] = vs.getD k "" := by
            rw [List.getD_eq_getElem?_getD, List.getElem?_eq_getElem hk']; rfl
          rw [hgk] at this
          exact divTerm_ok hv hvd hdims hk' (hσ k (by omega)).1 (hσ k (by omega)).2 this
        have hs : ∀ t ∈ ts, t.nvdim = 1 := by
          intro t htm
          obtain ⟨k, hk', rfl⟩ := List.getElem_of_mem htm
          exact (ht k hk').1
        obtain ⟨t0, h0, s1, s2, _, s4, s5⟩ := sumF_ok ts g hs h
        have hpos : 0 < ts.length := by
          cases ts with
          | nil => simp at h0
          | cons _ _ => simp
        have ht0 : t0 = ts[0] := by
          cases ts with
          | nil => simp at h0
          | cons a b => simp at h0; simp [h0]
        refine ⟨by unfold Mesh.ndim; omega, s2, by rw [s1, ht0, (ht 0 hpos).2.1], ?_, ?_⟩
        · intro i
          rw [s4 i]
          have := and_all_const (f.valid.get i) ts (fun t => t.valid.get i) (by
            intro t htm
            obtain ⟨k, hk', rfl⟩ := List.getElem_of_mem htm
            rw [(ht k hk').2.2.1])
          cases hb : f.valid.get i with
          | true => rw [hb] at this; simpa using this
          | false =>
            have h00 : ts[0].valid.get i = false := by rw [(ht 0 hpos).2.2.1, hb]
            simp only [List.all_eq_false]
            exact ⟨ts[0], List.getElem_mem hpos, by simp [h00]⟩
        · intro i
          rw [s5 i, l, hvl]
          apply sumTo_congr
          intro k hk
          have hk' : k < ts.length := by omega
          simp only [List.getD_eq_getElem?_getD, List.getElem?_eq_getElem hk', Option.getD_some]
          exact (ht k hk').2.2.2 i

/-- **Curl.**  If `curl` accepts the field then it is a 3-component field on a 3-d mesh,
and with `ρ d` the storage position of the component that the reversed mapping pairs with
axis `d`, the result (components in AXIS order) is the textbook curl. -/
theorem curl_eq (f g : Fld) (vs : List String) (ρ : Nat → Nat) (hdims : DimsOk f)
    (hv : f.vdims = some vs) (hvl : vs.length = f.nvdim) (hvd : hasDup vs = false)
    (hρ : ∀ d, d < 3 → ρ d < 3 ∧
      rDimLast f (f.mesh.region.dims.getD d "") = some (vs.getD (ρ d) ""))
    (h : curl f = .ok g) :
    f.nvdim = 3 ∧ f.mesh.ndim = 3 ∧ g.nvdim = 3 ∧ g.mesh = f.mesh ∧ (∀ i, g.valid.get i = f.valid.get i) ∧
    ∀ i, (g.data.get i).getD 0 0 = D f 1 1 (ρ 2) i - D f 2 1 (ρ 1) i ∧
         (g.data.get i).getD 1 0 = D f 2 1 (ρ 0) i - D f 0 1 (ρ 2) i ∧
         (g.data.get i).getD 2 0 = D f 0 1 (ρ 1) i - D f 1 1 (ρ 0) i := by
  unfold curl at h
  split at h
  · cases h
  · rename_i hn
    have hn3 : f.nvdim = 3 := by omega
    have hd3 : f.mesh.ndim = 3 := by unfold Mesh.ndim; omega
    rw [hv] at h
    simp only [] at h
    split at h
    · cases h
    · split at h
      · rename_i x y z hxyz
        have g0 : f.mesh.region.dims.getD 0 "" = x := by rw [hxyz]; rfl
        have g1 : f.mesh.region.dims.getD 1 "" = y := by rw [hxyz]; rfl
        have g2 : f.mesh.region.dims.getD 2 "" = z := by rw [hxyz]; rfl
        rw [← g0, ← g1, ← g2] at h
        split at h
        · cases h
        · rename_i cx hcx
          split at h
          · cases h
          · rename_i cy hcy
            split at h
            · cases h
            · rename_i cz hcz
              split at h
              · cases h
              · rename_i cxy hcxy
                have hl : ∀ d, d < 3 → ρ d < vs.length := fun d hd => by rw [hvl, hn3]; exact (hρ d hd).1
                obtain ⟨x1, x2, x3, x4⟩ := curlComp_ok hv hvd hdims (by omega) (by omega) (hl 2 (by omega)) (hl 1 (by omega))
                  (hρ 2 (by omega)).2 (hρ 1 (by omega)).2 hcx
                obtain ⟨y1, y2, y3, y4⟩ := curlComp_ok hv hvd hdims (by omega) (by omega) (hl 0 (by omega)) (hl 2 (by omega))
                  (hρ 0 (by omega)).2 (hρ 2 (by omega)).2 hcy
                obtain ⟨z1, z2, z3, z4⟩ := curlComp_ok hv hvd hdims (by omega) (by omega) (hl 1 (by omega)) (hl 0 (by omega))
                  (hρ 1 (by omega)).2 (hρ 0 (by omega)).2 hcz
                obtain ⟨u1, _, u2, u4, _, _, _, _⟩ := lshift_ok hcxy
                obtain ⟨w1, _, w2, w4, _, _, _, _⟩ := lshift_ok h
                have hc : ∀ i, cellv g i = [(cx.data.get i).getD 0 0, (cy.data.get i).getD 0 0, (cz.data.get i).getD 0 0] := by
                  intro i
                  rw [cellv_lshift h i, cellv_lshift hcxy i]
                  simp [cellv, x1, y1, z1, tab]
                have hg3 : g.nvdim = 3 := by rw [w2, u2, x1, y1, z1]
                refine ⟨hn3, hd3, hg3, by rw [w1, u1, x2], ?_, ?_⟩
                · intro i
                  rw [w4, u4]
                  simp only [andValid]
                  rw [x3 i, y3 i, z3 i]; simp
                · intro i
                  rw [← cellv_getD g i 0 (by omega), ← cellv_getD g i 1 (by omega), ← cellv_getD g i 2 (by omega), hc i]
                  simp only [List.getD_cons_zero, List.getD_cons_succ]
                  exact ⟨x4 i, y4 i, z4 i⟩
      · cases h

/-- **Laplacian, scalar field**: `Σ_axes ∂²f/∂axis²` at every cell. -/
theorem laplace_eq_scalar (f g : Fld) (hdims : DimsOk f) (hn1 : f.nvdim = 1) (h : laplace f = .ok g) :
    g.nvdim = 1 ∧ g.mesh = f.mesh ∧ (∀ i, g.valid.get i = f.valid.get i) ∧
    ∀ i, (g.data.get i).getD 0 0 = sumTo f.mesh.ndim fun a => D f a 2 0 i := by
  unfold laplace at h
  rw [if_pos hn1] at h
  split at h
  · cases h
  · rename_i ts hts
    obtain ⟨a, b, _, c, d⟩ := lapSum_ok hdims hn1 hts h
    exact ⟨a, b, c, d⟩

/-- **Laplacian, vector field**: component `c` of the result is the Laplacian of stored
component `c` (no pairing with axes is involved in the values). -/
theorem laplace_eq_vector (f g : Fld) (vs : List String) (hdims : DimsOk f) (hn : f.nvdim ≠ 1)
    (hv : f.vdims = some vs) (hvl : vs.length = f.nvdim) (hvd : hasDup vs = false)
    (h : laplace f = .ok g) :
    g.nvdim = f.nvdim ∧ g.mesh = f.mesh ∧ (∀ i, g.valid.get i = f.valid.get i) ∧
    ∀ i c, c < f.nvdim → (g.data.get i).getD c 0 = sumTo f.mesh.ndim fun a => D f a 2 c i := by
  unfold laplace at h
  rw [if_neg hn, hv] at h
  simp only [] at h
  split at h
  · cases h
  · rename_i ds hds
    obtain ⟨l, e⟩ := mapE_ok _ _ _ hds
    have hk : ∀ k (hk : k < ds.length), ds[k].nvdim = 1 ∧ ds[k].mesh = f.mesh ∧
        (∀ i, ds[k].valid.get i = f.valid.get i) ∧
        ∀ i, (ds[k].data.get i).getD 0 0 = sumTo f.mesh.ndim fun a => D f a 2 k i := by
      intro k hk
      have hk' : k < vs.length := by omega
      have := e k hk' hk
      have hgk : vs[k] = vs.getD k "" := by
        rw [List.getD_eq_getElem?_getD, List.getElem?_eq_getElem hk']; rfl
      rw [hgk] at this
      exact lapComp_ok hv hvd hdims hk' this
    have hs : ∀ d ∈ ds, d.nvdim = 1 := by
      intro d hd
      obtain ⟨k, hk', rfl⟩ := List.getElem_of_mem hd
      exact (hk k hk').1
    split at h
    · cases h
    rename_i r hst
    split at h
    · cases h
    rename_i r' hsv
    have hne : vs ≠ [] := by
      intro he
      subst he
      simp only [List.length_nil] at l
      have : ds = [] := List.length_eq_zero_iff.mp l
      subst this
      simp [stack] at hst
    obtain ⟨t1, t2, t3, t4, _, _⟩ := lapTail_ok hne hsv h
    rw [t1, t2, t3, t4]
    clear h
    cases ds with
    | nil => simp [stack] at hst
    | cons d0 ds' =>
      simp only [stack] at hst
      obtain ⟨s1, s2, s3, s4⟩ := stackGo_ok ds' d0 r (fun d hd => hs d (by simp [hd])) hst
      have hd0 : d0.nvdim = 1 := hs d0 (by simp)
      have h0 := hk 0 (by simp)
      simp only [List.getElem_cons_zero] at h0
      have hgn : r.nvdim = f.nvdim := by rw [s2, hd0, ← hvl, ← l]; simp; omega
      refine ⟨hgn, by rw [s1, h0.2.1], ?_, ?_⟩
      · intro i
        rw [s4 i, h0.2.2.1 i]
        exact and_all_const (f.valid.get i) ds' (fun d => d.valid.get i) (by
          intro d hd
          obtain ⟨k, hk', rfl⟩ := List.getElem_of_mem hd
          have := (hk (k + 1) (by simp; omega)).2.2.1 i
          simpa using this)
      · intro i c hc
        have hc' : c < (d0 :: ds').length := by rw [l, hvl]; exact hc
        rw [← cellv_getD r i c (by omega), s3 i]
        have hc0 : cellv d0 i = [(d0.data.get i).getD 0 0] := by simp [cellv, hd0, tab]
        rw [hc0]
        have : ([(d0.data.get i).getD 0 0] ++ ds'.map fun d => (d.data.get i).getD 0 0)
            = (d0 :: ds').map fun d => (d.data.get i).getD 0 0 := by simp
        rw [this, List.getD_eq_getElem?_getD, List.getElem?_map, List.getElem?_eq_getElem hc']
        simp only [Option.map_some, Option.getD_some]
        exact (hk c hc').2.2.2 i

/-- **The reversed mapping inverts the mapping.**  For a one-to-one `vdim_mapping`, the
component that `_r_dim_mapping` pairs with axis `d` (the `ρ` of `curl_eq`) is exactly the
component whose label `vdim_mapping` sends to `d` (the `σ` of `div_eq`). -/
theorem rdim_inverts_mapping (f : Fld) (l d : String)
    (hinj : ∀ p ∈ f.vmap, ∀ q ∈ f.vmap, p.2 = q.2 → p = q)
    (h : Fld.lookup f.vmap l = some d) : rDimLast f d = some l :=
  rDimLast_of_lookup f l d hinj h


/-! ## 2. Refusals, and their converses -/

/-- **Gradient is refused** for every field that is not scalar. -/
theorem grad_refusal (f : Fld) (h : f.nvdim ≠ 1) : grad f = .error .value := by
  unfold grad; simp [h]

/-- **Divergence is accepted only** when `nvdim = ndim` and every component label is mapped,
by `vdim_mapping`, onto a name that IS an axis of the mesh — otherwise it is refused. -/
theorem div_accepts_only (f g : Fld) (h : div f = .ok g) :
    f.nvdim = f.mesh.ndim ∧ ∃ vs, f.vdims = some vs ∧
      ∀ v ∈ vs, ∃ d, Fld.lookup f.vmap v = some d ∧ d ∈ f.mesh.region.dims := by
  unfold div at h
  split at h
  · cases h
  · rename_i hn
    split at h
    · cases h
    · rename_i vs hvs
      split at h
      · cases h
      · rename_i hm
        refine ⟨by unfold Mesh.ndim; omega, vs, hvs, ?_⟩
        have hm' : allMapped f vs = true := by simpa using hm
        unfold allMapped at hm'
        rw [List.all_eq_true] at hm'
        intro v hv
        have := hm' v hv
        split at this
        · cases this
        · rename_i d hd
          exact ⟨d, hd, by simpa using this⟩

/-- **Curl is accepted only** for three components on a three-dimensional mesh, every
label mapped onto an axis and every axis paired (by the reversed mapping) with a component. -/
theorem curl_accepts_only (f g : Fld) (h : curl f = .ok g) :
    f.nvdim = 3 ∧ f.mesh.ndim = 3 ∧ ∃ vs, f.vdims = some vs ∧
      (∀ v ∈ vs, ∃ d, Fld.lookup f.vmap v = some d ∧ d ∈ f.mesh.region.dims) ∧
      ∀ d ∈ f.mesh.region.dims, ∃ l k, rDimLast f d = some l ∧ f.vdimIndex l = some k := by
  unfold curl at h
  split at h
  · cases h
  · rename_i hn
    split at h
    · cases h
    · rename_i vs hvs
      split at h
      · cases h
      · rename_i hm
        refine ⟨by omega, by unfold Mesh.ndim; omega, vs, hvs, ?_, ?_⟩
        · have hm' : allMapped f vs = true := by simpa using hm
          unfold allMapped at hm'
          rw [List.all_eq_true] at hm'
          intro v hv
          have := hm' v hv
          split at this
          · cases this
          · rename_i d hd
            exact ⟨d, hd, by simpa using this⟩
        · split at h
          · rename_i x y z hxyz
            -- a successful `compOfDim` exhibits the paired component
            have key : ∀ d, (∃ c, compOfDim f d = .ok c) → ∃ l k, rDimLast f d = some l ∧ f.vdimIndex l = some k := by
              intro d ⟨c, hc⟩
              unfold compOfDim at hc
              cases hq : rDimLast f d with
              | none => rw [hq] at hc; cases hc
              | some l =>
                rw [hq] at hc
                cases hk : f.vdimIndex l with
                | none => simp only [getComp, hk] at hc; cases hc
                | some k => exact ⟨l, k, rfl, hk⟩
            have first : ∀ d1 e1 d2 e2 t, curlComp f d1 e1 d2 e2 = .ok t →
                (∃ c, compOfDim f d1 = .ok c) ∧ (∃ c, compOfDim f d2 = .ok c) := by
              intro d1 e1 d2 e2 t ht
              unfold curlComp at ht
              split at ht
              · cases ht
              · rename_i c1 hc1
                split at ht
                · cases ht
                · split at ht
                  · cases ht
                  · rename_i c2 hc2
                    exact ⟨⟨c1, hc1⟩, ⟨c2, hc2⟩⟩
            split at h
            · cases h
            · rename_i cx hcx
              split at h
              · cases h
              · rename_i cy hcy
                obtain ⟨hz, hy⟩ := first _ _ _ _ _ hcx
                obtain ⟨hx, _⟩ := first _ _ _ _ _ hcy
                intro d hd
                rw [hxyz] at hd
                simp only [List.mem_cons, List.not_mem_nil, or_false] at hd
                rcases hd with rfl | rfl | rfl
                · exact key _ hx
                · exact key _ hy
                · exact key _ hz
          · cases h

/-- **Gradient accepts** every plain scalar field on a well-formed mesh (the converse of the
refusal): together with `grad_refusal`, `grad` is refused exactly for non-scalar fields. -/
theorem grad_accepts (f : Fld) (hp : Plain f) (hdims : DimsOk f) (hpos : 1 ≤ f.mesh.ndim) :
    ∃ g, grad f = .ok g := by
  unfold grad
  have h1 : ¬ (f.nvdim ≠ 1) := by rw [hp.1]; simp
  simp only [h1, if_false]
  obtain ⟨ds, hds⟩ := mapE_succeeds (fun d => diffDim f d 1) f.mesh.region.dims (fun d hd => by
    obtain ⟨g, hg, _⟩ := diffDim_succeeds f d 1 (Or.inl rfl) hdims hd
    exact ⟨g, hg⟩)
  rw [hds]
  simp only []
  have hall : ∀ d ∈ ds, Plain d ∧ d.mesh = f.mesh := by
    intro d hd
    obtain ⟨l, e⟩ := mapE_ok _ _ _ hds
    obtain ⟨k, hk, rfl⟩ := List.getElem_of_mem hd
    have hk' := e k (by omega) hk
    obtain ⟨g, hg, hm⟩ := diffDim_succeeds f (f.mesh.region.dims[k]'(by omega)) 1 (Or.inl rfl) hdims (List.getElem_mem _)
    rw [hg] at hk'
    injection hk' with hk'
    subst hk'
    exact ⟨diffDim_plain hp hg, hm⟩
  cases ds with
  | nil =>
    obtain ⟨l, _⟩ := mapE_ok _ _ _ hds
    rw [hdims.1] at l; simp at l; omega
  | cons d0 ds' =>
    simp only [stack]
    have p0 := (hall d0 (by simp)).1
    apply stackGo_plain_succeeds ds' d0 (by rw [p0.2.2, p0.1]; simp) (by rw [p0.1])
    intro d hd
    exact ⟨(hall d (by simp [hd])).1, by rw [(hall d (by simp [hd])).2, (hall d0 (by simp)).2]⟩

/-- **Divergence accepts** every field with `nvdim = ndim` whose components are all mapped
onto axes of the mesh (any labels, any dims names, any assignment `σ` — bijective or not). -/
theorem div_accepts (f : Fld) (vs : List String) (σ : Nat → Nat) (hdims : DimsOk f)
    (hn : f.nvdim = f.mesh.ndim) (hpos : 1 ≤ f.nvdim)
    (hv : f.vdims = some vs) (hvl : vs.length = f.nvdim) (hvd : hasDup vs = false)
    (hσ : ∀ c, c < f.nvdim → σ c < f.mesh.ndim ∧
      Fld.lookup f.vmap (vs.getD c "") = some (f.mesh.region.dims.getD (σ c) "")) :
    ∃ g, div f = .ok g := by
  unfold div
  have h1 : ¬ (f.nvdim ≠ f.mesh.region.ndim) := by unfold Mesh.ndim at hn; omega
  simp only [h1, if_false, hv]
  rw [allMapped_of f vs σ hdims (fun c hc => hσ c (by omega))]
  simp only [Bool.not_true, Bool.false_eq_true, if_false]
  have hterm : ∀ v ∈ vs, ∃ t, divTerm f v = .ok t := by
    intro v hvm
    obtain ⟨c, hc, rfl⟩ := mem_getD vs v hvm
    obtain ⟨t, ht, _⟩ := divTerm_succeeds f vs hv hvd hdims c (σ c) hc (hσ c (by omega)).1 (hσ c (by omega)).2
    exact ⟨t, ht⟩
  obtain ⟨ts, hts⟩ := mapE_succeeds (divTerm f) vs hterm
  rw [hts]
  simp only []
  obtain ⟨l, e⟩ := mapE_ok _ _ _ hts
  apply sumF_plain_succeeds ts f.mesh
  · intro he; subst he; simp at l; omega
  · intro t ht
    obtain ⟨k, hk, rfl⟩ := List.getElem_of_mem ht
    have hk' := e k (by omega) hk
    have hkv : k < vs.length := by omega
    have hgk : vs[k] = vs.getD k "" := by
      rw [List.getD_eq_getElem?_getD, List.getElem?_eq_getElem hkv]; rfl
    obtain ⟨t, ht', hp, hm⟩ := divTerm_succeeds f vs hv hvd hdims k (σ k) hkv (hσ k (by omega)).1 (hσ k (by omega)).2
    rw [hgk, ht'] at hk'
    injection hk' with hk'
    subst hk'
    exact ⟨hp, hm⟩

/-- **Curl accepts** every 3-component field on a 3-d mesh whose labels are all mapped onto
axes and whose every axis is paired with a component (`ρ`). -/
theorem curl_accepts (f : Fld) (vs : List String) (σ ρ : Nat → Nat) (hdims : DimsOk f)
    (hn : f.nvdim = 3) (hnd : f.mesh.ndim = 3)
    (hv : f.vdims = some vs) (hvl : vs.length = f.nvdim) (hvd : hasDup vs = false)
    (hσ : ∀ c, c < 3 → σ c < 3 ∧ Fld.lookup f.vmap (vs.getD c "") = some (f.mesh.region.dims.getD (σ c) ""))
    (hρ : ∀ d, d < 3 → ρ d < 3 ∧ rDimLast f (f.mesh.region.dims.getD d "") = some (vs.getD (ρ d) "")) :
    ∃ g, curl f = .ok g := by
  unfold curl
  have h1 : ¬ (f.nvdim ≠ 3 ∨ f.mesh.region.ndim ≠ 3) := by unfold Mesh.ndim at hnd; omega
  simp only [h1, if_false, hv]
  rw [allMapped_of f vs σ hdims (fun c hc => by
    have := hσ c (by omega); exact ⟨by omega, this.2⟩)]
  simp only [Bool.not_true, Bool.false_eq_true, if_false]
  obtain ⟨x, y, z, hxyz, _, _, _⟩ := dims3 f hdims hnd
  have g0 : f.mesh.region.dims.getD 0 "" = x := by rw [hxyz]; rfl
  have g1 : f.mesh.region.dims.getD 1 "" = y := by rw [hxyz]; rfl
  have g2 : f.mesh.region.dims.getD 2 "" = z := by rw [hxyz]; rfl
  have hl : ∀ d, d < 3 → ρ d < vs.length := fun d hd => by rw [hvl, hn]; exact (hρ d hd).1
  obtain ⟨cx, hcx, px, mx⟩ := curlComp_succeeds f vs hv hvd hdims 2 1 1 2 (ρ 2) (ρ 1) (by omega) (by omega)
    (hl 2 (by omega)) (hl 1 (by omega)) (hρ 2 (by omega)).2 (hρ 1 (by omega)).2
  obtain ⟨cy, hcy, py, my⟩ := curlComp_succeeds f vs hv hvd hdims 0 2 2 0 (ρ 0) (ρ 2) (by omega) (by omega)
    (hl 0 (by omega)) (hl 2 (by omega)) (hρ 0 (by omega)).2 (hρ 2 (by omega)).2
  obtain ⟨cz, hcz, pz, mz⟩ := curlComp_succeeds f vs hv hvd hdims 1 0 0 1 (ρ 1) (ρ 0) (by omega) (by omega)
    (hl 1 (by omega)) (hl 0 (by omega)) (hρ 1 (by omega)).2 (hρ 0 (by omega)).2
  simp only [g0, g1, g2] at hcx hcy hcz
  rw [hxyz]
  simp only [hcx, hcy, hcz]
  obtain ⟨cxy, hcxy⟩ := lshift_plain_succeeds cx cy py (by rw [mx, my]) (by rw [px.2.2, px.1]; simp) (by rw [px.1])
  rw [hcxy]
  simp only []
  obtain ⟨m1, _, m2, _⟩ := lshift_ok hcxy
  obtain ⟨_, a2⟩ := lshift_plain py (by rw [px.2.2, px.1]; simp) (by rw [px.1]) hcxy
  exact lshift_plain_succeeds cxy cz pz (by rw [m1, mx, mz])
    (by rw [a2, m2, px.1, py.1]; exact posVmap_length _ _) (by rw [m2, px.1]; omega)

/-- **Laplacian accepts** every plain scalar field and every vector field with well-formed
labels whose mapping is empty or has exactly the labels as keys (what the `vdim_mapping`
setter guarantees), on every well-formed mesh (no pairing with axes is needed). -/
theorem laplace_accepts (f : Fld) (hdims : DimsOk f) (hpos : 1 ≤ f.mesh.ndim)
    (hf : Plain f ∨ (1 < f.nvdim ∧ ∃ vs, f.vdims = some vs ∧ vs.length = f.nvdim ∧ hasDup vs = false ∧
      (f.vmap = [] ∨ (f.vmap.map (·.1)).isPerm vs = true))) :
    ∃ g, laplace f = .ok g := by
  unfold laplace
  rcases hf with hp | ⟨hn, vs, hv, hvl, hvd, hkeys⟩
  · rw [if_pos hp.1]
    obtain ⟨ts, hts, hne, hall⟩ := lapTerms_succeed f hp hdims hpos
    rw [hts]
    exact sumF_plain_succeeds ts f.mesh hne hall
  · have h1 : ¬ (f.nvdim = 1) := by omega
    rw [if_neg h1, hv]
    simp only []
    have hcomp : ∀ c, c < vs.length → ∃ t, lapComp f (vs.getD c "") = .ok t ∧ Plain t ∧ t.mesh = f.mesh := by
      intro c hc
      have hk := vdimIndex_getD f vs hv hvd c hc
      obtain ⟨comp, hcomp⟩ := getComp_succeeds f _ c hk
      have m1 := (getComp_ok hk hcomp).1
      have hdd : DimsOk comp := by unfold DimsOk; rw [m1]; exact hdims
      obtain ⟨ts, hts, hne, hall⟩ := lapTerms_succeed comp (getComp_plain hcomp) hdd (by rw [m1]; exact hpos)
      unfold lapComp
      rw [hcomp]
      simp only []
      rw [← m1, hts]
      obtain ⟨t, ht⟩ := sumF_plain_succeeds ts comp.mesh hne hall
      refine ⟨t, ht, sumF_plain (fun t' ht' => (hall t' ht').1) ht, ?_⟩
      obtain ⟨t0, h0, s1, _⟩ := sumF_ok ts t (fun t' ht' => (hall t' ht').1.1) ht
      rw [s1, (hall t0 (List.mem_of_mem_head? h0)).2]
    obtain ⟨ds, hds⟩ := mapE_succeeds (lapComp f) vs (fun v hvm => by
      obtain ⟨c, hc, rfl⟩ := mem_getD vs v hvm
      obtain ⟨t, ht, _⟩ := hcomp c hc
      exact ⟨t, ht⟩)
    rw [hds]
    simp only []
    obtain ⟨l, e⟩ := mapE_ok _ _ _ hds
    have hall : ∀ d ∈ ds, Plain d ∧ d.mesh = f.mesh := by
      intro d hd
      obtain ⟨k, hk, rfl⟩ := List.getElem_of_mem hd
      have hk' := e k (by omega) hk
      have hkv : k < vs.length := by omega
      have hgk : vs[k] = vs.getD k "" := by
        rw [List.getD_eq_getElem?_getD, List.getElem?_eq_getElem hkv]; rfl
      obtain ⟨t, ht, hp, hm⟩ := hcomp k hkv
      rw [hgk, ht] at hk'
      injection hk' with hk'
      subst hk'
      exact ⟨hp, hm⟩
    cases ds with
    | nil => simp at l; omega
    | cons d0 ds' =>
      simp only [stack]
      have p0 := (hall d0 (by simp)).1
      obtain ⟨r, hr⟩ := stackGo_plain_succeeds ds' d0 (by rw [p0.2.2, p0.1]; simp) (by rw [p0.1]) (by
        intro d hd
        exact ⟨(hall d (by simp [hd])).1, by rw [(hall d (by simp [hd])).2, (hall d0 (by simp)).2]⟩)
      rw [hr]
      simp only []
      have hne : ds' ≠ [] := by
        intro he; subst he; simp at l; omega
      obtain ⟨s1, s2, _, _⟩ := stackGo_ok ds' d0 r (fun d hd => (hall d (by simp [hd])).1.1) hr
      obtain ⟨m1, m2⟩ := stackGo_meta ds' d0 r hne (fun d hd => (hall d (by simp [hd])).1)
        (by rw [p0.2.2, p0.1]; simp) (by rw [p0.1]) hr
      have hrn : r.nvdim = f.nvdim := by rw [s2, p0.1, ← hvl, ← l]; simp; omega
      obtain ⟨r', g, e1, e2⟩ := lapTail_succeeds r vs f.vmap (by omega)
        (by rw [s1, (hall d0 (by simp)).2]; exact hdims.1) m1 m2 (by rw [hrn]; exact hvl) hvd hkeys
      rw [e1]
      exact ⟨g, e2⟩


/-- **Divergence is refused for every mismatch**: a component count different from the number of mesh
axes, no labels, a label without a mapping entry, or a label mapped onto a name that is no axis of the mesh. -/
theorem div_refusal (f : Fld)
    (h : f.nvdim ≠ f.mesh.ndim ∨ f.vdims = none ∨
      ∃ vs v, f.vdims = some vs ∧ v ∈ vs ∧ ∀ d, Fld.lookup f.vmap v = some d → d ∉ f.mesh.region.dims) :
    ∃ e, div f = .error e := by
  cases hd : div f with
  | error e => exact ⟨e, rfl⟩
  | ok g =>
    exfalso
    obtain ⟨h1, vs, h2, h3⟩ := div_accepts_only f g hd
    rcases h with h | h | ⟨vs', v, hv', hm, hno⟩
    · exact h h1
    · rw [h] at h2; cases h2
    · rw [hv'] at h2; injection h2 with h2; subst h2
      obtain ⟨d, hl, hdm⟩ := h3 v hm
      exact hno d hl hdm

/-- **Curl is refused for every mismatch**: a component count or a mesh dimension other than three, no
labels, a label not mapped onto an axis, or an axis that no component is mapped onto. -/
theorem curl_refusal (f : Fld)
    (h : f.nvdim ≠ 3 ∨ f.mesh.ndim ≠ 3 ∨ f.vdims = none ∨
      (∃ vs v, f.vdims = some vs ∧ v ∈ vs ∧ ∀ d, Fld.lookup f.vmap v = some d → d ∉ f.mesh.region.dims) ∨
      ∃ d, d ∈ f.mesh.region.dims ∧ rDimLast f d = none) :
    ∃ e, curl f = .error e := by
  cases hd : curl f with
  | error e => exact ⟨e, rfl⟩
  | ok g =>
    exfalso
    obtain ⟨h1, h1', vs, h2, h3, h4⟩ := curl_accepts_only f g hd
    rcases h with h | h | h | ⟨vs', v, hv', hm, hno⟩ | ⟨d, hdm, hno⟩
    · exact h h1
    · exact h h1'
    · rw [h] at h2; cases h2
    · rw [hv'] at h2; injection h2 with h2; subst h2
      obtain ⟨d, hl, hdm⟩ := h3 v hm
      exact hno d hl hdm
    · obtain ⟨l, k, hl, _⟩ := h4 d hdm
      rw [hno] at hl; cases hl

/-- **Divergence is accepted exactly when the dimensions fit and every component is mapped onto an axis**
(fields with well-formed labels on a mesh with well-formed axis names): the refusals of `div_refusal`
are the only ones. -/
theorem div_accepted_iff (f : Fld) (vs : List String) (hdims : DimsOk f) (hpos : 1 ≤ f.nvdim)
    (hv : f.vdims = some vs) (hvl : vs.length = f.nvdim) (hvd : hasDup vs = false) :
    (∃ g, div f = .ok g) ↔
      f.nvdim = f.mesh.ndim ∧ ∀ v ∈ vs, ∃ d, Fld.lookup f.vmap v = some d ∧ d ∈ f.mesh.region.dims := by
  constructor
  · rintro ⟨g, hg⟩
    obtain ⟨h1, vs', h2, h3⟩ := div_accepts_only f g hg
    rw [hv] at h2; injection h2 with h2; subst h2
    exact ⟨h1, h3⟩
  · rintro ⟨h1, h3⟩
    have hex : ∀ c, ∃ a, c < f.nvdim → a < f.mesh.ndim ∧
        Fld.lookup f.vmap (vs.getD c "") = some (f.mesh.region.dims.getD a "") := by
      intro c
      by_cases hc : c < f.nvdim
      · obtain ⟨d, hl, hdm⟩ := h3 _ (getD_mem_of_lt vs c (by omega))
        obtain ⟨a, ha, rfl⟩ := mem_dims_getD f d hdm
        exact ⟨a, fun _ => ⟨by rw [← hdims.1]; exact ha, hl⟩⟩
      · exact ⟨0, fun h => absurd h hc⟩
    exact div_accepts f vs (fun c => Classical.choose (hex c)) hdims h1 hpos hv hvl hvd
      (fun c hc => Classical.choose_spec (hex c) hc)

/-! ## 3. Mapping maintenance when labels change; what the results carry -/

/-- **Relabelling keeps the pairing.**  Assigning new component labels to a field that has a
mapping transports the mapping position by position: the new label of component `k` is
mapped to what the old label of component `k` was mapped to.  Nothing else changes. -/
theorem setVdims_keeps_map (f g : Fld) (old new : List String) (hold : f.vdims = some old)
    (hlen : old.length = f.nvdim) (hmap : 0 < f.vmap.length) (hne : new ≠ [])
    (h : setVdims f (some new) = .ok g) :
    g.vdims = some new ∧ new.length = f.nvdim ∧ g.mesh = f.mesh ∧ g.data = f.data ∧ g.valid = f.valid ∧
    g.nvdim = f.nvdim ∧
    ∀ k, k < f.nvdim → Fld.lookup g.vmap (new.getD k "") = Fld.lookup f.vmap (old.getD k "") := by
  unfold setVdims at h
  split at h
  · cases h
  · rename_i r hr
    obtain ⟨r1, r2, r3⟩ := vdimsSet_some hne hr
    subst r1
    rw [hold] at h
    simp only [] at h
    rw [if_pos hmap] at h
    split at h
    · cases h
    · rename_i mp hmp
      unfold setVmap at h
      split at h
      · cases h
      · rename_i mp' hmp'
        injection h with h; subst h
        refine ⟨rfl, r2, rfl, rfl, rfl, rfl, ?_⟩
        have hmm : mp' = mp := by
          unfold vmapSet at hmp'
          simp only [] at hmp'
          split at hmp'
          · rename_i hc; exact absurd hc.2.2 (by simp)
          · split at hmp'
            · split at hmp'
              · injection hmp' with e; exact e.symm
              · cases hmp'
            · injection hmp' with e; exact e.symm
        rw [hmm]
        intro k hk
        exact transportMap_lookup f.vmap new old mp r3 (by omega) hmp k (by omega)

/-- **Label spelling is irrelevant**: relabelling the components (the mapping is carried
along by `setVdims_keeps_map`) leaves the divergence unchanged at every cell. -/
theorem div_relabel (f f' g g' : Fld) (old new : List String) (σ : Nat → Nat) (hdims : DimsOk f)
    (hold : f.vdims = some old) (hlen : old.length = f.nvdim) (hod : hasDup old = false)
    (hmap : 0 < f.vmap.length) (hne : new ≠ [])
    (hσ : ∀ c, c < f.nvdim → σ c < f.mesh.ndim ∧
      Fld.lookup f.vmap (old.getD c "") = some (f.mesh.region.dims.getD (σ c) ""))
    (hset : setVdims f (some new) = .ok f') (h : div f = .ok g) (h' : div f' = .ok g') :
    ∀ i, (g'.data.get i).getD 0 0 = (g.data.get i).getD 0 0 := by
  obtain ⟨s1, s2, s3, s4, s5, s6, s7⟩ := setVdims_keeps_map f f' old new hold hlen hmap hne hset
  have hnd : hasDup new = false := by
    unfold setVdims at hset
    split at hset
    · cases hset
    · rename_i r hr
      exact (vdimsSet_some hne hr).2.2
  have hdims' : DimsOk f' := by unfold DimsOk; rw [s3]; exact hdims
  have hσ' : ∀ c, c < f'.nvdim → σ c < f'.mesh.ndim ∧
      Fld.lookup f'.vmap (new.getD c "") = some (f'.mesh.region.dims.getD (σ c) "") := by
    intro c hc
    rw [s6] at hc
    rw [s3, s7 c hc]
    exact hσ c hc
  obtain ⟨_, _, _, _, e⟩ := div_eq f g old σ hdims hold hlen hod hσ h
  obtain ⟨_, _, _, _, e'⟩ := div_eq f' g' new σ hdims' s1 (by rw [s2, s6]) hnd hσ' h'
  intro i
  rw [e i, e' i, s6]
  apply sumTo_congr
  intro c _
  unfold D periodic NDA.line
  rw [s3, s4, s5]

/-- **The vector Laplacian keeps the operand's labels and mapping.**  By `laplace_eq_vector`
component `c` of the result is the Laplacian of STORED component `c`; the result carries the
operand's labels and its component-to-axis mapping, so the component of the result paired
with axis `d` is the Laplacian of the component of the operand paired with `d` — for every
mapping, positional or not (regression of finding D55). -/
theorem laplace_keeps_meta (f g : Fld) (vs : List String) (hn : f.nvdim ≠ 1)
    (hv : f.vdims = some vs) (hvl : vs.length = f.nvdim) (h : laplace f = .ok g) :
    g.vdims = f.vdims ∧ g.vmap = f.vmap ∧
    (∀ d, rDimLast g d = rDimLast f d) ∧ (∀ l, g.vdimIndex l = f.vdimIndex l) := by
  unfold laplace at h
  rw [if_neg hn, hv] at h
  simp only [] at h
  split at h
  · cases h
  rename_i ds hds
  obtain ⟨l, _⟩ := mapE_ok _ _ _ hds
  split at h
  · cases h
  rename_i r hst
  split at h
  · cases h
  rename_i r' hsv
  have hne : vs ≠ [] := by
    intro he
    subst he
    simp only [List.length_nil] at l
    have : ds = [] := List.length_eq_zero_iff.mp l
    subst this
    simp [stack] at hst
  obtain ⟨_, _, _, _, t5, t6⟩ := lapTail_ok hne hsv h
  refine ⟨by rw [t5, hv], t6, ?_, ?_⟩
  · intro d; unfold rDimLast; rw [t6]
  · intro l'; unfold Fld.vdimIndex; rw [t5, hv]

/-- **Label spelling is irrelevant for the curl**: relabelling the components of a field whose mapping
pairs the three components one-to-one with the three axes (`σ` with inverse `ρ`) leaves the curl
unchanged, component by component at every cell. -/
theorem curl_relabel (f f' g g' : Fld) (old new : List String) (σ ρ : Nat → Nat) (hdims : DimsOk f)
    (hold : f.vdims = some old) (hlen : old.length = f.nvdim) (hod : hasDup old = false)
    (hne : new ≠ []) (hone : OneToOne f.vmap)
    (hσ : ∀ c, c < f.nvdim → σ c < f.mesh.ndim ∧
      Fld.lookup f.vmap (old.getD c "") = some (f.mesh.region.dims.getD (σ c) ""))
    (hinv : ∀ d, d < 3 → ρ d < 3 ∧ σ (ρ d) = d)
    (hset : setVdims f (some new) = .ok f') (h : curl f = .ok g) (h' : curl f' = .ok g') :
    ∀ i c, c < 3 → (g'.data.get i).getD c 0 = (g.data.get i).getD c 0 := by
  obtain ⟨hn3, hnd3, _⟩ := curl_accepts_only f g h
  have hmap : 0 < f.vmap.length := by
    have := (hσ 0 (by omega)).2
    cases hq : f.vmap with
    | nil => rw [hq] at this; simp [Fld.lookup] at this
    | cons _ _ => simp
  obtain ⟨s1, s2, s3, s4, s5, s6, s7⟩ := setVdims_keeps_map f f' old new hold hlen hmap hne hset
  have hnd : hasDup new = false := by
    unfold setVdims at hset
    split at hset
    · cases hset
    · rename_i r hr
      exact (vdimsSet_some hne hr).2.2
  have hdims' : DimsOk f' := by unfold DimsOk; rw [s3]; exact hdims
  -- the transported mapping is one-to-one
  have hone' : OneToOne f'.vmap := by
    unfold setVdims at hset
    split at hset
    · cases hset
    · rename_i r hr
      obtain ⟨r1, _, _⟩ := vdimsSet_some hne hr
      subst r1
      rw [hold] at hset
      simp only [] at hset
      rw [if_pos hmap] at hset
      split at hset
      · cases hset
      · rename_i mp hmp
        obtain ⟨_, _, _, _, _, _, b7⟩ := setVmap_ok hset
        rw [vmapSet_some_some b7]
        exact transportMap_oneToOne f.vmap new old mp hone hod hmp
  have hρ : ∀ d, d < 3 → ρ d < 3 ∧ rDimLast f (f.mesh.region.dims.getD d "") = some (old.getD (ρ d) "") := by
    intro d hd
    obtain ⟨r1, r2⟩ := hinv d hd
    refine ⟨r1, ?_⟩
    have := (hσ (ρ d) (by rw [hn3]; exact r1)).2
    rw [r2] at this
    exact rDimLast_of_lookup f _ _ hone this
  have hρ' : ∀ d, d < 3 → ρ d < 3 ∧ rDimLast f' (f'.mesh.region.dims.getD d "") = some (new.getD (ρ d) "") := by
    intro d hd
    obtain ⟨r1, r2⟩ := hinv d hd
    refine ⟨r1, ?_⟩
    have := (hσ (ρ d) (by rw [hn3]; exact r1)).2
    rw [r2, ← s7 (ρ d) (by rw [hn3]; exact r1)] at this
    rw [s3]
    exact rDimLast_of_lookup f' _ _ hone' this
  obtain ⟨_, _, _, _, _, e⟩ := curl_eq f g old ρ hdims hold hlen hod hρ h
  obtain ⟨_, _, _, _, _, e'⟩ := curl_eq f' g' new ρ hdims' s1 (by rw [s2, s6]) hnd hρ' h'
  have hD : ∀ ax c i, D f' ax 1 c i = D f ax 1 c i := by
    intro ax c i
    unfold D periodic NDA.line
    rw [s3, s4, s5]
  intro i c hc
  obtain ⟨a0, a1, a2⟩ := e i
  obtain ⟨b0, b1, b2⟩ := e' i
  have : c = 0 ∨ c = 1 ∨ c = 2 := by omega
  rcases this with rfl | rfl | rfl
  · rw [a0, b0, hD, hD]
  · rw [a1, b1, hD, hD]
  · rw [a2, b2, hD, hD]

/-! ## 4. Exactness on polynomials of degree ≤ 2 (n ≥ 3 per axis, open, fully valid) -/

/-- LINE-LEVEL EXACTNESS: if along the line through `i` the values are a quadratic in the
offset from cell `i` (`p0 + p1·s + p2/2·s²`, `s` = distance along the axis), the first and
second derivative at `i` are `p1` and `p2` — at the first cell, in the interior, at the last
cell of a fully valid open line of at least 3 cells -/
theorem D_exact_line (f : Fld) (ax c : Nat) (i : List Nat) (p0 p1 p2 : Rat)
    (hper : periodic f ax = false) (hn : 3 ≤ f.mesh.nAt ax) (hh : f.mesh.cellAt ax ≠ 0)
    (hi : i.getD ax 0 < f.mesh.nAt ax)
    (hv : ∀ j, j < f.mesh.nAt ax → f.valid.line ax i j = true)
    (hT : ∀ j, j < f.mesh.nAt ax → (f.data.line ax i j).getD c 0
        = p0 + p1 * (((j : Rat) - (i.getD ax 0 : Nat)) * f.mesh.cellAt ax)
          + p2 / 2 * (((j : Rat) - (i.getD ax 0 : Nat)) * f.mesh.cellAt ax) ^ 2) :
    D f ax 1 c i = p1 ∧ D f ax 2 c i = p2 := by
  have key : ∀ o, D f ax o c i = dAt o (f.mesh.cellAt ax) (f.mesh.nAt ax)
      (fun k => p0 + p1 * (-((i.getD ax 0 : Nat) : Rat) * f.mesh.cellAt ax + (k : Rat) * f.mesh.cellAt ax)
        + p2 / 2 * (-((i.getD ax 0 : Nat) : Rat) * f.mesh.cellAt ax + (k : Rat) * f.mesh.cellAt ax) ^ 2) (i.getD ax 0) := by
    intro o
    rw [D_open_all_valid f ax o c i hper hv hi]
    apply dAt_congr _ _ _ _ _ _ _ hi
    intro k hk
    rw [hT k hk]; ring
  constructor
  · rw [key 1]
    unfold dAt
    simp only [if_true]
    rw [d1_exact p0 p1 (p2 / 2) _ _ hh _ hn _ hi]
    ring
  · rw [key 2]
    unfold dAt
    simp only [show ¬ ((2 : Nat) = 1) by omega, if_false]
    by_cases h4 : 4 ≤ f.mesh.nAt ax
    · have := d2_exact p0 p1 (p2 / 2) 0 (-((i.getD ax 0 : Nat) : Rat) * f.mesh.cellAt ax) _ hh _ h4 _ hi
      simp only [zero_mul, add_zero, mul_zero] at this
      rw [this]; ring
    · have h3 : f.mesh.nAt ax = 3 := by omega
      rw [h3, d2_exact_three p0 p1 (p2 / 2) _ _ hh]
      ring

/-- FIELD-LEVEL EXACTNESS of `diff`: a component that samples a function which is quadratic
along axis `ax` is differentiated exactly (first and second derivative) at every cell of a
fully valid open mesh with at least three cells along `ax`. -/
theorem D_exact (f : Fld) (ax c : Nat) (i : List Nat) (P P1 P2 : (Nat → Rat) → Rat)
    (hs : SampledFrom f c P) (hq : QuadAlong P ax P1 P2) (hval : FullyValid f)
    (hper : periodic f ax = false) (hn : 3 ≤ f.mesh.nAt ax) (hh : f.mesh.cellAt ax ≠ 0)
    (hax : ax < i.length) (hi : i.getD ax 0 < f.mesh.nAt ax) :
    D f ax 1 c i = P1 (coords f i) ∧ D f ax 2 c i = P2 (coords f i) := by
  apply D_exact_line f ax c i (P (coords f i)) (P1 (coords f i)) (P2 (coords f i)) hper hn hh hi
  · intro j _; exact hval _
  · intro j _
    unfold NDA.line
    rw [hs (setAt i ax j), coords_setAt f i ax j hax, hq]

/-- every polynomial of total degree ≤ 2 is quadratic along every axis, with the textbook
partial derivatives -/
theorem quadP_quadAlong (n : Nat) (c0 : Rat) (b : Nat → Rat) (q : Nat → Nat → Rat) (ax : Nat) (hax : ax < n) :
    QuadAlong (quadP n c0 b q) ax (quadP1 n b q ax) (fun _ => 2 * q ax ax) := by
  intro x s
  rw [upd_add]
  unfold quadP quadP1
  -- linear part
  have l1 : sumTo n (fun a => b a * (x a + s * (if a = ax then (1 : Rat) else 0)))
      = sumTo n (fun a => b a * x a) + s * b ax := by
    rw [sumTo_congr n _ (fun a => b a * x a + s * 0 + s * ((if a = ax then (1 : Rat) else 0) * b a) + 0 * 0)
      (fun a _ => by ring)]
    rw [sumTo_lin4, sumTo_delta n ax hax, sumTo_zero]
    ring
  -- inner sums of the quadratic part
  have inner : ∀ a, sumTo n (fun a' => q a a' * (x a + s * (if a = ax then (1 : Rat) else 0))
        * (x a' + s * (if a' = ax then (1 : Rat) else 0)))
      = sumTo n (fun a' => q a a' * x a * x a')
        + s * ((if a = ax then (1 : Rat) else 0) * sumTo n (fun a' => q a a' * x a'))
        + s * (x a * q a ax) + s ^ 2 * ((if a = ax then (1 : Rat) else 0) * q a ax) := by
    intro a
    rw [sumTo_congr n _ (fun a' => q a a' * x a * x a'
        + s * ((if a = ax then (1 : Rat) else 0) * (q a a' * x a'))
        + s * ((if a' = ax then (1 : Rat) else 0) * (x a * q a a'))
        + s ^ 2 * ((if a' = ax then (1 : Rat) else 0) * ((if a = ax then (1 : Rat) else 0) * q a a')))
      (fun a' _ => by ring)]
    rw [sumTo_lin4, sumTo_delta n ax hax, sumTo_delta n ax hax]
    have : sumTo n (fun a' => (if a = ax then (1 : Rat) else 0) * (q a a' * x a'))
        = (if a = ax then (1 : Rat) else 0) * sumTo n (fun a' => q a a' * x a') :=
      sumTo_mul_left n _ _
    rw [this]
  have l2 : sumTo n (fun a => sumTo n fun a' => q a a' * (x a + s * (if a = ax then (1 : Rat) else 0))
        * (x a' + s * (if a' = ax then (1 : Rat) else 0)))
      = sumTo n (fun a => sumTo n fun a' => q a a' * x a * x a')
        + s * sumTo n (fun a' => q ax a' * x a') + s * sumTo n (fun a => q a ax * x a) + s ^ 2 * q ax ax := by
    rw [sumTo_congr n _ _ (fun a _ => inner a)]
    rw [sumTo_congr n _ (fun a => sumTo n (fun a' => q a a' * x a * x a')
        + s * ((if a = ax then (1 : Rat) else 0) * sumTo n (fun a' => q a a' * x a'))
        + s * (q a ax * x a) + s ^ 2 * ((if a = ax then (1 : Rat) else 0) * q a ax))
      (fun a _ => by ring)]
    rw [sumTo_lin4, sumTo_delta n ax hax, sumTo_delta n ax hax]
  rw [l1, l2]
  have l3 : sumTo n (fun a => (q ax a + q a ax) * x a)
      = sumTo n (fun a' => q ax a' * x a') + sumTo n (fun a => q a ax * x a) := by
    rw [← sumTo_add]
    exact sumTo_congr n _ _ (fun a _ => by ring)
  rw [l3]
  ring

/-- **Gradient is exact** on fields that are polynomials of degree ≤ 2 along every axis (in
particular on every polynomial of total degree ≤ 2, `quadP_quadAlong`): component `a` of
the result is the analytic partial derivative `∂P/∂x_a` at every cell centre. -/
theorem grad_exact_quadratic (f g : Fld) (P : (Nat → Rat) → Rat) (P1 P2 : Nat → (Nat → Rat) → Rat)
    (hdims : DimsOk f) (hs : SampledFrom f 0 P)
    (hq : ∀ a, a < f.mesh.ndim → QuadAlong P a (P1 a) (P2 a)) (hm : ExactMesh f) (h : grad f = .ok g) :
    ∀ i, InMesh f i → ∀ a, a < f.mesh.ndim → (g.data.get i).getD a 0 = P1 a (coords f i) := by
  obtain ⟨_, _, _, _, g5⟩ := grad_eq f g hdims h
  intro i hi a ha
  obtain ⟨hp, hn, hh⟩ := hm.2 a ha
  rw [g5 i a ha]
  exact (D_exact f a 0 i P (P1 a) (P2 a) hs (hq a ha) hm.1 hp hn hh (by rw [hi.1]; exact ha) (hi.2 a ha)).1

/-- **Divergence is exact**: with stored component `c` sampling `P c` and mapped onto axis
`σ c`, the result is `Σ_c ∂(P c)/∂x_{σ c}` at every cell centre. -/
theorem div_exact_quadratic (f g : Fld) (vs : List String) (σ : Nat → Nat)
    (P : Nat → (Nat → Rat) → Rat) (P1 P2 : Nat → (Nat → Rat) → Rat)
    (hdims : DimsOk f) (hv : f.vdims = some vs) (hvl : vs.length = f.nvdim) (hvd : hasDup vs = false)
    (hσ : ∀ c, c < f.nvdim → σ c < f.mesh.ndim ∧
      Fld.lookup f.vmap (vs.getD c "") = some (f.mesh.region.dims.getD (σ c) ""))
    (hs : ∀ c, c < f.nvdim → SampledFrom f c (P c) ∧ QuadAlong (P c) (σ c) (P1 c) (P2 c))
    (hm : ExactMesh f) (h : div f = .ok g) :
    ∀ i, InMesh f i → (g.data.get i).getD 0 0 = sumTo f.nvdim fun c => P1 c (coords f i) := by
  obtain ⟨_, _, _, _, g5⟩ := div_eq f g vs σ hdims hv hvl hvd hσ h
  intro i hi
  rw [g5 i]
  apply sumTo_congr
  intro c hc
  obtain ⟨hp, hn, hh⟩ := hm.2 (σ c) (hσ c hc).1
  exact (D_exact f (σ c) c i (P c) (P1 c) (P2 c) (hs c hc).1 (hs c hc).2 hm.1 hp hn hh
    (by rw [hi.1]; exact (hσ c hc).1) (hi.2 _ (hσ c hc).1)).1

/-- **Curl is exact**: with `ρ a` the stored component paired with axis `a`, sampling
`P (ρ a)`, and `P1 c a = ∂(P c)/∂x_a`, the result is the analytic curl in axis order. -/
theorem curl_exact_quadratic (f g : Fld) (vs : List String) (ρ : Nat → Nat)
    (P : Nat → (Nat → Rat) → Rat) (P1 P2 : Nat → Nat → (Nat → Rat) → Rat)
    (hdims : DimsOk f) (hv : f.vdims = some vs) (hvl : vs.length = f.nvdim) (hvd : hasDup vs = false)
    (hρ : ∀ d, d < 3 → ρ d < 3 ∧ rDimLast f (f.mesh.region.dims.getD d "") = some (vs.getD (ρ d) ""))
    (hs : ∀ c, c < 3 → SampledFrom f c (P c) ∧ ∀ a, a < 3 → QuadAlong (P c) a (P1 c a) (P2 c a))
    (hm : ExactMesh f) (h : curl f = .ok g) :
    ∀ i, InMesh f i →
      (g.data.get i).getD 0 0 = P1 (ρ 2) 1 (coords f i) - P1 (ρ 1) 2 (coords f i) ∧
      (g.data.get i).getD 1 0 = P1 (ρ 0) 2 (coords f i) - P1 (ρ 2) 0 (coords f i) ∧
      (g.data.get i).getD 2 0 = P1 (ρ 1) 0 (coords f i) - P1 (ρ 0) 1 (coords f i) := by
  obtain ⟨_, hnd, _, _, _, g6⟩ := curl_eq f g vs ρ hdims hv hvl hvd hρ h
  intro i hi
  have ex : ∀ c a, c < 3 → a < 3 → D f a 1 c i = P1 c a (coords f i) := by
    intro c a hc ha
    obtain ⟨hp, hn, hh⟩ := hm.2 a (by omega)
    exact (D_exact f a c i (P c) (P1 c a) (P2 c a) (hs c hc).1 ((hs c hc).2 a ha) hm.1 hp hn hh
      (by rw [hi.1]; omega) (hi.2 a (by omega))).1
  obtain ⟨e0, e1, e2⟩ := g6 i
  have r0 := (hρ 0 (by omega)).1
  have r1 := (hρ 1 (by omega)).1
  have r2 := (hρ 2 (by omega)).1
  rw [e0, e1, e2, ex _ 1 r2 (by omega), ex _ 2 r1 (by omega), ex _ 2 r0 (by omega), ex _ 0 r2 (by omega),
    ex _ 0 r1 (by omega), ex _ 1 r0 (by omega)]
  exact ⟨rfl, rfl, rfl⟩

/-- **Laplacian is exact** (scalar field): `Σ_a ∂²P/∂x_a²` at every cell centre. -/
theorem laplace_exact_quadratic (f g : Fld) (P : (Nat → Rat) → Rat) (P1 P2 : Nat → (Nat → Rat) → Rat)
    (hdims : DimsOk f) (hn1 : f.nvdim = 1) (hs : SampledFrom f 0 P)
    (hq : ∀ a, a < f.mesh.ndim → QuadAlong P a (P1 a) (P2 a)) (hm : ExactMesh f) (h : laplace f = .ok g) :
    ∀ i, InMesh f i → (g.data.get i).getD 0 0 = sumTo f.mesh.ndim fun a => P2 a (coords f i) := by
  obtain ⟨_, _, _, g5⟩ := laplace_eq_scalar f g hdims hn1 h
  intro i hi
  rw [g5 i]
  apply sumTo_congr
  intro a ha
  obtain ⟨hp, hn, hh⟩ := hm.2 a ha
  exact (D_exact f a 0 i P (P1 a) (P2 a) hs (hq a ha) hm.1 hp hn hh (by rw [hi.1]; exact ha) (hi.2 a ha)).2

/-- **Laplacian is exact** (vector field): component `c` is the Laplacian of `P c`. -/
theorem laplace_exact_quadratic_vector (f g : Fld) (vs : List String)
    (P : Nat → (Nat → Rat) → Rat) (P1 P2 : Nat → Nat → (Nat → Rat) → Rat)
    (hdims : DimsOk f) (hn : f.nvdim ≠ 1) (hv : f.vdims = some vs) (hvl : vs.length = f.nvdim)
    (hvd : hasDup vs = false)
    (hs : ∀ c, c < f.nvdim → SampledFrom f c (P c) ∧ ∀ a, a < f.mesh.ndim → QuadAlong (P c) a (P1 c a) (P2 c a))
    (hm : ExactMesh f) (h : laplace f = .ok g) :
    ∀ i, InMesh f i → ∀ c, c < f.nvdim →
      (g.data.get i).getD c 0 = sumTo f.mesh.ndim fun a => P2 c a (coords f i) := by
  obtain ⟨_, _, _, g5⟩ := laplace_eq_vector f g vs hdims hn hv hvl hvd h
  intro i hi c hc
  rw [g5 i c hc]
  apply sumTo_congr
  intro a ha
  obtain ⟨hp, hn', hh⟩ := hm.2 a ha
  exact (D_exact f a c i (P c) (P1 c a) (P2 c a) (hs c hc).1 ((hs c hc).2 a ha) hm.1 hp hn' hh
    (by rw [hi.1]; exact ha) (hi.2 a ha)).2


/-! ### 4b. … and with ANY mask, at every valid cell whose runs of valid cells are long enough -/

/-- LINE-LEVEL EXACTNESS WITH A MASK: at a valid cell whose own run of valid cells along an open axis
has at least three cells, if the values ON THAT RUN are a quadratic in the offset from cell `i`,
the first and second derivative at `i` are `p1` and `p2` — whatever lies outside the run -/
theorem D_exact_line_masked (f : Fld) (ax c : Nat) (i : List Nat) (p0 p1 p2 : Rat)
    (hper : periodic f ax = false) (hh : f.mesh.cellAt ax ≠ 0) (hi : i.getD ax 0 < f.mesh.nAt ax)
    (hv : f.valid.line ax i (i.getD ax 0) = true)
    (hlen : 3 ≤ runBefore (fun j => f.valid.line ax i j) (i.getD ax 0)
        + runFrom (fun j => f.valid.line ax i j) (f.mesh.nAt ax) (i.getD ax 0))
    (hT : ∀ j, i.getD ax 0 - runBefore (fun j => f.valid.line ax i j) (i.getD ax 0) ≤ j →
        j < i.getD ax 0 + runFrom (fun j => f.valid.line ax i j) (f.mesh.nAt ax) (i.getD ax 0) →
        (f.data.line ax i j).getD c 0
        = p0 + p1 * (((j : Rat) - (i.getD ax 0 : Nat)) * f.mesh.cellAt ax)
          + p2 / 2 * (((j : Rat) - (i.getD ax 0 : Nat)) * f.mesh.cellAt ax) ^ 2) :
    D f ax 1 c i = p1 ∧ D f ax 2 c i = p2 := by
  have hb := runBefore_le (fun j => f.valid.line ax i j) (i.getD ax 0)
  have hpos : 0 < runFrom (fun j => f.valid.line ax i j) (f.mesh.nAt ax) (i.getD ax 0) := by
    unfold runFrom
    have : f.mesh.nAt ax - i.getD ax 0 = (f.mesh.nAt ax - i.getD ax 0 - 1) + 1 := by omega
    rw [this]; simp only [runFromAux, hv, if_true]; omega
  generalize hrb : runBefore (fun j => f.valid.line ax i j) (i.getD ax 0) = rb at *
  generalize hrf : runFrom (fun j => f.valid.line ax i j) (f.mesh.nAt ax) (i.getD ax 0) = rf at *
  have key : ∀ o, D f ax o c i = dAt o (f.mesh.cellAt ax) (rb + rf)
      (fun k => p0 + p1 * (-(rb : Rat) * f.mesh.cellAt ax + (k : Rat) * f.mesh.cellAt ax)
        + p2 / 2 * (-(rb : Rat) * f.mesh.cellAt ax + (k : Rat) * f.mesh.cellAt ax) ^ 2) rb := by
    intro o
    rw [D_eq_spec f ax o c i hper hi]
    unfold diffSpec
    beta_reduce
    rw [hv, hrb, hrf]
    simp only [if_true]
    apply dAt_congr _ _ _ _ _ _ _ (by omega)
    intro k hk
    rw [hT (i.getD ax 0 - rb + k) (by omega) (by omega)]
    have e : ((i.getD ax 0 - rb + k : Nat) : Rat) - ((i.getD ax 0 : Nat) : Rat) = -(rb : Rat) + (k : Rat) := by
      push_cast [Nat.cast_sub hb]; ring
    rw [e]; ring
  constructor
  · rw [key 1]
    unfold dAt
    simp only [if_true]
    rw [d1_exact p0 p1 (p2 / 2) _ _ hh _ hlen _ (by omega)]
    ring
  · rw [key 2]
    unfold dAt
    simp only [show ¬ ((2 : Nat) = 1) by omega, if_false]
    by_cases h4 : 4 ≤ rb + rf
    · have := d2_exact p0 p1 (p2 / 2) 0 (-(rb : Rat) * f.mesh.cellAt ax) _ hh _ h4 rb (by omega)
      simp only [zero_mul, add_zero, mul_zero] at this
      rw [this]; ring
    · have h3 : rb + rf = 3 := by omega
      rw [h3, d2_exact_three p0 p1 (p2 / 2) _ _ hh]
      ring

/-- FIELD-LEVEL EXACTNESS of `diff` WITH A MASK: a component that samples a function which is
quadratic along axis `ax` is differentiated exactly (first and second derivative) at every valid
cell whose own run of valid cells along `ax` has at least three cells — any mask otherwise. -/
theorem D_exact_masked (f : Fld) (ax c : Nat) (i : List Nat) (P P1 P2 : (Nat → Rat) → Rat)
    (hs : SampledFrom f c P) (hq : QuadAlong P ax P1 P2)
    (hper : periodic f ax = false) (hh : f.mesh.cellAt ax ≠ 0)
    (hax : ax < i.length) (hi : i.getD ax 0 < f.mesh.nAt ax)
    (hv : f.valid.line ax i (i.getD ax 0) = true)
    (hlen : 3 ≤ runBefore (fun j => f.valid.line ax i j) (i.getD ax 0)
        + runFrom (fun j => f.valid.line ax i j) (f.mesh.nAt ax) (i.getD ax 0)) :
    D f ax 1 c i = P1 (coords f i) ∧ D f ax 2 c i = P2 (coords f i) := by
  apply D_exact_line_masked f ax c i (P (coords f i)) (P1 (coords f i)) (P2 (coords f i)) hper hh hi hv hlen
  intro j _ _
  unfold NDA.line
  rw [hs (setAt i ax j), coords_setAt f i ax j hax, hq]

/-- **Gradient is exact at every cell with long enough runs** of a field with ANY mask: at a valid
cell whose runs along all axes have at least three cells, component `a` of `grad` is `∂P/∂x_a` -/
theorem grad_exact_quadratic_masked (f g : Fld) (P : (Nat → Rat) → Rat) (P1 P2 : Nat → (Nat → Rat) → Rat)
    (hdims : DimsOk f) (hs : SampledFrom f 0 P) (hq : ∀ a, a < f.mesh.ndim → QuadAlong P a (P1 a) (P2 a))
    (h : grad f = .ok g) (i : List Nat) (hi : InMesh f i) (hm : ExactAt f i) :
    ∀ a, a < f.mesh.ndim → (g.data.get i).getD a 0 = P1 a (coords f i) := by
  obtain ⟨_, _, _, _, g5⟩ := grad_eq f g hdims h
  intro a ha
  obtain ⟨hp, hh, hv, hl⟩ := hm a ha
  rw [g5 i a ha]
  exact (D_exact_masked f a 0 i P (P1 a) (P2 a) hs (hq a ha) hp hh (by rw [hi.1]; exact ha) (hi.2 a ha) hv hl).1

/-- **Divergence is exact at every cell with long enough runs**, any mask -/
theorem div_exact_quadratic_masked (f g : Fld) (vs : List String) (σ : Nat → Nat)
    (P : Nat → (Nat → Rat) → Rat) (P1 P2 : Nat → (Nat → Rat) → Rat)
    (hdims : DimsOk f) (hv : f.vdims = some vs) (hvl : vs.length = f.nvdim) (hvd : hasDup vs = false)
    (hσ : ∀ c, c < f.nvdim → σ c < f.mesh.ndim ∧
      Fld.lookup f.vmap (vs.getD c "") = some (f.mesh.region.dims.getD (σ c) ""))
    (hs : ∀ c, c < f.nvdim → SampledFrom f c (P c) ∧ QuadAlong (P c) (σ c) (P1 c) (P2 c))
    (h : div f = .ok g) (i : List Nat) (hi : InMesh f i) (hm : ExactAt f i) :
    (g.data.get i).getD 0 0 = sumTo f.nvdim fun c => P1 c (coords f i) := by
  obtain ⟨_, _, _, _, g5⟩ := div_eq f g vs σ hdims hv hvl hvd hσ h
  rw [g5 i]
  apply sumTo_congr
  intro c hc
  obtain ⟨hp, hh, hv', hl⟩ := hm (σ c) (hσ c hc).1
  exact (D_exact_masked f (σ c) c i (P c) (P1 c) (P2 c) (hs c hc).1 (hs c hc).2 hp hh
    (by rw [hi.1]; exact (hσ c hc).1) (hi.2 _ (hσ c hc).1) hv' hl).1

/-- **Curl is exact at every cell with long enough runs**, any mask -/
theorem curl_exact_quadratic_masked (f g : Fld) (vs : List String) (ρ : Nat → Nat)
    (P : Nat → (Nat → Rat) → Rat) (P1 P2 : Nat → Nat → (Nat → Rat) → Rat)
    (hdims : DimsOk f) (hv : f.vdims = some vs) (hvl : vs.length = f.nvdim) (hvd : hasDup vs = false)
    (hρ : ∀ d, d < 3 → ρ d < 3 ∧ rDimLast f (f.mesh.region.dims.getD d "") = some (vs.getD (ρ d) ""))
    (hs : ∀ c, c < 3 → SampledFrom f c (P c) ∧ ∀ a, a < 3 → QuadAlong (P c) a (P1 c a) (P2 c a))
    (h : curl f = .ok g) (i : List Nat) (hi : InMesh f i) (hm : ExactAt f i) :
      (g.data.get i).getD 0 0 = P1 (ρ 2) 1 (coords f i) - P1 (ρ 1) 2 (coords f i) ∧
      (g.data.get i).getD 1 0 = P1 (ρ 0) 2 (coords f i) - P1 (ρ 2) 0 (coords f i) ∧
      (g.data.get i).getD 2 0 = P1 (ρ 1) 0 (coords f i) - P1 (ρ 0) 1 (coords f i) := by
  obtain ⟨_, hnd, _, _, _, g6⟩ := curl_eq f g vs ρ hdims hv hvl hvd hρ h
  have ex : ∀ c a, c < 3 → a < 3 → D f a 1 c i = P1 c a (coords f i) := by
    intro c a hc ha
    obtain ⟨hp, hh, hv', hl⟩ := hm a (by omega)
    exact (D_exact_masked f a c i (P c) (P1 c a) (P2 c a) (hs c hc).1 ((hs c hc).2 a ha) hp hh
      (by rw [hi.1]; omega) (hi.2 a (by omega)) hv' hl).1
  obtain ⟨e0, e1, e2⟩ := g6 i
  have r0 := (hρ 0 (by omega)).1
  have r1 := (hρ 1 (by omega)).1
  have r2 := (hρ 2 (by omega)).1
  rw [e0, e1, e2, ex _ 1 r2 (by omega), ex _ 2 r1 (by omega), ex _ 2 r0 (by omega), ex _ 0 r2 (by omega),
    ex _ 0 r1 (by omega), ex _ 1 r0 (by omega)]
  exact ⟨rfl, rfl, rfl⟩

/-- **Laplacian is exact at every cell with long enough runs** (scalar field), any mask -/
theorem laplace_exact_quadratic_masked (f g : Fld) (P : (Nat → Rat) → Rat) (P1 P2 : Nat → (Nat → Rat) → Rat)
    (hdims : DimsOk f) (hn1 : f.nvdim = 1) (hs : SampledFrom f 0 P)
    (hq : ∀ a, a < f.mesh.ndim → QuadAlong P a (P1 a) (P2 a)) (h : laplace f = .ok g)
    (i : List Nat) (hi : InMesh f i) (hm : ExactAt f i) :
    (g.data.get i).getD 0 0 = sumTo f.mesh.ndim fun a => P2 a (coords f i) := by
  obtain ⟨_, _, _, g5⟩ := laplace_eq_scalar f g hdims hn1 h
  rw [g5 i]
  apply sumTo_congr
  intro a ha
  obtain ⟨hp, hh, hv, hl⟩ := hm a ha
  exact (D_exact_masked f a 0 i P (P1 a) (P2 a) hs (hq a ha) hp hh (by rw [hi.1]; exact ha) (hi.2 a ha) hv hl).2

/-- **Laplacian is exact at every cell with long enough runs** (vector field), any mask -/
theorem laplace_exact_quadratic_vector_masked (f g : Fld) (vs : List String)
    (P : Nat → (Nat → Rat) → Rat) (P1 P2 : Nat → Nat → (Nat → Rat) → Rat)
    (hdims : DimsOk f) (hn : f.nvdim ≠ 1) (hv : f.vdims = some vs) (hvl : vs.length = f.nvdim)
    (hvd : hasDup vs = false)
    (hs : ∀ c, c < f.nvdim → SampledFrom f c (P c) ∧ ∀ a, a < f.mesh.ndim → QuadAlong (P c) a (P1 c a) (P2 c a))
    (h : laplace f = .ok g) (i : List Nat) (hi : InMesh f i) (hm : ExactAt f i) :
    ∀ c, c < f.nvdim → (g.data.get i).getD c 0 = sumTo f.mesh.ndim fun a => P2 c a (coords f i) := by
  obtain ⟨_, _, _, g5⟩ := laplace_eq_vector f g vs hdims hn hv hvl hvd h
  intro c hc
  rw [g5 i c hc]
  apply sumTo_congr
  intro a ha
  obtain ⟨hp, hh, hv', hl⟩ := hm a ha
  exact (D_exact_masked f a c i (P c) (P1 c a) (P2 c a) (hs c hc).1 ((hs c hc).2 a ha) hp hh
    (by rw [hi.1]; exact ha) (hi.2 a ha) hv' hl).2

/-! ## 5. Derivatives along different axes commute; curl grad = 0, div curl = 0 -/

/-- **Derivatives along different axes commute** on a fully valid mesh (any orders 1/2,
open or periodic directions, any cell sizes): `∂_a^{oa}(∂_b^{ob} f) = ∂_b^{ob}(∂_a^{oa} f)`
at every cell — they act on different index positions. -/
theorem diff_comm (f ga gb : Fld) (a b oa ob c : Nat) (i : List Nat) (hf : FullyValid f) (hab : a ≠ b)
    (ha : C04.diff f a oa true = .ok ga) (hb : C04.diff f b ob true = .ok gb) (hc : c < f.nvdim)
    (hia : i.getD a 0 < f.mesh.nAt a) (hib : i.getD b 0 < f.mesh.nAt b) :
    D gb a oa c i = D ga b ob c i := by
  obtain ⟨a1, _, a3, _, _, _, a7, _⟩ := diff_ok ha
  obtain ⟨b1, _, b3, _, _, _, b7, _⟩ := diff_ok hb
  have side : ∀ (g : Fld) (p q op oq : Nat), p ≠ q → (op = 1 ∨ op = 2) → (oq = 1 ∨ oq = 2) →
      g.mesh = f.mesh → g.valid = f.valid →
      (∀ i', (g.data.get i').getD c 0 = D f q oq c i') →
      i.getD p 0 < f.mesh.nAt p → i.getD q 0 < f.mesh.nAt q →
      D g p op c i = lineD (periodic f p) op (f.mesh.cellAt p) (f.mesh.nAt p)
        (fun k => lineD (periodic f q) oq (f.mesh.cellAt q) (f.mesh.nAt q)
          (fun l => (f.data.get (setAt (setAt i p k) q l)).getD c 0) (i.getD q 0)) (i.getD p 0) := by
    intro g p q op oq hpq hop hoq hm hv hdata hip hiq
    rw [D_all_valid g p op c i hop (fun j _ => by unfold NDA.line; rw [hv]; exact hf _) (by rw [hm]; exact hip)]
    unfold periodic
    rw [hm]
    apply lineD_congr
    intro k
    unfold NDA.line
    rw [hdata, D_all_valid f q oq c _ hoq (fun j _ => hf _)
      (by rw [getD_setAt_ne _ _ _ _ _ (Ne.symm hpq)]; exact hiq), getD_setAt_ne _ _ _ _ _ (Ne.symm hpq)]
    rfl
  rw [side gb a b oa ob hab a7 b7 b1 b3 (fun i' => diff_data hb i' c hc) hia hib,
      side ga b a ob oa (Ne.symm hab) b7 a7 a1 a3 (fun i' => diff_data ha i' c hc) hib hia,
      lineD_comm]
  apply lineD_congr
  intro l
  apply lineD_congr
  intro k
  rw [setAt_comm _ _ _ _ _ hab]

/-- **curl(grad f) = 0**, exactly, at every cell of every fully valid 3-d mesh — any cell
counts (also 1 or 2 per axis), any anisotropic cell sizes, open and periodic directions in
any combination: the two mixed second differences that make up each component are the
same number because stencils along different axes commute. -/
theorem curl_grad_zero (f g r : Fld) (hdims : DimsOk f) (hp : Plain f) (hnd : f.mesh.ndim = 3)
    (hval : FullyValid f) (hg : grad f = .ok g) (hr : curl g = .ok r) :
    ∀ i, InMesh f i → ∀ k, k < 3 → (r.data.get i).getD k 0 = 0 := by
  obtain ⟨x, y, z, hxyz, hxy, hxz, hyz⟩ := dims3 f hdims hnd
  obtain ⟨_, g2, g3, g4, g5⟩ := grad_eq f g hdims hg
  have hl2 : 2 ≤ f.mesh.region.dims.length := by rw [hxyz]; simp
  obtain ⟨m1, m2⟩ := grad_meta f g hp hl2 hg
  rw [g2, hnd] at m1 m2
  rw [posVdims3] at m1
  rw [posVmap3 g.mesh x y z (by rw [g3]; exact hxyz) (by rw [g3]; exact hnd)] at m2
  have hgd : DimsOk g := by unfold DimsOk; rw [g3]; exact hdims
  obtain ⟨r1, r2, r3⟩ := rDimLast_pos g x y z hxy hxz hyz m2
  have hρ : ∀ d, d < 3 → (fun d => d) d < 3 ∧
      rDimLast g (g.mesh.region.dims.getD d "") = some (["x", "y", "z"].getD ((fun d => d) d) "") := by
    intro d hd
    rw [g3, hxyz]
    refine ⟨hd, ?_⟩
    match d, hd with
    | 0, _ => exact r1
    | 1, _ => exact r2
    | 2, _ => exact r3
  obtain ⟨_, _, _, _, _, c6⟩ := curl_eq g r ["x", "y", "z"] (fun d => d) hgd m1 (by rw [g2, hnd]; rfl) (by decide) hρ hr
  have hgv : FullyValid g := fun i => by rw [g4 i]; exact hval i
  intro i hi k hk
  obtain ⟨_, hin⟩ := hi
  have i0 := hin 0 (by omega)
  have i1 := hin 1 (by omega)
  have i2 := hin 2 (by omega)
  have dd : ∀ a b, a < 3 → b < 3 → a ≠ b → i.getD a 0 < f.mesh.nAt a → i.getD b 0 < f.mesh.nAt b →
      D g a 1 b i = DD f a b 0 i := by
    intro a b _ hb hab ha' hb'
    exact D_of_D f g a b 0 b i hval hgv g3 (fun i' => g5 i' b (by omega)) hab ha' hb'
  obtain ⟨e0, e1, e2⟩ := c6 i
  match k, hk with
  | 0, _ => rw [e0, dd 1 2 (by omega) (by omega) (by omega) i1 i2, dd 2 1 (by omega) (by omega) (by omega) i2 i1,
              DD_comm f 1 2 0 i (by omega)]; ring
  | 1, _ => rw [e1, dd 2 0 (by omega) (by omega) (by omega) i2 i0, dd 0 2 (by omega) (by omega) (by omega) i0 i2,
              DD_comm f 2 0 0 i (by omega)]; ring
  | 2, _ => rw [e2, dd 0 1 (by omega) (by omega) (by omega) i0 i1, dd 1 0 (by omega) (by omega) (by omega) i1 i0,
              DD_comm f 0 1 0 i (by omega)]; ring

/-- `curl` accepts the gradient of every plain scalar field on a 3-d mesh with well-formed
axis names: the hypotheses `hg`, `hr` of `curl_grad_zero` are met by every such field. -/
theorem curl_grad_defined (f : Fld) (hdims : DimsOk f) (hp : Plain f) (hnd : f.mesh.ndim = 3) :
    ∃ g r, grad f = .ok g ∧ curl g = .ok r := by
  obtain ⟨g, hg⟩ := grad_accepts f hp hdims (by omega)
  obtain ⟨x, y, z, hxyz, hxy, hxz, hyz⟩ := dims3 f hdims hnd
  obtain ⟨_, g2, g3, _, _⟩ := grad_eq f g hdims hg
  have hl2 : 2 ≤ f.mesh.region.dims.length := by rw [hxyz]; simp
  obtain ⟨m1, m2⟩ := grad_meta f g hp hl2 hg
  rw [g2, hnd] at m1 m2
  rw [posVdims3] at m1
  rw [posVmap3 g.mesh x y z (by rw [g3]; exact hxyz) (by rw [g3]; exact hnd)] at m2
  have hgd : DimsOk g := by unfold DimsOk; rw [g3]; exact hdims
  obtain ⟨r1, r2, r3⟩ := rDimLast_pos g x y z hxy hxz hyz m2
  have hgx : g.mesh.region.dims = [x, y, z] := by rw [g3]; exact hxyz
  obtain ⟨r, hr⟩ := curl_accepts g ["x", "y", "z"] (fun d => d) (fun d => d) hgd (by rw [g2, hnd]) (by rw [g3]; exact hnd)
    m1 (by rw [g2, hnd]; rfl) (by decide)
    (by
      intro c hc
      rw [hgx, m2]
      refine ⟨hc, ?_⟩
      match c, hc with
      | 0, _ => rfl
      | 1, _ => rfl
      | 2, _ => rfl)
    (by
      intro d hd
      rw [hgx]
      refine ⟨hd, ?_⟩
      match d, hd with
      | 0, _ => exact r1
      | 1, _ => exact r2
      | 2, _ => exact r3)
  exact ⟨g, r, hg, hr⟩

/-- **div(curl v) = 0**, exactly, at every cell of every fully valid 3-d mesh, for every
one-to-one pairing of the three stored components with the three axes (`ρ`), open and
periodic directions alike. -/
theorem div_curl_zero (v c d : Fld) (vs : List String) (ρ : Nat → Nat) (hdims : DimsOk v)
    (hv : v.vdims = some vs) (hvl : vs.length = v.nvdim) (hvd : hasDup vs = false)
    (hρ : ∀ a, a < 3 → ρ a < 3 ∧ rDimLast v (v.mesh.region.dims.getD a "") = some (vs.getD (ρ a) ""))
    (hval : FullyValid v) (hc : curl v = .ok c) (hd : div c = .ok d) :
    ∀ i, InMesh v i → (d.data.get i).getD 0 0 = 0 := by
  obtain ⟨_, hnd, c3, c4, c5, c6⟩ := curl_eq v c vs ρ hdims hv hvl hvd hρ hc
  obtain ⟨x, y, z, hxyz, hxy, hxz, hyz⟩ := dims3 v hdims hnd
  obtain ⟨m1, m2⟩ := curl_meta v c hc
  rw [posVdims3] at m1
  rw [posVmap3 v.mesh x y z hxyz (by unfold Mesh.ndim at hnd; exact hnd)] at m2
  have hcd : DimsOk c := by unfold DimsOk; rw [c4]; exact hdims
  have hσ : ∀ k, k < c.nvdim → (fun k => k) k < c.mesh.ndim ∧
      Fld.lookup c.vmap (["x", "y", "z"].getD k "") = some (c.mesh.region.dims.getD ((fun k => k) k) "") := by
    intro k hk
    rw [c3] at hk
    rw [c4, hnd, hxyz, m2]
    refine ⟨hk, ?_⟩
    match k, hk with
    | 0, _ => rfl
    | 1, _ => rfl
    | 2, _ => rfl
  obtain ⟨_, _, _, _, d5⟩ := div_eq c d ["x", "y", "z"] (fun k => k) hcd m1 (by rw [c3]; rfl) (by decide) hσ hd
  have hcv : FullyValid c := fun i => by rw [c5 i]; exact hval i
  intro i hi
  obtain ⟨_, hin⟩ := hi
  have i0 := hin 0 (by omega)
  have i1 := hin 1 (by omega)
  have i2 := hin 2 (by omega)
  rw [d5 i, c3]
  simp only [sumTo]
  rw [D_of_sub v c 0 1 (ρ 2) 2 (ρ 1) 0 i hval hcv c4 (fun i' => (c6 i').1) (by omega) (by omega) i0 i1 i2,
      D_of_sub v c 1 2 (ρ 0) 0 (ρ 2) 1 i hval hcv c4 (fun i' => (c6 i').2.1) (by omega) (by omega) i1 i2 i0,
      D_of_sub v c 2 0 (ρ 1) 1 (ρ 0) 2 i hval hcv c4 (fun i' => (c6 i').2.2) (by omega) (by omega) i2 i0 i1,
      DD_comm v 0 1 (ρ 2) i (by omega), DD_comm v 0 2 (ρ 1) i (by omega), DD_comm v 1 2 (ρ 0) i (by omega)]
  ring

/-- `div` accepts the curl of every field `curl` accepts -/
theorem div_curl_defined (v c : Fld) (hdims : DimsOk v) (hc : curl v = .ok c) : ∃ d, div c = .ok d := by
  obtain ⟨hn, hnd, vs, hv, _, _⟩ := curl_accepts_only v c hc
  obtain ⟨m1, m2⟩ := curl_meta v c hc
  obtain ⟨x, y, z, hxyz, _, _, _⟩ := dims3 v hdims hnd
  rw [posVdims3] at m1
  rw [posVmap3 v.mesh x y z hxyz (by unfold Mesh.ndim at hnd; exact hnd)] at m2
  -- mesh and component count of the curl
  have hmesh : c.mesh = v.mesh ∧ c.nvdim = 3 := by
    unfold curl at hc
    split at hc
    · cases hc
    · split at hc
      · cases hc
      · split at hc
        · cases hc
        · split at hc
          · split at hc
            · cases hc
            · rename_i cx hcx
              split at hc
              · cases hc
              · rename_i cy hcy
                split at hc
                · cases hc
                · rename_i cz hcz
                  split at hc
                  · cases hc
                  · rename_i cxy hcxy
                    obtain ⟨u1, _, u2, _⟩ := lshift_ok hcxy
                    obtain ⟨w1, _, w2, _⟩ := lshift_ok hc
                    have px := curlComp_plain hcx
                    have py := curlComp_plain hcy
                    have pz := curlComp_plain hcz
                    refine ⟨?_, by rw [w2, u2, px.1, py.1, pz.1]⟩
                    rw [w1, u1]
                    -- mesh of a curl component
                    unfold curlComp compOfDim at hcx
                    split at hcx
                    · cases hcx
                    · rename_i k1 hk1
                      split at hcx
                      · cases hcx
                      · rename_i t1 ht1
                        split at hcx
                        · cases hcx
                        · split at hcx
                          · cases hcx
                          · have e1 := (binop_ok hcx).1
                            have e2 : t1.mesh = k1.mesh := by
                              unfold diffDim at ht1
                              split at ht1
                              · cases ht1
                              · split at ht1
                                · cases ht1
                                · exact (diff_ok ht1).1
                            have e3 : k1.mesh = v.mesh := by
                              cases hq : rDimLast v _ with
                              | none => rw [hq] at hk1; cases hk1
                              | some l =>
                                rw [hq] at hk1
                                cases hk : v.vdimIndex l with
                                | none => simp only [getComp, hk] at hk1; cases hk1
                                | some k => exact (getComp_ok hk hk1).1
                            rw [e1, e2, e3]
          · cases hc
  obtain ⟨c4, c3⟩ := hmesh
  have hcd : DimsOk c := by unfold DimsOk; rw [c4]; exact hdims
  exact div_accepts c ["x", "y", "z"] (fun k => k) hcd (by rw [c3, c4, hnd]) (by rw [c3]; omega) m1 (by rw [c3]; rfl) (by decide)
    (by
      intro k hk
      rw [c3] at hk
      rw [c4, hnd, hxyz, m2]
      refine ⟨hk, ?_⟩
      match k, hk with
      | 0, _ => rfl
      | 1, _ => rfl
      | 2, _ => rfl)


/-! ## 6. Reversal of a run (what quarter-turn rotations do to a line) -/

/-- reversing a run negates the first-derivative stencil (and mirrors the position) -/
theorem d1_reverse (h : Rat) (L : Nat) (g : Nat → Rat) (i : Nat) (hi : i < L) :
    d1At h L (fun k => g (L - 1 - k)) i = - d1At h L g (L - 1 - i) := d1At_reverse h L g i hi

/-- reversing a run mirrors the second-derivative stencil -/
theorem d2_reverse (h : Rat) (L : Nat) (g : Nat → Rat) (i : Nat) (hi : i < L) :
    d2At h L (fun k => g (L - 1 - k)) i = d2At h L g (L - 1 - i) := d2At_reverse h L g i hi

/-! ## 7. Commutation with quarter turns of the field (`Field.rotate90`)

`rot90Fld` models `Field.rotate90(ax1, ax2)` about the region centre (mesh geometry through
`Region.rotate90` / `Mesh.rotate90` including the exchange of the two axis names in `bc`,
`np.rot90` of values and validity, exact quarter-turn matrix on the two in-plane components
found through `_r_dim_mapping`); it is tied to the code by the correspondence run like the
operators.  `*_rot90_quarter` are the theorems for ONE quarter turn; they hold for EVERY validity
mask (a quarter turn maps every grid line — values and validity flags — onto a grid line of the
turned field, reversed for one of the two axes of the plane, and `C04.line_reverse` /
`C04.ring_reverse` show that the per-run stencils commute with the reversal), every combination
of open and periodic axes in the plane (`TurnWf`: single-character axis names, or axes that are
periodic alike) and every mapping.  `*_rot90_iter` lift them to any number `n` of successive
quarter turns by induction over `n` (the hypotheses are preserved by a turn: `meshWf_rot`,
`turnWf_rot`, `vecMeta_rot` in `Lemmas/C05Iter.lean`), and `*_rot90_all_k` to
`Field.rotate90(ax1, ax2, k)` for every integer `k` on the code-shaped one-go model `rot90FldK`
(`rotate90_k_refines_turns_scalar/vector`: the one-go turn cannot be told apart from 0, 1 or 2
quarter turns or one quarter turn in the plane named the other way round; `*_congr`: the operators
read nothing but the cells). -/

/-- **The scalar Laplacian commutes with a quarter turn** (one quarter turn about the region
centre; EVERY validity mask; any combination of open and periodic axes in the plane, `TurnWf`).
`laplace(rotate90(f)) = rotate90(laplace(f))` at every cell. -/
theorem laplace_rot90_quarter (f R L LR RL : Fld) (a b : Nat) (wf : MeshWf f) (hn : f.nvdim = 1)
    (hvs : f.valid.shape = f.mesh.n) (ha : a < f.mesh.ndim) (hb : b < f.mesh.ndim) (hab : a ≠ b)
    (tw : TurnWf f a b)
    (hR : rot90Fld f (f.mesh.region.dims.getD a "") (f.mesh.region.dims.getD b "") = .ok R)
    (hL : laplace f = .ok L) (hLR : laplace R = .ok LR)
    (hRL : rot90Fld L (L.mesh.region.dims.getD a "") (L.mesh.region.dims.getD b "") = .ok RL) :
    ∀ i, InMesh R i → (LR.data.get i).getD 0 0 = (RL.data.get i).getD 0 0 := by
  obtain ⟨hr, hRd, _⟩ := rot90Fld_scalar f R a b wf tw hn ha hb hab hR
  have hvalid := rot90Fld_valid f R a b wf.dims hvs ha hb hR
  obtain ⟨l1, l2, l3, l4⟩ := laplace_eq_scalar f L wf.dims hn hL
  have hRdims : DimsOk R := by unfold DimsOk; rw [hr.dims, hr.ndim]; exact wf.dims
  obtain ⟨r1, r2, r3, r4⟩ := laplace_eq_scalar R LR hRdims (by rw [hr.nvdim, hn]) hLR
  have hRLd := rot90Fld_scalar_data L RL a b (by unfold DimsOk; rw [l2]; exact wf.dims)
    (by rw [laplace_scalar_shape hn hL, l2]; exact wf.data_shape) l1 (by rw [l2]; exact ha) (by rw [l2]; exact hb) hRL
  intro i hi
  obtain ⟨hlen, hin⟩ := hi
  rw [hr.ndim] at hlen hin
  rw [r4 i, hRLd i, rotIdx_congr f L a b i l2, l4, hr.ndim]
  have hdata : ∀ i', (R.data.get i').getD 0 0 = 1 * (f.data.get (rotIdx f a b i')).getD 0 0 := by
    intro i'; rw [hRd i']; ring
  have ia := hin a ha
  have ib := hin b hb
  rw [hr.n_a] at ia
  rw [hr.n_b] at ib
  rw [← sumTo_swap f.mesh.ndim a b ha hb hab (fun e => D f e 2 0 (rotIdx f a b i))]
  apply sumTo_congr
  intro e he
  by_cases hea : e = a
  · subst hea
    simp only [if_true]
    rw [D_rot_a f R e b 0 0 2 1 i hr hab (by rw [hlen]; exact ha) (by rw [hlen]; exact hb) ia hdata hvalid]
    simp [revSign]
  · by_cases heb : e = b
    · subst heb
      simp only [hea, if_false, if_true]
      rw [D_rot_b f R a e 0 0 2 1 i hr hab (by rw [hlen]; exact ha) (by rw [hlen]; exact hb) hdata hvalid]
      ring
    · simp only [hea, heb, if_false]
      have ie := hin e he
      rw [hr.n_e e hea heb] at ie
      rw [D_rot_e f R a b e 0 0 2 1 i hr he hea heb hdata hvalid]
      ring

/-- **The gradient commutes with a quarter turn** (plain scalar field, EVERY mesh dimension ≥ 2, every
validity mask, any combination of open and periodic axes in the plane): turning the field and
differentiating gives, at every cell and for every component, the same number as differentiating
and then turning the vector field (whose in-plane components are exchanged with the sign of the
quarter turn). -/
theorem grad_rot90_quarter (f R G GR RG : Fld) (a b : Nat) (wf : MeshWf f) (hp : Plain f)
    (hvs : f.valid.shape = f.mesh.n) (ha : a < f.mesh.ndim) (hb : b < f.mesh.ndim) (hab : a ≠ b)
    (tw : TurnWf f a b)
    (hR : rot90Fld f (f.mesh.region.dims.getD a "") (f.mesh.region.dims.getD b "") = .ok R)
    (hG : grad f = .ok G) (hGR : grad R = .ok GR)
    (hRG : rot90Fld G (G.mesh.region.dims.getD a "") (G.mesh.region.dims.getD b "") = .ok RG) :
    ∀ i, InMesh R i → ∀ e, e < f.mesh.ndim → (GR.data.get i).getD e 0 = (RG.data.get i).getD e 0 := by
  have hn2 : 2 ≤ f.mesh.ndim := by omega
  obtain ⟨hr, hRd, _⟩ := rot90Fld_scalar f R a b wf tw hp.1 ha hb hab hR
  have hvalid := rot90Fld_valid f R a b wf.dims hvs ha hb hR
  obtain ⟨_, g2, g3, _, g5⟩ := grad_eq f G wf.dims hG
  have hl2 : 2 ≤ f.mesh.region.dims.length := by rw [wf.dims.1]; exact hn2
  obtain ⟨m1, m2⟩ := grad_meta f G hp hl2 hG
  obtain ⟨labels, hlab, hlen, hnd⟩ := posVdims_nodup f.mesh.ndim hn2
  rw [g2] at m1 m2
  rw [hlab] at m1
  have hvm : G.vmap = List.zip labels G.mesh.region.dims := by
    rw [m2]
    unfold posVmap
    have h1 : ¬ (f.mesh.ndim = 1) := by omega
    have h2' : f.mesh.ndim = G.mesh.region.ndim := by rw [g3]; rfl
    simp only [h1, if_false, h2', if_true]
    have : Fld.defaultVdims G.mesh.region.ndim = some labels := by rw [← h2']; exact hlab
    rw [this]
    have h1' : ¬ (G.mesh.region.ndim = 1) := by rw [← h2']; exact h1
    simp only [h1', if_false]
  have hGd : DimsOk G := by unfold DimsOk; rw [g3]; exact wf.dims
  have hpair : ∀ x, x < f.mesh.ndim → (rDimLast G (G.mesh.region.dims.getD x "")).bind G.vdimIndex = some x :=
    fun x hx => pos_pairing G labels m1 hvm hnd hGd.2 (by rw [hlen, hGd.1, g3]) x (by rw [hlen]; exact hx)
  have hRGd := rot90Fld_vector_data G RG a b a b hGd (by rw [grad_shape hG, g3]; exact wf.data_shape)
    (by rw [g2]; omega) (by rw [g3]; exact ha) (by rw [g3]; exact hb) (hpair a ha) (hpair b hb) hRG
  have hRdims : DimsOk R := by unfold DimsOk; rw [hr.dims, hr.ndim]; exact wf.dims
  obtain ⟨_, _, _, _, r5⟩ := grad_eq R GR hRdims hGR
  have hlenG := grad_len hl2 hG
  intro i hi e he
  obtain ⟨hlen', hin⟩ := hi
  rw [hr.ndim] at hlen' hin
  have hdata : ∀ i', (R.data.get i').getD 0 0 = 1 * (f.data.get (rotIdx f a b i')).getD 0 0 := by
    intro i'; rw [hRd i']; ring
  have ia := hin a ha
  have ib := hin b hb
  rw [hr.n_a] at ia
  rw [hr.n_b] at ib
  rw [r5 i e (by rw [hr.ndim]; exact he), hRGd i, rotIdx_congr f G a b i g3,
    turnVec_getD _ a b e hab (by rw [hlenG, g2]; exact ha) (by rw [hlenG, g2]; exact hb)]
  by_cases hea : e = a
  · subst hea
    simp only [if_true]
    rw [D_rot_a f R e b 0 0 1 1 i hr hab (by rw [hlen']; exact ha) (by rw [hlen']; exact hb) ia hdata hvalid,
      g5 _ b hb]
    simp [revSign]
  · by_cases heb : e = b
    · subst heb
      simp only [hea, if_false, if_true]
      rw [D_rot_b f R a e 0 0 1 1 i hr hab (by rw [hlen']; exact ha) (by rw [hlen']; exact hb) hdata hvalid,
        g5 _ a ha]
      ring
    · simp only [hea, heb, if_false]
      have ie := hin e he
      rw [hr.n_e e hea heb] at ie
      rw [D_rot_e f R a b e 0 0 1 1 i hr he hea heb hdata hvalid, g5 _ e he]
      ring

/-- **The divergence commutes with a quarter turn** (vector field with `nvdim = ndim` whose mapping
pairs the components one-to-one with the axes; every validity mask; any combination of open and
periodic axes in the plane).  `v1`, `v2` are the stored components paired with the axes `a`, `b`
of the plane; the turn replaces them by `(-v2, v1)`, and `div(rotate90(v)) = rotate90(div(v))` at
every cell. -/
theorem div_rot90_quarter (f R Dv DR RD : Fld) (a b v1 v2 : Nat) (vs : List String) (σ : Nat → Nat)
    (wf : MeshWf f) (hvs : f.valid.shape = f.mesh.n) (ha : a < f.mesh.ndim) (hb : b < f.mesh.ndim) (hab : a ≠ b)
    (tw : TurnWf f a b) (hn : 1 < f.nvdim)
    (hv : f.vdims = some vs) (hvl : vs.length = f.nvdim) (hvd : hasDup vs = false)
    (hraw : ∀ i, (f.data.get i).length = f.nvdim)
    (hσ : ∀ c, c < f.nvdim → σ c < f.mesh.ndim ∧
      Fld.lookup f.vmap (vs.getD c "") = some (f.mesh.region.dims.getD (σ c) ""))
    (h1 : (rDimLast f (f.mesh.region.dims.getD a "")).bind f.vdimIndex = some v1)
    (h2 : (rDimLast f (f.mesh.region.dims.getD b "")).bind f.vdimIndex = some v2)
    (hv1 : v1 < f.nvdim) (hv2 : v2 < f.nvdim) (hs1 : σ v1 = a) (hs2 : σ v2 = b)
    (hoth : ∀ c, c < f.nvdim → c ≠ v1 → c ≠ v2 → σ c ≠ a ∧ σ c ≠ b)
    (hR : rot90Fld f (f.mesh.region.dims.getD a "") (f.mesh.region.dims.getD b "") = .ok R)
    (hD : div f = .ok Dv) (hDR : div R = .ok DR)
    (hRD : rot90Fld Dv (Dv.mesh.region.dims.getD a "") (Dv.mesh.region.dims.getD b "") = .ok RD) :
    ∀ i, InMesh R i → (DR.data.get i).getD 0 0 = (RD.data.get i).getD 0 0 := by
  have h12 : v1 ≠ v2 := by intro he; rw [he, hs2] at hs1; exact hab hs1.symm
  have hmap : 0 < f.vmap.length := by
    have := (hσ v1 hv1).2
    cases hq : f.vmap with
    | nil => rw [hq] at this; simp [Fld.lookup] at this
    | cons _ _ => simp
  obtain ⟨q1, q2, q3, q4, q5⟩ := rot90Fld_vector_meta f R a b vs wf.dims hn hv hvl ha hb hmap hR
  have hr := isRot90_of_mesh f R a b wf tw ha hb hab q5 q4 q3
  have hvalid := rot90Fld_valid f R a b wf.dims hvs ha hb hR
  have hRd := rot90Fld_vector_data f R a b v1 v2 wf.dims wf.data_shape hn ha hb h1 h2 hR
  obtain ⟨_, d2, d3, _, d5⟩ := div_eq f Dv vs σ wf.dims hv hvl hvd hσ hD
  have hRdims : DimsOk R := by unfold DimsOk; rw [hr.dims, hr.ndim]; exact wf.dims
  have hσR : ∀ c, c < R.nvdim → σ c < R.mesh.ndim ∧
      Fld.lookup R.vmap (vs.getD c "") = some (R.mesh.region.dims.getD (σ c) "") := by
    intro c hc
    rw [q3] at hc
    rw [hr.ndim, q2, hr.dims]
    exact hσ c hc
  obtain ⟨_, _, _, _, r5⟩ := div_eq R DR vs σ hRdims q1 (by rw [hvl, q3]) hvd hσR hDR
  have hRDd := rot90Fld_scalar_data Dv RD a b (by unfold DimsOk; rw [d3]; exact wf.dims)
    (by rw [div_shape hD, d3]; exact wf.data_shape) d2 (by rw [d3]; exact ha) (by rw [d3]; exact hb) hRD
  intro i hi
  obtain ⟨hlen, hin⟩ := hi
  rw [hr.ndim] at hlen hin
  have ia := hin a ha
  have ib := hin b hb
  rw [hr.n_a] at ia
  rw [hr.n_b] at ib
  -- components of the turned field
  have hcomp : ∀ c i', (R.data.get i').getD c 0
      = if c = v1 then -((f.data.get (rotIdx f a b i')).getD v2 0)
        else if c = v2 then (f.data.get (rotIdx f a b i')).getD v1 0 else (f.data.get (rotIdx f a b i')).getD c 0 := by
    intro c i'
    rw [hRd i', turnVec_getD _ v1 v2 c h12 (by rw [hraw]; exact hv1) (by rw [hraw]; exact hv2)]
  rw [r5 i, hRDd i, rotIdx_congr f Dv a b i d3, d5, q3]
  rw [← sumTo_swap f.nvdim v1 v2 hv1 hv2 h12 (fun c => D f (σ c) 1 c (rotIdx f a b i))]
  apply sumTo_congr
  intro c hc
  by_cases hc1 : c = v1
  · subst hc1
    simp only [if_true]
    rw [hs1, hs2]
    rw [D_rot_a f R a b c v2 1 (-1) i hr hab (by rw [hlen]; exact ha) (by rw [hlen]; exact hb) ia
      (fun i' => by rw [hcomp c i']; simp) hvalid]
    simp [revSign]
  · by_cases hc2 : c = v2
    · subst hc2
      simp only [hc1, if_false, if_true]
      rw [hs1, hs2]
      rw [D_rot_b f R a b c v1 1 1 i hr hab (by rw [hlen]; exact ha) (by rw [hlen]; exact hb)
        (fun i' => by rw [hcomp c i']; simp [hc1]) hvalid]
      ring
    · simp only [hc1, hc2, if_false]
      obtain ⟨hea, heb⟩ := hoth c hc hc1 hc2
      have ie := hin (σ c) (hσ c hc).1
      rw [hr.n_e _ hea heb] at ie
      rw [D_rot_e f R a b (σ c) c c 1 1 i hr (hσ c hc).1 hea heb
        (fun i' => by rw [hcomp c i']; simp [hc1, hc2]) hvalid]
      ring

/-- **The curl commutes with a quarter turn** (field whose three stored components are paired
one-to-one with the three axes (`ρ`); every validity mask; any combination of open and periodic
axes in the plane).  `curl(rotate90(v)) = rotate90(curl(v))`, component by component at every
cell, for each of the six ordered pairs of axes. -/
theorem curl_rot90_quarter (f R C CR RC : Fld) (a b : Nat) (vs : List String) (ρ : Nat → Nat)
    (wf : MeshWf f) (hvs : f.valid.shape = f.mesh.n) (ha : a < 3) (hb : b < 3) (hab : a ≠ b)
    (tw : TurnWf f a b)
    (hv : f.vdims = some vs) (hvl : vs.length = f.nvdim) (hvd : hasDup vs = false)
    (hraw : ∀ i, (f.data.get i).length = f.nvdim) (hmap : 0 < f.vmap.length)
    (hρ : ∀ d, d < 3 → ρ d < 3 ∧ rDimLast f (f.mesh.region.dims.getD d "") = some (vs.getD (ρ d) ""))
    (hinj : ρ 0 ≠ ρ 1 ∧ ρ 0 ≠ ρ 2 ∧ ρ 1 ≠ ρ 2)
    (hR : rot90Fld f (f.mesh.region.dims.getD a "") (f.mesh.region.dims.getD b "") = .ok R)
    (hC : curl f = .ok C) (hCR : curl R = .ok CR)
    (hRC : rot90Fld C (C.mesh.region.dims.getD a "") (C.mesh.region.dims.getD b "") = .ok RC) :
    ∀ i, InMesh R i → ∀ k, k < 3 → (CR.data.get i).getD k 0 = (RC.data.get i).getD k 0 := by
  obtain ⟨hn3, hnd, c3, c4, _, c6⟩ := curl_eq f C vs ρ wf.dims hv hvl hvd hρ hC
  have ha' : a < f.mesh.ndim := by omega
  have hb' : b < f.mesh.ndim := by omega
  have hl : ∀ d, d < 3 → ρ d < vs.length := fun d hd => by rw [hvl, hn3]; exact (hρ d hd).1
  have hpair : ∀ d, d < 3 → (rDimLast f (f.mesh.region.dims.getD d "")).bind f.vdimIndex = some (ρ d) := by
    intro d hd
    rw [(hρ d hd).2]
    simp only [Option.bind_some]
    exact vdimIndex_getD f vs hv hvd (ρ d) (hl d hd)
  obtain ⟨q1, q2, q3, q4, q5⟩ := rot90Fld_vector_meta f R a b vs wf.dims (by omega) hv hvl ha' hb' hmap hR
  have hr := isRot90_of_mesh f R a b wf tw ha' hb' hab q5 q4 q3
  have hvalid := rot90Fld_valid f R a b wf.dims hvs ha' hb' hR
  have hRd := rot90Fld_vector_data f R a b (ρ a) (ρ b) wf.dims wf.data_shape (by omega) ha' hb' (hpair a ha) (hpair b hb) hR
  have hRdims : DimsOk R := by unfold DimsOk; rw [hr.dims, hr.ndim]; exact wf.dims
  have hρR : ∀ d, d < 3 → ρ d < 3 ∧ rDimLast R (R.mesh.region.dims.getD d "") = some (vs.getD (ρ d) "") := by
    intro d hd
    refine ⟨(hρ d hd).1, ?_⟩
    have := (hρ d hd).2
    unfold rDimLast at this ⊢
    rw [q2, hr.dims]; exact this
  obtain ⟨_, _, _, _, _, r6⟩ := curl_eq R CR vs ρ hRdims q1 (by rw [hvl, q3]) hvd hρR hCR
  -- the curl of f: positional labels and mapping, so the turn exchanges its components a and b
  obtain ⟨x, y, z, hxyz, _, _, _⟩ := dims3 f wf.dims hnd
  obtain ⟨m1, m2⟩ := curl_meta f C hC
  rw [posVdims3] at m1
  have hCd : DimsOk C := by unfold DimsOk; rw [c4]; exact wf.dims
  have hvm : C.vmap = List.zip ["x", "y", "z"] C.mesh.region.dims := by
    rw [m2, posVmap3 f.mesh x y z hxyz (by unfold Mesh.ndim at hnd; exact hnd), c4, hxyz]; rfl
  have hpairC : ∀ d, d < 3 → (rDimLast C (C.mesh.region.dims.getD d "")).bind C.vdimIndex = some d :=
    fun d hd => pos_pairing C ["x", "y", "z"] m1 hvm (by decide) hCd.2 (by rw [hCd.1, c4, hnd]; rfl) d hd
  obtain ⟨cs, clen⟩ := curl_shape_len hC
  have hRCd := rot90Fld_vector_data C RC a b a b hCd (by rw [cs, c4]; exact wf.data_shape) (by rw [c3]; omega)
    (by rw [c4]; exact ha') (by rw [c4]; exact hb') (hpairC a ha) (hpairC b hb) hRC
  intro i hi k hk
  obtain ⟨hlen, hin⟩ := hi
  rw [hr.ndim] at hlen hin
  have hra := (hρ a ha).1
  have hrb := (hρ b hb).1
  have hρab : ρ a ≠ ρ b := by
    obtain ⟨h01, h02, h12⟩ := hinj
    have : (a = 0 ∨ a = 1 ∨ a = 2) ∧ (b = 0 ∨ b = 1 ∨ b = 2) := by omega
    rcases this with ⟨rfl | rfl | rfl, rfl | rfl | rfl⟩ <;> first | exact absurd rfl hab | assumption | exact Ne.symm ‹_›
  have hcomp : ∀ c i', (R.data.get i').getD c 0
      = if c = ρ a then -((f.data.get (rotIdx f a b i')).getD (ρ b) 0)
        else if c = ρ b then (f.data.get (rotIdx f a b i')).getD (ρ a) 0 else (f.data.get (rotIdx f a b i')).getD c 0 := by
    intro c i'
    rw [hRd i', turnVec_getD _ (ρ a) (ρ b) c hρab (by rw [hraw, hn3]; exact hra) (by rw [hraw, hn3]; exact hrb)]
  -- derivative of component `c` of the turned field along axis `x`, in one formula
  have DR : ∀ x c, x < 3 → D R x 1 c i
      = (if x = a then -1 else 1) * (if c = ρ a then -1 else 1)
        * D f (if x = a then b else if x = b then a else x) 1
            (if c = ρ a then ρ b else if c = ρ b then ρ a else c) (rotIdx f a b i) := by
    intro x c hx
    have hdata : ∀ i', (R.data.get i').getD c 0 = (if c = ρ a then -1 else 1)
        * (f.data.get (rotIdx f a b i')).getD (if c = ρ a then ρ b else if c = ρ b then ρ a else c) 0 := by
      intro i'
      rw [hcomp c i']
      by_cases h1 : c = ρ a
      · simp [h1]
      · by_cases h2 : c = ρ b
        · subst h2; simp [Ne.symm hρab]
        · simp [h1, h2]
    have ia := hin a ha'
    have ib := hin b hb'
    rw [hr.n_a] at ia
    rw [hr.n_b] at ib
    by_cases hxa : x = a
    · subst hxa
      simp only [if_true]
      rw [D_rot_a f R x b c _ 1 _ i hr hab (by rw [hlen]; exact ha') (by rw [hlen]; exact hb') ia hdata hvalid]
      simp [revSign]
    · by_cases hxb : x = b
      · subst hxb
        simp only [hxa, if_false, if_true]
        rw [D_rot_b f R a x c _ 1 _ i hr hab (by rw [hlen]; exact ha') (by rw [hlen]; exact hb') hdata hvalid]
        ring
      · simp only [hxa, hxb, if_false]
        have ie := hin x (by omega)
        rw [hr.n_e x hxa hxb] at ie
        rw [D_rot_e f R a b x c _ 1 _ i hr (by omega) hxa hxb hdata hvalid]
        ring
  obtain ⟨e0, e1, e2⟩ := r6 i
  obtain ⟨f0, f1, f2⟩ := c6 (rotIdx f a b i)
  obtain ⟨h01, h02, h12⟩ := hinj
  have h10 := Ne.symm h01
  have h20 := Ne.symm h02
  have h21 := Ne.symm h12
  rw [hRCd i, rotIdx_congr f C a b i c4,
    turnVec_getD _ a b k hab (by rw [clen, c3]; exact ha) (by rw [clen, c3]; exact hb)]
  have hcases : (a = 0 ∧ b = 1) ∨ (a = 1 ∧ b = 0) ∨ (a = 0 ∧ b = 2) ∨ (a = 2 ∧ b = 0) ∨ (a = 1 ∧ b = 2) ∨ (a = 2 ∧ b = 1) := by
    omega
  have hk3 : k = 0 ∨ k = 1 ∨ k = 2 := by omega
  rcases hcases with ⟨rfl, rfl⟩ | ⟨rfl, rfl⟩ | ⟨rfl, rfl⟩ | ⟨rfl, rfl⟩ | ⟨rfl, rfl⟩ | ⟨rfl, rfl⟩ <;>
    rcases hk3 with rfl | rfl | rfl <;>
    simp only [e0, e1, e2, f0, f1, f2, DR _ _ (by omega : (0:Nat) < 3), DR _ _ (by omega : (1:Nat) < 3),
      DR _ _ (by omega : (2:Nat) < 3), h01, h02, h12, h10, h20, h21, if_true, if_false,
      show (0:Nat) ≠ 1 by omega, show (0:Nat) ≠ 2 by omega, show (1:Nat) ≠ 0 by omega, show (1:Nat) ≠ 2 by omega,
      show (2:Nat) ≠ 0 by omega, show (2:Nat) ≠ 1 by omega, ne_eq, not_false_eq_true, not_true_eq_false,
      OfNat.ofNat_ne_zero, OfNat.zero_ne_ofNat, OfNat.one_ne_ofNat, OfNat.ofNat_ne_one] <;>
    ring

/-- **The vector Laplacian commutes with a quarter turn** (field with at least two components
whose mapping pairs the axes `a`, `b` of the plane with the stored components `v1 ≠ v2`; any
mapping, positional or not — regression of finding D55; every validity mask; any combination of
open and periodic axes in the plane — regression of finding D56). -/
theorem laplace_rot90_vector_quarter (f R L LR RL : Fld) (a b v1 v2 : Nat) (vs : List String)
    (wf : MeshWf f) (tw : TurnWf f a b) (hvs : f.valid.shape = f.mesh.n) (ha : a < f.mesh.ndim) (hb : b < f.mesh.ndim)
    (hab : a ≠ b) (hn : 1 < f.nvdim)
    (hv : f.vdims = some vs) (hvl : vs.length = f.nvdim) (hvd : hasDup vs = false)
    (hraw : ∀ i, (f.data.get i).length = f.nvdim) (hmap : 0 < f.vmap.length)
    (h1 : (rDimLast f (f.mesh.region.dims.getD a "")).bind f.vdimIndex = some v1)
    (h2 : (rDimLast f (f.mesh.region.dims.getD b "")).bind f.vdimIndex = some v2)
    (hv1 : v1 < f.nvdim) (hv2 : v2 < f.nvdim) (h12 : v1 ≠ v2)
    (hR : rot90Fld f (f.mesh.region.dims.getD a "") (f.mesh.region.dims.getD b "") = .ok R)
    (hL : laplace f = .ok L) (hLR : laplace R = .ok LR)
    (hRL : rot90Fld L (L.mesh.region.dims.getD a "") (L.mesh.region.dims.getD b "") = .ok RL) :
    ∀ i, InMesh R i → ∀ c, c < f.nvdim → (LR.data.get i).getD c 0 = (RL.data.get i).getD c 0 := by
  obtain ⟨q1, q2, q3, q4, q5⟩ := rot90Fld_vector_meta f R a b vs wf.dims hn hv hvl ha hb hmap hR
  have hr := isRot90_of_mesh f R a b wf tw ha hb hab q5 q4 q3
  have hvalid := rot90Fld_valid f R a b wf.dims hvs ha hb hR
  have hRd := rot90Fld_vector_data f R a b v1 v2 wf.dims wf.data_shape hn ha hb h1 h2 hR
  have hn1 : f.nvdim ≠ 1 := by omega
  obtain ⟨l1, l2, _, l4⟩ := laplace_eq_vector f L vs wf.dims hn1 hv hvl hvd hL
  obtain ⟨k1, k2, k3, k4⟩ := laplace_keeps_meta f L vs hn1 hv hvl hL
  have hRdims : DimsOk R := by unfold DimsOk; rw [hr.dims, hr.ndim]; exact wf.dims
  obtain ⟨_, _, _, r4⟩ := laplace_eq_vector R LR vs hRdims (by rw [q3]; exact hn1) q1 (by rw [hvl, q3]) hvd hLR
  obtain ⟨ls, llen⟩ := laplace_vector_shape_len (by omega) hv hvl hL
  have hLd : DimsOk L := by unfold DimsOk; rw [l2]; exact wf.dims
  have hRLd := rot90Fld_vector_data L RL a b v1 v2 hLd (by rw [ls, l2]; exact wf.data_shape) (by rw [l1]; exact hn)
    (by rw [l2]; exact ha) (by rw [l2]; exact hb)
    (by rw [l2, k3]; simp only [Option.bind]; cases hq : rDimLast f (f.mesh.region.dims.getD a "") with
        | none => rw [hq] at h1; simp at h1
        | some l => rw [hq] at h1; simp only [Option.bind_some] at h1; simp only [k4]; exact h1)
    (by rw [l2, k3]; simp only [Option.bind]; cases hq : rDimLast f (f.mesh.region.dims.getD b "") with
        | none => rw [hq] at h2; simp at h2
        | some l => rw [hq] at h2; simp only [Option.bind_some] at h2; simp only [k4]; exact h2)
    hRL
  intro i hi c hc
  obtain ⟨hlen, hin⟩ := hi
  rw [hr.ndim] at hlen hin
  have ia := hin a ha
  have ib := hin b hb
  rw [hr.n_a] at ia
  rw [hr.n_b] at ib
  have hdata : ∀ i', (R.data.get i').getD c 0 = (if c = v1 then -1 else 1)
      * (f.data.get (rotIdx f a b i')).getD (if c = v1 then v2 else if c = v2 then v1 else c) 0 := by
    intro i'
    rw [hRd i', turnVec_getD _ v1 v2 c h12 (by rw [hraw]; exact hv1) (by rw [hraw]; exact hv2)]
    by_cases c1 : c = v1
    · simp [c1]
    · by_cases c2 : c = v2
      · subst c2; simp [c1]
      · simp [c1, c2]
  have hc' : (if c = v1 then v2 else if c = v2 then v1 else c) < f.nvdim := by
    by_cases c1 : c = v1
    · simp [c1]; exact hv2
    · by_cases c2 : c = v2
      · subst c2; simp [Ne.symm h12]; exact hv1
      · simp [c1, c2]; exact hc
  rw [r4 i c (by rw [q3]; exact hc), hRLd i, rotIdx_congr f L a b i l2,
    turnVec_getD _ v1 v2 c h12 (by rw [llen, l1]; exact hv1) (by rw [llen, l1]; exact hv2), hr.ndim]
  -- both sides are (sign) · Σ_e ∂²_e of the partner component at the cell the value came from
  have key : (sumTo f.mesh.ndim fun e => D R e 2 c i)
      = (if c = v1 then -1 else 1) * sumTo f.mesh.ndim (fun e => D f e 2 (if c = v1 then v2 else if c = v2 then v1 else c) (rotIdx f a b i)) := by
    rw [← sumTo_swap f.mesh.ndim a b ha hb hab (fun e => D f e 2 _ (rotIdx f a b i)), ← sumTo_mul_left]
    apply sumTo_congr
    intro e he
    by_cases hea : e = a
    · subst hea
      simp only [if_true]
      rw [D_rot_a f R e b c _ 2 _ i hr hab (by rw [hlen]; exact ha) (by rw [hlen]; exact hb) ia hdata hvalid]
      simp [revSign]
    · by_cases heb : e = b
      · subst heb
        simp only [hea, if_false, if_true]
        rw [D_rot_b f R a e c _ 2 _ i hr hab (by rw [hlen]; exact ha) (by rw [hlen]; exact hb) hdata hvalid]
      · simp only [hea, heb, if_false]
        have ie := hin e he
        rw [hr.n_e e hea heb] at ie
        rw [D_rot_e f R a b e c _ 2 _ i hr he hea heb hdata hvalid]
  rw [key]
  by_cases c1 : c = v1
  · simp only [c1, if_true]
    rw [l4 _ v2 hv2]; ring
  · by_cases c2 : c = v2
    · simp only [c1, c2, if_false, if_true]
      have : ¬ (v2 = v1) := Ne.symm h12
      simp only [this, if_false]
      rw [l4 _ v1 hv1]; ring
    · simp only [c1, c2, if_false]
      rw [l4 _ c hc]; ring

/-- the four fields `laplace_rot90_quarter` speaks about exist for every plain scalar field on a
well-formed mesh without subregions -/
theorem laplace_rot90_defined (f : Fld) (a b : Nat) (wf : MeshWf f) (tw : TurnWf f a b) (hsub : f.mesh.subs = []) (hp : Plain f)
    (ha : a < f.mesh.ndim) (hb : b < f.mesh.ndim) (hab : a ≠ b) :
    ∃ R L LR RL, rot90Fld f (f.mesh.region.dims.getD a "") (f.mesh.region.dims.getD b "") = .ok R ∧
      laplace f = .ok L ∧ laplace R = .ok LR ∧
      rot90Fld L (L.mesh.region.dims.getD a "") (L.mesh.region.dims.getD b "") = .ok RL := by
  obtain ⟨R, hR⟩ := rot90_accepts_plain f a b wf tw hsub hp ha hb hab
  obtain ⟨L, hL⟩ := laplace_accepts f wf.dims (by omega) (Or.inl hp)
  obtain ⟨hr, _, _⟩ := rot90Fld_scalar f R a b wf tw hp.1 ha hb hab hR
  have hRd : DimsOk R := by unfold DimsOk; rw [hr.dims, hr.ndim]; exact wf.dims
  obtain ⟨LR, hLR⟩ := laplace_accepts R hRd (by rw [hr.ndim]; omega) (Or.inl (rot90_plain hp hR))
  obtain ⟨_, l2, _, _⟩ := laplace_eq_scalar f L wf.dims hp.1 hL
  have wfL : MeshWf L := meshWf_of_mesh wf l2 (by rw [laplace_scalar_shape hp.1 hL, l2]; exact wf.data_shape)
  obtain ⟨RL, hRL⟩ := rot90_accepts_plain L a b wfL (turnWf_of_mesh tw l2) (by rw [l2]; exact hsub) (plain_of_laplace_scalar hp hL)
    (by rw [l2]; exact ha) (by rw [l2]; exact hb) hab
  exact ⟨R, L, LR, RL, hR, hL, hLR, hRL⟩

/-- … and likewise the four fields of `grad_rot90_quarter` -/
theorem grad_rot90_defined (f : Fld) (a b : Nat) (wf : MeshWf f) (tw : TurnWf f a b) (hsub : f.mesh.subs = []) (hp : Plain f)
    (ha : a < f.mesh.ndim) (hb : b < f.mesh.ndim) (hab : a ≠ b) :
    ∃ R G GR RG, rot90Fld f (f.mesh.region.dims.getD a "") (f.mesh.region.dims.getD b "") = .ok R ∧
      grad f = .ok G ∧ grad R = .ok GR ∧
      rot90Fld G (G.mesh.region.dims.getD a "") (G.mesh.region.dims.getD b "") = .ok RG := by
  have hn2 : 2 ≤ f.mesh.ndim := by omega
  obtain ⟨R, hR⟩ := rot90_accepts_plain f a b wf tw hsub hp ha hb hab
  obtain ⟨G, hG⟩ := grad_accepts f hp wf.dims (by omega)
  obtain ⟨hr, _, _⟩ := rot90Fld_scalar f R a b wf tw hp.1 ha hb hab hR
  have hRd : DimsOk R := by unfold DimsOk; rw [hr.dims, hr.ndim]; exact wf.dims
  obtain ⟨GR, hGR⟩ := grad_accepts R (rot90_plain hp hR) hRd (by rw [hr.ndim]; omega)
  obtain ⟨_, g2, g3, _, _⟩ := grad_eq f G wf.dims hG
  have hl2 : 2 ≤ f.mesh.region.dims.length := by rw [wf.dims.1]; exact hn2
  obtain ⟨m1, m2⟩ := grad_meta f G hp hl2 hG
  obtain ⟨labels, hlab, hlen, hnd⟩ := posVdims_nodup f.mesh.ndim hn2
  rw [g2] at m1 m2
  rw [hlab] at m1
  have hvm : G.vmap = List.zip labels G.mesh.region.dims := by
    rw [m2]
    unfold posVmap
    have h1 : ¬ (f.mesh.ndim = 1) := by omega
    have h2' : f.mesh.ndim = G.mesh.region.ndim := by rw [g3]; rfl
    simp only [h1, if_false, h2', if_true]
    have : Fld.defaultVdims G.mesh.region.ndim = some labels := by rw [← h2']; exact hlab
    rw [this]
    have h1' : ¬ (G.mesh.region.ndim = 1) := by rw [← h2']; exact h1
    simp only [h1', if_false]
  have hGd : DimsOk G := by unfold DimsOk; rw [g3]; exact wf.dims
  have hll : labels.length = G.mesh.region.dims.length := by rw [hlen, hGd.1, g3]
  have hpair : ∀ x, x < f.mesh.ndim → (rDimLast G (G.mesh.region.dims.getD x "")).bind G.vdimIndex = some x :=
    fun x hx => pos_pairing G labels m1 hvm hnd hGd.2 hll x (by rw [hlen]; exact hx)
  have wfG : MeshWf G := meshWf_of_mesh wf g3 (by rw [grad_shape hG, g3]; exact wf.data_shape)
  obtain ⟨RG, hRG⟩ := rot90_accepts_vector G a b a b labels wfG (turnWf_of_mesh tw g3) (by rw [g3]; exact hsub) (by rw [g2]; omega) m1
    (by rw [hlen, g2]) hnd
    (by rw [hvm, List.map_fst_zip (by omega)]; exact List.isPerm_iff.mpr (List.Perm.refl _))
    (by rw [hvm, List.length_zip]; omega)
    (by rw [g3]; exact ha) (by rw [g3]; exact hb) hab (hpair a ha) (hpair b hb)
  exact ⟨R, G, GR, RG, hR, hG, hGR, hRG⟩


/-- … and the four fields of `div_rot90_quarter`, for every well-formed vector field with
`nvdim = ndim` whose mapping has the labels as keys and pairs both axes of the plane -/
theorem div_rot90_defined (f : Fld) (a b v1 v2 : Nat) (vs : List String) (σ : Nat → Nat)
    (wf : MeshWf f) (tw : TurnWf f a b) (hsub : f.mesh.subs = []) (ha : a < f.mesh.ndim) (hb : b < f.mesh.ndim) (hab : a ≠ b)
    (hn : 1 < f.nvdim) (hnn : f.nvdim = f.mesh.ndim)
    (hv : f.vdims = some vs) (hvl : vs.length = f.nvdim) (hvd : hasDup vs = false)
    (hkeys : (f.vmap.map (·.1)).isPerm vs = true)
    (hσ : ∀ c, c < f.nvdim → σ c < f.mesh.ndim ∧
      Fld.lookup f.vmap (vs.getD c "") = some (f.mesh.region.dims.getD (σ c) ""))
    (h1 : (rDimLast f (f.mesh.region.dims.getD a "")).bind f.vdimIndex = some v1)
    (h2 : (rDimLast f (f.mesh.region.dims.getD b "")).bind f.vdimIndex = some v2) :
    ∃ R Dv DR RD, rot90Fld f (f.mesh.region.dims.getD a "") (f.mesh.region.dims.getD b "") = .ok R ∧
      div f = .ok Dv ∧ div R = .ok DR ∧
      rot90Fld Dv (Dv.mesh.region.dims.getD a "") (Dv.mesh.region.dims.getD b "") = .ok RD := by
  have hmap : 0 < f.vmap.length := by
    have := (hσ 0 (by omega)).2
    cases hq : f.vmap with
    | nil => rw [hq] at this; simp [Fld.lookup] at this
    | cons _ _ => simp
  obtain ⟨R, hR⟩ := rot90_accepts_vector f a b v1 v2 vs wf tw hsub hn hv hvl hvd hkeys hmap ha hb hab h1 h2
  obtain ⟨Dv, hD⟩ := div_accepts f vs σ wf.dims hnn (by omega) hv hvl hvd hσ
  obtain ⟨q1, q2, q3, q4, q5⟩ := rot90Fld_vector_meta f R a b vs wf.dims hn hv hvl ha hb hmap hR
  have hr := isRot90_of_mesh f R a b wf tw ha hb hab q5 q4 q3
  have hRd : DimsOk R := by unfold DimsOk; rw [hr.dims, hr.ndim]; exact wf.dims
  obtain ⟨DR, hDR⟩ := div_accepts R vs σ hRd (by rw [q3, hr.ndim]; exact hnn) (by rw [q3]; omega) q1
    (by rw [hvl, q3]) hvd (by
      intro c hc
      rw [q3] at hc
      rw [hr.ndim, q2, hr.dims]
      exact hσ c hc)
  obtain ⟨_, d2, d3, _, _⟩ := div_eq f Dv vs σ wf.dims hv hvl hvd hσ hD
  have wfD : MeshWf Dv := meshWf_of_mesh wf d3 (by rw [div_shape hD, d3]; exact wf.data_shape)
  obtain ⟨RD, hRD⟩ := rot90_accepts_plain Dv a b wfD (turnWf_of_mesh tw d3) (by rw [d3]; exact hsub) (plain_of_div hD)
    (by rw [d3]; exact ha) (by rw [d3]; exact hb) hab
  exact ⟨R, Dv, DR, RD, hR, hD, hDR, hRD⟩

/-- … and the four fields of `curl_rot90_quarter` -/
theorem curl_rot90_defined (f : Fld) (a b : Nat) (vs : List String) (σ ρ : Nat → Nat)
    (wf : MeshWf f) (tw : TurnWf f a b) (hsub : f.mesh.subs = []) (ha : a < 3) (hb : b < 3) (hab : a ≠ b)
    (hn : f.nvdim = 3) (hnd : f.mesh.ndim = 3)
    (hv : f.vdims = some vs) (hvl : vs.length = f.nvdim) (hvd : hasDup vs = false)
    (hkeys : (f.vmap.map (·.1)).isPerm vs = true)
    (hσ : ∀ c, c < 3 → σ c < 3 ∧ Fld.lookup f.vmap (vs.getD c "") = some (f.mesh.region.dims.getD (σ c) ""))
    (hρ : ∀ d, d < 3 → ρ d < 3 ∧ rDimLast f (f.mesh.region.dims.getD d "") = some (vs.getD (ρ d) "")) :
    ∃ R C CR RC, rot90Fld f (f.mesh.region.dims.getD a "") (f.mesh.region.dims.getD b "") = .ok R ∧
      curl f = .ok C ∧ curl R = .ok CR ∧
      rot90Fld C (C.mesh.region.dims.getD a "") (C.mesh.region.dims.getD b "") = .ok RC := by
  have ha' : a < f.mesh.ndim := by omega
  have hb' : b < f.mesh.ndim := by omega
  have hmap : 0 < f.vmap.length := by
    have := (hσ 0 (by omega)).2
    cases hq : f.vmap with
    | nil => rw [hq] at this; simp [Fld.lookup] at this
    | cons _ _ => simp
  have hl : ∀ d, d < 3 → ρ d < vs.length := fun d hd => by rw [hvl, hn]; exact (hρ d hd).1
  have hpair : ∀ d, d < 3 → (rDimLast f (f.mesh.region.dims.getD d "")).bind f.vdimIndex = some (ρ d) := by
    intro d hd
    rw [(hρ d hd).2]
    simp only [Option.bind_some]
    exact vdimIndex_getD f vs hv hvd (ρ d) (hl d hd)
  obtain ⟨R, hR⟩ := rot90_accepts_vector f a b (ρ a) (ρ b) vs wf tw hsub (by omega) hv hvl hvd hkeys hmap ha' hb' hab
    (hpair a ha) (hpair b hb)
  obtain ⟨C, hC⟩ := curl_accepts f vs σ ρ wf.dims hn hnd hv hvl hvd hσ hρ
  obtain ⟨q1, q2, q3, q4, q5⟩ := rot90Fld_vector_meta f R a b vs wf.dims (by omega) hv hvl ha' hb' hmap hR
  have hr := isRot90_of_mesh f R a b wf tw ha' hb' hab q5 q4 q3
  have hRd : DimsOk R := by unfold DimsOk; rw [hr.dims, hr.ndim]; exact wf.dims
  obtain ⟨CR, hCR⟩ := curl_accepts R vs σ ρ hRd (by rw [q3, hn]) (by rw [hr.ndim, hnd]) q1 (by rw [hvl, q3]) hvd
    (by intro c hc; rw [q2, hr.dims]; exact hσ c hc)
    (by
      intro d hd
      refine ⟨(hρ d hd).1, ?_⟩
      have := (hρ d hd).2
      unfold rDimLast at this ⊢
      rw [q2, hr.dims]; exact this)
  obtain ⟨_, _, c3, c4, _, _⟩ := curl_eq f C vs ρ wf.dims hv hvl hvd hρ hC
  obtain ⟨x, y, z, hxyz, _, _, _⟩ := dims3 f wf.dims hnd
  obtain ⟨m1, m2⟩ := curl_meta f C hC
  rw [posVdims3] at m1
  have hCd : DimsOk C := by unfold DimsOk; rw [c4]; exact wf.dims
  have hvm : C.vmap = List.zip ["x", "y", "z"] C.mesh.region.dims := by
    rw [m2, posVmap3 f.mesh x y z hxyz (by unfold Mesh.ndim at hnd; exact hnd), c4, hxyz]; rfl
  have hll : (["x", "y", "z"] : List String).length = C.mesh.region.dims.length := by rw [hCd.1, c4, hnd]; rfl
  have hpairC : ∀ d, d < 3 → (rDimLast C (C.mesh.region.dims.getD d "")).bind C.vdimIndex = some d :=
    fun d hd => pos_pairing C ["x", "y", "z"] m1 hvm (by decide) hCd.2 hll d hd
  obtain ⟨cs, _⟩ := curl_shape_len hC
  have wfC : MeshWf C := meshWf_of_mesh wf c4 (by rw [cs, c4]; exact wf.data_shape)
  obtain ⟨RC, hRC⟩ := rot90_accepts_vector C a b a b ["x", "y", "z"] wfC (turnWf_of_mesh tw c4) (by rw [c4]; exact hsub) (by rw [c3]; omega) m1
    (by rw [c3]; rfl) (by decide)
    (by rw [hvm, List.map_fst_zip (by omega)]; exact List.isPerm_iff.mpr (List.Perm.refl _))
    (by rw [hvm, List.length_zip, ← hll]; decide)
    (by rw [c4]; exact ha') (by rw [c4]; exact hb') hab (hpairC a ha) (hpairC b hb)
  exact ⟨R, C, CR, RC, hR, hC, hCR, hRC⟩

/-- … and the four fields of `laplace_rot90_vector_quarter` exist -/
theorem laplace_rot90_vector_defined (f : Fld) (a b v1 v2 : Nat) (vs : List String)
    (wf : MeshWf f) (tw : TurnWf f a b) (hsub : f.mesh.subs = []) (ha : a < f.mesh.ndim) (hb : b < f.mesh.ndim)
    (hab : a ≠ b) (hn : 1 < f.nvdim)
    (hv : f.vdims = some vs) (hvl : vs.length = f.nvdim) (hvd : hasDup vs = false)
    (hkeys : (f.vmap.map (·.1)).isPerm vs = true) (hmap : 0 < f.vmap.length)
    (h1 : (rDimLast f (f.mesh.region.dims.getD a "")).bind f.vdimIndex = some v1)
    (h2 : (rDimLast f (f.mesh.region.dims.getD b "")).bind f.vdimIndex = some v2) :
    ∃ R L LR RL, rot90Fld f (f.mesh.region.dims.getD a "") (f.mesh.region.dims.getD b "") = .ok R ∧
      laplace f = .ok L ∧ laplace R = .ok LR ∧
      rot90Fld L (L.mesh.region.dims.getD a "") (L.mesh.region.dims.getD b "") = .ok RL := by
  have hn1 : f.nvdim ≠ 1 := by omega
  obtain ⟨R, hR⟩ := rot90_accepts_vector f a b v1 v2 vs wf tw hsub hn hv hvl hvd hkeys hmap ha hb hab h1 h2
  obtain ⟨L, hL⟩ := laplace_accepts f wf.dims (by omega) (Or.inr ⟨hn, vs, hv, hvl, hvd, Or.inr hkeys⟩)
  obtain ⟨q1, q2, q3, q4, q5⟩ := rot90Fld_vector_meta f R a b vs wf.dims hn hv hvl ha hb hmap hR
  have hr := isRot90_of_mesh f R a b wf tw ha hb hab q5 q4 q3
  have hRd : DimsOk R := by unfold DimsOk; rw [hr.dims, hr.ndim]; exact wf.dims
  obtain ⟨LR, hLR⟩ := laplace_accepts R hRd (by rw [hr.ndim]; omega)
    (Or.inr ⟨by rw [q3]; exact hn, vs, q1, by rw [hvl, q3], hvd, Or.inr (by rw [q2]; exact hkeys)⟩)
  obtain ⟨l1, l2, _, _⟩ := laplace_eq_vector f L vs wf.dims hn1 hv hvl hvd hL
  obtain ⟨k1, k2, k3, k4⟩ := laplace_keeps_meta f L vs hn1 hv hvl hL
  obtain ⟨ls, _⟩ := laplace_vector_shape_len (by omega) hv hvl hL
  have wfL : MeshWf L := meshWf_of_mesh wf l2 (by rw [ls, l2]; exact wf.data_shape)
  obtain ⟨RL, hRL⟩ := rot90_accepts_vector L a b v1 v2 vs wfL (turnWf_of_mesh tw l2) (by rw [l2]; exact hsub)
    (by rw [l1]; exact hn) (by rw [k1]; exact hv) (by rw [hvl, l1]) hvd (by rw [k2]; exact hkeys) (by rw [k2]; exact hmap)
    (by rw [l2]; exact ha) (by rw [l2]; exact hb) hab
    (by rw [l2, k3]; cases hq : rDimLast f (f.mesh.region.dims.getD a "") with
        | none => rw [hq] at h1; simp at h1
        | some l => rw [hq] at h1; simp only [Option.bind_some] at h1 ⊢; rw [k4]; exact h1)
    (by rw [l2, k3]; cases hq : rDimLast f (f.mesh.region.dims.getD b "") with
        | none => rw [hq] at h2; simp at h2
        | some l => rw [hq] at h2; simp only [Option.bind_some] at h2 ⊢; rw [k4]; exact h2)
  exact ⟨R, L, LR, RL, hR, hL, hLR, hRL⟩

/-! ## 8. Any number of quarter turns, and `Field.rotate90(ax1, ax2, k)` for every integer `k` -/

/-- the Laplacian of a plain scalar field is a plain scalar field on the same mesh with a mesh-shaped array -/
theorem laplace_scalar_result (f L : Fld) (wf : MeshWf f) (hp : Plain f) (hL : laplace f = .ok L) : ScalOn f L := by
  obtain ⟨_, l2, _, _⟩ := laplace_eq_scalar f L wf.dims hp.1 hL
  exact ⟨l2, plain_of_laplace_scalar hp hL, by rw [laplace_scalar_shape hp.1 hL, l2]; exact wf.data_shape⟩

/-- **The scalar Laplacian commutes with any number of quarter turns**: for every `n`, every mask,
every mesh dimension, every combination of open and periodic axes in the plane -/
theorem laplace_rot90_iter (f : Fld) (a b n : Nat) (wf : MeshWf f) (tw : TurnWf f a b) (hsub : f.mesh.subs = [])
    (hvs : f.valid.shape = f.mesh.n) (hp : Plain f) (ha : a < f.mesh.ndim) (hb : b < f.mesh.ndim) (hab : a ≠ b) :
    ∃ R L LR RL, rotIter (f.mesh.region.dims.getD a "") (f.mesh.region.dims.getD b "") n f = .ok R ∧ laplace f = .ok L ∧
      laplace R = .ok LR ∧ rotIter (f.mesh.region.dims.getD a "") (f.mesh.region.dims.getD b "") n L = .ok RL ∧
      ∀ i, InMesh R i → (LR.data.get i).getD 0 0 = (RL.data.get i).getD 0 0 := by
  have key := iter_commute laplace (f.mesh.region.dims.getD a "") (f.mesh.region.dims.getD b "") 1
    (fun g => RotOk a b (f.mesh.region.dims.getD a "") (f.mesh.region.dims.getD b "") g ∧ Plain g) ScalOn
    (by
      rintro g ⟨hg, pg⟩
      obtain ⟨R, hR⟩ := rot90_accepts_plain g a b hg.wf hg.tw hg.subs pg hg.ha hg.hb hab
      rw [hg.hda, hg.hdb] at hR
      exact ⟨R, hR, (rotOk_rot hab hg hR).1, rot90_plain pg hR⟩)
    (by
      rintro g ⟨hg, pg⟩
      obtain ⟨L, hL⟩ := laplace_accepts g hg.wf.dims (by have := hg.ha; omega) (Or.inl pg)
      exact ⟨L, hL, laplace_scalar_result g L hg.wf pg hL⟩)
    (by
      rintro g R L LR RL ⟨hg, pg⟩ hR hL hLR hRL i hi c hc
      have hc0 : c = 0 := by omega
      subst hc0
      obtain ⟨_, l2, _, _⟩ := laplace_eq_scalar g L hg.wf.dims pg.1 hL
      exact laplace_rot90_quarter g R L LR RL a b hg.wf pg.1 hg.vshape hg.ha hg.hb hab hg.tw
        (by rw [hg.hda, hg.hdb]; exact hR) hL hLR (by rw [l2, hg.hda, hg.hdb]; exact hRL) i hi)
    (by rintro g R X ⟨hg, _⟩ hX hR; exact scalOn_rot hab hg hX hR)
    (by rintro g R X Y X' Y' ⟨hg, _⟩ hX hY hR hX' hY' heq; exact scalOn_rot_eq hab hg hX hY hR hX' hY' heq)
    f ⟨⟨wf, tw, hsub, hvs, ha, hb, rfl, rfl⟩, hp⟩ n
  obtain ⟨R, L, LR, RL, h1, h2, h3, h4, _, _, _, heq⟩ := key
  exact ⟨R, L, LR, RL, h1, h2, h3, h4, fun i hi => heq i hi 0 (by omega)⟩

/-- the gradient of a plain scalar field on a mesh of any dimension ≥ 2 is a vector field on the same mesh with
the positional labels, mapped positionally: axis `x` is paired with stored component `x` -/
theorem grad_result (f G : Fld) (a b : Nat) (labels : List String) (wf : MeshWf f) (hp : Plain f)
    (ha : a < f.mesh.ndim) (hb : b < f.mesh.ndim) (hab : a ≠ b)
    (hlab : posVdims f.mesh.ndim = some labels) (hlen : labels.length = f.mesh.ndim) (hnd : hasDup labels = false)
    (hG : grad f = .ok G) : VecOn a b a b labels f G := by
  have hn2 : 2 ≤ f.mesh.ndim := by omega
  obtain ⟨_, g2, g3, _, _⟩ := grad_eq f G wf.dims hG
  have hl2 : 2 ≤ f.mesh.region.dims.length := by rw [wf.dims.1]; exact hn2
  obtain ⟨m1, m2⟩ := grad_meta f G hp hl2 hG
  rw [g2] at m1 m2
  rw [hlab] at m1
  have hvm : G.vmap = List.zip labels G.mesh.region.dims := by
    rw [m2]
    unfold posVmap
    have h1 : ¬ (f.mesh.ndim = 1) := by omega
    have h2' : f.mesh.ndim = G.mesh.region.ndim := by rw [g3]; rfl
    simp only [h1, if_false, h2', if_true]
    have : Fld.defaultVdims G.mesh.region.ndim = some labels := by rw [← h2']; exact hlab
    rw [this]
    have h1' : ¬ (G.mesh.region.ndim = 1) := by rw [← h2']; exact h1
    simp only [h1', if_false]
  have hGd : DimsOk G := by unfold DimsOk; rw [g3]; exact wf.dims
  have hll : labels.length = G.mesh.region.dims.length := by rw [hlen, hGd.1, g3]
  have hpair : ∀ x, x < f.mesh.ndim → (rDimLast G (G.mesh.region.dims.getD x "")).bind G.vdimIndex = some x :=
    fun x hx => pos_pairing G labels m1 hvm hnd hGd.2 hll x (by rw [hlen]; exact hx)
  refine ⟨g3, by rw [grad_shape hG, g3]; exact wf.data_shape, ?_⟩
  exact ⟨by rw [g2]; omega, m1, by rw [hlen, g2], hnd,
    by rw [hvm, List.map_fst_zip (by omega)]; exact List.isPerm_iff.mpr (List.Perm.refl _),
    by rw [hvm, List.length_zip]; omega, hpair a ha, hpair b hb, by rw [g2]; exact ha, by rw [g2]; exact hb, hab,
    grad_len hl2 hG⟩

/-- **The gradient commutes with any number of quarter turns** (every mesh dimension ≥ 2, every mask,
every combination of open and periodic axes in the plane): component by component at every cell -/
theorem grad_rot90_iter (f : Fld) (a b n : Nat) (wf : MeshWf f) (tw : TurnWf f a b) (hsub : f.mesh.subs = [])
    (hvs : f.valid.shape = f.mesh.n) (hp : Plain f) (ha : a < f.mesh.ndim) (hb : b < f.mesh.ndim) (hab : a ≠ b) :
    ∃ R G GR RG, rotIter (f.mesh.region.dims.getD a "") (f.mesh.region.dims.getD b "") n f = .ok R ∧ grad f = .ok G ∧
      grad R = .ok GR ∧ rotIter (f.mesh.region.dims.getD a "") (f.mesh.region.dims.getD b "") n G = .ok RG ∧
      ∀ i, InMesh R i → ∀ e, e < f.mesh.ndim → (GR.data.get i).getD e 0 = (RG.data.get i).getD e 0 := by
  have hn2 : 2 ≤ f.mesh.ndim := by omega
  obtain ⟨labels, hlab, hlen, hnd⟩ := posVdims_nodup f.mesh.ndim hn2
  have key := iter_commute grad (f.mesh.region.dims.getD a "") (f.mesh.region.dims.getD b "") f.mesh.ndim
    (fun g => RotOk a b (f.mesh.region.dims.getD a "") (f.mesh.region.dims.getD b "") g ∧ Plain g ∧ g.mesh.ndim = f.mesh.ndim)
    (VecOn a b a b labels)
    (by
      rintro g ⟨hg, pg, ng⟩
      obtain ⟨R, hR⟩ := rot90_accepts_plain g a b hg.wf hg.tw hg.subs pg hg.ha hg.hb hab
      rw [hg.hda, hg.hdb] at hR
      obtain ⟨rR, hr, _, _⟩ := rotOk_rot hab hg hR
      exact ⟨R, hR, rR, rot90_plain pg hR, by rw [hr.ndim, ng]⟩)
    (by
      rintro g ⟨hg, pg, ng⟩
      obtain ⟨G, hG⟩ := grad_accepts g pg hg.wf.dims (by have := hg.ha; omega)
      exact ⟨G, hG, grad_result g G a b labels hg.wf pg hg.ha hg.hb hab (by rw [ng]; exact hlab) (by rw [ng]; exact hlen) hnd hG⟩)
    (by
      rintro g R G GR RG ⟨hg, pg, ng⟩ hR hG hGR hRG i hi c hc
      obtain ⟨_, _, g3, _, _⟩ := grad_eq g G hg.wf.dims hG
      exact grad_rot90_quarter g R G GR RG a b hg.wf pg hg.vshape hg.ha hg.hb hab hg.tw
        (by rw [hg.hda, hg.hdb]; exact hR) hG hGR (by rw [g3, hg.hda, hg.hdb]; exact hRG) i hi c (by rw [ng]; exact hc))
    (by rintro g R X ⟨hg, _⟩ hX hR; exact vecOn_rot hab hg hX hR)
    (by
      rintro g R X Y X' Y' ⟨hg, _, ng⟩ hX hY hR hX' hY' heq
      exact vecOn_rot_eq f.mesh.ndim hab hg hX hY (by rw [← hX.2.2.hvl, hlen]) hR hX' hY' heq)
    f ⟨⟨wf, tw, hsub, hvs, ha, hb, rfl, rfl⟩, hp, rfl⟩ n
  obtain ⟨R, G, GR, RG, h1, h2, h3, h4, _, _, _, heq⟩ := key
  exact ⟨R, G, GR, RG, h1, h2, h3, h4, heq⟩

/-- the divergence of a field is a plain scalar field on the same mesh with a mesh-shaped array -/
theorem div_result (f Dv : Fld) (vs : List String) (σ : Nat → Nat) (wf : MeshWf f)
    (hv : f.vdims = some vs) (hvl : vs.length = f.nvdim) (hvd : hasDup vs = false)
    (hσ : ∀ c, c < f.nvdim → σ c < f.mesh.ndim ∧
      Fld.lookup f.vmap (vs.getD c "") = some (f.mesh.region.dims.getD (σ c) ""))
    (hD : div f = .ok Dv) : ScalOn f Dv := by
  obtain ⟨_, _, d3, _, _⟩ := div_eq f Dv vs σ wf.dims hv hvl hvd hσ hD
  exact ⟨d3, plain_of_div hD, by rw [div_shape hD, d3]; exact wf.data_shape⟩

/-- **The divergence commutes with any number of quarter turns** -/
theorem div_rot90_iter (f : Fld) (a b v1 v2 n : Nat) (vs : List String) (σ : Nat → Nat)
    (wf : MeshWf f) (tw : TurnWf f a b) (hsub : f.mesh.subs = []) (hvs : f.valid.shape = f.mesh.n)
    (ha : a < f.mesh.ndim) (hb : b < f.mesh.ndim) (hab : a ≠ b)
    (hn : 1 < f.nvdim) (hnn : f.nvdim = f.mesh.ndim)
    (hv : f.vdims = some vs) (hvl : vs.length = f.nvdim) (hvd : hasDup vs = false)
    (hkeys : (f.vmap.map (·.1)).isPerm vs = true)
    (hraw : ∀ i, (f.data.get i).length = f.nvdim)
    (hσ : ∀ c, c < f.nvdim → σ c < f.mesh.ndim ∧
      Fld.lookup f.vmap (vs.getD c "") = some (f.mesh.region.dims.getD (σ c) ""))
    (h1 : (rDimLast f (f.mesh.region.dims.getD a "")).bind f.vdimIndex = some v1)
    (h2 : (rDimLast f (f.mesh.region.dims.getD b "")).bind f.vdimIndex = some v2)
    (hv1 : v1 < f.nvdim) (hv2 : v2 < f.nvdim) (hs1 : σ v1 = a) (hs2 : σ v2 = b)
    (hoth : ∀ c, c < f.nvdim → c ≠ v1 → c ≠ v2 → σ c ≠ a ∧ σ c ≠ b) :
    ∃ R Dv DR RD, rotIter (f.mesh.region.dims.getD a "") (f.mesh.region.dims.getD b "") n f = .ok R ∧ div f = .ok Dv ∧
      div R = .ok DR ∧ rotIter (f.mesh.region.dims.getD a "") (f.mesh.region.dims.getD b "") n Dv = .ok RD ∧
      ∀ i, InMesh R i → (DR.data.get i).getD 0 0 = (RD.data.get i).getD 0 0 := by
  have h12 : v1 ≠ v2 := by intro he; rw [he, hs2] at hs1; exact hab hs1.symm
  have hmap : 0 < f.vmap.length := by
    have := (hσ v1 hv1).2
    cases hq : f.vmap with
    | nil => rw [hq] at this; simp [Fld.lookup] at this
    | cons _ _ => simp
  have key := iter_commute div (f.mesh.region.dims.getD a "") (f.mesh.region.dims.getD b "") 1
    (fun g => RotOk a b (f.mesh.region.dims.getD a "") (f.mesh.region.dims.getD b "") g ∧ VecMeta a b v1 v2 vs g ∧
      g.nvdim = f.nvdim ∧ g.mesh.ndim = f.mesh.ndim ∧ g.vmap = f.vmap ∧ g.mesh.region.dims = f.mesh.region.dims)
    ScalOn
    (by
      rintro g ⟨hg, vg, e1, e2, e3, e4⟩
      obtain ⟨R, hR, hmeta, q2, _, _⟩ := vecMeta_rot hab hg.wf hg.tw hg.subs hg.ha hg.hb vg
      rw [hg.hda, hg.hdb] at hR
      obtain ⟨rR, hr, _, _⟩ := rotOk_rot hab hg hR
      exact ⟨R, hR, rR, hmeta hr.dims, by rw [hr.nvdim, e1], by rw [hr.ndim, e2], by rw [q2, e3], by rw [hr.dims, e4]⟩)
    (by
      rintro g ⟨hg, vg, e1, e2, e3, e4⟩
      have hσg : ∀ c, c < g.nvdim → σ c < g.mesh.ndim ∧
          Fld.lookup g.vmap (vs.getD c "") = some (g.mesh.region.dims.getD (σ c) "") := by
        intro c hc; rw [e2, e3, e4]; exact hσ c (by rw [← e1]; exact hc)
      obtain ⟨Dv, hD⟩ := div_accepts g vs σ hg.wf.dims (by rw [e1, e2]; exact hnn) (by have := vg.hn; omega) vg.hv vg.hvl vg.hvd hσg
      exact ⟨Dv, hD, div_result g Dv vs σ hg.wf vg.hv vg.hvl vg.hvd hσg hD⟩)
    (by
      rintro g R Dv DR RD ⟨hg, vg, e1, e2, e3, e4⟩ hR hD hDR hRD i hi c hc
      have hc0 : c = 0 := by omega
      subst hc0
      have hσg : ∀ c, c < g.nvdim → σ c < g.mesh.ndim ∧
          Fld.lookup g.vmap (vs.getD c "") = some (g.mesh.region.dims.getD (σ c) "") := by
        intro c hc; rw [e2, e3, e4]; exact hσ c (by rw [← e1]; exact hc)
      obtain ⟨_, _, d3, _, _⟩ := div_eq g Dv vs σ hg.wf.dims vg.hv vg.hvl vg.hvd hσg hD
      exact div_rot90_quarter g R Dv DR RD a b v1 v2 vs σ hg.wf hg.vshape hg.ha hg.hb hab hg.tw vg.hn vg.hv vg.hvl vg.hvd
        vg.hraw hσg vg.h1 vg.h2 vg.hv1 vg.hv2 hs1 hs2 (fun c hc => hoth c (by rw [← e1]; exact hc))
        (by rw [hg.hda, hg.hdb]; exact hR) hD hDR (by rw [d3, hg.hda, hg.hdb]; exact hRD) i hi)
    (by rintro g R X ⟨hg, _⟩ hX hR; exact scalOn_rot hab hg hX hR)
    (by rintro g R X Y X' Y' ⟨hg, _⟩ hX hY hR hX' hY' heq; exact scalOn_rot_eq hab hg hX hY hR hX' hY' heq)
    f ⟨⟨wf, tw, hsub, hvs, ha, hb, rfl, rfl⟩, ⟨hn, hv, hvl, hvd, hkeys, hmap, h1, h2, hv1, hv2, h12, hraw⟩, rfl, rfl, rfl, rfl⟩ n
  obtain ⟨R, Dv, DR, RD, k1, k2, k3, k4, _, _, _, heq⟩ := key
  exact ⟨R, Dv, DR, RD, k1, k2, k3, k4, fun i hi => heq i hi 0 (by omega)⟩

/-- the curl of a field is a 3-component field on the same mesh with the positional labels
`x, y, z` mapped positionally onto the axes -/
theorem curl_result (f C : Fld) (a b : Nat) (vs : List String) (ρ : Nat → Nat) (wf : MeshWf f)
    (ha : a < 3) (hb : b < 3) (hab : a ≠ b)
    (hv : f.vdims = some vs) (hvl : vs.length = f.nvdim) (hvd : hasDup vs = false)
    (hρ : ∀ d, d < 3 → ρ d < 3 ∧ rDimLast f (f.mesh.region.dims.getD d "") = some (vs.getD (ρ d) ""))
    (hC : curl f = .ok C) : VecOn a b a b ["x", "y", "z"] f C := by
  obtain ⟨_, hnd, c3, c4, _, _⟩ := curl_eq f C vs ρ wf.dims hv hvl hvd hρ hC
  obtain ⟨x, y, z, hxyz, _, _, _⟩ := dims3 f wf.dims hnd
  obtain ⟨m1, m2⟩ := curl_meta f C hC
  rw [posVdims3] at m1
  have hCd : DimsOk C := by unfold DimsOk; rw [c4]; exact wf.dims
  have hvm : C.vmap = List.zip ["x", "y", "z"] C.mesh.region.dims := by
    rw [m2, posVmap3 f.mesh x y z hxyz (by unfold Mesh.ndim at hnd; exact hnd), c4, hxyz]; rfl
  have hll : (["x", "y", "z"] : List String).length = C.mesh.region.dims.length := by rw [hCd.1, c4, hnd]; rfl
  have hpairC : ∀ d, d < 3 → (rDimLast C (C.mesh.region.dims.getD d "")).bind C.vdimIndex = some d :=
    fun d hd => pos_pairing C ["x", "y", "z"] m1 hvm (by decide) hCd.2 hll d hd
  obtain ⟨cs, clen⟩ := curl_shape_len hC
  refine ⟨c4, by rw [cs, c4]; exact wf.data_shape, ?_⟩
  exact ⟨by rw [c3]; omega, m1, by rw [c3]; rfl, by decide,
    by rw [hvm, List.map_fst_zip (by omega)]; exact List.isPerm_iff.mpr (List.Perm.refl _),
    by rw [hvm, List.length_zip, ← hll]; decide, hpairC a ha, hpairC b hb, by rw [c3]; exact ha, by rw [c3]; exact hb, hab, clen⟩

/-- **The curl commutes with any number of quarter turns** -/
theorem curl_rot90_iter (f : Fld) (a b n : Nat) (vs : List String) (σ ρ : Nat → Nat)
    (wf : MeshWf f) (tw : TurnWf f a b) (hsub : f.mesh.subs = []) (hvs : f.valid.shape = f.mesh.n)
    (ha : a < 3) (hb : b < 3) (hab : a ≠ b) (hn : f.nvdim = 3) (hnd : f.mesh.ndim = 3)
    (hv : f.vdims = some vs) (hvl : vs.length = f.nvdim) (hvd : hasDup vs = false)
    (hkeys : (f.vmap.map (·.1)).isPerm vs = true)
    (hraw : ∀ i, (f.data.get i).length = f.nvdim)
    (hσ : ∀ c, c < 3 → σ c < 3 ∧ Fld.lookup f.vmap (vs.getD c "") = some (f.mesh.region.dims.getD (σ c) ""))
    (hρ : ∀ d, d < 3 → ρ d < 3 ∧ rDimLast f (f.mesh.region.dims.getD d "") = some (vs.getD (ρ d) ""))
    (hinj : ρ 0 ≠ ρ 1 ∧ ρ 0 ≠ ρ 2 ∧ ρ 1 ≠ ρ 2) :
    ∃ R C CR RC, rotIter (f.mesh.region.dims.getD a "") (f.mesh.region.dims.getD b "") n f = .ok R ∧ curl f = .ok C ∧
      curl R = .ok CR ∧ rotIter (f.mesh.region.dims.getD a "") (f.mesh.region.dims.getD b "") n C = .ok RC ∧
      ∀ i, InMesh R i → ∀ k, k < 3 → (CR.data.get i).getD k 0 = (RC.data.get i).getD k 0 := by
  have ha' : a < f.mesh.ndim := by omega
  have hb' : b < f.mesh.ndim := by omega
  have hmap : 0 < f.vmap.length := by
    have := (hσ 0 (by omega)).2
    cases hq : f.vmap with
    | nil => rw [hq] at this; simp [Fld.lookup] at this
    | cons _ _ => simp
  have hl : ∀ d, d < 3 → ρ d < vs.length := fun d hd => by rw [hvl, hn]; exact (hρ d hd).1
  have hpair : ∀ d, d < 3 → (rDimLast f (f.mesh.region.dims.getD d "")).bind f.vdimIndex = some (ρ d) := by
    intro d hd
    rw [(hρ d hd).2]
    simp only [Option.bind_some]
    exact vdimIndex_getD f vs hv hvd (ρ d) (hl d hd)
  have hρab : ρ a ≠ ρ b := by
    obtain ⟨h01, h02, h12⟩ := hinj
    have : (a = 0 ∨ a = 1 ∨ a = 2) ∧ (b = 0 ∨ b = 1 ∨ b = 2) := by omega
    rcases this with ⟨rfl | rfl | rfl, rfl | rfl | rfl⟩ <;> first | exact absurd rfl hab | assumption | exact Ne.symm ‹_›
  have key := iter_commute curl (f.mesh.region.dims.getD a "") (f.mesh.region.dims.getD b "") 3
    (fun g => RotOk a b (f.mesh.region.dims.getD a "") (f.mesh.region.dims.getD b "") g ∧ VecMeta a b (ρ a) (ρ b) vs g ∧
      g.nvdim = 3 ∧ g.mesh.ndim = 3 ∧ g.vmap = f.vmap ∧ g.mesh.region.dims = f.mesh.region.dims)
    (VecOn a b a b ["x", "y", "z"])
    (by
      rintro g ⟨hg, vg, e1, e2, e3, e4⟩
      obtain ⟨R, hR, hmeta, q2, _, _⟩ := vecMeta_rot hab hg.wf hg.tw hg.subs hg.ha hg.hb vg
      rw [hg.hda, hg.hdb] at hR
      obtain ⟨rR, hr, _, _⟩ := rotOk_rot hab hg hR
      exact ⟨R, hR, rR, hmeta hr.dims, by rw [hr.nvdim, e1], by rw [hr.ndim, e2], by rw [q2, e3], by rw [hr.dims, e4]⟩)
    (by
      rintro g ⟨hg, vg, e1, e2, e3, e4⟩
      have hσg : ∀ c, c < 3 → σ c < 3 ∧ Fld.lookup g.vmap (vs.getD c "") = some (g.mesh.region.dims.getD (σ c) "") := by
        intro c hc; rw [e3, e4]; exact hσ c hc
      have hρg : ∀ d, d < 3 → ρ d < 3 ∧ rDimLast g (g.mesh.region.dims.getD d "") = some (vs.getD (ρ d) "") := by
        intro d hd
        refine ⟨(hρ d hd).1, ?_⟩
        have := (hρ d hd).2
        unfold rDimLast at this ⊢
        rw [e3, e4]; exact this
      obtain ⟨C, hC⟩ := curl_accepts g vs σ ρ hg.wf.dims e1 e2 vg.hv vg.hvl vg.hvd hσg hρg
      exact ⟨C, hC, curl_result g C a b vs ρ hg.wf ha hb hab vg.hv vg.hvl vg.hvd hρg hC⟩)
    (by
      rintro g R C CR RC ⟨hg, vg, e1, e2, e3, e4⟩ hR hC hCR hRC i hi c hc
      have hρg : ∀ d, d < 3 → ρ d < 3 ∧ rDimLast g (g.mesh.region.dims.getD d "") = some (vs.getD (ρ d) "") := by
        intro d hd
        refine ⟨(hρ d hd).1, ?_⟩
        have := (hρ d hd).2
        unfold rDimLast at this ⊢
        rw [e3, e4]; exact this
      obtain ⟨_, _, _, c4, _, _⟩ := curl_eq g C vs ρ hg.wf.dims vg.hv vg.hvl vg.hvd hρg hC
      exact curl_rot90_quarter g R C CR RC a b vs ρ hg.wf hg.vshape ha hb hab hg.tw vg.hv vg.hvl vg.hvd vg.hraw vg.hmap hρg hinj
        (by rw [hg.hda, hg.hdb]; exact hR) hC hCR (by rw [c4, hg.hda, hg.hdb]; exact hRC) i hi c hc)
    (by rintro g R X ⟨hg, _⟩ hX hR; exact vecOn_rot hab hg hX hR)
    (by
      rintro g R X Y X' Y' ⟨hg, _⟩ hX hY hR hX' hY' heq
      exact vecOn_rot_eq 3 hab hg hX hY (by rw [← hX.2.2.hvl]; rfl) hR hX' hY' heq)
    f ⟨⟨wf, tw, hsub, hvs, ha', hb', rfl, rfl⟩,
       ⟨by omega, hv, hvl, hvd, hkeys, hmap, hpair a ha, hpair b hb, by rw [hn]; exact (hρ a ha).1, by rw [hn]; exact (hρ b hb).1,
        hρab, hraw⟩, hn, hnd, rfl, rfl⟩ n
  obtain ⟨R, C, CR, RC, k1, k2, k3, k4, _, _, _, heq⟩ := key
  exact ⟨R, C, CR, RC, k1, k2, k3, k4, heq⟩

/-- the Laplacian of a vector field is a vector field on the same mesh with the operand's labels,
mapping and pairing -/
theorem laplace_vector_result (f L : Fld) (a b v1 v2 : Nat) (vs : List String) (wf : MeshWf f)
    (hf : VecMeta a b v1 v2 vs f) (hL : laplace f = .ok L) : VecOn a b v1 v2 vs f L := by
  have hn1 : f.nvdim ≠ 1 := by have := hf.hn; omega
  obtain ⟨l1, l2, _, _⟩ := laplace_eq_vector f L vs wf.dims hn1 hf.hv hf.hvl hf.hvd hL
  obtain ⟨k1, k2, k3, k4⟩ := laplace_keeps_meta f L vs hn1 hf.hv hf.hvl hL
  obtain ⟨ls, llen⟩ := laplace_vector_shape_len (by have := hf.hn; omega) hf.hv hf.hvl hL
  have hidx : L.vdimIndex = f.vdimIndex := funext k4
  refine ⟨l2, by rw [ls, l2]; exact wf.data_shape, ?_⟩
  exact ⟨by rw [l1]; exact hf.hn, by rw [k1]; exact hf.hv, by rw [l1]; exact hf.hvl, hf.hvd, by rw [k2]; exact hf.hkeys,
    by rw [k2]; exact hf.hmap, by rw [l2, k3, hidx]; exact hf.h1, by rw [l2, k3, hidx]; exact hf.h2,
    by rw [l1]; exact hf.hv1, by rw [l1]; exact hf.hv2, hf.h12, llen⟩

/-- **The vector Laplacian commutes with any number of quarter turns** -/
theorem laplace_rot90_vector_iter (f : Fld) (a b v1 v2 n : Nat) (vs : List String)
    (wf : MeshWf f) (tw : TurnWf f a b) (hsub : f.mesh.subs = []) (hvs : f.valid.shape = f.mesh.n)
    (ha : a < f.mesh.ndim) (hb : b < f.mesh.ndim) (hab : a ≠ b) (hn : 1 < f.nvdim)
    (hv : f.vdims = some vs) (hvl : vs.length = f.nvdim) (hvd : hasDup vs = false)
    (hkeys : (f.vmap.map (·.1)).isPerm vs = true) (hmap : 0 < f.vmap.length)
    (hraw : ∀ i, (f.data.get i).length = f.nvdim)
    (h1 : (rDimLast f (f.mesh.region.dims.getD a "")).bind f.vdimIndex = some v1)
    (h2 : (rDimLast f (f.mesh.region.dims.getD b "")).bind f.vdimIndex = some v2)
    (hv1 : v1 < f.nvdim) (hv2 : v2 < f.nvdim) (h12 : v1 ≠ v2) :
    ∃ R L LR RL, rotIter (f.mesh.region.dims.getD a "") (f.mesh.region.dims.getD b "") n f = .ok R ∧ laplace f = .ok L ∧
      laplace R = .ok LR ∧ rotIter (f.mesh.region.dims.getD a "") (f.mesh.region.dims.getD b "") n L = .ok RL ∧
      ∀ i, InMesh R i → ∀ c, c < f.nvdim → (LR.data.get i).getD c 0 = (RL.data.get i).getD c 0 := by
  have key := iter_commute laplace (f.mesh.region.dims.getD a "") (f.mesh.region.dims.getD b "") f.nvdim
    (fun g => RotOk a b (f.mesh.region.dims.getD a "") (f.mesh.region.dims.getD b "") g ∧ VecMeta a b v1 v2 vs g ∧
      g.nvdim = f.nvdim)
    (VecOn a b v1 v2 vs)
    (by
      rintro g ⟨hg, vg, e1⟩
      obtain ⟨R, hR, hmeta, _, _, _⟩ := vecMeta_rot hab hg.wf hg.tw hg.subs hg.ha hg.hb vg
      rw [hg.hda, hg.hdb] at hR
      obtain ⟨rR, hr, _, _⟩ := rotOk_rot hab hg hR
      exact ⟨R, hR, rR, hmeta hr.dims, by rw [hr.nvdim, e1]⟩)
    (by
      rintro g ⟨hg, vg, e1⟩
      obtain ⟨L, hL⟩ := laplace_accepts g hg.wf.dims (by have := hg.ha; omega)
        (Or.inr ⟨vg.hn, vs, vg.hv, vg.hvl, vg.hvd, Or.inr vg.hkeys⟩)
      exact ⟨L, hL, laplace_vector_result g L a b v1 v2 vs hg.wf vg hL⟩)
    (by
      rintro g R L LR RL ⟨hg, vg, e1⟩ hR hL hLR hRL i hi c hc
      have hn1 : g.nvdim ≠ 1 := by have := vg.hn; omega
      obtain ⟨_, l2, _, _⟩ := laplace_eq_vector g L vs hg.wf.dims hn1 vg.hv vg.hvl vg.hvd hL
      exact laplace_rot90_vector_quarter g R L LR RL a b v1 v2 vs hg.wf hg.tw hg.vshape hg.ha hg.hb hab vg.hn vg.hv vg.hvl vg.hvd
        vg.hraw vg.hmap vg.h1 vg.h2 vg.hv1 vg.hv2 vg.h12 (by rw [hg.hda, hg.hdb]; exact hR) hL hLR
        (by rw [l2, hg.hda, hg.hdb]; exact hRL) i hi c (by rw [e1]; exact hc))
    (by rintro g R X ⟨hg, _⟩ hX hR; exact vecOn_rot hab hg hX hR)
    (by
      rintro g R X Y X' Y' ⟨hg, vg, e1⟩ hX hY hR hX' hY' heq
      exact vecOn_rot_eq f.nvdim hab hg hX hY (by rw [← hX.2.2.hvl, hvl]) hR hX' hY' heq)
    f ⟨⟨wf, tw, hsub, hvs, ha, hb, rfl, rfl⟩, ⟨hn, hv, hvl, hvd, hkeys, hmap, h1, h2, hv1, hv2, h12, hraw⟩, rfl⟩ n
  obtain ⟨R, L, LR, RL, k1, k2, k3, k4, _, _, _, heq⟩ := key
  exact ⟨R, L, LR, RL, k1, k2, k3, k4, heq⟩

/-! ### the operators read nothing but the cells (congruence under `Sim`) -/

/-- **The scalar Laplacian reads nothing but the cells**: on fields that differentiation cannot tell
apart (`Sim`: meshes alike, same values and validity at every well-formed multi-index) it gives the
same values -/
theorem laplace_congr (X Y LX LY : Fld) (h : Sim X Y) (hd : DimsOk Y) (hn : X.nvdim = 1)
    (hX : laplace X = .ok LX) (hY : laplace Y = .ok LY) (i : List Nat) (hi : i.length = X.mesh.ndim) :
    (LX.data.get i).getD 0 0 = (LY.data.get i).getD 0 0 := by
  obtain ⟨_, _, _, x4⟩ := laplace_eq_scalar X LX (dimsOk_sim h hd) hn hX
  obtain ⟨_, _, _, y4⟩ := laplace_eq_scalar Y LY hd (by rw [← h.nvdim]; exact hn) hY
  rw [x4 i, y4 i, ← h.mesh.1]
  exact sumTo_congr _ _ _ (fun a ha => D_sim h a 2 0 i ha hi)

/-- … and so does the gradient -/
theorem grad_congr (X Y GX GY : Fld) (h : Sim X Y) (hd : DimsOk Y)
    (hX : grad X = .ok GX) (hY : grad Y = .ok GY) (i : List Nat) (hi : i.length = X.mesh.ndim) (e : Nat) (he : e < X.mesh.ndim) :
    (GX.data.get i).getD e 0 = (GY.data.get i).getD e 0 := by
  obtain ⟨_, _, _, _, x5⟩ := grad_eq X GX (dimsOk_sim h hd) hX
  obtain ⟨_, _, _, _, y5⟩ := grad_eq Y GY hd hY
  rw [x5 i e he, y5 i e (by rw [← h.mesh.1]; exact he)]
  exact D_sim h e 1 0 i he hi

/-- … the divergence -/
theorem div_congr (X Y DX DY : Fld) (vs : List String) (σ : Nat → Nat) (h : Sim X Y) (hd : DimsOk Y)
    (hv : Y.vdims = some vs) (hvl : vs.length = Y.nvdim) (hvd : hasDup vs = false)
    (hσ : ∀ c, c < Y.nvdim → σ c < Y.mesh.ndim ∧
      Fld.lookup Y.vmap (vs.getD c "") = some (Y.mesh.region.dims.getD (σ c) ""))
    (hX : div X = .ok DX) (hY : div Y = .ok DY) (i : List Nat) (hi : i.length = X.mesh.ndim) :
    (DX.data.get i).getD 0 0 = (DY.data.get i).getD 0 0 := by
  obtain ⟨_, _, _, _, y5⟩ := div_eq Y DY vs σ hd hv hvl hvd hσ hY
  have hσX : ∀ c, c < X.nvdim → σ c < X.mesh.ndim ∧
      Fld.lookup X.vmap (vs.getD c "") = some (X.mesh.region.dims.getD (σ c) "") := by
    intro c hc; rw [h.nvdim] at hc; rw [h.mesh.1, h.vmap, h.mesh.2.1]; exact hσ c hc
  obtain ⟨_, _, _, _, x5⟩ := div_eq X DX vs σ (dimsOk_sim h hd) (by rw [h.vdims]; exact hv) (by rw [h.nvdim]; exact hvl) hvd hσX hX
  rw [x5 i, y5 i, ← h.nvdim]
  exact sumTo_congr _ _ _ (fun c hc => D_sim h (σ c) 1 c i (hσX c hc).1 hi)

/-- … the curl -/
theorem curl_congr (X Y CX CY : Fld) (vs : List String) (ρ : Nat → Nat) (h : Sim X Y) (hd : DimsOk Y)
    (hv : Y.vdims = some vs) (hvl : vs.length = Y.nvdim) (hvd : hasDup vs = false)
    (hρ : ∀ d, d < 3 → ρ d < 3 ∧ rDimLast Y (Y.mesh.region.dims.getD d "") = some (vs.getD (ρ d) ""))
    (hX : curl X = .ok CX) (hY : curl Y = .ok CY) (i : List Nat) (hi : i.length = X.mesh.ndim) (c : Nat) (hc : c < 3) :
    (CX.data.get i).getD c 0 = (CY.data.get i).getD c 0 := by
  obtain ⟨_, _, _, _, _, y6⟩ := curl_eq Y CY vs ρ hd hv hvl hvd hρ hY
  obtain ⟨_, hnd, _, _, _, x6⟩ := curl_eq X CX vs ρ (dimsOk_sim h hd) (by rw [h.vdims]; exact hv) (by rw [h.nvdim]; exact hvl) hvd
    (by
      intro d hd'
      refine ⟨(hρ d hd').1, ?_⟩
      have := (hρ d hd').2
      unfold rDimLast at this ⊢
      rw [h.vmap, h.mesh.2.1]; exact this) hX
  obtain ⟨a0, a1, a2⟩ := x6 i
  obtain ⟨b0, b1, b2⟩ := y6 i
  have : c = 0 ∨ c = 1 ∨ c = 2 := by omega
  rcases this with rfl | rfl | rfl
  · rw [a0, b0, D_sim h 1 1 _ i (by omega) hi, D_sim h 2 1 _ i (by omega) hi]
  · rw [a1, b1, D_sim h 2 1 _ i (by omega) hi, D_sim h 0 1 _ i (by omega) hi]
  · rw [a2, b2, D_sim h 0 1 _ i (by omega) hi, D_sim h 1 1 _ i (by omega) hi]

/-- … and the vector Laplacian -/
theorem laplace_vector_congr (X Y LX LY : Fld) (vs : List String) (h : Sim X Y) (hd : DimsOk Y) (hn : Y.nvdim ≠ 1)
    (hv : Y.vdims = some vs) (hvl : vs.length = Y.nvdim) (hvd : hasDup vs = false)
    (hX : laplace X = .ok LX) (hY : laplace Y = .ok LY) (i : List Nat) (hi : i.length = X.mesh.ndim) (c : Nat) (hc : c < Y.nvdim) :
    (LX.data.get i).getD c 0 = (LY.data.get i).getD c 0 := by
  obtain ⟨_, _, _, y4⟩ := laplace_eq_vector Y LY vs hd hn hv hvl hvd hY
  obtain ⟨_, _, _, x4⟩ := laplace_eq_vector X LX vs (dimsOk_sim h hd) (by rw [h.nvdim]; exact hn) (by rw [h.vdims]; exact hv)
    (by rw [h.nvdim]; exact hvl) hvd hX
  rw [x4 i c (by rw [h.nvdim]; exact hc), y4 i c hc, ← h.mesh.1]
  exact sumTo_congr _ _ _ (fun a ha => D_sim h a 2 c i ha hi)

/-! ### `Field.rotate90(ax1, ax2, k)` in one go, every integer `k` -/

/-- **Refinement of the one-go turn to quarter turns, scalar fields.**  For every integer `k`,
`Field.rotate90(ax1, ax2, k)` computed in one go (`rot90FldK`) is accepted and cannot be told apart
(`Sim`: meshes alike, same values and validity flags at every well-formed multi-index, same labels
and mapping) from its target: the field itself (`k ≡ 0`), one quarter turn (`k ≡ 1`), two successive
quarter turns (`k ≡ 2`), or one quarter turn in the plane named the other way round (`k ≡ 3 mod 4`). -/
theorem rotate90_k_refines_turns_scalar (f Tg : Fld) (a b : Nat) (k : Int) (wf : MeshWf f) (tw : TurnWf f a b)
    (hsub : f.mesh.subs = []) (hvs : f.valid.shape = f.mesh.n) (hp : Plain f) (ha : a < f.mesh.ndim) (hb : b < f.mesh.ndim)
    (hab : a ≠ b)
    (hT : (if k % 4 = 0 then .ok f
           else if k % 4 = 1 then rot90Fld f (f.mesh.region.dims.getD a "") (f.mesh.region.dims.getD b "")
           else if k % 4 = 2 then rotIter (f.mesh.region.dims.getD a "") (f.mesh.region.dims.getD b "") 2 f
           else rot90Fld f (f.mesh.region.dims.getD b "") (f.mesh.region.dims.getD a "")) = .ok Tg) :
    ∃ R', rot90FldK f (f.mesh.region.dims.getD a "") (f.mesh.region.dims.getD b "") k = .ok R' ∧ Plain R' ∧ Sim R' Tg := by
  obtain ⟨R', h1, h2, h3, _⟩ := simK_scalar f Tg a b k wf tw hsub hvs hp ha hb hab hT
  exact ⟨R', h1, h2, h3⟩

/-- **Refinement of the one-go turn to quarter turns, vector fields**: likewise, with the two
paired components multiplied by the matrix of `cos/sin(k·π/2)` in one go on one side and turned
quarter turn by quarter turn on the other. -/
theorem rotate90_k_refines_turns_vector (f Tg : Fld) (a b v1 v2 : Nat) (vs : List String) (k : Int) (wf : MeshWf f)
    (tw : TurnWf f a b) (hsub : f.mesh.subs = []) (hvs : f.valid.shape = f.mesh.n)
    (ha : a < f.mesh.ndim) (hb : b < f.mesh.ndim) (hab : a ≠ b) (hn : 1 < f.nvdim)
    (hv : f.vdims = some vs) (hvl : vs.length = f.nvdim) (hvd : hasDup vs = false)
    (hkeys : (f.vmap.map (·.1)).isPerm vs = true) (hmap : 0 < f.vmap.length)
    (hraw : ∀ i, (f.data.get i).length = f.nvdim)
    (h1 : (rDimLast f (f.mesh.region.dims.getD a "")).bind f.vdimIndex = some v1)
    (h2 : (rDimLast f (f.mesh.region.dims.getD b "")).bind f.vdimIndex = some v2)
    (hv1 : v1 < f.nvdim) (hv2 : v2 < f.nvdim) (h12 : v1 ≠ v2)
    (hT : (if k % 4 = 0 then .ok f
           else if k % 4 = 1 then rot90Fld f (f.mesh.region.dims.getD a "") (f.mesh.region.dims.getD b "")
           else if k % 4 = 2 then rotIter (f.mesh.region.dims.getD a "") (f.mesh.region.dims.getD b "") 2 f
           else rot90Fld f (f.mesh.region.dims.getD b "") (f.mesh.region.dims.getD a "")) = .ok Tg) :
    ∃ R', rot90FldK f (f.mesh.region.dims.getD a "") (f.mesh.region.dims.getD b "") k = .ok R' ∧ Sim R' Tg := by
  obtain ⟨R', k1, k2, _⟩ := simK_vector f Tg a b v1 v2 vs k wf tw hsub hvs
    ⟨hn, hv, hvl, hvd, hkeys, hmap, h1, h2, hv1, hv2, h12, hraw⟩ ha hb hab hT
  exact ⟨R', k1, k2⟩

/-- **The scalar Laplacian commutes with `Field.rotate90(ax1, ax2, k)` for EVERY integer `k`**
(negative included) — on the code-shaped model `rot90FldK` that computes the turn in one go like
the code (`np.rot90(·, k)`, corners turned by the matrix of `cos/sin(k·π/2)`, counts / units / `bc`
exchanged for odd `k`): every validity mask, every mesh dimension, every plane of axes, every
combination of open and periodic axes in the plane.  All four fields exist and
`laplace(rotate90(f, k)) = rotate90(laplace(f), k)` at every cell. -/
theorem laplace_rot90_all_k (f : Fld) (a b : Nat) (k : Int) (wf : MeshWf f) (tw : TurnWf f a b) (hsub : f.mesh.subs = [])
    (hvs : f.valid.shape = f.mesh.n) (hp : Plain f) (ha : a < f.mesh.ndim) (hb : b < f.mesh.ndim) (hab : a ≠ b) :
    ∃ R L LR RL, rot90FldK f (f.mesh.region.dims.getD a "") (f.mesh.region.dims.getD b "") k = .ok R ∧ laplace f = .ok L ∧
      laplace R = .ok LR ∧ rot90FldK L (f.mesh.region.dims.getD a "") (f.mesh.region.dims.getD b "") k = .ok RL ∧
      ∀ i, InMesh R i → (LR.data.get i).getD 0 0 = (RL.data.get i).getD 0 0 := by
  -- the target (0, 1 or 2 quarter turns, or one quarter turn in the plane named the other way round) commutes
  have TC : ∃ Tg L LT TL, targetK (f.mesh.region.dims.getD a "") (f.mesh.region.dims.getD b "") k f = .ok Tg ∧ laplace f = .ok L ∧
      laplace Tg = .ok LT ∧ targetK (f.mesh.region.dims.getD a "") (f.mesh.region.dims.getD b "") k L = .ok TL ∧
      ∀ i, InMesh Tg i → (LT.data.get i).getD 0 0 = (TL.data.get i).getD 0 0 := by
    by_cases h3 : k % 4 = 3
    · obtain ⟨R, L, LR, RL, h1, h2, h4, h5⟩ := laplace_rot90_defined f b a wf (turnWf_symm wf ha hb hab tw) hsub hp hb ha (Ne.symm hab)
      obtain ⟨_, l2, _, _⟩ := laplace_eq_scalar f L wf.dims hp.1 h2
      refine ⟨R, L, LR, RL, by rw [targetK_k3 _ _ _ _ h3]; exact h1, h2, h4, by rw [targetK_k3 _ _ _ _ h3, ← l2]; exact h5, ?_⟩
      exact laplace_rot90_quarter f R L LR RL b a wf hp.1 hvs hb ha (Ne.symm hab) (turnWf_symm wf ha hb hab tw) h1 h2 h4 h5
    · obtain ⟨R, L, LR, RL, h1, h2, h4, h5, h6⟩ := laplace_rot90_iter f a b (k % 4).toNat wf tw hsub hvs hp ha hb hab
      exact ⟨R, L, LR, RL, by rw [targetK_eq_iter _ _ _ _ h3]; exact h1, h2, h4, by rw [targetK_eq_iter _ _ _ _ h3]; exact h5, h6⟩
  obtain ⟨Tg, L, LT, TL, hT, hL, hLT, hTL, heq⟩ := TC
  obtain ⟨R', hR', pR', hsim, hnd, hdm⟩ := simK_scalar f Tg a b k wf tw hsub hvs hp ha hb hab hT
  have hdR : DimsOk R' := dimsOk_of_eq wf.dims hnd hdm
  obtain ⟨LR', hLR'⟩ := laplace_accepts R' hdR (by rw [hnd]; omega) (Or.inl pR')
  obtain ⟨RL', hRL', hres⟩ := resK_scalar f L TL a b k wf tw hsub (laplace_scalar_result f L wf hp hL) ha hb hab hTL
  refine ⟨R', L, LR', RL', hR', hL, hLR', hRL', ?_⟩
  intro i hi
  rw [laplace_congr R' Tg LR' LT hsim (dimsOk_sim' hsim hdR) pR'.1 hLR' hLT i hi.1, heq i (inMesh_sim hsim i hi),
    hres i (by rw [← hnd]; exact hi.1) 0]

/-- **The gradient commutes with `Field.rotate90(ax1, ax2, k)` for every integer `k`** (every mesh
dimension ≥ 2, every mask, open and periodic axes), component by component at every cell. -/
theorem grad_rot90_all_k (f : Fld) (a b : Nat) (k : Int) (wf : MeshWf f) (tw : TurnWf f a b) (hsub : f.mesh.subs = [])
    (hvs : f.valid.shape = f.mesh.n) (hp : Plain f) (ha : a < f.mesh.ndim) (hb : b < f.mesh.ndim) (hab : a ≠ b) :
    ∃ R G GR RG, rot90FldK f (f.mesh.region.dims.getD a "") (f.mesh.region.dims.getD b "") k = .ok R ∧ grad f = .ok G ∧
      grad R = .ok GR ∧ rot90FldK G (f.mesh.region.dims.getD a "") (f.mesh.region.dims.getD b "") k = .ok RG ∧
      ∀ i, InMesh R i → ∀ e, e < f.mesh.ndim → (GR.data.get i).getD e 0 = (RG.data.get i).getD e 0 := by
  have hn2 : 2 ≤ f.mesh.ndim := by omega
  obtain ⟨labels, hlab, hlen, hnd'⟩ := posVdims_nodup f.mesh.ndim hn2
  have TC : ∃ Tg G GT TG, targetK (f.mesh.region.dims.getD a "") (f.mesh.region.dims.getD b "") k f = .ok Tg ∧ grad f = .ok G ∧
      grad Tg = .ok GT ∧ targetK (f.mesh.region.dims.getD a "") (f.mesh.region.dims.getD b "") k G = .ok TG ∧
      ∀ i, InMesh Tg i → ∀ e, e < f.mesh.ndim → (GT.data.get i).getD e 0 = (TG.data.get i).getD e 0 := by
    by_cases h3 : k % 4 = 3
    · have tw' := turnWf_symm wf ha hb hab tw
      obtain ⟨R, G, GR, RG, h1, h2, h4, h5⟩ := grad_rot90_defined f b a wf tw' hsub hp hb ha (Ne.symm hab)
      obtain ⟨_, _, g3, _, _⟩ := grad_eq f G wf.dims h2
      refine ⟨R, G, GR, RG, by rw [targetK_k3 _ _ _ _ h3]; exact h1, h2, h4, by rw [targetK_k3 _ _ _ _ h3, ← g3]; exact h5, ?_⟩
      exact grad_rot90_quarter f R G GR RG b a wf hp hvs hb ha (Ne.symm hab) tw' h1 h2 h4 h5
    · obtain ⟨R, G, GR, RG, h1, h2, h4, h5, h6⟩ := grad_rot90_iter f a b (k % 4).toNat wf tw hsub hvs hp ha hb hab
      exact ⟨R, G, GR, RG, by rw [targetK_eq_iter _ _ _ _ h3]; exact h1, h2, h4, by rw [targetK_eq_iter _ _ _ _ h3]; exact h5, h6⟩
  obtain ⟨Tg, G, GT, TG, hT, hG, hGT, hTG, heq⟩ := TC
  obtain ⟨R', hR', pR', hsim, hnd, hdm⟩ := simK_scalar f Tg a b k wf tw hsub hvs hp ha hb hab hT
  have hdR : DimsOk R' := dimsOk_of_eq wf.dims hnd hdm
  obtain ⟨GR', hGR'⟩ := grad_accepts R' pR' hdR (by rw [hnd]; omega)
  obtain ⟨RG', hRG', hres⟩ := resK_vector f G TG a b a b labels k wf tw hsub
    (grad_result f G a b labels wf hp ha hb hab hlab hlen hnd' hG) ha hb hab hTG
  refine ⟨R', G, GR', RG', hR', hG, hGR', hRG', ?_⟩
  intro i hi e he
  rw [grad_congr R' Tg GR' GT hsim (dimsOk_sim' hsim hdR) hGR' hGT i hi.1 e (by rw [hnd]; exact he),
    heq i (inMesh_sim hsim i hi) e he, hres i (by rw [← hnd]; exact hi.1) e]

/-- **The divergence commutes with `Field.rotate90(ax1, ax2, k)` for every integer `k`** (one-to-one
mapping of components onto axes, every mask, open and periodic axes). -/
theorem div_rot90_all_k (f : Fld) (a b v1 v2 : Nat) (k : Int) (vs : List String) (σ : Nat → Nat)
    (wf : MeshWf f) (tw : TurnWf f a b) (hsub : f.mesh.subs = []) (hvs : f.valid.shape = f.mesh.n)
    (ha : a < f.mesh.ndim) (hb : b < f.mesh.ndim) (hab : a ≠ b)
    (hn : 1 < f.nvdim) (hnn : f.nvdim = f.mesh.ndim)
    (hv : f.vdims = some vs) (hvl : vs.length = f.nvdim) (hvd : hasDup vs = false)
    (hkeys : (f.vmap.map (·.1)).isPerm vs = true)
    (hraw : ∀ i, (f.data.get i).length = f.nvdim)
    (hσ : ∀ c, c < f.nvdim → σ c < f.mesh.ndim ∧
      Fld.lookup f.vmap (vs.getD c "") = some (f.mesh.region.dims.getD (σ c) ""))
    (h1 : (rDimLast f (f.mesh.region.dims.getD a "")).bind f.vdimIndex = some v1)
    (h2 : (rDimLast f (f.mesh.region.dims.getD b "")).bind f.vdimIndex = some v2)
    (hv1 : v1 < f.nvdim) (hv2 : v2 < f.nvdim) (hs1 : σ v1 = a) (hs2 : σ v2 = b)
    (hoth : ∀ c, c < f.nvdim → c ≠ v1 → c ≠ v2 → σ c ≠ a ∧ σ c ≠ b) :
    ∃ R Dv DR RD, rot90FldK f (f.mesh.region.dims.getD a "") (f.mesh.region.dims.getD b "") k = .ok R ∧ div f = .ok Dv ∧
      div R = .ok DR ∧ rot90FldK Dv (f.mesh.region.dims.getD a "") (f.mesh.region.dims.getD b "") k = .ok RD ∧
      ∀ i, InMesh R i → (DR.data.get i).getD 0 0 = (RD.data.get i).getD 0 0 := by
  have h12 : v1 ≠ v2 := by intro he; rw [he, hs2] at hs1; exact hab hs1.symm
  have hmap : 0 < f.vmap.length := by
    have := (hσ v1 hv1).2
    cases hq : f.vmap with
    | nil => rw [hq] at this; simp [Fld.lookup] at this
    | cons _ _ => simp
  have hX : VecMeta a b v1 v2 vs f := ⟨hn, hv, hvl, hvd, hkeys, hmap, h1, h2, hv1, hv2, h12, hraw⟩
  have TC : ∃ Tg Dv DT TD, targetK (f.mesh.region.dims.getD a "") (f.mesh.region.dims.getD b "") k f = .ok Tg ∧ div f = .ok Dv ∧
      div Tg = .ok DT ∧ targetK (f.mesh.region.dims.getD a "") (f.mesh.region.dims.getD b "") k Dv = .ok TD ∧
      ∀ i, InMesh Tg i → (DT.data.get i).getD 0 0 = (TD.data.get i).getD 0 0 := by
    by_cases h3 : k % 4 = 3
    · have tw' := turnWf_symm wf ha hb hab tw
      obtain ⟨R, Dv, DR, RD, k1, k2, k4, k5⟩ := div_rot90_defined f b a v2 v1 vs σ wf tw' hsub hb ha (Ne.symm hab) hn hnn hv hvl hvd
        hkeys hσ h2 h1
      obtain ⟨_, _, d3, _, _⟩ := div_eq f Dv vs σ wf.dims hv hvl hvd hσ k2
      refine ⟨R, Dv, DR, RD, by rw [targetK_k3 _ _ _ _ h3]; exact k1, k2, k4, by rw [targetK_k3 _ _ _ _ h3, ← d3]; exact k5, ?_⟩
      exact div_rot90_quarter f R Dv DR RD b a v2 v1 vs σ wf hvs hb ha (Ne.symm hab) tw' hn hv hvl hvd hraw hσ h2 h1 hv2 hv1 hs2 hs1
        (fun c hc c2 c1 => (hoth c hc c1 c2).symm) k1 k2 k4 k5
    · obtain ⟨R, Dv, DR, RD, k1, k2, k4, k5, k6⟩ := div_rot90_iter f a b v1 v2 (k % 4).toNat vs σ wf tw hsub hvs ha hb hab hn hnn hv hvl
        hvd hkeys hraw hσ h1 h2 hv1 hv2 hs1 hs2 hoth
      exact ⟨R, Dv, DR, RD, by rw [targetK_eq_iter _ _ _ _ h3]; exact k1, k2, k4, by rw [targetK_eq_iter _ _ _ _ h3]; exact k5, k6⟩
  obtain ⟨Tg, Dv, DT, TD, hT, hD, hDT, hTD, heq⟩ := TC
  obtain ⟨R', hR', hsim, hnd, hdm, e1, e2, e3⟩ := simK_vector f Tg a b v1 v2 vs k wf tw hsub hvs hX ha hb hab hT
  have hdR : DimsOk R' := dimsOk_of_eq wf.dims hnd hdm
  have hσR : ∀ c, c < R'.nvdim → σ c < R'.mesh.ndim ∧
      Fld.lookup R'.vmap (vs.getD c "") = some (R'.mesh.region.dims.getD (σ c) "") := by
    intro c hc; rw [e1] at hc; rw [hnd, e3, hdm]; exact hσ c hc
  obtain ⟨DR', hDR'⟩ := div_accepts R' vs σ hdR (by rw [e1, hnd]; exact hnn) (by rw [e1]; omega) (by rw [e2]; exact hv)
    (by rw [e1]; exact hvl) hvd hσR
  obtain ⟨RD', hRD', hres⟩ := resK_scalar f Dv TD a b k wf tw hsub (div_result f Dv vs σ wf hv hvl hvd hσ hD) ha hb hab hTD
  refine ⟨R', Dv, DR', RD', hR', hD, hDR', hRD', ?_⟩
  intro i hi
  have hσT : ∀ c, c < Tg.nvdim → σ c < Tg.mesh.ndim ∧
      Fld.lookup Tg.vmap (vs.getD c "") = some (Tg.mesh.region.dims.getD (σ c) "") := by
    intro c hc; rw [← hsim.nvdim] at hc; rw [← hsim.mesh.1, ← hsim.vmap, ← hsim.mesh.2.1]; exact hσR c hc
  rw [div_congr R' Tg DR' DT vs σ hsim (dimsOk_sim' hsim hdR) (by rw [← hsim.vdims, e2]; exact hv)
      (by rw [← hsim.nvdim, e1]; exact hvl) hvd hσT hDR' hDT i hi.1,
    heq i (inMesh_sim hsim i hi), hres i (by rw [← hnd]; exact hi.1) 0]

/-- **The curl commutes with `Field.rotate90(ax1, ax2, k)` for every integer `k`** (one-to-one
pairing of the three components with the three axes, every mask, open and periodic axes). -/
theorem curl_rot90_all_k (f : Fld) (a b : Nat) (k : Int) (vs : List String) (σ ρ : Nat → Nat)
    (wf : MeshWf f) (tw : TurnWf f a b) (hsub : f.mesh.subs = []) (hvs : f.valid.shape = f.mesh.n)
    (ha : a < 3) (hb : b < 3) (hab : a ≠ b) (hn : f.nvdim = 3) (hnd : f.mesh.ndim = 3)
    (hv : f.vdims = some vs) (hvl : vs.length = f.nvdim) (hvd : hasDup vs = false)
    (hkeys : (f.vmap.map (·.1)).isPerm vs = true)
    (hraw : ∀ i, (f.data.get i).length = f.nvdim)
    (hσ : ∀ c, c < 3 → σ c < 3 ∧ Fld.lookup f.vmap (vs.getD c "") = some (f.mesh.region.dims.getD (σ c) ""))
    (hρ : ∀ d, d < 3 → ρ d < 3 ∧ rDimLast f (f.mesh.region.dims.getD d "") = some (vs.getD (ρ d) ""))
    (hinj : ρ 0 ≠ ρ 1 ∧ ρ 0 ≠ ρ 2 ∧ ρ 1 ≠ ρ 2) :
    ∃ R C CR RC, rot90FldK f (f.mesh.region.dims.getD a "") (f.mesh.region.dims.getD b "") k = .ok R ∧ curl f = .ok C ∧
      curl R = .ok CR ∧ rot90FldK C (f.mesh.region.dims.getD a "") (f.mesh.region.dims.getD b "") k = .ok RC ∧
      ∀ i, InMesh R i → ∀ c, c < 3 → (CR.data.get i).getD c 0 = (RC.data.get i).getD c 0 := by
  have ha' : a < f.mesh.ndim := by omega
  have hb' : b < f.mesh.ndim := by omega
  have hmap : 0 < f.vmap.length := by
    have := (hσ 0 (by omega)).2
    cases hq : f.vmap with
    | nil => rw [hq] at this; simp [Fld.lookup] at this
    | cons _ _ => simp
  have hl : ∀ d, d < 3 → ρ d < vs.length := fun d hd => by rw [hvl, hn]; exact (hρ d hd).1
  have hpair : ∀ d, d < 3 → (rDimLast f (f.mesh.region.dims.getD d "")).bind f.vdimIndex = some (ρ d) := by
    intro d hd
    rw [(hρ d hd).2]
    simp only [Option.bind_some]
    exact vdimIndex_getD f vs hv hvd (ρ d) (hl d hd)
  have hρab : ρ a ≠ ρ b := by
    obtain ⟨h01, h02, h12⟩ := hinj
    have : (a = 0 ∨ a = 1 ∨ a = 2) ∧ (b = 0 ∨ b = 1 ∨ b = 2) := by omega
    rcases this with ⟨rfl | rfl | rfl, rfl | rfl | rfl⟩ <;> first | exact absurd rfl hab | assumption | exact Ne.symm ‹_›
  have hX : VecMeta a b (ρ a) (ρ b) vs f :=
    ⟨by omega, hv, hvl, hvd, hkeys, hmap, hpair a ha, hpair b hb, by rw [hn]; exact (hρ a ha).1, by rw [hn]; exact (hρ b hb).1,
     hρab, hraw⟩
  have TC : ∃ Tg C CT TC', targetK (f.mesh.region.dims.getD a "") (f.mesh.region.dims.getD b "") k f = .ok Tg ∧ curl f = .ok C ∧
      curl Tg = .ok CT ∧ targetK (f.mesh.region.dims.getD a "") (f.mesh.region.dims.getD b "") k C = .ok TC' ∧
      ∀ i, InMesh Tg i → ∀ c, c < 3 → (CT.data.get i).getD c 0 = (TC'.data.get i).getD c 0 := by
    by_cases h3 : k % 4 = 3
    · have tw' := turnWf_symm wf ha' hb' hab tw
      obtain ⟨R, C, CR, RC, k1, k2, k4, k5⟩ := curl_rot90_defined f b a vs σ ρ wf tw' hsub hb ha (Ne.symm hab) hn hnd hv hvl hvd hkeys hσ hρ
      obtain ⟨_, _, _, c4, _, _⟩ := curl_eq f C vs ρ wf.dims hv hvl hvd hρ k2
      refine ⟨R, C, CR, RC, by rw [targetK_k3 _ _ _ _ h3]; exact k1, k2, k4, by rw [targetK_k3 _ _ _ _ h3, ← c4]; exact k5, ?_⟩
      exact curl_rot90_quarter f R C CR RC b a vs ρ wf hvs hb ha (Ne.symm hab) tw' hv hvl hvd hraw hmap hρ hinj k1 k2 k4 k5
    · obtain ⟨R, C, CR, RC, k1, k2, k4, k5, k6⟩ := curl_rot90_iter f a b (k % 4).toNat vs σ ρ wf tw hsub hvs ha hb hab hn hnd hv hvl hvd
        hkeys hraw hσ hρ hinj
      exact ⟨R, C, CR, RC, by rw [targetK_eq_iter _ _ _ _ h3]; exact k1, k2, k4, by rw [targetK_eq_iter _ _ _ _ h3]; exact k5, k6⟩
  obtain ⟨Tg, C, CT, TC', hT, hC, hCT, hTC, heq⟩ := TC
  obtain ⟨R', hR', hsim, hnd', hdm, e1, e2, e3⟩ := simK_vector f Tg a b (ρ a) (ρ b) vs k wf tw hsub hvs hX ha' hb' hab hT
  have hdR : DimsOk R' := dimsOk_of_eq wf.dims hnd' hdm
  have hσR : ∀ c, c < 3 → σ c < 3 ∧ Fld.lookup R'.vmap (vs.getD c "") = some (R'.mesh.region.dims.getD (σ c) "") := by
    intro c hc; rw [e3, hdm]; exact hσ c hc
  have hρR : ∀ d, d < 3 → ρ d < 3 ∧ rDimLast R' (R'.mesh.region.dims.getD d "") = some (vs.getD (ρ d) "") := by
    intro d hd
    refine ⟨(hρ d hd).1, ?_⟩
    have := (hρ d hd).2
    unfold rDimLast at this ⊢
    rw [e3, hdm]; exact this
  obtain ⟨CR', hCR'⟩ := curl_accepts R' vs σ ρ hdR (by rw [e1, hn]) (by rw [hnd', hnd]) (by rw [e2]; exact hv) (by rw [e1]; exact hvl) hvd
    hσR hρR
  obtain ⟨RC', hRC', hres⟩ := resK_vector f C TC' a b a b ["x", "y", "z"] k wf tw hsub
    (curl_result f C a b vs ρ wf ha hb hab hv hvl hvd hρ hC) ha' hb' hab hTC
  refine ⟨R', C, CR', RC', hR', hC, hCR', hRC', ?_⟩
  intro i hi c hc
  have hρT : ∀ d, d < 3 → ρ d < 3 ∧ rDimLast Tg (Tg.mesh.region.dims.getD d "") = some (vs.getD (ρ d) "") := by
    intro d hd
    refine ⟨(hρ d hd).1, ?_⟩
    have := (hρR d hd).2
    unfold rDimLast at this ⊢
    rw [← hsim.vmap, ← hsim.mesh.2.1]; exact this
  rw [curl_congr R' Tg CR' CT vs ρ hsim (dimsOk_sim' hsim hdR) (by rw [← hsim.vdims, e2]; exact hv)
      (by rw [← hsim.nvdim, e1]; exact hvl) hvd hρT hCR' hCT i hi.1 c hc,
    heq i (inMesh_sim hsim i hi) c hc, hres i (by rw [← hnd']; exact hi.1) c]

/-- **The vector Laplacian commutes with `Field.rotate90(ax1, ax2, k)` for every integer `k`** (any
mapping that pairs the two axes of the plane with two different components, every mask, open and
periodic axes). -/
theorem laplace_rot90_vector_all_k (f : Fld) (a b v1 v2 : Nat) (k : Int) (vs : List String)
    (wf : MeshWf f) (tw : TurnWf f a b) (hsub : f.mesh.subs = []) (hvs : f.valid.shape = f.mesh.n)
    (ha : a < f.mesh.ndim) (hb : b < f.mesh.ndim) (hab : a ≠ b) (hn : 1 < f.nvdim)
    (hv : f.vdims = some vs) (hvl : vs.length = f.nvdim) (hvd : hasDup vs = false)
    (hkeys : (f.vmap.map (·.1)).isPerm vs = true) (hmap : 0 < f.vmap.length)
    (hraw : ∀ i, (f.data.get i).length = f.nvdim)
    (h1 : (rDimLast f (f.mesh.region.dims.getD a "")).bind f.vdimIndex = some v1)
    (h2 : (rDimLast f (f.mesh.region.dims.getD b "")).bind f.vdimIndex = some v2)
    (hv1 : v1 < f.nvdim) (hv2 : v2 < f.nvdim) (h12 : v1 ≠ v2) :
    ∃ R L LR RL, rot90FldK f (f.mesh.region.dims.getD a "") (f.mesh.region.dims.getD b "") k = .ok R ∧ laplace f = .ok L ∧
      laplace R = .ok LR ∧ rot90FldK L (f.mesh.region.dims.getD a "") (f.mesh.region.dims.getD b "") k = .ok RL ∧
      ∀ i, InMesh R i → ∀ c, c < f.nvdim → (LR.data.get i).getD c 0 = (RL.data.get i).getD c 0 := by
  have hX : VecMeta a b v1 v2 vs f := ⟨hn, hv, hvl, hvd, hkeys, hmap, h1, h2, hv1, hv2, h12, hraw⟩
  have hn1 : f.nvdim ≠ 1 := by omega
  have TC : ∃ Tg L LT TL, targetK (f.mesh.region.dims.getD a "") (f.mesh.region.dims.getD b "") k f = .ok Tg ∧ laplace f = .ok L ∧
      laplace Tg = .ok LT ∧ targetK (f.mesh.region.dims.getD a "") (f.mesh.region.dims.getD b "") k L = .ok TL ∧
      ∀ i, InMesh Tg i → ∀ c, c < f.nvdim → (LT.data.get i).getD c 0 = (TL.data.get i).getD c 0 := by
    by_cases h3 : k % 4 = 3
    · have tw' := turnWf_symm wf ha hb hab tw
      obtain ⟨R, L, LR, RL, k1, k2, k4, k5⟩ := laplace_rot90_vector_defined f b a v2 v1 vs wf tw' hsub hb ha (Ne.symm hab) hn hv hvl hvd
        hkeys hmap h2 h1
      obtain ⟨_, l2, _, _⟩ := laplace_eq_vector f L vs wf.dims hn1 hv hvl hvd k2
      refine ⟨R, L, LR, RL, by rw [targetK_k3 _ _ _ _ h3]; exact k1, k2, k4, by rw [targetK_k3 _ _ _ _ h3, ← l2]; exact k5, ?_⟩
      exact laplace_rot90_vector_quarter f R L LR RL b a v2 v1 vs wf tw' hvs hb ha (Ne.symm hab) hn hv hvl hvd hraw hmap h2 h1 hv2 hv1
        (Ne.symm h12) k1 k2 k4 k5
    · obtain ⟨R, L, LR, RL, k1, k2, k4, k5, k6⟩ := laplace_rot90_vector_iter f a b v1 v2 (k % 4).toNat vs wf tw hsub hvs ha hb hab hn hv
        hvl hvd hkeys hmap hraw h1 h2 hv1 hv2 h12
      exact ⟨R, L, LR, RL, by rw [targetK_eq_iter _ _ _ _ h3]; exact k1, k2, k4, by rw [targetK_eq_iter _ _ _ _ h3]; exact k5, k6⟩
  obtain ⟨Tg, L, LT, TL, hT, hL, hLT, hTL, heq⟩ := TC
  obtain ⟨R', hR', hsim, hnd, hdm, e1, e2, e3⟩ := simK_vector f Tg a b v1 v2 vs k wf tw hsub hvs hX ha hb hab hT
  have hdR : DimsOk R' := dimsOk_of_eq wf.dims hnd hdm
  obtain ⟨LR', hLR'⟩ := laplace_accepts R' hdR (by rw [hnd]; omega)
    (Or.inr ⟨by rw [e1]; exact hn, vs, by rw [e2]; exact hv, by rw [e1]; exact hvl, hvd, Or.inr (by rw [e3]; exact hkeys)⟩)
  obtain ⟨RL', hRL', hres⟩ := resK_vector f L TL a b v1 v2 vs k wf tw hsub (laplace_vector_result f L a b v1 v2 vs wf hX hL) ha hb hab hTL
  refine ⟨R', L, LR', RL', hR', hL, hLR', hRL', ?_⟩
  intro i hi c hc
  rw [laplace_vector_congr R' Tg LR' LT vs hsim (dimsOk_sim' hsim hdR) (by rw [← hsim.nvdim, e1]; exact hn1)
      (by rw [← hsim.vdims, e2]; exact hv) (by rw [← hsim.nvdim, e1]; exact hvl) hvd hLR' hLT i hi.1 c
      (by rw [← hsim.nvdim, e1]; exact hc),
    heq i (inMesh_sim hsim i hi) c hc, hres i (by rw [← hnd]; exact hi.1) c]

/-! ## 9. Storage order is immaterial: `div` and `curl` are decided by the mapping -/

/-- **Divergence is invariant under permuting the storage order of the components together with
the mapping** (`div_perm`): if `g` stores the components of `f` in another order `π` (under any new
labels `ws`), and its mapping sends each relocated component to the axis `f`'s mapping sends the
original to, then `div g` is accepted whenever `div f` is and the two agree at every cell —
for every mask, every periodicity, every mesh dimension. -/
theorem div_perm (f g Df : Fld) (vs ws : List String) (σ π π' : Nat → Nat) (hdims : DimsOk f)
    (hmesh : g.mesh = f.mesh) (hnv : g.nvdim = f.nvdim) (hvalid : ∀ j, g.valid.get j = f.valid.get j)
    (hdata : ∀ j k, k < f.nvdim → (g.data.get j).getD k 0 = (f.data.get j).getD (π k) 0)
    (hπ : ∀ k, k < f.nvdim → π k < f.nvdim ∧ π' (π k) = k) (hπ' : ∀ c, c < f.nvdim → π' c < f.nvdim ∧ π (π' c) = c)
    (hv : f.vdims = some vs) (hvl : vs.length = f.nvdim) (hvd : hasDup vs = false)
    (hσ : ∀ c, c < f.nvdim → σ c < f.mesh.ndim ∧
      Fld.lookup f.vmap (vs.getD c "") = some (f.mesh.region.dims.getD (σ c) ""))
    (hw : g.vdims = some ws) (hwl : ws.length = g.nvdim) (hwd : hasDup ws = false)
    (hτ : ∀ k, k < f.nvdim → Fld.lookup g.vmap (ws.getD k "") = some (f.mesh.region.dims.getD (σ (π k)) ""))
    (hDf : div f = .ok Df) :
    ∃ Dg, div g = .ok Dg ∧ ∀ i, (Dg.data.get i).getD 0 0 = (Df.data.get i).getD 0 0 := by
  obtain ⟨hnn, _, _, _, d5⟩ := div_eq f Df vs σ hdims hv hvl hvd hσ hDf
  have hgd : DimsOk g := by unfold DimsOk; rw [hmesh]; exact hdims
  have hσg : ∀ k, k < g.nvdim → (fun k => σ (π k)) k < g.mesh.ndim ∧
      Fld.lookup g.vmap (ws.getD k "") = some (g.mesh.region.dims.getD ((fun k => σ (π k)) k) "") := by
    intro k hk
    rw [hnv] at hk
    rw [hmesh]
    exact ⟨(hσ (π k) (hπ k hk).1).1, hτ k hk⟩
  have hpos : 1 ≤ g.nvdim := by
    rw [hnv]
    unfold div at hDf
    by_contra h0
    have : f.nvdim = 0 := by omega
    rw [hv] at hDf
    have hvs : vs = [] := List.length_eq_zero_iff.mp (by rw [hvl, this])
    subst hvs
    split at hDf
    · cases hDf
    · simp [allMapped, mapE, sumF] at hDf
  obtain ⟨Dg, hDg⟩ := div_accepts g ws (fun k => σ (π k)) hgd (by rw [hnv, hmesh]; exact hnn) hpos hw hwl hwd hσg
  obtain ⟨_, _, _, _, g5⟩ := div_eq g Dg ws (fun k => σ (π k)) hgd hw hwl hwd hσg hDg
  refine ⟨Dg, hDg, ?_⟩
  intro i
  rw [g5 i, d5 i, hnv, ← sumTo_perm f.nvdim π π' hπ hπ' (fun c => D f (σ c) 1 c i)]
  apply sumTo_congr
  intro k hk
  exact D_congr_comp f g _ 1 k (π k) i hmesh hvalid (fun j => hdata j k hk)

/-- **Curl is invariant under permuting the storage order of the components together with the
mapping** (`curl_perm`): if `g` stores the components of `f` in another order `π` under new labels
`ws`, every new label is mapped onto an axis, and the reversed mapping of `g` pairs each axis with
the relocated component that `f` pairs with it, then `curl g` is accepted whenever `curl f` is and
the two results — whose components are in AXIS order — are equal component by component at every
cell. -/
theorem curl_perm (f g Cf : Fld) (vs ws : List String) (ρ σg π π' : Nat → Nat) (hdims : DimsOk f)
    (hmesh : g.mesh = f.mesh) (hnv : g.nvdim = f.nvdim) (hvalid : ∀ j, g.valid.get j = f.valid.get j)
    (hdata : ∀ j k, k < f.nvdim → (g.data.get j).getD k 0 = (f.data.get j).getD (π k) 0)
    (hπ' : ∀ c, c < f.nvdim → π' c < f.nvdim ∧ π (π' c) = c)
    (hv : f.vdims = some vs) (hvl : vs.length = f.nvdim) (hvd : hasDup vs = false)
    (hρ : ∀ d, d < 3 → ρ d < 3 ∧ rDimLast f (f.mesh.region.dims.getD d "") = some (vs.getD (ρ d) ""))
    (hw : g.vdims = some ws) (hwl : ws.length = g.nvdim) (hwd : hasDup ws = false)
    (hσg : ∀ c, c < 3 → σg c < 3 ∧ Fld.lookup g.vmap (ws.getD c "") = some (f.mesh.region.dims.getD (σg c) ""))
    (hτ : ∀ d, d < 3 → rDimLast g (f.mesh.region.dims.getD d "") = some (ws.getD (π' (ρ d)) ""))
    (hCf : curl f = .ok Cf) :
    ∃ Cg, curl g = .ok Cg ∧ ∀ i c, c < 3 → (Cg.data.get i).getD c 0 = (Cf.data.get i).getD c 0 := by
  obtain ⟨hn3, hnd, _, _, _, c6⟩ := curl_eq f Cf vs ρ hdims hv hvl hvd hρ hCf
  have hgd : DimsOk g := by unfold DimsOk; rw [hmesh]; exact hdims
  have hρg : ∀ d, d < 3 → (fun d => π' (ρ d)) d < 3 ∧
      rDimLast g (g.mesh.region.dims.getD d "") = some (ws.getD ((fun d => π' (ρ d)) d) "") := by
    intro d hd
    rw [hmesh]
    have := (hπ' (ρ d) (by rw [hn3]; exact (hρ d hd).1)).1
    exact ⟨by rw [hn3] at this; exact this, hτ d hd⟩
  obtain ⟨Cg, hCg⟩ := curl_accepts g ws σg (fun d => π' (ρ d)) hgd (by rw [hnv, hn3]) (by rw [hmesh]; exact hnd) hw hwl hwd
    (by intro c hc; rw [hmesh]; exact hσg c hc) hρg
  obtain ⟨_, _, _, _, _, g6⟩ := curl_eq g Cg ws (fun d => π' (ρ d)) hgd hw hwl hwd hρg hCg
  refine ⟨Cg, hCg, ?_⟩
  have key : ∀ ax d, d < 3 → ∀ i, D g ax 1 (π' (ρ d)) i = D f ax 1 (ρ d) i := by
    intro ax d hd i
    have h1 := hπ' (ρ d) (by rw [hn3]; exact (hρ d hd).1)
    have := D_congr_comp f g ax 1 (π' (ρ d)) (π (π' (ρ d))) i hmesh hvalid (fun j => hdata j _ h1.1)
    rw [this, h1.2]
  intro i c hc
  obtain ⟨e0, e1, e2⟩ := g6 i
  obtain ⟨f0, f1, f2⟩ := c6 i
  have : c = 0 ∨ c = 1 ∨ c = 2 := by omega
  rcases this with rfl | rfl | rfl
  · rw [e0, f0]; simp only [key _ _ (by omega : (2:Nat) < 3), key _ _ (by omega : (1:Nat) < 3)]
  · rw [e1, f1]; simp only [key _ _ (by omega : (0:Nat) < 3), key _ _ (by omega : (2:Nat) < 3)]
  · rw [e2, f2]; simp only [key _ _ (by omega : (1:Nat) < 3), key _ _ (by omega : (0:Nat) < 3)]

/-! ## 10. `Field.rotate90(ax1, ax2, k, reference_point, inplace)` at object level: ANY reference point,
in place or copying, meshes WITH subregions

`T.rotate90F` (`Model/Transform.lean`) is the shared object-level model of `Field.rotate90` that C12 and
C13 tie to the code: the mesh is turned by `Mesh.rotate90` about the given reference point (default: the
region centre) through the constructors — subregions turned about the same point and re-validated —,
values and validity by `np.rot90`, the two paired components by the exact matrix; the in-place form
assigns, the copying form constructs.  The operators see nothing of the reference point (the edge lengths
of a turned region do not depend on it: `target_edge_ref`), of the form, or of the subregion list (they
keep the mesh of their operand): `rotate90_obj_refines_scalar/vector` show that the object-level turn
cannot be told apart (`Sim`) from C05's centre / copy-form turn `rot90FldK` of the field without its
subregion list, and the `*_rotate90_obj` theorems lift `*_rot90_all_k` accordingly.  Each of them takes
the acceptance of the turn of `f` as hypothesis (it depends on the subregion checks of the mesh
constructor) and proves: the operator accepts `f` and the turned field `g`, the SAME turn (same reference
point, either form) accepts the result, the receiver of an in-place call IS the returned field, both
results live on the same mesh — the turned mesh of `g`, subregions included —, and they agree in every
value and every validity flag at every cell.  Vector fields: one-to-one mapping (`OneToOne`; for these the
first-key reading `rDim` of the shared model and the code's last-key `_r_dim_mapping` coincide,
`rDim_eq_rDimLast`). -/

/-- **Refinement of the object-level turn to the centre / copy-form turn, scalar fields.**  Whenever
`Field.rotate90(ax1, ax2, k, reference_point, inplace)` accepts a plain scalar field (any reference
point, either form, any subregions), `rot90FldK` accepts the field without its subregion list and the
two results cannot be told apart by differentiation (`Sim`: same axis names, cell counts, cell sizes,
periodic directions, labels, mapping, and the same values and validity flags at every well-formed
multi-index); the receiver of the call is the result (in place) or the untouched field (copying). -/
theorem rotate90_obj_refines_scalar (f x g : Fld) (a b : Nat) (k : Int) (ref : Option (List Rat)) (inpl : Bool) (wf : MeshWf f)
    (tw : TurnWf f a b) (hp : Plain f) (ha : a < f.mesh.ndim) (hb : b < f.mesh.ndim) (hab : a ≠ b)
    (hg : T.rotate90F f (f.mesh.region.dims.getD a "") (f.mesh.region.dims.getD b "") k ref inpl = .ok (x, g)) :
    ∃ R', rot90FldK (strip f) (f.mesh.region.dims.getD a "") (f.mesh.region.dims.getD b "") k = .ok R' ∧ Sim g R' ∧
      x = (if inpl then g else f) := by
  obtain ⟨R', h1, _, _, h4, _, _, h7, _⟩ := simObj_scalar f x g a b k ref inpl wf tw hp ha hb hab hg
  exact ⟨R', h1, h4, h7⟩

/-- **Refinement of the object-level turn to the centre / copy-form turn, vector fields** (one-to-one
mapping that pairs the two axes of the plane with the stored components `v1 ≠ v2`). -/
theorem rotate90_obj_refines_vector (f x g : Fld) (a b v1 v2 : Nat) (vs : List String) (k : Int) (ref : Option (List Rat))
    (inpl : Bool) (wf : MeshWf f) (tw : TurnWf f a b) (hone : OneToOne f.vmap)
    (ha : a < f.mesh.ndim) (hb : b < f.mesh.ndim) (hab : a ≠ b) (hn : 1 < f.nvdim)
    (hv : f.vdims = some vs) (hvl : vs.length = f.nvdim) (hvd : hasDup vs = false)
    (hkeys : (f.vmap.map (·.1)).isPerm vs = true) (hmap : 0 < f.vmap.length)
    (hraw : ∀ i, (f.data.get i).length = f.nvdim)
    (h1 : (rDimLast f (f.mesh.region.dims.getD a "")).bind f.vdimIndex = some v1)
    (h2 : (rDimLast f (f.mesh.region.dims.getD b "")).bind f.vdimIndex = some v2)
    (hv1 : v1 < f.nvdim) (hv2 : v2 < f.nvdim) (h12 : v1 ≠ v2)
    (hg : T.rotate90F f (f.mesh.region.dims.getD a "") (f.mesh.region.dims.getD b "") k ref inpl = .ok (x, g)) :
    ∃ R', rot90FldK (strip f) (f.mesh.region.dims.getD a "") (f.mesh.region.dims.getD b "") k = .ok R' ∧ Sim g R' ∧
      x = (if inpl then g else f) := by
  obtain ⟨R', k1, k2, _, _, _, _, _, k8, _⟩ := simObj_vector f x g a b v1 v2 vs k ref inpl wf tw
    ⟨hn, hv, hvl, hvd, hkeys, hmap, h1, h2, hv1, hv2, h12, hraw⟩ hone ha hb hab hg
  exact ⟨R', k1, k2, k8⟩

/-- **In place == copy for `Field.rotate90`**: both forms are accepted on exactly the same inputs and
return the same field; the receiver is the returned field (in place) or untouched (copying) — no
hypothesis on the field.  Hence every `*_rotate90_obj` statement about the returned field is a
statement about the receiver of the in-place call. -/
theorem rotate90_inplace_eq_copy (f : Fld) (a1 a2 : String) (k : Int) (ref : Option (List Rat)) (b b' : Bool) (x g : Fld)
    (h : T.rotate90F f a1 a2 k ref b = .ok (x, g)) :
    T.rotate90F f a1 a2 k ref b' = .ok (if b' then g else f, g) ∧ x = if b then g else f :=
  rotate90F_form_indep f a1 a2 k ref b b' x g h

/-- **On a mesh without subregions the turn about ANY reference point is accepted** (plain scalar
fields; every integer `k`, either form, every reference point with one coordinate per axis — inside,
on or far outside the region): the acceptance hypothesis of the `*_rotate90_obj` theorems is then met,
so they hold unconditionally for every reference point. -/
theorem rotate90_obj_accepts_scalar (f : Fld) (a b : Nat) (k : Int) (ref : Option (List Rat)) (inpl : Bool) (wf : MeshWf f)
    (tw : TurnWf f a b) (hsub : f.mesh.subs = []) (hp : Plain f) (ha : a < f.mesh.ndim) (hb : b < f.mesh.ndim) (hab : a ≠ b)
    (href : ∀ R, ref = some R → R.length = f.mesh.ndim) :
    ∃ x g, T.rotate90F f (f.mesh.region.dims.getD a "") (f.mesh.region.dims.getD b "") k ref inpl = .ok (x, g) :=
  rotate90F_accepts_scalar f a b k ref inpl wf tw hsub hp ha hb hab href

/-- … and likewise for every vector field with a one-to-one mapping that pairs both axes of the plane. -/
theorem rotate90_obj_accepts_vector (f : Fld) (a b v1 v2 : Nat) (vs : List String) (k : Int) (ref : Option (List Rat))
    (inpl : Bool) (wf : MeshWf f) (tw : TurnWf f a b) (hsub : f.mesh.subs = []) (hone : OneToOne f.vmap)
    (ha : a < f.mesh.ndim) (hb : b < f.mesh.ndim) (hab : a ≠ b) (hn : 1 < f.nvdim)
    (hv : f.vdims = some vs) (hvl : vs.length = f.nvdim) (hvd : hasDup vs = false)
    (hkeys : (f.vmap.map (·.1)).isPerm vs = true) (hmap : 0 < f.vmap.length)
    (hraw : ∀ i, (f.data.get i).length = f.nvdim)
    (h1 : (rDimLast f (f.mesh.region.dims.getD a "")).bind f.vdimIndex = some v1)
    (h2 : (rDimLast f (f.mesh.region.dims.getD b "")).bind f.vdimIndex = some v2)
    (hv1 : v1 < f.nvdim) (hv2 : v2 < f.nvdim) (h12 : v1 ≠ v2)
    (href : ∀ R, ref = some R → R.length = f.mesh.ndim) :
    ∃ x g, T.rotate90F f (f.mesh.region.dims.getD a "") (f.mesh.region.dims.getD b "") k ref inpl = .ok (x, g) :=
  rotate90F_accepts_vector f a b v1 v2 vs k ref inpl wf tw hsub ⟨hn, hv, hvl, hvd, hkeys, hmap, h1, h2, hv1, hv2, h12, hraw⟩ hone
    ha hb hab href

/-- **The scalar Laplacian commutes with `Field.rotate90(ax1, ax2, k, reference_point, inplace)`** —
ANY reference point, either form (`inpl` for the field, `inpl'` for the result), meshes WITH
subregions, every integer `k`, every validity mask, every mesh dimension, open and periodic axes. -/
theorem laplace_rotate90_obj (f x g : Fld) (a b : Nat) (k : Int) (ref : Option (List Rat)) (inpl inpl' : Bool) (wf : MeshWf f)
    (tw : TurnWf f a b) (hvs : f.valid.shape = f.mesh.n) (hp : Plain f) (ha : a < f.mesh.ndim) (hb : b < f.mesh.ndim) (hab : a ≠ b)
    (hg : T.rotate90F f (f.mesh.region.dims.getD a "") (f.mesh.region.dims.getD b "") k ref inpl = .ok (x, g)) :
    ∃ L LR y RL, laplace f = .ok L ∧ laplace g = .ok LR ∧
      T.rotate90F L (f.mesh.region.dims.getD a "") (f.mesh.region.dims.getD b "") k ref inpl' = .ok (y, RL) ∧
      x = (if inpl then g else f) ∧ y = (if inpl' then RL else L) ∧ LR.mesh = g.mesh ∧ RL.mesh = g.mesh ∧
      ∀ i, InMesh g i → RL.valid.get i = LR.valid.get i ∧ (LR.data.get i).getD 0 0 = (RL.data.get i).getD 0 0 := by
  obtain ⟨R', hR', pR', pg, hsim, nd, dm, hx, gd, gv, ym, hstep⟩ := simObj_scalar f x g a b k ref inpl wf tw hp ha hb hab hg
  obtain ⟨R0, L0, LR0, RL0, q1, q2, q3, q4, q5⟩ := laplace_rot90_all_k (strip f) a b k (meshWf_strip wf) (turnWf_strip tw) rfl hvs hp ha hb hab
  have e0 : R0 = R' := by
    have := q1.symm.trans hR'
    injection this
  subst e0
  obtain ⟨L, hL⟩ := laplace_accepts f wf.dims (by omega) (Or.inl hp)
  have hgd : DimsOk g := dimsOk_of_eq wf.dims nd dm
  obtain ⟨LR, hLR⟩ := laplace_accepts g hgd (by rw [nd]; omega) (Or.inl pg)
  obtain ⟨_, _, lv, _⟩ := laplace_eq_scalar f L wf.dims hp.1 hL
  obtain ⟨_, lrm, lrv, _⟩ := laplace_eq_scalar g LR hgd pg.1 hLR
  obtain ⟨y, RL, hRL, rm, ry, rv, hres⟩ := objRes_scalar f L L0 RL0 ym g.mesh a b k ref inpl' wf tw ha hb hab
    (laplace_scalar_result f L wf hp hL) (laplace_scalar_result (strip f) L0 (meshWf_strip wf) hp q2) hstep q4
    (fun j hj => laplace_congr f (strip f) L L0 (sim_strip f) (meshWf_strip wf).dims hp.1 hL q2 j hj)
  refine ⟨L, LR, y, RL, hL, hLR, hRL, hx, ry, lrm, rm, ?_⟩
  intro i hi
  have hil : i.length = f.mesh.ndim := by rw [← nd]; exact hi.1
  refine ⟨objRes_valid f L g RL LR a b k wf hvs ha hb hab lv (laplace_scalar_vshape hp.1 hL) gv rv lrv i hil, ?_⟩
  rw [laplace_congr g R0 LR LR0 hsim (dimsOk_sim' hsim hgd) pg.1 hLR q3 i hi.1, q5 i (inMesh_sim hsim i hi), hres i hil]

/-- **The gradient commutes with `Field.rotate90(ax1, ax2, k, reference_point, inplace)`** — any
reference point, either form, subregions, every `k`, every mask, EVERY mesh dimension ≥ 2. -/
theorem grad_rotate90_obj (f x g : Fld) (a b : Nat) (k : Int) (ref : Option (List Rat)) (inpl inpl' : Bool) (wf : MeshWf f)
    (tw : TurnWf f a b) (hvs : f.valid.shape = f.mesh.n) (hp : Plain f) (ha : a < f.mesh.ndim) (hb : b < f.mesh.ndim) (hab : a ≠ b)
    (hg : T.rotate90F f (f.mesh.region.dims.getD a "") (f.mesh.region.dims.getD b "") k ref inpl = .ok (x, g)) :
    ∃ G GR y RG, grad f = .ok G ∧ grad g = .ok GR ∧
      T.rotate90F G (f.mesh.region.dims.getD a "") (f.mesh.region.dims.getD b "") k ref inpl' = .ok (y, RG) ∧
      x = (if inpl then g else f) ∧ y = (if inpl' then RG else G) ∧ GR.mesh = g.mesh ∧ RG.mesh = g.mesh ∧
      ∀ i, InMesh g i → RG.valid.get i = GR.valid.get i ∧
        ∀ e, e < f.mesh.ndim → (GR.data.get i).getD e 0 = (RG.data.get i).getD e 0 := by
  have hn2 : 2 ≤ f.mesh.ndim := by omega
  obtain ⟨labels, hlab, hlen, hnd'⟩ := posVdims_nodup f.mesh.ndim hn2
  obtain ⟨R', hR', pR', pg, hsim, nd, dm, hx, gd, gv, ym, hstep⟩ := simObj_scalar f x g a b k ref inpl wf tw hp ha hb hab hg
  obtain ⟨R0, G0, GR0, RG0, q1, q2, q3, q4, q5⟩ := grad_rot90_all_k (strip f) a b k (meshWf_strip wf) (turnWf_strip tw) rfl hvs hp ha hb hab
  have e0 : R0 = R' := by
    have := q1.symm.trans hR'
    injection this
  subst e0
  obtain ⟨G, hG⟩ := grad_accepts f hp wf.dims (by omega)
  have hgd : DimsOk g := dimsOk_of_eq wf.dims nd dm
  obtain ⟨GR, hGR⟩ := grad_accepts g pg hgd (by rw [nd]; omega)
  obtain ⟨_, g2, g3, gvl, _⟩ := grad_eq f G wf.dims hG
  obtain ⟨_, _, grm, grv, _⟩ := grad_eq g GR hgd hGR
  have hone : OneToOne G.vmap := by
    rw [(grad_meta f G hp (by rw [wf.dims.1]; exact hn2) hG).2]
    exact posVmap_oneToOne _ _ (by rw [g3]; exact wf.dims.2)
  obtain ⟨y, RG, hRG, rm, ry, rv, hres⟩ := objRes_vector f G G0 RG0 ym g.mesh a b a b labels k ref inpl' wf tw ha hb hab
    (grad_result f G a b labels wf hp ha hb hab hlab hlen hnd' hG) hone
    (grad_result (strip f) G0 a b labels (meshWf_strip wf) hp ha hb hab hlab hlen hnd' q2) hstep q4
    (fun j hj c hc => grad_congr f (strip f) G G0 (sim_strip f) (meshWf_strip wf).dims hG q2 j hj c (by rw [← g2]; exact hc))
  refine ⟨G, GR, y, RG, hG, hGR, hRG, hx, ry, grm, rm, ?_⟩
  intro i hi
  have hil : i.length = f.mesh.ndim := by rw [← nd]; exact hi.1
  refine ⟨objRes_valid f G g RG GR a b k wf hvs ha hb hab gvl (grad_vshape hG) gv rv grv i hil, ?_⟩
  intro e he
  rw [grad_congr g R0 GR GR0 hsim (dimsOk_sim' hsim hgd) hGR q3 i hi.1 e (by rw [nd]; exact he), q5 i (inMesh_sim hsim i hi) e he,
    hres i hil e (by rw [g2]; exact he)]

/-- **The divergence commutes with `Field.rotate90(ax1, ax2, k, reference_point, inplace)`** — any
reference point, either form, subregions, every `k`, every mask (one-to-one mapping of the components
onto the axes). -/
theorem div_rotate90_obj (f x g : Fld) (a b v1 v2 : Nat) (k : Int) (ref : Option (List Rat)) (inpl inpl' : Bool)
    (vs : List String) (σ : Nat → Nat)
    (wf : MeshWf f) (tw : TurnWf f a b) (hvs : f.valid.shape = f.mesh.n)
    (ha : a < f.mesh.ndim) (hb : b < f.mesh.ndim) (hab : a ≠ b)
    (hn : 1 < f.nvdim) (hnn : f.nvdim = f.mesh.ndim)
    (hv : f.vdims = some vs) (hvl : vs.length = f.nvdim) (hvd : hasDup vs = false)
    (hkeys : (f.vmap.map (·.1)).isPerm vs = true) (hone : OneToOne f.vmap)
    (hraw : ∀ i, (f.data.get i).length = f.nvdim)
    (hσ : ∀ c, c < f.nvdim → σ c < f.mesh.ndim ∧
      Fld.lookup f.vmap (vs.getD c "") = some (f.mesh.region.dims.getD (σ c) ""))
    (h1 : (rDimLast f (f.mesh.region.dims.getD a "")).bind f.vdimIndex = some v1)
    (h2 : (rDimLast f (f.mesh.region.dims.getD b "")).bind f.vdimIndex = some v2)
    (hv1 : v1 < f.nvdim) (hv2 : v2 < f.nvdim) (hs1 : σ v1 = a) (hs2 : σ v2 = b)
    (hoth : ∀ c, c < f.nvdim → c ≠ v1 → c ≠ v2 → σ c ≠ a ∧ σ c ≠ b)
    (hg : T.rotate90F f (f.mesh.region.dims.getD a "") (f.mesh.region.dims.getD b "") k ref inpl = .ok (x, g)) :
    ∃ Dv DR y RD, div f = .ok Dv ∧ div g = .ok DR ∧
      T.rotate90F Dv (f.mesh.region.dims.getD a "") (f.mesh.region.dims.getD b "") k ref inpl' = .ok (y, RD) ∧
      x = (if inpl then g else f) ∧ y = (if inpl' then RD else Dv) ∧ DR.mesh = g.mesh ∧ RD.mesh = g.mesh ∧
      ∀ i, InMesh g i → RD.valid.get i = DR.valid.get i ∧ (DR.data.get i).getD 0 0 = (RD.data.get i).getD 0 0 := by
  have h12 : v1 ≠ v2 := by intro he; rw [he, hs2] at hs1; exact hab hs1.symm
  have hmap : 0 < f.vmap.length := by
    have := (hσ v1 hv1).2
    cases hq : f.vmap with
    | nil => rw [hq] at this; simp [Fld.lookup] at this
    | cons _ _ => simp
  have hX : VecMeta a b v1 v2 vs f := ⟨hn, hv, hvl, hvd, hkeys, hmap, h1, h2, hv1, hv2, h12, hraw⟩
  obtain ⟨R', hR', hsim, nd, dm, e1, e2, e3, hx, gv, ym, hstep⟩ := simObj_vector f x g a b v1 v2 vs k ref inpl wf tw hX hone ha hb hab hg
  obtain ⟨R0, D0, DR0, RD0, q1, q2, q3, q4, q5⟩ := div_rot90_all_k (strip f) a b v1 v2 k vs σ (meshWf_strip wf) (turnWf_strip tw) rfl hvs
    ha hb hab hn hnn hv hvl hvd hkeys hraw hσ h1 h2 hv1 hv2 hs1 hs2 hoth
  have e0 : R0 = R' := by
    have := q1.symm.trans hR'
    injection this
  subst e0
  obtain ⟨Dv, hD⟩ := div_accepts f vs σ wf.dims hnn (by omega) hv hvl hvd hσ
  have hgd : DimsOk g := dimsOk_of_eq wf.dims nd dm
  have hσg : ∀ c, c < g.nvdim → σ c < g.mesh.ndim ∧
      Fld.lookup g.vmap (vs.getD c "") = some (g.mesh.region.dims.getD (σ c) "") := by
    intro c hc; rw [e1] at hc; rw [nd, e3, dm]; exact hσ c hc
  obtain ⟨DR, hDR⟩ := div_accepts g vs σ hgd (by rw [e1, nd]; exact hnn) (by rw [e1]; omega) (by rw [e2]; exact hv)
    (by rw [e1]; exact hvl) hvd hσg
  obtain ⟨_, _, _, dvl, _⟩ := div_eq f Dv vs σ wf.dims hv hvl hvd hσ hD
  obtain ⟨_, _, drm, drv, _⟩ := div_eq g DR vs σ hgd (by rw [e2]; exact hv) (by rw [e1]; exact hvl) hvd hσg hDR
  obtain ⟨y, RD, hRD, rm, ry, rv, hres⟩ := objRes_scalar f Dv D0 RD0 ym g.mesh a b k ref inpl' wf tw ha hb hab
    (div_result f Dv vs σ wf hv hvl hvd hσ hD) (div_result (strip f) D0 vs σ (meshWf_strip wf) hv hvl hvd hσ q2) hstep q4
    (fun j hj => div_congr f (strip f) Dv D0 vs σ (sim_strip f) (meshWf_strip wf).dims hv hvl hvd hσ hD q2 j hj)
  refine ⟨Dv, DR, y, RD, hD, hDR, hRD, hx, ry, drm, rm, ?_⟩
  intro i hi
  have hil : i.length = f.mesh.ndim := by rw [← nd]; exact hi.1
  refine ⟨objRes_valid f Dv g RD DR a b k wf hvs ha hb hab dvl (div_vshape hD) gv rv drv i hil, ?_⟩
  have hσT : ∀ c, c < R0.nvdim → σ c < R0.mesh.ndim ∧
      Fld.lookup R0.vmap (vs.getD c "") = some (R0.mesh.region.dims.getD (σ c) "") := by
    intro c hc; rw [← hsim.nvdim] at hc; rw [← hsim.mesh.1, ← hsim.vmap, ← hsim.mesh.2.1]; exact hσg c hc
  rw [div_congr g R0 DR DR0 vs σ hsim (dimsOk_sim' hsim hgd) (by rw [← hsim.vdims, e2]; exact hv)
      (by rw [← hsim.nvdim, e1]; exact hvl) hvd hσT hDR q3 i hi.1,
    q5 i (inMesh_sim hsim i hi), hres i hil]

/-- **The curl commutes with `Field.rotate90(ax1, ax2, k, reference_point, inplace)`** — any reference
point, either form, subregions, every `k`, every mask, each of the six ordered pairs of axes
(one-to-one pairing of the three components with the three axes). -/
theorem curl_rotate90_obj (f x g : Fld) (a b : Nat) (k : Int) (ref : Option (List Rat)) (inpl inpl' : Bool)
    (vs : List String) (σ ρ : Nat → Nat)
    (wf : MeshWf f) (tw : TurnWf f a b) (hvs : f.valid.shape = f.mesh.n)
    (ha : a < 3) (hb : b < 3) (hab : a ≠ b) (hn : f.nvdim = 3) (hnd : f.mesh.ndim = 3)
    (hv : f.vdims = some vs) (hvl : vs.length = f.nvdim) (hvd : hasDup vs = false)
    (hkeys : (f.vmap.map (·.1)).isPerm vs = true) (hone : OneToOne f.vmap)
    (hraw : ∀ i, (f.data.get i).length = f.nvdim)
    (hσ : ∀ c, c < 3 → σ c < 3 ∧ Fld.lookup f.vmap (vs.getD c "") = some (f.mesh.region.dims.getD (σ c) ""))
    (hρ : ∀ d, d < 3 → ρ d < 3 ∧ rDimLast f (f.mesh.region.dims.getD d "") = some (vs.getD (ρ d) ""))
    (hinj : ρ 0 ≠ ρ 1 ∧ ρ 0 ≠ ρ 2 ∧ ρ 1 ≠ ρ 2)
    (hg : T.rotate90F f (f.mesh.region.dims.getD a "") (f.mesh.region.dims.getD b "") k ref inpl = .ok (x, g)) :
    ∃ C CR y RC, curl f = .ok C ∧ curl g = .ok CR ∧
      T.rotate90F C (f.mesh.region.dims.getD a "") (f.mesh.region.dims.getD b "") k ref inpl' = .ok (y, RC) ∧
      x = (if inpl then g else f) ∧ y = (if inpl' then RC else C) ∧ CR.mesh = g.mesh ∧ RC.mesh = g.mesh ∧
      ∀ i, InMesh g i → RC.valid.get i = CR.valid.get i ∧
        ∀ c, c < 3 → (CR.data.get i).getD c 0 = (RC.data.get i).getD c 0 := by
  have ha' : a < f.mesh.ndim := by omega
  have hb' : b < f.mesh.ndim := by omega
  have hmap : 0 < f.vmap.length := by
    have := (hσ 0 (by omega)).2
    cases hq : f.vmap with
    | nil => rw [hq] at this; simp [Fld.lookup] at this
    | cons _ _ => simp
  have hl : ∀ d, d < 3 → ρ d < vs.length := fun d hd => by rw [hvl, hn]; exact (hρ d hd).1
  have hpair : ∀ d, d < 3 → (rDimLast f (f.mesh.region.dims.getD d "")).bind f.vdimIndex = some (ρ d) := by
    intro d hd
    rw [(hρ d hd).2]
    simp only [Option.bind_some]
    exact vdimIndex_getD f vs hv hvd (ρ d) (hl d hd)
  have hρab : ρ a ≠ ρ b := by
    obtain ⟨h01, h02, h12⟩ := hinj
    have : (a = 0 ∨ a = 1 ∨ a = 2) ∧ (b = 0 ∨ b = 1 ∨ b = 2) := by omega
    rcases this with ⟨rfl | rfl | rfl, rfl | rfl | rfl⟩ <;> first | exact absurd rfl hab | assumption | exact Ne.symm ‹_›
  have hX : VecMeta a b (ρ a) (ρ b) vs f :=
    ⟨by omega, hv, hvl, hvd, hkeys, hmap, hpair a ha, hpair b hb, by rw [hn]; exact (hρ a ha).1, by rw [hn]; exact (hρ b hb).1,
     hρab, hraw⟩
  obtain ⟨R', hR', hsim, nd, dm, e1, e2, e3, hx, gv, ym, hstep⟩ := simObj_vector f x g a b (ρ a) (ρ b) vs k ref inpl wf tw hX hone ha' hb' hab hg
  obtain ⟨R0, C0, CR0, RC0, q1, q2, q3, q4, q5⟩ := curl_rot90_all_k (strip f) a b k vs σ ρ (meshWf_strip wf) (turnWf_strip tw) rfl hvs
    ha hb hab hn hnd hv hvl hvd hkeys hraw hσ hρ hinj
  have e0 : R0 = R' := by
    have := q1.symm.trans hR'
    injection this
  subst e0
  obtain ⟨C, hC⟩ := curl_accepts f vs σ ρ wf.dims hn hnd hv hvl hvd hσ hρ
  have hgd : DimsOk g := dimsOk_of_eq wf.dims nd dm
  have hσg : ∀ c, c < 3 → σ c < 3 ∧ Fld.lookup g.vmap (vs.getD c "") = some (g.mesh.region.dims.getD (σ c) "") := by
    intro c hc; rw [e3, dm]; exact hσ c hc
  have hρg : ∀ d, d < 3 → ρ d < 3 ∧ rDimLast g (g.mesh.region.dims.getD d "") = some (vs.getD (ρ d) "") := by
    intro d hd
    refine ⟨(hρ d hd).1, ?_⟩
    have := (hρ d hd).2
    unfold rDimLast at this ⊢
    rw [e3, dm]; exact this
  obtain ⟨CR, hCR⟩ := curl_accepts g vs σ ρ hgd (by rw [e1, hn]) (by rw [nd, hnd]) (by rw [e2]; exact hv) (by rw [e1]; exact hvl) hvd
    hσg hρg
  obtain ⟨_, _, c3, c4, cvl, _⟩ := curl_eq f C vs ρ wf.dims hv hvl hvd hρ hC
  obtain ⟨_, _, _, crm, crv, _⟩ := curl_eq g CR vs ρ hgd (by rw [e2]; exact hv) (by rw [e1]; exact hvl) hvd hρg hCR
  have honeC : OneToOne C.vmap := by
    rw [(curl_meta f C hC).2]
    exact posVmap_oneToOne _ _ wf.dims.2
  obtain ⟨y, RC, hRC, rm, ry, rv, hres⟩ := objRes_vector f C C0 RC0 ym g.mesh a b a b ["x", "y", "z"] k ref inpl' wf tw ha' hb' hab
    (curl_result f C a b vs ρ wf ha hb hab hv hvl hvd hρ hC) honeC
    (curl_result (strip f) C0 a b vs ρ (meshWf_strip wf) ha hb hab hv hvl hvd hρ q2) hstep q4
    (fun j hj c hc => curl_congr f (strip f) C C0 vs ρ (sim_strip f) (meshWf_strip wf).dims hv hvl hvd hρ hC q2 j hj c (by rw [← c3]; exact hc))
  refine ⟨C, CR, y, RC, hC, hCR, hRC, hx, ry, crm, rm, ?_⟩
  intro i hi
  have hil : i.length = f.mesh.ndim := by rw [← nd]; exact hi.1
  refine ⟨objRes_valid f C g RC CR a b k wf hvs ha' hb' hab cvl (curl_vshape hC) gv rv crv i hil, ?_⟩
  intro c hc
  have hρT : ∀ d, d < 3 → ρ d < 3 ∧ rDimLast R0 (R0.mesh.region.dims.getD d "") = some (vs.getD (ρ d) "") := by
    intro d hd
    refine ⟨(hρ d hd).1, ?_⟩
    have := (hρg d hd).2
    unfold rDimLast at this ⊢
    rw [← hsim.vmap, ← hsim.mesh.2.1]; exact this
  rw [curl_congr g R0 CR CR0 vs ρ hsim (dimsOk_sim' hsim hgd) (by rw [← hsim.vdims, e2]; exact hv)
      (by rw [← hsim.nvdim, e1]; exact hvl) hvd hρT hCR q3 i hi.1 c hc,
    q5 i (inMesh_sim hsim i hi) c hc, hres i hil c (by rw [c3]; exact hc)]

/-- **The vector Laplacian commutes with `Field.rotate90(ax1, ax2, k, reference_point, inplace)`** — any
reference point, either form, subregions, every `k`, every mask (one-to-one mapping that pairs the two
axes of the plane with two different components). -/
theorem laplace_vector_rotate90_obj (f x g : Fld) (a b v1 v2 : Nat) (k : Int) (ref : Option (List Rat)) (inpl inpl' : Bool)
    (vs : List String)
    (wf : MeshWf f) (tw : TurnWf f a b) (hvs : f.valid.shape = f.mesh.n)
    (ha : a < f.mesh.ndim) (hb : b < f.mesh.ndim) (hab : a ≠ b) (hn : 1 < f.nvdim)
    (hv : f.vdims = some vs) (hvl : vs.length = f.nvdim) (hvd : hasDup vs = false)
    (hkeys : (f.vmap.map (·.1)).isPerm vs = true) (hmap : 0 < f.vmap.length) (hone : OneToOne f.vmap)
    (hraw : ∀ i, (f.data.get i).length = f.nvdim)
    (h1 : (rDimLast f (f.mesh.region.dims.getD a "")).bind f.vdimIndex = some v1)
    (h2 : (rDimLast f (f.mesh.region.dims.getD b "")).bind f.vdimIndex = some v2)
    (hv1 : v1 < f.nvdim) (hv2 : v2 < f.nvdim) (h12 : v1 ≠ v2)
    (hg : T.rotate90F f (f.mesh.region.dims.getD a "") (f.mesh.region.dims.getD b "") k ref inpl = .ok (x, g)) :
    ∃ L LR y RL, laplace f = .ok L ∧ laplace g = .ok LR ∧
      T.rotate90F L (f.mesh.region.dims.getD a "") (f.mesh.region.dims.getD b "") k ref inpl' = .ok (y, RL) ∧
      x = (if inpl then g else f) ∧ y = (if inpl' then RL else L) ∧ LR.mesh = g.mesh ∧ RL.mesh = g.mesh ∧
      ∀ i, InMesh g i → RL.valid.get i = LR.valid.get i ∧
        ∀ c, c < f.nvdim → (LR.data.get i).getD c 0 = (RL.data.get i).getD c 0 := by
  have hX : VecMeta a b v1 v2 vs f := ⟨hn, hv, hvl, hvd, hkeys, hmap, h1, h2, hv1, hv2, h12, hraw⟩
  have hn1 : f.nvdim ≠ 1 := by omega
  obtain ⟨R', hR', hsim, nd, dm, e1, e2, e3, hx, gv, ym, hstep⟩ := simObj_vector f x g a b v1 v2 vs k ref inpl wf tw hX hone ha hb hab hg
  obtain ⟨R0, L0, LR0, RL0, q1, q2, q3, q4, q5⟩ := laplace_rot90_vector_all_k (strip f) a b v1 v2 k vs (meshWf_strip wf) (turnWf_strip tw) rfl hvs
    ha hb hab hn hv hvl hvd hkeys hmap hraw h1 h2 hv1 hv2 h12
  have e0 : R0 = R' := by
    have := q1.symm.trans hR'
    injection this
  subst e0
  obtain ⟨L, hL⟩ := laplace_accepts f wf.dims (by omega) (Or.inr ⟨hn, vs, hv, hvl, hvd, Or.inr hkeys⟩)
  have hgd : DimsOk g := dimsOk_of_eq wf.dims nd dm
  obtain ⟨LR, hLR⟩ := laplace_accepts g hgd (by rw [nd]; omega)
    (Or.inr ⟨by rw [e1]; exact hn, vs, by rw [e2]; exact hv, by rw [e1]; exact hvl, hvd, Or.inr (by rw [e3]; exact hkeys)⟩)
  obtain ⟨l1, _, lv, _⟩ := laplace_eq_vector f L vs wf.dims hn1 hv hvl hvd hL
  obtain ⟨_, lrm, lrv, _⟩ := laplace_eq_vector g LR vs hgd (by rw [e1]; exact hn1) (by rw [e2]; exact hv) (by rw [e1]; exact hvl) hvd hLR
  have honeL : OneToOne L.vmap := by
    rw [(laplace_keeps_meta f L vs hn1 hv hvl hL).2.1]; exact hone
  obtain ⟨y, RL, hRL, rm, ry, rv, hres⟩ := objRes_vector f L L0 RL0 ym g.mesh a b v1 v2 vs k ref inpl' wf tw ha hb hab
    (laplace_vector_result f L a b v1 v2 vs wf hX hL) honeL
    (laplace_vector_result (strip f) L0 a b v1 v2 vs (meshWf_strip wf) (vecMeta_strip hX) q2) hstep q4
    (fun j hj c hc => laplace_vector_congr f (strip f) L L0 vs (sim_strip f) (meshWf_strip wf).dims hn1 hv hvl hvd hL q2 j hj c
      (by rw [l1] at hc; exact hc))
  refine ⟨L, LR, y, RL, hL, hLR, hRL, hx, ry, lrm, rm, ?_⟩
  intro i hi
  have hil : i.length = f.mesh.ndim := by rw [← nd]; exact hi.1
  refine ⟨objRes_valid f L g RL LR a b k wf hvs ha hb hab lv (laplace_vector_vshape (by omega) hv hvl hL) gv rv lrv i hil, ?_⟩
  intro c hc
  rw [laplace_vector_congr g R0 LR LR0 vs hsim (dimsOk_sim' hsim hgd) (by rw [← hsim.nvdim, e1]; exact hn1)
      (by rw [← hsim.vdims, e2]; exact hv) (by rw [← hsim.nvdim, e1]; exact hvl) hvd hLR q3 i hi.1 c
      (by rw [← hsim.nvdim, e1]; exact hc),
    q5 i (inMesh_sim hsim i hi) c hc, hres i hil c (by rw [l1]; exact hc)]

/-! ## 11. When is `TurnWf` needed?  Only for planes with a periodic axis (finding D57) -/

/-- **`TurnWf` is only about periodic planes**: when neither axis of the plane is a periodic direction,
the hypothesis `TurnWf` of all commutation theorems holds — whatever the axis names (multi-character
names included: `Mesh.rotate90` then leaves `bc` alone, and nothing had to turn) and whatever `bc`
names otherwise. -/
theorem turnWf_of_open_plane (f : Fld) (a b : Nat) (wf : MeshWf f) (pa : periodic f a = false) (pb : periodic f b = false) :
    TurnWf f a b := by
  have e : rotBc1 f.mesh.bc (f.mesh.region.dims.getD a "") (f.mesh.region.dims.getD b "") = f.mesh.bc :=
    rotBc1_of_open_plane f a b pa pb
  exact ⟨Or.inr (pa.trans pb.symm), by rw [e]; exact wf.bc_lower, by rw [e]; exact wf.bc_ok⟩

/-- … in particular on every mesh without boundary conditions (`bc = ""`), for every plane -/
theorem turnWf_of_no_bc (f : Fld) (a b : Nat) (wf : MeshWf f) (h : f.mesh.bc = "") : TurnWf f a b := by
  have hp : ∀ x, periodic f x = false := by
    intro x; exact periodic_false_of_noswap_word f x (Or.inr (Or.inr h))
  exact turnWf_of_open_plane f a b wf (hp a) (hp b)

/-- **`TurnWf` cannot be dropped for a periodic plane with a multi-character axis name (open finding
D57, model-follows-code).**  On the 4×3 mesh with axes `x` (periodic) and `yy`, `Mesh.rotate90` leaves
`bc = "x"` with the NAME although the periodic direction is now `yy`; all other hypotheses of
`laplace_rot90_all_k` hold, all four fields exist, and the two sides differ (2 vs 10 at cell `[0, 0]`;
the real code returns the same two numbers). -/
theorem turnWf_needed :
    MeshWf exS57 ∧ Plain exS57 ∧ FullyValid exS57 ∧ ¬ BcTurns exS57 0 1 ∧
    ∃ R L LR RL, rot90FldK exS57 "x" "yy" 1 = .ok R ∧ laplace exS57 = .ok L ∧ laplace R = .ok LR ∧
      rot90FldK L "x" "yy" 1 = .ok RL ∧ R.mesh.bc = "x" ∧
      (LR.data.get [0, 0]).getD 0 0 = 2 ∧ (RL.data.get [0, 0]).getD 0 0 = 10 := by
  refine ⟨exS57_wf, ⟨rfl, rfl, rfl⟩, fun _ => rfl, ?_, ?_⟩
  · intro h
    rcases h with ⟨_, h2, _, _⟩ | h
    · revert h2; decide
    · revert h; decide
  · have h := chk57_val
    unfold chk57 at h
    split at h
    · rename_i R L hR hL
      split at h
      · rename_i LR RL hLR hRL
        injection h with h
        injection h with h1 h2
        refine ⟨R, L, LR, RL, hR, hL, hLR, hRL, ?_, h1, h2⟩
        have hm : ∃ m, rotMeshK exS57.mesh "x" "yy" 1 = .ok m ∧ m.bc = "x" := by
          obtain ⟨m, hq⟩ := ok_of_toBool (r := rotMeshK exS57.mesh "x" "yy" 1) (by decide +kernel)
          obtain ⟨_, _, hb⟩ := rotMeshK_inv exS57.mesh m 0 1 1 (by decide) (by decide) (by decide) hq
          exact ⟨m, hq, by rw [hb]; decide +kernel⟩
        obtain ⟨m, hm1, hm2⟩ := hm
        obtain ⟨X', hX', hxm, _⟩ := rot90FldK_plain exS57 0 1 1 m exS57_wf.dims ⟨rfl, rfl, rfl⟩ (by decide) (by decide) hm1
        have : X' = R := by
          have := hX'.symm.trans hR
          injection this
        rw [← this, hxm, hm2]
      · cases h
    · cases h

/-- **Since repo fix be43fa9b `TurnWf` is nothing more than `BcTurns`** on a well-formed mesh: the turned
`bc` is always one the `Mesh` constructor accepts unchanged (lower case, naming axes once each), because
names are only exchanged when both are lower-case single characters.  Before the fix an upper-case
single-character name (axes `x`, `Y`, `bc = "x"`) made `Mesh.rotate90` hand the constructor `bc = "Y"`,
which it lower-cased and refused; now such a turn is accepted with `bc` left alone — and falls into the
class of open finding D57 (`turnWf_needed_upper`). -/
theorem turnWf_of_bcTurns (f : Fld) (a b : Nat) (wf : MeshWf f) (ha : a < f.mesh.ndim) (hb : b < f.mesh.ndim) (hab : a ≠ b)
    (h : BcTurns f a b) : TurnWf f a b :=
  ⟨h, (rotBc1_wf f a b wf ha hb hab).1, (rotBc1_wf f a b wf ha hb hab).2⟩

/-- **On a `neumann` or `dirichlet` mesh no axis is periodic, whatever its name** (repo fix 61bf94db; before,
`Field.diff` read the letters of the word as axis names: an axis `n`, `e`, `u`, `m`, `a`, `ma`, … of a
`neumann` mesh was differentiated with wrap-around). -/
theorem periodic_word_open (f : Fld) (ax : Nat) (h : f.mesh.bc = "neumann" ∨ f.mesh.bc = "dirichlet") :
    periodic f ax = false :=
  periodic_false_of_noswap_word f ax (by rcases h with h | h; exact Or.inl h; exact Or.inr (Or.inl h))

/-- **An axis with a multi-character name is never periodic** (also when its name is a substring of `bc`,
like the axis `xy` of a mesh periodic along `x` and `y`). -/
theorem periodic_multichar_open (f : Fld) (ax : Nat) (h : (f.mesh.region.dims.getD ax "").toList.length ≠ 1) :
    periodic f ax = false := by
  rw [periodic_eq_perL]
  have : perL f.mesh.bc (f.mesh.region.dims.getD ax "") = false := by
    unfold perL
    rw [List.any_eq_false]
    intro ch _
    simp only [decide_eq_true_eq]
    intro e
    rw [← e] at h
    exact h rfl
  rw [this]; simp

/-- **A periodic axis has a lower-case single-character name** (the mesh lower-cases `bc`): the lower-case
requirement of `BcTurns` only ever concerns the non-periodic axis of a mixed plane. -/
theorem periodic_name_lower (f : Fld) (ax : Nat) (wf : MeshWf f) (h : periodic f ax = true) :
    (f.mesh.region.dims.getD ax "").toList.length = 1 ∧
    (f.mesh.region.dims.getD ax "").toLower = f.mesh.region.dims.getD ax "" := by
  rw [periodic_eq_perL] at h
  simp only [Bool.and_eq_true] at h
  obtain ⟨_, hp⟩ := h
  unfold perL at hp
  rw [List.any_eq_true] at hp
  obtain ⟨ch, hm, he⟩ := hp
  have he' : [ch] = (f.mesh.region.dims.getD ax "").toList := by simpa using he
  refine ⟨by rw [← he']; rfl, ?_⟩
  rw [lower_iff, ← he']
  intro c hc
  have : c = ch := by simpa using hc
  rw [this]
  exact (lower_iff _).mp wf.bc_lower ch hm

/-- **On a `neumann` / `dirichlet` mesh every plane may be turned**: `TurnWf` holds for all axes, whatever
their names — all commutation theorems apply. -/
theorem turnWf_of_word_bc (f : Fld) (a b : Nat) (wf : MeshWf f) (h : f.mesh.bc = "neumann" ∨ f.mesh.bc = "dirichlet") :
    TurnWf f a b :=
  turnWf_of_open_plane f a b wf (periodic_word_open f a h) (periodic_word_open f b h)

/-- **The exactness theorems apply to every fully valid `neumann` / `dirichlet` mesh with at least three
cells per axis, whatever the axes are called**: `ExactMesh` (hypothesis of `*_exact_quadratic`) holds. -/
theorem exactMesh_of_word (f : Fld) (hv : FullyValid f) (h : f.mesh.bc = "neumann" ∨ f.mesh.bc = "dirichlet")
    (hn : ∀ a, a < f.mesh.ndim → 3 ≤ f.mesh.nAt a ∧ f.mesh.cellAt a ≠ 0) : ExactMesh f :=
  ⟨hv, fun a ha => ⟨periodic_word_open f a h, hn a ha⟩⟩

/-- **`TurnWf` cannot be dropped for a periodic plane whose other axis has an upper-case name either**
(same root as open finding D57: `bc` can only name lower-case single-character axes).  On the 4×3 mesh
with axes `x` (periodic) and `Y` the turn is accepted since repo fix be43fa9b, `bc = "x"` stays with the
name, and the two sides differ (2 vs 10 at cell `[0, 0]`; the real code returns the same two numbers). -/
theorem turnWf_needed_upper :
    MeshWf exS57U ∧ Plain exS57U ∧ FullyValid exS57U ∧ ¬ BcTurns exS57U 0 1 ∧
    ∃ R L LR RL, rot90FldK exS57U "x" "Y" 1 = .ok R ∧ laplace exS57U = .ok L ∧ laplace R = .ok LR ∧
      rot90FldK L "x" "Y" 1 = .ok RL ∧
      (LR.data.get [0, 0]).getD 0 0 = 2 ∧ (RL.data.get [0, 0]).getD 0 0 = 10 := by
  refine ⟨exS57U_wf, ⟨rfl, rfl, rfl⟩, fun _ => rfl, ?_, ?_⟩
  · intro h
    rcases h with ⟨_, _, _, h4⟩ | h
    · revert h4; decide +kernel
    · revert h; decide
  · have h := chk57U_val
    unfold chk57U at h
    split at h
    · rename_i R L hR hL
      split at h
      · rename_i LR RL hLR hRL
        injection h with h
        injection h with h1 h2
        exact ⟨R, L, LR, RL, hR, hL, hLR, hRL, h1, h2⟩
      · cases h
    · cases h

/-! ## Non-vacuity: concrete fields that meet the hypotheses

(`exS`, `exV`, `exMesh`, … are defined in `DFV/Lemmas/C05Examples.lean`) -/

example : DimsOk exS := ⟨rfl, by decide⟩

example : Plain exS := ⟨rfl, rfl, rfl⟩

example : FullyValid exS := fun _ => rfl

example : InMesh exS [1, 2, 4] := ⟨rfl, fun a ha => by
  have : a = 0 ∨ a = 1 ∨ a = 2 := by unfold Mesh.ndim Region.ndim exS exMesh at ha; simp at ha; omega
  rcases this with rfl | rfl | rfl <;> decide⟩

example : SampledFrom exS 0 exP := fun _ => rfl

/-- all hypotheses of `grad_exact_quadratic` hold together: the gradient of `exS` exists and
its first component at cell (1,2,4) is `2·x₀ = 3` -/
example : ∃ g, grad exS = .ok g ∧ (g.data.get [1, 2, 4]).getD 0 0 = 3 := by
  obtain ⟨g, hg⟩ := grad_accepts exS ⟨rfl, rfl, rfl⟩ ⟨rfl, by decide⟩ (by decide)
  refine ⟨g, hg, ?_⟩
  have := grad_exact_quadratic exS g exP exP1 exP2 ⟨rfl, by decide⟩ (fun _ => rfl) exP_quad exMesh_exact hg
    [1, 2, 4] ⟨rfl, fun a ha => by
      have : a = 0 ∨ a = 1 ∨ a = 2 := by unfold Mesh.ndim Region.ndim exS exMesh at ha; simp at ha; omega
      rcases this with rfl | rfl | rfl <;> decide⟩ 0 (by decide)
  rw [this]
  simp [exP1, coords, Mesh.centreAx, Mesh.cellAt, Mesh.nAt, exS, exMesh, Region.edge, Region.hi, Region.lo]
  norm_num

/-- `curl(grad exS)` is defined (so `curl_grad_zero` speaks about something) -/
example : ∃ g r, grad exS = .ok g ∧ curl g = .ok r :=
  curl_grad_defined exS ⟨rfl, by decide⟩ ⟨rfl, rfl, rfl⟩ rfl

example : ∃ g, div exV = .ok g :=
  div_accepts exV ["p", "q", "r"] exσ ⟨rfl, by decide⟩ rfl (by decide) rfl rfl (by decide) exV_σ

example : ∃ c d, curl exV = .ok c ∧ div c = .ok d := by
  obtain ⟨c, hc⟩ := curl_accepts exV ["p", "q", "r"] exσ exρ ⟨rfl, by decide⟩ rfl rfl rfl rfl (by decide)
    (fun c hc => exV_σ c hc) exV_ρ
  obtain ⟨d, hd⟩ := div_curl_defined exV c ⟨rfl, by decide⟩ hc
  exact ⟨c, d, hc, hd⟩

/-- the mapping of `exV` is one-to-one (hypothesis of `rdim_inverts_mapping`) -/
example : ∀ p ∈ exV.vmap, ∀ q ∈ exV.vmap, p.2 = q.2 → p = q := by decide

/-- relabelling `exV` is accepted, so `setVdims_keeps_map` / `div_relabel` are not vacuous -/
example : ∃ g, setVdims exV (some ["u", "v", "w"]) = .ok g := ⟨_, rfl⟩

/-- regression of finding D55: the Laplacian of the permuted field `exV` exists and carries
`exV`'s own labels and mapping (`p ↦ c`, …), not the positional ones -/
example : ∃ g, laplace exV = .ok g ∧ g.vdims = some ["p", "q", "r"] ∧ g.vmap = [("q", "a"), ("p", "c"), ("r", "b")] := by
  obtain ⟨g, hg⟩ := laplace_accepts exV ⟨rfl, by decide⟩ (by decide)
    (Or.inr ⟨by decide, ["p", "q", "r"], rfl, rfl, by decide, Or.inr (by decide)⟩)
  obtain ⟨m1, m2, _, _⟩ := laplace_keeps_meta exV g ["p", "q", "r"] (by decide) rfl rfl hg
  exact ⟨g, hg, m1, m2⟩

/-- the hypotheses of `laplace_rot90_quarter` are met by `exSP` — periodic along axis 0 only —
turned in the MIXED plane of axes 0 (periodic) and 1 (open) (regression of finding D56) -/
example : periodic exSP 0 = true ∧ periodic exSP 1 = false ∧ MeshWf exSP ∧ TurnWf exSP 0 1 ∧ FullyValid exSP ∧
    ∃ R L LR RL, rot90Fld exSP (exSP.mesh.region.dims.getD 0 "") (exSP.mesh.region.dims.getD 1 "") = .ok R ∧
      laplace exSP = .ok L ∧ laplace R = .ok LR ∧
      rot90Fld L (L.mesh.region.dims.getD 0 "") (L.mesh.region.dims.getD 1 "") = .ok RL :=
  ⟨by decide, by decide, exSP_wf, exSP_tw01, fun _ => rfl,
   laplace_rot90_defined exSP 0 1 exSP_wf exSP_tw01 rfl ⟨rfl, rfl, rfl⟩ (by decide) (by decide) (by decide)⟩

/-- … and those of `grad_rot90_quarter` (mixed plane of axes 0 and 2) -/
example : ∃ R G GR RG, rot90Fld exSP (exSP.mesh.region.dims.getD 0 "") (exSP.mesh.region.dims.getD 2 "") = .ok R ∧
      grad exSP = .ok G ∧ grad R = .ok GR ∧
      rot90Fld G (G.mesh.region.dims.getD 0 "") (G.mesh.region.dims.getD 2 "") = .ok RG :=
  grad_rot90_defined exSP 0 2 exSP_wf exSP_tw02 rfl ⟨rfl, rfl, rfl⟩ (by decide) (by decide) (by decide)

/-- … and those of `div_rot90_quarter` for the permuted field `exV` (plane of axes 0 and 1, which
`exV` pairs with its stored components 1 and 2) -/
example : (rDimLast exV (exV.mesh.region.dims.getD 0 "")).bind exV.vdimIndex = some 1 ∧
    (rDimLast exV (exV.mesh.region.dims.getD 1 "")).bind exV.vdimIndex = some 2 ∧ exσ 1 = 0 ∧ exσ 2 = 1 ∧
    (∀ c, c < exV.nvdim → c ≠ 1 → c ≠ 2 → exσ c ≠ 0 ∧ exσ c ≠ 1) ∧ (∀ i, (exV.data.get i).length = exV.nvdim) ∧
    ∃ R Dv DR RD, rot90Fld exV (exV.mesh.region.dims.getD 0 "") (exV.mesh.region.dims.getD 1 "") = .ok R ∧
      div exV = .ok Dv ∧ div R = .ok DR ∧
      rot90Fld Dv (Dv.mesh.region.dims.getD 0 "") (Dv.mesh.region.dims.getD 1 "") = .ok RD := by
  refine ⟨by decide, by decide, rfl, rfl, ?_, fun _ => rfl, ?_⟩
  · intro c hc h1 h2
    have : c = 0 := by unfold exV at hc; simp at hc; omega
    subst this; decide
  · exact div_rot90_defined exV 0 1 1 2 ["p", "q", "r"] exσ exV_wf (exV_tw 0 1) rfl (by decide) (by decide) (by decide)
      (by decide) rfl rfl rfl (by decide) (by decide) exV_σ (by decide) (by decide)

/-- … and those of `curl_rot90_quarter` for `exV` turned in the plane of axes 2, 0 -/
example : ∃ R C CR RC, rot90Fld exV (exV.mesh.region.dims.getD 2 "") (exV.mesh.region.dims.getD 0 "") = .ok R ∧
      curl exV = .ok C ∧ curl R = .ok CR ∧
      rot90Fld C (C.mesh.region.dims.getD 2 "") (C.mesh.region.dims.getD 0 "") = .ok RC :=
  curl_rot90_defined exV 2 0 ["p", "q", "r"] exσ exρ exV_wf (exV_tw 2 0) rfl (by decide) (by decide) (by decide) rfl rfl rfl rfl
    (by decide) (by decide) (fun c hc => exV_σ c hc) exV_ρ

/-- … and those of `laplace_rot90_vector_quarter` for `exV`, whose mapping is NOT positional -/
example : ∃ R L LR RL, rot90Fld exV (exV.mesh.region.dims.getD 0 "") (exV.mesh.region.dims.getD 1 "") = .ok R ∧
      laplace exV = .ok L ∧ laplace R = .ok LR ∧
      rot90Fld L (L.mesh.region.dims.getD 0 "") (L.mesh.region.dims.getD 1 "") = .ok RL :=
  laplace_rot90_vector_defined exV 0 1 1 2 ["p", "q", "r"] exV_wf (exV_tw 0 1) rfl (by decide) (by decide) (by decide)
    (by decide) rfl rfl (by decide) (by decide) (by decide) (by decide) (by decide)

/-- … `grad_rot90_iter` with `n = 7` quarter turns of `exSM` in the plane of axes 0 and 2 -/
example : ∃ R G GR RG, rotIter (exSM.mesh.region.dims.getD 0 "") (exSM.mesh.region.dims.getD 2 "") 7 exSM = .ok R ∧
    grad exSM = .ok G ∧ grad R = .ok GR ∧
    rotIter (exSM.mesh.region.dims.getD 0 "") (exSM.mesh.region.dims.getD 2 "") 7 G = .ok RG ∧
    ∀ i, InMesh R i → ∀ e, e < exSM.mesh.ndim → (GR.data.get i).getD e 0 = (RG.data.get i).getD e 0 :=
  grad_rot90_iter exSM 0 2 7 exSM_wf exSM_tw02 rfl rfl ⟨rfl, rfl, rfl⟩ (by decide) (by decide) (by decide)

/-- `div_perm` and `curl_perm` are not vacuous: `exVp` stores the components of `exV` in the order
`r, p, q` under the labels `u, v, w` with the mapping carried along -/
example : ∃ Df Dg, div exV = .ok Df ∧ div exVp = .ok Dg ∧ ∀ i, (Dg.data.get i).getD 0 0 = (Df.data.get i).getD 0 0 := by
  obtain ⟨Df, hDf⟩ := div_accepts exV ["p", "q", "r"] exσ ⟨rfl, by decide⟩ rfl (by decide) rfl rfl (by decide) exV_σ
  have h3 : ∀ k, k < exV.nvdim → k = 0 ∨ k = 1 ∨ k = 2 := by intro k hk; unfold exV at hk; simp at hk; omega
  obtain ⟨Dg, hDg, h⟩ := div_perm exV exVp Df ["p", "q", "r"] ["u", "v", "w"] exσ exπ exπ' ⟨rfl, by decide⟩ rfl rfl (fun _ => rfl)
    (by intro j k hk; rcases h3 k hk with rfl | rfl | rfl <;> rfl)
    (by intro k hk; rcases h3 k hk with rfl | rfl | rfl <;> decide)
    (by intro k hk; rcases h3 k hk with rfl | rfl | rfl <;> decide)
    rfl rfl (by decide) exV_σ rfl rfl (by decide)
    (by intro k hk; rcases h3 k hk with rfl | rfl | rfl <;> decide) hDf
  exact ⟨Df, Dg, hDf, hDg, h⟩

example : ∃ Cf Cg, curl exV = .ok Cf ∧ curl exVp = .ok Cg ∧
    ∀ i c, c < 3 → (Cg.data.get i).getD c 0 = (Cf.data.get i).getD c 0 := by
  obtain ⟨Cf, hCf⟩ := curl_accepts exV ["p", "q", "r"] exσ exρ ⟨rfl, by decide⟩ rfl rfl rfl rfl (by decide)
    (fun c hc => exV_σ c hc) exV_ρ
  have h3 : ∀ k, k < 3 → k = 0 ∨ k = 1 ∨ k = 2 := by intro k hk; omega
  obtain ⟨Cg, hCg, h⟩ := curl_perm exV exVp Cf ["p", "q", "r"] ["u", "v", "w"] exρ (fun k => exσ (exπ k)) exπ exπ' ⟨rfl, by decide⟩
    rfl rfl (fun _ => rfl)
    (by intro j k hk; rcases h3 k hk with rfl | rfl | rfl <;> rfl)
    (by intro k hk; rcases h3 k hk with rfl | rfl | rfl <;> decide)
    rfl rfl (by decide) exV_ρ rfl rfl (by decide)
    (by intro k hk; rcases h3 k hk with rfl | rfl | rfl <;> decide)
    (by intro k hk; rcases h3 k hk with rfl | rfl | rfl <;> decide) hCf
  exact ⟨Cf, Cg, hCf, hCg, h⟩

/-- `laplace_rot90_all_k` is not vacuous: the MASKED field `exSM` (one invalid cell, periodic along
axis 0) turned by `k = -3` in the mixed plane of axes 0 (periodic) and 1 (open) -/
example : exSM.valid.get [1, 1, 2] = false ∧ ∃ R L LR RL,
    rot90FldK exSM (exSM.mesh.region.dims.getD 0 "") (exSM.mesh.region.dims.getD 1 "") (-3) = .ok R ∧ laplace exSM = .ok L ∧
    laplace R = .ok LR ∧ rot90FldK L (exSM.mesh.region.dims.getD 0 "") (exSM.mesh.region.dims.getD 1 "") (-3) = .ok RL ∧
    ∀ i, InMesh R i → (LR.data.get i).getD 0 0 = (RL.data.get i).getD 0 0 :=
  ⟨by decide, laplace_rot90_all_k exSM 0 1 (-3) exSM_wf exSM_tw01 rfl rfl ⟨rfl, rfl, rfl⟩ (by decide) (by decide) (by decide)⟩


/-- … `div_rot90_all_k` for the masked, permuted field `exVM` and `k = 2` -/
example : ∃ R Dv DR RD, rot90FldK exVM (exVM.mesh.region.dims.getD 0 "") (exVM.mesh.region.dims.getD 1 "") 2 = .ok R ∧
    div exVM = .ok Dv ∧ div R = .ok DR ∧
    rot90FldK Dv (exVM.mesh.region.dims.getD 0 "") (exVM.mesh.region.dims.getD 1 "") 2 = .ok RD ∧
    ∀ i, InMesh R i → (DR.data.get i).getD 0 0 = (RD.data.get i).getD 0 0 :=
  div_rot90_all_k exVM 0 1 1 2 2 ["p", "q", "r"] exσ exVM_wf (exVM_tw 0 1) rfl rfl (by decide) (by decide) (by decide)
    (by decide) rfl rfl rfl (by decide) (by decide) (fun _ => rfl) exV_σ (by decide) (by decide) (by decide) (by decide) rfl rfl
    (by
      intro c hc h1 h2
      have : c = 0 := by unfold exVM exV at hc; simp at hc; omega
      subst this; decide)


/-- … `curl_rot90_all_k` for `exVM`, `k = -1`, plane of axes 2, 0 -/
example : ∃ R C CR RC, rot90FldK exVM (exVM.mesh.region.dims.getD 2 "") (exVM.mesh.region.dims.getD 0 "") (-1) = .ok R ∧
    curl exVM = .ok C ∧ curl R = .ok CR ∧
    rot90FldK C (exVM.mesh.region.dims.getD 2 "") (exVM.mesh.region.dims.getD 0 "") (-1) = .ok RC ∧
    ∀ i, InMesh R i → ∀ c, c < 3 → (CR.data.get i).getD c 0 = (RC.data.get i).getD c 0 :=
  curl_rot90_all_k exVM 2 0 (-1) ["p", "q", "r"] exσ exρ exVM_wf (exVM_tw 2 0) rfl rfl (by decide) (by decide) (by decide) rfl rfl
    rfl rfl (by decide) (by decide) (fun _ => rfl) (fun c hc => exV_σ c hc) exV_ρ (by decide)


/-- … `laplace_rot90_vector_all_k` for `exVM`, `k = 5` -/
example : ∃ R L LR RL, rot90FldK exVM (exVM.mesh.region.dims.getD 0 "") (exVM.mesh.region.dims.getD 1 "") 5 = .ok R ∧
    laplace exVM = .ok L ∧ laplace R = .ok LR ∧
    rot90FldK L (exVM.mesh.region.dims.getD 0 "") (exVM.mesh.region.dims.getD 1 "") 5 = .ok RL ∧
    ∀ i, InMesh R i → ∀ c, c < exVM.nvdim → (LR.data.get i).getD c 0 = (RL.data.get i).getD c 0 :=
  laplace_rot90_vector_all_k exVM 0 1 1 2 5 ["p", "q", "r"] exVM_wf (exVM_tw 0 1) rfl rfl (by decide) (by decide) (by decide)
    (by decide) rfl rfl (by decide) (by decide) (by decide) (fun _ => rfl) (by decide) (by decide) (by decide) (by decide) (by decide)

/-- `ExactAt` is not vacuous: in the masked open field `exSO` (cell (3,2,4) invalid) the cell (1,1,3) is
valid and its runs along the three axes have 4, 3 and 5 cells -/
example : exSO.valid.get [3, 2, 4] = false ∧ ExactAt exSO [1, 1, 3] := by
  refine ⟨by decide, ?_⟩
  intro a ha
  have : a = 0 ∨ a = 1 ∨ a = 2 := by unfold Mesh.ndim Region.ndim exSO exS exMesh at ha; simp at ha; omega
  rcases this with rfl | rfl | rfl
  · refine ⟨by decide, ?_, by decide, by decide⟩
    simp [Mesh.cellAt, Mesh.nAt, exSO, exS, exMesh, Region.edge, Region.hi, Region.lo]
  · refine ⟨by decide, ?_, by decide, by decide⟩
    simp [Mesh.cellAt, Mesh.nAt, exSO, exS, exMesh, Region.edge, Region.hi, Region.lo]
  · refine ⟨by decide, ?_, by decide, by decide⟩
    simp [Mesh.cellAt, Mesh.nAt, exSO, exS, exMesh, Region.edge, Region.hi, Region.lo]

/-! ### non-vacuity of sections 10 and 11 (`exSub`, `exSMs`, `exVMs`, `exSmc`, `exS57` are defined in
`DFV/Lemmas/C05ExamplesObj.lean`) -/

/-- `laplace_rotate90_obj`: the masked scalar field `exSMs` — periodic along `a`, on a mesh WITH a
subregion — turned IN PLACE by `k = -3` in the plane of axes 0 and 2 about the reference point
`(1, 2, 3)`; the result of the Laplacian is turned in the copying form -/
example : exSMs.mesh.subs ≠ [] ∧ ∃ x g L LR y RL, T.rotate90F exSMs "a" "c" (-3) (some [1, 2, 3]) true = .ok (x, g) ∧
    laplace exSMs = .ok L ∧ laplace g = .ok LR ∧ T.rotate90F L "a" "c" (-3) (some [1, 2, 3]) false = .ok (y, RL) ∧
    x = g ∧ y = L ∧ LR.mesh = RL.mesh := by
  obtain ⟨x, g, h⟩ := exSMs_rot
  obtain ⟨L, LR, y, RL, h1, h2, h3, h4, h5, h6, h7, _⟩ := laplace_rotate90_obj exSMs x g 0 2 (-3) (some [1, 2, 3]) true false
    exSMs_wf exSMs_tw02 rfl ⟨rfl, rfl, rfl⟩ (by decide) (by decide) (by decide) h
  exact ⟨by decide, x, g, L, LR, y, RL, h, h1, h2, h3, by simpa using h4, by simpa using h5, by rw [h6, h7]⟩

/-- … `grad_rotate90_obj` for the same call -/
example : ∃ x g G GR y RG, T.rotate90F exSMs "a" "c" (-3) (some [1, 2, 3]) true = .ok (x, g) ∧
    grad exSMs = .ok G ∧ grad g = .ok GR ∧ T.rotate90F G "a" "c" (-3) (some [1, 2, 3]) true = .ok (y, RG) ∧ y = RG := by
  obtain ⟨x, g, h⟩ := exSMs_rot
  obtain ⟨G, GR, y, RG, h1, h2, h3, _, h5, _⟩ := grad_rotate90_obj exSMs x g 0 2 (-3) (some [1, 2, 3]) true true
    exSMs_wf exSMs_tw02 rfl ⟨rfl, rfl, rfl⟩ (by decide) (by decide) (by decide) h
  exact ⟨x, g, G, GR, y, RG, h, h1, h2, h3, by simpa using h5⟩

/-- … `curl_rotate90_obj` / `div_rotate90_obj` / `laplace_vector_rotate90_obj`: the masked, permuted vector field
`exVMs` on the mesh with a subregion, copying form, `k = 5`, plane of axes 2 and 0, reference point `(1/2, 2, -3)`
outside the region; the mapping of `exVMs` is one-to-one -/
example : OneToOne exVMs.vmap := by unfold OneToOne; decide

example : ∃ x g C CR y RC, T.rotate90F exVMs "c" "a" 5 (some [1/2, 2, -3]) false = .ok (x, g) ∧
    curl exVMs = .ok C ∧ curl g = .ok CR ∧ T.rotate90F C "c" "a" 5 (some [1/2, 2, -3]) false = .ok (y, RC) := by
  obtain ⟨x, g, h⟩ := exVMs_rot
  obtain ⟨C, CR, y, RC, h1, h2, h3, _⟩ := curl_rotate90_obj exVMs x g 2 0 5 (some [1/2, 2, -3]) false false ["p", "q", "r"] exσ exρ
    exVMs_wf (exVMs_tw 2 0) rfl (by decide) (by decide) (by decide) rfl rfl rfl rfl (by decide) (by decide) (by unfold OneToOne; decide)
    (fun _ => rfl) (fun c hc => exV_σ c hc) exV_ρ (by decide) h
  exact ⟨x, g, C, CR, y, RC, h, h1, h2, h3⟩

example : ∃ x g Dv DR y RD, T.rotate90F exVMs "c" "a" 5 (some [1/2, 2, -3]) false = .ok (x, g) ∧
    div exVMs = .ok Dv ∧ div g = .ok DR ∧ T.rotate90F Dv "c" "a" 5 (some [1/2, 2, -3]) true = .ok (y, RD) := by
  obtain ⟨x, g, h⟩ := exVMs_rot
  obtain ⟨Dv, DR, y, RD, h1, h2, h3, _⟩ := div_rotate90_obj exVMs x g 2 0 0 1 5 (some [1/2, 2, -3]) false true ["p", "q", "r"] exσ
    exVMs_wf (exVMs_tw 2 0) rfl (by decide) (by decide) (by decide) (by decide) rfl rfl rfl (by decide) (by decide)
    (by unfold OneToOne; decide) (fun _ => rfl) exV_σ (by decide) (by decide) (by decide) (by decide) rfl rfl
    (by
      intro c hc h1 h2
      have : c = 2 := by unfold exVMs exVM exV at hc; simp at hc; omega
      subst this; decide) h
  exact ⟨x, g, Dv, DR, y, RD, h, h1, h2, h3⟩

example : ∃ x g L LR y RL, T.rotate90F exVMs "c" "a" 5 (some [1/2, 2, -3]) false = .ok (x, g) ∧
    laplace exVMs = .ok L ∧ laplace g = .ok LR ∧ T.rotate90F L "c" "a" 5 (some [1/2, 2, -3]) false = .ok (y, RL) := by
  obtain ⟨x, g, h⟩ := exVMs_rot
  obtain ⟨L, LR, y, RL, h1, h2, h3, _⟩ := laplace_vector_rotate90_obj exVMs x g 2 0 0 1 5 (some [1/2, 2, -3]) false false ["p", "q", "r"]
    exVMs_wf (exVMs_tw 2 0) rfl (by decide) (by decide) (by decide) (by decide) rfl rfl (by decide) (by decide) (by decide)
    (by unfold OneToOne; decide) (fun _ => rfl) (by decide) (by decide) (by decide) (by decide) (by decide) h
  exact ⟨x, g, L, LR, y, RL, h, h1, h2, h3⟩

/-- `turnWf_of_open_plane`: on `exSmc` (axes `x`, `yy`, `zeta`, periodic along `x`) the plane of the two
multi-character axes is open, so every commutation theorem applies to it -/
example : periodic exSmc 0 = true ∧ TurnWf exSmc 1 2 ∧
    ∃ R G GR RG, rot90FldK exSmc (exSmc.mesh.region.dims.getD 1 "") (exSmc.mesh.region.dims.getD 2 "") 3 = .ok R ∧ grad exSmc = .ok G ∧
      grad R = .ok GR ∧ rot90FldK G (exSmc.mesh.region.dims.getD 1 "") (exSmc.mesh.region.dims.getD 2 "") 3 = .ok RG := by
  have tw := turnWf_of_open_plane exSmc 1 2 exSmc_wf (by decide) (by decide)
  obtain ⟨R, G, GR, RG, h1, h2, h3, h4, _⟩ := grad_rot90_all_k exSmc 1 2 3 exSmc_wf tw rfl rfl ⟨rfl, rfl, rfl⟩ (by decide) (by decide) (by decide)
  exact ⟨by decide, tw, R, G, GR, RG, h1, h2, h3, h4⟩

/-- `curl_relabel` / `div_accepted_iff` / `div_refusal` / `curl_refusal` are not vacuous: `exV` is relabelled
(`exσ` and `exρ` are mutually inverse), `div exV` is accepted, and the scalar field `exS` is refused by both -/
example : (∀ d, d < 3 → exρ d < 3 ∧ exσ (exρ d) = d) ∧ (∃ f', setVdims exV (some ["u", "v", "w"]) = .ok f') ∧
    (∃ e, div exS = .error e) ∧ (∃ e, curl exS = .error e) :=
  ⟨by decide, ⟨_, rfl⟩, div_refusal exS (Or.inl (by decide)), curl_refusal exS (Or.inl (by decide))⟩

/-- `rotate90_obj_accepts_scalar` + `grad_rotate90_obj`: on the subregion-free masked field `exSM` the turn by `k = 6`
about the far-away reference point `(100, -7, 1/3)` is accepted in place, and the gradient commutes with it -/
example : ∃ x g G GR y RG, T.rotate90F exSM "a" "c" 6 (some [100, -7, 1/3]) true = .ok (x, g) ∧ grad exSM = .ok G ∧
    grad g = .ok GR ∧ T.rotate90F G "a" "c" 6 (some [100, -7, 1/3]) true = .ok (y, RG) := by
  obtain ⟨x, g, h⟩ := rotate90_obj_accepts_scalar exSM 0 2 6 (some [100, -7, 1/3]) true exSM_wf exSM_tw02 rfl ⟨rfl, rfl, rfl⟩
    (by decide) (by decide) (by decide) (by intro R hR; injection hR with hR; subst hR; rfl)
  obtain ⟨G, GR, y, RG, h1, h2, h3, _⟩ := grad_rotate90_obj exSM x g 0 2 6 (some [100, -7, 1/3]) true true
    exSM_wf exSM_tw02 rfl ⟨rfl, rfl, rfl⟩ (by decide) (by decide) (by decide) h
  exact ⟨x, g, G, GR, y, RG, h, h1, h2, h3⟩

/-- `periodic_word_open` / `turnWf_of_word_bc` / `exactMesh_of_word`: on `exSN` (axes `n`, `y`, `bc = "neumann"`) the axis
`n` is open although `"n"` occurs in `"neumann"`, and the plane may be turned -/
example : exSN.mesh.bc = "neumann" ∧ exSN.mesh.region.dims = ["n", "y"] ∧ periodic exSN 0 = false ∧ TurnWf exSN 0 1 ∧
    ∃ R L LR RL, rot90FldK exSN (exSN.mesh.region.dims.getD 0 "") (exSN.mesh.region.dims.getD 1 "") 1 = .ok R ∧ laplace exSN = .ok L ∧
      laplace R = .ok LR ∧ rot90FldK L (exSN.mesh.region.dims.getD 0 "") (exSN.mesh.region.dims.getD 1 "") 1 = .ok RL := by
  have tw := turnWf_of_word_bc exSN 0 1 exSN_wf (Or.inl rfl)
  obtain ⟨R, L, LR, RL, h1, h2, h3, h4, _⟩ := laplace_rot90_all_k exSN 0 1 1 exSN_wf tw rfl rfl ⟨rfl, rfl, rfl⟩ (by decide) (by decide) (by decide)
  exact ⟨rfl, rfl, periodic_word_open exSN 0 (Or.inl rfl), tw, R, L, LR, RL, h1, h2, h3, h4⟩

/-- `periodic_multichar_open` / `periodic_name_lower`: on `exSXY` (axes `x`, `y`, `xy`, `bc = "xy"`) the axes `x`, `y` are
periodic, the axis `xy` is not -/
example : periodic exSXY 0 = true ∧ periodic exSXY 1 = true ∧ periodic exSXY 2 = false ∧
    (exSXY.mesh.region.dims.getD 2 "").toList.length ≠ 1 :=
  ⟨by decide, by decide, periodic_multichar_open exSXY 2 (by decide), by decide⟩

/-- `turnWf_of_bcTurns`: for `exSP` (periodic along `a`) the plane of axes 0 and 1 — both names single lower-case
characters — needs nothing but the well-formedness of the mesh -/
example : TurnWf exSP 0 1 :=
  turnWf_of_bcTurns exSP 0 1 exSP_wf (by decide) (by decide) (by decide) (Or.inl ⟨by decide, by decide, lower_a, lower_b⟩)

end DFV.C05
