import DFV.Lemmas.C05
namespace DFV.C05
open DFV DFV.C04

theorem grad_eq (f g : Fld) (hd : DimsOk f) (h : grad f = .ok g) :
    f.nvdim = 1 ∧ g.nvdim = f.mesh.ndim ∧ g.mesh = f.mesh ∧ (∀ i, g.valid.get i = f.valid.get i) ∧
    ∀ i a, a < f.mesh.ndim → (g.data.get i).getD a 0 = D f a 1 0 i := by
  obtain ⟨hl, hdup⟩ := hd
  unfold grad at h
  split at h
  · cases h
  · rename_i hn
    have hn1 : f.nvdim = 1 := by omega
    split at h
    · cases h
    · rename_i ds hds
      obtain ⟨l, e⟩ := mapE_ok _ _ _ hds
      -- every derivative is the C04 derivative along its axis
      have hk : ∀ k (hk : k < ds.length), C04.diff f k 1 true = .ok ds[k] := by
        intro k hk
        have := e k (by omega) hk
        rw [← diffDim_eq f k 1 hdup (by omega)]
        rw [List.getD_eq_getElem?_getD, List.getElem?_eq_getElem (by omega)]
        exact this
      have hs : ∀ d ∈ ds, d.nvdim = 1 := by
        intro d hd
        obtain ⟨k, hk', rfl⟩ := List.getElem_of_mem hd
        rw [(diff_ok (hk k hk')).2.1, hn1]
      cases ds with
      | nil => simp [stack] at h
      | cons d0 ds' =>
        simp only [stack] at h
        obtain ⟨s1, s2, s3, s4⟩ := stackGo_ok ds' d0 g (fun d hd => hs d (by simp [hd])) h
        have hd0 : d0.nvdim = 1 := hs d0 (by simp)
        have hm0 := (diff_ok (hk 0 (by simp))).1
        simp only [List.getElem_cons_zero] at hm0
        refine ⟨hn1, ?_, by rw [s1, hm0], ?_, ?_⟩
        · rw [s2, hd0, ← hl, ← l]; simp; omega
        · intro i
          have hv0 := (diff_ok (hk 0 (by simp))).2.2.1
          simp only [List.getElem_cons_zero] at hv0
          rw [s4 i, hv0]
          exact and_all_const (f.valid.get i) ds' (fun d => d.valid.get i) (by
            intro d hd
            obtain ⟨k, hk', rfl⟩ := List.getElem_of_mem hd
            have := (diff_ok (hk (k + 1) (by simp; omega))).2.2.1
            simp only [List.getElem_cons_succ] at this
            rw [this])
        · intro i a ha
          have ha' : a < (d0 :: ds').length := by rw [l, hl]; exact ha
          have hg : a < g.nvdim := by rw [s2, hd0]; simp at ha'; omega
          rw [← cellv_getD g i a hg, s3 i]
          have hc0 : cellv d0 i = [(d0.data.get i).getD 0 0] := by simp [cellv, hd0, tab]
          rw [hc0]
          have : ([(d0.data.get i).getD 0 0] ++ ds'.map fun d => (d.data.get i).getD 0 0)
              = (d0 :: ds').map fun d => (d.data.get i).getD 0 0 := by simp
          rw [this, List.getD_eq_getElem?_getD, List.getElem?_map, List.getElem?_eq_getElem ha']
          simp only [Option.map_some, Option.getD_some]
          exact diff_data (hk a ha') i 0 (by omega)

/-- **Divergence.**  If `div` accepts the field then `nvdim = ndim`, and whenever stored
component `c` is mapped (by `vdim_mapping`, through its label — whatever the label's
spelling and wherever the component is stored) onto axis `σ c`, the value at every cell is
`Σ_c ∂(component c)/∂(axis σ c)`. -/
theorem div_eq (f g : Fld) (vs : List String) (σ : Nat → Nat) (hdims : DimsOk f)
    (hv : f.vdims = some vs) (hvl : vs.length = f.nvdim) (hvd : hasDup vs = false)
    (hσ : ∀ c, c < f.nvdim → σ c < f.mesh.ndim ∧
      Fld.lookup f.vmap (vs.getD c "") = some (f.mesh.region.dims.getD (σ c) ""))
    (h : div f = .ok g) :
    f.nvdim = f.mesh.ndim ∧ g.nvdim = 1 ∧ g.mesh = f.mesh ∧ (∀ i, g.valid.get i = f.valid.get i) ∧
    ∀ i, (g.data.get i).getD 0 0 = sumTo f.nvdim fun c => D f (σ c) 1 c i := by
  unfold div at h
  split at h
  · cases h
  · rename_i hn
    rw [hv] at h
    simp only [] at h
    split at h
    · cases h
    · split at h
      · cases h
      · rename_i ts hts
        obtain ⟨l, e⟩ := mapE_ok _ _ _ hts
        have ht : ∀ k (hk : k < ts.length), ts[k].nvdim = 1 ∧ ts[k].mesh = f.mesh ∧ ts[k].valid = f.valid ∧
            ∀ i, (ts[k].data.get i).getD 0 0 = D f (σ k) 1 k i := by
          intro k hk
          have hk' : k < vs.length := by omega
          have := e k hk' hk
          have hgk : vs[k] = vs.getD k "" := by
            rw [List.getD_eq_getElem?_getD, List.getElem?_eq_getElem hk']; rfl
          rw [hgk] at this
          exact divTerm_ok hv hvd hdims hk' (hσ k (by omega)).1 (hσ k (by omega)).2 this
        have hs : ∀ t ∈ ts, t.nvdim = 1 := by
          intro t htm
          obtain ⟨k, hk', rfl⟩ := List.getElem_of_mem htm
          exact (ht k hk').1
        obtain ⟨t0, h0, s1, s2, _, s4, s5⟩ := sumF_ok ts g hs h
        have hpos : 0 < ts.length := by
          cases ts with
          | nil => simp at h0
          | cons _ _ => simp
        have ht0 : t0 = ts[0] := by
          cases ts with
          | nil => simp at h0
          | cons a b => simp at h0; simp [h0]
        refine ⟨by unfold Mesh.ndim; omega, s2, by rw [s1, ht0, (ht 0 hpos).2.1], ?_, ?_⟩
        · intro i
          rw [s4 i]
          have := and_all_const (f.valid.get i) ts (fun t => t.valid.get i) (by
            intro t htm
            obtain ⟨k, hk', rfl⟩ := List.getElem_of_mem htm
            rw [(ht k hk').2.2.1])
          cases hb : f.valid.get i with
          | true => rw [hb] at this; simpa using this
          | false =>
            have h00 : ts[0].valid.get i = false := by rw [(ht 0 hpos).2.2.1, hb]
            simp only [List.all_eq_false]
            exact ⟨ts[0], List.getElem_mem hpos, by simp [h00]⟩
        · intro i
          rw [s5 i, l, hvl]
          apply sumTo_congr
          intro k hk
          have hk' : k < ts.length := by omega
          simp only [List.getD_eq_getElem?_getD, List.getElem?_eq_getElem hk', Option.getD_some]
          exact (ht k hk').2.2.2 i

/-- **Curl.**  If `curl` accepts the field then it is a 3-component field on a 3-d mesh,
and with `ρ d` the storage position of the component that the reversed mapping pairs with
axis `d`, the result (components in AXIS order) is the textbook curl. -/
theorem curl_eq (f g : Fld) (vs : List String) (ρ : Nat → Nat) (hdims : DimsOk f)
    (hv : f.vdims = some vs) (hvl : vs.length = f.nvdim) (hvd : hasDup vs = false)
    (hρ : ∀ d, d < 3 → ρ d < 3 ∧
      rDimLast f (f.mesh.region.dims.getD d "") = some (vs.getD (ρ d) ""))
    (h : curl f = .ok g) :
    f.nvdim = 3 ∧ f.mesh.ndim = 3 ∧ g.nvdim = 3 ∧ g.mesh = f.mesh ∧ (∀ i, g.valid.get i = f.valid.get i) ∧
    ∀ i, (g.data.get i).getD 0 0 = D f 1 1 (ρ 2) i - D f 2 1 (ρ 1) i ∧
         (g.data.get i).getD 1 0 = D f 2 1 (ρ 0) i - D f 0 1 (ρ 2) i ∧
         (g.data.get i).getD 2 0 = D f 0 1 (ρ 1) i - D f 1 1 (ρ 0) i := by
  unfold curl at h
  split at h
  · cases h
  · rename_i hn
    have hn3 : f.nvdim = 3 := by omega
    have hd3 : f.mesh.ndim = 3 := by unfold Mesh.ndim; omega
    rw [hv] at h
    simp only [] at h
    split at h
    · cases h
    · split at h
      · rename_i x y z hxyz
        have g0 : f.mesh.region.dims.getD 0 "" = x := by rw [hxyz]; rfl
        have g1 : f.mesh.region.dims.getD 1 "" = y := by rw [hxyz]; rfl
        have g2 : f.mesh.region.dims.getD 2 "" = z := by rw [hxyz]; rfl
        rw [← g0, ← g1, ← g2] at h
        split at h
        · cases h
        · rename_i cx hcx
          split at h
          · cases h
          · rename_i cy hcy
            split at h
            · cases h
            · rename_i cz hcz
              split at h
              · cases h
              · rename_i cxy hcxy
                have hl : ∀ d, d < 3 → ρ d < vs.length := fun d hd => by rw [hvl, hn3]; exact (hρ d hd).1
                obtain ⟨x1, x2, x3, x4⟩ := curlComp_ok hv hvd hdims (by omega) (by omega) (hl 2 (by omega)) (hl 1 (by omega))
                  (hρ 2 (by omega)).2 (hρ 1 (by omega)).2 hcx
                obtain ⟨y1, y2, y3, y4⟩ := curlComp_ok hv hvd hdims (by omega) (by omega) (hl 0 (by omega)) (hl 2 (by omega))
                  (hρ 0 (by omega)).2 (hρ 2 (by omega)).2 hcy
                obtain ⟨z1, z2, z3, z4⟩ := curlComp_ok hv hvd hdims (by omega) (by omega) (hl 1 (by omega)) (hl 0 (by omega))
                  (hρ 1 (by omega)).2 (hρ 0 (by omega)).2 hcz
                obtain ⟨u1, _, u2, u4, _, _, _, _⟩ := lshift_ok hcxy
                obtain ⟨w1, _, w2, w4, _, _, _, _⟩ := lshift_ok h
                have hc : ∀ i, cellv g i = [(cx.data.get i).getD 0 0, (cy.data.get i).getD 0 0, (cz.data.get i).getD 0 0] := by
                  intro i
                  rw [cellv_lshift h i, cellv_lshift hcxy i]
                  simp [cellv, x1, y1, z1, tab]
                have hg3 : g.nvdim = 3 := by rw [w2, u2, x1, y1, z1]
                refine ⟨hn3, hd3, hg3, by rw [w1, u1, x2], ?_, ?_⟩
                · intro i
                  rw [w4, u4]
                  simp only [andValid]
                  rw [x3 i, y3 i, z3 i]; simp
                · intro i
                  rw [← cellv_getD g i 0 (by omega), ← cellv_getD g i 1 (by omega), ← cellv_getD g i 2 (by omega), hc i]
                  simp only [List.getD_cons_zero, List.getD_cons_succ]
                  exact ⟨x4 i, y4 i, z4 i⟩
      · cases h

/-- **Laplacian, scalar field**: `Σ_axes ∂²f/∂axis²` at every cell. -/
theorem laplace_eq_scalar (f g : Fld) (hdims : DimsOk f) (hn1 : f.nvdim = 1) (h : laplace f = .ok g) :
    g.nvdim = 1 ∧ g.mesh = f.mesh ∧ (∀ i, g.valid.get i = f.valid.get i) ∧
    ∀ i, (g.data.get i).getD 0 0 = sumTo f.mesh.ndim fun a => D f a 2 0 i := by
  unfold laplace at h
  rw [if_pos hn1] at h
  split at h
  · cases h
  · rename_i ts hts
    obtain ⟨a, b, _, c, d⟩ := lapSum_ok hdims hn1 hts h
    exact ⟨a, b, c, d⟩

/-- **Laplacian, vector field**: component `c` of the result is the Laplacian of stored
component `c` (no pairing with axes is involved in the values). -/
theorem laplace_eq_vector (f g : Fld) (vs : List String) (hdims : DimsOk f) (hn : f.nvdim ≠ 1)
    (hv : f.vdims = some vs) (hvl : vs.length = f.nvdim) (hvd : hasDup vs = false)
    (h : laplace f = .ok g) :
    g.nvdim = f.nvdim ∧ g.mesh = f.mesh ∧ (∀ i, g.valid.get i = f.valid.get i) ∧
    ∀ i c, c < f.nvdim → (g.data.get i).getD c 0 = sumTo f.mesh.ndim fun a => D f a 2 c i := by
  unfold laplace at h
  rw [if_neg hn, hv] at h
  simp only [] at h
  split at h
  · cases h
  · rename_i ds hds
    obtain ⟨l, e⟩ := mapE_ok _ _ _ hds
    have hk : ∀ k (hk : k < ds.length), ds[k].nvdim = 1 ∧ ds[k].mesh = f.mesh ∧
        (∀ i, ds[k].valid.get i = f.valid.get i) ∧
        ∀ i, (ds[k].data.get i).getD 0 0 = sumTo f.mesh.ndim fun a => D f a 2 k i := by
      intro k hk
      have hk' : k < vs.length := by omega
      have := e k hk' hk
      have hgk : vs[k] = vs.getD k "" := by
        rw [List.getD_eq_getElem?_getD, List.getElem?_eq_getElem hk']; rfl
      rw [hgk] at this
      exact lapComp_ok hv hvd hdims hk' this
    have hs : ∀ d ∈ ds, d.nvdim = 1 := by
      intro d hd
      obtain ⟨k, hk', rfl⟩ := List.getElem_of_mem hd
      exact (hk k hk').1
    cases ds with
    | nil => simp [stack] at h
    | cons d0 ds' =>
      simp only [stack] at h
      obtain ⟨s1, s2, s3, s4⟩ := stackGo_ok ds' d0 g (fun d hd => hs d (by simp [hd])) h
      have hd0 : d0.nvdim = 1 := hs d0 (by simp)
      have h0 := hk 0 (by simp)
      simp only [List.getElem_cons_zero] at h0
      have hgn : g.nvdim = f.nvdim := by rw [s2, hd0, ← hvl, ← l]; simp; omega
      refine ⟨hgn, by rw [s1, h0.2.1], ?_, ?_⟩
      · intro i
        rw [s4 i, h0.2.2.1 i]
        exact and_all_const (f.valid.get i) ds' (fun d => d.valid.get i) (by
          intro d hd
          obtain ⟨k, hk', rfl⟩ := List.getElem_of_mem hd
          have := (hk (k + 1) (by simp; omega)).2.2.1 i
          simpa using this)
      · intro i c hc
        have hc' : c < (d0 :: ds').length := by rw [l, hvl]; exact hc
        rw [← cellv_getD g i c (by omega), s3 i]
        have hc0 : cellv d0 i = [(d0.data.get i).getD 0 0] := by simp [cellv, hd0, tab]
        rw [hc0]
        have : ([(d0.data.get i).getD 0 0] ++ ds'.map fun d => (d.data.get i).getD 0 0)
            = (d0 :: ds').map fun d => (d.data.get i).getD 0 0 := by simp
        rw [this, List.getD_eq_getElem?_getD, List.getElem?_map, List.getElem?_eq_getElem hc']
        simp only [Option.map_some, Option.getD_some]
        exact (hk c hc').2.2.2 i

/-- **Gradient is refused** for every field that is not scalar. -/
theorem grad_refusal (f : Fld) (h : f.nvdim ≠ 1) : grad f = .error .value := by
  unfold grad; simp [h]

/-- **Divergence is accepted only** when `nvdim = ndim` and every component label is mapped,
by `vdim_mapping`, onto a name that IS an axis of the mesh — otherwise it is refused. -/
theorem div_accepts_only (f g : Fld) (h : div f = .ok g) :
    f.nvdim = f.mesh.ndim ∧ ∃ vs, f.vdims = some vs ∧
      ∀ v ∈ vs, ∃ d, Fld.lookup f.vmap v = some d ∧ d ∈ f.mesh.region.dims := by
  unfold div at h
  split at h
  · cases h
  · rename_i hn
    split at h
    · cases h
    · rename_i vs hvs
      split at h
      · cases h
      · rename_i hm
        refine ⟨by unfold Mesh.ndim; omega, vs, hvs, ?_⟩
        have hm' : allMapped f vs = true := by simpa using hm
        unfold allMapped at hm'
        rw [List.all_eq_true] at hm'
        intro v hv
        have := hm' v hv
        split at this
        · cases this
        · rename_i d hd
          exact ⟨d, hd, by simpa using this⟩

/-- **Curl is accepted only** for three components on a three-dimensional mesh, every
label mapped onto an axis and every axis paired (by the reversed mapping) with a component. -/
theorem curl_accepts_only (f g : Fld) (h : curl f = .ok g) :
    f.nvdim = 3 ∧ f.mesh.ndim = 3 ∧ ∃ vs, f.vdims = some vs ∧
      (∀ v ∈ vs, ∃ d, Fld.lookup f.vmap v = some d ∧ d ∈ f.mesh.region.dims) ∧
      ∀ d ∈ f.mesh.region.dims, ∃ l k, rDimLast f d = some l ∧ f.vdimIndex l = some k := by
  unfold curl at h
  split at h
  · cases h
  · rename_i hn
    split at h
    · cases h
    · rename_i vs hvs
      split at h
      · cases h
      · rename_i hm
        refine ⟨by omega, by unfold Mesh.ndim; omega, vs, hvs, ?_, ?_⟩
        · have hm' : allMapped f vs = true := by simpa using hm
          unfold allMapped at hm'
          rw [List.all_eq_true] at hm'
          intro v hv
          have := hm' v hv
          split at this
          · cases this
          · rename_i d hd
            exact ⟨d, hd, by simpa using this⟩
        · split at h
          · rename_i x y z hxyz
            -- a successful `compOfDim` exhibits the paired component
            have key : ∀ d, (∃ c, compOfDim f d = .ok c) → ∃ l k, rDimLast f d = some l ∧ f.vdimIndex l = some k := by
              intro d ⟨c, hc⟩
              unfold compOfDim at hc
              cases hq : rDimLast f d with
              | none => rw [hq] at hc; cases hc
              | some l =>
                rw [hq] at hc
                cases hk : f.vdimIndex l with
                | none => simp only [getComp, hk] at hc; cases hc
                | some k => exact ⟨l, k, rfl, hk⟩
            have first : ∀ d1 e1 d2 e2 t, curlComp f d1 e1 d2 e2 = .ok t →
                (∃ c, compOfDim f d1 = .ok c) ∧ (∃ c, compOfDim f d2 = .ok c) := by
              intro d1 e1 d2 e2 t ht
              unfold curlComp at ht
              split at ht
              · cases ht
              · rename_i c1 hc1
                split at ht
                · cases ht
                · split at ht
                  · cases ht
                  · rename_i c2 hc2
                    exact ⟨⟨c1, hc1⟩, ⟨c2, hc2⟩⟩
            split at h
            · cases h
            · rename_i cx hcx
              split at h
              · cases h
              · rename_i cy hcy
                obtain ⟨hz, hy⟩ := first _ _ _ _ _ hcx
                obtain ⟨hx, _⟩ := first _ _ _ _ _ hcy
                intro d hd
                rw [hxyz] at hd
                simp only [List.mem_cons, List.not_mem_nil, or_false] at hd
                rcases hd with rfl | rfl | rfl
                · exact key _ hx
                · exact key _ hy
                · exact key _ hz
          · cases h

/-- **Relabelling keeps the pairing.**  Assigning new component labels to a field that has a
mapping transports the mapping position by position: the new label of component `k` is
mapped to what the old label of component `k` was mapped to.  Nothing else changes. -/
theorem setVdims_keeps_map (f g : Fld) (old new : List String) (hold : f.vdims = some old)
    (hlen : old.length = f.nvdim) (hmap : 0 < f.vmap.length) (hne : new ≠ [])
    (h : setVdims f (some new) = .ok g) :
    g.vdims = some new ∧ new.length = f.nvdim ∧ g.mesh = f.mesh ∧ g.data = f.data ∧ g.valid = f.valid ∧
    g.nvdim = f.nvdim ∧
    ∀ k, k < f.nvdim → Fld.lookup g.vmap (new.getD k "") = Fld.lookup f.vmap (old.getD k "") := by
  unfold setVdims at h
  split at h
  · cases h
  · rename_i r hr
    obtain ⟨r1, r2, r3⟩ := vdimsSet_some hne hr
    subst r1
    rw [hold] at h
    simp only [] at h
    rw [if_pos hmap] at h
    split at h
    · cases h
    · rename_i mp hmp
      unfold setVmap at h
      split at h
      · cases h
      · rename_i mp' hmp'
        injection h with h; subst h
        refine ⟨rfl, r2, rfl, rfl, rfl, rfl, ?_⟩
        have hmm : mp' = mp := by
          unfold vmapSet at hmp'
          simp only [] at hmp'
          split at hmp'
          · rename_i hc; exact absurd hc.2.2 (by simp)
          · split at hmp'
            · split at hmp'
              · injection hmp' with e; exact e.symm
              · cases hmp'
            · injection hmp' with e; exact e.symm
        rw [hmm]
        intro k hk
        exact transportMap_lookup f.vmap new old mp r3 (by omega) hmp k (by omega)

/-- LINE-LEVEL EXACTNESS: if along the line through `i` the values are a quadratic in the
offset from cell `i` (`p0 + p1·s + p2/2·s²`, `s` = distance along the axis), the first and
second derivative at `i` are `p1` and `p2` — at the first cell, in the interior, at the last
cell of a fully valid open line of at least 3 cells -/
theorem D_exact_line (f : Fld) (ax c : Nat) (i : List Nat) (p0 p1 p2 : Rat)
    (hper : periodic f ax = false) (hn : 3 ≤ f.mesh.nAt ax) (hh : f.mesh.cellAt ax ≠ 0)
    (hi : i.getD ax 0 < f.mesh.nAt ax)
    (hv : ∀ j, j < f.mesh.nAt ax → f.valid.line ax i j = true)
    (hT : ∀ j, j < f.mesh.nAt ax → (f.data.line ax i j).getD c 0
        = p0 + p1 * (((j : Rat) - (i.getD ax 0 : Nat)) * f.mesh.cellAt ax)
          + p2 / 2 * (((j : Rat) - (i.getD ax 0 : Nat)) * f.mesh.cellAt ax) ^ 2) :
    D f ax 1 c i = p1 ∧ D f ax 2 c i = p2 := by
  have key : ∀ o, D f ax o c i = dAt o (f.mesh.cellAt ax) (f.mesh.nAt ax)
      (fun k => p0 + p1 * (-((i.getD ax 0 : Nat) : Rat) * f.mesh.cellAt ax + (k : Rat) * f.mesh.cellAt ax)
        + p2 / 2 * (-((i.getD ax 0 : Nat) : Rat) * f.mesh.cellAt ax + (k : Rat) * f.mesh.cellAt ax) ^ 2) (i.getD ax 0) := by
    intro o
    rw [D_open_all_valid f ax o c i hper hv hi]
    apply dAt_congr _ _ _ _ _ _ _ hi
    intro k hk
    rw [hT k hk]; ring
  constructor
  · rw [key 1]
    unfold dAt
    simp only [if_true]
    rw [d1_exact p0 p1 (p2 / 2) _ _ hh _ hn _ hi]
    ring
  · rw [key 2]
    unfold dAt
    simp only [show ¬ ((2 : Nat) = 1) by omega, if_false]
    by_cases h4 : 4 ≤ f.mesh.nAt ax
    · have := d2_exact p0 p1 (p2 / 2) 0 (-((i.getD ax 0 : Nat) : Rat) * f.mesh.cellAt ax) _ hh _ h4 _ hi
      simp only [zero_mul, add_zero, mul_zero] at this
      rw [this]; ring
    · have h3 : f.mesh.nAt ax = 3 := by omega
      rw [h3, d2_exact_three p0 p1 (p2 / 2) _ _ hh]
      ring

/-- FIELD-LEVEL EXACTNESS of `diff`: a component that samples a function which is quadratic
along axis `ax` is differentiated exactly (first and second derivative) at every cell of a
fully valid open mesh with at least three cells along `ax`. -/
theorem D_exact (f : Fld) (ax c : Nat) (i : List Nat) (P P1 P2 : (Nat → Rat) → Rat)
    (hs : SampledFrom f c P) (hq : QuadAlong P ax P1 P2) (hval : FullyValid f)
    (hper : periodic f ax = false) (hn : 3 ≤ f.mesh.nAt ax) (hh : f.mesh.cellAt ax ≠ 0)
    (hax : ax < i.length) (hi : i.getD ax 0 < f.mesh.nAt ax) :
    D f ax 1 c i = P1 (coords f i) ∧ D f ax 2 c i = P2 (coords f i) := by
  apply D_exact_line f ax c i (P (coords f i)) (P1 (coords f i)) (P2 (coords f i)) hper hn hh hi
  · intro j _; exact hval _
  · intro j _
    unfold NDA.line
    rw [hs (setAt i ax j), coords_setAt f i ax j hax, hq]

/-- every polynomial of total degree ≤ 2 is quadratic along every axis, with the textbook
partial derivatives -/
theorem quadP_quadAlong (n : Nat) (c0 : Rat) (b : Nat → Rat) (q : Nat → Nat → Rat) (ax : Nat) (hax : ax < n) :
    QuadAlong (quadP n c0 b q) ax (quadP1 n b q ax) (fun _ => 2 * q ax ax) := by
  intro x s
  rw [upd_add]
  unfold quadP quadP1
  -- linear part
  have l1 : sumTo n (fun a => b a * (x a + s * (if a = ax then (1 : Rat) else 0)))
      = sumTo n (fun a => b a * x a) + s * b ax := by
    rw [sumTo_congr n _ (fun a => b a * x a + s * 0 + s * ((if a = ax then (1 : Rat) else 0) * b a) + 0 * 0)
      (fun a _ => by ring)]
    rw [sumTo_lin4, sumTo_delta n ax hax, sumTo_zero]
    ring
  -- inner sums of the quadratic part
  have inner : ∀ a, sumTo n (fun a' => q a a' * (x a + s * (if a = ax then (1 : Rat) else 0))
        * (x a' + s * (if a' = ax then (1 : Rat) else 0)))
      = sumTo n (fun a' => q a a' * x a * x a')
        + s * ((if a = ax then (1 : Rat) else 0) * sumTo n (fun a' => q a a' * x a'))
        + s * (x a * q a ax) + s ^ 2 * ((if a = ax then (1 : Rat) else 0) * q a ax) := by
    intro a
    rw [sumTo_congr n _ (fun a' => q a a' * x a * x a'
        + s * ((if a = ax then (1 : Rat) else 0) * (q a a' * x a'))
        + s * ((if a' = ax then (1 : Rat) else 0) * (x a * q a a'))
        + s ^ 2 * ((if a' = ax then (1 : Rat) else 0) * ((if a = ax then (1 : Rat) else 0) * q a a')))
      (fun a' _ => by ring)]
    rw [sumTo_lin4, sumTo_delta n ax hax, sumTo_delta n ax hax]
    have : sumTo n (fun a' => (if a = ax then (1 : Rat) else 0) * (q a a' * x a'))
        = (if a = ax then (1 : Rat) else 0) * sumTo n (fun a' => q a a' * x a') :=
      sumTo_mul_left n _ _
    rw [this]
  have l2 : sumTo n (fun a => sumTo n fun a' => q a a' * (x a + s * (if a = ax then (1 : Rat) else 0))
        * (x a' + s * (if a' = ax then (1 : Rat) else 0)))
      = sumTo n (fun a => sumTo n fun a' => q a a' * x a * x a')
        + s * sumTo n (fun a' => q ax a' * x a') + s * sumTo n (fun a => q a ax * x a) + s ^ 2 * q ax ax := by
    rw [sumTo_congr n _ _ (fun a _ => inner a)]
    rw [sumTo_congr n _ (fun a => sumTo n (fun a' => q a a' * x a * x a')
        + s * ((if a = ax then (1 : Rat) else 0) * sumTo n (fun a' => q a a' * x a'))
        + s * (q a ax * x a) + s ^ 2 * ((if a = ax then (1 : Rat) else 0) * q a ax))
      (fun a _ => by ring)]
    rw [sumTo_lin4, sumTo_delta n ax hax, sumTo_delta n ax hax]
  rw [l1, l2]
  have l3 : sumTo n (fun a => (q ax a + q a ax) * x a)
      = sumTo n (fun a' => q ax a' * x a') + sumTo n (fun a => q a ax * x a) := by
    rw [← sumTo_add]
    exact sumTo_congr n _ _ (fun a _ => by ring)
  rw [l3]
  ring

end DFV.C05
