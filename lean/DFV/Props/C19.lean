import DFV.Lemmas.C19Tcd
import DFV.Lemmas.C19Mesh
import DFV.Lemmas.C19Demag
import DFV.Lemmas.C19Conv
import DFV.Lemmas.C19Real
import DFV.Lemmas.C19Examples
import DFV.Lemmas.C19Quarter
import DFV.Lemmas.C19QuarterC12
import DFV.Lemmas.C19QuarterAll
import DFV.Lemmas.C19Fourier
import DFV.Lemmas.C19Bps
import DFV.Lemmas.C19Angle
import DFV.Lemmas.C19BLReal
import DFV.Lemmas.C19Cuboid
import DFV.Lemmas.C19ConvThm
import DFV.Lemmas.C19IntegReal
import DFV.Lemmas.C19QuarterBc
import DFV.Lemmas.C19Parity
import DFV.Lemmas.C19Iff
import DFV.Lemmas.C19Aff
import DFV.Lemmas.C19Slice
import DFV.Lemmas.C19SumReal
/-!
# C19 — topological and demagnetisation tools obey their physical invariances

Property theorems about the model of `discretisedfield/tools/tools.py` (`DFV/Model/C19.lean`).
Meshes, cell sizes, cell counts, validity masks, vectors, rotation matrices, scale factors and
leaf functions (`sq` = square root, `Om` = Berg–Lüscher angle, `acos`, `asinh/atan/sqrt` of the
Newell functions) are universally quantified; what a theorem needs of a leaf function is an
explicit hypothesis, instantiated for the real functions in `Lemmas/C19Real.lean`.

Level "proof, partial": the hedgehog count is NOT proved here (correspondence oracle only); Berg–Lüscher integrality
is proved for closed sheets of exact unit vectors with the real solid-angle formula (`bl_charge_half_integer`: `2Q ∈ ℤ`,
`bl_charge_integer`: `Q ∈ ℤ` on smooth sheets; the exact hypothesis on an abstract leaf: `bl_charge_coboundary`).
Proved in addition to the invariances: the quarter turn of the sample (`charge_quarter_turn`, tied to C12's
`Field.rotate90` model by `charge_rotate90` and, for periodic meshes, `charge_rotate90_periodic`), the trace in Fourier
space through C11's transform model (`demag_trace_fourier`), the convolution theorem and the code-shaped `demag_field`
(`convolution_theorem`, `demag_field_fft_is_convolution`), the reversal law and the mesh / length invariances of
`count_bps`, the sum rule through `demag_field` and the Newell tensor (`demag_field_cuboid_sum`, `demag_field_cube_third`;
real leaves: `cuboid_sum_rule_real`, `cube_third_rule_real`), the parities of the tensor (`demag_tensor_parity`),
acceptance of every tool as an equivalence (`tcd_ok_iff`, …), and the lattice density with the real solid-angle formula
(`bl_real_invariances`).
-/
namespace DFV.C19
open DFV

/-! ## Vector algebra under rotations -/

/-- `Qa · Qb = a · b` for every orthogonal `Q` (`QᵀQ = 1`). -/
theorem dot_rot (q : M3) (h : q.IsOrth) (a b : V3) : V3.dot (q.mulVec a) (q.mulVec b) = V3.dot a b :=
  dot_mulVec q h a b

/-- `Qa × Qb = Q(a × b)` for every proper rotation. -/
theorem cross_rot (q : M3) (h : q.IsRot) (a b : V3) :
    V3.cross (q.mulVec a) (q.mulVec b) = q.mulVec (V3.cross a b) :=
  cross_mulVec q h a b

/-- the triple product of three transformed vectors is `det Q` times the original one … -/
theorem triple_det (q : M3) (a b c : V3) :
    V3.triple (q.mulVec a) (q.mulVec b) (q.mulVec c) = q.det * V3.triple a b c :=
  triple_mulVec q a b c

/-- … hence unchanged by a proper rotation … -/
theorem triple_rot (q : M3) (h : q.IsRot) (a b c : V3) :
    V3.triple (q.mulVec a) (q.mulVec b) (q.mulVec c) = V3.triple a b c := by
  rw [triple_mulVec, h.2]; ring

/-- … and it changes sign when all three vectors are reversed, while dot products do not. -/
theorem triple_reversal (a b c : V3) :
    V3.triple a.neg b.neg c.neg = -V3.triple a b c ∧ V3.dot a.neg b.neg = V3.dot a b := by
  simp only [V3.triple, V3.dot, V3.cross, V3.neg]
  constructor <;> ring

example : M3.IsRot ⟨2/3, -1/3, 2/3, 2/3, 2/3, -1/3, -1/3, 2/3, 2/3⟩ := by
  unfold M3.IsRot M3.IsOrth M3.det; norm_num
example : M3.IsRot ⟨0, -1, 0, 1, 0, 0, 0, 0, 1⟩ := by
  unfold M3.IsRot M3.IsOrth M3.det; norm_num

/-! ## Orientation field -/

/-- The orientation field of the rotated field is the rotated orientation field. -/
theorem orientation_rot (sq : Rat → Rat) (q : M3) (h : q.IsOrth) (f : Fld) :
    orientation sq (rotF q f) = rotF q (orientation sq f) :=
  orientation_rotF sq q h f

/-- Rescaling every vector by its own factor `s i ≠ 0` leaves the orientation field unchanged,
for a square root that is positively homogeneous on the squared norms that occur
(`√(s²x) = s√x`, true of the real square root for `s > 0`) and as long as no vector crosses
the zero-norm threshold `1e-8` of `Field.orientation`. -/
theorem orientation_scale (sq : Rat → Rat) (s : List Nat → Rat) (f : Fld)
    (hs : ∀ i, s i ≠ 0)
    (hsq : ∀ i, sq (s i * s i * (cellV f i).normSq) = s i * sq (cellV f i).normSq)
    (hz : ∀ i, isZeroNorm (s i * sq (cellV f i).normSq) = isZeroNorm (sq (cellV f i).normSq)) :
    orientation sq (scaleF s f) = orientation sq f :=
  orientation_scaleF sq s f fun i => orient_smul sq (s i) _ (hs i) (hsq i) (hz i)

/-- Every cell of the orientation field whose vector is not negligibly short holds a unit vector. -/
theorem orientation_unit (sq : Rat → Rat) (f : Fld) (i : List Nat)
    (hsq : sq (cellV f i).normSq * sq (cellV f i).normSq = (cellV f i).normSq)
    (hz : isZeroNorm (sq (cellV f i).normSq) = false) :
    (cellV (orientation sq f) i).normSq = 1 := by
  rw [cellV_orientation]; exact orient_unit sq _ hsq hz

example : sqEx (2 * 2 * (V3.mk 3 4 0).normSq) = 2 * sqEx (V3.mk 3 4 0).normSq ∧
    isZeroNorm (2 * sqEx (V3.mk 3 4 0).normSq) = isZeroNorm (sqEx (V3.mk 3 4 0).normSq) ∧
    sqEx (V3.mk 3 4 0).normSq * sqEx (V3.mk 3 4 0).normSq = (V3.mk 3 4 0).normSq ∧
    orient sqEx (V3.mk 3 4 0) = ⟨3/5, 4/5, 0⟩ := by
  simp only [V3.normSq, V3.dot, sqEx, isZeroNorm, absR, orient, V3.sdiv, V3.zero]
  norm_num

/-- the hypotheses of `orientation_scale` / `tcd_scale_invariant` on a concrete field (`(3,4,0)` everywhere, factor 2) -/
example : (∀ i, (fun _ : List Nat => (2 : Rat)) i ≠ 0) ∧
    (∀ i, sqEx (2 * 2 * (cellV fEx i).normSq) = 2 * sqEx (cellV fEx i).normSq) ∧
    (∀ i, isZeroNorm (2 * sqEx (cellV fEx i).normSq) = isZeroNorm (sqEx (cellV fEx i).normSq)) := by
  refine ⟨fun _ => by norm_num, fun i => ?_, fun i => ?_⟩ <;>
  · simp only [cellV, fEx, NDA.const, V3.ofList, V3.normSq, V3.dot, sqEx, isZeroNorm, absR]
    norm_num

/-! ## Topological charge density — both methods -/

/-- Both methods are unchanged by a global proper rotation of all vectors: same result
(mesh, validity, every value) or the same refusal. -/
theorem tcd_rot_invariant (sq : Rat → Rat) (pi : Rat) (Om : Tri → Rat) (q : M3) (hq : q.IsRot) (f : Fld)
    (m : Method) : tcd sq pi Om (rotF q f) m = tcd sq pi Om f m := by
  by_cases hc : f.nvdim = 3 ∧ f.mesh.ndim = 2 ∧ m ≠ .other
  · obtain ⟨h3, h2, hm⟩ := hc
    rw [tcd_succeeds sq pi Om f m h3 h2 hm, tcd_succeeds sq pi Om (rotF q f) m h3 h2 hm]
    have e : (fun i => [tcdVal sq pi Om (rotF q f) m i]) = fun i => [tcdVal sq pi Om f m i] := by
      funext i; rw [tcdVal_rotF sq pi Om q hq]
    rw [e]; rfl
  · cases h1 : tcd sq pi Om (rotF q f) m with
    | ok g => exact absurd (by obtain ⟨a, b, c, _⟩ := tcd_ok sq pi Om _ g m h1; exact ⟨a, b, c⟩) hc
    | error e =>
      cases h2 : tcd sq pi Om f m with
      | ok g => exact absurd (by obtain ⟨a, b, c, _⟩ := tcd_ok sq pi Om _ g m h2; exact ⟨a, b, c⟩) hc
      | error e' =>
        cases m with
        | continuous =>
          have hc' : f.nvdim ≠ 3 ∨ f.mesh.ndim ≠ 2 := by
            by_cases h3 : f.nvdim = 3
            · right; intro h2'; exact hc ⟨h3, h2', by simp⟩
            · left; exact h3
          have e1 := tcdContinuous_err sq pi (rotF q f) hc'
          have e2 := tcdContinuous_err sq pi f hc'
          change tcdContinuous sq pi (rotF q f) = _ at h1
          change tcdContinuous sq pi f = _ at h2
          rw [e1] at h1; rw [e2] at h2
          rw [← h1, ← h2]
        | bergLuescher =>
          change tcdBL sq Om (rotF q f) = _ at h1
          change tcdBL sq Om f = _ at h2
          unfold tcdBL at h1 h2
          have hn : (rotF q f).nvdim = f.nvdim := rfl
          have hd : (rotF q f).mesh = f.mesh := rfl
          rw [hn, hd] at h1
          by_cases h3 : f.nvdim ≠ 3
          · rw [if_pos h3] at h1 h2; rw [← h1, ← h2]
          · rw [if_neg h3] at h1 h2
            by_cases h2' : f.mesh.ndim ≠ 2
            · rw [if_pos h2'] at h1 h2; rw [← h1, ← h2]
            · rw [if_neg h2'] at h2; cases h2
        | other => cases h1; cases h2; rfl

/-- Both methods change sign when all vectors are reversed (same mesh, same validity).  For
the lattice method this needs the leaf to be odd in the triple product,
`Ω(d₁₂,d₂₃,d₃₁,−t) = −Ω(d₁₂,d₂₃,d₃₁,t)` for `t ≠ 0` — true of `2·Im log((1+Σd + i t)/ρ)/(4π)`
(`Lemmas/C19Real.omegaR_flip`). -/
theorem tcd_reversal (sq : Rat → Rat) (pi : Rat) (Om : Tri → Rat)
    (hOm : ∀ tr, tr.t ≠ 0 → Om (flipT tr) = -Om tr) (f q : Fld) (m : Method)
    (h : tcd sq pi Om f m = .ok q) :
    ∃ q', tcd sq pi Om (negF f) m = .ok q' ∧ q'.mesh = q.mesh ∧ q'.valid = q.valid ∧
      q'.data.shape = q.data.shape ∧ ∀ i, (q'.data.get i).getD 0 0 = -(q.data.get i).getD 0 0 := by
  obtain ⟨h3, h2, hm, rfl⟩ := tcd_ok sq pi Om f q m h
  refine ⟨_, tcd_succeeds sq pi Om (negF f) m h3 h2 hm, rfl, rfl, rfl, ?_⟩
  intro i
  show tcdVal sq pi Om (negF f) m i = -tcdVal sq pi Om f m i
  exact tcdVal_negF sq pi Om hOm f m i

/-- the oddness hypothesis is satisfiable (and true of the real formula, `bl_angle_real`) -/
example : ∀ tr : Tri, tr.t ≠ 0 → (fun t : Tri => t.t * (1 + t.d12)) (flipT tr) = -(fun t : Tri => t.t * (1 + t.d12)) tr := by
  intro tr _; simp [flipT]

/-- Both methods vanish identically on a uniform field — for every validity mask, every
cell size, periodic or open directions. -/
theorem tcd_uniform_zero (sq : Rat → Rat) (pi : Rat) (Om : Tri → Rat) (f q : Fld) (v : V3) (hu : uniformF f v)
    (m : Method) (h : tcd sq pi Om f m = .ok q) : ∀ i, q.data.get i = [0] := by
  obtain ⟨_, _, _, rfl⟩ := tcd_ok sq pi Om f q m h
  intro i
  show [tcdVal sq pi Om f m i] = [0]
  rw [tcdVal_uniform sq pi Om f v hu]

/-- a uniform field -/
example : uniformF fEx ⟨3, 4, 0⟩ := by intro i; simp [fEx, NDA.const, V3.ofList]

/-- Both methods are unchanged by rescaling the vector lengths, cell by cell (hypotheses as in
`orientation_scale`). -/
theorem tcd_scale_invariant (sq : Rat → Rat) (pi : Rat) (Om : Tri → Rat) (s : List Nat → Rat) (f : Fld)
    (hs : ∀ i, s i ≠ 0)
    (hsq : ∀ i, sq (s i * s i * (cellV f i).normSq) = s i * sq (cellV f i).normSq)
    (hz : ∀ i, isZeroNorm (s i * sq (cellV f i).normSq) = isZeroNorm (sq (cellV f i).normSq))
    (m : Method) (h3 : f.nvdim = 3) (h2 : f.mesh.ndim = 2) (hm : m ≠ .other) :
    tcd sq pi Om (scaleF s f) m = tcd sq pi Om f m := by
  rw [tcd_succeeds sq pi Om f m h3 h2 hm, tcd_succeeds sq pi Om (scaleF s f) m h3 h2 hm]
  have e : (fun i => [tcdVal sq pi Om (scaleF s f) m i]) = fun i => [tcdVal sq pi Om f m i] := by
    funext i
    rw [tcdVal_scaleF sq pi Om s f (fun i => orient_smul sq (s i) _ (hs i) (hsq i) (hz i))]
  rw [e]; rfl

/-- Scaling the mesh by `lam` and translating it by `t` divides both densities by `lam²`
(`lam = 1`: a translation changes nothing). -/
theorem tcd_mesh_scaling (sq : Rat → Rat) (pi : Rat) (Om : Tri → Rat) (lam : Rat) (t : List Rat) (f q : Fld)
    (m : Method) (h : tcd sq pi Om f m = .ok q) :
    ∃ q', tcd sq pi Om (affF lam t f) m = .ok q' ∧ q'.valid = q.valid ∧ q'.data.shape = q.data.shape ∧
      q'.mesh = affMesh lam t q.mesh ∧
      ∀ i, (q'.data.get i).getD 0 0 = (q.data.get i).getD 0 0 / (lam * lam) := by
  obtain ⟨h3, h2, hm, rfl⟩ := tcd_ok sq pi Om f q m h
  have h2' : (affF lam t f).mesh.ndim = 2 := by
    show (tab f.mesh.region.ndim _).length = 2
    rw [tab_length]; exact h2
  refine ⟨_, tcd_succeeds sq pi Om (affF lam t f) m h3 h2' hm, rfl, rfl, rfl, ?_⟩
  intro i
  show tcdVal sq pi Om (affF lam t f) m i = tcdVal sq pi Om f m i / (lam * lam)
  exact tcdVal_affF sq pi Om lam t f h2 m i

/-! ## Topological charge -/

/-- The charge (absolute or not, either method) is unchanged by a global proper rotation. -/
theorem charge_rot_invariant (sq : Rat → Rat) (pi : Rat) (Om : Tri → Rat) (q : M3) (hq : q.IsRot) (f : Fld)
    (m : Method) (a : Bool) : charge sq pi Om (rotF q f) m a = charge sq pi Om f m a := by
  unfold charge
  rw [tcd_rot_invariant sq pi Om q hq f m]
  rfl

/-- Reversing all vectors negates the charge and keeps the absolute charge. -/
theorem charge_reversal (sq : Rat → Rat) (pi : Rat) (Om : Tri → Rat)
    (hOm : ∀ tr, tr.t ≠ 0 → Om (flipT tr) = -Om tr) (f : Fld) (m : Method) (c ca : Rat)
    (h : charge sq pi Om f m false = .ok c) (ha : charge sq pi Om f m true = .ok ca) :
    charge sq pi Om (negF f) m false = .ok (-c) ∧ charge sq pi Om (negF f) m true = .ok ca := by
  obtain ⟨q, hq, rfl⟩ := charge_ok_inv sq pi Om f m false c h
  obtain ⟨q2, hq2, rfl⟩ := charge_ok_inv sq pi Om f m true ca ha
  rw [hq] at hq2
  injection hq2 with hq2
  subst hq2
  obtain ⟨q', hq', hm, _, hs, hv⟩ := tcd_reversal sq pi Om hOm f q m hq
  obtain ⟨e1, e2⟩ := integrateAll_neg q q' hs hv hm
  rw [charge_of_tcd sq pi Om (negF f) q' m false hq', charge_of_tcd sq pi Om (negF f) q' m true hq', e1, e2]
  exact ⟨rfl, rfl⟩

/-- A uniform field has zero charge and zero absolute charge. -/
theorem charge_uniform_zero (sq : Rat → Rat) (pi : Rat) (Om : Tri → Rat) (f : Fld) (v : V3) (hu : uniformF f v)
    (m : Method) (a : Bool) (c : Rat) (h : charge sq pi Om f m a = .ok c) : c = 0 := by
  obtain ⟨q, hq, rfl⟩ := charge_ok_inv sq pi Om f m a c h
  apply integrateAll_zero
  intro i
  rw [tcd_uniform_zero sq pi Om f q v hu m hq i]
  rfl

/-- The charge is unchanged by translating the mesh and by scaling it with any `lam ≠ 0`:
the density scales by `1/lam²`, the cell area by `lam²`. -/
theorem charge_mesh_invariant (sq : Rat → Rat) (pi : Rat) (Om : Tri → Rat) (lam : Rat) (hl : lam ≠ 0)
    (t : List Rat) (f : Fld) (m : Method) (a : Bool) :
    charge sq pi Om (affF lam t f) m a = charge sq pi Om f m a := by
  unfold charge
  have hn : (affF lam t f).nvdim = f.nvdim := rfl
  have hd : (affF lam t f).mesh.ndim = f.mesh.ndim := by
    show (tab f.mesh.region.ndim _).length = _
    rw [tab_length]; rfl
  rw [hn, hd]
  by_cases h3 : f.nvdim ≠ 3
  · rw [if_pos h3, if_pos h3]
  · rw [if_neg h3, if_neg h3]
    by_cases h2 : f.mesh.ndim ≠ 2
    · rw [if_pos h2, if_pos h2]
    · rw [if_neg h2, if_neg h2]
      have h3' : f.nvdim = 3 := Classical.not_not.mp h3
      have h2' : f.mesh.ndim = 2 := Classical.not_not.mp h2
      cases m with
      | other => rfl
      | continuous =>
        have hq := tcd_succeeds sq pi Om f .continuous h3' h2' (by simp)
        obtain ⟨q', hq', _, hs, hm, hv⟩ := tcd_mesh_scaling sq pi Om lam t f _ .continuous hq
        rw [hq, hq']
        simp only
        congr 1
        exact integrateAll_aff a _ q' lam hl hs hv (by rw [hm]; exact affMesh_ratProd lam t f.mesh h2')
      | bergLuescher =>
        have hq := tcd_succeeds sq pi Om f .bergLuescher h3' h2' (by simp)
        obtain ⟨q', hq', _, hs, hm, hv⟩ := tcd_mesh_scaling sq pi Om lam t f _ .bergLuescher hq
        rw [hq, hq']
        simp only
        congr 1
        exact integrateAll_aff a _ q' lam hl hs hv (by rw [hm]; exact affMesh_ratProd lam t f.mesh h2')

/-- The charge is unchanged by rescaling the vector lengths. -/
theorem charge_scale_invariant (sq : Rat → Rat) (pi : Rat) (Om : Tri → Rat) (s : List Nat → Rat) (f : Fld)
    (hs : ∀ i, s i ≠ 0)
    (hsq : ∀ i, sq (s i * s i * (cellV f i).normSq) = s i * sq (cellV f i).normSq)
    (hz : ∀ i, isZeroNorm (s i * sq (cellV f i).normSq) = isZeroNorm (sq (cellV f i).normSq))
    (m : Method) (a : Bool) (h3 : f.nvdim = 3) (h2 : f.mesh.ndim = 2) (hm : m ≠ .other) :
    charge sq pi Om (scaleF s f) m a = charge sq pi Om f m a := by
  unfold charge
  rw [tcd_scale_invariant sq pi Om s f hs hsq hz m h3 h2 hm]
  rfl

/-! ## Emergent magnetic field -/

/-- `F_kl = m·(∂_k m × ∂_l m)` is unchanged by a global proper rotation of the vectors. -/
theorem emergent_rot_invariant (q : M3) (hq : q.IsRot) (f : Fld) (h3 : f.nvdim = 3) (hd : f.mesh.ndim = 3) :
    emergent (rotF q f) = emergent f := by
  rw [emergent_eq f h3 hd, emergent_eq (rotF q f) h3 hd]
  have e : (fun i => [emSpec (rotF q f) 1 2 i, emSpec (rotF q f) 2 0 i, emSpec (rotF q f) 0 1 i])
      = fun i => [emSpec f 1 2 i, emSpec f 2 0 i, emSpec f 0 1 i] := by
    funext i
    rw [emSpec_rotF q hq, emSpec_rotF q hq, emSpec_rotF q hq]
  rw [e]; rfl

/-- It changes sign under reversal (it is cubic in the field) and vanishes for uniform fields. -/
theorem emergent_reversal_uniform (f : Fld) (k l : Nat) (i : List Nat) :
    emSpec (negF f) k l i = -emSpec f k l i ∧ (∀ v, uniformF f v → emSpec f k l i = 0) :=
  ⟨emSpec_negF f k l i, fun v hu => emSpec_uniform f v hu k l i⟩

/-! ## Neighbouring-cell angles -/

/-- The value stored at cell `i` is `acos` of the (clipped) dot product of the unit vectors of
cell `i` and of its neighbour one step further along the direction. -/
theorem angle_is_angle (sq acos deg : Rat → Rat) (f g : Fld) (dir : String)
    (h : neighbourAngle sq acos deg f dir "rad" = .ok g) :
    ∃ ax, indexOf? f.mesh.region.dims dir = some ax ∧
      ∀ i, g.data.get i = [acos (clip1 (V3.dot (orient sq (cellV f i)) (orient sq (cellV f (stepAx i ax)))))] := by
  unfold neighbourAngle at h
  split at h
  · cases h
  · split at h
    · cases h
    · rename_i ax hax
      split at h
      · cases h
      · split at h
        · cases h
        · split at h
          · cases h
          · injection h with h
            refine ⟨ax, hax, ?_⟩
            intro i
            rw [← h]
            simp [nbDot]

/-- For unit vectors the clip is the identity (`|û·v̂| ≤ 1`): it only guards against rounding. -/
theorem angle_unit_vectors (a b : V3) (ha : a.normSq = 1) (hb : b.normSq = 1) :
    clip1 (V3.dot a b) = V3.dot a b :=
  clip1_id _ (dot_unit_range a b ha hb).1 (dot_unit_range a b ha hb).2

/-- Every angle lies in `[0, π]`, for any `acos` mapping `[-1, 1]` into `[0, π]`
(`Real.arccos_nonneg`, `Real.arccos_le_pi`). -/
theorem angle_range (sq acos deg : Rat → Rat) (pi : Rat)
    (hacos : ∀ x, -1 ≤ x → x ≤ 1 → 0 ≤ acos x ∧ acos x ≤ pi) (f g : Fld) (dir : String)
    (h : neighbourAngle sq acos deg f dir "rad" = .ok g) (i : List Nat) :
    0 ≤ (g.data.get i).getD 0 0 ∧ (g.data.get i).getD 0 0 ≤ pi := by
  obtain ⟨ax, _, hv⟩ := angle_is_angle sq acos deg f g dir h
  rw [hv i]
  exact hacos _ (clip1_range _).1 (clip1_range _).2

/-- an `acos` with the required range -/
example : ∀ x : Rat, -1 ≤ x → x ≤ 1 → 0 ≤ (fun y : Rat => (1 - y) / 2 * 3) x ∧ (fun y : Rat => (1 - y) / 2 * 3) x ≤ 3 := by
  intro x h1 h2; constructor <;> simp only <;> linarith

/-- The angles live on a mesh one cell shorter in the direction, shifted by half a cell,
with the same cell size — and a single cell along the direction is refused. -/
theorem angle_mesh (m : Mesh) (hm : m.Inv) (ax : Nat) (hax : ax < m.ndim) :
    (2 ≤ m.nAt ax → ∃ m', angleMesh m ax = .ok m' ∧ m'.n = setAt m.n ax (m.nAt ax - 1) ∧ m'.ndim = m.ndim ∧
      ∀ a, a < m.ndim → m'.region.lo a = m.region.lo a + (if a = ax then m.cellAt a / 2 else 0) ∧
        m'.region.hi a = m.region.hi a - (if a = ax then m.cellAt a / 2 else 0) ∧ m'.cellAt a = m.cellAt a) ∧
    (m.nAt ax = 1 → ∃ e, angleMesh m ax = .error e) := by
  constructor
  · intro h2
    obtain ⟨m', hm', _, hgeo, _, hnd⟩ := angleMesh_ok m hm ax hax h2
    exact ⟨m', hm', angleMesh_n m hm ax hax h2 m' hm', hnd, hgeo⟩
  · exact angleMesh_single m hm ax hax

/-- a well-formed mesh (4 × 3 cells) -/
example : mEx.Inv := by
  refine ⟨⟨by decide, rfl, rfl, rfl, by decide, ?_⟩, rfl, ?_⟩
  · intro a ha
    have : a = 0 ∨ a = 1 := by simp [mEx] at ha; omega
    rcases this with rfl | rfl <;> simp [mEx, Region.lo, Region.hi]
  · intro a ha
    have : a = 0 ∨ a = 1 := by simp [mEx, Mesh.ndim, Region.ndim] at ha; omega
    rcases this with rfl | rfl <;> simp [mEx, Mesh.nAt]

/-- The angles do not change under a global rotation (or reflection) of the vectors. -/
theorem angle_rot_invariant (sq acos deg : Rat → Rat) (q : M3) (hq : q.IsOrth) (f : Fld) (dir units : String) :
    neighbourAngle sq acos deg (rotF q f) dir units = neighbourAngle sq acos deg f dir units := by
  unfold neighbourAngle
  have e : ∀ ax, nbDot sq (rotF q f) ax = nbDot sq f ax := fun ax => funext fun i => nbDot_rotF sq q hq f ax i
  simp only [e]
  rfl

/-! ## Demagnetisation tensor -/

/-- The two tensor builders evaluate the same function at the same points: cell `j` of the
`2n−1` mesh has its centre exactly at `(j − n + 1)·cell`, where `linspace` puts its point. -/
theorem demag_two_builders_agree (pi : Rat) (m tm : Mesh) (hm : m.Inv) (h3 : m.ndim = 3)
    (h : tensorMesh m = .ok tm) (j : List Nat) (hj : ∀ a, a < 3 → j.getD a 0 < 2 * m.nAt a - 1) :
    tensorFld pi tm j = tensorArr pi m j ∧
    ∀ a, a < 3 → arrPoint m a (j.getD a 0) = ((j.getD a 0 : Nat) - (m.nAt a : Rat) + 1) * m.cellAt a := by
  refine ⟨tensor_builders_agree pi m tm hm h3 h j hj, ?_⟩
  intro a ha
  exact (tensor_points_agree m tm hm h a (by omega) (j.getD a 0) (hj a ha)).2

/-- Pointwise trace of the Newell function, for ARBITRARY leaf functions: in
`f(x,y,z) + f(y,z,x) + f(z,x,y)` the arcsinh and the square-root terms cancel pairwise and
only `−|xyz|` times the three arctangent leaves survives. -/
theorem newell_trace_pointwise (asinh atan sqrt : Rat → Rat) (x y z : Rat) :
    evalTerms asinh atan sqrt (newellF x y z) + evalTerms asinh atan sqrt (newellF y z x)
        + evalTerms asinh atan sqrt (newellF z x y)
      = -absR (x * y * z) *
          (evalLeaf asinh atan sqrt (.atan (absR (y * z)) (absR x) (x ^ 2 + y ^ 2 + z ^ 2)) +
           evalLeaf asinh atan sqrt (.atan (absR (z * x)) (absR y) (x ^ 2 + y ^ 2 + z ^ 2)) +
           evalLeaf asinh atan sqrt (.atan (absR (x * y)) (absR z) (x ^ 2 + y ^ 2 + z ^ 2))) := by
  have := newellF_trace (K := Rat) (evalLeaf asinh atan sqrt) x y z
  simp only [evalK_rat, Rat.cast_id] at this
  exact this

/-- Real-space trace of the tensor: `N_xx + N_yy + N_zz = −δ` at every cell of the displacement
mesh (displacement `(i·c0, j·c1, k·c2)`, any cell edges, the cell sizes permuted with the
coordinates as the code does).  The one analytic ingredient,
`atan(bc/(aR)) + atan(ca/(bR)) + atan(ab/(cR)) = π/2` for `a,b,c > 0`, `R = √(a²+b²+c²)`, is a
hypothesis on the abstract leaves (proved for the real functions in `Lemmas/C19Real`). -/
theorem demag_trace_real_space (asinh atan sqrt : Rat → Rat) (pi c0 c1 c2 : Rat) (hpi : pi ≠ 0)
    (h0 : 0 < c0) (h1 : 0 < c1) (h2 : 0 < c2)
    (hat : ∀ a b c : Rat, 0 < a → 0 < b → 0 < c →
      atan (b * c / (a * sqrt (a ^ 2 + b ^ 2 + c ^ 2))) + atan (c * a / (b * sqrt (a ^ 2 + b ^ 2 + c ^ 2)))
        + atan (a * b / (c * sqrt (a ^ 2 + b ^ 2 + c ^ 2))) = pi / 2) (i j k : Int) :
    evalTerms asinh atan sqrt ((nAll pi c0 c1 c2 (i * c0) (j * c1) (k * c2)).getD 0 [])
      + evalTerms asinh atan sqrt ((nAll pi c0 c1 c2 (i * c0) (j * c1) (k * c2)).getD 1 [])
      + evalTerms asinh atan sqrt ((nAll pi c0 c1 c2 (i * c0) (j * c1) (k * c2)).getD 2 [])
      = if i = 0 ∧ j = 0 ∧ k = 0 then -1 else 0 := by
  have hat' : ∀ a b c : Rat, 0 < a → 0 < b → 0 < c →
      evalLeaf asinh atan sqrt (.atan (b * c) a (a ^ 2 + b ^ 2 + c ^ 2))
        + evalLeaf asinh atan sqrt (.atan (c * a) b (a ^ 2 + b ^ 2 + c ^ 2))
        + evalLeaf asinh atan sqrt (.atan (a * b) c (a ^ 2 + b ^ 2 + c ^ 2)) = pi / 2 := by
    intro a b c ha hb hc
    simp only [evalLeaf, ha.ne', hb.ne', hc.ne', if_false]
    exact hat a b c ha hb hc
  have := trace_grid (K := Rat) (evalLeaf asinh atan sqrt) (pi / 2) pi c0 c1 c2 hpi h0 h1 h2 hat' i j k
  unfold traceK at this
  simp only [evalK_rat, Rat.cast_id] at this
  rw [this]
  have : -(2 * (pi / 2) / pi) = -1 := by field_simp
  rw [this]

example : ∀ a b c : Rat, 0 < a → 0 < b → 0 < c →
    (fun _ : Rat => (1 : Rat) / 2) (b * c / (a * (fun x : Rat => x) (a ^ 2 + b ^ 2 + c ^ 2)))
      + (fun _ : Rat => (1 : Rat) / 2) (c * a / (b * (fun x : Rat => x) (a ^ 2 + b ^ 2 + c ^ 2)))
      + (fun _ : Rat => (1 : Rat) / 2) (a * b / (c * (fun x : Rat => x) (a ^ 2 + b ^ 2 + c ^ 2))) = (3 : Rat) / 2 := by
  intros; norm_num

/-! ## Demagnetising field -/

/-- `demag_field`: what the zero-padded FFT product computes (circular convolution on the
`2n−1` grid, cropped at `n−1`) is the linear convolution `H_a(q) = Σ_b Σ_{q'} N_ab(q−q') m_b(q')`
at every cell of the mesh. -/
theorem demag_field_linear_convolution (T : NDA (List Rat)) (f g : Fld) (h : demagField T f = .ok g)
    (a : Nat) (ha : a < 3) (q0 q1 q2 : Nat)
    (h0 : q0 < f.mesh.nAt 0) (h1 : q1 < f.mesh.nAt 1) (h2 : q2 < f.mesh.nAt 2) :
    (g.data.get [q0, q1, q2]).getD a 0 = linConv T f a [q0, q1, q2] := by
  unfold demagField at h
  split at h
  · cases h
  · split at h
    · cases h
    · split at h
      · cases h
      · split at h
        · cases h
        · injection h with h
          rw [← h]
          show (tab 3 fun a => circConv T f a _).getD a 0 = _
          rw [getD_tab _ _ _ _ ha]
          simp only [List.getD_cons_zero, List.getD_cons_succ]
          exact circConv_eq_linConv T f a q0 q1 q2 h0 h1 h2

/-- Sum rule for a uniformly magnetised cuboid: if the real-space tensor has trace `−δ`
(centre cell `n−1` of the `2n−1` grid), then at EVERY cell the three demagnetising field
components obtained by magnetising along x, y, z add up to `−M`; hence so do their means. -/
theorem cuboid_sum_rule (T : NDA (List Rat)) (m : Mesh) (M : Rat)
    (hT : ∀ j0 j1 j2, (T.get [j0, j1, j2]).getD 0 0 + (T.get [j0, j1, j2]).getD 1 0 + (T.get [j0, j1, j2]).getD 2 0
      = if j0 = m.nAt 0 - 1 ∧ j1 = m.nAt 1 - 1 ∧ j2 = m.nAt 2 - 1 then -1 else 0)
    (q0 q1 q2 : Nat) (h0 : q0 < m.nAt 0) (h1 : q1 < m.nAt 1) (h2 : q2 < m.nAt 2) :
    linConv T (uniF m M 0) 0 [q0, q1, q2] + linConv T (uniF m M 1) 1 [q0, q1, q2]
      + linConv T (uniF m M 2) 2 [q0, q1, q2] = -M := by
  have key : ∀ a, a < 3 → linConv T (uniF m M a) a [q0, q1, q2]
      = sum3 (m.nAt 0) (m.nAt 1) (m.nAt 2) fun r0 r1 r2 =>
          (T.get [q0 + (m.nAt 0 - 1) - r0, q1 + (m.nAt 1 - 1) - r1, q2 + (m.nAt 2 - 1) - r2]).getD a 0 * M := by
    intro a ha
    unfold linConv
    simp only [sumTo, uniF, NDA.const, List.getD_cons_zero, List.getD_cons_succ]
    have e : ∀ b, b < 3 → (tab 3 fun b => if b = a then M else (0 : Rat)).getD b 0 = if b = a then M else 0 :=
      fun b hb => getD_tab _ _ _ _ hb
    rcases (by omega : a = 0 ∨ a = 1 ∨ a = 2) with rfl | rfl | rfl
    · simp only [e 0 (by omega), e 1 (by omega), e 2 (by omega), symIdx]
      simp [sum3, sumTo_zero]
    · simp only [e 0 (by omega), e 1 (by omega), e 2 (by omega), symIdx]
      simp [sum3, sumTo_zero]
    · simp only [e 0 (by omega), e 1 (by omega), e 2 (by omega), symIdx]
      simp [sum3, sumTo_zero]
  rw [key 0 (by omega), key 1 (by omega), key 2 (by omega), ← sum3_add, ← sum3_add]
  rw [sum3_single (m.nAt 0) (m.nAt 1) (m.nAt 2) q0 q1 q2 h0 h1 h2]
  · have := hT (q0 + (m.nAt 0 - 1) - q0) (q1 + (m.nAt 1 - 1) - q1) (q2 + (m.nAt 2 - 1) - q2)
    rw [if_pos ⟨by omega, by omega, by omega⟩] at this
    linear_combination M * this
  · intro r0 r1 r2 hr0 hr1 hr2 hne
    have := hT (q0 + (m.nAt 0 - 1) - r0) (q1 + (m.nAt 1 - 1) - r1) (q2 + (m.nAt 2 - 1) - r2)
    rw [if_neg (by omega)] at this
    linear_combination M * this

/-- For a cube (equal counts; a tensor with the cyclic symmetry `N_yy(j₀,j₁,j₂) = N_xx(j₁,j₂,j₀)`,
`N_zz(j₀,j₁,j₂) = N_xx(j₂,j₀,j₁)`, which `_N` has for cubic cells, see `demag_cubic_symmetry`)
each of the three summed (hence mean) demagnetising field components is one third of the total:
`Σ_cells H_a = −M·n³/3`, i.e. mean `−M/3` each. -/
theorem cube_each_third (T : NDA (List Rat)) (m : Mesh) (M : Rat) (n : Nat)
    (hn0 : m.nAt 0 = n) (hn1 : m.nAt 1 = n) (hn2 : m.nAt 2 = n)
    (hT : ∀ j0 j1 j2, (T.get [j0, j1, j2]).getD 0 0 + (T.get [j0, j1, j2]).getD 1 0 + (T.get [j0, j1, j2]).getD 2 0
      = if j0 = m.nAt 0 - 1 ∧ j1 = m.nAt 1 - 1 ∧ j2 = m.nAt 2 - 1 then -1 else 0)
    (hsym : ∀ j0 j1 j2, (T.get [j0, j1, j2]).getD 1 0 = (T.get [j1, j2, j0]).getD 0 0 ∧
      (T.get [j0, j1, j2]).getD 2 0 = (T.get [j2, j0, j1]).getD 0 0)
    (a : Nat) (ha : a < 3) :
    sum3 n n n (fun q0 q1 q2 => linConv T (uniF m M a) a [q0, q1, q2]) = -M * (n : Rat) ^ 3 / 3 := by
  -- each component as a double sum of the xx entries
  have key : ∀ a, a < 3 → ∀ q0 q1 q2, linConv T (uniF m M a) a [q0, q1, q2]
      = sum3 n n n fun r0 r1 r2 =>
          (T.get [q0 + (n - 1) - r0, q1 + (n - 1) - r1, q2 + (n - 1) - r2]).getD a 0 * M := by
    intro a ha q0 q1 q2
    unfold linConv
    simp only [sumTo, uniF, NDA.const, List.getD_cons_zero, List.getD_cons_succ, hn0, hn1, hn2]
    have e : ∀ b, b < 3 → (tab 3 fun b => if b = a then M else (0 : Rat)).getD b 0 = if b = a then M else 0 :=
      fun b hb => getD_tab _ _ _ _ hb
    rcases (by omega : a = 0 ∨ a = 1 ∨ a = 2) with rfl | rfl | rfl
    · simp only [e 0 (by omega), e 1 (by omega), e 2 (by omega), symIdx]
      simp [sum3, sumTo_zero]
    · simp only [e 0 (by omega), e 1 (by omega), e 2 (by omega), symIdx]
      simp [sum3, sumTo_zero]
    · simp only [e 0 (by omega), e 1 (by omega), e 2 (by omega), symIdx]
      simp [sum3, sumTo_zero]
  let W : Nat → Nat → Nat → Nat → Nat → Nat → Rat := fun q0 q1 q2 r0 r1 r2 =>
    (T.get [q0 + (n - 1) - r0, q1 + (n - 1) - r1, q2 + (n - 1) - r2]).getD 0 0 * M
  let S : Nat → Rat := fun a => sum3 n n n (fun q0 q1 q2 => linConv T (uniF m M a) a [q0, q1, q2])
  have hS0 : S 0 = sum3 n n n (fun q0 q1 q2 => sum3 n n n (fun r0 r1 r2 => W q0 q1 q2 r0 r1 r2)) :=
    sum3_congr n n n _ _ (fun q0 q1 q2 _ _ _ => key 0 (by omega) q0 q1 q2)
  have hS1 : S 1 = S 0 := by
    rw [hS0]
    have : S 1 = sum3 n n n (fun q0 q1 q2 => sum3 n n n (fun r0 r1 r2 => W q1 q2 q0 r1 r2 r0)) :=
      sum3_congr n n n _ _ (fun q0 q1 q2 _ _ _ => by
        rw [key 1 (by omega) q0 q1 q2]
        exact sum3_congr n n n _ _ (fun r0 r1 r2 _ _ _ => by rw [(hsym _ _ _).1]))
    rw [this]
    rw [sum3_congr n n n _ (fun q0 q1 q2 => sum3 n n n (fun r0 r1 r2 => W q1 q2 q0 r0 r1 r2))
      (fun q0 q1 q2 _ _ _ => sum3_rot n (fun r0 r1 r2 => W q1 q2 q0 r0 r1 r2))]
    exact sum3_rot n (fun q0 q1 q2 => sum3 n n n (fun r0 r1 r2 => W q0 q1 q2 r0 r1 r2))
  have hS2 : S 2 = S 0 := by
    rw [hS0]
    have : S 2 = sum3 n n n (fun q0 q1 q2 => sum3 n n n (fun r0 r1 r2 => W q2 q0 q1 r2 r0 r1)) :=
      sum3_congr n n n _ _ (fun q0 q1 q2 _ _ _ => by
        rw [key 2 (by omega) q0 q1 q2]
        exact sum3_congr n n n _ _ (fun r0 r1 r2 _ _ _ => by rw [(hsym _ _ _).2]))
    rw [this]
    -- two cyclic renamings of the inner and of the outer triple
    rw [sum3_congr n n n _ (fun q0 q1 q2 => sum3 n n n (fun r0 r1 r2 => W q2 q0 q1 r0 r1 r2))
      (fun q0 q1 q2 _ _ _ => by
        rw [← sum3_rot n (fun r0 r1 r2 => W q2 q0 q1 r0 r1 r2)]
        exact sum3_rot n (fun r0 r1 r2 => W q2 q0 q1 r1 r2 r0))]
    rw [← sum3_rot n (fun q0 q1 q2 => sum3 n n n (fun r0 r1 r2 => W q0 q1 q2 r0 r1 r2))]
    exact sum3_rot n (fun q0 q1 q2 => sum3 n n n (fun r0 r1 r2 => W q1 q2 q0 r0 r1 r2))
  have htot : S 0 + S 1 + S 2 = -M * (n : Rat) ^ 3 := by
    show sum3 n n n _ + sum3 n n n _ + sum3 n n n _ = _
    rw [← sum3_add, ← sum3_add]
    rw [sum3_congr n n n _ (fun _ _ _ => -M) (fun q0 q1 q2 h0 h1 h2 =>
      cuboid_sum_rule T m M hT q0 q1 q2 (by omega) (by omega) (by omega))]
    rw [sum3_const]; ring
  have h3 : S a = S 0 := by
    rcases (by omega : a = 0 ∨ a = 1 ∨ a = 2) with rfl | rfl | rfl
    · rfl
    · exact hS1
    · exact hS2
  show S a = _
  rw [h3]
  rw [hS1, hS2] at htot
  linarith

/-- a tensor with trace `−δ` and the cyclic symmetry (one cell) -/
example : (∀ j0 j1 j2, (tEx.get [j0, j1, j2]).getD 0 0 + (tEx.get [j0, j1, j2]).getD 1 0 + (tEx.get [j0, j1, j2]).getD 2 0
      = if j0 = m1.nAt 0 - 1 ∧ j1 = m1.nAt 1 - 1 ∧ j2 = m1.nAt 2 - 1 then -1 else 0) ∧
    (∀ j0 j1 j2, (tEx.get [j0, j1, j2]).getD 1 0 = (tEx.get [j1, j2, j0]).getD 0 0 ∧
      (tEx.get [j0, j1, j2]).getD 2 0 = (tEx.get [j2, j0, j1]).getD 0 0) := by
  constructor
  · intro j0 j1 j2
    simp only [tEx, m1, Mesh.nAt, List.getD_cons_zero, List.getD_cons_succ]
    by_cases h : j0 = 0 ∧ j1 = 0 ∧ j2 = 0
    · obtain ⟨rfl, rfl, rfl⟩ := h; norm_num
    · have : ¬ ([j0, j1, j2] = [0, 0, 0]) := by simpa using h
      simp [this, h]
  · intro j0 j1 j2
    simp only [tEx]
    by_cases h : j0 = 0 ∧ j1 = 0 ∧ j2 = 0
    · obtain ⟨rfl, rfl, rfl⟩ := h; simp
    · have a : ¬ ([j0, j1, j2] = [0, 0, 0]) := by simpa using h
      have b : ¬ ([j1, j2, j0] = [0, 0, 0]) := by simp; omega
      have c : ¬ ([j2, j0, j1] = [0, 0, 0]) := by simp; omega
      simp [a, b, c]

/-- `_N` has that cyclic symmetry when the three cell edges are equal (by construction: the yy and
zz components are the xx formula at cyclically permuted coordinates and cell edges). -/
theorem demag_cubic_symmetry (pi c x y z : Rat) :
    (nAll pi c c c x y z).getD 1 [] = (nAll pi c c c y z x).getD 0 [] ∧
    (nAll pi c c c x y z).getD 2 [] = (nAll pi c c c z x y).getD 0 [] :=
  ⟨rfl, rfl⟩

/-! ## Refusals -/

/-- Fields of the wrong component or spatial dimension, unknown directions and unknown methods
are refused by every tool. -/
theorem refusals (sq acos deg : Rat → Rat) (pi : Rat) (Om : Tri → Rat) (f : Fld) :
    ((f.nvdim ≠ 3 ∨ f.mesh.ndim ≠ 2) → ∀ m a, (∃ e, tcd sq pi Om f m = .error e) ∧ ∃ e, charge sq pi Om f m a = .error e) ∧
    (∃ e, tcd sq pi Om f .other = .error e) ∧
    ((f.nvdim ≠ 3 ∨ f.mesh.ndim ≠ 3) → (∃ e, emergent f = .error e) ∧ ∀ d, ∃ e, countBps sq pi f d = .error e) ∧
    (∀ d u, (f.nvdim ≠ 3 ∨ indexOf? f.mesh.region.dims d = none ∨ (u ≠ "rad" ∧ u ≠ "deg")) →
      ∃ e, neighbourAngle sq acos deg f d u = .error e) ∧
    (∀ d, indexOf? f.mesh.region.dims d = none → ∃ e, countBps sq pi f d = .error e) := by
  refine ⟨?_, ⟨_, rfl⟩, ?_, ?_, ?_⟩
  · intro hc m a
    have ht : ∃ e, tcd sq pi Om f m = .error e := by
      cases ht : tcd sq pi Om f m with
      | error e => exact ⟨e, rfl⟩
      | ok q =>
        obtain ⟨h3, h2, _, _⟩ := tcd_ok sq pi Om f q m ht
        rcases hc with hc | hc
        · exact absurd h3 hc
        · exact absurd h2 hc
    refine ⟨ht, ?_⟩
    unfold charge
    split
    · exact ⟨_, rfl⟩
    · split
      · exact ⟨_, rfl⟩
      · obtain ⟨e, he⟩ := ht
        rw [he]; exact ⟨_, rfl⟩
  · intro hc
    constructor
    · unfold emergent
      split
      · exact ⟨_, rfl⟩
      · split
        · exact ⟨_, rfl⟩
        · rename_i h3 hd
          rcases hc with hc | hc
          · exact absurd hc h3
          · exact absurd hc hd
    · intro d
      unfold countBps
      split
      · exact ⟨_, rfl⟩
      · split
        · exact ⟨_, rfl⟩
        · rename_i hd h3
          rcases hc with hc | hc
          · exact absurd hc h3
          · exact absurd hc hd
  · intro d u hc
    unfold neighbourAngle
    split
    · exact ⟨_, rfl⟩
    · rename_i h3
      split
      · exact ⟨_, rfl⟩
      · rename_i ax hax
        split
        · exact ⟨_, rfl⟩
        · rename_i hu
          rcases hc with hc | hc | hc
          · exact absurd hc h3
          · rw [hc] at hax; cases hax
          · exact absurd hc hu
  · intro d hd
    unfold countBps
    split
    · exact ⟨_, rfl⟩
    · split
      · exact ⟨_, rfl⟩
      · rw [hd]; exact ⟨_, rfl⟩

/-! ## The leaf hypotheses hold for the real functions; the trace with the real functions -/

/-- REAL-SPACE TRACE `N_xx + N_yy + N_zz = −δ` WITH THE REAL `arcsinh`, `arctan`, `sqrt` (no
hypothesis on leaves): at displacement `(i·c0, j·c1, k·c2)` the three diagonal components of
`_N` — symbolic Newell terms of the model evaluated in ℝ by `lvR` — add up to `−π/pi` at the
origin and to `0` elsewhere, `pi` being the rational the code uses for `np.pi`
(`|π/pi − 1| < 2⁻⁵²`).  Valid for all positive rational cell edges: the cell sizes are permuted
together with the coordinates (the repaired D20). -/
theorem demag_trace (pi c0 c1 c2 : Rat) (hpi : pi ≠ 0) (h0 : 0 < c0) (h1 : 0 < c1) (h2 : 0 < c2) (i j k : Int) :
    traceK lvR pi c0 c1 c2 ((i : Rat) * c0) ((j : Rat) * c1) ((k : Rat) * c2)
      = if i = 0 ∧ j = 0 ∧ k = 0 then -(Real.pi / (pi : ℝ)) else 0 :=
  demag_trace_real pi c0 c1 c2 hpi h0 h1 h2 i j k

/-- the analytic ingredient: `atan(bc/(aR)) + atan(ca/(bR)) + atan(ab/(cR)) = π/2` for the real arctangent -/
theorem arctan_sum_identity (a b c : ℝ) (ha : 0 < a) (hb : 0 < b) (hc : 0 < c) :
    Real.arctan (b * c / (a * √(a ^ 2 + b ^ 2 + c ^ 2))) + Real.arctan (c * a / (b * √(a ^ 2 + b ^ 2 + c ^ 2)))
      + Real.arctan (a * b / (c * √(a ^ 2 + b ^ 2 + c ^ 2))) = Real.pi / 2 :=
  arctan_sum a b c ha hb hc

/-- The Berg–Lüscher angle of `util.bergluescher_angle`, `2·Im log((1+d₁₂+d₂₃+d₃₁ + i·t)/ρ)/(4π)`
over ℝ/ℂ, is odd in the triple product (the hypothesis `hOm` of `tcd_reversal`), and for `ρ > 0`
it is `2·arg(1+d₁₂+d₂₃+d₃₁ + i·t)/(4π)` (what the harness evaluates with `atan2`). -/
theorem bl_angle_real (tr : Tri) :
    (tr.t ≠ 0 → omegaR (flipT tr) = -omegaR tr) ∧
    (0 < 2 * (1 + (tr.d12 : ℝ)) * (1 + tr.d23) * (1 + tr.d31) →
      omegaR tr = 2 * Complex.arg (⟨1 + (tr.d12 : ℝ) + tr.d23 + tr.d31, (tr.t : ℝ)⟩ : ℂ) / (4 * Real.pi)) :=
  ⟨omegaR_flip tr, omegaR_eq_arg tr⟩

/-- The hypotheses on `acos` (`angle_range`) and on `sq` (`orientation_scale`, `orientation_unit`)
hold for the real arccosine and square root. -/
theorem leaf_hypotheses_real (x s : ℝ) (hs : 0 ≤ s) (hx : 0 ≤ x) :
    (0 ≤ Real.arccos x ∧ Real.arccos x ≤ Real.pi) ∧ √(s * s * x) = s * √x ∧ √x * √x = x :=
  ⟨arccos_range x, sqrt_homogeneous s x hs, sqrt_squares_back x hx⟩

/-! ## Quarter turn of the sample -/

/-- `Field.diff` along the axes of a quarter-turned sample (`SpTurn f g`: cell `[i, j]` of `g` holds
cell `[j, n₁−1−i]` of `f`): `∂₀' = −∂₁` and `∂₁' = ∂₀` at the source cell — every validity mask, open
or periodic directions, restricted to valid cells or not. -/
theorem diff_quarter_turn {f g : Fld} (h : SpTurn f g) (r : Bool) (i j : Nat) (hi : i < f.mesh.nAt 1) (hj : j < f.mesh.nAt 0) :
    Dv g 0 1 r [i, j] = (Dv f 1 1 r [j, f.mesh.nAt 1 - 1 - i]).neg ∧
    Dv g 1 1 r [i, j] = Dv f 0 1 r [j, f.mesh.nAt 1 - 1 - i] :=
  ⟨Dv_turn0 h r i j hi hj, Dv_turn1 h r i j hi hj⟩

/-- Lattice method, the triangle sum: the neighbours `(E, N, W, S)` of a cell of the turned sample are
the neighbours `(S, E, N, W)` of the source cell, so its list of Berg–Lüscher triangles is the source
cell's list `[t₁, t₂, t₃, t₄]` (those that exist) rotated to `[t₄, t₁, t₂, t₃]` — every mask. -/
theorem bl_triangles_quarter_turn {o g : Fld} (h : SpTurn o g) (i j : Nat) (hi : i < o.mesh.nAt 1) (hj : j < o.mesh.nAt 0) :
    triangles g i j
      = tri? (cellV o [j, o.mesh.nAt 1 - 1 - i]) (nbS o j (o.mesh.nAt 1 - 1 - i)) (nbE o j (o.mesh.nAt 1 - 1 - i)) ++
        (tri? (cellV o [j, o.mesh.nAt 1 - 1 - i]) (nbE o j (o.mesh.nAt 1 - 1 - i)) (nbN o j (o.mesh.nAt 1 - 1 - i)) ++
         tri? (cellV o [j, o.mesh.nAt 1 - 1 - i]) (nbN o j (o.mesh.nAt 1 - 1 - i)) (nbW o j (o.mesh.nAt 1 - 1 - i)) ++
         tri? (cellV o [j, o.mesh.nAt 1 - 1 - i]) (nbW o j (o.mesh.nAt 1 - 1 - i)) (nbS o j (o.mesh.nAt 1 - 1 - i))) :=
  triangles_turn h i j hi hj

/-- Both density methods under a quarter turn of the sample (`QTurn Q f g`: sample turned, vectors
rotated by the proper rotation `Q`): the density field of `g` holds at `[i, j]` the value and the
validity the density field of `f` holds at `[j, n₁−1−i]` — all masks, all cell sizes, open or periodic. -/
theorem tcd_quarter_turn (sq : Rat → Rat) (pi : Rat) (Om : Tri → Rat) (Q : M3) (hQ : Q.IsRot) {f g : Fld} (h : QTurn Q f g)
    (hf3 : f.nvdim = 3) (hg3 : g.nvdim = 3) (hf2 : f.mesh.ndim = 2) (hg2 : g.mesh.ndim = 2) (m : Method) (hm : m ≠ .other) :
    ∃ q q', tcd sq pi Om f m = .ok q ∧ tcd sq pi Om g m = .ok q' ∧
      ∀ i j, i < f.mesh.nAt 1 → j < f.mesh.nAt 0 →
        (q'.data.get [i, j]).getD 0 0 = (q.data.get [j, f.mesh.nAt 1 - 1 - i]).getD 0 0 ∧
        q'.valid.get [i, j] = q.valid.get [j, f.mesh.nAt 1 - 1 - i] := by
  refine ⟨_, _, tcd_succeeds sq pi Om f m hf3 hf2 hm, tcd_succeeds sq pi Om g m hg3 hg2 hm, ?_⟩
  intro i j hi hj
  exact ⟨tcdVal_turn sq pi Om Q hQ h m i j hi hj, h.ok i j hi hj⟩

/-- THE CHARGE IS UNCHANGED BY A QUARTER TURN OF THE SAMPLE — both methods, absolute or not, every
validity mask, anisotropic cells, open or periodic directions (flags turned with the sample). -/
theorem charge_quarter_turn (sq : Rat → Rat) (pi : Rat) (Om : Tri → Rat) (Q : M3) (hQ : Q.IsRot) {f g : Fld} (h : QTurn Q f g)
    (hf3 : f.nvdim = 3) (hg3 : g.nvdim = 3) (hf2 : f.mesh.ndim = 2) (hg2 : g.mesh.ndim = 2)
    (hfs : f.data.shape = [f.mesh.nAt 0, f.mesh.nAt 1]) (hgs : g.data.shape = [g.mesh.nAt 0, g.mesh.nAt 1])
    (m : Method) (a : Bool) : charge sq pi Om g m a = charge sq pi Om f m a :=
  charge_turn sq pi Om Q hQ h hf3 hg3 hf2 hg2 hfs hgs m a

/-- a quarter-turned pair: `fQ` (cell `(i,j)` holds `(i, j+1, 2)` on 4 × 3 cells of size 1 × 2) and the
field on 3 × 4 cells of size 2 × 1 holding `(−(j'+1), i', 2)` at the turned position -/
example : QTurn ⟨0, -1, 0, 1, 0, 0, 0, 0, 1⟩ fQ
    { mesh := { region := { pmin := [0, 0], pmax := [6, 4], dims := ["x", "y"], units := ["m", "m"], tol := 1 / 1000000000000 },
                n := [3, 4], bc := "", subs := [] },
      nvdim := 3, data := ⟨[3, 4], fun i => [-(((3 - 1 - i.getD 0 0 : Nat) : Rat) + 1), (i.getD 1 0 : Rat), 2]⟩,
      valid := NDA.const [3, 4] true, vdims := some ["x", "y", "z"], vmap := [("x", "x"), ("y", "y")], unit := none } := by
  refine ⟨rfl, rfl, ?_, ?_, rfl, rfl, ?_, ?_⟩
  · simp [Mesh.cellAt, Region.edge, Region.hi, Region.lo, Mesh.nAt, rotF, fQ, mEx]
  · simp [Mesh.cellAt, Region.edge, Region.hi, Region.lo, Mesh.nAt, rotF, fQ, mEx]
  · intro i j _ _
    simp [cellV, rotF, fQ, mEx, Mesh.nAt, V3.ofList, M3.mulVec, V3.toList, NDA.map]
  · intro i j _ _
    rfl

/-- EVERY QUARTER TURN OF THE SAMPLE.  `Field.rotate90` (C12's model `T.rotate90F`) by any odd `k`
(positive or negative) in the plane of the two axes — named in either order — of a 2-d three-component
field (open boundaries; the two axes mapped to two different components) leaves the topological
charge unchanged: both methods, absolute or not, every validity mask, anisotropic cells, any
reference point, copying or in-place form. -/
theorem charge_rotate90 (sq : Rat → Rat) (pi : Rat) (Om : Tri → Rat) (f recv g : Fld) (a1 a2 : String) (k : Int)
    (ref : Option (List Rat)) (b : Bool)
    (hf : T.FldInv f) (h2 : f.mesh.ndim = 2) (h3 : f.nvdim = 3) (hlen : ∀ i, (f.data.get i).length = 3)
    (hbc : f.mesh.bc = "") (i1 i2 : Nat)
    (hi1 : f.mesh.region.dim2index a1 = .ok i1) (hi2 : f.mesh.region.dim2index a2 = .ok i2)
    (hord : (i1 = 0 ∧ i2 = 1) ∨ (i1 = 1 ∧ i2 = 0)) (hk : k % 2 = 1)
    (hvd : ∀ vs, f.vdims = some vs → vs.length = 3)
    (hc : (f.rDim a1).bind f.vdimIndex ≠ (f.rDim a2).bind f.vdimIndex)
    (h : T.rotate90F f a1 a2 k ref b = .ok (recv, g)) (m : Method) (a : Bool) :
    charge sq pi Om g m a = charge sq pi Om f m a := by
  obtain ⟨g3, g2, gs, hcase⟩ := rotate90F_quarter f recv g a1 a2 k ref b hf h2 h3 hlen hbc i1 i2 hi1 hi2 hord hk hvd hc h
  have hfs : f.data.shape = [f.mesh.nAt 0, f.mesh.nAt 1] := by rw [hf.2.1]; exact n_eq2 f.mesh hf.1 h2
  rcases hcase with ⟨Q, hQ, hT⟩ | ⟨Q, hQ, hT⟩
  · exact charge_turn sq pi Om Q hQ hT h3 g3 h2 g2 hfs gs m a
  · exact (charge_turn sq pi Om Q hQ hT g3 h3 g2 h2 gs hfs m a).symm

/-- the hypotheses of `charge_rotate90` on the concrete field `fQ`: `rotate90('x', 'y', k=1)` and
`rotate90('y', 'x', k=-1)` are accepted -/
example : T.FldInv fQ ∧ fQ.mesh.ndim = 2 ∧ fQ.nvdim = 3 ∧ (∀ i, (fQ.data.get i).length = 3) ∧ fQ.mesh.bc = "" ∧
    fQ.mesh.region.dim2index "x" = .ok 0 ∧ fQ.mesh.region.dim2index "y" = .ok 1 ∧ (1 : Int) % 2 = 1 ∧ (-1 : Int) % 2 = 1 ∧
    (∀ vs, fQ.vdims = some vs → vs.length = 3) ∧
    (fQ.rDim "x").bind fQ.vdimIndex ≠ (fQ.rDim "y").bind fQ.vdimIndex ∧
    (match T.rotate90F fQ "x" "y" 1 none false with | .ok _ => true | .error _ => false) = true ∧
    (match T.rotate90F fQ "y" "x" (-1) none false with | .ok _ => true | .error _ => false) = true := by
  refine ⟨⟨?_, rfl, rfl⟩, rfl, rfl, fun _ => rfl, rfl, by decide +kernel, by decide +kernel, by decide, by decide,
    ?_, by decide +kernel, by decide +kernel, by decide +kernel⟩
  · have : mEx.invB = true := by decide +kernel
    refine ⟨⟨by decide, rfl, rfl, rfl, by decide, ?_⟩, rfl, ?_⟩
    · intro a ha
      have : a = 0 ∨ a = 1 := by simp [fQ, mEx] at ha; omega
      rcases this with rfl | rfl <;> simp [fQ, mEx, Region.lo, Region.hi]
    · intro a ha
      have : a = 0 ∨ a = 1 := by simp [fQ, mEx, Mesh.ndim, Region.ndim] at ha; omega
      rcases this with rfl | rfl <;> simp [fQ, mEx, Mesh.nAt]
  · intro vs hvs
    simp only [fQ] at hvs
    injection hvs with hvs
    rw [← hvs]; rfl

/-! ## The trace of the demagnetisation tensor in Fourier space -/

/-- A tensor field whose real-space trace is `t·δ_{r0}` (first three components add up to `t` in
cell `r0`, to `0` elsewhere) has Fourier-space trace `t·exp(−2πi k·r0)` in EVERY k-cell, for
`Field.fftn` as modelled in C11 over any commutative ring with roots of unity: the trace is linear,
and the transform of a one-cell field is a pure phase (`C11.fftn_is_dft`). -/
theorem fourier_trace_of_real_space_trace {R : Type} [CommRing R] (ρs : List (C11.Root R)) (f g : C11.CF R)
    (h : C11.fftn ρs f = .ok g) (hρ : C11.Roots f.data.shape ρs) (hnv : 3 ≤ f.nvdim) (r0 : List Nat)
    (hr : inRange f.data.shape r0 = true) (t : R)
    (hT : ∀ i, inRange f.data.shape i = true →
      C11.compA f.data 0 i + C11.compA f.data 1 i + C11.compA f.data 2 i = if i = r0 then t else 0)
    (m : List Nat) (hm : inRange f.data.shape m = true) :
    C11.compA g.data 0 m + C11.compA g.data 1 m + C11.compA g.data 2 m = t * C11.phase ρs f.data.shape m r0 :=
  fourier_trace_of_delta ρs f g h hρ hnv r0 hr t hT m hm

/-- TRACE −1 AT EVERY FREQUENCY.  The model's real-space tensor of `demag_tensor(mesh)` (symbolic
Newell terms at the `linspace` points, evaluated with the real `arcsinh`, `arctan`, `sqrt`),
transformed by C11's `Field.fftn` with the complex roots of unity, has in every k-cell the trace
`−(π/pi)·exp(−2πi k·r_c)` (`r_c` = the central cell of the `2n−1` grid, `pi` the rational the code
uses for `np.pi`): a pure phase of modulus `π/|pi|` — all positive rational cell edges, all counts.
The tensor mesh exists and the transform is accepted (first two parts). -/
theorem demag_trace_fourier (pi : Rat) (hpi : pi ≠ 0) (m : Mesh) (hm : m.Inv) (h3 : m.ndim = 3) :
    ∃ tm, tensorMesh m = .ok tm ∧
    (∃ g, C11.fftn ((tensorShape m).map C11.cRoot) (tensorC pi m tm) = .ok g) ∧
    ∀ g, C11.fftn ((tensorShape m).map C11.cRoot) (tensorC pi m tm) = .ok g →
      ∀ k, inRange (tensorShape m) k = true →
        C11.compA g.data 0 k + C11.compA g.data 1 k + C11.compA g.data 2 k
          = -(((Real.pi / (pi : ℝ) : ℝ)) : ℂ) * C11.phase ((tensorShape m).map C11.cRoot) (tensorShape m) k (centreCell m) ∧
        ‖C11.compA g.data 0 k + C11.compA g.data 1 k + C11.compA g.data 2 k‖ = Real.pi / |(pi : ℝ)| := by
  obtain ⟨tm, htm, _, _⟩ := tensorMesh_ok m hm
  refine ⟨tm, htm, ?_, ?_⟩
  · obtain ⟨g, hg, _⟩ := C11.fftn_total ((tensorShape m).map C11.cRoot) (tensorC pi m tm) (tensorC_inv pi m tm hm h3 htm)
    exact ⟨g, hg⟩
  · intro g hg k hk
    exact tensorC_fourier_trace pi hpi m tm hm h3 g hg k hk

/-- the real-space trace of that tensor field, cell by cell of the displacement grid -/
theorem demag_trace_grid (pi : Rat) (hpi : pi ≠ 0) (m tm : Mesh) (hm : m.Inv) (h3 : m.ndim = 3)
    (i : List Nat) (hi : inRange (tensorShape m) i = true) :
    C11.compA (tensorC pi m tm).data 0 i + C11.compA (tensorC pi m tm).data 1 i + C11.compA (tensorC pi m tm).data 2 i
      = if i = centreCell m then -(((Real.pi / (pi : ℝ) : ℝ)) : ℂ) else 0 :=
  tensorC_trace pi hpi m tm hm h3 i hi

/-- a well-formed 3-d mesh (2 × 1 × 2 cells, edges 1, 2, 1/2) -/
example : m3.Inv ∧ m3.ndim = 3 := ⟨mesh_inv_of_invB _ (by decide +kernel), rfl⟩

/-! ## Validity handling -/

/-- Both densities vanish in every invalid cell (every mesh, every neighbourhood): the continuous
one because `Field.diff(restrict2valid=True)` stores zeros there (C04), the lattice one by its
explicit test. -/
theorem tcd_invalid_zero (sq : Rat → Rat) (pi : Rat) (Om : Tri → Rat) (f q : Fld) (m : Method)
    (h : tcd sq pi Om f m = .ok q) (i0 i1 : Nat) (h0 : i0 < f.mesh.nAt 0) (hv : f.valid.get [i0, i1] = false) :
    q.data.get [i0, i1] = [0] := by
  obtain ⟨h3, h2, _, rfl⟩ := tcd_ok sq pi Om f q m h
  show [tcdVal sq pi Om f m [i0, i1]] = [0]
  congr 1
  cases m with
  | continuous =>
    show tcdCSpec sq pi f [i0, i1] = 0
    unfold tcdCSpec
    rw [Dv_invalid_zero (orientation sq f) 0 (by show 0 < f.mesh.ndim; omega) h3 [i0, i1] h0 hv]
    simp [V3.dot, V3.cross, V3.zero]
  | bergLuescher =>
    show tcdBLAt Om (orientation sq f) i0 i1 = 0
    unfold tcdBLAt
    have : (orientation sq f).valid.get [i0, i1] = false := hv
    rw [this]; rfl
  | other => rfl

/-- The real Berg–Lüscher angle of one triangle lies in `(−1/2, 1/2]` (one triangle covers at most
half the sphere) whenever `ρ > 0`. -/
theorem bl_angle_real_range (tr : Tri) (hρ : 0 < 2 * (1 + (tr.d12 : ℝ)) * (1 + tr.d23) * (1 + tr.d31)) :
    -(1 / 2 : ℝ) < omegaR tr ∧ omegaR tr ≤ 1 / 2 :=
  omegaR_range tr hρ

/-- a triangle with `ρ > 0` -/
example : 0 < 2 * (1 + ((⟨0, 0, 0, 1⟩ : Tri).d12 : ℝ)) * (1 + (⟨0, 0, 0, 1⟩ : Tri).d23) * (1 + (⟨0, 0, 0, 1⟩ : Tri).d31) := by
  norm_num

/-! ## Emergent field and Bloch-point count at object level -/

/-- Reversing all vectors negates the emergent field (same mesh, same validity), and the emergent
field of a uniform field vanishes identically. -/
theorem emergent_reversal (f e : Fld) (h : emergent f = .ok e) :
    (∃ e', emergent (negF f) = .ok e' ∧ e'.mesh = e.mesh ∧ e'.valid = e.valid ∧ e'.data.shape = e.data.shape ∧
      ∀ i c, c < 3 → (e'.data.get i).getD c 0 = -(e.data.get i).getD c 0) ∧
    (∀ v, uniformF f v → ∀ i, e.data.get i = [0, 0, 0]) := by
  have h3 : f.nvdim = 3 := by
    by_cases hc : f.nvdim = 3
    · exact hc
    · unfold emergent at h; rw [if_pos hc] at h; cases h
  have hd : f.mesh.ndim = 3 := by
    by_cases hc : f.mesh.ndim = 3
    · exact hc
    · unfold emergent at h; rw [if_neg (by simp [h3]), if_pos hc] at h; cases h
  rw [emergent_eq f h3 hd] at h
  injection h with h
  subst h
  constructor
  · refine ⟨_, emergent_eq (negF f) h3 hd, rfl, rfl, rfl, ?_⟩
    intro i c hc
    show ([emSpec (negF f) 1 2 i, emSpec (negF f) 2 0 i, emSpec (negF f) 0 1 i] : List Rat).getD c 0
      = -([emSpec f 1 2 i, emSpec f 2 0 i, emSpec f 0 1 i] : List Rat).getD c 0
    rw [emSpec_negF, emSpec_negF, emSpec_negF]
    rcases (by omega : c = 0 ∨ c = 1 ∨ c = 2) with rfl | rfl | rfl <;> simp
  · intro v hu i
    show [emSpec f 1 2 i, emSpec f 2 0 i, emSpec f 0 1 i] = [0, 0, 0]
    rw [emSpec_uniform f v hu, emSpec_uniform f v hu, emSpec_uniform f v hu]

/-- `emergent_magnetic_field` accepts a concrete non-uniform field -/
example : (match emergent f3 with | .ok _ => true | .error _ => false) = true := by decide +kernel

/-- `count_bps` is unchanged by a global proper rotation of all vectors: the same result (cumulative
flux, local numbers, total, head-to-head / tail-to-tail counts, pattern) or the same refusal —
every direction, every mask, anisotropic cells. -/
theorem count_bps_rot_invariant (sq : Rat → Rat) (pi : Rat) (q : M3) (hq : q.IsRot) (f : Fld) (dir : String) :
    countBps sq pi (rotF q f) dir = countBps sq pi f dir :=
  countBps_rotF sq pi q hq f dir

/-- REVERSAL: when all vectors are reversed `count_bps` (every direction) negates the cumulative
flux and the local Bloch-point numbers (`np.round` is odd), keeps the total number, and swaps the
head-to-head and tail-to-tail counts — a tail-to-tail hedgehog becomes head-to-head. -/
theorem count_bps_reversal (sq : Rat → Rat) (pi : Rat) (f : Fld) (dir : String) (r : BpResult)
    (h : countBps sq pi f dir = .ok r) :
    ∃ r', countBps sq pi (negF f) dir = .ok r' ∧ r'.fint = r.fint.map (-·) ∧ r'.number = r.number.map (-·) ∧
      r'.total = r.total ∧ r'.hh = r.tt ∧ r'.tt = r.hh ∧ r'.pattern = r.pattern.map fun p => (-p.1, p.2) :=
  countBps_negF sq pi f dir r h

/-- `count_bps` accepts a concrete non-uniform field along `x` -/
example : (match countBps ratSqrt 3 f3 "x" with | .ok _ => true | .error _ => false) = true := by
  decide +kernel

/-- Counting from the rounded cumulative flux alone: negating the flux negates the numbers, keeps
the total and swaps head-to-head with tail-to-tail (any list, any `pi`). -/
theorem bp_count_reversal (fint : List Rat) (pi : Rat) :
    (bpOf (fint.map (-·)) pi).number = (bpOf fint pi).number.map (-·) ∧
    (bpOf (fint.map (-·)) pi).total = (bpOf fint pi).total ∧
    (bpOf (fint.map (-·)) pi).hh = (bpOf fint pi).tt ∧
    (bpOf (fint.map (-·)) pi).tt = (bpOf fint pi).hh :=
  ⟨(bpOf_neg fint pi).2.1, (bpOf_neg fint pi).2.2.1, (bpOf_neg fint pi).2.2.2.1, (bpOf_neg fint pi).2.2.2.2.1⟩

/-- ONE STEP = ONE BLOCH POINT.  The counting stage of `count_bps` (differences of the rounded
cumulative flux `F_int/(4π)`): if the rounded flux is `0` on the first `a ≥ 1` cells along the direction
and `+1` on the remaining `b ≥ 1` cells — what a single tail-to-tail hedgehog produces — exactly one
Bloch point is reported, tail-to-tail, none head-to-head, pattern `[[0, a], [1, b]]`; if it steps to
`−1` instead (the reversed hedgehog) exactly one, head-to-head.  (That a discretised hedgehog's
rounded flux IS such a step is the part left to the oracle.) -/
theorem single_step_is_one_bloch_point (fint : List Rat) (pi : Rat) (a b : Nat) (ha : 0 < a) (hb : 0 < b) :
    ((fint.map fun x => Mesh.roundHalfEven (x / (4 * pi))) = List.replicate a 0 ++ List.replicate b 1 →
      (bpOf fint pi).total = 1 ∧ (bpOf fint pi).tt = 1 ∧ (bpOf fint pi).hh = 0 ∧ (bpOf fint pi).pattern = [(0, a), (1, b)]) ∧
    ((fint.map fun x => Mesh.roundHalfEven (x / (4 * pi))) = List.replicate a 0 ++ List.replicate b (-1) →
      (bpOf fint pi).total = 1 ∧ (bpOf fint pi).hh = 1 ∧ (bpOf fint pi).tt = 0) := by
  constructor
  · exact bpOf_unit_step fint pi a b ha hb
  · intro h
    have hg : ((fint.map (-·)).map fun x => Mesh.roundHalfEven (x / (4 * pi))) = List.replicate a 0 ++ List.replicate b 1 := by
      have e : ((fint.map (-·)).map fun x => Mesh.roundHalfEven (x / (4 * pi)))
          = (fint.map fun x => Mesh.roundHalfEven (x / (4 * pi))).map (-·) := by
        rw [List.map_map, List.map_map]
        apply List.map_congr_left
        intro x _
        simp only [Function.comp]
        rw [neg_div, roundHalfEven_neg]
      rw [e, h]
      simp
    obtain ⟨t1, t2, t3, _⟩ := bpOf_unit_step (fint.map (-·)) pi a b ha hb hg
    obtain ⟨_, _, n3, n4, n5, _⟩ := bpOf_neg (fint.map (-·)) pi
    have eback : (fint.map (-·)).map (-·) = fint := by
      rw [List.map_map]
      have : ((fun x : Rat => -x) ∘ fun x : Rat => -x) = id := by funext x; simp
      rw [this, List.map_id]
    rw [eback] at n3 n4 n5
    exact ⟨by rw [n3, t1], by rw [n4, t2], by rw [n5, t3]⟩

/-- a flux that rounds to one unit step (`4π·(0, 0, 1, 1)` with `pi = 1`) -/
example : (([0, 0, 4, 4] : List Rat).map fun x => Mesh.roundHalfEven (x / (4 * 1))) = List.replicate 2 0 ++ List.replicate 2 1 := by
  decide +kernel

/-! ## Neighbouring-cell angles at object level -/

/-- ACCEPTANCE and RESULT: a 3-component field on a well-formed mesh with at least two cells along
the named direction is accepted in either unit; the result is a scalar field, valid everywhere,
on the mesh built by `df.Mesh(p1 = pmin + δ, p2 = pmax − δ, cell = mesh.cell)`, with one cell less
along the direction, holding `acos(clip(û·v̂))` (`units = "rad"`) or `deg` of it. -/
theorem angle_accepted (sq acos deg : Rat → Rat) (f : Fld) (dir units : String) (ax : Nat)
    (h3 : f.nvdim = 3) (hm : f.mesh.Inv) (hax : indexOf? f.mesh.region.dims dir = some ax)
    (hu : units = "rad" ∨ units = "deg") (h2 : 2 ≤ f.mesh.nAt ax) :
    ∃ g m', neighbourAngle sq acos deg f dir units = .ok g ∧ angleMesh f.mesh ax = .ok m' ∧ g.mesh = m' ∧
      g.nvdim = 1 ∧ g.data.shape = setAt f.mesh.n ax (f.mesh.nAt ax - 1) ∧ m'.n = setAt f.mesh.n ax (f.mesh.nAt ax - 1) ∧
      (∀ i, g.valid.get i = true) ∧
      ∀ i, g.data.get i = [if units = "deg" then deg (acos (nbDot sq f ax i)) else acos (nbDot sq f ax i)] :=
  neighbourAngle_ok sq acos deg f dir units ax h3 hm hax hu h2

/-- the hypotheses of `angle_accepted` on the concrete field `fQ`; both angle tools accept it -/
example : fQ.nvdim = 3 ∧ fQ.mesh.Inv ∧ indexOf? fQ.mesh.region.dims "x" = some 0 ∧ 2 ≤ fQ.mesh.nAt 0 ∧
    (match neighbourAngle ratSqrt id id fQ "x" "deg" with | .ok _ => true | .error _ => false) = true ∧
    (match maxNeighbourAngle ratSqrt id id fQ "rad" with | .ok _ => true | .error _ => false) = true :=
  ⟨rfl, mesh_inv_of_invB _ (by decide +kernel), by decide +kernel, by decide +kernel, by decide +kernel, by decide +kernel⟩

/-- THE ANGLES LIVE ON A MESH ONE CELL SHORTER: whenever `neighbouring_cell_angle` succeeds on a
well-formed mesh, the direction had at least two cells and the result mesh has one cell less along
it, the same cell size on every axis, and its region is the original one shrunk by half a cell at
both ends in that direction (unchanged on the other axes). -/
theorem angle_result_mesh (sq acos deg : Rat → Rat) (f g : Fld) (dir units : String) (hm : f.mesh.Inv)
    (h : neighbourAngle sq acos deg f dir units = .ok g) :
    ∃ ax, indexOf? f.mesh.region.dims dir = some ax ∧ ax < f.mesh.ndim ∧ 2 ≤ f.mesh.nAt ax ∧
      g.mesh.n = setAt f.mesh.n ax (f.mesh.nAt ax - 1) ∧ g.data.shape = g.mesh.n ∧ g.mesh.ndim = f.mesh.ndim ∧
      ∀ a, a < f.mesh.ndim →
        g.mesh.region.lo a = f.mesh.region.lo a + (if a = ax then f.mesh.cellAt a / 2 else 0) ∧
        g.mesh.region.hi a = f.mesh.region.hi a - (if a = ax then f.mesh.cellAt a / 2 else 0) ∧
        g.mesh.cellAt a = f.mesh.cellAt a := by
  obtain ⟨_, _, ax, hax, hmesh, hn, hs, _, _⟩ := neighbourAngle_inv sq acos deg f g dir units h
  have hl : ax < f.mesh.ndim := by
    have := indexOf_lt' _ _ _ hax
    rw [hm.1.2.2.1] at this
    exact this
  have h2 : 2 ≤ f.mesh.nAt ax := by
    have hp := hm.2.2 ax hl
    by_cases h1 : f.mesh.nAt ax = 1
    · obtain ⟨e, he⟩ := angleMesh_single f.mesh hm ax hl h1
      rw [he] at hmesh; cases hmesh
    · omega
  obtain ⟨m', hm', _, hgeo, _, hnd⟩ := angleMesh_ok f.mesh hm ax hl h2
  rw [hmesh] at hm'
  injection hm' with hm'
  subst hm'
  exact ⟨ax, hax, hl, h2, hn, by rw [hs, hn], hnd, hgeo⟩

/-- The angles are unchanged when all vectors are reversed, and when every vector is rescaled by its
own non-zero factor (hypotheses as in `orientation_scale`); for a uniform field of non-negligible
vectors every clipped dot product is exactly `1` (angle `acos 1 = 0`). -/
theorem angle_invariances (sq acos deg : Rat → Rat) (f : Fld) (dir units : String) :
    neighbourAngle sq acos deg (negF f) dir units = neighbourAngle sq acos deg f dir units ∧
    (∀ s : List Nat → Rat, (∀ i, s i ≠ 0) →
      (∀ i, sq (s i * s i * (cellV f i).normSq) = s i * sq (cellV f i).normSq) →
      (∀ i, isZeroNorm (s i * sq (cellV f i).normSq) = isZeroNorm (sq (cellV f i).normSq)) →
      neighbourAngle sq acos deg (scaleF s f) dir units = neighbourAngle sq acos deg f dir units) ∧
    (∀ v, uniformF f v → sq v.normSq * sq v.normSq = v.normSq → isZeroNorm (sq v.normSq) = false →
      ∀ ax i, nbDot sq f ax i = 1) := by
  refine ⟨?_, ?_, ?_⟩
  · unfold neighbourAngle
    have e : ∀ ax, nbDot sq (negF f) ax = nbDot sq f ax := fun ax => funext fun i => nbDot_negF sq f ax i
    simp only [e]
    rfl
  · intro s hs hsq hz
    unfold neighbourAngle
    have e : ∀ ax, nbDot sq (scaleF s f) ax = nbDot sq f ax := fun ax => funext fun i =>
      nbDot_scaleF sq s f (fun i => orient_smul sq (s i) _ (hs i) (hsq i) (hz i)) ax i
    simp only [e]
    rfl
  · intro v hu hsq hz ax i
    exact nbDot_uniform sq f v hu hsq hz ax i

/-- `max_neighbouring_cell_angle`: the value of a cell lies in `[0, π]`, dominates the angle to the
next and to the previous cell along every axis, and is attained (it is `0` or one of those angles);
the result lives on the field's own mesh, valid everywhere. -/
theorem max_angle_spec (sq acos deg : Rat → Rat) (pi : Rat) (hpi : 0 ≤ pi)
    (hacos : ∀ x, 0 ≤ acos x ∧ acos x ≤ pi) (f g : Fld)
    (h : maxNeighbourAngle sq acos deg f "rad" = .ok g) (i : List Nat) :
    g.mesh = f.mesh ∧ g.valid.get i = true ∧
    0 ≤ (g.data.get i).getD 0 0 ∧ (g.data.get i).getD 0 0 ≤ pi ∧
    (∀ a, a < f.mesh.ndim → i.getD a 0 + 1 < f.mesh.nAt a → acos (nbDot sq f a i) ≤ (g.data.get i).getD 0 0) ∧
    (∀ a, a < f.mesh.ndim → 1 ≤ i.getD a 0 →
      acos (nbDot sq f a (setAt i a (i.getD a 0 - 1))) ≤ (g.data.get i).getD 0 0) ∧
    ((g.data.get i).getD 0 0 = 0 ∨ ∃ d, some d ∈ nbDots sq f i ∧ (g.data.get i).getD 0 0 = acos d) := by
  obtain ⟨hmesh, _, _, hv, hd⟩ := maxNeighbourAngle_inv sq acos deg f g "rad" h
  have e : angVal acos deg "rad" = acos := by
    funext d; unfold angVal; simp
  rw [hd i, e]
  simp only [List.getD_cons_zero]
  refine ⟨hmesh, hv i, (maxOpt_range acos pi hpi hacos _).1, (maxOpt_range acos pi hpi hacos _).2, ?_, ?_, ?_⟩
  · intro a ha hi
    exact maxOpt_ge acos _ _ (nbDots_fwd sq f i a ha hi)
  · intro a ha hi
    exact maxOpt_ge acos _ _ (nbDots_bwd sq f i a ha hi)
  · exact maxOpt_attained acos _

/-- The maximum angle is unchanged by a global rotation or reflection of the vectors and by reversal. -/
theorem max_angle_invariant (sq acos deg : Rat → Rat) (q : M3) (hq : q.IsOrth) (f : Fld) (units : String) :
    maxNeighbourAngle sq acos deg (rotF q f) units = maxNeighbourAngle sq acos deg f units ∧
    maxNeighbourAngle sq acos deg (negF f) units = maxNeighbourAngle sq acos deg f units := by
  constructor
  · unfold maxNeighbourAngle
    have e1 : ∀ d, neighbourAngle sq acos deg (rotF q f) d units = neighbourAngle sq acos deg f d units :=
      fun d => angle_rot_invariant sq acos deg q hq f d units
    have e : ∀ i, nbDots sq (rotF q f) i = nbDots sq f i := nbDots_rotF sq q hq f
    simp only [e1, e]
    rfl
  · unfold maxNeighbourAngle
    have e1 : ∀ d, neighbourAngle sq acos deg (negF f) d units = neighbourAngle sq acos deg f d units :=
      fun d => (angle_invariances sq acos deg f d units).1
    have e : ∀ i, nbDots sq (negF f) i = nbDots sq f i := nbDots_negF sq f
    simp only [e1, e]
    rfl

/-! ## The leaf functions instantiated with the real functions -/

/-- The model's Berg–Lüscher density is the rational case of the density with a leaf valued in an
arbitrary field of characteristic 0 (`tcdBLAtK`). -/
theorem bl_density_is_rational_case (Om : Tri → Rat) (o : Fld) (i j : Nat) :
    tcdBLAt Om o i j = tcdBLAtK (K := Rat) Om o i j :=
  tcdBLAt_eq_K Om o i j

/-- THE LATTICE DENSITY WITH THE REAL SOLID-ANGLE FORMULA (`2·Im log((1+d₁₂+d₂₃+d₃₁ + i·t)/ρ)/(4π)` over
ℝ/ℂ, no hypothesis on a leaf): unchanged by a global proper rotation, negated by reversal, zero on
uniform fields, divided by `λ²` under mesh scaling/translation — every mask, every cell. -/
theorem bl_real_invariances (sq : Rat → Rat) (f : Fld) (i : List Nat) :
    (∀ q : M3, q.IsRot → tcdBLReal sq (rotF q f) i = tcdBLReal sq f i) ∧
    tcdBLReal sq (negF f) i = -tcdBLReal sq f i ∧
    (∀ v, uniformF f v → tcdBLReal sq f i = 0) ∧
    (∀ (lam : Rat) (t : List Rat), f.mesh.ndim = 2 →
      tcdBLReal sq (affF lam t f) i = tcdBLReal sq f i / ((lam : ℝ) * (lam : ℝ))) :=
  ⟨fun q hq => tcdBLReal_rotF sq q hq f i, tcdBLReal_negF sq f i, fun v hu => tcdBLReal_uniform sq f v hu i,
    fun lam t h2 => tcdBLReal_affF sq lam t f h2 i⟩

/-- … and under a quarter turn of the sample it takes the source cell's value. -/
theorem bl_real_quarter_turn (sq : Rat → Rat) (Q : M3) (hQ : Q.IsRot) {f g : Fld} (h : QTurn Q f g) (i j : Nat)
    (hi : i < f.mesh.nAt 1) (hj : j < f.mesh.nAt 0) :
    tcdBLReal sq g [i, j] = tcdBLReal sq f [j, f.mesh.nAt 1 - 1 - i] :=
  tcdBLReal_turn sq Q hQ h i j hi hj

/-- The angle with the real arccosine: for every field, direction and cell, `arccos` of the model's
clipped dot product lies in `[0, π]`. -/
theorem angle_range_real (sq : Rat → Rat) (f : Fld) (ax : Nat) (i : List Nat) :
    0 ≤ Real.arccos ((nbDot sq f ax i : Rat) : ℝ) ∧ Real.arccos ((nbDot sq f ax i : Rat) : ℝ) ≤ Real.pi :=
  arccos_range _

/-- The homogeneity hypothesis `√(s²x) = s·√x` of the rescaling theorems follows from `sq` being a
non-negative square root at the two arguments (as the real square root is): the rescaling
invariance of both densities for positive factors and an exact square root on the occurring norms. -/
theorem tcd_scale_invariant_exact_sqrt (sq : Rat → Rat) (pi : Rat) (Om : Tri → Rat) (s : List Nat → Rat) (f : Fld)
    (hs : ∀ i, 0 < s i)
    (h1 : ∀ i, 0 ≤ sq (cellV f i).normSq ∧ sq (cellV f i).normSq * sq (cellV f i).normSq = (cellV f i).normSq)
    (h2 : ∀ i, 0 ≤ sq (s i * s i * (cellV f i).normSq) ∧
      sq (s i * s i * (cellV f i).normSq) * sq (s i * s i * (cellV f i).normSq) = s i * s i * (cellV f i).normSq)
    (hz : ∀ i, isZeroNorm (s i * sq (cellV f i).normSq) = isZeroNorm (sq (cellV f i).normSq))
    (m : Method) (h3 : f.nvdim = 3) (hd : f.mesh.ndim = 2) (hm : m ≠ .other) :
    tcd sq pi Om (scaleF s f) m = tcd sq pi Om f m :=
  tcd_scale_invariant sq pi Om s f (fun i => (hs i).ne')
    (fun i => sq_homogeneous_of_exact sq (s i) _ (hs i) (h1 i).1 (h1 i).2 (h2 i).1 (h2 i).2) hz m h3 hd hm

/-- the hypotheses of `tcd_scale_invariant_exact_sqrt` on `fEx` (`(3,4,0)` everywhere), factor 2, with
the exact square-root table `sqEx` -/
example : (∀ i, (0 : Rat) < (fun _ : List Nat => (2 : Rat)) i) ∧
    (∀ i, 0 ≤ sqEx (cellV fEx i).normSq ∧ sqEx (cellV fEx i).normSq * sqEx (cellV fEx i).normSq = (cellV fEx i).normSq) ∧
    (∀ i, 0 ≤ sqEx (2 * 2 * (cellV fEx i).normSq) ∧
      sqEx (2 * 2 * (cellV fEx i).normSq) * sqEx (2 * 2 * (cellV fEx i).normSq) = 2 * 2 * (cellV fEx i).normSq) := by
  refine ⟨fun _ => by norm_num, fun i => ?_, fun i => ?_⟩ <;>
  · simp only [cellV, fEx, NDA.const, V3.ofList, V3.normSq, V3.dot, sqEx]
    norm_num

/-! ## The cuboid sum rule, composed -/

/-- Sum rule with the trace hypothesis only where the tensor is defined (the cells of the `2n−1`
displacement grid). -/
theorem cuboid_sum_rule_grid (T : NDA (List Rat)) (m : Mesh) (M : Rat)
    (hT : ∀ j0 j1 j2, j0 < 2 * m.nAt 0 - 1 → j1 < 2 * m.nAt 1 - 1 → j2 < 2 * m.nAt 2 - 1 →
      (T.get [j0, j1, j2]).getD 0 0 + (T.get [j0, j1, j2]).getD 1 0 + (T.get [j0, j1, j2]).getD 2 0
      = if j0 = m.nAt 0 - 1 ∧ j1 = m.nAt 1 - 1 ∧ j2 = m.nAt 2 - 1 then -1 else 0)
    (q0 q1 q2 : Nat) (h0 : q0 < m.nAt 0) (h1 : q1 < m.nAt 1) (h2 : q2 < m.nAt 2) :
    linConv T (uniF m M 0) 0 [q0, q1, q2] + linConv T (uniF m M 1) 1 [q0, q1, q2]
      + linConv T (uniF m M 2) 2 [q0, q1, q2] = -M :=
  cuboid_sum_inrange T m M hT q0 q1 q2 h0 h1 h2

/-- THE SUM RULE THROUGH `demag_field` AND THE NEWELL TENSOR.  For the model's tensor of
`demag_tensor(mesh)` evaluated with any rational leaf functions satisfying the arctangent identity
(`tensorQ`), `demag_field` accepts the three uniformly magnetised fields (`M` along x, y, z) of a
well-formed 3-d mesh with axes `x, y, z`, and at EVERY cell the three field components along the
respective magnetisation add up to `−M`; hence so do their sums over all cells, i.e. the three mean
demagnetising field components sum to `−M` — all cuboid aspect ratios, all cell edges. -/
theorem demag_field_cuboid_sum (asinh atan sqrt : Rat → Rat) (pi : Rat) (hpi : pi ≠ 0) (m : Mesh) (hm : m.Inv)
    (h3 : m.ndim = 3) (hdims : m.region.dims = ["x", "y", "z"]) (M : Rat)
    (hat : ∀ a b c : Rat, 0 < a → 0 < b → 0 < c →
      atan (b * c / (a * sqrt (a ^ 2 + b ^ 2 + c ^ 2))) + atan (c * a / (b * sqrt (a ^ 2 + b ^ 2 + c ^ 2)))
        + atan (a * b / (c * sqrt (a ^ 2 + b ^ 2 + c ^ 2))) = pi / 2) :
    ∃ gx gy gz, demagField (tensorQ asinh atan sqrt pi m) (uniF m M 0) = .ok gx ∧
      demagField (tensorQ asinh atan sqrt pi m) (uniF m M 1) = .ok gy ∧
      demagField (tensorQ asinh atan sqrt pi m) (uniF m M 2) = .ok gz ∧
      (∀ q0 q1 q2, q0 < m.nAt 0 → q1 < m.nAt 1 → q2 < m.nAt 2 →
        (gx.data.get [q0, q1, q2]).getD 0 0 + (gy.data.get [q0, q1, q2]).getD 1 0 + (gz.data.get [q0, q1, q2]).getD 2 0 = -M) ∧
      sum3 (m.nAt 0) (m.nAt 1) (m.nAt 2) (fun q0 q1 q2 => (gx.data.get [q0, q1, q2]).getD 0 0)
        + sum3 (m.nAt 0) (m.nAt 1) (m.nAt 2) (fun q0 q1 q2 => (gy.data.get [q0, q1, q2]).getD 1 0)
        + sum3 (m.nAt 0) (m.nAt 1) (m.nAt 2) (fun q0 q1 q2 => (gz.data.get [q0, q1, q2]).getD 2 0)
        = -M * ((m.nAt 0 : Rat) * ((m.nAt 1 : Rat) * (m.nAt 2 : Rat))) := by
  obtain ⟨gx, hx, _, _, vx⟩ := demagField_uniF (tensorQ asinh atan sqrt pi m) m M 0 h3 hdims rfl
  obtain ⟨gy, hy, _, _, vy⟩ := demagField_uniF (tensorQ asinh atan sqrt pi m) m M 1 h3 hdims rfl
  obtain ⟨gz, hz, _, _, vz⟩ := demagField_uniF (tensorQ asinh atan sqrt pi m) m M 2 h3 hdims rfl
  have cell : ∀ q0 q1 q2, q0 < m.nAt 0 → q1 < m.nAt 1 → q2 < m.nAt 2 →
      (gx.data.get [q0, q1, q2]).getD 0 0 + (gy.data.get [q0, q1, q2]).getD 1 0 + (gz.data.get [q0, q1, q2]).getD 2 0 = -M := by
    intro q0 q1 q2 h0 h1 h2
    rw [vx 0 (by omega) q0 q1 q2 h0 h1 h2, vy 1 (by omega) q0 q1 q2 h0 h1 h2, vz 2 (by omega) q0 q1 q2 h0 h1 h2]
    exact cuboid_sum_inrange _ m M (fun j0 j1 j2 b0 b1 b2 => tensorQ_trace asinh atan sqrt pi hpi m hm h3 hat j0 j1 j2 b0 b1 b2)
      q0 q1 q2 h0 h1 h2
  refine ⟨gx, gy, gz, hx, hy, hz, cell, ?_⟩
  rw [← sum3_add, ← sum3_add, sum3_congr _ _ _ _ (fun _ _ _ => -M) (fun q0 q1 q2 h0 h1 h2 => cell q0 q1 q2 h0 h1 h2),
    sum3_const]
  ring

/-- −M/3 EACH FOR A CUBE, THROUGH `demag_field` AND THE NEWELL TENSOR.  For a well-formed mesh with
equal counts `n` and equal cell edges along x, y, z, the model's tensor (`tensorQ`, any rational
leaves with the arctangent identity) has the cyclic symmetry `N_yy(j₀,j₁,j₂) = N_xx(j₁,j₂,j₀)`,
`N_zz(j₀,j₁,j₂) = N_xx(j₂,j₀,j₁)`, and for each axis `a` the demagnetising field component along
the magnetisation, summed over all `n³` cells, is `−M·n³/3`: mean `−M/3` each. -/
theorem demag_field_cube_third (asinh atan sqrt : Rat → Rat) (pi : Rat) (hpi : pi ≠ 0) (m : Mesh) (hm : m.Inv)
    (h3 : m.ndim = 3) (hdims : m.region.dims = ["x", "y", "z"]) (M : Rat) (n : Nat)
    (hn0 : m.nAt 0 = n) (hn1 : m.nAt 1 = n) (hn2 : m.nAt 2 = n)
    (hc1 : m.cellAt 1 = m.cellAt 0) (hc2 : m.cellAt 2 = m.cellAt 0)
    (hat : ∀ a b c : Rat, 0 < a → 0 < b → 0 < c →
      atan (b * c / (a * sqrt (a ^ 2 + b ^ 2 + c ^ 2))) + atan (c * a / (b * sqrt (a ^ 2 + b ^ 2 + c ^ 2)))
        + atan (a * b / (c * sqrt (a ^ 2 + b ^ 2 + c ^ 2))) = pi / 2)
    (a : Nat) (ha : a < 3) :
    ∃ g, demagField (tensorQ asinh atan sqrt pi m) (uniF m M a) = .ok g ∧
      sum3 n n n (fun q0 q1 q2 => (g.data.get [q0, q1, q2]).getD a 0) = -M * (n : Rat) ^ 3 / 3 := by
  obtain ⟨g, hg, _, _, vg⟩ := demagField_uniF (tensorQ asinh atan sqrt pi m) m M a h3 hdims rfl
  refine ⟨g, hg, ?_⟩
  rw [sum3_congr n n n _ (fun q0 q1 q2 => linConv (tensorQ asinh atan sqrt pi m) (uniF m M a) a [q0, q1, q2])
    (fun q0 q1 q2 h0 h1 h2 => vg a ha q0 q1 q2 (by omega) (by omega) (by omega))]
  apply cube_third_inrange _ m M n hn0 hn1 hn2 _ _ a ha
  · intro j0 j1 j2 b0 b1 b2
    have := tensorQ_trace asinh atan sqrt pi hpi m hm h3 hat j0 j1 j2 (by omega) (by omega) (by omega)
    rw [hn0, hn1, hn2] at this
    exact this
  · intro j0 j1 j2 _ _ _
    exact tensorQ_cubic asinh atan sqrt pi m n hn0 hn1 hn2 hc1 hc2 j0 j1 j2

/-- a cube: one cell, edges 1 (the hypotheses of `demag_field_cube_third` on the mesh) -/
example : m1.Inv ∧ m1.ndim = 3 ∧ m1.region.dims = ["x", "y", "z"] ∧ m1.nAt 0 = 1 ∧ m1.nAt 1 = 1 ∧ m1.nAt 2 = 1 ∧
    m1.cellAt 1 = m1.cellAt 0 ∧ m1.cellAt 2 = m1.cellAt 0 :=
  ⟨mesh_inv_of_invB _ (by decide +kernel), rfl, rfl, rfl, rfl, rfl, by decide +kernel, by decide +kernel⟩

/-- leaf functions with the arctangent identity exist (`atan ≡ 1/2`, `pi = 3`) -/
example : ∀ a b c : Rat, 0 < a → 0 < b → 0 < c →
    (fun _ : Rat => (1 : Rat) / 2) (b * c / (a * (fun x : Rat => x) (a ^ 2 + b ^ 2 + c ^ 2)))
      + (fun _ : Rat => (1 : Rat) / 2) (c * a / (b * (fun x : Rat => x) (a ^ 2 + b ^ 2 + c ^ 2)))
      + (fun _ : Rat => (1 : Rat) / 2) (a * b / (c * (fun x : Rat => x) (a ^ 2 + b ^ 2 + c ^ 2))) = (3 : Rat) / 2 := by
  intros; norm_num


/-! ## `demag_field` through the transforms: the convolution theorem -/

/-- THE CONVOLUTION THEOREM for C11's model of `scipy.fft.fftn / ifftn` (the n-dimensional DFT over any
commutative ring with roots of unity): the transform of a circular convolution over the box is the
product of the transforms, and `ifftn(fftn(a)·fftn(b))` is the circular convolution — any number
of axes, any counts. -/
theorem convolution_theorem {R : Type} [CommRing R] (ρs : List (C11.Root R)) (ns : List Nat) (hρ : C11.Roots ns ρs)
    (a b : List Nat → R) :
    (∀ m, C11.dftN ρs ns (cconvN ns a b) m = C11.dftN ρs ns a m * C11.dftN ρs ns b m) ∧
    ∀ j, inRange ns j = true →
      C11.idftN ρs ns (fun k => C11.dftN ρs ns a k * C11.dftN ρs ns b k) j = cconvN ns a b j :=
  ⟨fun m => dftN_cconvN ρs ns hρ a b m, fun j hj => idftN_mul_dftN ρs ns hρ a b j hj⟩

/-- `demag_field` AS THE CODE COMPUTES IT IS THE CONVOLUTION.  The code-shaped model `demagFieldFFT`
(zero-pad the magnetisation, C11's `fftn` with its shifts, the nine products with the tensor spectrum,
C11's `ifftn`, crop at `n−1`; tied to `discretisedfield.tools.demag_field` by the correspondence
run) over any commutative ring with roots of unity of the orders `2n−1` and any ring embedding `ι` of
the rationals: it accepts exactly when `demagField` (the circular-convolution model) accepts, and
then every component of every cell is `ι` of `demagField`'s value — which is the linear convolution
(`demag_field_linear_convolution`). -/
theorem demag_field_fft_is_convolution {R : Type} [CommRing R] (ι : ℚ →+* R) (ρs : List (C11.Root R))
    (T : NDA (List Rat)) (f : Fld)
    (hρ : C11.Roots [2 * f.mesh.nAt 0 - 1, 2 * f.mesh.nAt 1 - 1, 2 * f.mesh.nAt 2 - 1] ρs) :
    (∀ g, demagField T f = .ok g →
      ∃ arr, demagFieldFFT (⇑ι) ρs (tensorSpectrum (⇑ι) ρs T) f = .ok (f.mesh, arr) ∧ arr.shape = g.data.shape ∧
        ∀ a, a < 3 → ∀ q0 q1 q2, q0 < f.mesh.nAt 0 → q1 < f.mesh.nAt 1 → q2 < f.mesh.nAt 2 →
          C11.compA arr a [q0, q1, q2] = ι ((g.data.get [q0, q1, q2]).getD a 0)) ∧
    (∀ e, demagField T f = .error e → ∃ e', demagFieldFFT (⇑ι) ρs (tensorSpectrum (⇑ι) ρs T) f = .error e') := by
  have hsh : (tensorSpectrum (⇑ι) ρs T).shape = T.shape := rfl
  unfold demagField demagFieldFFT
  rw [hsh]
  by_cases c1 : f.mesh.ndim ≠ 3
  · rw [if_pos c1, if_pos c1]
    exact ⟨fun g h => (by cases h), fun e _ => ⟨_, rfl⟩⟩
  · rw [if_neg c1, if_neg c1]
    by_cases c2 : f.nvdim ≠ 3
    · rw [if_pos c2, if_pos c2]
      exact ⟨fun g h => (by cases h), fun e _ => ⟨_, rfl⟩⟩
    · rw [if_neg c2, if_neg c2]
      by_cases c3 : f.mesh.region.dims ≠ ["x", "y", "z"]
      · rw [if_pos c3, if_pos c3]
        exact ⟨fun g h => (by cases h), fun e _ => ⟨_, rfl⟩⟩
      · rw [if_neg c3, if_neg c3]
        by_cases c4 : T.shape ≠ [2 * f.mesh.nAt 0 - 1, 2 * f.mesh.nAt 1 - 1, 2 * f.mesh.nAt 2 - 1]
        · rw [if_pos c4, if_pos c4]
          exact ⟨fun g h => (by cases h), fun e _ => ⟨_, rfl⟩⟩
        · rw [if_neg c4, if_neg c4]
          refine ⟨?_, fun e h => (by cases h)⟩
          intro g hg
          injection hg with hg
          subst hg
          refine ⟨_, rfl, rfl, ?_⟩
          intro a ha q0 q1 q2 h0 h1 h2
          show C11.compA (demagFFTArr ρs (tensorSpectrum (⇑ι) ρs T) (padArr (⇑ι) f)) a
              [q0 + (f.mesh.nAt 0 - 1), q1 + (f.mesh.nAt 1 - 1), q2 + (f.mesh.nAt 2 - 1)]
            = ι ((tab 3 fun a => circConv T f a
                [q0 + (f.mesh.nAt 0 - 1), q1 + (f.mesh.nAt 1 - 1), q2 + (f.mesh.nAt 2 - 1)]).getD a 0)
          rw [getD_tab _ _ _ _ ha]
          exact demagFFTArr_get ι ρs T f (not_not.mp c4) hρ a ha _ _ _ (by omega) (by omega) (by omega)

/-- roots of unity of the required orders exist (ℂ), for every mesh with positive counts -/
example (f : Fld) (h0 : 0 < f.mesh.nAt 0) (h1 : 0 < f.mesh.nAt 1) (h2 : 0 < f.mesh.nAt 2) :
    C11.Roots [2 * f.mesh.nAt 0 - 1, 2 * f.mesh.nAt 1 - 1, 2 * f.mesh.nAt 2 - 1]
      ([2 * f.mesh.nAt 0 - 1, 2 * f.mesh.nAt 1 - 1, 2 * f.mesh.nAt 2 - 1].map C11.cRoot) :=
  C11.cRoots _ (by intro n hn; simp only [List.mem_cons, List.not_mem_nil, or_false] at hn; omega)

/-! ## Acceptance and further refusals -/

/-- Every 3-component field on a 2-d mesh is accepted by both density methods and by
`topological_charge`; every well-formed 3-d mesh is accepted by both tensor builders, which return
the same tensor mesh. -/
theorem tools_accept (sq : Rat → Rat) (pi : Rat) (Om : Tri → Rat) :
    (∀ (f : Fld) (m : Method), f.nvdim = 3 → f.mesh.ndim = 2 → m ≠ .other →
      (∃ q, tcd sq pi Om f m = .ok q ∧ q.mesh = f.mesh ∧ q.valid = f.valid ∧ q.nvdim = 1) ∧
      ∀ a, ∃ c, charge sq pi Om f m a = .ok c) ∧
    (∀ (m : Mesh) (fb : Bool), m.Inv → m.ndim = 3 →
      ∃ tm g, demagTensor fb pi m = .ok (tm, g) ∧ tensorMesh m = .ok tm ∧ tm.n = tensorShape m ∧ tm.Inv) := by
  constructor
  · intro f m h3 h2 hm
    have ht := tcd_succeeds sq pi Om f m h3 h2 hm
    refine ⟨⟨_, ht, rfl, rfl, rfl⟩, fun a => ⟨_, charge_of_tcd sq pi Om f _ m a ht⟩⟩
  · intro m fb hm h3
    obtain ⟨tm, htm, _, _⟩ := tensorMesh_ok m hm
    obtain ⟨hi, hn⟩ := tensorMesh_inv m tm hm h3 htm
    refine ⟨tm, (if fb then tensorFld pi tm else tensorArr pi m), ?_, htm, hn, hi⟩
    unfold demagTensor
    rw [if_neg (by simp [h3]), htm]

/-- The demagnetisation tools refuse what they cannot handle: a mesh that is not 3-d (both tensor
builders); for `demag_field` a magnetisation on a mesh that is not 3-d, with other than 3
components, with axes not named `x, y, z`, or a tensor of the wrong shape. -/
theorem demag_refusals (pi : Rat) (T : NDA (List Rat)) (f : Fld) :
    (∀ (m : Mesh) (fb : Bool), m.ndim ≠ 3 → ∃ e, demagTensor fb pi m = .error e) ∧
    ((f.mesh.ndim ≠ 3 ∨ f.nvdim ≠ 3 ∨ f.mesh.region.dims ≠ ["x", "y", "z"] ∨
      T.shape ≠ [2 * f.mesh.nAt 0 - 1, 2 * f.mesh.nAt 1 - 1, 2 * f.mesh.nAt 2 - 1]) →
      ∃ e, demagField T f = .error e) := by
  constructor
  · intro m fb hm
    unfold demagTensor
    rw [if_pos hm]
    exact ⟨_, rfl⟩
  · intro hc
    unfold demagField
    split
    · exact ⟨_, rfl⟩
    · split
      · exact ⟨_, rfl⟩
      · split
        · exact ⟨_, rfl⟩
        · split
          · exact ⟨_, rfl⟩
          · rename_i a b c d
            rcases hc with hc | hc | hc | hc
            · exact absurd hc a
            · exact absurd hc b
            · exact absurd hc c
            · exact absurd hc d

/-! ## Accepted ⇔ well-formed, tool by tool -/

/-- `topological_charge_density` and `topological_charge` (absolute or not) accept a field IF AND ONLY IF it has
three components, lives on a 2-d mesh and the method is one of the two known ones — nothing else about the field
(mask, boundary conditions, zero vectors, labels) can make either method refuse; both methods refuse exactly the
same fields. -/
theorem tcd_ok_iff (sq : Rat → Rat) (pi : Rat) (Om : Tri → Rat) (f : Fld) (m : Method) (a : Bool) :
    ((∃ q, tcd sq pi Om f m = .ok q) ↔ (f.nvdim = 3 ∧ f.mesh.ndim = 2 ∧ m ≠ .other)) ∧
    ((∃ c, charge sq pi Om f m a = .ok c) ↔ (f.nvdim = 3 ∧ f.mesh.ndim = 2 ∧ m ≠ .other)) ∧
    ((∃ q, tcd sq pi Om f .continuous = .ok q) ↔ (∃ q, tcd sq pi Om f .bergLuescher = .ok q)) := by
  refine ⟨tcd_ok_iff' sq pi Om f m, charge_ok_iff' sq pi Om f m a, ?_⟩
  rw [tcd_ok_iff', tcd_ok_iff']
  simp

/-- `emergent_magnetic_field` accepts exactly the three-component fields on 3-d meshes; `count_bps` exactly those
of them whose named direction exists and has at least two cells (the cumulative integral along a single cell is
refused by `Field.integrate(cumulative=True)`'s result being a single number). -/
theorem emergent_count_ok_iff (sq : Rat → Rat) (pi : Rat) (f : Fld) (dir : String) :
    ((∃ e, emergent f = .ok e) ↔ (f.nvdim = 3 ∧ f.mesh.ndim = 3)) ∧
    ((∃ r, countBps sq pi f dir = .ok r) ↔
      (f.mesh.ndim = 3 ∧ f.nvdim = 3 ∧ ∃ ax, indexOf? f.mesh.region.dims dir = some ax ∧ 2 ≤ f.mesh.nAt ax)) :=
  ⟨emergent_ok_iff' f, countBps_ok_iff' sq pi f dir⟩

/-- `neighbouring_cell_angle` on a well-formed mesh (any number of dimensions) accepts exactly: three components,
units `rad` or `deg`, an existing direction with at least two cells. -/
theorem angle_ok_iff (sq acos deg : Rat → Rat) (f : Fld) (dir units : String) (hm : f.mesh.Inv) :
    (∃ g, neighbourAngle sq acos deg f dir units = .ok g) ↔
      (f.nvdim = 3 ∧ (units = "rad" ∨ units = "deg") ∧
        ∃ ax, indexOf? f.mesh.region.dims dir = some ax ∧ 2 ≤ f.mesh.nAt ax) :=
  angle_ok_iff' sq acos deg f dir units hm

/-- both tensor builders accept a well-formed mesh iff it is 3-d; `demag_field` accepts iff the magnetisation has
three components on a 3-d mesh with axes `x, y, z` and the tensor has the shape of the `2n−1` grid. -/
theorem demag_ok_iff (pi : Rat) (T : NDA (List Rat)) (f : Fld) (m : Mesh) (hm : m.Inv) (fb : Bool) :
    ((∃ r, demagTensor fb pi m = .ok r) ↔ m.ndim = 3) ∧
    ((∃ g, demagField T f = .ok g) ↔
      (f.mesh.ndim = 3 ∧ f.nvdim = 3 ∧ f.mesh.region.dims = ["x", "y", "z"] ∧
        T.shape = [2 * f.mesh.nAt 0 - 1, 2 * f.mesh.nAt 1 - 1, 2 * f.mesh.nAt 2 - 1])) :=
  ⟨demagTensor_ok_iff' fb pi m hm, demagField_ok_iff' T f⟩

/-! ## Reversal without hypotheses on intermediate results -/

/-- REVERSAL, TOTAL FORM: for every field (accepted or not), method and leaf that is odd in the triple product,
`topological_charge` of the reversed field is the negated charge — or the same refusal — and the absolute charge is
literally the same result. -/
theorem charge_reversal_total (sq : Rat → Rat) (pi : Rat) (Om : Tri → Rat)
    (hOm : ∀ tr, tr.t ≠ 0 → Om (flipT tr) = -Om tr) (f : Fld) (m : Method) :
    charge sq pi Om (negF f) m false = (charge sq pi Om f m false).map (fun c => -c) ∧
    charge sq pi Om (negF f) m true = charge sq pi Om f m true := by
  by_cases hacc : f.nvdim = 3 ∧ f.mesh.ndim = 2 ∧ m ≠ .other
  · obtain ⟨c, hc⟩ := (charge_ok_iff' sq pi Om f m false).mpr hacc
    obtain ⟨ca, hca⟩ := (charge_ok_iff' sq pi Om f m true).mpr hacc
    obtain ⟨r1, r2⟩ := charge_reversal sq pi Om hOm f m c ca hc hca
    rw [r1, r2, hc, hca]
    exact ⟨rfl, rfl⟩
  · have e : ∀ a, (∃ e, charge sq pi Om f m a = .error e ∧ charge sq pi Om (negF f) m a = .error e) := by
      intro a
      unfold charge
      have hn : (negF f).nvdim = f.nvdim := rfl
      have hd : (negF f).mesh = f.mesh := rfl
      rw [hn, hd]
      by_cases h3 : f.nvdim ≠ 3
      · rw [if_pos h3, if_pos h3]; exact ⟨_, rfl, rfl⟩
      · rw [if_neg h3, if_neg h3]
        by_cases h2 : f.mesh.ndim ≠ 2
        · rw [if_pos h2, if_pos h2]; exact ⟨_, rfl, rfl⟩
        · rw [if_neg h2, if_neg h2]
          have hm : m = .other := by
            by_contra hm
            exact hacc ⟨not_not.mp h3, not_not.mp h2, hm⟩
          subst hm
          exact ⟨_, rfl, rfl⟩
    obtain ⟨e1, a1, b1⟩ := e false
    obtain ⟨e2, a2, b2⟩ := e true
    rw [a1, b1, a2, b2]
    exact ⟨rfl, rfl⟩

/-! ## The cuboid sum rule with the real tensor -/

/-- THE SUM RULE WITH THE REAL NEWELL TENSOR (no hypothesis on a leaf).  `demagUniformR pi m M a q` is component `a`
at cell `q` of the linear convolution — what `demag_field` computes, `demag_field_fft_is_convolution` — of the
model's tensor of `demag_tensor(mesh)`, evaluated with the real `arcsinh`, `arctan`, `sqrt`, with the uniform
magnetisation `M e_a`.  At EVERY cell of EVERY well-formed 3-d mesh (all aspect ratios, all cell edges) the three
components along the respective magnetisation add up to `−M·π/pi` (`pi` the rational the code uses for `np.pi`:
`−M` up to its rounding); hence so do the three mean demagnetising field components. -/
theorem cuboid_sum_rule_real (pi : Rat) (hpi : pi ≠ 0) (m : Mesh) (hm : m.Inv) (h3 : m.ndim = 3) (M : ℝ) (q0 q1 q2 : Nat)
    (h0 : q0 < m.nAt 0) (h1 : q1 < m.nAt 1) (h2 : q2 < m.nAt 2) :
    demagUniformR pi m M 0 q0 q1 q2 + demagUniformR pi m M 1 q0 q1 q2 + demagUniformR pi m M 2 q0 q1 q2
      = -M * (Real.pi / (pi : ℝ)) :=
  cuboid_sum_real pi hpi m hm h3 M q0 q1 q2 h0 h1 h2

/-- −M/3 EACH FOR A CUBE, WITH THE REAL TENSOR: for a well-formed mesh with equal counts `n` and equal cell edges the
real tensor has the cyclic symmetry `N_yy(j₀,j₁,j₂) = N_xx(j₁,j₂,j₀)`, `N_zz(j₀,j₁,j₂) = N_xx(j₂,j₀,j₁)`, and each of the
three demagnetising field components along the magnetisation, summed over all `n³` cells, is `−M·(π/pi)·n³/3`:
mean `−M/3` each (up to the rounding of `np.pi`). -/
theorem cube_third_rule_real (pi : Rat) (hpi : pi ≠ 0) (m : Mesh) (hm : m.Inv) (h3 : m.ndim = 3) (M : ℝ) (n : Nat)
    (hn0 : m.nAt 0 = n) (hn1 : m.nAt 1 = n) (hn2 : m.nAt 2 = n)
    (hc1 : m.cellAt 1 = m.cellAt 0) (hc2 : m.cellAt 2 = m.cellAt 0) (a : Nat) (ha : a < 3) :
    ∑ q0 ∈ Finset.range n, ∑ q1 ∈ Finset.range n, ∑ q2 ∈ Finset.range n, demagUniformR pi m M a q0 q1 q2
      = -M * (Real.pi / (pi : ℝ)) * (n : ℝ) ^ 3 / 3 :=
  cube_third_real pi hpi m hm h3 M n hn0 hn1 hn2 hc1 hc2 a ha

/-- the real-space trace of the real tensor, cell by cell of the displacement grid (real-valued form of `demag_trace_grid`) -/
theorem demag_trace_grid_real (pi : Rat) (hpi : pi ≠ 0) (m : Mesh) (hm : m.Inv) (h3 : m.ndim = 3) (i0 i1 i2 : Nat)
    (b0 : i0 < 2 * m.nAt 0 - 1) (b1 : i1 < 2 * m.nAt 1 - 1) (b2 : i2 < 2 * m.nAt 2 - 1) :
    tensorR pi m [i0, i1, i2] 0 + tensorR pi m [i0, i1, i2] 1 + tensorR pi m [i0, i1, i2] 2
      = if i0 = m.nAt 0 - 1 ∧ i1 = m.nAt 1 - 1 ∧ i2 = m.nAt 2 - 1 then -(Real.pi / (pi : ℝ)) else 0 :=
  tensorR_trace pi hpi m hm h3 i0 i1 i2 b0 b1 b2

/-! ## 2-d slices of 3-d fields -/

/-- "THE FIELD MUST BE SLICED USING `Field.sel`".  A three-component field on a 3-d mesh (constructor state, no
subregions) is refused by both density methods; every plane selection `field.sel(dim = x)` with `x` on the closed
edge is accepted by `Field.sel` (C07's model) and then by both methods; the density lives on the mesh with the
axis removed, with the validity of the slice, and the slice holds in cell `j` the vector and the validity of the
source cell `insertAt j a k`, `k = indexAx a x` the layer containing `x` — so the density of the slice is the
density of that layer of the 3-d field. -/
theorem tcd_plane_selection (sq : Rat → Rat) (pi : Rat) (Om : Tri → Rat) (f : Fld) (hf : C07.FldWF f) (hmi : C07.MetaInv f)
    (hs : f.mesh.subs = []) (h3d : f.mesh.ndim = 3) (hnv : f.nvdim = 3) (dim : String) (a : Nat)
    (hd : f.mesh.region.dim2index dim = .ok a) (x : Rat) (h1 : f.mesh.region.lo a ≤ x) (h2 : x ≤ f.mesh.region.hi a)
    (m : Method) (hm : m ≠ .other) :
    (∃ e, tcd sq pi Om f m = .error e) ∧
    ∃ g q, C07.selFld f dim (.point x) = .ok (.field g) ∧ tcd sq pi Om g m = .ok q ∧
      q.mesh = C07.planeOf f.mesh a ∧ q.mesh.ndim = 2 ∧ q.valid = g.valid ∧
      ∀ j, inRange g.mesh.n j = true →
        cellV g j = cellV f (C07.insertAt j a (f.mesh.indexAx a x)) ∧
        g.valid.get j = f.valid.get (C07.insertAt j a (f.mesh.indexAx a x)) :=
  tcd_of_plane_selection sq pi Om f hf hmi hs h3d hnv dim a hd x h1 h2 m hm

/-- the hypotheses on the 3-d field `f3` (2 × 1 × 2 cells): the plane `z = 3/4` -/
example : C07.FldWF f3 ∧ C07.MetaInv f3 ∧ f3.mesh.subs = [] ∧ f3.mesh.ndim = 3 ∧ f3.nvdim = 3 ∧
    f3.mesh.region.dim2index "z" = .ok 2 ∧ f3.mesh.region.lo 2 ≤ (3 : Rat) / 4 ∧ (3 : Rat) / 4 ≤ f3.mesh.region.hi 2 :=
  ⟨⟨mesh_inv_of_invB _ (by decide +kernel), rfl, rfl⟩, by unfold C07.MetaInv; rfl, rfl, rfl, rfl, by decide +kernel,
    by decide +kernel, by decide +kernel⟩

/-! ## Emergent field and Bloch-point count under rescaling of the mesh and of the vectors -/

/-- `emergent_magnetic_field` under translation and scaling of the mesh by `λ`: accepted alike, the result lives on
the translated and scaled mesh with the same validity and holds `F/λ²` (two derivatives); and multiplying every
vector by `s` multiplies it by `s³` (the tool does not normalise) — every mask, periodic or open directions. -/
theorem emergent_scaling (lam s : Rat) (t : List Rat) (f e : Fld) (h : emergent f = .ok e) :
    (∃ e', emergent (affF lam t f) = .ok e' ∧ e'.mesh = affMesh lam t e.mesh ∧ e'.valid = e.valid ∧
      e'.data.shape = e.data.shape ∧ e'.nvdim = 3 ∧
      ∀ i c, c < 3 → (e'.data.get i).getD c 0 = (e.data.get i).getD c 0 / (lam * lam)) ∧
    (∃ e', emergent (scaleF (fun _ => s) f) = .ok e' ∧ e'.mesh = e.mesh ∧ e'.valid = e.valid ∧
      e'.data.shape = e.data.shape ∧
      ∀ i c, c < 3 → (e'.data.get i).getD c 0 = s * s * s * (e.data.get i).getD c 0) :=
  ⟨emergent_affF lam t f e h, emergent_scale s f e h⟩

/-- `count_bps` IS UNCHANGED BY TRANSLATING AND RESCALING THE MESH by any `λ ≠ 0`: the emergent field of the
orientation field scales by `1/λ²`, its divergence by `1/λ³`, the two plane integrals by `λ²`, the cumulative
integral by `λ` — the cumulative flux, the local numbers, both counts and the pattern are literally the same, and
so is a refusal.  Every direction, every mask, anisotropic cells. -/
theorem count_bps_mesh_invariant (sq : Rat → Rat) (pi : Rat) (lam : Rat) (hl : lam ≠ 0) (t : List Rat) (f : Fld) (dir : String)
    (hdl : f.mesh.region.dims.length = f.mesh.ndim) :
    countBps sq pi (affF lam t f) dir = countBps sq pi f dir :=
  countBps_affF sq pi lam hl t f dir hdl

/-- `count_bps` IS UNCHANGED BY RESCALING THE VECTOR LENGTHS cell by cell (hypotheses as in `orientation_scale`):
it only looks at the orientation field. -/
theorem count_bps_scale_invariant (sq : Rat → Rat) (pi : Rat) (s : List Nat → Rat) (f : Fld) (dir : String)
    (hs : ∀ i, s i ≠ 0)
    (hsq : ∀ i, sq (s i * s i * (cellV f i).normSq) = s i * sq (cellV f i).normSq)
    (hz : ∀ i, isZeroNorm (s i * sq (cellV f i).normSq) = isZeroNorm (sq (cellV f i).normSq)) :
    countBps sq pi (scaleF s f) dir = countBps sq pi f dir :=
  countBps_scaleF sq pi s f dir fun i => orient_smul sq (s i) _ (hs i) (hsq i) (hz i)

/-- the hypotheses on the concrete 3-d field `f3` (2 × 1 × 2 cells, edges 1, 2, 1/2): well-formed names, accepted along `x` -/
example : f3.mesh.region.dims.length = f3.mesh.ndim ∧ (2 : Rat) ≠ 0 ∧
    (match countBps ratSqrt 3 (affF 2 [1, 0, -1] f3) "x" with | .ok _ => true | .error _ => false) = true :=
  ⟨rfl, by norm_num, by decide +kernel⟩

/-! ## Arithmetic of the Bloch-point count -/

/-- `bp_number_hh + bp_number_tt = bp_number`; `bp_number_tt − bp_number_hh` is the local Bloch-point number
(rounded cumulative flux) at the last cell minus the one at the first — the differences telescope; both counts
are non-negative, there is one local number per cell along the direction, and the run-length pattern
`bp_pattern` decodes to exactly that list.  Any cumulative flux, any `pi`. -/
theorem count_bps_arithmetic (fint : List Rat) (pi : Rat) :
    (bpOf fint pi).hh + (bpOf fint pi).tt = (bpOf fint pi).total ∧
    (bpOf fint pi).tt - (bpOf fint pi).hh
      = (bpOf fint pi).number.getD ((bpOf fint pi).number.length - 1) 0 - (bpOf fint pi).number.getD 0 0 ∧
    0 ≤ (bpOf fint pi).hh ∧ 0 ≤ (bpOf fint pi).tt ∧ (bpOf fint pi).number.length = fint.length ∧
    (bpOf fint pi).pattern.flatMap (fun p => List.replicate p.2 p.1) = (bpOf fint pi).number :=
  ⟨(bpOf_arith fint pi).1, (bpOf_arith fint pi).2.1, (bpOf_arith fint pi).2.2.1, (bpOf_arith fint pi).2.2.2.1,
    (bpOf_arith fint pi).2.2.2.2, rle_decode _⟩

/-- a flux with one step up and one step down: one tail-to-tail and one head-to-head Bloch point, pattern `0,1,1,0` -/
example : (bpOf [0, 4, 4, 0] 1).tt = 1 ∧ (bpOf [0, 4, 4, 0] 1).hh = 1 ∧ (bpOf [0, 4, 4, 0] 1).total = 2 ∧
    (bpOf [0, 4, 4, 0] 1).pattern = [(0, 1), (1, 2), (0, 1)] := by decide +kernel

/-! ## Symmetry and parities of the demagnetisation tensor -/

/-- `N_ab = N_ba`: the tensor is stored by its six components `xx, yy, zz, xy, xz, yz`, and `demag_field` reads
component `(a, b)` and `(b, a)` from the same slot (`tensor.ft_xy * m_fft.ft_x` in `hy`, `tensor.ft_xy * m_fft.ft_y` in `hx`). -/
theorem demag_tensor_symmetric (a b : Nat) (ha : a < 3) (hb : b < 3) : symIdx a b = symIdx b a ∧ symIdx a b < 6 := by
  have h1 : a = 0 ∨ a = 1 ∨ a = 2 := by omega
  have h2 : b = 0 ∨ b = 1 ∨ b = 2 := by omega
  rcases h1 with rfl | rfl | rfl <;> rcases h2 with rfl | rfl | rfl <;> decide

/-- PARITIES OF THE NEWELL TENSOR: `N_ab(…, −r_e, …) = (−1)^{δ_ae + δ_be} N_ab(…, r_e, …)`.  For every displacement,
all cell edges and every evaluation of the leaves in which `arcsinh` and `arctan` are odd (`OddLeaves`), reflecting
coordinate `e` multiplies component `c` of `_N` (symbolic Newell functions, 64-point stencil, normalisation) by
`paritySign e c`: `+1` for the diagonal components, `−1` for an off-diagonal component that carries the index `e`,
`+1` for the one that does not. -/
theorem demag_tensor_parity {K : Type} [Field K] [CharZero K] (lv : Leaf → K) (h : OddLeaves lv)
    (pi c0 c1 c2 x y z : Rat) (e c : Nat) (he : e < 3) (hc : c < 6) :
    evalK lv ((nAll pi c0 c1 c2 (reflectAt e x y z).1 (reflectAt e x y z).2.1 (reflectAt e x y z).2.2).getD c [])
      = ((paritySign e c : Int) : K) * evalK lv ((nAll pi c0 c1 c2 x y z).getD c []) :=
  nAll_parity lv h pi c0 c1 c2 x y z e c he hc

/-- … ON THE GRID OF `demag_tensor(mesh)`, WITH THE REAL LEAVES: reflecting index `e` of a cell of the `2n−1`
displacement grid about the central cell (`j_e ↦ 2n_e − 2 − j_e`) multiplies component `c` of the tensor, evaluated
with the real `arcsinh`, `arctan`, `sqrt`, by `paritySign e c` — every well-formed 3-d mesh, every cell. -/
theorem demag_tensor_grid_parity (pi : Rat) (m : Mesh) (hm : m.Inv) (h3 : m.ndim = 3)
    (j0 j1 j2 : Nat) (h0 : j0 < 2 * m.nAt 0 - 1) (h1 : j1 < 2 * m.nAt 1 - 1) (h2 : j2 < 2 * m.nAt 2 - 1)
    (e c : Nat) (he : e < 3) (hc : c < 6) :
    evalK lvR ((tensorArr pi m (reflectIdx m e [j0, j1, j2])).getD c [])
      = ((paritySign e c : Int) : ℝ) * evalK lvR ((tensorArr pi m [j0, j1, j2]).getD c []) :=
  tensorArr_parity lvR lvR_odd pi m hm h3 j0 j1 j2 h0 h1 h2 e c he hc

/-- … and with any odd rational leaf functions (the model's `evalTerms`) -/
theorem demag_tensor_grid_parity_rat (asinh atan sqrt : Rat → Rat) (ho1 : ∀ x, asinh (-x) = -asinh x)
    (ho2 : ∀ x, atan (-x) = -atan x) (pi : Rat) (m : Mesh) (hm : m.Inv) (h3 : m.ndim = 3)
    (j0 j1 j2 : Nat) (h0 : j0 < 2 * m.nAt 0 - 1) (h1 : j1 < 2 * m.nAt 1 - 1) (h2 : j2 < 2 * m.nAt 2 - 1)
    (e c : Nat) (he : e < 3) (hc : c < 6) :
    evalTerms asinh atan sqrt ((tensorArr pi m (reflectIdx m e [j0, j1, j2])).getD c [])
      = (paritySign e c : Rat) * evalTerms asinh atan sqrt ((tensorArr pi m [j0, j1, j2]).getD c []) := by
  have := tensorArr_parity (K := Rat) (evalLeaf asinh atan sqrt) (evalLeaf_odd asinh atan sqrt ho1 ho2) pi m hm h3
    j0 j1 j2 h0 h1 h2 e c he hc
  rw [evalK_rat, evalK_rat] at this
  exact this

/-- odd rational leaf functions exist (the identity), and the signs: `N_xy` is odd in `x`, even in `z` -/
example : (∀ x : Rat, id (-x) = -id x) ∧ paritySign 0 3 = -1 ∧ paritySign 2 3 = 1 ∧ paritySign 1 0 = 1 ∧
    reflectIdx m3 0 [0, 0, 1] = [2, 0, 1] := ⟨fun _ => rfl, rfl, rfl, rfl, by decide⟩

/-! ## Quarter turn of a sample with periodic boundary conditions -/

/-- THE PERIODIC DIRECTIONS TURN WITH THE MESH.  After `Mesh.rotate90(a1, a2, k)` with odd `k` in the plane of the two
axes of a 2-d mesh (either order) — `bc` rewritten by the exchange of the two single lower-case axis names
(repo fix be43fa9b) and lower-cased by the constructor — axis 0 of the result is periodic for `Field.diff` iff
axis 1 of the original is, and vice versa, provided the `bc` is what the `bc` setter guarantees (lower case,
accepted) and the plane can turn: both names single lower-case characters, or both axes periodic alike
(`C05.BcTurns`; otherwise the library leaves `bc` with the name, open finding D57). -/
theorem periodic_flags_turn (f g : Fld) (a1 a2 : String) (k : Int) (i1 i2 : Nat)
    (hd : f.mesh.region.dims.length = f.mesh.ndim) (hdup : hasDup f.mesh.region.dims = false) (h2 : f.mesh.ndim = 2)
    (hbl : f.mesh.bc.toLower = f.mesh.bc) (hbok : Mesh.bcOk f.mesh.region.dims f.mesh.bc = true)
    (hi1 : f.mesh.region.dim2index a1 = .ok i1) (hi2 : f.mesh.region.dim2index a2 = .ok i2)
    (hord : (i1 = 0 ∧ i2 = 1) ∨ (i1 = 1 ∧ i2 = 0)) (hk : k % 2 = 1) (ht : C05.BcTurns f 0 1)
    (hdims : g.mesh.region.dims = f.mesh.region.dims) (hbc : g.mesh.bc = (T.rotBc f.mesh.bc a1 a2 k).toLower) :
    periodic g 0 = periodic f 1 ∧ periodic g 1 = periodic f 0 :=
  periodic_after_turn f g a1 a2 k i1 i2 hd hdup h2 hbl hbok hi1 hi2 hord hk ht hdims hbc

/-- EVERY QUARTER TURN OF THE SAMPLE, ANY BOUNDARY CONDITIONS.  `charge_rotate90` without the restriction to open
boundaries: `Field.rotate90` (C12's model `T.rotate90F`) by any odd `k` in the plane of the two axes — named in
either order — of a 2-d three-component field on a mesh with ANY `bc` the setter accepts (periodic along one or
both axes, `neumann`, `dirichlet`, open), whose plane can turn (`C05.BcTurns`), leaves the topological charge
unchanged: both methods (the continuous one differentiates across the periodic seam), absolute or not, every
validity mask, anisotropic cells, any reference point, copying or in-place form. -/
theorem charge_rotate90_periodic (sq : Rat → Rat) (pi : Rat) (Om : Tri → Rat) (f recv g : Fld) (a1 a2 : String) (k : Int)
    (ref : Option (List Rat)) (b : Bool)
    (hf : T.FldInv f) (h2 : f.mesh.ndim = 2) (h3 : f.nvdim = 3) (hlen : ∀ i, (f.data.get i).length = 3)
    (hbl : f.mesh.bc.toLower = f.mesh.bc) (hbok : Mesh.bcOk f.mesh.region.dims f.mesh.bc = true)
    (ht : C05.BcTurns f 0 1) (i1 i2 : Nat)
    (hi1 : f.mesh.region.dim2index a1 = .ok i1) (hi2 : f.mesh.region.dim2index a2 = .ok i2)
    (hord : (i1 = 0 ∧ i2 = 1) ∨ (i1 = 1 ∧ i2 = 0)) (hk : k % 2 = 1)
    (hvd : ∀ vs, f.vdims = some vs → vs.length = 3)
    (hc : (f.rDim a1).bind f.vdimIndex ≠ (f.rDim a2).bind f.vdimIndex)
    (h : T.rotate90F f a1 a2 k ref b = .ok (recv, g)) (m : Method) (a : Bool) :
    charge sq pi Om g m a = charge sq pi Om f m a := by
  obtain ⟨g3, g2, gs, hcase⟩ := rotate90F_quarter_bc f recv g a1 a2 k ref b hf h2 h3 hlen hbl hbok ht i1 i2 hi1 hi2 hord hk hvd hc h
  have hfs : f.data.shape = [f.mesh.nAt 0, f.mesh.nAt 1] := by rw [hf.2.1]; exact n_eq2 f.mesh hf.1 h2
  rcases hcase with ⟨Q, hQ, hT⟩ | ⟨Q, hQ, hT⟩
  · exact charge_turn sq pi Om Q hQ hT h3 g3 h2 g2 hfs gs m a
  · exact (charge_turn sq pi Om Q hQ hT g3 h3 g2 h2 gs hfs m a).symm

/-- the hypotheses of `charge_rotate90_periodic` on `fQp` (the field `fQ` on the mesh periodic along `x`):
the turn is accepted, and the result is periodic along its second axis -/
example : T.FldInv fQp ∧ fQp.mesh.ndim = 2 ∧ fQp.nvdim = 3 ∧ (∀ i, (fQp.data.get i).length = 3) ∧
    fQp.mesh.bc.toLower = fQp.mesh.bc ∧ Mesh.bcOk fQp.mesh.region.dims fQp.mesh.bc = true ∧ C05.BcTurns fQp 0 1 ∧
    periodic fQp 0 = true ∧ periodic fQp 1 = false ∧
    fQp.mesh.region.dim2index "x" = .ok 0 ∧ fQp.mesh.region.dim2index "y" = .ok 1 ∧
    (∀ vs, fQp.vdims = some vs → vs.length = 3) ∧
    (fQp.rDim "x").bind fQp.vdimIndex ≠ (fQp.rDim "y").bind fQp.vdimIndex ∧
    (match T.rotate90F fQp "x" "y" 1 none false with
      | .ok (_, g) => periodic g 0 == false && periodic g 1 == true | .error _ => false) = true := by
  refine ⟨⟨mesh_inv_of_invB _ (by decide +kernel), rfl, rfl⟩, rfl, rfl, fun _ => rfl, by decide +kernel, by decide +kernel,
    Or.inl ⟨by decide +kernel, by decide +kernel, by decide +kernel, by decide +kernel⟩, by decide +kernel, by decide +kernel,
    by decide +kernel, by decide +kernel, ?_, by decide +kernel, by decide +kernel⟩
  intro vs hvs
  simp only [fQp, fQ] at hvs
  injection hvs with hvs
  rw [← hvs]; rfl

/-! ## Berg–Lüscher integrality -/

/-- DISCRETE STOKES THEOREM on the lattice (any abelian group): the circulations `h(i,j) + v(i+1,j) − h(i,j+1) − v(i,j)`
of all squares of an `m × n` block add up to the circulation around the block — by induction over the rows
and over the squares of a row. -/
theorem lattice_stokes {G : Type} [AddCommGroup G] (h v : Nat → Nat → G) (m n : Nat) :
    ∑ j ∈ Finset.range n, ∑ i ∈ Finset.range m, plaq h v i j
      = ∑ i ∈ Finset.range m, h i 0 + ∑ j ∈ Finset.range n, v m j - ∑ i ∈ Finset.range m, h i n - ∑ j ∈ Finset.range n, v 0 j :=
  plaq_block h v m n

/-- THE LATTICE CHARGE IS THE MEAN OF THE TWO TRIANGULATIONS OF THE SHEET.  For a fully valid field whose
outermost cells all hold the same vector, twice the lattice charge `Σ_cells q·c₀c₁` (leaf valued in any field of
characteristic 0) is the plain sum of the four right triangles `(SW,SE,NW)`, `(SE,NE,SW)`, `(NE,NW,SE)`,
`(NW,SW,NE)` of every lattice square: the weights `1/(area·count)` of `topological_charge_density` are `1/2` per
triangle at inner cells, and at the rim every triangle contains the rim vector twice. -/
theorem bl_charge_two_triangulations {K : Type} [Field K] [CharZero K] (Om : Tri → K) (o : Fld) (r : V3)
    (hv : AllValid o) (hr : UniformRim o r) (hc0 : o.mesh.cellAt 0 ≠ 0) (hc1 : o.mesh.cellAt 1 ≠ 0) :
    2 * ∑ i ∈ Finset.range (o.mesh.nAt 0), ∑ j ∈ Finset.range (o.mesh.nAt 1),
        tcdBLAtK Om o i j * (((o.mesh.cellAt 0 * o.mesh.cellAt 1 : Rat)) : K)
      = ∑ i ∈ Finset.range (o.mesh.nAt 0 - 1), ∑ j ∈ Finset.range (o.mesh.nAt 1 - 1),
          (blAngleK Om (tNE o i j) + blAngleK Om (tNW o (i + 1) j) + blAngleK Om (tSW o (i + 1) (j + 1))
            + blAngleK Om (tSE o i (j + 1))) :=
  charge_as_squares Om o r hv hr hc0 hc1

/-- THE EXACT HYPOTHESIS ON THE SOLID-ANGLE FUNCTION under which the model's
`topological_charge(method="berg-luescher")` is "integral": the leaf `Ω` is, after a homomorphism `φ : ℚ → G`
into an abelian group (for the real formula `ℝ → ℝ/ℤ`), the COBOUNDARY `θ(a,b) + θ(b,c) + θ(c,a)` of an
antisymmetric link function `θ` on the four right triangles of every lattice square (`SquareCob`), and
`θ(r,r) = 0` for the rim vector.  Then on a fully valid sheet with uniform rim `φ(2Q) = 0`, and `φ(Q) = 0` when
the two triangulations of every square give the same angle. -/
theorem bl_charge_coboundary {G : Type} [AddCommGroup G] (φ : Rat →+ G) (sq : Rat → Rat) (pi : Rat) (Om : Tri → Rat)
    (θ : V3 → V3 → G) (f : Fld) (r : V3) (c : Rat) (hs : f.data.shape = [f.mesh.nAt 0, f.mesh.nAt 1])
    (hv : AllValid (orientation sq f)) (hr : UniformRim (orientation sq f) r)
    (hc0 : f.mesh.cellAt 0 ≠ 0) (hc1 : f.mesh.cellAt 1 ≠ 0)
    (hanti : ∀ x y, θ y x = -θ x y) (hrr : θ r r = 0)
    (hcob : ∀ i j, i + 1 < f.mesh.nAt 0 → j + 1 < f.mesh.nAt 1 → SquareCob φ Om θ (orientation sq f) i j)
    (h : charge sq pi Om f .bergLuescher false = .ok c) :
    φ (2 * c) = 0 ∧
    ((∀ i j, i + 1 < f.mesh.nAt 0 → j + 1 < f.mesh.nAt 1 →
      blAngle Om (tNE (orientation sq f) i j) + blAngle Om (tSW (orientation sq f) (i + 1) (j + 1))
        = blAngle Om (tNW (orientation sq f) (i + 1) j) + blAngle Om (tSE (orientation sq f) i (j + 1))) → φ c = 0) :=
  charge_bl_coboundary φ sq pi Om θ f r c hs hv hr hc0 hc1 hanti hrr hcob h

/-- the hypotheses of `bl_charge_coboundary` on the skyrmion-like field `fSk` (4 × 4 cells of size 1 × 2) with
the trivial leaf -/
example : fSk.data.shape = [fSk.mesh.nAt 0, fSk.mesh.nAt 1] ∧ AllValid (orientation ratSqrt fSk) ∧
    UniformRim (orientation ratSqrt fSk) ⟨0, 0, 1⟩ ∧ fSk.mesh.cellAt 0 ≠ 0 ∧ fSk.mesh.cellAt 1 ≠ 0 ∧
    (∀ i j, SquareCob (AddMonoidHom.id Rat) (fun _ => 0) (fun _ _ => (0 : Rat)) (orientation ratSqrt fSk) i j) ∧
    (match charge ratSqrt 3 (fun _ => 0) fSk .bergLuescher false with | .ok _ => true | .error _ => false) = true :=
  ⟨rfl, fSk_closed.valid, fSk_closed.rim, fSk_closed.c0, fSk_closed.c1,
    fun _ _ => by unfold SquareCob Cob blAngleK; simp, by decide +kernel⟩

/-- THE REAL SOLID ANGLE IS SUCH A COBOUNDARY.  For unit vectors `a, b, c`, no two antipodal, not in the
exceptional coplanar configuration (`GoodTri`): `2π·bergluescher_angle(a,b,c) ≡ θ(a,b) + θ(b,c) + θ(c,a) (mod 2π)`
with the link angle `θ(a,b) = arg⟨a|b⟩` of the spinor overlap, because
`⟨a|b⟩⟨b|c⟩⟨c|a⟩ = 2λ_aλ_bλ_c · (1 + a·b + b·c + c·a + i·a·(b×c))` with positive `λ`s; the link angle is
antisymmetric and vanishes on `(r, r)`. -/
theorem bl_angle_is_coboundary (a b c : V3) (h : GoodTri a b c) :
    Cob turns omegaR linkAngle a b c ∧ (∀ x y, linkAngle y x = -linkAngle x y) ∧ linkAngle a a = 0 ∧
    link a b * link b c * link c a = ((2 * lam a * lam b * lam c : ℝ) : ℂ) * nC (triOf a b c) ∧
    0 < lam a ∧ 0 < lam b ∧ 0 < lam c :=
  ⟨omegaR_cob a b c h, linkAngle_anti, linkAngle_self a h.1, link_triple a b c h.1 h.2.1 h.2.2.1,
    lam_pos a h.1, lam_pos b h.2.1, lam_pos c h.2.2.1⟩

/-- HALF-INTEGRALITY OF THE LATTICE CHARGE (real formula, no hypothesis on a leaf).  On a closed sheet — all
cells valid, the outermost cells all equal to a unit vector, every cell of the orientation field a unit vector,
no two neighbouring (edge or diagonal) vectors antipodal, no exceptional triangle — twice the Berg–Lüscher
charge `Σ_cells q·c₀c₁` is an integer: `Q = (deg_A + deg_B)/2`, the mean of the degrees of the two
triangulations.  All mesh sizes, all cell edges.  (That `2Q` can be odd is not an artefact of the proof: the real
code returns `±1/2` on the 4 × 4 mesh whose four inner cells hold the corners of a regular tetrahedron.) -/
theorem bl_charge_half_integer (sq : Rat → Rat) (f : Fld) (r : V3) (hs : ClosedSheet (orientation sq f) r) :
    ∃ k : ℤ, 2 * chargeBLReal sq f = k :=
  chargeBLReal_half_integer sq f r hs

/-- INTEGRALITY OF THE LATTICE CHARGE (real formula).  On a closed sheet that is smooth — every lattice
triangle covers less than a quarter of the sphere, `1 + a·b + b·c + c·a > 0` — the two triangulations of every
square agree and the Berg–Lüscher charge is an integer. -/
theorem bl_charge_integer (sq : Rat → Rat) (f : Fld) (r : V3) (hs : ClosedSheet (orientation sq f) r)
    (hsm : SmoothSheet (orientation sq f)) : ∃ k : ℤ, chargeBLReal sq f = k :=
  chargeBLReal_integer sq f r hs hsm

/-- the skyrmion-like field `fSk` (4 × 4 cells of size 1 × 2, rim `(0,0,5)`, inner cells `(±2,±2,−1)`, normalised
by `Field.orientation` with the model's square root) is a closed smooth sheet (the real code returns `−1.0`) -/
example : ClosedSheet (orientation ratSqrt fSk) ⟨0, 0, 1⟩ ∧ SmoothSheet (orientation ratSqrt fSk) :=
  ⟨fSk_closed, fSk_smooth⟩

end DFV.C19
