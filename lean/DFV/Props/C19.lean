import DFV.Lemmas.C19
/-! # C19 (under construction) -/
namespace DFV.C19
open DFV

theorem dot_comm (a b : V3) : V3.dot a b = V3.dot b a := by
  unfold V3.dot; ring

end DFV.C19
