import DFV.Model.C20
import DFV.Lemmas.RatFloor
namespace DFV.C20
open DFV

/-- placeholder while the harness is being brought up -/
theorem stub_tmp : (1 : Nat) = 1 := rfl

end DFV.C20
