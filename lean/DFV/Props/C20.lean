import DFV.Lemmas.C20Plot
/-!
# C20 — matplotlib plots draw the field's own numbers at their physical coordinates

Level: proof, partial.  The theorems are about the ARGUMENT ASSEMBLY model `DFV.C20`
(`Model/C20.lean`: what `field.mpl.scalar / vector / contour / lightness / field.mpl()` hand to
matplotlib) and hold for every 2-d mesh, every cell count, every field, mask, filter,
mapping and multiplier.  Rendering is matplotlib's; its placement contract is TRUSTED and
stated here as `PixelCovers` (imshow) and in the wording of `vector_at_centres` (quiver):

* `imshow(img, origin="lower", extent=(x0, x1, y0, y1))` with an `R×C` image: pixel
  `[r][c]` covers `x ∈ [x0 + c·(x1-x0)/C, x0 + (c+1)·(x1-x0)/C)` and
  `y ∈ [y0 + r·(y1-y0)/R, y0 + (r+1)·(y1-y0)/R)`, the last column / row closed at `x1` / `y1`;
* `quiver(X, Y, U, V, C)` draws arrow `(U[r][c], V[r][c])` with colour `C[r][c]` at `(X[c], Y[r])`;
* NaN pixels (`none`) and arrows with a NaN component are not drawn.

Property theorems only; helper lemmas, the per-axis contract `AxisCovers`, the label predicate
`EndsWithLabels` and the closed example fields `exS`, `exV`, `exOnes`, `exFine` (2×3 mesh on
`[0,4]×[0,6]`, cell (0,2) invalid) used by the non-vacuity `example`s live in
`DFV/Lemmas/C20{Si,Img,Plot}.lean`.
-/
namespace DFV.C20
open DFV

/-- matplotlib's imshow placement contract (trusted): pixel `[r][c]` of an `R×C` image with
`origin="lower"` and `extent = [x0, x1, y0, y1]` covers the point `(x, y)` -/
def PixelCovers (R C : Nat) (ext : List Rat) (r c : Nat) (x y : Rat) : Prop :=
  AxisCovers C (ext.getD 0 0) (ext.getD 1 0) c x ∧ AxisCovers R (ext.getD 2 0) (ext.getD 3 0) r y

/-! ## scalar plot: the value drawn at a physical point is the field value of its cell -/

/-- Generic positional statement behind scalar, contour and lightness images.  For a 2-d
mesh, a positive multiplier `m`, and any point `(x, y)` (in units of `m`) of the closed
region, let `(i, j)` be the cell `point2index` assigns to `(x·m, y·m)` (C01's `indexAx`).
Then, for the transposed masked image handed to matplotlib with the extent `region / m`:
the pixel `[j][i]` covers `(x, y)` under the imshow contract, it is the only pixel that
does, and it holds the value of cell `(i, j)` when that cell is kept by the filter and
NaN otherwise. -/
theorem image_at_position {α} (msh : Mesh) (hinv : msh.Inv) (h2 : msh.region.ndim = 2) (m : Rat)
    (hm : 0 < m) (keep : NDA Bool) (val : List Nat → α) (x y : Rat)
    (hx : msh.region.lo 0 ≤ x * m ∧ x * m ≤ msh.region.hi 0)
    (hy : msh.region.lo 1 ≤ y * m ∧ y * m ≤ msh.region.hi 1) :
    (imgOf msh.n keep val).shape = [msh.nAt 1, msh.nAt 0] ∧
    msh.indexAx 0 (x * m) < msh.nAt 0 ∧ msh.indexAx 1 (y * m) < msh.nAt 1 ∧
    PixelCovers (msh.nAt 1) (msh.nAt 0)
      [msh.region.lo 0 / m, msh.region.hi 0 / m, msh.region.lo 1 / m, msh.region.hi 1 / m]
      (msh.indexAx 1 (y * m)) (msh.indexAx 0 (x * m)) x y ∧
    (∀ r c, r < msh.nAt 1 → c < msh.nAt 0 →
      PixelCovers (msh.nAt 1) (msh.nAt 0)
        [msh.region.lo 0 / m, msh.region.hi 0 / m, msh.region.lo 1 / m, msh.region.hi 1 / m] r c x y →
      r = msh.indexAx 1 (y * m) ∧ c = msh.indexAx 0 (x * m)) ∧
    (imgOf msh.n keep val).get [msh.indexAx 1 (y * m), msh.indexAx 0 (x * m)] =
      if keep.get [msh.indexAx 0 (x * m), msh.indexAx 1 (y * m)]
      then some (val [msh.indexAx 0 (x * m), msh.indexAx 1 (y * m)]) else none := by
  obtain ⟨rinv, hnlen, hnpos⟩ := hinv
  obtain ⟨_, _, _, _, _, hlt⟩ := rinv
  have hnd : msh.ndim = 2 := h2
  have hlen : msh.region.pmin.length = 2 := h2
  have hn : msh.n.length = 2 := by rw [hnlen, h2]
  have c0 := axisCovers_index msh 0 m x (hnpos 0 (by omega)) (hlt 0 (by omega)) hm hx.1 hx.2
  have c1 := axisCovers_index msh 1 m y (hnpos 1 (by omega)) (hlt 1 (by omega)) hm hy.1 hy.2
  have d0 : msh.region.lo 0 / m < msh.region.hi 0 / m :=
    div_lt_div_of_pos_right (hlt 0 (by omega)) hm
  have d1 : msh.region.lo 1 / m < msh.region.hi 1 / m :=
    div_lt_div_of_pos_right (hlt 1 (by omega)) hm
  refine ⟨?_, c0.1, c1.1, ⟨c0.2, c1.2⟩, ?_, ?_⟩
  · rw [imgOf_shape]; rfl
  · intro r c hr hc hcov
    exact ⟨axisCovers_unique _ _ _ d1 r _ y hr c1.1 hcov.2 c1.2,
           axisCovers_unique _ _ _ d0 c _ x hc c0.1 hcov.1 c0.2⟩
  · rw [imgOf_get _ hn]

/-- **Central theorem (scalar plot).**  Whenever `field.mpl.scalar` succeeds on a well-formed
2-d mesh it makes exactly one `imshow` call followed by the axis labels; the image has
`origin="lower"`, shape `(n₁, n₀)`, extent `region / multiplier` (`multiplier > 0`), and for
EVERY physical point `(x, y)` of the region (in units of the multiplier) the unique pixel
covering it under the imshow contract shows the value of the cell that contains
`(x·multiplier, y·multiplier)` — if the filter in force keeps that cell — and NaN (nothing
drawn) otherwise. -/
theorem scalar_at_position (f : Fld) (o : Opts) (calls : List PlotCall) (hinv : f.mesh.Inv)
    (h : mplScalar f o = .ok calls) :
    ∃ m keep img lab, 0 < m ∧ setupMultiplier f o.mult = .ok m ∧
      filterKeep f (filterOf f o) = .ok keep ∧
      calls = [.imshow img "lower"
        [f.mesh.region.lo 0 / m, f.mesh.region.hi 0 / m, f.mesh.region.lo 1 / m, f.mesh.region.hi 1 / m],
        lab] ∧
      img.shape = [f.mesh.nAt 1, f.mesh.nAt 0] ∧
      ∀ x y, f.mesh.region.lo 0 ≤ x * m ∧ x * m ≤ f.mesh.region.hi 0 →
        f.mesh.region.lo 1 ≤ y * m ∧ y * m ≤ f.mesh.region.hi 1 →
        f.mesh.indexAx 0 (x * m) < f.mesh.nAt 0 ∧ f.mesh.indexAx 1 (y * m) < f.mesh.nAt 1 ∧
        PixelCovers (f.mesh.nAt 1) (f.mesh.nAt 0)
          [f.mesh.region.lo 0 / m, f.mesh.region.hi 0 / m, f.mesh.region.lo 1 / m, f.mesh.region.hi 1 / m]
          (f.mesh.indexAx 1 (y * m)) (f.mesh.indexAx 0 (x * m)) x y ∧
        (∀ r c, r < f.mesh.nAt 1 → c < f.mesh.nAt 0 →
          PixelCovers (f.mesh.nAt 1) (f.mesh.nAt 0)
            [f.mesh.region.lo 0 / m, f.mesh.region.hi 0 / m, f.mesh.region.lo 1 / m, f.mesh.region.hi 1 / m]
            r c x y →
          r = f.mesh.indexAx 1 (y * m) ∧ c = f.mesh.indexAx 0 (x * m)) ∧
        img.get [f.mesh.indexAx 1 (y * m), f.mesh.indexAx 0 (x * m)] =
          if keep.get [f.mesh.indexAx 0 (x * m), f.mesh.indexAx 1 (y * m)]
          then some ((f.data.get [f.mesh.indexAx 0 (x * m), f.mesh.indexAx 1 (y * m)]).getD 0 0)
          else none := by
  obtain ⟨h2, _, m, hm, hcore⟩ := mplScalar_ok_inv f o calls h
  obtain ⟨ext, keep, lab, he, hk, hl, hc⟩ := scalarCore_ok_inv f o m calls hcore
  have hpos := axisLabels_pos _ _ _ hl
  rw [extent_eq f.mesh.region hinv.1 h2 m hpos] at he
  injection he with he
  subst he
  refine ⟨m, keep, _, lab, hpos, hm, hk, hc, ?_, ?_⟩
  · rw [imgOf_shape]; rfl
  · intro x y hx hy
    obtain ⟨_, a, b, c, d, e⟩ := image_at_position f.mesh hinv h2 m hpos keep
      (fun i => (f.data.get i).getD 0 0) x y hx hy
    exact ⟨a, b, c, d, e⟩

/-- In-domain inputs are plotted: on a well-formed 2-d mesh, a field with one component,
a multiplier of the SI table and a usable filter always yield the `imshow` call. -/
theorem scalar_total (f : Fld) (o : Opts) (hinv : f.mesh.Inv) (h2 : f.mesh.region.ndim = 2)
    (hnv : f.nvdim ≤ 1) (m : Rat) (hm : setupMultiplier f o.mult = .ok m) (pre : String)
    (hp : rsiPrefix? m = some pre) (keep : NDA Bool) (hk : filterKeep f (filterOf f o) = .ok keep) :
    ∃ calls, mplScalar f o = .ok calls := by
  have hpos := rsiPrefix_pos m pre hp
  unfold mplScalar
  rw [if_neg (by simpa using h2), if_neg (by omega)]
  simp only [hm, scalarCore, extent_eq f.mesh.region hinv.1 h2 m hpos, hk, axisLabels, hp]
  exact ⟨_, rfl⟩

/-- Non-vacuity of `scalar_at_position` / `scalar_total`: the 2×3 example field on
`[0,4]×[0,6]` is plotted with the default multiplier 1 and the default filter. -/
example : ∃ calls, mplScalar exS {} = .ok calls := by
  obtain ⟨keep, hk, _⟩ := filterKeep_valid exS rfl
  exact scalar_total exS {} exMesh_inv rfl (by decide) 1 (by decide +kernel) "" (by decide +kernel) keep hk

/-! ## hidden cells -/

/-- Default filter: with no `filter_field`, pixel `[j][i]` shows the value of cell `(i, j)`
exactly when that cell is valid; invalid cells are NaN (not drawn). -/
theorem scalar_default_hides_invalid (f : Fld) (o : Opts) (calls : List PlotCall) (hinv : f.mesh.Inv)
    (hnone : o.filter = none) (h : mplScalar f o = .ok calls) :
    ∃ img ext lab, calls = [.imshow img "lower" ext, lab] ∧
      ∀ i j, img.get [j, i] =
        if f.valid.get [i, j] then some ((f.data.get [i, j]).getD 0 0) else none := by
  obtain ⟨h2, _, m, _, hcore⟩ := mplScalar_ok_inv f o calls h
  obtain ⟨ext, keep, lab, _, hk, _, hc⟩ := scalarCore_ok_inv f o m calls hcore
  have hn : f.mesh.n.length = 2 := by rw [hinv.2.1, h2]
  obtain ⟨keep', hk', hget⟩ := filterKeep_valid f h2
  have hfo : filterOf f o = validAsField f := by simp [filterOf, hnone]
  rw [hfo, hk'] at hk
  injection hk with hk
  subst hk
  refine ⟨_, ext, lab, hc, fun i j => ?_⟩
  rw [imgOf_get _ hn, hget]

/-- **Hidden cells, full strength.**  With an explicit filter on the same cell counts, pixel
`[j][i]` shows the value of cell `(i, j)` exactly when that cell is VALID and the filter
field is non-zero there; it is NaN (nothing drawn) when the cell is invalid or zero in the
filter field.  (`_filter_values` applies the validity mask whatever filter is given.) -/
theorem scalar_filter_hides_zero_and_invalid (f flt : Fld) (o : Opts) (calls : List PlotCall)
    (hinv : f.mesh.Inv) (hflt : o.filter = some flt) (hn : flt.mesh.n = f.mesh.n)
    (h : mplScalar f o = .ok calls) :
    ∃ img ext lab, calls = [.imshow img "lower" ext, lab] ∧
      ∀ i j, img.get [j, i] =
        if f.valid.get [i, j] = true ∧ (flt.data.get [i, j]).getD 0 0 ≠ 0
        then some ((f.data.get [i, j]).getD 0 0) else none := by
  obtain ⟨h2, _, m, _, hcore⟩ := mplScalar_ok_inv f o calls h
  obtain ⟨ext, keep, lab, _, hk, _, hc⟩ := scalarCore_ok_inv f o m calls hcore
  have hlen : f.mesh.n.length = 2 := by rw [hinv.2.1, h2]
  have hfo : filterOf f o = flt := by simp [filterOf, hflt]
  rw [hfo] at hk
  obtain ⟨h1, h2', a, ha, _, hget⟩ := filterKeep_ok_inv f flt keep hk
  rw [auxOnMesh_same f flt hn] at ha
  injection ha with ha
  subst ha
  refine ⟨_, ext, lab, hc, fun i j => ?_⟩
  rw [imgOf_get _ hlen, hget]
  by_cases hv : f.valid.get [i, j] = true
  · simp [hv]
  · have hv' : f.valid.get [i, j] = false := by simpa using hv
    simp [hv']

/-- **Invalid cells are never drawn**, whatever filter is in force (default, explicit, same or
another resolution): if the filter step succeeds, every invalid cell is dropped. -/
theorem invalid_never_kept (f flt : Fld) (keep : NDA Bool) (hk : filterKeep f flt = .ok keep)
    (i : List Nat) (hv : f.valid.get i = false) : keep.get i = false := by
  obtain ⟨_, _, a, _, _, hget⟩ := filterKeep_ok_inv f flt keep hk
  rw [hget i, hv]
  simp

/-- **Filter on another resolution.**  A `filter_field` whose cell counts differ from the
field's is resampled onto the field's cell counts over the FILTER's region: the value deciding
cell `i` is the value of the filter cell whose centre is nearest (per axis) to the centre of
cell `i` of that re-gridded region (C07's nearest-neighbour lookup); invalid cells are dropped
in any case. -/
theorem filter_other_resolution (f flt : Fld) (keep : NDA Bool) (hn : flt.mesh.n ≠ f.mesh.n)
    (hk : filterKeep f flt = .ok keep) :
    ∃ m : Mesh, m.region = flt.mesh.region ∧ m.n = f.mesh.n ∧
      ∀ i, keep.get i =
        (!decide ((flt.data.get (tab flt.mesh.ndim fun a =>
            C07.nearestAx flt.mesh a (C07.coord m a (i.getD a 0)))).getD 0 0 = 0) && f.valid.get i) := by
  obtain ⟨_, _, a, ha, _, hget⟩ := filterKeep_ok_inv f flt keep hk
  unfold auxOnMesh at ha
  rw [if_neg hn] at ha
  split at ha
  · cases ha
  · rename_i h hr
    injection ha with ha
    obtain ⟨m, hm, _, hd⟩ := resample_data flt _ h hr
    obtain ⟨hreg, hmn⟩ := mkN_ok_inv _ _ m hm
    have hid : List.map Int.toNat (List.map Int.ofNat f.mesh.n) = f.mesh.n := by
      rw [List.map_map]
      conv => rhs; rw [← List.map_id f.mesh.n]
      apply List.map_congr_left
      intro a _
      simp
    refine ⟨m, hreg, by rw [hmn, hid], fun i => ?_⟩
    rw [hget i, ← ha, hd]
    rfl

/-- Non-vacuity of `filter_other_resolution`: a 4 × 3 filter on the 2 × 3 example field. -/
example : okB (filterKeep exS exFine) = true ∧ exFine.mesh.n ≠ exS.mesh.n ∧
    okB (mplScalar exS { filter := some exFine }) = true := by
  decide +kernel

/-- Non-vacuity / regression for the former defect D91: with an explicit filter that is
non-zero everywhere the invalid cell `(0, 2)` of the example field is NOT drawn, its valid
neighbour `(0, 1)` shows its value 2. -/
example : ∃ calls img ext lab, mplScalar exS { filter := some exOnes } = .ok calls ∧
    calls = [.imshow img "lower" ext, lab] ∧
    exS.valid.get [0, 2] = false ∧ img.get [2, 0] = none ∧ img.get [1, 0] = some 2 := by
  obtain ⟨keep, hk, _⟩ := filterKeep_same exS exOnes rfl rfl rfl
  obtain ⟨calls, hc⟩ := scalar_total exS { filter := some exOnes } exMesh_inv rfl (by decide) 1
    (by decide +kernel) "" (by decide +kernel) keep hk
  obtain ⟨img, ext, lab, hcalls, hpix⟩ :=
    scalar_filter_hides_zero_and_invalid exS exOnes { filter := some exOnes } calls exMesh_inv rfl rfl hc
  refine ⟨calls, img, ext, lab, hc, hcalls, by decide +kernel, ?_, ?_⟩
  · rw [hpix 0 2]; decide +kernel
  · rw [hpix 0 1]; decide +kernel

/-! ## vector plot -/

/-- **Arrows sit at cell centres / multiplier.**  Whenever `field.mpl.vector` succeeds it makes
one `quiver` call followed by the labels; `X` has one entry per cell along axis 0, `Y` one per
cell along axis 1, entry `c` being the centre of cell `c`, `pmin + (c + ½)·cell`, divided by the
(positive) multiplier; `U`, `V` have shape `(n₁, n₀)`, so that under the quiver contract the
arrow `[r][c]` is drawn at the centre of cell `(c, r)`. -/
theorem vector_at_centres (f : Fld) (o : Opts) (calls : List PlotCall)
    (h : mplVector f o = .ok calls) :
    ∃ m X Y U V C lab, 0 < m ∧ setupMultiplier f o.mult = .ok m ∧
      calls = [.quiver X Y U V C, lab] ∧
      X.length = f.mesh.nAt 0 ∧ Y.length = f.mesh.nAt 1 ∧
      (∀ c, c < f.mesh.nAt 0 →
        X.getD c 0 = (f.mesh.region.lo 0 + ((c : Rat) + 1/2) * f.mesh.cellAt 0) / m) ∧
      (∀ r, r < f.mesh.nAt 1 →
        Y.getD r 0 = (f.mesh.region.lo 1 + ((r : Rat) + 1/2) * f.mesh.cellAt 1) / m) ∧
      U.shape = [f.mesh.nAt 1, f.mesh.nAt 0] ∧ V.shape = [f.mesh.nAt 1, f.mesh.nAt 0] := by
  obtain ⟨h2, _, m, hm, hcore⟩ := mplVector_ok_inv f o calls h
  obtain ⟨keep, vd, ax, ay, c, lab, _, _, _, _, _, _, hl, hc⟩ := vectorCore_ok_inv f o m calls hcore
  have hpos := axisLabels_pos _ _ _ hl
  have hnd : f.mesh.ndim = 2 := h2
  refine ⟨m, _, _, _, _, c, lab, hpos, hm, hc, pointsAx_length _ _ _ (by omega),
    pointsAx_length _ _ _ (by omega), ?_, ?_, arrowArr_shape _ _ _, arrowArr_shape _ _ _⟩
  · intro c hc'
    rw [pointsAx_getD _ _ _ _ (by omega) hc']
    simp [Mesh.centreAx]
  · intro r hr
    rw [pointsAx_getD _ _ _ _ (by omega) hr]
    simp [Mesh.centreAx]

/-- **Arrow components are chosen through the component-to-axis mapping.**  With no explicit
`vdims=`, the horizontal arrow component `U[r][c]` is the component of cell `(c, r)` whose label
the mapping sends to the first spatial dimension (`(label, dims[0]) ∈ vdim_mapping`, and that
label is the `k`-th entry of `field.vdims`), `V` likewise for the second dimension; a direction
nothing is mapped to gets zeros.  Invalid cells carry NaN in every mapped component. -/
theorem vector_components_through_mapping (f : Fld) (o : Opts) (calls : List PlotCall)
    (hinv : f.mesh.Inv) (hvd : o.vdimsArg = none) (h : mplVector f o = .ok calls) :
    ∃ X Y U V C lab, calls = [.quiver X Y U V C, lab] ∧
      ((∃ l k vs, (l, f.mesh.region.dims.getD 0 "") ∈ f.vmap ∧ f.vdims = some vs ∧ vs.getD k "" = l ∧
          ∀ r c, U.get [r, c] =
            if f.valid.get [c, r] then some ((f.data.get [c, r]).getD k 0) else none) ∨
        (∀ r c, U.get [r, c] = some 0)) ∧
      ((∃ l k vs, (l, f.mesh.region.dims.getD 1 "") ∈ f.vmap ∧ f.vdims = some vs ∧ vs.getD k "" = l ∧
          ∀ r c, V.get [r, c] =
            if f.valid.get [c, r] then some ((f.data.get [c, r]).getD k 0) else none) ∨
        (∀ r c, V.get [r, c] = some 0)) := by
  obtain ⟨h2, _, m, _, hcore⟩ := mplVector_ok_inv f o calls h
  obtain ⟨keep, vd, ax, ay, c, lab, hk, hvds, hax, hay, _, _, _, hc⟩ := vectorCore_ok_inv f o m calls hcore
  have hn : f.mesh.n.length = 2 := by rw [hinv.2.1, h2]
  obtain ⟨keep', hk', hget⟩ := filterKeep_valid f h2
  rw [hk'] at hk
  injection hk with hk
  subst hk
  have hvd' : vd = inplaneVdims f := by
    unfold vectorVdims at hvds
    rw [hvd] at hvds
    injection hvds with hvds
    exact hvds.symm
  subst hvd'
  have side : ∀ (a : Nat) (ai : Option Nat),
      arrowIdx f (rDimLast f (f.mesh.region.dims.getD a "")) = .ok ai →
      ((∃ l k vs, (l, f.mesh.region.dims.getD a "") ∈ f.vmap ∧ f.vdims = some vs ∧ vs.getD k "" = l ∧
          ∀ r c, (arrowArr f keep' ai).get [r, c] =
            if f.valid.get [c, r] then some ((f.data.get [c, r]).getD k 0) else none) ∨
        (∀ r c, (arrowArr f keep' ai).get [r, c] = some 0)) := by
    intro a ai hai
    cases ai with
    | none => right; intro r c; exact arrowArr_none_get f hn keep' r c
    | some k =>
      left
      obtain ⟨s, vs, hs, _, hvs, hks⟩ := arrowIdx_some_inv f _ k hai
      refine ⟨s, k, vs, rDimLast_mem f _ s hs, hvs, hks, fun r c => ?_⟩
      rw [arrowArr_some_get f hn, hget]
  refine ⟨_, _, _, _, c, lab, hc, side 0 ax (by simpa [inplaneVdims] using hax),
    side 1 ay (by simpa [inplaneVdims] using hay)⟩

/-- **Explicit labels.**  With `vdims=[lx, ly]` the arrow components are the components with
exactly these labels (zeros for `None`), NaN in invalid cells. -/
theorem vector_components_explicit (f : Fld) (o : Opts) (calls : List PlotCall) (hinv : f.mesh.Inv)
    (lx ly : Option String) (hvd : o.vdimsArg = some [lx, ly]) (h : mplVector f o = .ok calls) :
    ∃ X Y U V C lab, calls = [.quiver X Y U V C, lab] ∧
      ((∃ l k vs, lx = some l ∧ f.vdims = some vs ∧ vs.getD k "" = l ∧
          ∀ r c, U.get [r, c] =
            if f.valid.get [c, r] then some ((f.data.get [c, r]).getD k 0) else none) ∨
        ((lx = none ∨ lx = some "") ∧ ∀ r c, U.get [r, c] = some 0)) ∧
      ((∃ l k vs, ly = some l ∧ f.vdims = some vs ∧ vs.getD k "" = l ∧
          ∀ r c, V.get [r, c] =
            if f.valid.get [c, r] then some ((f.data.get [c, r]).getD k 0) else none) ∨
        ((ly = none ∨ ly = some "") ∧ ∀ r c, V.get [r, c] = some 0)) := by
  obtain ⟨h2, _, m, _, hcore⟩ := mplVector_ok_inv f o calls h
  obtain ⟨keep, vd, ax, ay, c, lab, hk, hvds, hax, hay, _, _, _, hc⟩ := vectorCore_ok_inv f o m calls hcore
  have hn : f.mesh.n.length = 2 := by rw [hinv.2.1, h2]
  obtain ⟨keep', hk', hget⟩ := filterKeep_valid f h2
  rw [hk'] at hk
  injection hk with hk
  subst hk
  have hvd' : vd = [lx, ly] := by
    unfold vectorVdims at hvds
    rw [hvd] at hvds
    simp at hvds
    exact hvds.symm
  subst hvd'
  have side : ∀ (l : Option String) (ai : Option Nat), arrowIdx f l = .ok ai →
      ((∃ s k vs, l = some s ∧ f.vdims = some vs ∧ vs.getD k "" = s ∧
          ∀ r c, (arrowArr f keep' ai).get [r, c] =
            if f.valid.get [c, r] then some ((f.data.get [c, r]).getD k 0) else none) ∨
        ((l = none ∨ l = some "") ∧ ∀ r c, (arrowArr f keep' ai).get [r, c] = some 0)) := by
    intro l ai hai
    cases ai with
    | none => right; exact ⟨arrowIdx_none_inv f l hai, fun r c => arrowArr_none_get f hn keep' r c⟩
    | some k =>
      left
      obtain ⟨s, vs, hs, _, hvs, hks⟩ := arrowIdx_some_inv f _ k hai
      refine ⟨s, k, vs, hs, hvs, hks, fun r c => ?_⟩
      rw [arrowArr_some_get f hn, hget]
  exact ⟨_, _, _, _, c, lab, hc, side lx ax (by simpa using hax), side ly ay (by simpa using hay)⟩

/-- **Colour = the third component.**  For a 3-component field with `use_color=True` and no
`color_field`, when exactly one label `l` is left over after removing the two arrow labels,
`C[r][c]` is the component labelled `l` of cell `(c, r)`. -/
theorem vector_colour_third (f : Fld) (o : Opts) (vd : List (Option String)) (l : String)
    (hinv : f.mesh.Inv) (h2 : f.mesh.region.ndim = 2) (huse : o.useColor = true)
    (haux : o.aux = none) (h3 : f.nvdim = 3) (hleft : leftover f vd = [l]) (C : Option (NDA Rat))
    (h : colourOf f o vd = .ok C) :
    ∃ arr k vs, C = some arr ∧ f.vdims = some vs ∧ vs.getD k "" = l ∧ some l ∉ vd ∧
      arr.shape = [f.mesh.nAt 1, f.mesh.nAt 0] ∧
      ∀ r c, arr.get [r, c] = (f.data.get [c, r]).getD k 0 := by
  have hn : f.mesh.n.length = 2 := by rw [hinv.2.1, h2]
  have hmem : l ∈ leftover f vd := by rw [hleft]; simp
  have hnot : some l ∉ vd := by
    unfold leftover at hmem
    have := (List.mem_filter.mp hmem).2
    simpa using this
  cases hk : f.vdimIndex l with
  | none =>
    rw [colourOf_third_err f o vd huse haux h3 _ (thirdComp_single_none f vd l o.pick hleft hk)] at h
    cases h
  | some k =>
    rw [colourOf_third f o vd huse haux h3 k (thirdComp_single f vd l o.pick k hleft hk)] at h
    injection h with h
    obtain ⟨vs, hvs, hks⟩ := vdimIndex_spec f l k hk
    refine ⟨_, k, vs, h.symm, hvs, hks, hnot, by rw [colourArr_shape]; rfl, fun r c => ?_⟩
    rw [colourArr_get _ hn]
    simp

/-- **Colour = the colour field.**  With a scalar `color_field` on the same cell counts,
`C[r][c]` is the colour field's value in cell `(c, r)`. -/
theorem vector_colour_field (f g : Fld) (o : Opts) (vd : List (Option String)) (hinv : f.mesh.Inv)
    (h2 : f.mesh.region.ndim = 2) (huse : o.useColor = true) (haux : o.aux = some g)
    (hn : g.mesh.n = f.mesh.n) (C : Option (NDA Rat)) (h : colourOf f o vd = .ok C) :
    g.nvdim = 1 ∧ g.mesh.region.ndim = 2 ∧
    ∃ arr, C = some arr ∧ arr.shape = [f.mesh.nAt 1, f.mesh.nAt 0] ∧
      ∀ r c, arr.get [r, c] = (g.data.get [c, r]).getD 0 0 := by
  have hlen : f.mesh.n.length = 2 := by rw [hinv.2.1, h2]
  rw [colourOf_aux f g o vd huse haux] at h
  split at h
  · cases h
  · rename_i h1
    split at h
    · cases h
    · rename_i h2'
      rw [auxOnMesh_same f g hn] at h
      injection h with h
      refine ⟨not_not.mp h1, not_not.mp h2', _, h.symm, by rw [colourArr_shape]; rfl, fun r c => ?_⟩
      rw [colourArr_get _ hlen]

/-! ## contour plot -/

/-- **Contour grid.**  Whenever `field.mpl.contour` succeeds it makes one `contour(X, Y, Z)` call
followed by the labels: `X`, `Y` are the cell centres divided by the (positive) multiplier and
`Z[r][c]` is the value of cell `(c, r)` if the filter in force keeps it and NaN otherwise. -/
theorem contour_grid (f : Fld) (o : Opts) (calls : List PlotCall) (hinv : f.mesh.Inv)
    (h : mplContour f o = .ok calls) :
    ∃ m keep X Y Z lab, 0 < m ∧ setupMultiplier f o.mult = .ok m ∧
      filterKeep f (filterOf f o) = .ok keep ∧ calls = [.contour X Y Z, lab] ∧
      X.length = f.mesh.nAt 0 ∧ Y.length = f.mesh.nAt 1 ∧
      (∀ c, c < f.mesh.nAt 0 →
        X.getD c 0 = (f.mesh.region.lo 0 + ((c : Rat) + 1/2) * f.mesh.cellAt 0) / m) ∧
      (∀ r, r < f.mesh.nAt 1 →
        Y.getD r 0 = (f.mesh.region.lo 1 + ((r : Rat) + 1/2) * f.mesh.cellAt 1) / m) ∧
      Z.shape = [f.mesh.nAt 1, f.mesh.nAt 0] ∧
      ∀ r c, Z.get [r, c] = if keep.get [c, r] then some ((f.data.get [c, r]).getD 0 0) else none := by
  obtain ⟨h2, _, m, keep, lab, hm, hk, hl, hc⟩ := mplContour_ok_inv f o calls h
  have hpos := axisLabels_pos _ _ _ hl
  have hnd : f.mesh.ndim = 2 := h2
  have hn : f.mesh.n.length = 2 := by rw [hinv.2.1, h2]
  refine ⟨m, keep, _, _, _, lab, hpos, hm, hk, hc, pointsAx_length _ _ _ (by omega),
    pointsAx_length _ _ _ (by omega), ?_, ?_, by rw [imgOf_shape]; rfl, fun r c => imgOf_get _ hn _ _ r c⟩
  · intro c hc'
    rw [pointsAx_getD _ _ _ _ (by omega) hc']
    simp [Mesh.centreAx]
  · intro r hr
    rw [pointsAx_getD _ _ _ _ (by omega) hr]
    simp [Mesh.centreAx]

/-! ## lightness plot -/

/-- **Lightness pixels.**  The final stage every lightness plot goes through (`lightCore`): one
`imshow` call with `origin="lower"` and extent `region / multiplier`; pixel `[r][c]` is
transparent when the filter drops cell `(c, r)` and otherwise carries the hue token of that
cell and its lightness value normalised over the whole array; and the pixel that covers a
physical point under the imshow contract is the pixel of the cell containing the point. -/
theorem lightness_pixels (f : Fld) (o : Opts) (hue : List Nat → Hue) (dflt : NDA Rat) (flt : Fld)
    (calls : List PlotCall) (hinv : f.mesh.Inv) (h2 : f.mesh.region.ndim = 2)
    (h : lightCore f o hue dflt flt = .ok calls) :
    ∃ m l keep img lab, 0 < m ∧ setupMultiplier f o.mult = .ok m ∧ lightSrc f o.aux dflt = .ok l ∧
      filterKeep f flt = .ok keep ∧
      calls = [.imshowHL img "lower"
        [f.mesh.region.lo 0 / m, f.mesh.region.hi 0 / m, f.mesh.region.lo 1 / m, f.mesh.region.hi 1 / m],
        lab] ∧
      img.shape = [f.mesh.nAt 1, f.mesh.nAt 0] ∧
      (∀ r c, img.get [r, c] =
        if keep.get [c, r] then
          some (hue [c, r], normalise (ndaMin ⟨f.mesh.n, l.get⟩) (ndaMax ⟨f.mesh.n, l.get⟩)
                              (o.clim.getD (0, 1)) (l.get [c, r]))
        else none) ∧
      ∀ x y, f.mesh.region.lo 0 ≤ x * m ∧ x * m ≤ f.mesh.region.hi 0 →
        f.mesh.region.lo 1 ≤ y * m ∧ y * m ≤ f.mesh.region.hi 1 →
        PixelCovers (f.mesh.nAt 1) (f.mesh.nAt 0)
          [f.mesh.region.lo 0 / m, f.mesh.region.hi 0 / m, f.mesh.region.lo 1 / m, f.mesh.region.hi 1 / m]
          (f.mesh.indexAx 1 (y * m)) (f.mesh.indexAx 0 (x * m)) x y ∧
        (∀ r c, r < f.mesh.nAt 1 → c < f.mesh.nAt 0 →
          PixelCovers (f.mesh.nAt 1) (f.mesh.nAt 0)
            [f.mesh.region.lo 0 / m, f.mesh.region.hi 0 / m, f.mesh.region.lo 1 / m, f.mesh.region.hi 1 / m]
            r c x y →
          r = f.mesh.indexAx 1 (y * m) ∧ c = f.mesh.indexAx 0 (x * m)) := by
  obtain ⟨m, ext, l, keep, lab, hm, he, hl, hk, hlab, hc⟩ := lightCore_ok_inv f o hue dflt flt calls h
  have hpos := axisLabels_pos _ _ _ hlab
  have hn : f.mesh.n.length = 2 := by rw [hinv.2.1, h2]
  rw [extent_eq f.mesh.region hinv.1 h2 m hpos] at he
  injection he with he
  subst he
  refine ⟨m, l, keep, _, lab, hpos, hm, hl, hk, hc, by rw [imgOf_shape]; rfl,
    fun r c => imgOf_get _ hn _ _ r c, ?_⟩
  intro x y hx hy
  obtain ⟨_, _, _, c, d, _⟩ := image_at_position f.mesh hinv h2 m hpos keep (fun _ => ()) x y hx hy
  exact ⟨c, d⟩

/-- **Hue = in-plane angle through the mapping.**  For 2- and 3-component fields a successful
lightness plot is the final stage run with the hue token `angle(comp_y, comp_x)` of every cell,
where `comp_x` / `comp_y` are the components whose labels the mapping sends to the first /
second spatial dimension, and with the filter in force (`filter_field` or validity). -/
theorem lightness_hue_inplane (sqrtF : Rat → Rat) (f : Fld) (o : Opts) (calls : List PlotCall)
    (hnv : f.nvdim = 2 ∨ f.nvdim = 3) (h : mplLightness sqrtF f o = .ok calls) :
    ∃ cx cy lx ly vs o' dflt, (lx, f.mesh.region.dims.getD 0 "") ∈ f.vmap ∧
      (ly, f.mesh.region.dims.getD 1 "") ∈ f.vmap ∧ f.vdims = some vs ∧
      vs.getD cx "" = lx ∧ vs.getD cy "" = ly ∧ o'.mult = o.mult ∧ o'.clim = o.clim ∧
      lightCore f o'
        (fun i => .angle ((f.data.get i).getD cy 0) ((f.data.get i).getD cx 0)) dflt (filterOf f o)
        = .ok calls := by
  have fin : ∀ (xy : Nat × Nat) (o' : Opts) (dflt : NDA Rat), angleComps f = .ok xy →
      lightCore f o' (fun i => .angle ((f.data.get i).getD xy.2 0) ((f.data.get i).getD xy.1 0)) dflt
        (filterOf f o) = .ok calls →
      o'.mult = o.mult → o'.clim = o.clim →
      ∃ cx cy lx ly vs o' dflt, (lx, f.mesh.region.dims.getD 0 "") ∈ f.vmap ∧
        (ly, f.mesh.region.dims.getD 1 "") ∈ f.vmap ∧ f.vdims = some vs ∧
        vs.getD cx "" = lx ∧ vs.getD cy "" = ly ∧ o'.mult = o.mult ∧ o'.clim = o.clim ∧
        lightCore f o'
          (fun i => .angle ((f.data.get i).getD cy 0) ((f.data.get i).getD cx 0)) dflt (filterOf f o)
          = .ok calls := by
    intro xy o' dflt hxy hcore hmult hclim
    obtain ⟨cx, cy⟩ := xy
    obtain ⟨lx, ly, hx, hy, hix, hiy⟩ := angleComps_ok_inv f cx cy hxy
    obtain ⟨vs, hvs, hvx⟩ := vdimIndex_spec f lx cx hix
    obtain ⟨vs', hvs', hvy⟩ := vdimIndex_spec f ly cy hiy
    rw [hvs] at hvs'
    injection hvs' with hvs'
    subst hvs'
    exact ⟨cx, cy, lx, ly, vs, o', dflt, rDimLast_mem f _ lx hx, rDimLast_mem f _ ly hy, hvs, hvx, hvy,
      hmult, hclim, hcore⟩
  unfold mplLightness at h
  split at h
  · cases h
  · split at h
    · -- two components
      split at h
      · cases h
      · rename_i xy hxy
        exact fin xy _ _ hxy h rfl rfl
    · rename_i hn2
      split at h
      · -- three components
        split at h
        · split at h
          · cases h
          · rename_i xy hxy
            exact fin xy _ _ hxy h rfl rfl
        · split at h
          · cases h
          · split at h
            · cases h
            · split at h
              · cases h
              · rename_i xy hxy
                exact fin xy _ _ hxy h rfl rfl
      · rename_i hn3
        rcases hnv with h' | h'
        · exact absurd h' hn2
        · exact absurd h' hn3

/-- **Hue of a scalar field** is its own value (in radians), default lightness its absolute
value, and the filter in force is `filter_field` or the validity mask. -/
theorem lightness_scalar (sqrtF : Rat → Rat) (f : Fld) (o : Opts) (h2 : f.mesh.region.ndim = 2)
    (hnv : f.nvdim = 1) :
    mplLightness sqrtF f o =
      lightCore f o (fun i => .val ((f.data.get i).getD 0 0))
        ⟨f.mesh.n, fun i => absR ((f.data.get i).getD 0 0)⟩ (filterOf f o) := by
  unfold mplLightness
  simp [h2, hnv]

/-- `normalise_to_range` with the default range `(0, 1)`: the smallest entry maps to 0, the
largest to 1, everything in between stays in `[0, 1]`, order preserved. -/
theorem normalise_unit (lo hi v w : Rat) (hlt : lo < hi) (h1 : lo ≤ v) (h2 : v ≤ w) (h3 : w ≤ hi) :
    normalise lo hi (0, 1) lo = 0 ∧ normalise lo hi (0, 1) hi = 1 ∧
    0 ≤ normalise lo hi (0, 1) v ∧ normalise lo hi (0, 1) v ≤ normalise lo hi (0, 1) w ∧
    normalise lo hi (0, 1) w ≤ 1 := by
  have hd : 0 < hi - lo := by linarith
  have hne : hi - lo ≠ 0 := ne_of_gt hd
  unfold normalise
  simp only [hne, if_false]
  refine ⟨by simp, by field_simp; ring, ?_, ?_, ?_⟩
  · have : 0 ≤ (v - lo) / (hi - lo) := div_nonneg (by linarith) hd.le
    linarith
  · have : (v - lo) / (hi - lo) ≤ (w - lo) / (hi - lo) := div_le_div_of_nonneg_right (by linarith) hd.le
    linarith
  · have : (w - lo) / (hi - lo) ≤ 1 := by rw [div_le_one hd]; linarith
    linarith

/-! ## axis labels -/

/-- **Labels.**  Every successful plot of every kind ends by setting the axis labels to
`"<dim> (<prefix><unit>)"` per axis, where `<prefix>` is the SI prefix whose table entry is
the multiplier in force (`EndsWithLabels`, in `Lemmas/C20Plot.lean`); in particular a plot can
only succeed with a multiplier of the SI table. -/
theorem labels_eq (sqrtF : Rat → Rat) (f : Fld) (o : Opts) (calls : List PlotCall) :
    (mplScalar f o = .ok calls → ∃ m, setupMultiplier f o.mult = .ok m ∧ EndsWithLabels f.mesh.region m calls) ∧
    (mplContour f o = .ok calls → ∃ m, setupMultiplier f o.mult = .ok m ∧ EndsWithLabels f.mesh.region m calls) ∧
    (mplVector f o = .ok calls → ∃ m, setupMultiplier f o.mult = .ok m ∧ EndsWithLabels f.mesh.region m calls) ∧
    (mplDefault f o = .ok calls → ∃ m, setupMultiplier f o.mult = .ok m ∧ EndsWithLabels f.mesh.region m calls) ∧
    (f.nvdim = 1 → mplLightness sqrtF f o = .ok calls →
      ∃ m, setupMultiplier f o.mult = .ok m ∧ EndsWithLabels f.mesh.region m calls) := by
  refine ⟨?_, ?_, ?_, ?_, ?_⟩
  · intro h
    obtain ⟨_, _, m, hm, hcore⟩ := mplScalar_ok_inv f o calls h
    obtain ⟨ext, keep, lab, _, _, hl, hc⟩ := scalarCore_ok_inv f o m calls hcore
    exact ⟨m, hm, by rw [hc]; exact endsWithLabels_of _ m lab [_] hl⟩
  · intro h
    obtain ⟨_, _, m, keep, lab, hm, _, hl, hc⟩ := mplContour_ok_inv f o calls h
    exact ⟨m, hm, by rw [hc]; exact endsWithLabels_of _ m lab [_] hl⟩
  · intro h
    obtain ⟨_, _, m, hm, hcore⟩ := mplVector_ok_inv f o calls h
    obtain ⟨_, _, _, _, _, lab, _, _, _, _, _, _, hl, hc⟩ := vectorCore_ok_inv f o m calls hcore
    exact ⟨m, hm, by rw [hc]; exact endsWithLabels_of _ m lab [_] hl⟩
  · intro h
    obtain ⟨_, m, lab, hm, hl, hcases⟩ := mplDefault_ok_inv f o calls h
    refine ⟨m, hm, ?_⟩
    rcases hcases with ⟨_, cs, _, hc⟩ | ⟨_, cv, _, hc⟩ | ⟨_, c, cs, cv, _, _, _, hc⟩
    · rw [hc]; exact endsWithLabels_of _ m lab cs hl
    · rw [hc]; exact endsWithLabels_of _ m lab cv hl
    · rw [hc]; exact endsWithLabels_of _ m lab (cs ++ cv) hl
  · intro h1 h
    by_cases h2 : f.mesh.region.ndim = 2
    · rw [lightness_scalar sqrtF f o h2 h1] at h
      obtain ⟨m, _, _, _, lab, hm, _, _, _, hl, hc⟩ := lightCore_ok_inv f o _ _ _ calls h
      exact ⟨m, hm, by rw [hc]; exact endsWithLabels_of _ m lab [_] hl⟩
    · unfold mplLightness at h
      rw [if_pos h2] at h
      cases h

/-- Non-vacuity of `labels_eq`, `vector_*`, `contour_grid`, `lightness_*`: the example fields
are plotted by every kind. -/
example : okB (mplVector exV {}) = true ∧ okB (mplContour exS {}) = true ∧
    okB (mplLightness (fun q => q) exV {}) = true ∧ okB (mplLightness (fun q => q) exS {}) = true ∧
    okB (mplDefault exV { useColor := false }) = true ∧ okB (mplDefault exS {}) = true := by
  decide +kernel

/-! ## default plot `field.mpl()` -/

/-- **Default plot of a 3-component field** = scalar plot of the one component that is NOT
mapped to an in-plane axis (filtered by `filter_field` or validity) followed by the vector
plot of the field, with one common multiplier, followed by the labels; so
`scalar_at_position`, `vector_at_centres` and `vector_components_through_mapping` apply to
its two parts. -/
theorem default_plot_three (f : Fld) (o : Opts) (calls : List PlotCall) (h3 : f.nvdim = 3)
    (h : mplDefault f o = .ok calls) :
    ∃ m c cs cv lab, setupMultiplier f o.mult = .ok m ∧ thirdComp f (inplaneVdims f) o.pick = .ok c ∧
      mplScalar (compField f c) { o with mult := some m, filter := some (filterOf f o) } = .ok cs ∧
      mplVector f { o with mult := some m } = .ok cv ∧ calls = cs ++ cv ++ [lab] ∧
      (∀ l, leftover f (inplaneVdims f) = [l] → ∃ vs, f.vdims = some vs ∧ vs.getD c "" = l ∧
        some l ∉ inplaneVdims f) := by
  obtain ⟨_, m, lab, hm, _, hcases⟩ := mplDefault_ok_inv f o calls h
  rcases hcases with ⟨h1, _⟩ | ⟨h2, _⟩ | ⟨_, c, cs, cv, hc, hcs, hcv, hcalls⟩
  · omega
  · omega
  · refine ⟨m, c, cs, cv, lab, hm, hc, hcs, hcv, hcalls, ?_⟩
    intro l hleft
    have hmem : l ∈ leftover f (inplaneVdims f) := by rw [hleft]; simp
    have hnot : some l ∉ inplaneVdims f := by
      unfold leftover at hmem
      have := (List.mem_filter.mp hmem).2
      simpa using this
    cases hk : f.vdimIndex l with
    | none =>
      rw [thirdComp_single_none f _ l o.pick hleft hk] at hc
      cases hc
    | some k =>
      rw [thirdComp_single f _ l o.pick k hleft hk] at hc
      injection hc with hc
      subst hc
      obtain ⟨vs, hvs, hks⟩ := vdimIndex_spec f l k hk
      exact ⟨vs, hvs, hks, hnot⟩

/-! ## refusals -/

/-- **Wrong spatial dimension.**  Every plot kind refuses a field whose mesh is not 2-d. -/
theorem refuse_not_2d (sqrtF : Rat → Rat) (f : Fld) (o : Opts) (h : f.mesh.region.ndim ≠ 2) :
    mplScalar f o = .error .runtime ∧ mplContour f o = .error .runtime ∧
    mplVector f o = .error .runtime ∧ mplDefault f o = .error .runtime ∧
    mplLightness sqrtF f o = .error .runtime := by
  refine ⟨?_, ?_, ?_, ?_, ?_⟩
  · unfold mplScalar; rw [if_pos h]
  · unfold mplContour; rw [if_pos h]
  · unfold mplVector; rw [if_pos h]
  · unfold mplDefault; rw [if_pos h]
  · unfold mplLightness; rw [if_pos h]

/-- **Wrong component dimension.**  `scalar` refuses fields with more than one component,
`contour` anything but one component, `mpl()` and `lightness` more than three. -/
theorem refuse_wrong_nvdim (sqrtF : Rat → Rat) (f : Fld) (o : Opts) :
    (1 < f.nvdim → ∃ e, mplScalar f o = .error e) ∧
    (f.nvdim ≠ 1 → ∃ e, mplContour f o = .error e) ∧
    (3 < f.nvdim → (∃ e, mplDefault f o = .error e) ∧ ∃ e, mplLightness sqrtF f o = .error e) := by
  refine ⟨?_, ?_, ?_⟩
  · intro h
    unfold mplScalar
    by_cases h2 : f.mesh.region.ndim ≠ 2
    · rw [if_pos h2]; exact ⟨_, rfl⟩
    · rw [if_neg h2, if_pos h]; exact ⟨_, rfl⟩
  · intro h
    unfold mplContour
    by_cases h2 : f.mesh.region.ndim ≠ 2
    · rw [if_pos h2]; exact ⟨_, rfl⟩
    · rw [if_neg h2, if_pos h]; exact ⟨_, rfl⟩
  · intro h
    constructor
    · unfold mplDefault
      by_cases h2 : f.mesh.region.ndim ≠ 2
      · rw [if_pos h2]; exact ⟨_, rfl⟩
      · rw [if_neg h2]
        cases hs : setupMultiplier f o.mult with
        | error e => exact ⟨_, rfl⟩
        | ok m =>
          simp only []
          rw [if_neg (by omega), if_neg (by omega), if_neg (by omega)]; exact ⟨_, rfl⟩
    · unfold mplLightness
      by_cases h2 : f.mesh.region.ndim ≠ 2
      · rw [if_pos h2]; exact ⟨_, rfl⟩
      · rw [if_neg h2, if_neg (by omega), if_neg (by omega), if_pos h]; exact ⟨_, rfl⟩

/-- **No mapping and no labels.**  `vector` refuses a field without component-to-axis mapping
unless `vdims=` is given; consequently `mpl()` refuses 2-component fields without a
mapping, and a scalar field (no labels, no mapping) cannot be drawn as arrows. -/
theorem refuse_vector_without_mapping (f : Fld) (o : Opts) (hv : o.vdimsArg = none) (hm : f.vmap = []) :
    (∃ e, mplVector f o = .error e) ∧ (f.nvdim = 2 → ∃ e, mplDefault f o = .error e) := by
  have hvec : ∀ o' : Opts, o'.vdimsArg = none → ∃ e, mplVector f o' = .error e := by
    intro o' hv'
    unfold mplVector
    by_cases h2 : f.mesh.region.ndim ≠ 2
    · rw [if_pos h2]; exact ⟨_, rfl⟩
    · rw [if_neg h2, if_pos (by simp [hv', hm])]; exact ⟨_, rfl⟩
  refine ⟨hvec o hv, ?_⟩
  intro h2
  unfold mplDefault
  by_cases hd : f.mesh.region.ndim ≠ 2
  · rw [if_pos hd]; exact ⟨_, rfl⟩
  · rw [if_neg hd]
    cases hs : setupMultiplier f o.mult with
    | error e => exact ⟨_, rfl⟩
    | ok m =>
      simp only []
      rw [if_neg (by omega), if_pos h2]
      obtain ⟨e, he⟩ := hvec { o with mult := some m } hv
      rw [he]; exact ⟨_, rfl⟩

/-- **Filter of the wrong dimension.**  A `filter_field` with more than one component, or
not defined on a 2-d mesh, makes `scalar` and `contour` fail; a multiplier outside the SI
table makes `scalar` fail. -/
theorem refuse_bad_filter_or_multiplier (f flt : Fld) (o : Opts) :
    (o.filter = some flt → (flt.nvdim ≠ 1 ∨ flt.mesh.region.ndim ≠ 2) →
      (∃ e, mplScalar f o = .error e) ∧ ∃ e, mplContour f o = .error e) ∧
    (∀ m, o.mult = some m → rsiPrefix? m = none → ∃ e, mplScalar f o = .error e) := by
  constructor
  · intro hflt hbad
    have hk : filterKeep f (filterOf f o) = .error .value := by
      have : filterOf f o = flt := by simp [filterOf, hflt]
      rw [this]
      unfold filterKeep
      by_cases hb : flt.nvdim ≠ 1
      · rw [if_pos hb]
      · rcases hbad with hb' | hb'
        · exact absurd hb' hb
        · rw [if_neg hb, if_pos hb']
    constructor
    · unfold mplScalar
      by_cases h2 : f.mesh.region.ndim ≠ 2
      · rw [if_pos h2]; exact ⟨_, rfl⟩
      · rw [if_neg h2]
        by_cases h1 : f.nvdim > 1
        · rw [if_pos h1]; exact ⟨_, rfl⟩
        · rw [if_neg h1]
          cases hs : setupMultiplier f o.mult with
          | error e => exact ⟨_, rfl⟩
          | ok m =>
            simp only [scalarCore]
            cases he : extent f.mesh.region m with
            | error e => exact ⟨_, rfl⟩
            | ok ext => simp only [hk]; exact ⟨_, rfl⟩
    · unfold mplContour
      by_cases h2 : f.mesh.region.ndim ≠ 2
      · rw [if_pos h2]; exact ⟨_, rfl⟩
      · rw [if_neg h2]
        by_cases h1 : f.nvdim ≠ 1
        · rw [if_pos h1]; exact ⟨_, rfl⟩
        · rw [if_neg h1]
          cases hs : setupMultiplier f o.mult with
          | error e => exact ⟨_, rfl⟩
          | ok m => simp only [hk]; exact ⟨_, rfl⟩
  · intro m hm hp
    unfold mplScalar
    by_cases h2 : f.mesh.region.ndim ≠ 2
    · rw [if_pos h2]; exact ⟨_, rfl⟩
    · rw [if_neg h2]
      by_cases h1 : f.nvdim > 1
      · rw [if_pos h1]; exact ⟨_, rfl⟩
      · rw [if_neg h1]
        simp only [setupMultiplier, hm, scalarCore]
        cases he : extent f.mesh.region m with
        | error e => exact ⟨_, rfl⟩
        | ok ext =>
          simp only []
          cases hk : filterKeep f (filterOf f o) with
          | error e => exact ⟨_, rfl⟩
          | ok keep => simp only [axisLabels, hp]; exact ⟨_, rfl⟩

/-- Non-vacuity of the refusal theorems: a 3-d example mesh, and the example vector field
stripped of its mapping, are refused. -/
example : okB (mplScalar { exS with mesh := { exMesh with region := { exRegion with pmin := [0, 0, 0], pmax := [4, 6, 1] } } } {}) = false ∧
    okB (mplVector { exV with vmap := [] } {}) = false ∧ okB (mplScalar exV {}) = false ∧
    okB (mplScalar exS { mult := some (1/100000000) }) = false := by
  decide +kernel

/-! ## SI prefixes and the default multiplier -/

/-- The mirrored SI table is its own inverse: looking a table multiplier up in
`rsi_prefixes` returns the prefix it is stored under (17 entries, by evaluation). -/
theorem si_table_inverse (p : String) (m : Rat) (h : (p, m) ∈ siTable) : rsiPrefix? m = some p := by
  obtain ⟨k, hk, rfl⟩ := (mem_siTable p m).mp h
  exact rsiPrefix_table (p, k) hk

/-- Decades of the table are disjoint: at most one entry puts a value into `[1, 1000)`, so the
order in which `si_multiplier` scans the table does not matter. -/
theorem si_decade_unique (v : Rat) (p p' : String) (m m' : Rat) (h : (p, m) ∈ siTable)
    (h' : (p', m') ∈ siTable) (hd : inDecade v m = true) (hd' : inDecade v m' = true) :
    m = m' ∧ p = p' := by
  obtain ⟨k, hk, rfl⟩ := (mem_siTable p m).mp h
  obtain ⟨k', hk', rfl⟩ := (mem_siTable p' m').mp h'
  have := decade_unique (absR v) k k' ((inDecade_iff _ _).mp hd) ((inDecade_iff _ _).mp hd')
  subst this
  have e1 := rsiPrefix_table (p, k) hk
  have e2 := rsiPrefix_table (p', k) hk'
  rw [e1] at e2
  injection e2 with e2
  exact ⟨rfl, e2⟩

/-- `si_multiplier` of a non-zero value returns `m` exactly when `m` is the table entry with
`1 ≤ |value| / m < 1000`. -/
theorem si_multiplier_spec (v m : Rat) (hv : v ≠ 0) :
    siMultiplier v = some m ↔ ∃ p, (p, m) ∈ siTable ∧ 1 ≤ absR v / m ∧ absR v / m < 1000 := by
  constructor
  · intro h
    obtain ⟨p, k, hk, hm, hd⟩ := siMultiplier_sound v m hv h
    exact ⟨p, (mem_siTable p m).mpr ⟨k, hk, hm⟩, hd⟩
  · rintro ⟨p, hp, hd⟩
    obtain ⟨k, hk, rfl⟩ := (mem_siTable p m).mp hp
    exact siMultiplier_complete v hv p k hk hd

/-- `si_multiplier` succeeds for every magnitude from `1e-24` up to (excluding) `1e27`. -/
theorem si_multiplier_total (v : Rat) (hv : v ≠ 0) (h1 : p1000 (-8) ≤ absR v) (h2 : absR v < p1000 9) :
    ∃ p m, (p, m) ∈ siTable ∧ siMultiplier v = some m := by
  obtain ⟨p, k, hk, hs⟩ := siMultiplier_total v hv h1 h2
  exact ⟨p, p1000 k, (mem_siTable p _).mpr ⟨k, hk, rfl⟩, hs⟩

/-- **Default multiplier.**  When no multiplier is given, the one computed from the region
(`si_max_multiplier(edges)`) is a table entry — so it has a prefix and the labels can be
written — for which the longest edge measures between 1 and 1000 units and no edge reaches
1000 units. -/
theorem default_multiplier_decade (f : Fld) (hinv : f.mesh.Inv) (m : Rat)
    (h : setupMultiplier f none = .ok m) :
    (∃ pre, (pre, m) ∈ siTable ∧ rsiPrefix? m = some pre) ∧
    (∃ a, a < f.mesh.region.ndim ∧ 1 ≤ f.mesh.region.edge a / m ∧ f.mesh.region.edge a / m < 1000) ∧
    ∀ a, a < f.mesh.region.ndim → f.mesh.region.edge a / m < 1000 := by
  obtain ⟨⟨_, _, _, _, _, hlt⟩, _, _⟩ := hinv
  have hedge : ∀ a, a < f.mesh.region.ndim → 0 < f.mesh.region.edge a := by
    intro a ha
    have := hlt a ha
    unfold Region.edge
    linarith
  have habs : ∀ a, a < f.mesh.region.ndim → absR (f.mesh.region.edge a) = f.mesh.region.edge a := by
    intro a ha
    rw [absR_eq_abs, abs_of_pos (hedge a ha)]
  simp only [setupMultiplier, siMaxMultiplier] at h
  obtain ⟨hmem, hall⟩ := maxOpt_ok _ m h
  obtain ⟨e, he, hsm⟩ := List.mem_map.mp hmem
  have he' : ∃ a, a < f.mesh.region.ndim ∧ f.mesh.region.edge a = e := by
    unfold Region.edges tab at he
    obtain ⟨a, ha, hae⟩ := List.mem_map.mp he
    exact ⟨a, List.mem_range.mp ha, hae⟩
  obtain ⟨a, ha, rfl⟩ := he'
  obtain ⟨p, k, hk, hmk, hd1, hd2⟩ := siMultiplier_sound _ m (ne_of_gt (hedge a ha)) hsm
  rw [habs a ha] at hd1 hd2
  have hmpos : 0 < m := by rw [hmk]; exact p1000_pos k
  refine ⟨⟨p, (mem_siTable p m).mpr ⟨k, hk, hmk⟩, ?_⟩, ⟨a, ha, hd1, hd2⟩, ?_⟩
  · rw [hmk]; exact rsiPrefix_table (p, k) hk
  · intro b hb
    have hbm : siMultiplier (f.mesh.region.edge b) ∈ f.mesh.region.edges.map siMultiplier := by
      apply List.mem_map.mpr
      refine ⟨f.mesh.region.edge b, ?_, rfl⟩
      unfold Region.edges tab
      exact List.mem_map.mpr ⟨b, List.mem_range.mpr hb, rfl⟩
    obtain ⟨m', hm', hle⟩ := hall _ hbm
    obtain ⟨_, k', _, hmk', _, hd2'⟩ := siMultiplier_sound _ m' (ne_of_gt (hedge b hb)) hm'
    rw [habs b hb] at hd2'
    have hm'pos : 0 < m' := by rw [hmk']; exact p1000_pos k'
    have : f.mesh.region.edge b / m ≤ f.mesh.region.edge b / m' :=
      div_le_div_of_nonneg_left (hedge b hb).le hm'pos hle
    linarith

/-- The default multiplier exists whenever every edge of the region lies in `[1e-24, 1e27)`. -/
theorem default_multiplier_exists (f : Fld) (hinv : f.mesh.Inv)
    (hr : ∀ a, a < f.mesh.region.ndim →
      p1000 (-8) ≤ f.mesh.region.edge a ∧ f.mesh.region.edge a < p1000 9) :
    ∃ m, setupMultiplier f none = .ok m := by
  obtain ⟨⟨hpos, _, _, _, _, hlt⟩, _, _⟩ := hinv
  simp only [setupMultiplier, siMaxMultiplier]
  apply maxOpt_total
  · intro hnil
    have : (f.mesh.region.edges.map siMultiplier).length = 0 := by rw [hnil]; rfl
    simp [Region.edges] at this
    unfold Region.ndim at this
    omega
  · intro x hx
    obtain ⟨e, he, hxe⟩ := List.mem_map.mp hx
    unfold Region.edges tab at he
    obtain ⟨a, ha, hae⟩ := List.mem_map.mp he
    have ha' := List.mem_range.mp ha
    have hedge : 0 < f.mesh.region.edge a := by
      have := hlt a ha'
      unfold Region.edge
      linarith
    have habs : absR (f.mesh.region.edge a) = f.mesh.region.edge a := by
      rw [absR_eq_abs, abs_of_pos hedge]
    obtain ⟨_, k, _, hs⟩ := siMultiplier_total (f.mesh.region.edge a) (ne_of_gt hedge)
      (by rw [habs]; exact (hr a ha').1) (by rw [habs]; exact (hr a ha').2)
    exact ⟨p1000 k, by rw [← hxe, ← hae, hs]⟩

/-- Non-vacuity: the example region `[0,4]×[0,6]` gets the multiplier 1 (no prefix); a region
of 40 nm × 60 nm gets `1e-9`, prefix `n`. -/
example : setupMultiplier exS none = .ok 1 ∧ rsiPrefix? 1 = some "" ∧
    siMaxMultiplier [4/100000000, 6/100000000] = .ok (1/1000000000) ∧
    rsiPrefix? (1/1000000000) = some "n" := by
  decide +kernel

/-! ## further non-vacuity checks -/

/-- the example vector field: arrows use `b` (mapped to `x`) and `a` (mapped to `y`), exactly
one label (`c`) is left over for the colour, and its hypotheses for `vector_colour_third` hold -/
example : inplaneVdims exV = [some "b", some "a"] ∧ leftover exV (inplaneVdims exV) = ["c"] ∧
    exV.nvdim = 3 ∧ exV.mesh.region.ndim = 2 ∧
    okB (colourOf exV {} (inplaneVdims exV)) = true ∧
    okB (colourOf exV { aux := some exOnes } (inplaneVdims exV)) = true := by
  decide +kernel

example : normalise 2 10 (0, 1) 2 = 0 ∧ normalise 2 10 (0, 1) 10 = 1 ∧ normalise 2 10 (0, 1) 4 = 1/4 ∧
    normalise 3 3 (0, 1) 3 = 0 := by
  decide +kernel

example : ∀ a, a < exS.mesh.region.ndim →
    p1000 (-8) ≤ exS.mesh.region.edge a ∧ exS.mesh.region.edge a < p1000 9 := by
  decide +kernel

end DFV.C20
