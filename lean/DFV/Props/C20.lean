import DFV.Lemmas.C20Default
import DFV.Lemmas.C20Session
import DFV.Lemmas.C20HeapLight
import DFV.Lemmas.C20HeapSession
import DFV.Lemmas.C20SiMax
import DFV.Lemmas.C20Iff
import DFV.Lemmas.C20Ex2
/-!
# C20 — matplotlib plots draw the field's own numbers at their physical coordinates

Level: proof, partial.  The theorems are about the ARGUMENT ASSEMBLY model `DFV.C20`
(`Model/C20.lean`: what `field.mpl.scalar / vector / contour / lightness / field.mpl()` hand to
matplotlib) and hold for every 2-d mesh, every cell count, every field, mask, filter,
mapping and multiplier.  Rendering is matplotlib's; its placement contract is TRUSTED and
stated here as `PixelCovers` (imshow) and in the wording of `vector_at_centres` (quiver):

* `imshow(img, origin="lower", extent=(x0, x1, y0, y1))` with an `R×C` image: pixel
  `[r][c]` covers `x ∈ [x0 + c·(x1-x0)/C, x0 + (c+1)·(x1-x0)/C)` and
  `y ∈ [y0 + r·(y1-y0)/R, y0 + (r+1)·(y1-y0)/R)`, the last column / row closed at `x1` / `y1`;
* `quiver(X, Y, U, V, C)` draws arrow `(U[r][c], V[r][c])` with colour `C[r][c]` at `(X[c], Y[r])`;
* NaN pixels (`none`) and arrows with a NaN component are not drawn.

Property theorems only; helper lemmas, the per-axis contract `AxisCovers`, the label predicate
`EndsWithLabels`, the hidden-cell description `keptBy` / `auxAt` / `srcIdx`, the input conditions
`MultOk` / `AuxOk` / `MappingOk` / `ArrowsOk` / `ColourOk`, the frame predicates `Frame` /
`HFld.On`, the exact input conditions `FieldWf` / `VectorCond` / `ArrowsExact` / `ColourExact` /
`AngleOk` of the refusal equivalences, the request condition `HReqOk` of heap sessions, and the
closed example fields `exS`, `exV`, `exOnes`, `exFine` (2×3 mesh on `[0,4]×[0,6]`, cell (0,2)
invalid), `exHeap`, `exHS`, `exHeapV`, `exHV`, `exHeap2`, `exHS2`, `exHReqs` used by the non-vacuity
`example`s live in `DFV/Lemmas/C20{Si,SiMax,Img,Plot,Keep,Light,Accept,Iff,Default,Session,Heap,HeapRef,HeapLight,HeapDefault,HeapSession,Ex2}.lean`.

Three models: `Model/C20.lean` (argument assembly on fields as VALUES), `Model/C20Session.lean`
(`MplField.__call__` on a store of keyword-dictionary OBJECTS; histories of calls) and
`Model/C20Heap.lean` (the plot functions on a HEAP of numpy buffers: copies, views, in-place
writes).  The last two sections of this file prove that the object-level models behave like
the value model: calls are independent of history, nothing that existed before a call is
written, and the heap functions return what the value model returns.

Second extension round (end of the file): the default multiplier as a decision over every region
size (`default_multiplier_iff`, `default_multiplier_ok_iff`, `plot_multiplier_power`,
`default_extent_span`); refusal as an EQUIVALENCE for every plot kind (`scalar_ok_iff`,
`contour_ok_iff`, `vector_ok_iff`, `default_ok_iff`, `lightness_ok_iff`); matplotlib's documented
precondition on `contour` inside the model (`contour_args_ok_iff`, `contour_mpl_ok_iff`); the LAST
label of a non-injective mapping (`vector_components_last_label`); the heap refinement of the
default plot and sessions of direct method calls on one heap (`heap_default_refines`,
`heap_session_independent`, `heap_session_history_irrelevant`, `heap_drawn_cells`); and the
positional statements from hypotheses on the inputs only (`scalar_plot_from_inputs`,
`vector_plot_from_inputs`, `contour_plot_from_inputs`, `lightness_plot_from_inputs`,
`default_plot_from_inputs`).
-/
namespace DFV.C20
open DFV

/-- matplotlib's imshow placement contract (trusted): pixel `[r][c]` of an `R×C` image with
`origin="lower"` and `extent = [x0, x1, y0, y1]` covers the point `(x, y)` -/
def PixelCovers (R C : Nat) (ext : List Rat) (r c : Nat) (x y : Rat) : Prop :=
  AxisCovers C (ext.getD 0 0) (ext.getD 1 0) c x ∧ AxisCovers R (ext.getD 2 0) (ext.getD 3 0) r y

/-! ## scalar plot: the value drawn at a physical point is the field value of its cell -/

/-- Generic positional statement behind scalar, contour and lightness images.  For a 2-d
mesh, a positive multiplier `m`, and any point `(x, y)` (in units of `m`) of the closed
region, let `(i, j)` be the cell `point2index` assigns to `(x·m, y·m)` (C01's `indexAx`).
Then, for the transposed masked image handed to matplotlib with the extent `region / m`:
the pixel `[j][i]` covers `(x, y)` under the imshow contract, it is the only pixel that
does, and it holds the value of cell `(i, j)` when that cell is kept by the filter and
NaN otherwise. -/
theorem image_at_position {α} (msh : Mesh) (hinv : msh.Inv) (h2 : msh.region.ndim = 2) (m : Rat)
    (hm : 0 < m) (keep : NDA Bool) (val : List Nat → α) (x y : Rat)
    (hx : msh.region.lo 0 ≤ x * m ∧ x * m ≤ msh.region.hi 0)
    (hy : msh.region.lo 1 ≤ y * m ∧ y * m ≤ msh.region.hi 1) :
    (imgOf msh.n keep val).shape = [msh.nAt 1, msh.nAt 0] ∧
    msh.indexAx 0 (x * m) < msh.nAt 0 ∧ msh.indexAx 1 (y * m) < msh.nAt 1 ∧
    PixelCovers (msh.nAt 1) (msh.nAt 0)
      [msh.region.lo 0 / m, msh.region.hi 0 / m, msh.region.lo 1 / m, msh.region.hi 1 / m]
      (msh.indexAx 1 (y * m)) (msh.indexAx 0 (x * m)) x y ∧
    (∀ r c, r < msh.nAt 1 → c < msh.nAt 0 →
      PixelCovers (msh.nAt 1) (msh.nAt 0)
        [msh.region.lo 0 / m, msh.region.hi 0 / m, msh.region.lo 1 / m, msh.region.hi 1 / m] r c x y →
      r = msh.indexAx 1 (y * m) ∧ c = msh.indexAx 0 (x * m)) ∧
    (imgOf msh.n keep val).get [msh.indexAx 1 (y * m), msh.indexAx 0 (x * m)] =
      if keep.get [msh.indexAx 0 (x * m), msh.indexAx 1 (y * m)]
      then some (val [msh.indexAx 0 (x * m), msh.indexAx 1 (y * m)]) else none := by
  obtain ⟨rinv, hnlen, hnpos⟩ := hinv
  obtain ⟨_, _, _, _, _, hlt⟩ := rinv
  have hnd : msh.ndim = 2 := h2
  have hlen : msh.region.pmin.length = 2 := h2
  have hn : msh.n.length = 2 := by rw [hnlen, h2]
  have c0 := axisCovers_index msh 0 m x (hnpos 0 (by omega)) (hlt 0 (by omega)) hm hx.1 hx.2
  have c1 := axisCovers_index msh 1 m y (hnpos 1 (by omega)) (hlt 1 (by omega)) hm hy.1 hy.2
  have d0 : msh.region.lo 0 / m < msh.region.hi 0 / m :=
    div_lt_div_of_pos_right (hlt 0 (by omega)) hm
  have d1 : msh.region.lo 1 / m < msh.region.hi 1 / m :=
    div_lt_div_of_pos_right (hlt 1 (by omega)) hm
  refine ⟨?_, c0.1, c1.1, ⟨c0.2, c1.2⟩, ?_, ?_⟩
  · rw [imgOf_shape]; rfl
  · intro r c hr hc hcov
    exact ⟨axisCovers_unique _ _ _ d1 r _ y hr c1.1 hcov.2 c1.2,
           axisCovers_unique _ _ _ d0 c _ x hc c0.1 hcov.1 c0.2⟩
  · rw [imgOf_get _ hn]

/-- **Central theorem (scalar plot).**  Whenever `field.mpl.scalar` succeeds on a well-formed
2-d mesh it makes exactly one `imshow` call followed by the axis labels; the image has
`origin="lower"`, shape `(n₁, n₀)`, extent `region / multiplier` (`multiplier > 0`), and for
EVERY physical point `(x, y)` of the region (in units of the multiplier) the unique pixel
covering it under the imshow contract shows the value of the cell that contains
`(x·multiplier, y·multiplier)` — if the filter in force keeps that cell — and NaN (nothing
drawn) otherwise. -/
theorem scalar_at_position (f : Fld) (o : Opts) (calls : List PlotCall) (hinv : f.mesh.Inv)
    (h : mplScalar f o = .ok calls) :
    ∃ m keep img lab, 0 < m ∧ setupMultiplier f o.mult = .ok m ∧
      filterKeep f (filterOf f o) = .ok keep ∧
      calls = [.imshow img "lower"
        [f.mesh.region.lo 0 / m, f.mesh.region.hi 0 / m, f.mesh.region.lo 1 / m, f.mesh.region.hi 1 / m],
        lab] ∧
      img.shape = [f.mesh.nAt 1, f.mesh.nAt 0] ∧
      ∀ x y, f.mesh.region.lo 0 ≤ x * m ∧ x * m ≤ f.mesh.region.hi 0 →
        f.mesh.region.lo 1 ≤ y * m ∧ y * m ≤ f.mesh.region.hi 1 →
        f.mesh.indexAx 0 (x * m) < f.mesh.nAt 0 ∧ f.mesh.indexAx 1 (y * m) < f.mesh.nAt 1 ∧
        PixelCovers (f.mesh.nAt 1) (f.mesh.nAt 0)
          [f.mesh.region.lo 0 / m, f.mesh.region.hi 0 / m, f.mesh.region.lo 1 / m, f.mesh.region.hi 1 / m]
          (f.mesh.indexAx 1 (y * m)) (f.mesh.indexAx 0 (x * m)) x y ∧
        (∀ r c, r < f.mesh.nAt 1 → c < f.mesh.nAt 0 →
          PixelCovers (f.mesh.nAt 1) (f.mesh.nAt 0)
            [f.mesh.region.lo 0 / m, f.mesh.region.hi 0 / m, f.mesh.region.lo 1 / m, f.mesh.region.hi 1 / m]
            r c x y →
          r = f.mesh.indexAx 1 (y * m) ∧ c = f.mesh.indexAx 0 (x * m)) ∧
        img.get [f.mesh.indexAx 1 (y * m), f.mesh.indexAx 0 (x * m)] =
          if keep.get [f.mesh.indexAx 0 (x * m), f.mesh.indexAx 1 (y * m)]
          then some ((f.data.get [f.mesh.indexAx 0 (x * m), f.mesh.indexAx 1 (y * m)]).getD 0 0)
          else none := by
  obtain ⟨h2, _, m, hm, hcore⟩ := mplScalar_ok_inv f o calls h
  obtain ⟨ext, keep, lab, he, hk, hl, hc⟩ := scalarCore_ok_inv f o m calls hcore
  have hpos := axisLabels_pos _ _ _ hl
  rw [extent_eq f.mesh.region hinv.1 h2 m hpos] at he
  injection he with he
  subst he
  refine ⟨m, keep, _, lab, hpos, hm, hk, hc, ?_, ?_⟩
  · rw [imgOf_shape]; rfl
  · intro x y hx hy
    obtain ⟨_, a, b, c, d, e⟩ := image_at_position f.mesh hinv h2 m hpos keep
      (fun i => (f.data.get i).getD 0 0) x y hx hy
    exact ⟨a, b, c, d, e⟩

/-- In-domain inputs are plotted: on a well-formed 2-d mesh, a field with one component,
a multiplier of the SI table and a usable filter always yield the `imshow` call. -/
theorem scalar_total (f : Fld) (o : Opts) (hinv : f.mesh.Inv) (h2 : f.mesh.region.ndim = 2)
    (hnv : f.nvdim ≤ 1) (m : Rat) (hm : setupMultiplier f o.mult = .ok m) (pre : String)
    (hp : rsiPrefix? m = some pre) (keep : NDA Bool) (hk : filterKeep f (filterOf f o) = .ok keep) :
    ∃ calls, mplScalar f o = .ok calls := by
  have hpos := rsiPrefix_pos m pre hp
  unfold mplScalar
  rw [if_neg (by simpa using h2), if_neg (by omega)]
  simp only [hm, scalarCore, extent_eq f.mesh.region hinv.1 h2 m hpos, hk, axisLabels, hp]
  exact ⟨_, rfl⟩

/-- Non-vacuity of `scalar_at_position` / `scalar_total`: the 2×3 example field on
`[0,4]×[0,6]` is plotted with the default multiplier 1 and the default filter. -/
example : ∃ calls, mplScalar exS {} = .ok calls := by
  obtain ⟨keep, hk, _⟩ := filterKeep_valid exS rfl
  exact scalar_total exS {} exMesh_inv rfl (by decide) 1 (by decide +kernel) "" (by decide +kernel) keep hk

/-! ## hidden cells -/

/-- Default filter: with no `filter_field`, pixel `[j][i]` shows the value of cell `(i, j)`
exactly when that cell is valid; invalid cells are NaN (not drawn). -/
theorem scalar_default_hides_invalid (f : Fld) (o : Opts) (calls : List PlotCall) (hinv : f.mesh.Inv)
    (hnone : o.filter = none) (h : mplScalar f o = .ok calls) :
    ∃ img ext lab, calls = [.imshow img "lower" ext, lab] ∧
      ∀ i j, img.get [j, i] =
        if f.valid.get [i, j] then some ((f.data.get [i, j]).getD 0 0) else none := by
  obtain ⟨h2, _, m, _, hcore⟩ := mplScalar_ok_inv f o calls h
  obtain ⟨ext, keep, lab, _, hk, _, hc⟩ := scalarCore_ok_inv f o m calls hcore
  have hn : f.mesh.n.length = 2 := by rw [hinv.2.1, h2]
  obtain ⟨keep', hk', hget⟩ := filterKeep_valid f h2
  have hfo : filterOf f o = validAsField f := by simp [filterOf, hnone]
  rw [hfo, hk'] at hk
  injection hk with hk
  subst hk
  refine ⟨_, ext, lab, hc, fun i j => ?_⟩
  rw [imgOf_get _ hn, hget]

/-- **Hidden cells, full strength.**  With an explicit filter on the same cell counts, pixel
`[j][i]` shows the value of cell `(i, j)` exactly when that cell is VALID and the filter
field is non-zero there; it is NaN (nothing drawn) when the cell is invalid or zero in the
filter field.  (`_filter_values` applies the validity mask whatever filter is given.) -/
theorem scalar_filter_hides_zero_and_invalid (f flt : Fld) (o : Opts) (calls : List PlotCall)
    (hinv : f.mesh.Inv) (hflt : o.filter = some flt) (hn : flt.mesh.n = f.mesh.n)
    (h : mplScalar f o = .ok calls) :
    ∃ img ext lab, calls = [.imshow img "lower" ext, lab] ∧
      ∀ i j, img.get [j, i] =
        if f.valid.get [i, j] = true ∧ (flt.data.get [i, j]).getD 0 0 ≠ 0
        then some ((f.data.get [i, j]).getD 0 0) else none := by
  obtain ⟨h2, _, m, _, hcore⟩ := mplScalar_ok_inv f o calls h
  obtain ⟨ext, keep, lab, _, hk, _, hc⟩ := scalarCore_ok_inv f o m calls hcore
  have hlen : f.mesh.n.length = 2 := by rw [hinv.2.1, h2]
  have hfo : filterOf f o = flt := by simp [filterOf, hflt]
  rw [hfo] at hk
  obtain ⟨h1, h2', a, ha, _, hget⟩ := filterKeep_ok_inv f flt keep hk
  rw [auxOnMesh_same f flt hn] at ha
  injection ha with ha
  subst ha
  refine ⟨_, ext, lab, hc, fun i j => ?_⟩
  rw [imgOf_get _ hlen, hget]
  by_cases hv : f.valid.get [i, j] = true
  · simp [hv]
  · have hv' : f.valid.get [i, j] = false := by simpa using hv
    simp [hv']

/-- **Invalid cells are never drawn**, whatever filter is in force (default, explicit, same or
another resolution): if the filter step succeeds, every invalid cell is dropped. -/
theorem invalid_never_kept (f flt : Fld) (keep : NDA Bool) (hk : filterKeep f flt = .ok keep)
    (i : List Nat) (hv : f.valid.get i = false) : keep.get i = false := by
  obtain ⟨_, _, a, _, _, hget⟩ := filterKeep_ok_inv f flt keep hk
  rw [hget i, hv]
  simp

/-- **Filter on another resolution.**  A `filter_field` whose cell counts differ from the
field's is resampled onto the field's cell counts over the FILTER's region: the value deciding
cell `i` is the value of the filter cell whose centre is nearest (per axis) to the centre of
cell `i` of that re-gridded region (C07's nearest-neighbour lookup); invalid cells are dropped
in any case. -/
theorem filter_other_resolution (f flt : Fld) (keep : NDA Bool) (hn : flt.mesh.n ≠ f.mesh.n)
    (hk : filterKeep f flt = .ok keep) :
    ∃ m : Mesh, m.region = flt.mesh.region ∧ m.n = f.mesh.n ∧
      ∀ i, keep.get i =
        (!decide ((flt.data.get (tab flt.mesh.ndim fun a =>
            C07.nearestAx flt.mesh a (C07.coord m a (i.getD a 0)))).getD 0 0 = 0) && f.valid.get i) := by
  obtain ⟨_, _, a, ha, _, hget⟩ := filterKeep_ok_inv f flt keep hk
  unfold auxOnMesh at ha
  rw [if_neg hn] at ha
  split at ha
  · cases ha
  · rename_i h hr
    injection ha with ha
    obtain ⟨m, hm, _, hd⟩ := resample_data flt _ h hr
    obtain ⟨hreg, hmn⟩ := mkN_ok_inv _ _ m hm
    have hid : List.map Int.toNat (List.map Int.ofNat f.mesh.n) = f.mesh.n := by
      rw [List.map_map]
      conv => rhs; rw [← List.map_id f.mesh.n]
      apply List.map_congr_left
      intro a _
      simp
    refine ⟨m, hreg, by rw [hmn, hid], fun i => ?_⟩
    rw [hget i, ← ha, hd]
    rfl

/-- Non-vacuity of `filter_other_resolution`: a 4 × 3 filter on the 2 × 3 example field. -/
example : okB (filterKeep exS exFine) = true ∧ exFine.mesh.n ≠ exS.mesh.n ∧
    okB (mplScalar exS { filter := some exFine }) = true := by
  decide +kernel

/-- Non-vacuity / regression for the former defect D91: with an explicit filter that is
non-zero everywhere the invalid cell `(0, 2)` of the example field is NOT drawn, its valid
neighbour `(0, 1)` shows its value 2. -/
example : ∃ calls img ext lab, mplScalar exS { filter := some exOnes } = .ok calls ∧
    calls = [.imshow img "lower" ext, lab] ∧
    exS.valid.get [0, 2] = false ∧ img.get [2, 0] = none ∧ img.get [1, 0] = some 2 := by
  obtain ⟨keep, hk, _⟩ := filterKeep_same exS exOnes rfl rfl rfl
  obtain ⟨calls, hc⟩ := scalar_total exS { filter := some exOnes } exMesh_inv rfl (by decide) 1
    (by decide +kernel) "" (by decide +kernel) keep hk
  obtain ⟨img, ext, lab, hcalls, hpix⟩ :=
    scalar_filter_hides_zero_and_invalid exS exOnes { filter := some exOnes } calls exMesh_inv rfl rfl hc
  refine ⟨calls, img, ext, lab, hc, hcalls, by decide +kernel, ?_, ?_⟩
  · rw [hpix 0 2]; decide +kernel
  · rw [hpix 0 1]; decide +kernel

/-! ## vector plot -/

/-- **Arrows sit at cell centres / multiplier.**  Whenever `field.mpl.vector` succeeds it makes
one `quiver` call followed by the labels; `X` has one entry per cell along axis 0, `Y` one per
cell along axis 1, entry `c` being the centre of cell `c`, `pmin + (c + ½)·cell`, divided by the
(positive) multiplier; `U`, `V` have shape `(n₁, n₀)`, so that under the quiver contract the
arrow `[r][c]` is drawn at the centre of cell `(c, r)`. -/
theorem vector_at_centres (f : Fld) (o : Opts) (calls : List PlotCall)
    (h : mplVector f o = .ok calls) :
    ∃ m X Y U V C lab, 0 < m ∧ setupMultiplier f o.mult = .ok m ∧
      calls = [.quiver X Y U V C, lab] ∧
      X.length = f.mesh.nAt 0 ∧ Y.length = f.mesh.nAt 1 ∧
      (∀ c, c < f.mesh.nAt 0 →
        X.getD c 0 = (f.mesh.region.lo 0 + ((c : Rat) + 1/2) * f.mesh.cellAt 0) / m) ∧
      (∀ r, r < f.mesh.nAt 1 →
        Y.getD r 0 = (f.mesh.region.lo 1 + ((r : Rat) + 1/2) * f.mesh.cellAt 1) / m) ∧
      U.shape = [f.mesh.nAt 1, f.mesh.nAt 0] ∧ V.shape = [f.mesh.nAt 1, f.mesh.nAt 0] := by
  obtain ⟨h2, _, m, hm, hcore⟩ := mplVector_ok_inv f o calls h
  obtain ⟨keep, vd, ax, ay, c, lab, _, _, _, _, _, _, hl, hc⟩ := vectorCore_ok_inv f o m calls hcore
  have hpos := axisLabels_pos _ _ _ hl
  have hnd : f.mesh.ndim = 2 := h2
  refine ⟨m, _, _, _, _, c, lab, hpos, hm, hc, pointsAx_length _ _ _ (by omega),
    pointsAx_length _ _ _ (by omega), ?_, ?_, arrowArr_shape _ _ _, arrowArr_shape _ _ _⟩
  · intro c hc'
    rw [pointsAx_getD _ _ _ _ (by omega) hc']
    simp [Mesh.centreAx]
  · intro r hr
    rw [pointsAx_getD _ _ _ _ (by omega) hr]
    simp [Mesh.centreAx]

/-- **Arrow components are chosen through the component-to-axis mapping.**  With no explicit
`vdims=`, the horizontal arrow component `U[r][c]` is the component of cell `(c, r)` whose label
the mapping sends to the first spatial dimension (`(label, dims[0]) ∈ vdim_mapping`, and that
label is the `k`-th entry of `field.vdims`), `V` likewise for the second dimension; a direction
nothing is mapped to gets zeros.  Invalid cells carry NaN in every mapped component. -/
theorem vector_components_through_mapping (f : Fld) (o : Opts) (calls : List PlotCall)
    (hinv : f.mesh.Inv) (hvd : o.vdimsArg = none) (h : mplVector f o = .ok calls) :
    ∃ X Y U V C lab, calls = [.quiver X Y U V C, lab] ∧
      ((∃ l k vs, (l, f.mesh.region.dims.getD 0 "") ∈ f.vmap ∧ f.vdims = some vs ∧ vs.getD k "" = l ∧
          ∀ r c, U.get [r, c] =
            if f.valid.get [c, r] then some ((f.data.get [c, r]).getD k 0) else none) ∨
        (∀ r c, U.get [r, c] = some 0)) ∧
      ((∃ l k vs, (l, f.mesh.region.dims.getD 1 "") ∈ f.vmap ∧ f.vdims = some vs ∧ vs.getD k "" = l ∧
          ∀ r c, V.get [r, c] =
            if f.valid.get [c, r] then some ((f.data.get [c, r]).getD k 0) else none) ∨
        (∀ r c, V.get [r, c] = some 0)) := by
  obtain ⟨h2, _, m, _, hcore⟩ := mplVector_ok_inv f o calls h
  obtain ⟨keep, vd, ax, ay, c, lab, hk, hvds, hax, hay, _, _, _, hc⟩ := vectorCore_ok_inv f o m calls hcore
  have hn : f.mesh.n.length = 2 := by rw [hinv.2.1, h2]
  obtain ⟨keep', hk', hget⟩ := filterKeep_valid f h2
  rw [hk'] at hk
  injection hk with hk
  subst hk
  have hvd' : vd = inplaneVdims f := by
    unfold vectorVdims at hvds
    rw [hvd] at hvds
    injection hvds with hvds
    exact hvds.symm
  subst hvd'
  have side : ∀ (a : Nat) (ai : Option Nat),
      arrowIdx f (rDimLast f (f.mesh.region.dims.getD a "")) = .ok ai →
      ((∃ l k vs, (l, f.mesh.region.dims.getD a "") ∈ f.vmap ∧ f.vdims = some vs ∧ vs.getD k "" = l ∧
          ∀ r c, (arrowArr f keep' ai).get [r, c] =
            if f.valid.get [c, r] then some ((f.data.get [c, r]).getD k 0) else none) ∨
        (∀ r c, (arrowArr f keep' ai).get [r, c] = some 0)) := by
    intro a ai hai
    cases ai with
    | none => right; intro r c; exact arrowArr_none_get f hn keep' r c
    | some k =>
      left
      obtain ⟨s, vs, hs, _, hvs, hks⟩ := arrowIdx_some_inv f _ k hai
      refine ⟨s, k, vs, rDimLast_mem f _ s hs, hvs, hks, fun r c => ?_⟩
      rw [arrowArr_some_get f hn, hget]
  refine ⟨_, _, _, _, c, lab, hc, side 0 ax (by simpa [inplaneVdims] using hax),
    side 1 ay (by simpa [inplaneVdims] using hay)⟩

/-- **Explicit labels.**  With `vdims=[lx, ly]` the arrow components are the components with
exactly these labels (zeros for `None`), NaN in invalid cells. -/
theorem vector_components_explicit (f : Fld) (o : Opts) (calls : List PlotCall) (hinv : f.mesh.Inv)
    (lx ly : Option String) (hvd : o.vdimsArg = some [lx, ly]) (h : mplVector f o = .ok calls) :
    ∃ X Y U V C lab, calls = [.quiver X Y U V C, lab] ∧
      ((∃ l k vs, lx = some l ∧ f.vdims = some vs ∧ vs.getD k "" = l ∧
          ∀ r c, U.get [r, c] =
            if f.valid.get [c, r] then some ((f.data.get [c, r]).getD k 0) else none) ∨
        ((lx = none ∨ lx = some "") ∧ ∀ r c, U.get [r, c] = some 0)) ∧
      ((∃ l k vs, ly = some l ∧ f.vdims = some vs ∧ vs.getD k "" = l ∧
          ∀ r c, V.get [r, c] =
            if f.valid.get [c, r] then some ((f.data.get [c, r]).getD k 0) else none) ∨
        ((ly = none ∨ ly = some "") ∧ ∀ r c, V.get [r, c] = some 0)) := by
  obtain ⟨h2, _, m, _, hcore⟩ := mplVector_ok_inv f o calls h
  obtain ⟨keep, vd, ax, ay, c, lab, hk, hvds, hax, hay, _, _, _, hc⟩ := vectorCore_ok_inv f o m calls hcore
  have hn : f.mesh.n.length = 2 := by rw [hinv.2.1, h2]
  obtain ⟨keep', hk', hget⟩ := filterKeep_valid f h2
  rw [hk'] at hk
  injection hk with hk
  subst hk
  have hvd' : vd = [lx, ly] := by
    unfold vectorVdims at hvds
    rw [hvd] at hvds
    simp at hvds
    exact hvds.symm
  subst hvd'
  have side : ∀ (l : Option String) (ai : Option Nat), arrowIdx f l = .ok ai →
      ((∃ s k vs, l = some s ∧ f.vdims = some vs ∧ vs.getD k "" = s ∧
          ∀ r c, (arrowArr f keep' ai).get [r, c] =
            if f.valid.get [c, r] then some ((f.data.get [c, r]).getD k 0) else none) ∨
        ((l = none ∨ l = some "") ∧ ∀ r c, (arrowArr f keep' ai).get [r, c] = some 0)) := by
    intro l ai hai
    cases ai with
    | none => right; exact ⟨arrowIdx_none_inv f l hai, fun r c => arrowArr_none_get f hn keep' r c⟩
    | some k =>
      left
      obtain ⟨s, vs, hs, _, hvs, hks⟩ := arrowIdx_some_inv f _ k hai
      refine ⟨s, k, vs, hs, hvs, hks, fun r c => ?_⟩
      rw [arrowArr_some_get f hn, hget]
  exact ⟨_, _, _, _, c, lab, hc, side lx ax (by simpa using hax), side ly ay (by simpa using hay)⟩

/-- **Colour = the third component.**  For a 3-component field with `use_color=True` and no
`color_field`, when exactly one label `l` is left over after removing the two arrow labels,
`C[r][c]` is the component labelled `l` of cell `(c, r)`. -/
theorem vector_colour_third (f : Fld) (o : Opts) (vd : List (Option String)) (l : String)
    (hinv : f.mesh.Inv) (h2 : f.mesh.region.ndim = 2) (huse : o.useColor = true)
    (haux : o.aux = none) (h3 : f.nvdim = 3) (hleft : leftover f vd = [l]) (C : Option (NDA Rat))
    (h : colourOf f o vd = .ok C) :
    ∃ arr k vs, C = some arr ∧ f.vdims = some vs ∧ vs.getD k "" = l ∧ some l ∉ vd ∧
      arr.shape = [f.mesh.nAt 1, f.mesh.nAt 0] ∧
      ∀ r c, arr.get [r, c] = (f.data.get [c, r]).getD k 0 := by
  have hn : f.mesh.n.length = 2 := by rw [hinv.2.1, h2]
  have hmem : l ∈ leftover f vd := by rw [hleft]; simp
  have hnot : some l ∉ vd := by
    unfold leftover at hmem
    have := (List.mem_filter.mp hmem).2
    simpa using this
  cases hk : f.vdimIndex l with
  | none =>
    rw [colourOf_third_err f o vd huse haux h3 _ (thirdComp_single_none f vd l o.pick hleft hk)] at h
    cases h
  | some k =>
    rw [colourOf_third f o vd huse haux h3 k (thirdComp_single f vd l o.pick k hleft hk)] at h
    injection h with h
    obtain ⟨vs, hvs, hks⟩ := vdimIndex_spec f l k hk
    refine ⟨_, k, vs, h.symm, hvs, hks, hnot, by rw [colourArr_shape]; rfl, fun r c => ?_⟩
    rw [colourArr_get _ hn]
    simp

/-- **Colour = the colour field.**  With a scalar `color_field` on the same cell counts,
`C[r][c]` is the colour field's value in cell `(c, r)`. -/
theorem vector_colour_field (f g : Fld) (o : Opts) (vd : List (Option String)) (hinv : f.mesh.Inv)
    (h2 : f.mesh.region.ndim = 2) (huse : o.useColor = true) (haux : o.aux = some g)
    (hn : g.mesh.n = f.mesh.n) (C : Option (NDA Rat)) (h : colourOf f o vd = .ok C) :
    g.nvdim = 1 ∧ g.mesh.region.ndim = 2 ∧
    ∃ arr, C = some arr ∧ arr.shape = [f.mesh.nAt 1, f.mesh.nAt 0] ∧
      ∀ r c, arr.get [r, c] = (g.data.get [c, r]).getD 0 0 := by
  have hlen : f.mesh.n.length = 2 := by rw [hinv.2.1, h2]
  rw [colourOf_aux f g o vd huse haux] at h
  split at h
  · cases h
  · rename_i h1
    split at h
    · cases h
    · rename_i h2'
      rw [auxOnMesh_same f g hn] at h
      injection h with h
      refine ⟨not_not.mp h1, not_not.mp h2', _, h.symm, by rw [colourArr_shape]; rfl, fun r c => ?_⟩
      rw [colourArr_get _ hlen]

/-! ## contour plot -/

/-- **Contour grid.**  Whenever `field.mpl.contour` succeeds it makes one `contour(X, Y, Z)` call
followed by the labels: `X`, `Y` are the cell centres divided by the (positive) multiplier and
`Z[r][c]` is the value of cell `(c, r)` if the filter in force keeps it and NaN otherwise. -/
theorem contour_grid (f : Fld) (o : Opts) (calls : List PlotCall) (hinv : f.mesh.Inv)
    (h : mplContour f o = .ok calls) :
    ∃ m keep X Y Z lab, 0 < m ∧ setupMultiplier f o.mult = .ok m ∧
      filterKeep f (filterOf f o) = .ok keep ∧ calls = [.contour X Y Z, lab] ∧
      X.length = f.mesh.nAt 0 ∧ Y.length = f.mesh.nAt 1 ∧
      (∀ c, c < f.mesh.nAt 0 →
        X.getD c 0 = (f.mesh.region.lo 0 + ((c : Rat) + 1/2) * f.mesh.cellAt 0) / m) ∧
      (∀ r, r < f.mesh.nAt 1 →
        Y.getD r 0 = (f.mesh.region.lo 1 + ((r : Rat) + 1/2) * f.mesh.cellAt 1) / m) ∧
      Z.shape = [f.mesh.nAt 1, f.mesh.nAt 0] ∧
      ∀ r c, Z.get [r, c] = if keep.get [c, r] then some ((f.data.get [c, r]).getD 0 0) else none := by
  obtain ⟨h2, _, m, keep, lab, hm, hk, hl, hc⟩ := mplContour_ok_inv f o calls h
  have hpos := axisLabels_pos _ _ _ hl
  have hnd : f.mesh.ndim = 2 := h2
  have hn : f.mesh.n.length = 2 := by rw [hinv.2.1, h2]
  refine ⟨m, keep, _, _, _, lab, hpos, hm, hk, hc, pointsAx_length _ _ _ (by omega),
    pointsAx_length _ _ _ (by omega), ?_, ?_, by rw [imgOf_shape]; rfl, fun r c => imgOf_get _ hn _ _ r c⟩
  · intro c hc'
    rw [pointsAx_getD _ _ _ _ (by omega) hc']
    simp [Mesh.centreAx]
  · intro r hr
    rw [pointsAx_getD _ _ _ _ (by omega) hr]
    simp [Mesh.centreAx]

/-! ## lightness plot -/

/-- **Lightness pixels.**  The final stage every lightness plot goes through (`lightCore`): one
`imshow` call with `origin="lower"` and extent `region / multiplier`; pixel `[r][c]` is
transparent when the filter drops cell `(c, r)` and otherwise carries the hue token of that
cell and its lightness value normalised over the whole array; and the pixel that covers a
physical point under the imshow contract is the pixel of the cell containing the point. -/
theorem lightness_pixels (f : Fld) (o : Opts) (hue : List Nat → Hue) (dflt : NDA Rat) (flt : Fld)
    (calls : List PlotCall) (hinv : f.mesh.Inv) (h2 : f.mesh.region.ndim = 2)
    (h : lightCore f o hue dflt flt = .ok calls) :
    ∃ m l keep img lab, 0 < m ∧ setupMultiplier f o.mult = .ok m ∧ lightSrc f o.aux dflt = .ok l ∧
      filterKeep f flt = .ok keep ∧
      calls = [.imshowHL img "lower"
        [f.mesh.region.lo 0 / m, f.mesh.region.hi 0 / m, f.mesh.region.lo 1 / m, f.mesh.region.hi 1 / m],
        lab] ∧
      img.shape = [f.mesh.nAt 1, f.mesh.nAt 0] ∧
      (∀ r c, img.get [r, c] =
        if keep.get [c, r] then
          some (hue [c, r], normalise (ndaMin ⟨f.mesh.n, l.get⟩) (ndaMax ⟨f.mesh.n, l.get⟩)
                              (o.clim.getD (0, 1)) (l.get [c, r]))
        else none) ∧
      ∀ x y, f.mesh.region.lo 0 ≤ x * m ∧ x * m ≤ f.mesh.region.hi 0 →
        f.mesh.region.lo 1 ≤ y * m ∧ y * m ≤ f.mesh.region.hi 1 →
        PixelCovers (f.mesh.nAt 1) (f.mesh.nAt 0)
          [f.mesh.region.lo 0 / m, f.mesh.region.hi 0 / m, f.mesh.region.lo 1 / m, f.mesh.region.hi 1 / m]
          (f.mesh.indexAx 1 (y * m)) (f.mesh.indexAx 0 (x * m)) x y ∧
        (∀ r c, r < f.mesh.nAt 1 → c < f.mesh.nAt 0 →
          PixelCovers (f.mesh.nAt 1) (f.mesh.nAt 0)
            [f.mesh.region.lo 0 / m, f.mesh.region.hi 0 / m, f.mesh.region.lo 1 / m, f.mesh.region.hi 1 / m]
            r c x y →
          r = f.mesh.indexAx 1 (y * m) ∧ c = f.mesh.indexAx 0 (x * m)) := by
  obtain ⟨m, ext, l, keep, lab, hm, he, hl, hk, hlab, hc⟩ := lightCore_ok_inv f o hue dflt flt calls h
  have hpos := axisLabels_pos _ _ _ hlab
  have hn : f.mesh.n.length = 2 := by rw [hinv.2.1, h2]
  rw [extent_eq f.mesh.region hinv.1 h2 m hpos] at he
  injection he with he
  subst he
  refine ⟨m, l, keep, _, lab, hpos, hm, hl, hk, hc, by rw [imgOf_shape]; rfl,
    fun r c => imgOf_get _ hn _ _ r c, ?_⟩
  intro x y hx hy
  obtain ⟨_, _, _, c, d, _⟩ := image_at_position f.mesh hinv h2 m hpos keep (fun _ => ()) x y hx hy
  exact ⟨c, d⟩

/-- **Hue = in-plane angle through the mapping.**  For 2- and 3-component fields a successful
lightness plot is the final stage run with the hue token `angle(comp_y, comp_x)` of every cell,
where `comp_x` / `comp_y` are the components whose labels the mapping sends to the first /
second spatial dimension, and with the filter in force (`filter_field` or validity). -/
theorem lightness_hue_inplane (sqrtF : Rat → Rat) (f : Fld) (o : Opts) (calls : List PlotCall)
    (hnv : f.nvdim = 2 ∨ f.nvdim = 3) (h : mplLightness sqrtF f o = .ok calls) :
    ∃ cx cy lx ly vs o' dflt, (lx, f.mesh.region.dims.getD 0 "") ∈ f.vmap ∧
      (ly, f.mesh.region.dims.getD 1 "") ∈ f.vmap ∧ f.vdims = some vs ∧
      vs.getD cx "" = lx ∧ vs.getD cy "" = ly ∧ o'.mult = o.mult ∧ o'.clim = o.clim ∧
      lightCore f o'
        (fun i => .angle ((f.data.get i).getD cy 0) ((f.data.get i).getD cx 0)) dflt (filterOf f o)
        = .ok calls := by
  have fin : ∀ (xy : Nat × Nat) (o' : Opts) (dflt : NDA Rat), angleComps f = .ok xy →
      lightCore f o' (fun i => .angle ((f.data.get i).getD xy.2 0) ((f.data.get i).getD xy.1 0)) dflt
        (filterOf f o) = .ok calls →
      o'.mult = o.mult → o'.clim = o.clim →
      ∃ cx cy lx ly vs o' dflt, (lx, f.mesh.region.dims.getD 0 "") ∈ f.vmap ∧
        (ly, f.mesh.region.dims.getD 1 "") ∈ f.vmap ∧ f.vdims = some vs ∧
        vs.getD cx "" = lx ∧ vs.getD cy "" = ly ∧ o'.mult = o.mult ∧ o'.clim = o.clim ∧
        lightCore f o'
          (fun i => .angle ((f.data.get i).getD cy 0) ((f.data.get i).getD cx 0)) dflt (filterOf f o)
          = .ok calls := by
    intro xy o' dflt hxy hcore hmult hclim
    obtain ⟨cx, cy⟩ := xy
    obtain ⟨lx, ly, hx, hy, hix, hiy⟩ := angleComps_ok_inv f cx cy hxy
    obtain ⟨vs, hvs, hvx⟩ := vdimIndex_spec f lx cx hix
    obtain ⟨vs', hvs', hvy⟩ := vdimIndex_spec f ly cy hiy
    rw [hvs] at hvs'
    injection hvs' with hvs'
    subst hvs'
    exact ⟨cx, cy, lx, ly, vs, o', dflt, rDimLast_mem f _ lx hx, rDimLast_mem f _ ly hy, hvs, hvx, hvy,
      hmult, hclim, hcore⟩
  unfold mplLightness at h
  split at h
  · cases h
  · split at h
    · -- two components
      split at h
      · cases h
      · rename_i xy hxy
        exact fin xy _ _ hxy h rfl rfl
    · rename_i hn2
      split at h
      · -- three components
        split at h
        · split at h
          · cases h
          · rename_i xy hxy
            exact fin xy _ _ hxy h rfl rfl
        · split at h
          · cases h
          · split at h
            · cases h
            · split at h
              · cases h
              · rename_i xy hxy
                exact fin xy _ _ hxy h rfl rfl
      · rename_i hn3
        rcases hnv with h' | h'
        · exact absurd h' hn2
        · exact absurd h' hn3

/-- **Hue of a scalar field** is its own value (in radians), default lightness its absolute
value, and the filter in force is `filter_field` or the validity mask. -/
theorem lightness_scalar (sqrtF : Rat → Rat) (f : Fld) (o : Opts) (h2 : f.mesh.region.ndim = 2)
    (hnv : f.nvdim = 1) :
    mplLightness sqrtF f o =
      lightCore f o (fun i => .val ((f.data.get i).getD 0 0))
        ⟨f.mesh.n, fun i => absR ((f.data.get i).getD 0 0)⟩ (filterOf f o) := by
  unfold mplLightness
  simp [h2, hnv]

/-- `normalise_to_range` with the default range `(0, 1)`: the smallest entry maps to 0, the
largest to 1, everything in between stays in `[0, 1]`, order preserved. -/
theorem normalise_unit (lo hi v w : Rat) (hlt : lo < hi) (h1 : lo ≤ v) (h2 : v ≤ w) (h3 : w ≤ hi) :
    normalise lo hi (0, 1) lo = 0 ∧ normalise lo hi (0, 1) hi = 1 ∧
    0 ≤ normalise lo hi (0, 1) v ∧ normalise lo hi (0, 1) v ≤ normalise lo hi (0, 1) w ∧
    normalise lo hi (0, 1) w ≤ 1 := by
  have hd : 0 < hi - lo := by linarith
  have hne : hi - lo ≠ 0 := ne_of_gt hd
  unfold normalise
  simp only [hne, if_false]
  refine ⟨by simp, by field_simp; ring, ?_, ?_, ?_⟩
  · have : 0 ≤ (v - lo) / (hi - lo) := div_nonneg (by linarith) hd.le
    linarith
  · have : (v - lo) / (hi - lo) ≤ (w - lo) / (hi - lo) := div_le_div_of_nonneg_right (by linarith) hd.le
    linarith
  · have : (w - lo) / (hi - lo) ≤ 1 := by rw [div_le_one hd]; linarith
    linarith

/-! ## axis labels -/

/-- **Labels.**  Every successful plot of every kind — scalar, contour, vector, default, and
lightness of fields with ANY number of components (the 2- and 3-component branches hand the
multiplier of the call down to the final stage) — ends by setting the axis labels to
`"<dim> (<prefix><unit>)"` per axis, where `<prefix>` is the SI prefix whose table entry is
the multiplier in force (`EndsWithLabels`, in `Lemmas/C20Plot.lean`); in particular a plot can
only succeed with a multiplier of the SI table. -/
theorem labels_eq (sqrtF : Rat → Rat) (f : Fld) (o : Opts) (calls : List PlotCall) :
    (mplScalar f o = .ok calls → ∃ m, setupMultiplier f o.mult = .ok m ∧ EndsWithLabels f.mesh.region m calls) ∧
    (mplContour f o = .ok calls → ∃ m, setupMultiplier f o.mult = .ok m ∧ EndsWithLabels f.mesh.region m calls) ∧
    (mplVector f o = .ok calls → ∃ m, setupMultiplier f o.mult = .ok m ∧ EndsWithLabels f.mesh.region m calls) ∧
    (mplDefault f o = .ok calls → ∃ m, setupMultiplier f o.mult = .ok m ∧ EndsWithLabels f.mesh.region m calls) ∧
    (mplLightness sqrtF f o = .ok calls →
      ∃ m, setupMultiplier f o.mult = .ok m ∧ EndsWithLabels f.mesh.region m calls) := by
  refine ⟨?_, ?_, ?_, ?_, ?_⟩
  · intro h
    obtain ⟨_, _, m, hm, hcore⟩ := mplScalar_ok_inv f o calls h
    obtain ⟨ext, keep, lab, _, _, hl, hc⟩ := scalarCore_ok_inv f o m calls hcore
    exact ⟨m, hm, by rw [hc]; exact endsWithLabels_of _ m lab [_] hl⟩
  · intro h
    obtain ⟨_, _, m, keep, lab, hm, _, hl, hc⟩ := mplContour_ok_inv f o calls h
    exact ⟨m, hm, by rw [hc]; exact endsWithLabels_of _ m lab [_] hl⟩
  · intro h
    obtain ⟨_, _, m, hm, hcore⟩ := mplVector_ok_inv f o calls h
    obtain ⟨_, _, _, _, _, lab, _, _, _, _, _, _, hl, hc⟩ := vectorCore_ok_inv f o m calls hcore
    exact ⟨m, hm, by rw [hc]; exact endsWithLabels_of _ m lab [_] hl⟩
  · intro h
    obtain ⟨_, m, lab, hm, hl, hcases⟩ := mplDefault_ok_inv f o calls h
    refine ⟨m, hm, ?_⟩
    rcases hcases with ⟨_, cs, _, hc⟩ | ⟨_, cv, _, hc⟩ | ⟨_, c, cs, cv, _, _, _, hc⟩
    · rw [hc]; exact endsWithLabels_of _ m lab cs hl
    · rw [hc]; exact endsWithLabels_of _ m lab cv hl
    · rw [hc]; exact endsWithLabels_of _ m lab (cs ++ cv) hl
  · intro h
    obtain ⟨_, o', hue, dflt, hmult, _, hcore⟩ := mplLightness_core_inv sqrtF f o calls h
    obtain ⟨m, _, _, _, lab, hm, _, _, _, hl, hc⟩ := lightCore_ok_inv f o' _ _ _ calls hcore
    rw [hmult] at hm
    exact ⟨m, hm, by rw [hc]; exact endsWithLabels_of _ m lab [_] hl⟩

/-- Non-vacuity of `labels_eq`, `vector_*`, `contour_grid`, `lightness_*`: the example fields
are plotted by every kind. -/
example : okB (mplVector exV {}) = true ∧ okB (mplContour exS {}) = true ∧
    okB (mplLightness (fun q => q) exV {}) = true ∧ okB (mplLightness (fun q => q) exS {}) = true ∧
    okB (mplDefault exV { useColor := false }) = true ∧ okB (mplDefault exS {}) = true := by
  decide +kernel

/-! ## default plot `field.mpl()` -/

/-- **Default plot of a 3-component field** = scalar plot of the one component that is NOT
mapped to an in-plane axis (filtered by `filter_field` or validity) followed by the vector
plot of the field, with one common multiplier, followed by the labels; so
`scalar_at_position`, `vector_at_centres` and `vector_components_through_mapping` apply to
its two parts. -/
theorem default_plot_three (f : Fld) (o : Opts) (calls : List PlotCall) (h3 : f.nvdim = 3)
    (h : mplDefault f o = .ok calls) :
    ∃ m c cs cv lab, setupMultiplier f o.mult = .ok m ∧ thirdComp f (inplaneVdims f) o.pick = .ok c ∧
      mplScalar (compField f c) { o with mult := some m, filter := some (filterOf f o) } = .ok cs ∧
      mplVector f { o with mult := some m } = .ok cv ∧ calls = cs ++ cv ++ [lab] ∧
      (∀ l, leftover f (inplaneVdims f) = [l] → ∃ vs, f.vdims = some vs ∧ vs.getD c "" = l ∧
        some l ∉ inplaneVdims f) := by
  obtain ⟨_, m, lab, hm, _, hcases⟩ := mplDefault_ok_inv f o calls h
  rcases hcases with ⟨h1, _⟩ | ⟨h2, _⟩ | ⟨_, c, cs, cv, hc, hcs, hcv, hcalls⟩
  · omega
  · omega
  · refine ⟨m, c, cs, cv, lab, hm, hc, hcs, hcv, hcalls, ?_⟩
    intro l hleft
    have hmem : l ∈ leftover f (inplaneVdims f) := by rw [hleft]; simp
    have hnot : some l ∉ inplaneVdims f := by
      unfold leftover at hmem
      have := (List.mem_filter.mp hmem).2
      simpa using this
    cases hk : f.vdimIndex l with
    | none =>
      rw [thirdComp_single_none f _ l o.pick hleft hk] at hc
      cases hc
    | some k =>
      rw [thirdComp_single f _ l o.pick k hleft hk] at hc
      injection hc with hc
      subst hc
      obtain ⟨vs, hvs, hks⟩ := vdimIndex_spec f l k hk
      exact ⟨vs, hvs, hks, hnot⟩

/-! ## refusals -/

/-- **Wrong spatial dimension.**  Every plot kind refuses a field whose mesh is not 2-d. -/
theorem refuse_not_2d (sqrtF : Rat → Rat) (f : Fld) (o : Opts) (h : f.mesh.region.ndim ≠ 2) :
    mplScalar f o = .error .runtime ∧ mplContour f o = .error .runtime ∧
    mplVector f o = .error .runtime ∧ mplDefault f o = .error .runtime ∧
    mplLightness sqrtF f o = .error .runtime := by
  refine ⟨?_, ?_, ?_, ?_, ?_⟩
  · unfold mplScalar; rw [if_pos h]
  · unfold mplContour; rw [if_pos h]
  · unfold mplVector; rw [if_pos h]
  · unfold mplDefault; rw [if_pos h]
  · unfold mplLightness; rw [if_pos h]

/-- **Wrong component dimension.**  `scalar` refuses fields with more than one component,
`contour` anything but one component, `mpl()` and `lightness` more than three. -/
theorem refuse_wrong_nvdim (sqrtF : Rat → Rat) (f : Fld) (o : Opts) :
    (1 < f.nvdim → ∃ e, mplScalar f o = .error e) ∧
    (f.nvdim ≠ 1 → ∃ e, mplContour f o = .error e) ∧
    (3 < f.nvdim → (∃ e, mplDefault f o = .error e) ∧ ∃ e, mplLightness sqrtF f o = .error e) := by
  refine ⟨?_, ?_, ?_⟩
  · intro h
    unfold mplScalar
    by_cases h2 : f.mesh.region.ndim ≠ 2
    · rw [if_pos h2]; exact ⟨_, rfl⟩
    · rw [if_neg h2, if_pos h]; exact ⟨_, rfl⟩
  · intro h
    unfold mplContour
    by_cases h2 : f.mesh.region.ndim ≠ 2
    · rw [if_pos h2]; exact ⟨_, rfl⟩
    · rw [if_neg h2, if_pos h]; exact ⟨_, rfl⟩
  · intro h
    constructor
    · unfold mplDefault
      by_cases h2 : f.mesh.region.ndim ≠ 2
      · rw [if_pos h2]; exact ⟨_, rfl⟩
      · rw [if_neg h2]
        cases hs : setupMultiplier f o.mult with
        | error e => exact ⟨_, rfl⟩
        | ok m =>
          simp only []
          rw [if_neg (by omega), if_neg (by omega), if_neg (by omega)]; exact ⟨_, rfl⟩
    · unfold mplLightness
      by_cases h2 : f.mesh.region.ndim ≠ 2
      · rw [if_pos h2]; exact ⟨_, rfl⟩
      · rw [if_neg h2, if_neg (by omega), if_neg (by omega), if_pos h]; exact ⟨_, rfl⟩

/-- **No mapping and no labels.**  `vector` refuses a field without component-to-axis mapping
unless `vdims=` is given; consequently `mpl()` refuses 2-component fields without a
mapping, and a scalar field (no labels, no mapping) cannot be drawn as arrows. -/
theorem refuse_vector_without_mapping (f : Fld) (o : Opts) (hv : o.vdimsArg = none) (hm : f.vmap = []) :
    (∃ e, mplVector f o = .error e) ∧ (f.nvdim = 2 → ∃ e, mplDefault f o = .error e) := by
  have hvec : ∀ o' : Opts, o'.vdimsArg = none → ∃ e, mplVector f o' = .error e := by
    intro o' hv'
    unfold mplVector
    by_cases h2 : f.mesh.region.ndim ≠ 2
    · rw [if_pos h2]; exact ⟨_, rfl⟩
    · rw [if_neg h2, if_pos (by simp [hv', hm])]; exact ⟨_, rfl⟩
  refine ⟨hvec o hv, ?_⟩
  intro h2
  unfold mplDefault
  by_cases hd : f.mesh.region.ndim ≠ 2
  · rw [if_pos hd]; exact ⟨_, rfl⟩
  · rw [if_neg hd]
    cases hs : setupMultiplier f o.mult with
    | error e => exact ⟨_, rfl⟩
    | ok m =>
      simp only []
      rw [if_neg (by omega), if_pos h2]
      obtain ⟨e, he⟩ := hvec { o with mult := some m } hv
      rw [he]; exact ⟨_, rfl⟩

/-- **Filter of the wrong dimension.**  A `filter_field` with more than one component, or
not defined on a 2-d mesh, makes `scalar` and `contour` fail; a multiplier outside the SI
table makes `scalar` fail. -/
theorem refuse_bad_filter_or_multiplier (f flt : Fld) (o : Opts) :
    (o.filter = some flt → (flt.nvdim ≠ 1 ∨ flt.mesh.region.ndim ≠ 2) →
      (∃ e, mplScalar f o = .error e) ∧ ∃ e, mplContour f o = .error e) ∧
    (∀ m, o.mult = some m → rsiPrefix? m = none → ∃ e, mplScalar f o = .error e) := by
  constructor
  · intro hflt hbad
    have hk : filterKeep f (filterOf f o) = .error .value := by
      have : filterOf f o = flt := by simp [filterOf, hflt]
      rw [this]
      unfold filterKeep
      by_cases hb : flt.nvdim ≠ 1
      · rw [if_pos hb]
      · rcases hbad with hb' | hb'
        · exact absurd hb' hb
        · rw [if_neg hb, if_pos hb']
    constructor
    · unfold mplScalar
      by_cases h2 : f.mesh.region.ndim ≠ 2
      · rw [if_pos h2]; exact ⟨_, rfl⟩
      · rw [if_neg h2]
        by_cases h1 : f.nvdim > 1
        · rw [if_pos h1]; exact ⟨_, rfl⟩
        · rw [if_neg h1]
          cases hs : setupMultiplier f o.mult with
          | error e => exact ⟨_, rfl⟩
          | ok m =>
            simp only [scalarCore]
            cases he : extent f.mesh.region m with
            | error e => exact ⟨_, rfl⟩
            | ok ext => simp only [hk]; exact ⟨_, rfl⟩
    · unfold mplContour
      by_cases h2 : f.mesh.region.ndim ≠ 2
      · rw [if_pos h2]; exact ⟨_, rfl⟩
      · rw [if_neg h2]
        by_cases h1 : f.nvdim ≠ 1
        · rw [if_pos h1]; exact ⟨_, rfl⟩
        · rw [if_neg h1]
          cases hs : setupMultiplier f o.mult with
          | error e => exact ⟨_, rfl⟩
          | ok m => simp only [hk]; exact ⟨_, rfl⟩
  · intro m hm hp
    unfold mplScalar
    by_cases h2 : f.mesh.region.ndim ≠ 2
    · rw [if_pos h2]; exact ⟨_, rfl⟩
    · rw [if_neg h2]
      by_cases h1 : f.nvdim > 1
      · rw [if_pos h1]; exact ⟨_, rfl⟩
      · rw [if_neg h1]
        simp only [setupMultiplier, hm, scalarCore]
        cases he : extent f.mesh.region m with
        | error e => exact ⟨_, rfl⟩
        | ok ext =>
          simp only []
          cases hk : filterKeep f (filterOf f o) with
          | error e => exact ⟨_, rfl⟩
          | ok keep => simp only [axisLabels, hp]; exact ⟨_, rfl⟩

/-- Non-vacuity of the refusal theorems: a 3-d example mesh, and the example vector field
stripped of its mapping, are refused. -/
example : okB (mplScalar { exS with mesh := { exMesh with region := { exRegion with pmin := [0, 0, 0], pmax := [4, 6, 1] } } } {}) = false ∧
    okB (mplVector { exV with vmap := [] } {}) = false ∧ okB (mplScalar exV {}) = false ∧
    okB (mplScalar exS { mult := some (1/100000000) }) = false := by
  decide +kernel

/-! ## SI prefixes and the default multiplier -/

/-- The mirrored SI table is its own inverse: looking a table multiplier up in
`rsi_prefixes` returns the prefix it is stored under (17 entries, by evaluation). -/
theorem si_table_inverse (p : String) (m : Rat) (h : (p, m) ∈ siTable) : rsiPrefix? m = some p := by
  obtain ⟨k, hk, rfl⟩ := (mem_siTable p m).mp h
  exact rsiPrefix_table (p, k) hk

/-- Decades of the table are disjoint: at most one entry puts a value into `[1, 1000)`, so the
order in which `si_multiplier` scans the table does not matter. -/
theorem si_decade_unique (v : Rat) (p p' : String) (m m' : Rat) (h : (p, m) ∈ siTable)
    (h' : (p', m') ∈ siTable) (hd : inDecade v m = true) (hd' : inDecade v m' = true) :
    m = m' ∧ p = p' := by
  obtain ⟨k, hk, rfl⟩ := (mem_siTable p m).mp h
  obtain ⟨k', hk', rfl⟩ := (mem_siTable p' m').mp h'
  have := decade_unique (absR v) k k' ((inDecade_iff _ _).mp hd) ((inDecade_iff _ _).mp hd')
  subst this
  have e1 := rsiPrefix_table (p, k) hk
  have e2 := rsiPrefix_table (p', k) hk'
  rw [e1] at e2
  injection e2 with e2
  exact ⟨rfl, e2⟩

/-- `si_multiplier` of a non-zero value returns `m` exactly when `m` is the table entry with
`1 ≤ |value| / m < 1000`. -/
theorem si_multiplier_spec (v m : Rat) (hv : v ≠ 0) :
    siMultiplier v = some m ↔ ∃ p, (p, m) ∈ siTable ∧ 1 ≤ absR v / m ∧ absR v / m < 1000 := by
  constructor
  · intro h
    obtain ⟨p, k, hk, hm, hd⟩ := siMultiplier_sound v m hv h
    exact ⟨p, (mem_siTable p m).mpr ⟨k, hk, hm⟩, hd⟩
  · rintro ⟨p, hp, hd⟩
    obtain ⟨k, hk, rfl⟩ := (mem_siTable p m).mp hp
    exact siMultiplier_complete v hv p k hk hd

/-- `si_multiplier` succeeds for every magnitude from `1e-24` up to (excluding) `1e27`. -/
theorem si_multiplier_total (v : Rat) (hv : v ≠ 0) (h1 : p1000 (-8) ≤ absR v) (h2 : absR v < p1000 9) :
    ∃ p m, (p, m) ∈ siTable ∧ siMultiplier v = some m := by
  obtain ⟨p, k, hk, hs⟩ := siMultiplier_total v hv h1 h2
  exact ⟨p, p1000 k, (mem_siTable p _).mpr ⟨k, hk, rfl⟩, hs⟩

/-- **Default multiplier.**  When no multiplier is given, the one computed from the region
(`si_max_multiplier(edges)`) is a table entry — so it has a prefix and the labels can be
written — for which the longest edge measures between 1 and 1000 units and no edge reaches
1000 units. -/
theorem default_multiplier_decade (f : Fld) (hinv : f.mesh.Inv) (m : Rat)
    (h : setupMultiplier f none = .ok m) :
    (∃ pre, (pre, m) ∈ siTable ∧ rsiPrefix? m = some pre) ∧
    (∃ a, a < f.mesh.region.ndim ∧ 1 ≤ f.mesh.region.edge a / m ∧ f.mesh.region.edge a / m < 1000) ∧
    ∀ a, a < f.mesh.region.ndim → f.mesh.region.edge a / m < 1000 := by
  obtain ⟨⟨_, _, _, _, _, hlt⟩, _, _⟩ := hinv
  have hedge : ∀ a, a < f.mesh.region.ndim → 0 < f.mesh.region.edge a := by
    intro a ha
    have := hlt a ha
    unfold Region.edge
    linarith
  have habs : ∀ a, a < f.mesh.region.ndim → absR (f.mesh.region.edge a) = f.mesh.region.edge a := by
    intro a ha
    rw [absR_eq_abs, abs_of_pos (hedge a ha)]
  simp only [setupMultiplier, siMaxMultiplier] at h
  obtain ⟨hmem, hall⟩ := maxOpt_ok _ m h
  obtain ⟨e, he, hsm⟩ := List.mem_map.mp hmem
  have he' : ∃ a, a < f.mesh.region.ndim ∧ f.mesh.region.edge a = e := by
    unfold Region.edges tab at he
    obtain ⟨a, ha, hae⟩ := List.mem_map.mp he
    exact ⟨a, List.mem_range.mp ha, hae⟩
  obtain ⟨a, ha, rfl⟩ := he'
  obtain ⟨p, k, hk, hmk, hd1, hd2⟩ := siMultiplier_sound _ m (ne_of_gt (hedge a ha)) hsm
  rw [habs a ha] at hd1 hd2
  have hmpos : 0 < m := by rw [hmk]; exact p1000_pos k
  refine ⟨⟨p, (mem_siTable p m).mpr ⟨k, hk, hmk⟩, ?_⟩, ⟨a, ha, hd1, hd2⟩, ?_⟩
  · rw [hmk]; exact rsiPrefix_table (p, k) hk
  · intro b hb
    have hbm : siMultiplier (f.mesh.region.edge b) ∈ f.mesh.region.edges.map siMultiplier := by
      apply List.mem_map.mpr
      refine ⟨f.mesh.region.edge b, ?_, rfl⟩
      unfold Region.edges tab
      exact List.mem_map.mpr ⟨b, List.mem_range.mpr hb, rfl⟩
    obtain ⟨m', hm', hle⟩ := hall _ hbm
    obtain ⟨_, k', _, hmk', _, hd2'⟩ := siMultiplier_sound _ m' (ne_of_gt (hedge b hb)) hm'
    rw [habs b hb] at hd2'
    have hm'pos : 0 < m' := by rw [hmk']; exact p1000_pos k'
    have : f.mesh.region.edge b / m ≤ f.mesh.region.edge b / m' :=
      div_le_div_of_nonneg_left (hedge b hb).le hm'pos hle
    linarith

/-- The default multiplier exists whenever every edge of the region lies in `[1e-24, 1e27)`. -/
theorem default_multiplier_exists (f : Fld) (hinv : f.mesh.Inv)
    (hr : ∀ a, a < f.mesh.region.ndim →
      p1000 (-8) ≤ f.mesh.region.edge a ∧ f.mesh.region.edge a < p1000 9) :
    ∃ m, setupMultiplier f none = .ok m := by
  obtain ⟨⟨hpos, _, _, _, _, hlt⟩, _, _⟩ := hinv
  simp only [setupMultiplier, siMaxMultiplier]
  apply maxOpt_total
  · intro hnil
    have : (f.mesh.region.edges.map siMultiplier).length = 0 := by rw [hnil]; rfl
    simp [Region.edges] at this
    unfold Region.ndim at this
    omega
  · intro x hx
    obtain ⟨e, he, hxe⟩ := List.mem_map.mp hx
    unfold Region.edges tab at he
    obtain ⟨a, ha, hae⟩ := List.mem_map.mp he
    have ha' := List.mem_range.mp ha
    have hedge : 0 < f.mesh.region.edge a := by
      have := hlt a ha'
      unfold Region.edge
      linarith
    have habs : absR (f.mesh.region.edge a) = f.mesh.region.edge a := by
      rw [absR_eq_abs, abs_of_pos hedge]
    obtain ⟨_, k, _, hs⟩ := siMultiplier_total (f.mesh.region.edge a) (ne_of_gt hedge)
      (by rw [habs]; exact (hr a ha').1) (by rw [habs]; exact (hr a ha').2)
    exact ⟨p1000 k, by rw [← hxe, ← hae, hs]⟩

/-- Non-vacuity: the example region `[0,4]×[0,6]` gets the multiplier 1 (no prefix); a region
of 40 nm × 60 nm gets `1e-9`, prefix `n`. -/
example : setupMultiplier exS none = .ok 1 ∧ rsiPrefix? 1 = some "" ∧
    siMaxMultiplier [4/100000000, 6/100000000] = .ok (1/1000000000) ∧
    rsiPrefix? (1/1000000000) = some "n" := by
  decide +kernel

/-! ## further non-vacuity checks -/

/-- the example vector field: arrows use `b` (mapped to `x`) and `a` (mapped to `y`), exactly
one label (`c`) is left over for the colour, and its hypotheses for `vector_colour_third` hold -/
example : inplaneVdims exV = [some "b", some "a"] ∧ leftover exV (inplaneVdims exV) = ["c"] ∧
    exV.nvdim = 3 ∧ exV.mesh.region.ndim = 2 ∧
    okB (colourOf exV {} (inplaneVdims exV)) = true ∧
    okB (colourOf exV { aux := some exOnes } (inplaneVdims exV)) = true := by
  decide +kernel

example : normalise 2 10 (0, 1) 2 = 0 ∧ normalise 2 10 (0, 1) 10 = 1 ∧ normalise 2 10 (0, 1) 4 = 1/4 ∧
    normalise 3 3 (0, 1) 3 = 0 := by
  decide +kernel

example : ∀ a, a < exS.mesh.region.ndim →
    p1000 (-8) ≤ exS.mesh.region.edge a ∧ exS.mesh.region.edge a < p1000 9 := by
  decide +kernel


/-! ## hidden cells, every plot kind, every resolution of the filter

`keptBy f flt [i, j]` (in `Lemmas/C20Keep.lean`) is the property's own description of a drawn
cell: `f.valid[i, j]` and, when a `filter_field` `g` is given, `auxAt f g [i, j] ≠ 0`, where
`auxAt` is `g`'s value in the cell itself when `g` has the cell counts of `f`, and otherwise
`g`'s value in the cell `srcIdx g.mesh f.mesh [i, j] = [⌊(2i+1)·n'₀/(2n₀)⌋, ⌊(2j+1)·n'₁/(2n₁)⌋]`
(`n` cell counts of `f`, `n'` of `g`).  `AuxGeom f g` asks for nothing when the counts agree
and for well-formed meshes otherwise. -/

/-- **Scalar plot: exactly the invalid-or-filtered cells are hidden**, for the default filter,
an explicit filter on the same cell counts and an explicit filter on ANOTHER resolution alike:
pixel `[j][i]` shows the value of cell `(i, j)` when the cell is valid and non-zero in the
filter field (looked up in closed form, see above), and NaN otherwise.  Generalises
`scalar_default_hides_invalid` and `scalar_filter_hides_zero_and_invalid`. -/
theorem scalar_hides_exactly (f : Fld) (o : Opts) (calls : List PlotCall) (hinv : f.mesh.Inv)
    (hgeo : ∀ g, o.filter = some g → AuxGeom f g) (h : mplScalar f o = .ok calls) :
    ∃ img ext lab, calls = [.imshow img "lower" ext, lab] ∧
      ∀ i j, i < f.mesh.nAt 0 → j < f.mesh.nAt 1 →
        img.get [j, i] = if keptBy f o.filter [i, j] then some ((f.data.get [i, j]).getD 0 0) else none := by
  obtain ⟨h2, _, m, _, hcore⟩ := mplScalar_ok_inv f o calls h
  obtain ⟨ext, keep, lab, _, hk, _, hc⟩ := scalarCore_ok_inv f o m calls hcore
  have hn : f.mesh.n.length = 2 := by rw [hinv.2.1, h2]
  refine ⟨_, ext, lab, hc, fun i j hi hj => ?_⟩
  rw [imgOf_get _ hn, filterKeep_keptBy f o h2 hgeo keep hk i j hi hj]

/-- **Contour plot: exactly the invalid-or-filtered cells are hidden** (same statement for
`Z[j][i]`), default filter, explicit filter, any resolution. -/
theorem contour_hides_exactly (f : Fld) (o : Opts) (calls : List PlotCall) (hinv : f.mesh.Inv)
    (hgeo : ∀ g, o.filter = some g → AuxGeom f g) (h : mplContour f o = .ok calls) :
    ∃ X Y Z lab, calls = [.contour X Y Z, lab] ∧
      ∀ i j, i < f.mesh.nAt 0 → j < f.mesh.nAt 1 →
        Z.get [j, i] = if keptBy f o.filter [i, j] then some ((f.data.get [i, j]).getD 0 0) else none := by
  obtain ⟨h2, _, m, keep, lab, _, hk, _, hc⟩ := mplContour_ok_inv f o calls h
  have hn : f.mesh.n.length = 2 := by rw [hinv.2.1, h2]
  refine ⟨_, _, _, lab, hc, fun i j hi hj => ?_⟩
  rw [imgOf_get _ hn, filterKeep_keptBy f o h2 hgeo keep hk i j hi hj]

/-- **What "zero in the filter field" means on another resolution.**  When the filter `g` lives
on the same region as the plotted field `f` but has other cell counts, the value that decides
cell `(i, j)` of `f` is `g`'s value in the cell of `g`'s mesh that CONTAINS the centre of cell
`(i, j)` (C01's `indexAx` of the centre), and that centre lies inside `g`'s region.  (The same
lookup serves colour and lightness fields, see `vector_colour_object`,
`lightness_vector_values`.) -/
theorem filter_lookup_contains (f g : Fld) (hf : f.mesh.Inv) (hg : g.mesh.Inv)
    (hreg : f.mesh.region = g.mesh.region) (hn : g.mesh.n ≠ f.mesh.n) (h2 : f.mesh.region.ndim = 2)
    (i j : Nat) (hi : i < f.mesh.nAt 0) (hj : j < f.mesh.nAt 1) :
    auxAt f g [i, j] =
      (g.data.get [g.mesh.indexAx 0 (f.mesh.centreAx 0 (i : Int)),
                   g.mesh.indexAx 1 (f.mesh.centreAx 1 (j : Int))]).getD 0 0 ∧
    g.mesh.region.lo 0 ≤ f.mesh.centreAx 0 (i : Int) ∧ f.mesh.centreAx 0 (i : Int) ≤ g.mesh.region.hi 0 ∧
    g.mesh.region.lo 1 ≤ f.mesh.centreAx 1 (j : Int) ∧ f.mesh.centreAx 1 (j : Int) ≤ g.mesh.region.hi 1 := by
  have hg2 : g.mesh.ndim = 2 := by unfold Mesh.ndim; rw [← hreg]; exact h2
  have hf2 : f.mesh.ndim = 2 := h2
  refine ⟨?_, ?_⟩
  · unfold auxAt
    rw [if_neg hn, srcIdx_contains g.mesh f.mesh hg hf hreg [i, j] (by
      intro b hb
      rcases (by omega : b = 0 ∨ b = 1) with rfl | rfl
      · simpa using hi
      · simpa using hj), hg2]
    rfl
  · have c0 := C07.centre_bounds f.mesh 0 i hi (C07.inv_cell_pos hf (by omega))
    have c1 := C07.centre_bounds f.mesh 1 j hj (C07.inv_cell_pos hf (by omega))
    rw [hreg] at c0 c1
    exact ⟨c0.1, c0.2, c1.1, c1.2⟩

/-- Non-vacuity of the three theorems above: the 4 × 3 filter `exFine` on the 2 × 3 example
field satisfies `AuxGeom`, the plot succeeds, cell `(0, 0)` (valid, but the filter is zero in
the filter cells 0 and 1 along x) is hidden and cell `(1, 1)` is drawn. -/
example : AuxGeom exS exFine ∧ okB (mplScalar exS { filter := some exFine }) = true ∧
    okB (mplContour exS { filter := some exFine }) = true ∧
    keptBy exS (some exFine) [0, 0] = false ∧ keptBy exS (some exFine) [1, 1] = true ∧
    exS.valid.get [0, 0] = true ∧ srcIdx exFine.mesh exS.mesh [1, 1] = [3, 1] :=
  ⟨Or.inr ⟨mesh_inv_of_invB _ (by decide +kernel), exMesh_inv⟩, by decide +kernel, by decide +kernel,
   by decide +kernel, by decide +kernel, by decide +kernel, by decide +kernel⟩

/-- **Arrows are hidden exactly in invalid cells**: the arrow of cell `(i, j)` has a NaN
component (is not drawn) if and only if the cell is invalid — whatever the mapping, the explicit
labels, the colour request. -/
theorem vector_hides_exactly_invalid (f : Fld) (o : Opts) (calls : List PlotCall) (hinv : f.mesh.Inv)
    (h : mplVector f o = .ok calls) :
    ∃ X Y U V C lab, calls = [.quiver X Y U V C, lab] ∧
      ∀ i j, ((U.get [j, i]).isNone ∨ (V.get [j, i]).isNone) ↔ f.valid.get [i, j] = false := by
  obtain ⟨h2, _, m, _, hcore⟩ := mplVector_ok_inv f o calls h
  obtain ⟨keep, vd, ax, ay, C, lab, hk, _, _, _, hnn, _, _, hc⟩ := vectorCore_ok_inv f o m calls hcore
  have hn : f.mesh.n.length = 2 := by rw [hinv.2.1, h2]
  obtain ⟨keep', hk', hget⟩ := filterKeep_valid f h2
  rw [hk'] at hk
  injection hk with hk
  subst hk
  refine ⟨_, _, _, _, C, lab, hc, fun i j => ?_⟩
  cases ax with
  | none =>
    cases ay with
    | none => simp at hnn
    | some ky =>
      rw [arrowArr_none_get f hn, arrowArr_some_get f hn, hget]
      cases f.valid.get [i, j] <;> simp
  | some kx =>
    rw [arrowArr_some_get f hn, hget]
    cases ay with
    | none =>
      rw [arrowArr_none_get f hn]
      cases f.valid.get [i, j] <;> simp
    | some ky =>
      rw [arrowArr_some_get f hn, hget]
      cases f.valid.get [i, j] <;> simp

/-! ## lightness plot of every number of components, object level -/

/-- **Lightness plot, any number of components, default or explicit multiplier.**  Whenever
`field.mpl.lightness` succeeds — for a 1-, 2- or 3-component field alike — it makes one `imshow`
call with `origin="lower"` and extent `region / m` followed by the axis labels announcing the
SAME `m`, where `m` is the multiplier of the call (`multiplier=` if given, else the region's
default): the multiplier is handed down through the recursion of the 2- and 3-component
branches.  The image has shape `(n₁, n₀)`; pixel `[j][i]` is opaque exactly when cell `(i, j)`
is valid and non-zero in the filter in force (`keptBy`), transparent otherwise; and the pixel
covering any physical point of the region under the imshow contract is the pixel of the cell
containing that point. -/
theorem lightness_any_nvdim (sqrtF : Rat → Rat) (f : Fld) (o : Opts) (calls : List PlotCall)
    (hinv : f.mesh.Inv) (hgeo : ∀ g, o.filter = some g → AuxGeom f g)
    (h : mplLightness sqrtF f o = .ok calls) :
    ∃ m img lab, 0 < m ∧ setupMultiplier f o.mult = .ok m ∧
      calls = [.imshowHL img "lower"
        [f.mesh.region.lo 0 / m, f.mesh.region.hi 0 / m, f.mesh.region.lo 1 / m, f.mesh.region.hi 1 / m],
        lab] ∧
      EndsWithLabels f.mesh.region m calls ∧
      img.shape = [f.mesh.nAt 1, f.mesh.nAt 0] ∧
      (∀ i j, i < f.mesh.nAt 0 → j < f.mesh.nAt 1 →
        (img.get [j, i]).isSome = keptBy f o.filter [i, j]) ∧
      ∀ x y, f.mesh.region.lo 0 ≤ x * m ∧ x * m ≤ f.mesh.region.hi 0 →
        f.mesh.region.lo 1 ≤ y * m ∧ y * m ≤ f.mesh.region.hi 1 →
        PixelCovers (f.mesh.nAt 1) (f.mesh.nAt 0)
          [f.mesh.region.lo 0 / m, f.mesh.region.hi 0 / m, f.mesh.region.lo 1 / m, f.mesh.region.hi 1 / m]
          (f.mesh.indexAx 1 (y * m)) (f.mesh.indexAx 0 (x * m)) x y ∧
        (∀ r c, r < f.mesh.nAt 1 → c < f.mesh.nAt 0 →
          PixelCovers (f.mesh.nAt 1) (f.mesh.nAt 0)
            [f.mesh.region.lo 0 / m, f.mesh.region.hi 0 / m, f.mesh.region.lo 1 / m, f.mesh.region.hi 1 / m]
            r c x y →
          r = f.mesh.indexAx 1 (y * m) ∧ c = f.mesh.indexAx 0 (x * m)) := by
  obtain ⟨h2, o', hue, dflt, hmult, _, hcore⟩ := mplLightness_core_inv sqrtF f o calls h
  obtain ⟨m, l, keep, img, lab, hpos, hm, _, hk, hc, hshape, hpix, hposn⟩ :=
    lightness_pixels f o' hue dflt (filterOf f o) calls hinv h2 hcore
  obtain ⟨m', _, _, _, lab', hm', _, _, _, hlab, hc'⟩ := lightCore_ok_inv f o' hue dflt _ calls hcore
  have hmm : m' = m := by rw [hm] at hm'; injection hm' with hm'; exact hm'.symm
  subst hmm
  have hll : lab' = lab := by
    rw [hc] at hc'
    injection hc' with _ hc'
    injection hc' with hc' _
    exact hc'.symm
  subst hll
  rw [hmult] at hm
  refine ⟨m', img, lab', hpos, hm, hc, ?_, hshape, ?_, hposn⟩
  · rw [hc]
    exact endsWithLabels_of f.mesh.region m' lab' [_] hlab
  · intro i j hi hj
    rw [hpix j i, ← filterKeep_keptBy f o h2 hgeo keep hk i j hi hj]
    cases keep.get [i, j] <;> simp

/-- **Lightness plot of 2- and 3-component fields: what every pixel carries.**  The hue token of
pixel `[j][i]` is `angle(comp_y, comp_x)` of cell `(i, j)`, `comp_x` / `comp_y` being the
components whose labels the mapping sends to the first / second spatial dimension; its
lightness is `normalise_to_range` (over the whole array, onto `clim` or `(0, 1)`) of the
lightness value `lv` of the cell, and `lv` is
* the given `lightness_field`'s value in the cell (same counts) or in the cell at the same
  relative position (`auxAt`, another resolution), if one was given;
* `sqrt(Σ comp²)` — `field.norm` — for 2 components with nothing given;
* the component that is NOT mapped to a plot axis for 3 components with nothing given.
Hidden pixels are exactly the invalid-or-filtered cells. -/
theorem lightness_vector_values (sqrtF : Rat → Rat) (f : Fld) (o : Opts) (calls : List PlotCall)
    (hinv : f.mesh.Inv) (hnv : f.nvdim = 2 ∨ f.nvdim = 3)
    (hgeoF : ∀ g, o.filter = some g → AuxGeom f g) (hgeoL : ∀ g, o.aux = some g → AuxGeom f g)
    (h : mplLightness sqrtF f o = .ok calls) :
    ∃ (cx cy : Nat) (lx ly : String) (vs : List String) (lv : List Nat → Rat) (img : NDA (Option (Hue × Rat))) (ext : List Rat) (lab : PlotCall),
      (lx, f.mesh.region.dims.getD 0 "") ∈ f.vmap ∧ (ly, f.mesh.region.dims.getD 1 "") ∈ f.vmap ∧
      f.vdims = some vs ∧ vs.getD cx "" = lx ∧ vs.getD cy "" = ly ∧
      calls = [.imshowHL img "lower" ext, lab] ∧
      ((∃ g, o.aux = some g ∧ g.nvdim = 1 ∧ g.mesh.region.ndim = 2 ∧
          ∀ i j, i < f.mesh.nAt 0 → j < f.mesh.nAt 1 → lv [i, j] = auxAt f g [i, j]) ∨
       (o.aux = none ∧ f.nvdim = 2 ∧ ∀ i j, lv [i, j] = sqrtF (normSq (f.data.get [i, j]))) ∨
       (o.aux = none ∧ f.nvdim = 3 ∧ ∃ c, thirdComp f (inplaneVdims f) o.pick = .ok c ∧
          (∀ l, leftover f (inplaneVdims f) = [l] → vs.getD c "" = l ∧ some l ∉ inplaneVdims f) ∧
          ∀ i j, lv [i, j] = (f.data.get [i, j]).getD c 0)) ∧
      ∀ i j, i < f.mesh.nAt 0 → j < f.mesh.nAt 1 →
        img.get [j, i] =
          if keptBy f o.filter [i, j] then
            some (.angle ((f.data.get [i, j]).getD cy 0) ((f.data.get [i, j]).getD cx 0),
                  normalise (ndaMin ⟨f.mesh.n, lv⟩) (ndaMax ⟨f.mesh.n, lv⟩) (o.clim.getD (0, 1)) (lv [i, j]))
          else none := by
  obtain ⟨h2, cx, cy, lx, ly, vs, L, hmx, hmy, hvs, hvx, hvy, hL, hcore⟩ :=
    mplLightness_vec_inv sqrtF f o calls hnv h
  obtain ⟨m, l, keep, img, lab, _, _, hl, hk, hc, _, hpix, _⟩ :=
    lightness_pixels f _ _ _ _ calls hinv h2 hcore
  obtain ⟨hL1, hL2, a, ha, hla⟩ := lightSrc_some_inv f L _ l hl
  refine ⟨cx, cy, lx, ly, vs, l.get, img, _, lab, hmx, hmy, hvs, hvx, hvy, hc, ?_, ?_⟩
  · cases hL with
    | given _ hg =>
      left
      refine ⟨L, hg, hL1, hL2, fun i j hi hj => ?_⟩
      rw [hla, auxOnMesh_at f L (hgeoL L hg) h2 hL2 a ha i j hi hj]
    | norm hn h2' =>
      right; left
      refine ⟨hn, h2', fun i j => ?_⟩
      rw [auxOnMesh_same f (normField sqrtF f) rfl] at ha
      injection ha with ha
      rw [hla, ← ha]
      rfl
    | third hn h3 hm c hc' =>
      right; right
      refine ⟨hn, h3, c, hc', ?_, fun i j => ?_⟩
      · intro lb hleft
        have hmem : lb ∈ leftover f (inplaneVdims f) := by rw [hleft]; simp
        have hnot : some lb ∉ inplaneVdims f := by
          unfold leftover at hmem
          have := (List.mem_filter.mp hmem).2
          simpa using this
        cases hk' : f.vdimIndex lb with
        | none =>
          rw [thirdComp_single_none f _ lb o.pick hleft hk'] at hc'
          cases hc'
        | some k =>
          rw [thirdComp_single f _ lb o.pick k hleft hk'] at hc'
          injection hc' with hc'
          subst hc'
          obtain ⟨vs', hvs', hks⟩ := vdimIndex_spec f lb k hk'
          rw [hvs] at hvs'
          injection hvs' with hvs'
          subst hvs'
          exact ⟨hks, hnot⟩
      · rw [auxOnMesh_same f (compField f c) rfl] at ha
        injection ha with ha
        rw [hla, ← ha]
        rfl
  · intro i j hi hj
    rw [hpix j i, filterKeep_keptBy f o h2 hgeoF keep hk i j hi hj]
    rfl

/-- Non-vacuity: the 3-component example field has its lightness plot with an explicit
multiplier (`k`), with a lightness field on another resolution, and the 2-component version of
it (labels `a`, `b`) with the default norm. -/
example : okB (mplLightness (fun q => q) exV { mult := some 1000 }) = true ∧
    okB (mplLightness (fun q => q) exV { aux := some exFine, filter := some exOnes }) = true ∧
    okB (mplLightness (fun q => q)
      { exV with nvdim := 2, vdims := some ["a", "b"], vmap := [("a", "y"), ("b", "x")] } {}) = true ∧
    AuxGeom exV exFine ∧ AuxGeom exV exOnes :=
  ⟨by decide +kernel, by decide +kernel, by decide +kernel,
   Or.inr ⟨mesh_inv_of_invB _ (by decide +kernel), exMesh_inv⟩, Or.inl rfl⟩

/-! ## vector plot: the colour argument, object level -/

/-- **Colour of the arrows, stated on the `quiver` call itself.**  For a successful
`field.mpl.vector` with arrow labels `vd`: no colour array with `use_color=False`, and none for
fields that do not have three components when no colour field is given; with a `color_field`
`g` (one component, 2-d mesh) `C[j][i]` is `g`'s value in cell `(i, j)` — or, on another
resolution, in the cell at the same relative position (`auxAt`, physically the cell containing
the centre, `filter_lookup_contains`); for a 3-component field without colour field, `C[j][i]`
is the component of cell `(i, j)` whose label is the one left over after removing the two arrow
labels.  The colour array is never masked. -/
theorem vector_colour_object (f : Fld) (o : Opts) (calls : List PlotCall) (hinv : f.mesh.Inv)
    (hgeo : ∀ g, o.aux = some g → AuxGeom f g) (h : mplVector f o = .ok calls) :
    ∃ vd X Y U V C lab, vectorVdims f o = .ok vd ∧ calls = [.quiver X Y U V C, lab] ∧
      (o.useColor = false → C = none) ∧
      (o.useColor = true → o.aux = none → f.nvdim ≠ 3 → C = none) ∧
      (∀ g, o.useColor = true → o.aux = some g →
        g.nvdim = 1 ∧ g.mesh.region.ndim = 2 ∧
        ∃ arr, C = some arr ∧ arr.shape = [f.mesh.nAt 1, f.mesh.nAt 0] ∧
          ∀ i j, i < f.mesh.nAt 0 → j < f.mesh.nAt 1 → arr.get [j, i] = auxAt f g [i, j]) ∧
      (∀ l, o.useColor = true → o.aux = none → f.nvdim = 3 → leftover f vd = [l] →
        ∃ arr k vs, C = some arr ∧ f.vdims = some vs ∧ vs.getD k "" = l ∧ some l ∉ vd ∧
          arr.shape = [f.mesh.nAt 1, f.mesh.nAt 0] ∧
          ∀ i j, arr.get [j, i] = (f.data.get [i, j]).getD k 0) := by
  obtain ⟨h2, _, m, _, hcore⟩ := mplVector_ok_inv f o calls h
  obtain ⟨keep, vd, ax, ay, C, lab, _, hvd, _, _, _, hcol, _, hc⟩ := vectorCore_ok_inv f o m calls hcore
  have hn : f.mesh.n.length = 2 := by rw [hinv.2.1, h2]
  refine ⟨vd, _, _, _, _, C, lab, hvd, hc, ?_, ?_, ?_, ?_⟩
  · intro huse
    rw [colourOf_off f o vd huse] at hcol
    injection hcol with hcol
    exact hcol.symm
  · intro huse haux h3
    unfold colourOf at hcol
    rw [huse, haux] at hcol
    simp only [Bool.not_true, Bool.false_eq_true, if_false, h3, ne_eq, not_false_eq_true, if_true] at hcol
    injection hcol with hcol
    exact hcol.symm
  · intro g huse haux
    obtain ⟨g1, g2, a, ha, hC⟩ := colourOf_aux_inv f g o vd huse haux C hcol
    refine ⟨g1, g2, _, hC, by rw [colourArr_shape]; rfl, fun i j hi hj => ?_⟩
    rw [colourArr_get _ hn, auxOnMesh_at f g (hgeo g haux) h2 g2 a ha i j hi hj]
  · intro l huse haux h3 hleft
    obtain ⟨arr, k, vs, e1, e2, e3, e4, e5, e6⟩ :=
      vector_colour_third f o vd l hinv h2 huse haux h3 hleft C hcol
    exact ⟨arr, k, vs, e1, e2, e3, e4, e5, fun i j => e6 j i⟩

/-- **Component number 0 is a component like any other.**  When the label chosen for the
horizontal (vertical) arrow direction — through the mapping or through `vdims=` — is the FIRST
component label of the field, the arrows' horizontal (vertical) component is component number 0
of every valid cell, not zeros: the code tests the label (`if vdims[0]`), never the index. -/
theorem vector_component_zero (f : Fld) (o : Opts) (calls : List PlotCall) (hinv : f.mesh.Inv)
    (vd : List (Option String)) (l : String) (rest : List String) (hvd : vectorVdims f o = .ok vd)
    (hvs : f.vdims = some (l :: rest)) (hl : l ≠ "") (h : mplVector f o = .ok calls) :
    ∃ X Y U V C lab, calls = [.quiver X Y U V C, lab] ∧
      (vd.getD 0 none = some l → ∀ r c, U.get [r, c] =
        if f.valid.get [c, r] then some ((f.data.get [c, r]).getD 0 0) else none) ∧
      (vd.getD 1 none = some l → ∀ r c, V.get [r, c] =
        if f.valid.get [c, r] then some ((f.data.get [c, r]).getD 0 0) else none) := by
  obtain ⟨h2, _, m, _, hcore⟩ := mplVector_ok_inv f o calls h
  obtain ⟨keep, vd', ax, ay, C, lab, hk, hvd', hax, hay, _, _, _, hc⟩ := vectorCore_ok_inv f o m calls hcore
  rw [hvd] at hvd'
  injection hvd' with hvd'
  subst hvd'
  have hn : f.mesh.n.length = 2 := by rw [hinv.2.1, h2]
  obtain ⟨keep', hk', hget⟩ := filterKeep_valid f h2
  rw [hk'] at hk
  injection hk with hk
  subst hk
  have hidx : arrowIdx f (some l) = .ok (some 0) := by
    unfold arrowIdx
    simp only [hl, if_false, hvs]
    unfold indexOf? indexOf?.go
    simp
  refine ⟨_, _, _, _, C, lab, hc, fun h0 r c => ?_, fun h1 r c => ?_⟩
  · rw [h0, hidx] at hax
    injection hax with hax
    rw [← hax, arrowArr_some_get f hn, hget]
  · rw [h1, hidx] at hay
    injection hay with hay
    rw [← hay, arrowArr_some_get f hn, hget]

/-- Non-vacuity: the example vector field with the default colour (component `c`), with a colour
field on 4 × 3 cells, with explicit labels whose FIRST entry is component number 0 (`a`), and
with only a vertical component. -/
example : okB (mplVector exV {}) = true ∧ okB (mplVector exV { aux := some exFine }) = true ∧
    okB (mplVector exV { vdimsArg := some [some "a", some "c"] }) = true ∧
    okB (mplVector exV { vdimsArg := some [none, some "a"], useColor := false }) = true ∧
    arrowIdx exV (some "a") = .ok (some 0) := by
  decide +kernel

/-! ## default plot `field.mpl()`, object level -/

/-- **Default plot, every number of components.**  A successful `field.mpl()` uses ONE multiplier
`m` (the call's, else the region's default) for everything it draws and ends with the labels
announcing `m`.  For 1 component it is the scalar image of the field; for 3 components the scalar
image of the component `c` not mapped to a plot axis, followed by the vector plot; for 2
components the vector plot alone.  The scalar image has `origin="lower"`, extent `region / m`,
shape `(n₁, n₀)`, and pixel `[j][i]` shows component `c` of cell `(i, j)` when the cell is valid
and non-zero in the `filter_field` of `scalar_kw` (default: the field's own validity), NaN
otherwise; the vector part is `field.mpl.vector(multiplier=m, **vector_kw)`, to which
`vector_at_centres`, `vector_components_through_mapping`, `vector_hides_exactly_invalid` and
`vector_colour_object` apply. -/
theorem default_plot_object (f : Fld) (o : Opts) (calls : List PlotCall) (hinv : f.mesh.Inv)
    (hgeo : ∀ g, o.filter = some g → AuxGeom f g) (h : mplDefault f o = .ok calls) :
    ∃ m lab, 0 < m ∧ setupMultiplier f o.mult = .ok m ∧ EndsWithLabels f.mesh.region m calls ∧
      axisLabels f.mesh.region m = .ok lab ∧
      ((f.nvdim = 1 ∧ ∃ img lab', calls = [.imshow img "lower"
            [f.mesh.region.lo 0 / m, f.mesh.region.hi 0 / m, f.mesh.region.lo 1 / m, f.mesh.region.hi 1 / m],
            lab', lab] ∧ img.shape = [f.mesh.nAt 1, f.mesh.nAt 0] ∧
          ∀ i j, i < f.mesh.nAt 0 → j < f.mesh.nAt 1 →
            img.get [j, i] = if keptBy f o.filter [i, j] then some ((f.data.get [i, j]).getD 0 0) else none) ∨
       (f.nvdim = 2 ∧ ∃ cv, mplVector f { o with mult := some m } = .ok cv ∧ calls = cv ++ [lab]) ∨
       (f.nvdim = 3 ∧ ∃ c img lab' cv, thirdComp f (inplaneVdims f) o.pick = .ok c ∧
          mplVector f { o with mult := some m } = .ok cv ∧
          calls = [.imshow img "lower"
            [f.mesh.region.lo 0 / m, f.mesh.region.hi 0 / m, f.mesh.region.lo 1 / m, f.mesh.region.hi 1 / m],
            lab'] ++ cv ++ [lab] ∧ img.shape = [f.mesh.nAt 1, f.mesh.nAt 0] ∧
          ∀ i j, i < f.mesh.nAt 0 → j < f.mesh.nAt 1 →
            img.get [j, i] = if keptBy f o.filter [i, j] then some ((f.data.get [i, j]).getD c 0) else none)) := by
  obtain ⟨_, m, lab, hm, hl, hcases⟩ := mplDefault_ok_inv f o calls h
  have hpos := axisLabels_pos _ _ _ hl
  have hends : EndsWithLabels f.mesh.region m calls := by
    rcases hcases with ⟨_, cs, _, hc⟩ | ⟨_, cv, _, hc⟩ | ⟨_, c, cs, cv, _, _, _, hc⟩
    · rw [hc]; exact endsWithLabels_of _ m lab cs hl
    · rw [hc]; exact endsWithLabels_of _ m lab cv hl
    · rw [hc]; exact endsWithLabels_of _ m lab (cs ++ cv) hl
  refine ⟨m, lab, hpos, hm, hends, hl, ?_⟩
  rcases hcases with ⟨h1, cs, hcs, hc⟩ | ⟨h2, cv, hcv, hc⟩ | ⟨h3, c, cs, cv, hthird, hcs, hcv, hc⟩
  · left
    obtain ⟨_, img, lab', _, hcs', hshape, hpix⟩ :=
      default_scalar_image f f o m 0 cs hinv rfl rfl (fun _ => rfl) hgeo hcs
    exact ⟨h1, img, lab', by rw [hc, hcs']; rfl, hshape, hpix⟩
  · right; left
    exact ⟨h2, cv, hcv, hc⟩
  · right; right
    obtain ⟨_, img, lab', _, hcs', hshape, hpix⟩ :=
      default_scalar_image (compField f c) f o m c cs hinv rfl rfl (fun _ => rfl) hgeo hcs
    exact ⟨h3, c, img, lab', cv, hthird, hcv, by rw [hc, hcs'], hshape, hpix⟩

/-! ## acceptance: well-formed inputs are plotted

Input conditions (definitions in `Lemmas/C20Accept.lean`; none of them mentions the plot
functions): `MultOk f mult` — an explicit multiplier is an entry of the SI table, the default
needs every edge in `[1e-24, 1e27)`; `AuxOk f g` — a filter / colour / lightness field has one
component, a 2-d mesh, and either the cell counts of `f` or a well-formed mesh and labels the
`Field` constructor accepts (`resample` builds a field); `MappingOk f` — the components are
labelled, every mapped label is a non-empty component label, both plot axes are mapped to;
`ArrowsOk f o` — `MappingOk`, or `vdims=[lx, ly]` with two non-empty component labels;
`ColourOk f o` — `use_color=False`, or an `AuxOk` colour field, or (no colour field) not three
components, or three pairwise different labels. -/

/-- **Scalar plot accepts** every field with at most one component on a well-formed 2-d mesh,
with the default or an SI multiplier and the default or any acceptable filter (same or another
resolution).  Discharges the success hypotheses of `scalar_total`. -/
theorem scalar_accepts (f : Fld) (o : Opts) (hinv : f.mesh.Inv) (h2 : f.mesh.region.ndim = 2)
    (hnv : f.nvdim ≤ 1) (hm : MultOk f o.mult) (hflt : ∀ g, o.filter = some g → AuxOk f g) :
    ∃ calls, mplScalar f o = .ok calls := by
  obtain ⟨m, pre, hm, hp⟩ := setupMultiplier_ok f hinv o.mult hm
  obtain ⟨keep, hk⟩ := filterKeep_ok f o hinv h2 hflt
  exact scalar_total f o hinv h2 hnv m hm pre hp keep hk

/-- **Contour plot accepts** every one-component field on a well-formed 2-d mesh under the same
conditions (matplotlib's own requirement of at least 2 × 2 cells is outside the model). -/
theorem contour_accepts (f : Fld) (o : Opts) (hinv : f.mesh.Inv) (h2 : f.mesh.region.ndim = 2)
    (hnv : f.nvdim = 1) (hm : MultOk f o.mult) (hflt : ∀ g, o.filter = some g → AuxOk f g) :
    ∃ calls, mplContour f o = .ok calls := by
  obtain ⟨m, pre, hm, hp⟩ := setupMultiplier_ok f hinv o.mult hm
  obtain ⟨keep, hk⟩ := filterKeep_ok f o hinv h2 hflt
  unfold mplContour
  rw [if_neg (by simpa using h2), if_neg (by simpa using hnv)]
  simp only [hm, hk, axisLabels, hp]
  exact ⟨_, rfl⟩

/-- **Vector plot accepts** every field on a well-formed 2-d mesh whose arrow labels and colour
request are acceptable (`ArrowsOk`, `ColourOk`), with the default or an SI multiplier. -/
theorem vector_accepts (f : Fld) (o : Opts) (hinv : f.mesh.Inv) (h2 : f.mesh.region.ndim = 2)
    (hm : MultOk f o.mult) (harr : ArrowsOk f o) (hcol : ColourOk f o) :
    ∃ calls, mplVector f o = .ok calls := by
  obtain ⟨m, pre, hm, hp⟩ := setupMultiplier_ok f hinv o.mult hm
  obtain ⟨hne, vd, cx, cy, hvd, hlen, hax, hay⟩ := arrows_ok f o harr
  obtain ⟨C, hC⟩ := colourOf_ok f o vd hinv h2 hlen hcol
  obtain ⟨keep, hk, _⟩ := filterKeep_valid f h2
  unfold mplVector
  rw [if_neg (by simpa using h2), hne]
  simp only [Bool.false_eq_true, if_false, hm, vectorCore, hk, hvd, hax, hay, hC, axisLabels, hp,
    Option.isNone_some, Bool.and_self]
  exact ⟨_, rfl⟩

/-- **Lightness plot accepts** every field with at most three components on a well-formed 2-d
mesh: acceptable multiplier, filter and lightness field; for two and three components an
acceptable mapping; for three components without lightness field three pairwise different
labels (so that exactly one is left over). -/
theorem lightness_accepts (sqrtF : Rat → Rat) (f : Fld) (o : Opts) (hinv : f.mesh.Inv)
    (h2 : f.mesh.region.ndim = 2) (hnv : f.nvdim ≤ 3) (hm : MultOk f o.mult)
    (hflt : ∀ g, o.filter = some g → AuxOk f g) (haux : ∀ g, o.aux = some g → AuxOk f g)
    (hmap : 2 ≤ f.nvdim → MappingOk f)
    (hthird : f.nvdim = 3 → o.aux = none → ∃ vs, f.vdims = some vs ∧ vs.length = 3 ∧ hasDup vs = false) :
    ∃ calls, mplLightness sqrtF f o = .ok calls := by
  have hk := filterKeep_ok f o hinv h2 hflt
  unfold mplLightness
  rw [if_neg (by simpa using h2)]
  by_cases hn2 : f.nvdim = 2
  · rw [if_pos hn2]
    obtain ⟨xy, hxy⟩ := angleComps_ok f (hmap (by omega))
    rw [hxy]
    simp only []
    refine lightCore_ok f { o with aux := some (o.aux.getD (normField sqrtF f)) } _ _ _ hinv h2 hm ?_ hk
    intro g hg
    cases ha : o.aux with
    | none =>
      rw [ha] at hg
      simp only [Option.getD_none, Option.some.injEq] at hg
      subst hg
      exact ⟨rfl, h2, Or.inl rfl⟩
    | some g' =>
      rw [ha] at hg
      simp only [Option.getD_some, Option.some.injEq] at hg
      subst hg
      exact haux _ ha
  · rw [if_neg hn2]
    by_cases hn3 : f.nvdim = 3
    · rw [if_pos hn3]
      obtain ⟨xy, hxy⟩ := angleComps_ok f (hmap (by omega))
      cases ha : o.aux with
      | some g =>
        simp only [hxy]
        exact lightCore_ok f o _ _ _ hinv h2 hm haux hk
      | none =>
        simp only []
        obtain ⟨vs, hvs, hl, hnd⟩ := hthird hn3 ha
        obtain ⟨c, hc⟩ := thirdComp_ok f vs hvs hl hnd (inplaneVdims f) rfl o.pick
        obtain ⟨_, _, _, ⟨p, hp, _⟩, _⟩ := hmap (by omega)
        have hne : f.vmap.isEmpty = false := by
          have : f.vmap ≠ [] := List.ne_nil_of_mem hp
          simp [this]
        rw [hne]
        simp only [Bool.false_eq_true, if_false, hc, hxy]
        refine lightCore_ok f { o with aux := some (compField f c) } _ _ _ hinv h2 hm ?_ hk
        intro g hg
        simp only [Option.some.injEq] at hg
        subst hg
        exact ⟨rfl, h2, Or.inl rfl⟩
    · rw [if_neg hn3, if_neg (by omega)]
      exact lightCore_ok f o _ _ _ hinv h2 hm haux hk

/-- **Default plot accepts** every field with one to three components on a well-formed 2-d mesh
under the conditions of its parts. -/
theorem default_accepts (f : Fld) (o : Opts) (hinv : f.mesh.Inv) (h2 : f.mesh.region.ndim = 2)
    (hnv : 1 ≤ f.nvdim ∧ f.nvdim ≤ 3) (hm : MultOk f o.mult)
    (hflt : ∀ g, o.filter = some g → AuxOk f g)
    (hvec : 2 ≤ f.nvdim → ArrowsOk f o ∧ ColourOk f o)
    (hthird : f.nvdim = 3 → ∃ vs, f.vdims = some vs ∧ vs.length = 3 ∧ hasDup vs = false) :
    ∃ calls, mplDefault f o = .ok calls := by
  obtain ⟨m, pre, hsm, hp⟩ := setupMultiplier_ok f hinv o.mult hm
  have hm' : MultOk f (some m) := ⟨pre, rsiPrefix_some m pre hp⟩
  have hfo : ∀ g, some (filterOf f o) = some g → AuxOk f g := by
    intro g hg
    injection hg with hg
    subst hg
    cases ho : o.filter with
    | none => simp only [filterOf, ho, Option.getD_none]; exact ⟨rfl, h2, Or.inl rfl⟩
    | some g' => simp only [filterOf, ho, Option.getD_some]; exact hflt g' ho
  unfold mplDefault
  rw [if_neg (by simpa using h2)]
  simp only [hsm, axisLabels, hp]
  by_cases h1 : f.nvdim = 1
  · rw [if_pos h1]
    obtain ⟨cs, hcs⟩ := scalar_accepts f { o with mult := some m, filter := some (filterOf f o) } hinv h2
      (by omega) hm' hfo
    rw [hcs]
    exact ⟨_, rfl⟩
  · rw [if_neg h1]
    obtain ⟨harr, hcol⟩ := hvec (by omega)
    obtain ⟨cv, hcv⟩ := vector_accepts f { o with mult := some m } hinv h2 hm' harr hcol
    by_cases hn2 : f.nvdim = 2
    · rw [if_pos hn2, hcv]
      exact ⟨_, rfl⟩
    · rw [if_neg hn2, if_pos (by omega)]
      obtain ⟨vs, hvs, hl, hnd⟩ := hthird (by omega)
      obtain ⟨c, hc⟩ := thirdComp_ok f vs hvs hl hnd (inplaneVdims f) rfl o.pick
      obtain ⟨cs, hcs⟩ := scalar_accepts (compField f c)
        { o with mult := some m, filter := some (filterOf f o) } hinv h2 (by show 1 ≤ 1; omega) hm' (by
          intro g hg
          exact hfo g hg)
      rw [hc]
      simp only [hcs, hcv]
      exact ⟨_, rfl⟩

/-- Non-vacuity of the acceptance theorems: the example fields meet the input conditions. -/
example : MultOk exS none ∧ MultOk exV (some (1/1000)) ∧ MappingOk exV ∧ ArrowsOk exV {} ∧
    ColourOk exV {} ∧ AuxOk exS exOnes ∧ AuxOk exS exFine ∧
    (∃ vs, exV.vdims = some vs ∧ vs.length = 3 ∧ hasDup vs = false) := by
  refine ⟨?_, ⟨"m", by decide +kernel⟩, ?_, ?_, ?_, ⟨rfl, rfl, Or.inl rfl⟩,
    ⟨rfl, rfl, Or.inr ⟨mesh_inv_of_invB _ (by decide +kernel), by decide +kernel⟩⟩,
    ⟨_, rfl, rfl, by decide +kernel⟩⟩
  · show ∀ a, a < exS.mesh.region.ndim → _
    decide +kernel
  · exact ⟨["a", "b", "c"], rfl, by decide +kernel, by decide +kernel, by decide +kernel⟩
  · exact ⟨["a", "b", "c"], rfl, by decide +kernel, by decide +kernel, by decide +kernel⟩
  · exact Or.inr (Or.inr ⟨rfl, Or.inr ⟨_, rfl, rfl, by decide +kernel⟩⟩)

/-! ## SI table, spelled out -/

/-- **The whole SI table in decimal** (kernel evaluation over all 17 entries): `y` = 10⁻²⁴ …
`n` = 10⁻⁹, `u` = 10⁻⁶, `m` = 10⁻³, no prefix = 1, `k` = 10³ … `Y` = 10²⁴, in this order. -/
theorem si_table_decimal :
    siTable = [("y", 1 / 10 ^ 24), ("z", 1 / 10 ^ 21), ("a", 1 / 10 ^ 18), ("f", 1 / 10 ^ 15),
      ("p", 1 / 10 ^ 12), ("n", 1 / 10 ^ 9), ("u", 1 / 10 ^ 6), ("m", 1 / 10 ^ 3), ("", 1),
      ("k", 10 ^ 3), ("M", 10 ^ 6), ("G", 10 ^ 9), ("T", 10 ^ 12), ("P", 10 ^ 15), ("E", 10 ^ 18),
      ("Z", 10 ^ 21), ("Y", 10 ^ 24)] := by
  decide +kernel

/-- The prefix lookup used for the axis labels succeeds exactly on the table: `rsi_prefixes[m]`
is `p` if and only if `(p, m)` is an entry; prefixes and multipliers are pairwise different
(strictly increasing multipliers), so the announced prefix determines the multiplier. -/
theorem si_prefix_lookup_iff (p : String) (m : Rat) :
    (rsiPrefix? m = some p ↔ (p, m) ∈ siTable) ∧
    siTable.Pairwise (fun a b => a.2 < b.2 ∧ a.1 ≠ b.1) := by
  refine ⟨⟨rsiPrefix_some m p, si_table_inverse p m⟩, ?_⟩
  decide +kernel

/-! ## plotting is a pure function of its arguments: dictionaries, sessions, histories

`Model/C20Session.lean` models `MplField.__call__` on a STORE of dictionary objects: the caller's
`scalar_kw` / `vector_kw` are addresses, `{}` and `.copy()` allocate, `setdefault` writes in place.
`callMpl s r` returns the new store and what is handed to matplotlib; `runSession` serves a
history of requests on one store; `callSpec s r` is the specification: `mplDefault` of the field
with the options read from the caller's dictionaries as they are at the call. -/

/-- **One call is pure.**  `field.mpl(...)` writes only to dictionaries it allocated itself:
every dictionary that existed before the call reads the same afterwards (in particular the
caller's `scalar_kw` / `vector_kw` do not acquire `filter_field`, `use_color`, `colorbar`,
`colorbar_label`), and what is handed to matplotlib is `callSpec`: a function of the field, the
multiplier and the CONTENTS of the two dictionaries at the time of the call, with the defaults
`filter_field = field._valid_as_field` and `use_color = False` filled in per call. -/
theorem call_is_pure (s : Store) (r : Req) (hv : ∀ a, r.vkw = some a → a < s.length) :
    (∀ a, a < s.length → (callMpl s r).1.read a = s.read a) ∧ s.length ≤ (callMpl s r).1.length ∧
    (callMpl s r).2 = callSpec s r :=
  ⟨(callMpl_frame s r).2, (callMpl_frame s r).1, callMpl_spec s r hv⟩

/-- **Every call of a history is independent of the earlier calls** (induction over histories of
any length).  If the requests only refer to dictionaries the caller made before the session,
then the `k`-th answer of the session is what the `k`-th request gets on its own (`callSpec` on
the INITIAL store), there is one answer per request, and after the session all the caller's
dictionaries read as before. -/
theorem session_calls_independent (s : Store) (rs : List Req) (hv : ReqsValid s.length rs) :
    (runSession s rs).2 = rs.map (callSpec s) ∧
    (∀ a, a < s.length → (runSession s rs).1.read a = s.read a) := by
  obtain ⟨h1, _, h3⟩ := runSession_spec s rs hv s (Nat.le_refl _) (fun _ _ => rfl)
  exact ⟨h1, h3⟩

/-- **The default keyword arguments do not depend on history.**  A plain `field.mpl()` (no
dictionaries, any multiplier) issued after ANY history of earlier calls — on other fields, with
other filters, colour fields, `use_color` settings — hands over exactly the default plot of
THIS field: filtered by its own validity, arrows uncoloured. -/
theorem default_kwargs_per_call (s : Store) (hist : List Req) (f : Fld) (mult : Option Rat) (pick : Nat)
    (hv : ReqsValid s.length hist) :
    (runSession s (hist ++ [{ field := f, mult := mult, pick := pick }])).2.getLast? =
      some (mplDefault f { mult := mult, useColor := false, pick := pick }) := by
  have hv' : ReqsValid s.length (hist ++ [{ field := f, mult := mult, pick := pick }]) := by
    intro r hr
    rcases List.mem_append.mp hr with hr | hr
    · exact hv r hr
    · have : r = { field := f, mult := mult, pick := pick } := by simpa using hr
      subst this
      exact ⟨fun a ha => (nomatch ha), fun a ha => (nomatch ha)⟩
  rw [(session_calls_independent s _ hv').1, List.map_append]
  simp only [List.map_cons, List.map_nil, List.getLast?_append, List.getLast?_singleton, Option.some_or]
  rfl

/-- **Two histories, same answer.**  The answer to a request does not depend on which (valid)
requests were served before it. -/
theorem session_history_irrelevant (s : Store) (h1 h2 : List Req) (r : Req)
    (hv1 : ReqsValid s.length (h1 ++ [r])) (hv2 : ReqsValid s.length (h2 ++ [r])) :
    (runSession s (h1 ++ [r])).2.getLast? = (runSession s (h2 ++ [r])).2.getLast? := by
  rw [(session_calls_independent s _ hv1).1, (session_calls_independent s _ hv2).1, List.map_append,
    List.map_append]
  simp only [List.map_cons, List.map_nil, List.getLast?_append, List.getLast?_singleton, Option.some_or]

/-- Non-vacuity of the session theorems: a store with a `scalar_kw` holding a filter and a
`vector_kw` asking for colour, three requests sharing them; the requests are valid, every call
succeeds, and the caller's dictionaries keep their keys. -/
example : ReqsValid 2
      [{ field := exV, skw := some 0, vkw := some 1 }, { field := exS, skw := some 0 },
       { field := exV }] ∧
    (runSession [{ filter := some exOnes }, { useColor := some true }]
      [{ field := exV, skw := some 0, vkw := some 1 }, { field := exS, skw := some 0 },
       { field := exV }]).2.map okB = [true, true, true] ∧
    ((runSession [{ filter := some exOnes }, { useColor := some true }]
      [{ field := exV, skw := some 0, vkw := some 1 }, { field := exS, skw := some 0 },
       { field := exV }]).1.take 2).map Kw.keys = [["filter_field"], ["use_color"]] := by
  refine ⟨?_, by decide +kernel, by decide +kernel⟩
  intro r hr
  simp only [List.mem_cons, List.mem_nil_iff, or_false] at hr
  rcases hr with rfl | rfl | rfl <;> exact ⟨by intro a ha; cases ha <;> omega, by intro a ha; cases ha <;> omega⟩


/-! ## plotting never modifies the field: arrays as objects

`Model/C20Heap.lean` puts the arrays on a HEAP of buffers: the plotted field, the filter and the
colour field hold ADDRESSES (`HFld`), `array.copy()` and derived fields (`_valid_as_field`,
`resample`) allocate, the two NaN writes of `_filter_values` happen in place at the address of
`values`.  `scalarH` / `contourH` / `vectorH` return the heap after the call and what is handed
to matplotlib.  `Frame h h'` (in `Lemmas/C20Heap.lean`): `h'` is at least as long as `h` and every
buffer of `h` reads the same in `h'`; `HFld.On h g`: both arrays of `g` are buffers of `h`;
`HFld.abs h g`: the field `g` as a value, read from the heap `h`. -/

/-- **Plotting never modifies the field, its mesh or its validity** (`plot_pure`, for EVERY plot
kind: scalar, contour, vector, lightness — of fields with any number of components — and the
default plot `mpl()`, any filter / colour / lightness field, same or another resolution).  Every buffer that existed
before the call — the field's `array` and `valid`, those of the `filter_field`, of the
`color_field` / `lightness_field`, of any other field — holds the same entries after the call:
the in-place NaN writes of `_filter_values` and the in-place normalisation of the lightness
array land in buffers the call allocated itself (`values = array.copy()`, `lightness =
lightness_field.array.reshape(n).copy()`, `rgb`).  Consequently every field on the heap, read as a
value (mesh, components, array, validity, labels, mapping, unit), is the same before and after. -/
theorem plot_pure (sqrtF : Rat → Rat) (h : AHeap) (f : HFld) (o : HOpts) (clim : Option (Rat × Rat)) :
    Frame h (scalarH h f o).1 ∧ Frame h (contourH h f o).1 ∧ Frame h (vectorH h f o).1 ∧
    Frame h (lightnessH sqrtF h f o clim).1 ∧ Frame h (defaultH h f o).1 ∧
    ∀ g : HFld, g.On h →
      g.abs (scalarH h f o).1 = g.abs h ∧ g.abs (contourH h f o).1 = g.abs h ∧
      g.abs (vectorH h f o).1 = g.abs h ∧ g.abs (lightnessH sqrtF h f o clim).1 = g.abs h ∧
      g.abs (defaultH h f o).1 = g.abs h :=
  ⟨frame_scalarH h f o, frame_contourH h f o, frame_vectorH h f o, frame_lightnessH sqrtF h f o clim,
   frame_defaultH h f o,
   fun g hg => ⟨abs_frame _ _ g (frame_scalarH h f o) hg, abs_frame _ _ g (frame_contourH h f o) hg,
     abs_frame _ _ g (frame_vectorH h f o) hg, abs_frame _ _ g (frame_lightnessH sqrtF h f o clim) hg,
     abs_frame _ _ g (frame_defaultH h f o) hg⟩⟩

/-- **The plot functions with in-place writes refine the value model.**  For a field whose arrays
are on the heap and hold numbers (no NaN), on a well-formed mesh, with filter and colour /
lightness field on the heap: what `scalar` (one component), `contour`, `vector` (no more labels
than components) and `lightness` (any number of components; a given lightness field holds
numbers) hand to matplotlib AFTER copying, masking / normalising in place and taking views is
exactly what `mplScalar` / `mplContour` / `mplVector` / `mplLightness` compute from the field as a
value — success or the same error.  All theorems about the value model therefore speak about the
code-shaped heap functions. -/
theorem heap_plots_refine (sqrtF : Rat → Rat) (h : AHeap) (f : HFld) (o : HOpts) (clim : Option (Rat × Rat))
    (hinv : f.mesh.Inv) (hf : f.On h)
    (hnum : ∀ i, (h.buf f.arr i).isSome) (hflt : ∀ g, o.filter = some g → g.On h)
    (haux : ∀ g, o.aux = some g → g.On h) :
    (f.nvdim = 1 → (scalarH h f o).2 = mplScalar (f.abs h) (o.abs h)) ∧
    (contourH h f o).2 = mplContour (f.abs h) (o.abs h) ∧
    ((∀ vs, f.vdims = some vs → vs.length ≤ f.nvdim) →
      (vectorH h f o).2 = mplVector (f.abs h) (o.abs h)) ∧
    ((∀ g, o.aux = some g → ∀ i, (h.buf g.arr i).isSome) →
      (lightnessH sqrtF h f o clim).2 = mplLightness sqrtF (f.abs h) { o.abs h with clim := clim }) :=
  ⟨fun hnv => scalarH_refines h f o hinv hf hnum hflt hnv, contourH_refines h f o hinv hf hnum hflt,
   fun hlab => vectorH_refines h f o hinv hf hnum hflt haux hlab,
   fun hn => lightnessH_refines sqrtF h f o clim hinv hf hflt (fun g hg => ⟨haux g hg, hn g hg⟩)⟩

/-- Non-vacuity of `plot_pure` / `heap_plots_refine`: the example fields with their arrays on a
heap of two buffers; the calls succeed, allocate their own buffers (`values`, and the two arrays
of `_valid_as_field`) and leave the two input buffers alone. -/
example : exHS.On exHeap ∧ (∀ i, (exHeap.buf exHS.arr i).isSome) ∧ exHV.On exHeapV ∧
    (∀ i, (exHeapV.buf exHV.arr i).isSome) ∧ (∀ vs, exHV.vdims = some vs → vs.length ≤ exHV.nvdim) ∧
    okB (scalarH exHeap exHS {}).2 = true ∧ (scalarH exHeap exHS {}).1.length = 5 ∧
    okB (contourH exHeap exHS {}).2 = true ∧ okB (vectorH exHeapV exHV {}).2 = true ∧
    (vectorH exHeapV exHV {}).1.length = 5 ∧
    okB (lightnessH (fun q => q) exHeapV exHV {} none).2 = true ∧
    okB (lightnessH (fun q => q) exHeap exHS { aux := some exHS } none).2 = true ∧
    okB (defaultH exHeapV exHV { useColor := false }).2 = true ∧ okB (defaultH exHeap exHS {}).2 = true := by
  refine ⟨⟨by decide, by decide⟩, fun _ => rfl, ⟨by decide, by decide⟩, fun _ => rfl, ?_, by decide +kernel, by decide +kernel,
    by decide +kernel, by decide +kernel, by decide +kernel, by decide +kernel, by decide +kernel,
    by decide +kernel, by decide +kernel⟩
  intro vs hvs
  injection hvs with hvs
  subst hvs
  decide


/-! ## the default multiplier as a decision over every region size -/

/-- **The default multiplier exists exactly for regions whose edges all lie in `[1e-24, 1e27)`**
(refusal as an equivalence, for EVERY region size — 1e-30 … 1e30 and beyond): if one edge is
shorter than `1e-24` or at least `1e27` long, `si_multiplier` answers `None` for it and
`max([... None ...])` raises, so every plot with `multiplier=None` is refused; otherwise the
multiplier is found. -/
theorem default_multiplier_ok_iff (f : Fld) (hinv : f.mesh.Inv) :
    (∃ m, setupMultiplier f none = .ok m) ↔
      ∀ a, a < f.mesh.region.ndim →
        p1000 (-8) ≤ f.mesh.region.edge a ∧ f.mesh.region.edge a < p1000 9 := by
  constructor
  · rintro ⟨m, h⟩ b hb
    obtain ⟨⟨_, _, _, _, _, hlt⟩, _, _⟩ := hinv
    have hedge : 0 < f.mesh.region.edge b := by
      have := hlt b hb
      unfold Region.edge
      linarith
    simp only [setupMultiplier, siMaxMultiplier] at h
    obtain ⟨_, hall⟩ := maxOpt_ok _ m h
    have hbm : siMultiplier (f.mesh.region.edge b) ∈ f.mesh.region.edges.map siMultiplier := by
      apply List.mem_map.mpr
      refine ⟨f.mesh.region.edge b, ?_, rfl⟩
      unfold Region.edges tab
      exact List.mem_map.mpr ⟨b, List.mem_range.mpr hb, rfl⟩
    obtain ⟨m', hm', _⟩ := hall _ hbm
    have := siMultiplier_some_range _ m' (ne_of_gt hedge) hm'
    rwa [absR_eq_abs, abs_of_pos hedge] at this
  · exact default_multiplier_exists f hinv

/-- **The default multiplier, characterised** (`si_max_multiplier(region.edges)`; the
multiplier/prefix rule of the axis labels).  For a well-formed region, `m` is the default
multiplier if and only if no edge is shorter than `1e-24`, `m` is a power of 1000 of the SI table
(`m = 1000^k`, `-8 ≤ k ≤ 8`, so it has a prefix), the longest edge measures at least one unit
(`m ≤ edge` for some axis) and every edge measures less than 1000 units (`edge < 1000·m`).
In particular the default multiplier is unique and the scaled extent of the longest edge lies in
`[1, 1000)`. -/
theorem default_multiplier_iff (f : Fld) (hinv : f.mesh.Inv) (m : Rat) :
    setupMultiplier f none = .ok m ↔
      (∀ a, a < f.mesh.region.ndim → p1000 (-8) ≤ f.mesh.region.edge a) ∧
      (∃ k : Int, -8 ≤ k ∧ k ≤ 8 ∧ m = p1000 k) ∧
      (∃ a, a < f.mesh.region.ndim ∧ m ≤ f.mesh.region.edge a) ∧
      ∀ a, a < f.mesh.region.ndim → f.mesh.region.edge a < 1000 * m := by
  have fwd : ∀ m', setupMultiplier f none = .ok m' →
      (∃ k : Int, -8 ≤ k ∧ k ≤ 8 ∧ m' = p1000 k) ∧
      (∃ a, a < f.mesh.region.ndim ∧ m' ≤ f.mesh.region.edge a) ∧
      ∀ a, a < f.mesh.region.ndim → f.mesh.region.edge a < 1000 * m' := by
    intro m' h
    obtain ⟨⟨pre, hpre, _⟩, ⟨a, ha, h1, _⟩, hall⟩ := default_multiplier_decade f hinv m' h
    obtain ⟨k, hk, hmk⟩ := (mem_siTable pre m').mp hpre
    have mp : 0 < m' := by rw [hmk]; exact p1000_pos k
    obtain ⟨k1, k2⟩ := siExps_range pre k hk
    refine ⟨⟨k, k1, k2, hmk⟩, ⟨a, ha, ?_⟩, fun b hb => ?_⟩
    · rwa [le_div_iff₀ mp, one_mul] at h1
    · have := hall b hb
      rwa [div_lt_iff₀ mp] at this
  constructor
  · intro h
    exact ⟨fun a ha => (((default_multiplier_ok_iff f hinv).mp ⟨m, h⟩) a ha).1, fwd m h⟩
  · rintro ⟨hlo, ⟨k, k1, k2, rfl⟩, h1, h2⟩
    have hr : ∀ a, a < f.mesh.region.ndim →
        p1000 (-8) ≤ f.mesh.region.edge a ∧ f.mesh.region.edge a < p1000 9 := by
      intro a ha
      refine ⟨hlo a ha, ?_⟩
      have := p1000_le (k + 1) 9 (by omega)
      rw [p1000_succ] at this
      have := h2 a ha
      linarith
    obtain ⟨m', hm'⟩ := default_multiplier_exists f hinv hr
    obtain ⟨⟨k', _, _, rfl⟩, h1', h2'⟩ := fwd m' hm'
    have := longest_decade_unique f.mesh.region.ndim f.mesh.region.edge k k' h1 h2 h1' h2'
    rw [this]
    exact hm'

/-- **Every successful plot uses a power of 1000 of the SI table**, explicit or default
multiplier alike, for every plot kind: `multiplier = 1000^k` with `-8 ≤ k ≤ 8`
(`1e-24 … 1e24`).  (A multiplier outside the table has no prefix for the axis labels.) -/
theorem plot_multiplier_power (sqrtF : Rat → Rat) (f : Fld) (o : Opts) (calls : List PlotCall)
    (h : mplScalar f o = .ok calls ∨ mplContour f o = .ok calls ∨ mplVector f o = .ok calls ∨
      mplDefault f o = .ok calls ∨ mplLightness sqrtF f o = .ok calls) :
    ∃ (m : Rat) (k : Int), setupMultiplier f o.mult = .ok m ∧ -8 ≤ k ∧ k ≤ 8 ∧ m = p1000 k ∧ 0 < m := by
  obtain ⟨l1, l2, l3, l4, l5⟩ := labels_eq sqrtF f o calls
  have fin : (∃ m, setupMultiplier f o.mult = .ok m ∧ EndsWithLabels f.mesh.region m calls) →
      ∃ (m : Rat) (k : Int), setupMultiplier f o.mult = .ok m ∧ -8 ≤ k ∧ k ≤ 8 ∧ m = p1000 k ∧ 0 < m := by
    rintro ⟨m, hm, pre, hpre, _⟩
    obtain ⟨k, hk, hmk⟩ := (mem_siTable pre m).mp hpre
    obtain ⟨k1, k2⟩ := siExps_range pre k hk
    exact ⟨m, k, hm, k1, k2, hmk, by rw [hmk]; exact p1000_pos k⟩
  rcases h with h | h | h | h | h
  · exact fin (l1 h)
  · exact fin (l2 h)
  · exact fin (l3 h)
  · exact fin (l4 h)
  · exact fin (l5 h)

/-- **Scaled extent of the default plot.**  With `multiplier=None` a successful scalar plot has
the extent `[x0, x1, y0, y1] = region / m` with `0 < x1 - x0 < 1000`, `0 < y1 - y0 < 1000` and
`1 ≤ x1 - x0` or `1 ≤ y1 - y0`: in the units announced by the axis labels the longest edge of the
region measures between 1 and 1000. -/
theorem default_extent_span (f : Fld) (o : Opts) (calls : List PlotCall) (hinv : f.mesh.Inv)
    (hm : o.mult = none) (h : mplScalar f o = .ok calls) :
    ∃ img x0 x1 y0 y1 lab, calls = [.imshow img "lower" [x0, x1, y0, y1], lab] ∧
      0 < x1 - x0 ∧ x1 - x0 < 1000 ∧ 0 < y1 - y0 ∧ y1 - y0 < 1000 ∧ (1 ≤ x1 - x0 ∨ 1 ≤ y1 - y0) := by
  obtain ⟨m, keep, img, lab, hpos, hsm, _, hc, _, _⟩ := scalar_at_position f o calls hinv h
  obtain ⟨h2, _⟩ := mplScalar_ok_inv f o calls h
  rw [hm] at hsm
  obtain ⟨_, _, ⟨a, ha, h1⟩, hall⟩ := (default_multiplier_iff f hinv m).mp hsm
  obtain ⟨⟨_, _, _, _, _, hlt⟩, _, _⟩ := hinv
  have hnd : f.mesh.region.pmin.length = 2 := h2
  have e0 : f.mesh.region.hi 0 / m - f.mesh.region.lo 0 / m = f.mesh.region.edge 0 / m := by
    unfold Region.edge; ring
  have e1 : f.mesh.region.hi 1 / m - f.mesh.region.lo 1 / m = f.mesh.region.edge 1 / m := by
    unfold Region.edge; ring
  have p0 : 0 < f.mesh.region.edge 0 := by
    have := hlt 0 (by omega); unfold Region.edge; linarith
  have p1 : 0 < f.mesh.region.edge 1 := by
    have := hlt 1 (by omega); unfold Region.edge; linarith
  refine ⟨img, _, _, _, _, lab, hc, ?_, ?_, ?_, ?_, ?_⟩
  · rw [e0]; exact div_pos p0 hpos
  · rw [e0, div_lt_iff₀ hpos]; exact hall 0 (by rw [h2]; omega)
  · rw [e1]; exact div_pos p1 hpos
  · rw [e1, div_lt_iff₀ hpos]; exact hall 1 (by rw [h2]; omega)
  · rw [e0, e1, le_div_iff₀ hpos, le_div_iff₀ hpos, one_mul]
    have : a = 0 ∨ a = 1 := by rw [h2] at ha; omega
    rcases this with rfl | rfl
    · exact Or.inl h1
    · exact Or.inr h1

/-- Non-vacuity of the multiplier theorems: 40 nm × 60 nm gets `1000^-3` (prefix `n`), the region
`[0,4]×[0,6]` gets `1000^0`; a region 4 × 6e-27 is refused (`max` of `None` and a number), and so
is 4 × 1e27. -/
example : siMaxMultiplier [4/100000000, 6/100000000] = .ok (p1000 (-3)) ∧
    setupMultiplier exS none = .ok (p1000 0) ∧
    okB (siMaxMultiplier [4, 6 / 10 ^ 27]) = false ∧ okB (siMaxMultiplier [4, 10 ^ 27]) = false ∧
    okB (siMaxMultiplier [4 / 10 ^ 24, 10 ^ 26]) = true := by
  decide +kernel


/-! ## refusal as an equivalence: a plot is made if and only if its inputs are well-formed

`FieldWf g` (in `Lemmas/C20Iff.lean`): `g` is a field OBJECT — well-formed mesh, labels and mapping
the `Field` constructor accepted; an invariant of every field that exists, asked of the
filter / colour fields that live on other cell counts (they are resampled).  `MultOk`:
`Lemmas/C20Accept.lean`.  `VectorCond f o`: `vdims=` absent needs a non-empty mapping; `vdims=`
given has two entries; each of the two arrow labels (`vdims=` or the LAST label the mapping sends
to the plot axis) is absent / empty or a component label, not both absent; the colour request is
`use_color=False`, or a one-component `color_field` on a 2-d mesh, or (none given) the field does
not have three components or a component label is left over. -/

/-- **`field.mpl.scalar` succeeds if and only if** the mesh is 2-d, the field has at most one
component, the multiplier is acceptable (an SI table entry, or by default every edge in
`[1e-24, 1e27)`) and the filter field, if given, has one component and lives on a 2-d mesh.
Every other input is refused. -/
theorem scalar_ok_iff (f : Fld) (o : Opts) (hinv : f.mesh.Inv)
    (hwf : ∀ g, o.filter = some g → g.mesh.n = f.mesh.n ∨ FieldWf g) :
    (∃ calls, mplScalar f o = .ok calls) ↔
      f.mesh.region.ndim = 2 ∧ f.nvdim ≤ 1 ∧ MultOk f o.mult ∧
      ∀ g, o.filter = some g → g.nvdim = 1 ∧ g.mesh.region.ndim = 2 := by
  constructor
  · rintro ⟨calls, h⟩
    obtain ⟨h2, hnv, m, hm, hcore⟩ := mplScalar_ok_inv f o calls h
    obtain ⟨ext, keep, lab, _, hk, hl, _⟩ := scalarCore_ok_inv f o m calls hcore
    obtain ⟨pre, hp, _⟩ := axisLabels_ok_inv _ m lab hl
    exact ⟨h2, hnv, (multOk_iff f hinv o.mult).mpr ⟨m, pre, hm, hp⟩,
      (filterKeep_ok_iff f o hinv h2 hwf).mp ⟨keep, hk⟩⟩
  · rintro ⟨h2, hnv, hm, hflt⟩
    exact scalar_accepts f o hinv h2 hnv hm
      (fun g hg => auxOk_of_wf f g (hflt g hg).1 (hflt g hg).2 (hwf g hg))

/-- **`field.mpl.contour` hands its arguments to matplotlib if and only if** the mesh is 2-d, the
field has exactly one component, multiplier and filter are acceptable. -/
theorem contour_ok_iff (f : Fld) (o : Opts) (hinv : f.mesh.Inv)
    (hwf : ∀ g, o.filter = some g → g.mesh.n = f.mesh.n ∨ FieldWf g) :
    (∃ calls, mplContour f o = .ok calls) ↔
      f.mesh.region.ndim = 2 ∧ f.nvdim = 1 ∧ MultOk f o.mult ∧
      ∀ g, o.filter = some g → g.nvdim = 1 ∧ g.mesh.region.ndim = 2 := by
  constructor
  · rintro ⟨calls, h⟩
    obtain ⟨h2, hnv, m, keep, lab, hm, hk, hl, _⟩ := mplContour_ok_inv f o calls h
    obtain ⟨pre, hp, _⟩ := axisLabels_ok_inv _ m lab hl
    exact ⟨h2, hnv, (multOk_iff f hinv o.mult).mpr ⟨m, pre, hm, hp⟩,
      (filterKeep_ok_iff f o hinv h2 hwf).mp ⟨keep, hk⟩⟩
  · rintro ⟨h2, hnv, hm, hflt⟩
    exact contour_accepts f o hinv h2 hnv hm
      (fun g hg => auxOk_of_wf f g (hflt g hg).1 (hflt g hg).2 (hwf g hg))

/-- **matplotlib's requirement on `contour(X, Y, Z)`** (`contourArgsOk`, the documented
precondition: `Z` at least `(2, 2)`, `len(X)` = columns of `Z`, `len(Y)` = rows of `Z`) **is met by
the arguments handed over if and only if the mesh has at least two cells along both axes.**  The
length conditions always hold; only the `(2, 2)` requirement can fail. -/
theorem contour_args_ok_iff (f : Fld) (o : Opts) (calls : List PlotCall) (hinv : f.mesh.Inv)
    (h : mplContour f o = .ok calls) :
    ∃ X Y Z lab, calls = [.contour X Y Z, lab] ∧
      X.length = Z.shape.getD 1 0 ∧ Y.length = Z.shape.getD 0 0 ∧ Z.shape.length = 2 ∧
      (contourArgsOk X Y Z = true ↔ 2 ≤ f.mesh.nAt 0 ∧ 2 ≤ f.mesh.nAt 1) ∧
      (callsAccepted calls = true ↔ 2 ≤ f.mesh.nAt 0 ∧ 2 ≤ f.mesh.nAt 1) := by
  obtain ⟨m, keep, X, Y, Z, lab, _, _, _, hc, hX, hY, _, _, hZ, _⟩ := contour_grid f o calls hinv h
  have hlab : ∃ xl yl, lab = .labels xl yl := by
    obtain ⟨_, _, m', _, lab', _, _, hl, hc'⟩ := mplContour_ok_inv f o calls h
    obtain ⟨pre, _, hlab⟩ := axisLabels_ok_inv _ m' lab' hl
    rw [hc] at hc'
    injection hc' with _ hc'
    injection hc' with hc' _
    exact ⟨_, _, hc'.trans hlab⟩
  obtain ⟨xl, yl, rfl⟩ := hlab
  have hargs : contourArgsOk X Y Z = true ↔ 2 ≤ f.mesh.nAt 0 ∧ 2 ≤ f.mesh.nAt 1 := by
    unfold contourArgsOk
    rw [hZ, hX, hY]
    simp only [List.length_cons, List.length_nil, List.getD_cons_zero, List.getD_cons_succ,
      Bool.and_eq_true, decide_eq_true_eq]
    simp only [true_and, and_true]
    exact ⟨fun h => ⟨h.2, h.1⟩, fun h => ⟨h.2, h.1⟩⟩
  refine ⟨X, Y, Z, _, hc, by rw [hZ, hX]; rfl, by rw [hZ, hY]; rfl, by rw [hZ]; rfl, hargs, ?_⟩
  rw [hc]
  simp only [callsAccepted, Bool.and_true]
  exact hargs

/-- **`field.mpl.contour` as a whole — including matplotlib's refusal — succeeds if and only if**
the inputs are well-formed AND the mesh has at least two cells along both axes
(`mplContourMpl`: the arguments are assembled, then `ax.contour` raises `TypeError` when `Z` is
not at least `(2, 2)`). -/
theorem contour_mpl_ok_iff (f : Fld) (o : Opts) (hinv : f.mesh.Inv)
    (hwf : ∀ g, o.filter = some g → g.mesh.n = f.mesh.n ∨ FieldWf g) :
    (∃ calls, mplContourMpl f o = .ok calls) ↔
      f.mesh.region.ndim = 2 ∧ f.nvdim = 1 ∧ MultOk f o.mult ∧
      (∀ g, o.filter = some g → g.nvdim = 1 ∧ g.mesh.region.ndim = 2) ∧
      2 ≤ f.mesh.nAt 0 ∧ 2 ≤ f.mesh.nAt 1 := by
  unfold mplContourMpl
  constructor
  · rintro ⟨calls, h⟩
    cases hc : mplContour f o with
    | error e => rw [hc] at h; cases h
    | ok cs =>
      rw [hc] at h
      simp only [] at h
      obtain ⟨a, b, c, d⟩ := (contour_ok_iff f o hinv hwf).mp ⟨cs, hc⟩
      obtain ⟨_, _, _, _, _, _, _, _, _, hacc⟩ := contour_args_ok_iff f o cs hinv hc
      by_cases hac : callsAccepted cs = true
      · exact ⟨a, b, c, d, hacc.mp hac⟩
      · rw [if_neg hac] at h; cases h
  · rintro ⟨a, b, c, d, e⟩
    obtain ⟨cs, hc⟩ := (contour_ok_iff f o hinv hwf).mpr ⟨a, b, c, d⟩
    obtain ⟨_, _, _, _, _, _, _, _, _, hacc⟩ := contour_args_ok_iff f o cs hinv hc
    rw [hc]
    simp only []
    rw [if_pos (hacc.mpr e)]
    exact ⟨cs, rfl⟩

/-- **`field.mpl.vector` succeeds if and only if** the mesh is 2-d, the multiplier is acceptable
and the label / colour arguments satisfy `VectorCond` (see the section header): refusals are
exactly a non-2-d mesh, a field without mapping and without `vdims=`, `vdims=` of the wrong
length, a label that is not a component label, both directions absent, a colour field of the
wrong dimension, and three components with nothing left over for the colour. -/
theorem vector_ok_iff (f : Fld) (o : Opts) (hinv : f.mesh.Inv)
    (hwf : ∀ g, o.aux = some g → g.mesh.n = f.mesh.n ∨ FieldWf g) :
    (∃ calls, mplVector f o = .ok calls) ↔
      f.mesh.region.ndim = 2 ∧ MultOk f o.mult ∧ VectorCond f o := by
  constructor
  · rintro ⟨calls, h⟩
    obtain ⟨h2, hne, m, hm, hcore⟩ := mplVector_ok_inv f o calls h
    obtain ⟨keep, vd, ax, ay, c, lab, _, hvd, hax, hay, hnn, hcol, hl, _⟩ := vectorCore_ok_inv f o m calls hcore
    obtain ⟨pre, hp, _⟩ := axisLabels_ok_inv _ m lab hl
    obtain ⟨hlen, rfl⟩ := (vectorVdims_ok_iff f o vd).mp hvd
    refine ⟨h2, (multOk_iff f hinv o.mult).mpr ⟨m, pre, hm, hp⟩, ?_, hlen, ⟨?_, ?_, ?_⟩, ?_⟩
    · intro hnone hnil
      rw [hnone, hnil] at hne
      simp at hne
    · exact (arrowIdx_ok_iff f _).mp ⟨ax, hax⟩
    · exact (arrowIdx_ok_iff f _).mp ⟨ay, hay⟩
    · rintro ⟨n0, n1⟩
      rw [(arrowIdx_isNone_iff f _ ax hax).mpr n0, (arrowIdx_isNone_iff f _ ay hay).mpr n1] at hnn
      simp at hnn
    · exact (colourOf_ok_iff f o _ hinv h2 hwf).mp ⟨c, hcol⟩
  · rintro ⟨h2, hm, hne, hlen, ⟨hx, hy, hboth⟩, hcol⟩
    obtain ⟨m, pre, hm, hp⟩ := setupMultiplier_ok f hinv o.mult hm
    have hvd := (vectorVdims_ok_iff f o _).mpr ⟨hlen, rfl⟩
    obtain ⟨ax, hax⟩ := (arrowIdx_ok_iff f _).mpr hx
    obtain ⟨ay, hay⟩ := (arrowIdx_ok_iff f _).mpr hy
    obtain ⟨C, hC⟩ := (colourOf_ok_iff f o _ hinv h2 hwf).mpr hcol
    obtain ⟨keep, hk, _⟩ := filterKeep_valid f h2
    have hnn : (ax.isNone && ay.isNone) = false := by
      cases hb : (ax.isNone && ay.isNone) with
      | false => rfl
      | true =>
        simp only [Bool.and_eq_true] at hb
        exact absurd ⟨(arrowIdx_isNone_iff f _ ax hax).mp hb.1, (arrowIdx_isNone_iff f _ ay hay).mp hb.2⟩ hboth
    have hne' : (o.vdimsArg.isNone && f.vmap.isEmpty) = false := by
      cases hv : o.vdimsArg with
      | some l => rfl
      | none =>
        have := hne hv
        simp [this]
    unfold mplVector
    rw [if_neg (by simpa using h2), hne']
    simp only [Bool.false_eq_true, if_false, hm, vectorCore, hk, hvd, hax, hay, hC, axisLabels, hp, hnn]
    exact ⟨_, rfl⟩

/-- **`field.mpl()` succeeds if and only if** the mesh is 2-d, the multiplier is acceptable, the
field has one, two or three components, and: the filter of `scalar_kw` is acceptable (one and
three components), the vector conditions hold (two and three components), and for three
components a label is left over for the scalar image. -/
theorem default_ok_iff (f : Fld) (o : Opts) (hinv : f.mesh.Inv)
    (hwfF : ∀ g, o.filter = some g → g.mesh.n = f.mesh.n ∨ FieldWf g)
    (hwfA : ∀ g, o.aux = some g → g.mesh.n = f.mesh.n ∨ FieldWf g) :
    (∃ calls, mplDefault f o = .ok calls) ↔
      f.mesh.region.ndim = 2 ∧ MultOk f o.mult ∧ 1 ≤ f.nvdim ∧ f.nvdim ≤ 3 ∧
      (f.nvdim ≠ 2 → ∀ g, o.filter = some g → g.nvdim = 1 ∧ g.mesh.region.ndim = 2) ∧
      (2 ≤ f.nvdim → VectorCond f o) ∧
      (f.nvdim = 3 → leftover f (inplaneVdims f) ≠ []) := by
  have hfo : ∀ g, some (filterOf f o) = some g → g.mesh.n = f.mesh.n ∨ FieldWf g := by
    intro g hg
    injection hg with hg
    subst hg
    cases ho : o.filter with
    | none => simp only [filterOf, ho, Option.getD_none]; exact Or.inl rfl
    | some g' => simp only [filterOf, ho, Option.getD_some]; exact hwfF g' ho
  have hfo2 : f.mesh.region.ndim = 2 → ((∀ g, some (filterOf f o) = some g → g.nvdim = 1 ∧ g.mesh.region.ndim = 2) ↔
      ∀ g, o.filter = some g → g.nvdim = 1 ∧ g.mesh.region.ndim = 2) := by
    intro h2
    cases ho : o.filter with
    | none =>
      simp only [filterOf, ho, Option.getD_none]
      constructor
      · intro _ g hg; cases hg
      · intro _ g hg; injection hg with hg; subst hg; exact ⟨rfl, h2⟩
    | some g' => simp only [filterOf, ho, Option.getD_some]
  constructor
  · rintro ⟨calls, h⟩
    obtain ⟨h2, m, lab, hm, hl, hcases⟩ := mplDefault_ok_inv f o calls h
    obtain ⟨pre, hp, _⟩ := axisLabels_ok_inv _ m lab hl
    have hmult := (multOk_iff f hinv o.mult).mpr ⟨m, pre, hm, hp⟩
    rcases hcases with ⟨h1, cs, hcs, _⟩ | ⟨hn2, cv, hcv, _⟩ | ⟨h3, c, cs, cv, hthird, hcs, hcv, _⟩
    · obtain ⟨_, _, _, hflt⟩ := (scalar_ok_iff f _ hinv hfo).mp ⟨cs, hcs⟩
      exact ⟨h2, hmult, by omega, by omega, fun _ => (hfo2 h2).mp hflt, fun hc => by omega, fun hc => by omega⟩
    · obtain ⟨_, _, hvc⟩ := (vector_ok_iff f { o with mult := some m } hinv hwfA).mp ⟨cv, hcv⟩
      exact ⟨h2, hmult, by omega, by omega, fun hc => absurd hn2 hc, fun _ => hvc, fun hc => by omega⟩
    · obtain ⟨_, _, _, hflt⟩ := (scalar_ok_iff (compField f c) _ hinv hfo).mp ⟨cs, hcs⟩
      obtain ⟨_, _, hvc⟩ := (vector_ok_iff f { o with mult := some m } hinv hwfA).mp ⟨cv, hcv⟩
      exact ⟨h2, hmult, by omega, by omega, fun _ => (hfo2 h2).mp hflt, fun _ => hvc,
        fun _ => (thirdComp_ok_iff f _ o.pick).mp ⟨c, hthird⟩⟩
  · rintro ⟨h2, hm, hn1, hn3, hflt, hvec, hleft⟩
    obtain ⟨m, pre, hsm, hp⟩ := setupMultiplier_ok f hinv o.mult hm
    have hm' : MultOk f (some m) := ⟨pre, rsiPrefix_some m pre hp⟩
    unfold mplDefault
    rw [if_neg (by simpa using h2)]
    simp only [hsm, axisLabels, hp]
    by_cases h1 : f.nvdim = 1
    · rw [if_pos h1]
      obtain ⟨cs, hcs⟩ := (scalar_ok_iff f { o with mult := some m, filter := some (filterOf f o) } hinv hfo).mpr
        ⟨h2, by omega, hm', (hfo2 h2).mpr (hflt (by omega))⟩
      rw [hcs]
      exact ⟨_, rfl⟩
    · rw [if_neg h1]
      obtain ⟨cv, hcv⟩ := (vector_ok_iff f { o with mult := some m } hinv hwfA).mpr ⟨h2, hm', hvec (by omega)⟩
      by_cases hn2 : f.nvdim = 2
      · rw [if_pos hn2, hcv]
        exact ⟨_, rfl⟩
      · rw [if_neg hn2, if_pos (by omega)]
        obtain ⟨c, hc⟩ := (thirdComp_ok_iff f _ o.pick).mpr (hleft (by omega))
        obtain ⟨cs, hcs⟩ := (scalar_ok_iff (compField f c) { o with mult := some m, filter := some (filterOf f o) }
          hinv hfo).mpr ⟨h2, by show 1 ≤ 1; omega, hm', (hfo2 h2).mpr (hflt (by omega))⟩
        rw [hc]
        simp only [hcs, hcv]
        exact ⟨_, rfl⟩


/-- **Which component drives the arrows when several labels point to one axis: the LAST.**
`Field._r_dim_mapping` inverts `vdim_mapping` with a dict comprehension, so of several labels
mapped to the same spatial dimension the one that comes last in the mapping wins.  With no
`vdims=`: the horizontal arrow component is the component labelled `l`, where `(l, dims[0])` is
the last entry of the mapping pointing to `dims[0]` (`vmap = pre ++ (l, dims[0]) :: post`, nothing
in `post` points to `dims[0]`), `l` non-empty; when nothing points to `dims[0]`, or the last such
label is empty, the horizontal components are zeros.  Likewise vertically with `dims[1]`. -/
theorem vector_components_last_label (f : Fld) (o : Opts) (calls : List PlotCall)
    (hinv : f.mesh.Inv) (hvd : o.vdimsArg = none) (h : mplVector f o = .ok calls) :
    ∃ X Y U V C lab, calls = [.quiver X Y U V C, lab] ∧
      ∀ (a : Nat) (A : NDA (Option Rat)), (a = 0 ∧ A = U) ∨ (a = 1 ∧ A = V) →
        (∃ l k vs pre post, f.vmap = pre ++ (l, f.mesh.region.dims.getD a "") :: post ∧
            (∀ p ∈ post, p.2 ≠ f.mesh.region.dims.getD a "") ∧ l ≠ "" ∧
            f.vdims = some vs ∧ vs.getD k "" = l ∧
            ∀ r c, A.get [r, c] =
              if f.valid.get [c, r] then some ((f.data.get [c, r]).getD k 0) else none) ∨
        (((∀ p ∈ f.vmap, p.2 ≠ f.mesh.region.dims.getD a "") ∨
            ∃ pre post, f.vmap = pre ++ ("", f.mesh.region.dims.getD a "") :: post ∧
              ∀ p ∈ post, p.2 ≠ f.mesh.region.dims.getD a "") ∧
          ∀ r c, A.get [r, c] = some 0) := by
  obtain ⟨h2, _, m, _, hcore⟩ := mplVector_ok_inv f o calls h
  obtain ⟨keep, vd, ax, ay, c, lab, hk, hvds, hax, hay, _, _, _, hc⟩ := vectorCore_ok_inv f o m calls hcore
  have hn : f.mesh.n.length = 2 := by rw [hinv.2.1, h2]
  obtain ⟨keep', hk', hget⟩ := filterKeep_valid f h2
  rw [hk'] at hk
  injection hk with hk
  subst hk
  have hvd' : vd = inplaneVdims f := by
    unfold vectorVdims at hvds
    rw [hvd] at hvds
    injection hvds with hvds
    exact hvds.symm
  subst hvd'
  have side : ∀ (a : Nat) (ai : Option Nat),
      arrowIdx f (rDimLast f (f.mesh.region.dims.getD a "")) = .ok ai →
      (∃ l k vs pre post, f.vmap = pre ++ (l, f.mesh.region.dims.getD a "") :: post ∧
          (∀ p ∈ post, p.2 ≠ f.mesh.region.dims.getD a "") ∧ l ≠ "" ∧
          f.vdims = some vs ∧ vs.getD k "" = l ∧
          ∀ r c, (arrowArr f keep' ai).get [r, c] =
            if f.valid.get [c, r] then some ((f.data.get [c, r]).getD k 0) else none) ∨
      (((∀ p ∈ f.vmap, p.2 ≠ f.mesh.region.dims.getD a "") ∨
          ∃ pre post, f.vmap = pre ++ ("", f.mesh.region.dims.getD a "") :: post ∧
            ∀ p ∈ post, p.2 ≠ f.mesh.region.dims.getD a "") ∧
        ∀ r c, (arrowArr f keep' ai).get [r, c] = some 0) := by
    intro a ai hai
    cases ai with
    | none =>
      right
      refine ⟨?_, fun r c => arrowArr_none_get f hn keep' r c⟩
      rcases arrowIdx_none_inv f _ hai with hnone | hemp
      · exact Or.inl ((rDimLast_none_iff f _).mp hnone)
      · exact Or.inr ((rDimLast_some_iff f _ "").mp hemp)
    | some k =>
      left
      obtain ⟨s, vs, hs, hne, hvs, hks⟩ := arrowIdx_some_inv f _ k hai
      obtain ⟨pre, post, hv, hall⟩ := (rDimLast_some_iff f _ s).mp hs
      refine ⟨s, k, vs, pre, post, hv, hall, hne, hvs, hks, fun r c => ?_⟩
      rw [arrowArr_some_get f hn, hget]
  refine ⟨_, _, _, _, c, lab, hc, ?_⟩
  rintro a A (⟨rfl, rfl⟩ | ⟨rfl, rfl⟩)
  · exact side 0 ax (by simpa [inplaneVdims] using hax)
  · exact side 1 ay (by simpa [inplaneVdims] using hay)

/-- Non-vacuity of `vector_components_last_label`: with the mapping `a ↦ x, b ↦ x, c ↦ y` the
horizontal arrows use `b` (component 1), the last label pointing to `x`, not `a`. -/
example : rDimLast { exV with vmap := [("a", "x"), ("b", "x"), ("c", "y")] } "x" = some "b" ∧
    okB (mplVector { exV with vmap := [("a", "x"), ("b", "x"), ("c", "y")] } { useColor := false }) = true ∧
    arrowIdx { exV with vmap := [("a", "x"), ("b", "x"), ("c", "y")] } (some "b") = .ok (some 1) := by
  decide +kernel

/-! ## the default plot on the heap, sessions of direct calls -/

/-- **The default plot `mpl()` with in-place writes refines the value model** (the composition
missing from `heap_plots_refine`): `scalar` of the FRESH component field `getattr(field, label)`
(three components; of the field itself for one) with the default filter built from the plotted
field in `__call__`, followed by `vector` on the heap the scalar part left behind, hands over
exactly what `mplDefault` computes from the field as a value — success or the same error. -/
theorem heap_default_refines (h : AHeap) (f : HFld) (o : HOpts) (hinv : f.mesh.Inv) (hf : f.On h)
    (hnum : ∀ i, (h.buf f.arr i).isSome) (hflt : ∀ g, o.filter = some g → g.On h)
    (haux : ∀ g, o.aux = some g → g.On h) (hlab : ∀ vs, f.vdims = some vs → vs.length ≤ f.nvdim) :
    (defaultH h f o).2 = mplDefault (f.abs h) (o.abs h) :=
  defaultH_refines h f o hinv hf hnum hflt haux hlab

/-- **Sessions of direct method calls are independent of their history** (induction over histories
of any length; the analogue of `session_calls_independent` for `field.mpl.scalar(...)`,
`.contour(...)`, `.vector(...)`, `.lightness(...)` and `field.mpl(...)`, which share no
dictionaries but share the ARRAYS of the fields they are given).  If every request of the history
is well-formed on the initial heap (`HReqOk`: field objects on the heap holding numbers), then the
`k`-th answer of the session is what the `k`-th request gets from the value model on the fields as
they were BEFORE the session, there is one answer per request, every buffer that existed before
the session is unchanged after it, and every field reads the same. -/
theorem heap_session_independent (sqrtF : Rat → Rat) (h : AHeap) (rs : List HReq)
    (ok : ∀ r ∈ rs, HReqOk h r) :
    (runHeapSession sqrtF h rs).2 = rs.map (specH sqrtF h) ∧
    (runHeapSession sqrtF h rs).2.length = rs.length ∧
    Frame h (runHeapSession sqrtF h rs).1 ∧
    ∀ g : HFld, g.On h → g.abs (runHeapSession sqrtF h rs).1 = g.abs h := by
  obtain ⟨a, b⟩ := runHeapSession_spec sqrtF h rs ok h (Frame.refl h)
  exact ⟨a, runHeapSession_length sqrtF h rs, b, fun g hg => abs_frame _ _ g b hg⟩

/-- **Two histories of direct calls, same answer**: what a request gets does not depend on which
(well-formed) direct calls were served before it on the same arrays. -/
theorem heap_session_history_irrelevant (sqrtF : Rat → Rat) (h : AHeap) (h1 h2 : List HReq) (r : HReq)
    (ok1 : ∀ q ∈ h1 ++ [r], HReqOk h q) (ok2 : ∀ q ∈ h2 ++ [r], HReqOk h q) :
    (runHeapSession sqrtF h (h1 ++ [r])).2.getLast? = (runHeapSession sqrtF h (h2 ++ [r])).2.getLast? := by
  rw [(heap_session_independent sqrtF h _ ok1).1, (heap_session_independent sqrtF h _ ok2).1,
    List.map_append, List.map_append]
  simp only [List.map_cons, List.map_nil, List.getLast?_append, List.getLast?_singleton, Option.some_or]

/-- Non-vacuity of the heap session theorems: five direct calls of all kinds on the example vector
field and a scalar field sharing one heap (the scalar field doubling as filter and lightness field
of later calls); the requests are well-formed, every call succeeds, the heap grows, and the four
input buffers are where they were. -/
example : (∀ r ∈ exHReqs, HReqOk exHeap2 r) ∧
    (runHeapSession (fun q => q) exHeap2 exHReqs).2.map okB = [true, true, true, true, true] ∧
    4 < (runHeapSession (fun q => q) exHeap2 exHReqs).1.length := by
  refine ⟨exHReqs_ok, by decide +kernel, by decide +kernel⟩


/-! ## the property from hypotheses on the INPUTS only

The positional theorems above take the success of the call as a hypothesis; composed with the
acceptance theorems they need hypotheses on the inputs only. -/

/-- **Scalar plot, from the inputs.**  For every field with at most one component on a well-formed
2-d mesh, acceptable multiplier and filter (`MultOk`, `AuxOk`; same or another resolution), the
call succeeds and: one `imshow` with `origin="lower"` and extent `region / m`, `m` a positive SI
table entry announced by the axis labels; image of shape `(n₁, n₀)`; pixel `[j][i]` shows the value
of cell `(i, j)` exactly when the cell is valid and non-zero in the filter (NaN otherwise); and for
EVERY physical point of the region the unique pixel covering it (imshow contract) is the pixel of
the cell containing the point. -/
theorem scalar_plot_from_inputs (f : Fld) (o : Opts) (hinv : f.mesh.Inv) (h2 : f.mesh.region.ndim = 2)
    (hnv : f.nvdim ≤ 1) (hm : MultOk f o.mult) (hflt : ∀ g, o.filter = some g → AuxOk f g) :
    ∃ calls m img lab, mplScalar f o = .ok calls ∧ 0 < m ∧ setupMultiplier f o.mult = .ok m ∧
      calls = [.imshow img "lower"
        [f.mesh.region.lo 0 / m, f.mesh.region.hi 0 / m, f.mesh.region.lo 1 / m, f.mesh.region.hi 1 / m],
        lab] ∧
      EndsWithLabels f.mesh.region m calls ∧ img.shape = [f.mesh.nAt 1, f.mesh.nAt 0] ∧
      (∀ i j, i < f.mesh.nAt 0 → j < f.mesh.nAt 1 →
        img.get [j, i] = if keptBy f o.filter [i, j] then some ((f.data.get [i, j]).getD 0 0) else none) ∧
      ∀ x y, f.mesh.region.lo 0 ≤ x * m ∧ x * m ≤ f.mesh.region.hi 0 →
        f.mesh.region.lo 1 ≤ y * m ∧ y * m ≤ f.mesh.region.hi 1 →
        f.mesh.indexAx 0 (x * m) < f.mesh.nAt 0 ∧ f.mesh.indexAx 1 (y * m) < f.mesh.nAt 1 ∧
        PixelCovers (f.mesh.nAt 1) (f.mesh.nAt 0)
          [f.mesh.region.lo 0 / m, f.mesh.region.hi 0 / m, f.mesh.region.lo 1 / m, f.mesh.region.hi 1 / m]
          (f.mesh.indexAx 1 (y * m)) (f.mesh.indexAx 0 (x * m)) x y ∧
        ∀ r c, r < f.mesh.nAt 1 → c < f.mesh.nAt 0 →
          PixelCovers (f.mesh.nAt 1) (f.mesh.nAt 0)
            [f.mesh.region.lo 0 / m, f.mesh.region.hi 0 / m, f.mesh.region.lo 1 / m, f.mesh.region.hi 1 / m]
            r c x y →
          r = f.mesh.indexAx 1 (y * m) ∧ c = f.mesh.indexAx 0 (x * m) := by
  obtain ⟨calls, hc⟩ := scalar_accepts f o hinv h2 hnv hm hflt
  obtain ⟨m, keep, img, lab, hpos, hsm, _, hcalls, hshape, hposn⟩ := scalar_at_position f o calls hinv hc
  obtain ⟨img', ext', lab', hcalls', hpix⟩ := scalar_hides_exactly f o calls hinv
    (fun g hg => auxOk_geom f g hinv (hflt g hg)) hc
  obtain ⟨m', hsm', hends⟩ := (labels_eq (fun q => q) f o calls).1 hc
  have hmm : m' = m := by rw [hsm] at hsm'; injection hsm' with e; exact e.symm
  subst hmm
  have himg : img' = img := by
    rw [hcalls] at hcalls'
    injection hcalls' with e _
    injection e with e _ _
    exact e.symm
  subst himg
  refine ⟨calls, m', img', lab, hc, hpos, hsm, hcalls, hends, hshape, hpix, fun x y hx hy => ?_⟩
  obtain ⟨a, b, c, d, _⟩ := hposn x y hx hy
  exact ⟨a, b, c, d⟩

/-- **Vector plot, from the inputs.**  For every field on a well-formed 2-d mesh with an
acceptable multiplier whose label / colour arguments satisfy `VectorCond` (colour fields on other
cell counts being field objects), the call succeeds and: one `quiver(X, Y, U, V[, C])`; `X`, `Y`
are the cell centres divided by the positive SI multiplier `m` announced by the axis labels;
`U`, `V` have shape `(n₁, n₀)`; and the arrow of cell `(i, j)` is hidden (a NaN component) if and
only if the cell is invalid. -/
theorem vector_plot_from_inputs (f : Fld) (o : Opts) (hinv : f.mesh.Inv) (h2 : f.mesh.region.ndim = 2)
    (hm : MultOk f o.mult) (hcond : VectorCond f o)
    (hwf : ∀ g, o.aux = some g → g.mesh.n = f.mesh.n ∨ FieldWf g) :
    ∃ calls m X Y U V C lab, mplVector f o = .ok calls ∧ 0 < m ∧ setupMultiplier f o.mult = .ok m ∧
      calls = [.quiver X Y U V C, lab] ∧ EndsWithLabels f.mesh.region m calls ∧
      X.length = f.mesh.nAt 0 ∧ Y.length = f.mesh.nAt 1 ∧
      (∀ c, c < f.mesh.nAt 0 →
        X.getD c 0 = (f.mesh.region.lo 0 + ((c : Rat) + 1/2) * f.mesh.cellAt 0) / m) ∧
      (∀ r, r < f.mesh.nAt 1 →
        Y.getD r 0 = (f.mesh.region.lo 1 + ((r : Rat) + 1/2) * f.mesh.cellAt 1) / m) ∧
      U.shape = [f.mesh.nAt 1, f.mesh.nAt 0] ∧ V.shape = [f.mesh.nAt 1, f.mesh.nAt 0] ∧
      ∀ i j, ((U.get [j, i]).isNone ∨ (V.get [j, i]).isNone) ↔ f.valid.get [i, j] = false := by
  obtain ⟨calls, hc⟩ := (vector_ok_iff f o hinv hwf).mpr ⟨h2, hm, hcond⟩
  obtain ⟨m, X, Y, U, V, C, lab, hpos, hsm, hcalls, hX, hY, hXc, hYc, hU, hV⟩ := vector_at_centres f o calls hc
  obtain ⟨X', Y', U', V', C', lab', hcalls', hhid⟩ := vector_hides_exactly_invalid f o calls hinv hc
  obtain ⟨m', hsm', hends⟩ := (labels_eq (fun q => q) f o calls).2.2.1 hc
  have hmm : m' = m := by rw [hsm] at hsm'; injection hsm' with e; exact e.symm
  subst hmm
  rw [hcalls] at hcalls'
  injection hcalls' with e _
  injection e with _ _ eU eV _
  subst eU eV
  exact ⟨calls, m', X, Y, U, V, C, lab, hc, hpos, hsm, hcalls, hends, hX, hY, hXc, hYc, hU, hV, hhid⟩

/-- **Contour plot, from the inputs**, matplotlib's precondition included.  For every
one-component field on a well-formed 2-d mesh with at least 2 × 2 cells, acceptable multiplier and
filter, the call as a whole succeeds (`mplContourMpl`) with one `contour(X, Y, Z)`: `X`, `Y` the
cell centres divided by the positive multiplier, `Z[j][i]` the value of cell `(i, j)` exactly when
the cell is valid and non-zero in the filter, NaN otherwise. -/
theorem contour_plot_from_inputs (f : Fld) (o : Opts) (hinv : f.mesh.Inv) (h2 : f.mesh.region.ndim = 2)
    (hnv : f.nvdim = 1) (hm : MultOk f o.mult) (hflt : ∀ g, o.filter = some g → AuxOk f g)
    (hn0 : 2 ≤ f.mesh.nAt 0) (hn1 : 2 ≤ f.mesh.nAt 1) :
    ∃ calls m X Y Z lab, mplContourMpl f o = .ok calls ∧ 0 < m ∧ setupMultiplier f o.mult = .ok m ∧
      calls = [.contour X Y Z, lab] ∧ contourArgsOk X Y Z = true ∧
      (∀ c, c < f.mesh.nAt 0 →
        X.getD c 0 = (f.mesh.region.lo 0 + ((c : Rat) + 1/2) * f.mesh.cellAt 0) / m) ∧
      (∀ r, r < f.mesh.nAt 1 →
        Y.getD r 0 = (f.mesh.region.lo 1 + ((r : Rat) + 1/2) * f.mesh.cellAt 1) / m) ∧
      ∀ i j, i < f.mesh.nAt 0 → j < f.mesh.nAt 1 →
        Z.get [j, i] = if keptBy f o.filter [i, j] then some ((f.data.get [i, j]).getD 0 0) else none := by
  obtain ⟨calls, hc⟩ := contour_accepts f o hinv h2 hnv hm hflt
  obtain ⟨m, keep, X, Y, Z, lab, hpos, hsm, _, hcalls, _, _, hXc, hYc, _, _⟩ := contour_grid f o calls hinv hc
  obtain ⟨X', Y', Z', lab', hcalls', hpix⟩ := contour_hides_exactly f o calls hinv
    (fun g hg => auxOk_geom f g hinv (hflt g hg)) hc
  obtain ⟨X'', Y'', Z'', lab'', hcalls'', _, _, _, hargs, hacc⟩ := contour_args_ok_iff f o calls hinv hc
  rw [hcalls] at hcalls' hcalls''
  injection hcalls' with e _
  injection e with _ _ eZ
  subst eZ
  injection hcalls'' with e _
  injection e with eX eY eZ
  subst eX eY eZ
  refine ⟨calls, m, X, Y, Z, lab, ?_, hpos, hsm, hcalls, hargs.mpr ⟨hn0, hn1⟩, hXc, hYc, hpix⟩
  unfold mplContourMpl
  rw [hc]
  simp only []
  rw [if_pos (hacc.mpr ⟨hn0, hn1⟩)]

/-- Non-vacuity of the three theorems above: the example fields meet their hypotheses (the scalar
example has 2 × 3 cells, a filter on 4 × 3 cells is acceptable; the vector example satisfies
`VectorCond` with its mapping and with explicit labels). -/
example : MultOk exS none ∧ AuxOk exS exFine ∧ 2 ≤ exS.mesh.nAt 0 ∧ 2 ≤ exS.mesh.nAt 1 ∧
    okB (mplContourMpl exS { filter := some exFine }) = true ∧
    okB (mplContourMpl { exS with mesh := { exMesh with n := [1, 3] } } {}) = false ∧
    okB (mplContour { exS with mesh := { exMesh with n := [1, 3] } } {}) = true := by
  refine ⟨?_, ⟨rfl, rfl, Or.inr ⟨mesh_inv_of_invB _ (by decide +kernel), by decide +kernel⟩⟩,
    by decide +kernel, by decide +kernel, by decide +kernel, by decide +kernel, by decide +kernel⟩
  show ∀ a, a < exS.mesh.region.ndim → _
  decide +kernel


/-- **`field.mpl.lightness` succeeds if and only if** the mesh is 2-d, the field has at most three
components, multiplier, filter and lightness field are acceptable, for two and three components
both plot axes have a label in the mapping and these are component labels (`AngleOk`), and for
three components without a lightness field a component label is left over for the lightness. -/
theorem lightness_ok_iff (sqrtF : Rat → Rat) (f : Fld) (o : Opts) (hinv : f.mesh.Inv)
    (hwfF : ∀ g, o.filter = some g → g.mesh.n = f.mesh.n ∨ FieldWf g)
    (hwfA : ∀ g, o.aux = some g → g.mesh.n = f.mesh.n ∨ FieldWf g) :
    (∃ calls, mplLightness sqrtF f o = .ok calls) ↔
      f.mesh.region.ndim = 2 ∧ f.nvdim ≤ 3 ∧ MultOk f o.mult ∧
      (∀ g, o.filter = some g → g.nvdim = 1 ∧ g.mesh.region.ndim = 2) ∧
      (∀ g, o.aux = some g → g.nvdim = 1 ∧ g.mesh.region.ndim = 2) ∧
      (2 ≤ f.nvdim → AngleOk f) ∧
      (f.nvdim = 3 → o.aux = none → leftover f (inplaneVdims f) ≠ []) := by
  by_cases h2 : f.mesh.region.ndim = 2
  swap
  · constructor
    · rintro ⟨calls, h⟩
      rw [(refuse_not_2d sqrtF f o h2).2.2.2.2] at h
      cases h
    · rintro ⟨h, _⟩; exact absurd h h2
  have hkeep := filterKeep_ok_iff f o hinv h2 hwfF
  -- the final stage with a derived lightness field on the mesh of `f`
  have derived : ∀ (D : Fld) (hue : List Nat → Hue) (d0 : NDA Rat), D.mesh = f.mesh → D.nvdim = 1 →
      ((∃ calls, lightCore f { o with aux := some D } hue d0 (filterOf f o) = .ok calls) ↔
        MultOk f o.mult ∧ ∀ g, o.filter = some g → g.nvdim = 1 ∧ g.mesh.region.ndim = 2) := by
    intro D hue d0 hD1 hD2
    rw [lightCore_ok_iff f { o with aux := some D } hue d0 _ hinv h2
      (fun g hg => by injection hg with hg; subst hg; exact Or.inl (by rw [hD1])), hkeep]
    constructor
    · rintro ⟨a, _, c⟩; exact ⟨a, c⟩
    · rintro ⟨a, c⟩
      refine ⟨a, fun g hg => ?_, c⟩
      injection hg with hg; subst hg
      exact ⟨hD2, by rw [hD1]; exact h2⟩
  have given : ∀ (hue : List Nat → Hue) (d0 : NDA Rat),
      ((∃ calls, lightCore f o hue d0 (filterOf f o) = .ok calls) ↔
        MultOk f o.mult ∧ (∀ g, o.aux = some g → g.nvdim = 1 ∧ g.mesh.region.ndim = 2) ∧
        ∀ g, o.filter = some g → g.nvdim = 1 ∧ g.mesh.region.ndim = 2) := by
    intro hue d0
    rw [lightCore_ok_iff f o hue d0 _ hinv h2 hwfA, hkeep]
  unfold mplLightness
  rw [if_neg (by simpa using h2)]
  by_cases hn2 : f.nvdim = 2
  · rw [if_pos hn2]
    cases hxy : angleComps f with
    | error e =>
      simp only []
      constructor
      · rintro ⟨_, h⟩; cases h
      · rintro ⟨_, _, _, _, _, hang, _⟩
        obtain ⟨xy, hxy'⟩ := (angleComps_ok_iff f).mpr (hang (by omega))
        rw [hxy] at hxy'; cases hxy'
    | ok xy =>
      simp only []
      have hang : AngleOk f := (angleComps_ok_iff f).mp ⟨xy, hxy⟩
      cases haux : o.aux with
      | none =>
        simp only [Option.getD_none]
        refine (derived (normField sqrtF f) _ _ rfl rfl).trans ?_
        constructor
        · rintro ⟨a, b⟩
          exact ⟨h2, by omega, a, b, fun g hg => (nomatch hg), fun _ => hang, fun h3 => by omega⟩
        · rintro ⟨_, _, a, b, _⟩; exact ⟨a, b⟩
      | some g =>
        simp only [Option.getD_some]
        have e : ({ o with aux := some g } : Opts) = o := opts_with_aux o g haux
        rw [e, given, haux]
        constructor
        · rintro ⟨a, b, c⟩
          exact ⟨h2, by omega, a, c, b, fun _ => hang, fun _ h => (nomatch h)⟩
        · rintro ⟨_, _, a, c, b, _⟩; exact ⟨a, b, c⟩
  · rw [if_neg hn2]
    by_cases hn3 : f.nvdim = 3
    · rw [if_pos hn3]
      cases haux : o.aux with
      | some g =>
        simp only []
        cases hxy : angleComps f with
        | error e =>
          simp only []
          constructor
          · rintro ⟨_, h⟩; cases h
          · rintro ⟨_, _, _, _, _, hang, _⟩
            obtain ⟨xy, hxy'⟩ := (angleComps_ok_iff f).mpr (hang (by omega))
            rw [hxy] at hxy'; cases hxy'
        | ok xy =>
          simp only []
          have hang : AngleOk f := (angleComps_ok_iff f).mp ⟨xy, hxy⟩
          rw [given, haux]
          constructor
          · rintro ⟨a, b, c⟩
            exact ⟨h2, by omega, a, c, b, fun _ => hang, fun _ h => (nomatch h)⟩
          · rintro ⟨_, _, a, c, b, _⟩; exact ⟨a, b, c⟩
      | none =>
        simp only []
        by_cases hm : f.vmap.isEmpty = true
        · rw [if_pos hm]
          constructor
          · rintro ⟨_, h⟩; cases h
          · rintro ⟨_, _, _, _, _, hang, _⟩
            have := angleOk_vmap_ne f (hang (by omega))
            rw [hm] at this; cases this
        · rw [if_neg hm]
          cases hc : thirdComp f (inplaneVdims f) o.pick with
          | error e =>
            simp only []
            constructor
            · rintro ⟨_, h⟩; cases h
            · rintro ⟨_, _, _, _, _, _, hleft⟩
              obtain ⟨c, hc'⟩ := (thirdComp_ok_iff f _ o.pick).mpr (hleft hn3 trivial)
              rw [hc] at hc'; cases hc'
          | ok c =>
            simp only []
            have hleft := (thirdComp_ok_iff f _ o.pick).mp ⟨c, hc⟩
            cases hxy : angleComps f with
            | error e =>
              simp only []
              constructor
              · rintro ⟨_, h⟩; cases h
              · rintro ⟨_, _, _, _, _, hang, _⟩
                obtain ⟨xy, hxy'⟩ := (angleComps_ok_iff f).mpr (hang (by omega))
                rw [hxy] at hxy'; cases hxy'
            | ok xy =>
              simp only []
              have hang : AngleOk f := (angleComps_ok_iff f).mp ⟨xy, hxy⟩
              refine (derived (compField f c) _ _ rfl rfl).trans ?_
              constructor
              · rintro ⟨a, b⟩
                exact ⟨h2, by omega, a, b, fun g hg => (nomatch hg), fun _ => hang, fun _ _ => hleft⟩
              · rintro ⟨_, _, a, b, _⟩; exact ⟨a, b⟩
    · rw [if_neg hn3]
      by_cases hn4 : f.nvdim > 3
      · rw [if_pos hn4]
        constructor
        · rintro ⟨_, h⟩; cases h
        · rintro ⟨_, h, _⟩; omega
      · rw [if_neg hn4, given]
        constructor
        · rintro ⟨a, b, c⟩
          exact ⟨h2, by omega, a, c, b, fun h => by omega, fun h => by omega⟩
        · rintro ⟨_, _, a, c, b, _⟩; exact ⟨a, b, c⟩

/-- Non-vacuity of `lightness_ok_iff`: the example vector field satisfies `AngleOk` and has a
label left over; stripped of the label `c` in its mapping nothing changes, stripped of the mapping
to `y` it is refused. -/
example : AngleOk exV ∧ leftover exV (inplaneVdims exV) ≠ [] ∧
    okB (mplLightness (fun q => q) exV {}) = true ∧
    okB (mplLightness (fun q => q) { exV with vmap := [("b", "x")] } {}) = false :=
  ⟨⟨"b", "a", 1, 0, by decide +kernel, by decide +kernel, by decide +kernel, by decide +kernel⟩,
   by decide +kernel, by decide +kernel, by decide +kernel⟩


/-- **Drawn cells = valid AND filter, stated on the buffers** (scalar and contour, the code-shaped
heap functions with their in-place NaN writes; filter on the cell counts of the field).  Whenever
`field.mpl.scalar` / `field.mpl.contour` succeeds on the heap, entry `[j][i]` of the image / of `Z`
handed to matplotlib is the entry `[i, j, 0]` of the field's own array buffer if the validity
buffer holds `1` at `[i, j]` and — when a `filter_field` is given — the filter's array buffer is
non-zero at `[i, j, 0]`; it is NaN otherwise.  (Composition of `heap_plots_refine` with
`scalar_hides_exactly` / `contour_hides_exactly`.) -/
theorem heap_drawn_cells (h : AHeap) (f : HFld) (o : HOpts) (calls : List PlotCall)
    (hinv : f.mesh.Inv) (hf : f.On h) (hnum : ∀ i, (h.buf f.arr i).isSome) (hnv : f.nvdim = 1)
    (hflt : ∀ g, o.filter = some g → g.On h ∧ g.mesh.n = f.mesh.n) :
    ((scalarH h f o).2 = .ok calls →
      ∃ img ext lab, calls = [.imshow img "lower" ext, lab] ∧
        ∀ i j, i < f.mesh.nAt 0 → j < f.mesh.nAt 1 →
          img.get [j, i] =
            if f.validAt h [i, j] = true ∧ ∀ g, o.filter = some g → (h.buf g.arr [i, j, 0]).getD 0 ≠ 0
            then h.buf f.arr [i, j, 0] else none) ∧
    ((contourH h f o).2 = .ok calls →
      ∃ X Y Z lab, calls = [.contour X Y Z, lab] ∧
        ∀ i j, i < f.mesh.nAt 0 → j < f.mesh.nAt 1 →
          Z.get [j, i] =
            if f.validAt h [i, j] = true ∧ ∀ g, o.filter = some g → (h.buf g.arr [i, j, 0]).getD 0 ≠ 0
            then h.buf f.arr [i, j, 0] else none) := by
  have hgeo : ∀ g, (o.abs h).filter = some g → AuxGeom (f.abs h) g := by
    intro g hg
    cases ho : o.filter with
    | none => simp [HOpts.abs, ho] at hg
    | some g' =>
      simp only [HOpts.abs, ho, Option.map_some, Option.some.injEq] at hg
      subst hg
      exact Or.inl (hflt g' ho).2
  -- the kept cells, on the buffers
  have kept : ∀ (keepOk : ∃ keep, filterKeep (f.abs h) (filterOf (f.abs h) (o.abs h)) = .ok keep) (i j : Nat),
      (if keptBy (f.abs h) (o.abs h).filter [i, j] = true
        then some (((f.abs h).data.get [i, j]).getD 0 0) else none) =
      if f.validAt h [i, j] = true ∧ ∀ g, o.filter = some g → (h.buf g.arr [i, j, 0]).getD 0 ≠ 0
      then h.buf f.arr [i, j, 0] else none := by
    intro keepOk i j
    have hval : some (((f.abs h).data.get [i, j]).getD 0 0) = h.buf f.arr [i, j, 0] := by
      rw [abs_data_one h f hnv]
      have := hnum [i, j, 0]
      cases hb : h.buf f.arr [i, j, 0] with
      | none => rw [hb] at this; cases this
      | some v => rfl
    rw [hval]
    unfold keptBy
    show (if ((f.validAt h [i, j]) && _) = true then _ else _) = _
    cases ho : o.filter with
    | none =>
      simp only [HOpts.abs, ho, Option.map_none, Bool.and_true]
      by_cases hv : f.validAt h [i, j] = true
      · rw [if_pos hv, if_pos ⟨hv, fun g hg => nomatch hg⟩]
      · rw [if_neg hv, if_neg (fun hc => hv hc.1)]
    | some g =>
      obtain ⟨keep, hk⟩ := keepOk
      have hfo : filterOf (f.abs h) (o.abs h) = g.abs h := by
        unfold filterOf HOpts.abs; rw [ho]; rfl
      rw [hfo] at hk
      obtain ⟨g1, _, _⟩ := filterKeep_ok_inv (f.abs h) (g.abs h) keep hk
      have hsame : (g.abs h).mesh.n = (f.abs h).mesh.n := (hflt g ho).2
      simp only [HOpts.abs, ho, Option.map_some]
      unfold auxAt
      rw [if_pos hsame, abs_data_one h g g1]
      by_cases hv : f.validAt h [i, j] = true
      · by_cases hz : (h.buf g.arr [i, j, 0]).getD 0 = 0
        · rw [if_neg (by simp [hv, hz]), if_neg (fun hc => hc.2 g rfl hz)]
        · rw [if_pos (by simp [hv, hz]), if_pos ⟨hv, fun g' hg' => by injection hg' with e; subst e; exact hz⟩]
      · rw [if_neg (by simp [hv]), if_neg (fun hc => hv hc.1)]
  constructor
  · intro hc
    rw [scalarH_refines h f o hinv hf hnum (fun g hg => (hflt g hg).1) hnv] at hc
    obtain ⟨_, _, m, _, hcore⟩ := mplScalar_ok_inv _ _ calls hc
    obtain ⟨_, keep, _, _, hk, _, _⟩ := scalarCore_ok_inv _ _ m calls hcore
    obtain ⟨img, ext, lab, hcalls, hpix⟩ := scalar_hides_exactly (f.abs h) (o.abs h) calls hinv hgeo hc
    refine ⟨img, ext, lab, hcalls, fun i j hi hj => ?_⟩
    rw [hpix i j hi hj]
    exact kept ⟨keep, hk⟩ i j
  · intro hc
    rw [contourH_refines h f o hinv hf hnum (fun g hg => (hflt g hg).1)] at hc
    obtain ⟨_, _, m, keep, _, _, hk, _, _⟩ := mplContour_ok_inv _ _ calls hc
    obtain ⟨X, Y, Z, lab, hcalls, hpix⟩ := contour_hides_exactly (f.abs h) (o.abs h) calls hinv hgeo hc
    refine ⟨X, Y, Z, lab, hcalls, fun i j hi hj => ?_⟩
    rw [hpix i j hi hj]
    exact kept ⟨keep, hk⟩ i j

/-- Non-vacuity of `heap_drawn_cells`: the scalar example on the two-field heap with ITSELF as
filter (its value 0 hides a valid cell). -/
example : exHS2.On exHeap2 ∧ exHS2.nvdim = 1 ∧
    okB (scalarH exHeap2 exHS2 { filter := some exHS2 }).2 = true ∧
    okB (contourH exHeap2 exHS2 { filter := some exHS2 }).2 = true := by
  refine ⟨⟨by decide, by decide⟩, rfl, by decide +kernel, by decide +kernel⟩


/-! ## non-vacuity on a non-trivial input

`Lemmas/C20Ex2.lean`: a 30 nm × 40 ns region with dimensions `a`, `t` and units `m`, `s`, 3 × 4 cells,
periodic along `a`, with a subregion; a scalar field with two holes in its validity, a
2-component field with a swapped mapping and one hole, a filter on 6 × 2 cells. -/

/-- The hypotheses of `scalar_plot_from_inputs`, `contour_plot_from_inputs`, `scalar_ok_iff`,
`vector_plot_from_inputs` / `vector_ok_iff`, `lightness_ok_iff` and `default_multiplier_iff` hold
on the nanometre example; its default multiplier is `1000^-3`, the labels read `a (nm)` and
`t (ns)`, the filter on 6 × 2 cells hides the valid cell `(0, 0)` and keeps `(1, 0)`, the hole
`(0, 1)` is hidden, and the horizontal arrows of the vector field use component `q` (number 1),
the one mapped to `a`. -/
example : exNmS.mesh.Inv ∧ exNmS.mesh.region.ndim = 2 ∧ MultOk exNmS none ∧ AuxOk exNmS exNmFlt ∧
    FieldWf exNmFlt ∧ 2 ≤ exNmS.mesh.nAt 0 ∧ 2 ≤ exNmS.mesh.nAt 1 ∧
    setupMultiplier exNmS none = .ok (p1000 (-3)) ∧
    (match axisLabels exNmRegion (p1000 (-3)) with
      | .ok (.labels xl yl) => xl == "a (nm)" && yl == "t (ns)"
      | _ => false) = true ∧
    keptBy exNmS (some exNmFlt) [0, 0] = false ∧ keptBy exNmS (some exNmFlt) [1, 0] = true ∧
    keptBy exNmS (some exNmFlt) [0, 1] = false ∧ exNmS.valid.get [0, 0] = true ∧
    VectorCond exNmV {} ∧ AngleOk exNmV ∧ inplaneVdims exNmV = [some "q", some "p"] ∧
    arrowIdx exNmV (some "q") = .ok (some 1) ∧
    okB (mplScalar exNmS { filter := some exNmFlt }) = true ∧
    okB (mplContourMpl exNmS { filter := some exNmFlt }) = true ∧
    okB (mplVector exNmV {}) = true ∧ okB (mplLightness (fun q => q) exNmV {}) = true ∧
    okB (mplDefault exNmV { useColor := false }) = true := by
  have hflt : exNmFlt.mesh.Inv := mesh_inv_of_invB _ (by decide +kernel)
  refine ⟨exNmMesh_inv, rfl, ?_, ⟨rfl, rfl, Or.inr ⟨hflt, by decide +kernel⟩⟩, ⟨hflt, by decide +kernel⟩,
    by decide +kernel, by decide +kernel, by decide +kernel, by decide +kernel, by decide +kernel,
    by decide +kernel, by decide +kernel, by decide +kernel, ?_, ?_, by decide +kernel, by decide +kernel,
    by decide +kernel, by decide +kernel, by decide +kernel, by decide +kernel, by decide +kernel⟩
  · show ∀ a, a < exNmS.mesh.region.ndim → _
    decide +kernel
  · refine ⟨fun _ => by decide, fun l hl => (nomatch hl), ⟨?_, ?_, ?_⟩, Or.inr (Or.inr ⟨rfl, Or.inl (by decide)⟩)⟩
    · exact Or.inr ⟨"q", ["p", "q"], by decide +kernel, by decide, rfl, by decide⟩
    · exact Or.inr ⟨"p", ["p", "q"], by decide +kernel, by decide, rfl, by decide⟩
    · rintro ⟨h, _⟩
      rcases h with h | h
      · exact absurd h (by decide +kernel)
      · exact absurd h (by decide +kernel)
  · exact ⟨"q", "p", 1, 0, by decide +kernel, by decide +kernel, by decide +kernel, by decide +kernel⟩


/-- **Lightness plot, from the inputs.**  Under the exact input conditions of `lightness_ok_iff`
the call succeeds and everything `lightness_any_nvdim` says holds: one `imshow` with
`origin="lower"`, extent `region / m` for the positive SI multiplier `m` announced by the labels,
shape `(n₁, n₀)`, pixel `[j][i]` opaque exactly when cell `(i, j)` is valid and non-zero in the
filter, and the pixel covering any physical point is the pixel of the cell containing it. -/
theorem lightness_plot_from_inputs (sqrtF : Rat → Rat) (f : Fld) (o : Opts) (hinv : f.mesh.Inv)
    (hwfF : ∀ g, o.filter = some g → g.mesh.n = f.mesh.n ∨ FieldWf g)
    (hwfA : ∀ g, o.aux = some g → g.mesh.n = f.mesh.n ∨ FieldWf g)
    (h2 : f.mesh.region.ndim = 2) (hnv : f.nvdim ≤ 3) (hm : MultOk f o.mult)
    (hflt : ∀ g, o.filter = some g → g.nvdim = 1 ∧ g.mesh.region.ndim = 2)
    (haux : ∀ g, o.aux = some g → g.nvdim = 1 ∧ g.mesh.region.ndim = 2)
    (hang : 2 ≤ f.nvdim → AngleOk f)
    (hleft : f.nvdim = 3 → o.aux = none → leftover f (inplaneVdims f) ≠ []) :
    ∃ calls m img lab, mplLightness sqrtF f o = .ok calls ∧ 0 < m ∧ setupMultiplier f o.mult = .ok m ∧
      calls = [.imshowHL img "lower"
        [f.mesh.region.lo 0 / m, f.mesh.region.hi 0 / m, f.mesh.region.lo 1 / m, f.mesh.region.hi 1 / m],
        lab] ∧
      EndsWithLabels f.mesh.region m calls ∧ img.shape = [f.mesh.nAt 1, f.mesh.nAt 0] ∧
      (∀ i j, i < f.mesh.nAt 0 → j < f.mesh.nAt 1 →
        (img.get [j, i]).isSome = keptBy f o.filter [i, j]) ∧
      ∀ x y, f.mesh.region.lo 0 ≤ x * m ∧ x * m ≤ f.mesh.region.hi 0 →
        f.mesh.region.lo 1 ≤ y * m ∧ y * m ≤ f.mesh.region.hi 1 →
        PixelCovers (f.mesh.nAt 1) (f.mesh.nAt 0)
          [f.mesh.region.lo 0 / m, f.mesh.region.hi 0 / m, f.mesh.region.lo 1 / m, f.mesh.region.hi 1 / m]
          (f.mesh.indexAx 1 (y * m)) (f.mesh.indexAx 0 (x * m)) x y ∧
        (∀ r c, r < f.mesh.nAt 1 → c < f.mesh.nAt 0 →
          PixelCovers (f.mesh.nAt 1) (f.mesh.nAt 0)
            [f.mesh.region.lo 0 / m, f.mesh.region.hi 0 / m, f.mesh.region.lo 1 / m, f.mesh.region.hi 1 / m]
            r c x y →
          r = f.mesh.indexAx 1 (y * m) ∧ c = f.mesh.indexAx 0 (x * m)) := by
  obtain ⟨calls, hc⟩ := (lightness_ok_iff sqrtF f o hinv hwfF hwfA).mpr ⟨h2, hnv, hm, hflt, haux, hang, hleft⟩
  obtain ⟨m, img, lab, a, b, c, d, e, g, k⟩ := lightness_any_nvdim sqrtF f o calls hinv
    (fun g hg => auxGeom_of_wf f g hinv (hwfF g hg)) hc
  exact ⟨calls, m, img, lab, hc, a, b, c, d, e, g, k⟩

/-- **Default plot, from the inputs.**  Under the exact input conditions of `default_ok_iff`
`field.mpl()` succeeds and everything `default_plot_object` says holds: one multiplier for
everything drawn, the labels announcing it, the scalar image of the field (one component) or of
the component not mapped to a plot axis (three), hidden exactly in the invalid-or-filtered cells,
followed by the vector plot (two and three components). -/
theorem default_plot_from_inputs (f : Fld) (o : Opts) (hinv : f.mesh.Inv)
    (hwfF : ∀ g, o.filter = some g → g.mesh.n = f.mesh.n ∨ FieldWf g)
    (hwfA : ∀ g, o.aux = some g → g.mesh.n = f.mesh.n ∨ FieldWf g)
    (h2 : f.mesh.region.ndim = 2) (hm : MultOk f o.mult) (hn1 : 1 ≤ f.nvdim) (hn3 : f.nvdim ≤ 3)
    (hflt : f.nvdim ≠ 2 → ∀ g, o.filter = some g → g.nvdim = 1 ∧ g.mesh.region.ndim = 2)
    (hvec : 2 ≤ f.nvdim → VectorCond f o)
    (hleft : f.nvdim = 3 → leftover f (inplaneVdims f) ≠ []) :
    ∃ calls m lab, mplDefault f o = .ok calls ∧ 0 < m ∧ setupMultiplier f o.mult = .ok m ∧
      EndsWithLabels f.mesh.region m calls ∧ axisLabels f.mesh.region m = .ok lab ∧
      ((f.nvdim = 1 ∧ ∃ img lab', calls = [.imshow img "lower"
            [f.mesh.region.lo 0 / m, f.mesh.region.hi 0 / m, f.mesh.region.lo 1 / m, f.mesh.region.hi 1 / m],
            lab', lab] ∧ img.shape = [f.mesh.nAt 1, f.mesh.nAt 0] ∧
          ∀ i j, i < f.mesh.nAt 0 → j < f.mesh.nAt 1 →
            img.get [j, i] = if keptBy f o.filter [i, j] then some ((f.data.get [i, j]).getD 0 0) else none) ∨
       (f.nvdim = 2 ∧ ∃ cv, mplVector f { o with mult := some m } = .ok cv ∧ calls = cv ++ [lab]) ∨
       (f.nvdim = 3 ∧ ∃ c img lab' cv, thirdComp f (inplaneVdims f) o.pick = .ok c ∧
          mplVector f { o with mult := some m } = .ok cv ∧
          calls = [.imshow img "lower"
            [f.mesh.region.lo 0 / m, f.mesh.region.hi 0 / m, f.mesh.region.lo 1 / m, f.mesh.region.hi 1 / m],
            lab'] ++ cv ++ [lab] ∧ img.shape = [f.mesh.nAt 1, f.mesh.nAt 0] ∧
          ∀ i j, i < f.mesh.nAt 0 → j < f.mesh.nAt 1 →
            img.get [j, i] = if keptBy f o.filter [i, j] then some ((f.data.get [i, j]).getD c 0) else none)) := by
  obtain ⟨calls, hc⟩ := (default_ok_iff f o hinv hwfF hwfA).mpr ⟨h2, hm, hn1, hn3, hflt, hvec, hleft⟩
  obtain ⟨m, lab, a, b, c, d, e⟩ := default_plot_object f o calls hinv
    (fun g hg => auxGeom_of_wf f g hinv (hwfF g hg)) hc
  exact ⟨calls, m, lab, hc, a, b, c, d, e⟩

end DFV.C20
