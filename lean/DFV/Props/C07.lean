import DFV.Lemmas.C07Ex
import DFV.Lemmas.C07Comp
import DFV.Lemmas.C07SubsOk
import DFV.Lemmas.C07Total
import DFV.Lemmas.C07Ext
/-!
# C07 — sub-selection, padding and resampling keep every value at its physical position

Property theorems about the code-shaped model `DFV/Model/C07.lean` of `Mesh.sel`,
`Field.sel`, `Mesh.__getitem__`, `Field.__getitem__`, `Mesh.region2slices`, `Mesh.pad`,
`Field.pad` and `Field.resample`.  Values are only moved, never computed: every statement
about values is an equation between `get`s of the result and of the source, so it holds
verbatim for any value type.  Dimension count, cell counts, selection coordinates, boxes,
pad widths and target resolutions are universally quantified.  Arithmetic is exact (`Rat`).

Second half of the file: what the constructor call at the end of every operation does with
component count, unit, labels and mapping (`op_meta` …), invariants by induction over histories
of operations (`history_meta`), well-formedness of every result (`op_wf`), subregions and
boundary condition of the result mesh (`op_subs_bc`, `sel_plane_subs`, `sel_range_subs`),
acceptance on meshes with subregions, composition laws and round trips (`sel_range_range`,
`sel_plane_comm`, `getitem_getitem`, `pad_crop_roundtrip`, `resample_source_cell`, …) and further
refusals.

Third part (second round): refusals as equivalences (`sel_plane_ok_iff`, …), the composition laws
stated on inputs only (`…_total`: acceptance of every intermediate step is part of the conclusion),
the face exception of `sel_range_range` characterised exactly (`sel_range_range_face`), the invariant
"subregions consist of whole cells" (`sel_plane_subs_aligned`, `sel_range_subs_aligned`), the padding
modes at object level for all widths (`pad_wrap_pointwise`, …, `pad_crop_smaller`), extraction by name
= extraction by the subregion's region, `region2slices` of arbitrary boxes, "any point of a cell"
(`getitem_region_anypoint`, `sel_range_anypoint`), the closed-form resampling of the driver
(`resample_fast_refines`) and requests at non-finite coordinates (`ExtRat`: `sel_nonfinite_rejected`,
`sel_ext_ok_iff`, `point2index_ext`, `getitem_nonfinite_rejected`).
-/
namespace DFV.C07
open DFV DFV.Mesh

/-! ## Argument normalisation (`_sel_convert_input`) -/

/-- A coordinate inside the region is accepted and normalised to the cell that contains it:
the returned index `k` is the index of that cell, the returned coordinate its centre, and
`lo + k·cell ≤ x < lo + (k+1)·cell` (the last cell is closed at the region's upper face). -/
theorem selConvert_point (m : Mesh) (hm : m.Inv) (dim : String) (a : Nat)
    (hd : m.region.dim2index dim = .ok a) (x : Rat)
    (h1 : m.region.lo a ≤ x) (h2 : x ≤ m.region.hi a) :
    selConvert m dim (.point x)
      = .ok (a, .plane (m.centreAx a ((m.indexAx a x : Nat) : Int)) (m.indexAx a x)) ∧
    m.indexAx a x < m.nAt a ∧
    m.region.lo a + (m.indexAx a x : Rat) * m.cellAt a ≤ x ∧
    (x < m.region.lo a + ((m.indexAx a x : Rat) + 1) * m.cellAt a ∨
      (m.indexAx a x = m.nAt a - 1 ∧ x = m.region.hi a)) := by
  have ha := dim2index_ndim hm hd
  refine ⟨?_, indexAx_lt m a x (inv_n_pos hm ha), index_contains m a x (inv_n_pos hm ha) (inv_lo_lt_hi hm ha) h1 h2⟩
  unfold selConvert
  rw [hd]
  simp only
  rw [selOne_eq m hm a ha x h1 h2]

/-- Without a coordinate the selection goes through the cell containing the region's centre. -/
theorem selConvert_centre (m : Mesh) (hm : m.Inv) (dim : String) (a : Nat)
    (hd : m.region.dim2index dim = .ok a) :
    selConvert m dim .centre
      = selConvert m dim (.point ((m.region.lo a + m.region.hi a) / 2)) := by
  have ha := dim2index_ndim hm hd
  have hlt := inv_lo_lt_hi hm ha
  rw [(selConvert_point m hm dim a hd _ (by linarith) (by linarith)).1]
  unfold selConvert
  rw [hd]
  simp only
  rw [cellOf_eq m hm a ha m.region.center (center_length m) (by
      intro b hb
      rw [center_getD m b hb]
      have := inv_lo_lt_hi hm hb
      constructor <;> linarith)]
  simp only
  rw [center_getD m a ha]

/-- A range inside the region is normalised to the cells containing its lower and its upper
bound (inclusive index range `k₁ … k₂`, `k₁ ≤ k₂`). -/
theorem selConvert_range (m : Mesh) (hm : m.Inv) (dim : String) (a : Nat)
    (hd : m.region.dim2index dim = .ok a) (x y : Rat)
    (h1 : m.region.lo a ≤ min x y) (h2 : max x y ≤ m.region.hi a) :
    selConvert m dim (.range x y)
      = .ok (a, .range (m.centreAx a ((m.indexAx a (min x y) : Nat) : Int))
                 (m.centreAx a ((m.indexAx a (max x y) : Nat) : Int))
                 (m.indexAx a (min x y)) (m.indexAx a (max x y))) ∧
    m.indexAx a (min x y) ≤ m.indexAx a (max x y) ∧ m.indexAx a (max x y) < m.nAt a := by
  have ha := dim2index_ndim hm hd
  have hmm : min x y ≤ max x y := le_trans (min_le_left x y) (le_max_left x y)
  refine ⟨?_, indexAx_mono m a _ _ (inv_cell_pos hm ha) hmm, indexAx_lt m a _ (inv_n_pos hm ha)⟩
  unfold selConvert
  rw [hd]
  simp only
  rw [selOne_eq m hm a ha _ h1 (le_trans hmm h2), selOne_eq m hm a ha _ (le_trans h1 hmm) h2]

/-- The two bounds of a range may be given in either order. -/
theorem sel_range_comm (f : Fld) (dim : String) (x y : Rat) :
    selConvert f.mesh dim (.range x y) = selConvert f.mesh dim (.range y x) ∧
    selMesh f.mesh dim (.range x y) = selMesh f.mesh dim (.range y x) ∧
    selFld f dim (.range x y) = selFld f dim (.range y x) := by
  have h : selConvert f.mesh dim (.range x y) = selConvert f.mesh dim (.range y x) := by
    unfold selConvert
    cases f.mesh.region.dim2index dim with
    | error e => rfl
    | ok a => simp only; rw [min_comm x y, max_comm x y]
  have h2 : selMesh f.mesh dim (.range x y) = selMesh f.mesh dim (.range y x) := by
    unfold selMesh; rw [h]
  exact ⟨h, h2, by unfold selFld; rw [h, h2]⟩

/-- Requests outside the region are rejected: a coordinate below `pmin` or above `pmax`, a
range with a bound outside, an unknown axis name, a malformed value — by `_sel_convert_input`,
`Mesh.sel` and `Field.sel` alike. -/
theorem sel_outside_rejected (f : Fld) (dim : String) (arg : SelArg)
    (hout : (∀ a, f.mesh.region.dim2index dim ≠ .ok a) ∨ arg = .bad ∨
      (∃ a x, f.mesh.region.dim2index dim = .ok a ∧ arg = .point x ∧
        (x < f.mesh.region.lo a ∨ f.mesh.region.hi a < x)) ∨
      (∃ a x y, f.mesh.region.dim2index dim = .ok a ∧ arg = .range x y ∧
        (min x y < f.mesh.region.lo a ∨ f.mesh.region.hi a < max x y))) :
    (∃ e, selConvert f.mesh dim arg = .error e) ∧ (∃ e, selMesh f.mesh dim arg = .error e) ∧
    (∃ e, selFld f dim arg = .error e) := by
  have key : ∃ e, selConvert f.mesh dim arg = .error e := by
    unfold selConvert
    rcases hout with h | h | ⟨a, x, hd, harg, hx⟩ | ⟨a, x, y, hd, harg, hxy⟩
    · cases hdi : f.mesh.region.dim2index dim with
      | error e => exact ⟨e, rfl⟩
      | ok a => exact absurd hdi (h a)
    · subst h
      cases f.mesh.region.dim2index dim with
      | error e => exact ⟨e, rfl⟩
      | ok a => exact ⟨_, rfl⟩
    · subst harg
      rw [hd]
      simp only
      rw [selOne_err _ a x hx]
      exact ⟨_, rfl⟩
    · subst harg
      rw [hd]
      simp only
      rcases hxy with h | h
      · rw [selOne_err _ a _ (Or.inl h)]
        exact ⟨_, rfl⟩
      · cases h1 : selOne f.mesh a (min x y) with
        | error e => exact ⟨e, rfl⟩
        | ok ck =>
          simp only
          rw [selOne_err _ a _ (Or.inr h)]
          exact ⟨_, rfl⟩
  obtain ⟨e, he⟩ := key
  refine ⟨⟨e, he⟩, ⟨e, by unfold selMesh; rw [he]⟩, ⟨e, by unfold selFld; rw [he]⟩⟩

/-! ## Plane selection -/

/-- `Mesh.sel` with a coordinate (or none): the result has exactly axis `a` removed — its
name and unit are gone, every other axis keeps corners, cell count and cell size — and it is
again a well-formed mesh.  (Cell-aligned: kept axes are identical to the source's.) -/
theorem sel_plane_shape (m : Mesh) (hm : m.Inv) (dim : String) (arg : SelArg) (a : Nat) (c : Rat) (k : Nat)
    (hconv : selConvert m dim arg = .ok (a, .plane c k)) (g : Mesh) (h : selMesh m dim arg = .ok g) :
    g.ndim = m.ndim - 1 ∧ 2 ≤ m.ndim ∧
    g.region.dims = removeAt m.region.dims a ∧ g.region.units = removeAt m.region.units a ∧
    g.region.tol = m.region.tol ∧
    (∀ b, b < g.ndim →
      g.region.lo b = m.region.lo (skip a b) ∧ g.region.hi b = m.region.hi (skip a b) ∧
      g.nAt b = m.nAt (skip a b) ∧ g.cellAt b = m.cellAt (skip a b)) ∧
    g.Inv := by
  have ha : a < m.ndim := by
    unfold selConvert at hconv
    split at hconv
    · cases hconv
    · rename_i a' hd
      have := dim2index_ndim hm hd
      cases arg <;> simp only at hconv
      · split at hconv
        · cases hconv
        · injection hconv with hc; injection hc with hc _; omega
      · split at hconv
        · cases hconv
        · injection hconv with hc; injection hc with hc _; omega
      · split at hconv
        · cases hconv
        · split at hconv
          · cases hconv
          · injection hconv with hc; injection hc with _ hc; cases hc
      · cases hconv
  have hp := selMesh_plane_inv m hm dim arg a c k hconv g h
  obtain ⟨e1, e2, e3, e4, e5, e6, e7, e8, e9⟩ := selPlaneMesh_inv m hm a ha c g hp
  have hax : ∀ b, b < g.ndim →
      g.region.lo b = m.region.lo (skip a b) ∧ g.region.hi b = m.region.hi (skip a b) ∧
      g.nAt b = m.nAt (skip a b) ∧ g.cellAt b = m.cellAt (skip a b) := by
    intro b hb
    obtain ⟨h1, h2, h3⟩ := e9 b (by omega)
    refine ⟨h1, h2, h3, ?_⟩
    unfold cellAt Region.edge; rw [h1, h2, h3]
  refine ⟨e1, by omega, e3, e4, e5, hax, ?_⟩
  refine ⟨⟨?_, ?_, ?_, ?_, e7, ?_⟩, ?_, ?_⟩
  · show 0 < g.ndim; omega
  · show g.region.pmax.length = g.ndim; omega
  · rw [e3, length_removeAt _ _ (by rw [inv_dims_length hm]; exact ha), inv_dims_length hm]
    show m.ndim - 1 = g.ndim; omega
  · rw [e4, length_removeAt _ _ (by rw [inv_units_length hm]; exact ha), inv_units_length hm]
    show m.ndim - 1 = g.ndim; omega
  · intro b hb
    have hb' : b < g.ndim := hb
    obtain ⟨h1, h2, _, _⟩ := hax b hb'
    rw [h1, h2]
    exact inv_lo_lt_hi hm (skip_lt a b m.ndim ha (by omega))
  · show g.n.length = g.ndim; omega
  · intro b hb
    rw [(hax b hb).2.2.1]
    exact inv_n_pos hm (skip_lt a b m.ndim ha (by omega))

/-- `Field.sel` with a coordinate `x`: for every cell `j` of the result, the point with the
result cell's centre on the kept axes and `x` on the removed axis lies in the source region,
in the source cell `insertAt j a k` (`k` = index of the layer containing `x`), and the result
holds exactly that cell's value and validity. -/
theorem sel_plane_pointwise (f : Fld) (hf : f.mesh.Inv) (dim : String) (x : Rat) (g : Fld)
    (h : selFld f dim (.point x) = .ok (.field g)) :
    ∃ a, f.mesh.region.dim2index dim = .ok a ∧
      f.mesh.region.lo a ≤ x ∧ x ≤ f.mesh.region.hi a ∧
      ∀ j, inRange g.mesh.n j = true →
        f.mesh.point2index (insertAt (g.mesh.centre j) a x)
          = .ok (insertAt j a (f.mesh.indexAx a x)) ∧
        g.data.get j = f.data.get (insertAt j a (f.mesh.indexAx a x)) ∧
        g.valid.get j = f.valid.get (insertAt j a (f.mesh.indexAx a x)) := by
  unfold selFld at h
  split at h
  · cases h
  · rename_i ai hconv
    obtain ⟨a, s⟩ := ai
    obtain ⟨hd, hx1, hx2, hs⟩ := selConvert_point_inv f.mesh hf dim x a s hconv
    subst hs
    have ha := dim2index_ndim hf hd
    split at h
    · simp only at h
      split at h
      · cases h
      · cases h
    · rename_i m' hm'
      simp only at h
      split at h
      · cases h
      · rename_i g' hg'
        injection h with h
        injection h with h
        subst h
        obtain ⟨q1, q2, q3, _⟩ := mkFld_inv _ _ _ _ _ hg'
        have hp := selMesh_plane_inv f.mesh hf dim _ a _ _ hconv m' hm'
        obtain ⟨e1, e2, _, _, _, _, _, _, e9⟩ := selPlaneMesh_inv f.mesh hf a ha _ m' hp
        refine ⟨a, hd, hx1, hx2, ?_⟩
        intro j hj
        rw [q1] at hj ⊢
        refine ⟨plane_point2index f.mesh m' hf a ha x hx1 hx2 e1 e2 e9 j hj, ?_, ?_⟩
        · rw [q2]; rfl
        · rw [q3]; rfl

/-- The same for the central plane (no coordinate given): the inserted coordinate is the
region's centre along the removed axis. -/
theorem sel_centre_pointwise (f : Fld) (hf : f.mesh.Inv) (dim : String) (g : Fld)
    (h : selFld f dim .centre = .ok (.field g)) :
    ∃ a, f.mesh.region.dim2index dim = .ok a ∧
      ∀ j, inRange g.mesh.n j = true →
        f.mesh.point2index (insertAt (g.mesh.centre j) a ((f.mesh.region.lo a + f.mesh.region.hi a) / 2))
          = .ok (insertAt j a (f.mesh.indexAx a ((f.mesh.region.lo a + f.mesh.region.hi a) / 2))) ∧
        g.data.get j = f.data.get (insertAt j a (f.mesh.indexAx a ((f.mesh.region.lo a + f.mesh.region.hi a) / 2))) ∧
        g.valid.get j = f.valid.get (insertAt j a (f.mesh.indexAx a ((f.mesh.region.lo a + f.mesh.region.hi a) / 2))) := by
  unfold selFld at h
  split at h
  · cases h
  · rename_i ai hconv
    obtain ⟨a, s⟩ := ai
    obtain ⟨hd, hs⟩ := selConvert_centre_inv f.mesh hf dim a s hconv
    subst hs
    have ha := dim2index_ndim hf hd
    have hlt := inv_lo_lt_hi hf ha
    split at h
    · simp only at h
      split at h
      · cases h
      · cases h
    · rename_i m' hm'
      simp only at h
      split at h
      · cases h
      · rename_i g' hg'
        injection h with h
        injection h with h
        subst h
        obtain ⟨q1, q2, q3, _⟩ := mkFld_inv _ _ _ _ _ hg'
        have hp := selMesh_plane_inv f.mesh hf dim _ a _ _ hconv m' hm'
        obtain ⟨e1, e2, _, _, _, _, _, _, e9⟩ := selPlaneMesh_inv f.mesh hf a ha _ m' hp
        refine ⟨a, hd, ?_⟩
        intro j hj
        rw [q1] at hj ⊢
        refine ⟨plane_point2index f.mesh m' hf a ha _ (by linarith) (by linarith) e1 e2 e9 j hj, ?_, ?_⟩
        · rw [q2]; rfl
        · rw [q3]; rfl

/-! ## Range selection -/

/-- `Mesh.sel` with a range: along the chosen axis exactly the cells from the one containing
the lower bound (`k₁`) to the one containing the upper bound (`k₂`) are kept — the new corners
are faces of the source mesh, `n = k₂ - k₁ + 1`, the cell size is unchanged; every other axis,
names, units and tolerance are kept; the result is a well-formed mesh. -/
theorem sel_range_shape (m : Mesh) (hm : m.Inv) (dim : String) (x y : Rat) (g : Mesh)
    (h : selMesh m dim (.range x y) = .ok g) :
    ∃ a, m.region.dim2index dim = .ok a ∧ m.region.lo a ≤ min x y ∧ max x y ≤ m.region.hi a ∧
      g.ndim = m.ndim ∧ g.region.dims = m.region.dims ∧ g.region.units = m.region.units ∧
      g.region.tol = m.region.tol ∧
      g.region.lo a = m.region.lo a + (m.indexAx a (min x y) : Rat) * m.cellAt a ∧
      g.region.hi a = m.region.lo a + ((m.indexAx a (max x y) : Rat) + 1) * m.cellAt a ∧
      g.nAt a = m.indexAx a (max x y) - m.indexAx a (min x y) + 1 ∧ g.cellAt a = m.cellAt a ∧
      (∀ b, b < m.ndim → b ≠ a →
        g.region.lo b = m.region.lo b ∧ g.region.hi b = m.region.hi b ∧ g.nAt b = m.nAt b ∧
        g.cellAt b = m.cellAt b) ∧
      g.Inv := by
  unfold selMesh at h
  split at h
  · cases h
  · rename_i ai hconv
    obtain ⟨a, s⟩ := ai
    obtain ⟨hd, h1, h2, hs⟩ := selConvert_range_inv m hm dim x y a s hconv
    subst hs
    have ha := dim2index_ndim hm hd
    have hmm : min x y ≤ max x y := le_trans (min_le_left x y) (le_max_left x y)
    have hk := indexAx_mono m a _ _ (inv_cell_pos hm ha) hmm
    have hk2 := indexAx_lt m a (max x y) (inv_n_pos hm ha)
    obtain ⟨e1, e2, e3, e4, e5, e6, e7, e8⟩ := selRangeMesh_inv m hm a ha _ _ hk hk2 g h
    have hhi := block_hi e7 (by omega)
    have hcast : ((m.indexAx a (max x y) - m.indexAx a (min x y) + 1 : Nat) : Rat)
        = (m.indexAx a (max x y) : Rat) - (m.indexAx a (min x y) : Rat) + 1 := by
      push_cast [Nat.cast_sub hk]; ring
    refine ⟨a, hd, h1, h2, e1, e3, e4, e5, e7.lo, by rw [hhi, hcast]; ring, e7.n, e7.cell, ?_, ?_⟩
    · intro b hb hba
      have blk := e8 b hb hba
      have hh := block_hi blk (inv_n_pos hm hb)
      refine ⟨by rw [blk.lo]; simp, ?_, blk.n, blk.cell⟩
      rw [hh, hi_eq m b (inv_n_pos hm hb)]; simp
    · have hpos : ∀ b, b < g.ndim → 0 < g.nAt b ∧ g.region.lo b < g.region.hi b := by
        intro b hb
        by_cases hba : b = a
        · subst hba
          have hc := inv_cell_pos hm ha
          refine ⟨by rw [e7.n]; omega, ?_⟩
          rw [hhi, e7.lo, hcast]
          have : (m.indexAx b (min x y) : Rat) ≤ (m.indexAx b (max x y) : Rat) := by exact_mod_cast hk
          nlinarith
        · have blk := e8 b (by omega) hba
          have hh := block_hi blk (inv_n_pos hm (by omega))
          have hc := inv_cell_pos hm (show b < m.ndim by omega)
          refine ⟨by rw [blk.n]; exact inv_n_pos hm (by omega), ?_⟩
          rw [hh, blk.lo]
          have : (0 : Rat) < (m.nAt b : Rat) := by exact_mod_cast inv_n_pos hm (show b < m.ndim by omega)
          nlinarith
      refine ⟨⟨?_, ?_, ?_, ?_, ?_, fun b hb => (hpos b hb).2⟩, ?_, fun b hb => (hpos b hb).1⟩
      · show 0 < g.ndim; rw [e1]; exact inv_ndim_pos hm
      · show g.region.pmax.length = g.ndim; omega
      · rw [e3, inv_dims_length hm]; exact e1.symm
      · rw [e4, inv_units_length hm]; exact e1.symm
      · rw [e3]; exact hm.1.2.2.2.2.1
      · show g.n.length = g.ndim; omega

/-- The overlap test of `Mesh.sel` for subregions (half a cell of margin on both sides): for a
subregion made of whole cells `s₁ … s₂-1` and a selection keeping cells `k₁ … k₂`, the subregion
is dropped exactly when the two share no whole cell. -/
theorem range_sub_dropped_iff (L c : Rat) (hc : 0 < c) (k1 k2 s1 s2 : Nat) :
    ((L + ((k2 : Rat) + 1) * c) - c / 2 ≤ L + (s1 : Rat) * c ∨ (L + (s2 : Rat) * c) - c / 2 ≤ L + (k1 : Rat) * c)
      ↔ (k2 + 1 ≤ s1 ∨ s2 ≤ k1) := by
  constructor
  · rintro (h | h)
    · left
      have : (k2 : Rat) < (s1 : Rat) := by
        by_contra hcon; rw [not_lt] at hcon
        have := mul_le_mul_of_nonneg_right hcon hc.le; nlinarith
      have : k2 < s1 := by exact_mod_cast this
      omega
    · right
      have : (s2 : Rat) < (k1 : Rat) + 1 := by
        by_contra hcon; rw [not_lt] at hcon
        have := mul_le_mul_of_nonneg_right hcon hc.le; nlinarith
      have : s2 < k1 + 1 := by exact_mod_cast this
      omega
  · rintro (h | h)
    · left
      have : (k2 : Rat) + 1 ≤ (s1 : Rat) := by exact_mod_cast h
      nlinarith
    · right
      have : (s2 : Rat) ≤ (k1 : Rat) := by exact_mod_cast h
      nlinarith

/-- `Field.sel` with a range: the centre of every result cell `j` lies in the source region, in
the source cell obtained by shifting `j` by `k₁` along the chosen axis, and the result holds
exactly that cell's value and validity. -/
theorem sel_range_pointwise (f : Fld) (hf : f.mesh.Inv) (dim : String) (x y : Rat) (g : Fld)
    (h : selFld f dim (.range x y) = .ok (.field g)) :
    ∃ a, f.mesh.region.dim2index dim = .ok a ∧
      ∀ j, inRange g.mesh.n j = true →
        f.mesh.point2index (g.mesh.centre j)
          = .ok (setAt j a (j.getD a 0 + f.mesh.indexAx a (min x y))) ∧
        g.data.get j = f.data.get (setAt j a (j.getD a 0 + f.mesh.indexAx a (min x y))) ∧
        g.valid.get j = f.valid.get (setAt j a (j.getD a 0 + f.mesh.indexAx a (min x y))) := by
  unfold selFld at h
  split at h
  · cases h
  · rename_i ai hconv
    obtain ⟨a, s⟩ := ai
    obtain ⟨hd, h1, h2, hs⟩ := selConvert_range_inv f.mesh hf dim x y a s hconv
    subst hs
    have ha := dim2index_ndim hf hd
    split at h
    · simp only at h
      cases h
    · rename_i m' hm'
      simp only at h
      split at h
      · cases h
      · rename_i g' hg'
        injection h with h
        injection h with h
        subst h
        obtain ⟨q1, q2, q3, _⟩ := mkFld_inv _ _ _ _ _ hg'
        have hmm : min x y ≤ max x y := le_trans (min_le_left x y) (le_max_left x y)
        have hk := indexAx_mono f.mesh a _ _ (inv_cell_pos hf ha) hmm
        have hk2 := indexAx_lt f.mesh a (max x y) (inv_n_pos hf ha)
        have hr := selMesh_range_inv f.mesh dim _ a _ _ _ _ hconv m' hm'
        obtain ⟨e1, e2, _, _, _, _, e7, e8⟩ := selRangeMesh_inv f.mesh hf a ha _ _ hk hk2 m' hr
        refine ⟨a, hd, ?_⟩
        intro j hj
        rw [q1] at hj ⊢
        have hjl : j.length = f.mesh.ndim := by rw [inRange_length _ _ hj, e2]
        have hp := block_point2index f.mesh m' hf e1 e2
          (fun b => if b = a then f.mesh.indexAx a (min x y) else 0)
          (fun b => if b = a then f.mesh.indexAx a (max x y) - f.mesh.indexAx a (min x y) + 1 else f.mesh.nAt b)
          (by
            intro b hb
            by_cases hba : b = a
            · subst hba; simpa using e7
            · simpa [hba] using e8 b hb hba) j hj
        have hidx : (tab f.mesh.ndim fun b => (if b = a then f.mesh.indexAx a (min x y) else 0) + j.getD b 0)
            = setAt j a (j.getD a 0 + f.mesh.indexAx a (min x y)) := by
          symm
          apply eq_tab_of_getD _ _ _ 0 (by rw [length_setAt, hjl])
          intro b hb
          by_cases hba : b = a
          · subst hba
            rw [getD_setAt_eq _ _ _ _ (by omega)]; simp; omega
          · rw [getD_setAt_ne _ _ _ _ _ hba]; simp [hba]
        rw [hidx] at hp
        refine ⟨hp, ?_, ?_⟩
        · rw [q2]; rfl
        · rw [q3]; rfl

/-! ## Extraction by region / by name, `region2slices` -/

/-- `mesh[region]` returns the smallest block of whole source cells containing the box: on
every axis the block is cells `i₁ … i₂` of the source (corners on source faces, same cell
size, `n = i₂ - i₁ + 1`), it contains `[item.lo, item.hi]`, and dropping its first or its last
layer of cells would uncover part of the box. -/
theorem getRegion_smallest (m : Mesh) (hm : m.Inv) (item : Region) (hbox : BoxIn m item) (g : Mesh)
    (h : getRegion m item = .ok g) :
    g.ndim = m.ndim ∧ g.region.dims = m.region.dims ∧ g.region.units = m.region.units ∧
    ∀ a, a < m.ndim →
      ∃ i1 i2 : Nat, i1 ≤ i2 ∧ i2 < m.nAt a ∧
        g.region.lo a = m.region.lo a + (i1 : Rat) * m.cellAt a ∧
        g.region.hi a = m.region.lo a + ((i2 : Rat) + 1) * m.cellAt a ∧
        g.nAt a = i2 - i1 + 1 ∧ g.cellAt a = m.cellAt a ∧
        g.region.lo a ≤ item.lo a ∧ item.hi a ≤ g.region.hi a ∧
        item.lo a < g.region.lo a + m.cellAt a ∧ g.region.hi a - m.cellAt a < item.hi a := by
  obtain ⟨e1, _, e3, e4, _, _, _, _, e9⟩ := getRegion_inv m hm item hbox g h
  refine ⟨e1, e3, e4, ?_⟩
  intro a ha
  obtain ⟨hle, hlt, hU, blk⟩ := e9 a ha
  obtain ⟨b1, b2, b3⟩ := hbox.2 a ha
  have hc := inv_cell_pos hm ha
  have hn := inv_n_pos hm ha
  have hhi := block_hi blk (by omega)
  have hcast : ((blockHi m item a - blockLo m item a + 1 : Nat) : Rat)
      = (blockHi m item a : Rat) - (blockLo m item a : Rat) + 1 := by
    push_cast [Nat.cast_sub hle]; ring
  have hcont := index_contains m a (item.lo a) hn (inv_lo_lt_hi hm ha) b1 (by linarith)
  have hub := upperIdx_bounds m a (item.hi a) hc
  have hUr : (upperIdx m a (item.hi a) : Rat) = (blockHi m item a : Rat) := by
    rw [hU]; push_cast; rfl
  rw [hUr] at hub
  have hhi' : g.region.hi a = m.region.lo a + ((blockHi m item a : Rat) + 1) * m.cellAt a := by
    rw [hhi, hcast]; ring
  refine ⟨blockLo m item a, blockHi m item a, hle, hlt, blk.lo, hhi', blk.n, blk.cell, ?_, ?_, ?_, ?_⟩
  · rw [blk.lo]; exact hcont.1
  · rw [hhi']; exact hub.2
  · rw [blk.lo]
    rcases hcont.2 with h2 | ⟨_, h2⟩
    · unfold blockLo; linarith
    · linarith
  · rw [hhi']; linarith [hub.1]

/-- For a vertex-aligned box the block is exactly the box. -/
theorem getRegion_aligned_exact (m : Mesh) (hm : m.Inv) (item : Region) (k1 k2 : Nat → Nat)
    (hal : SubAligned m item k1 k2) (g : Mesh) (h : getRegion m item = .ok g) :
    ∀ a, a < m.ndim → g.region.lo a = item.lo a ∧ g.region.hi a = item.hi a ∧ g.nAt a = k2 a - k1 a := by
  have hbox : BoxIn m item := by
    refine ⟨hal.1, ?_⟩
    intro a ha
    obtain ⟨t1, t2, t3, t4⟩ := hal.2.2 a ha
    have hc := inv_cell_pos hm ha
    have h12 : (k1 a : Rat) < (k2 a : Rat) := by exact_mod_cast t1
    have h2n : (k2 a : Rat) ≤ (m.nAt a : Rat) := by exact_mod_cast t2
    have h0 : (0 : Rat) ≤ (k1 a : Rat) := by exact_mod_cast Nat.zero_le _
    rw [t3, t4, hi_eq m a (inv_n_pos hm ha)]
    refine ⟨by nlinarith, by nlinarith, by nlinarith⟩
  obtain ⟨_, _, _, hax⟩ := getRegion_smallest m hm item hbox g h
  intro a ha
  obtain ⟨i1, i2, hle, hlt, q1, q2, q3, q4, q5, q6, q7, q8⟩ := hax a ha
  obtain ⟨t1, t2, t3, t4⟩ := hal.2.2 a ha
  have hc := inv_cell_pos hm ha
  rw [q1, t3] at q5 q7
  rw [q2, t4] at q6 q8
  have a1 : (i1 : Rat) ≤ (k1 a : Rat) := by
    by_contra hcon; rw [not_le] at hcon
    have := mul_lt_mul_of_pos_right hcon hc; linarith
  have a2 : (k1 a : Rat) < (i1 : Rat) + 1 := by
    by_contra hcon; rw [not_lt] at hcon
    have := mul_le_mul_of_nonneg_right hcon hc.le; linarith
  have a3 : (k2 a : Rat) ≤ (i2 : Rat) + 1 := by
    by_contra hcon; rw [not_le] at hcon
    have := mul_lt_mul_of_pos_right hcon hc; linarith
  have a4 : (i2 : Rat) < (k2 a : Rat) := by
    by_contra hcon; rw [not_lt] at hcon
    have := mul_le_mul_of_nonneg_right hcon hc.le; linarith
  have n1 : i1 ≤ k1 a := by exact_mod_cast a1
  have n2 : k1 a < i1 + 1 := by exact_mod_cast a2
  have n3 : k2 a ≤ i2 + 1 := by exact_mod_cast a3
  have n4 : i2 < k2 a := by exact_mod_cast a4
  have e1 : i1 = k1 a := by omega
  have e2 : i2 + 1 = k2 a := by omega
  refine ⟨by rw [q1, t3, e1], ?_, by rw [q3]; omega⟩
  rw [q2, t4, ← e2]; push_cast; ring

/-- `field[region]`: the centre of every result cell lies in the source region, in the source
cell `i₁ + j`, and the result holds exactly that cell's value and validity. -/
theorem getitem_region_pointwise (f : Fld) (hf : FldWF f) (item : Region) (hbox : BoxIn f.mesh item)
    (g : Fld) (h : getItem f (.region item) = .ok g) :
    getRegion f.mesh item = .ok g.mesh ∧
    ∀ j, inRange g.mesh.n j = true →
      f.mesh.point2index (g.mesh.centre j)
        = .ok (tab f.mesh.ndim fun b => blockLo f.mesh item b + j.getD b 0) ∧
      g.data.get j = f.data.get (tab f.mesh.ndim fun b => blockLo f.mesh item b + j.getD b 0) ∧
      g.valid.get j = f.valid.get (tab f.mesh.ndim fun b => blockLo f.mesh item b + j.getD b 0) := by
  have hsm : ∃ sm, getMesh f.mesh (.region item) = .ok sm := by
    unfold getItem at h
    cases hh : getMesh f.mesh (.region item) with
    | error e => rw [hh] at h; cases h
    | ok sm => exact ⟨sm, rfl⟩
  obtain ⟨sm, hsm⟩ := hsm
  have hsm' : getRegion f.mesh item = .ok sm := hsm
  obtain ⟨e1, e2, _, _, _, _, _, _, e9⟩ := getRegion_inv f.mesh hf.1 item hbox sm hsm'
  obtain ⟨r1, r2⟩ := getItem_block f hf (.region item) sm hsm e1 e2
    (blockLo f.mesh item) (fun b => blockHi f.mesh item b - blockLo f.mesh item b + 1)
    (fun b _ => by omega) (fun b hb => (e9 b hb).2.2.2) g h
  exact ⟨by rw [r1]; exact hsm', r2⟩

/-- `field[name]` for a subregion made of whole cells `k₁ … k₂-1`: the result mesh is the
subregion itself, and every result cell `j` holds value and validity of source cell `k₁ + j`,
the cell containing the result cell's centre. -/
theorem getitem_name_pointwise (f : Fld) (hf : FldWF f) (name : String) (s : Region)
    (hfind : findSub f.mesh.subs name = some s) (k1 k2 : Nat → Nat) (hal : SubAligned f.mesh s k1 k2)
    (g : Fld) (h : getItem f (.name name) = .ok g) :
    g.mesh.region = s ∧
    ∀ j, inRange g.mesh.n j = true →
      f.mesh.point2index (g.mesh.centre j) = .ok (tab f.mesh.ndim fun b => k1 b + j.getD b 0) ∧
      g.data.get j = f.data.get (tab f.mesh.ndim fun b => k1 b + j.getD b 0) ∧
      g.valid.get j = f.valid.get (tab f.mesh.ndim fun b => k1 b + j.getD b 0) := by
  have hsm : ∃ sm, getMesh f.mesh (.name name) = .ok sm := by
    unfold getItem at h
    cases hh : getMesh f.mesh (.name name) with
    | error e => rw [hh] at h; cases h
    | ok sm => exact ⟨sm, rfl⟩
  obtain ⟨sm, hsm⟩ := hsm
  have hsm' : getName f.mesh name = .ok sm := hsm
  obtain ⟨e0, e1, e2, e3⟩ := getName_inv f.mesh hf.1 name s hfind k1 k2 hal sm hsm'
  obtain ⟨r1, r2⟩ := getItem_block f hf (.name name) sm hsm e1 e2 k1 (fun b => k2 b - k1 b)
    (fun b hb => by have := (hal.2.2 b hb).1; omega) e3 g h
  exact ⟨by rw [r1]; exact e0, r2⟩

/-- A missing subregion name and a box that is not inside the region (beyond the region's
tolerance) are rejected. -/
theorem getitem_outside_rejected (f : Fld) (item : Item)
    (hout : (∃ n, item = .name n ∧ findSub f.mesh.subs n = none) ∨
      (∃ r, item = .region r ∧ f.mesh.region.containsReg r = false)) :
    (∃ e, getMesh f.mesh item = .error e) ∧ (∃ e, getItem f item = .error e) := by
  have key : ∃ e, getMesh f.mesh item = .error e := by
    rcases hout with ⟨n, hi, hn⟩ | ⟨r, hi, hr⟩
    · subst hi; exact ⟨.key, by show getName f.mesh n = _; unfold getName; rw [hn]⟩
    · subst hi; exact ⟨.value, by show getRegion f.mesh r = _; unfold getRegion; rw [hr]; rfl⟩
  obtain ⟨e, he⟩ := key
  exact ⟨⟨e, he⟩, ⟨e, by unfold getItem; rw [he]⟩⟩

/-- `region2slices` of a sub-box made of whole cells `k₁ … k₂-1`: the slices are `k₁ : k₂`, and
these are exactly the cells whose centre lies in the box. -/
theorem region2slices_spec (m : Mesh) (hm : m.Inv) (r : Region) (k1 k2 : Nat → Nat)
    (hal : SubAligned m r k1 k2) :
    region2slices m r = .ok (tab m.ndim fun a => (k1 a, k2 a)) ∧
    ∀ a, a < m.ndim → ∀ i : Nat,
      (k1 a ≤ i ∧ i < k2 a) ↔ (r.lo a ≤ m.centreAx a (i : Int) ∧ m.centreAx a (i : Int) ≤ r.hi a) := by
  obtain ⟨s1, s2, s3⟩ := hal
  constructor
  · unfold region2slices
    rw [if_neg (by simp [s1])]
    have hfacts : ∀ a, a < m.ndim →
        m.indexAx a (r.lo a + m.cellAt a / 2) = k1 a ∧
        m.indexAx a (r.hi a - m.cellAt a / 2) + 1 = k2 a ∧
        m.region.lo a ≤ r.lo a + m.cellAt a / 2 ∧ r.lo a + m.cellAt a / 2 ≤ m.region.hi a ∧
        m.region.lo a ≤ r.hi a - m.cellAt a / 2 ∧ r.hi a - m.cellAt a / 2 ≤ m.region.hi a := by
      intro a ha
      obtain ⟨t1, t2, t3, t4⟩ := s3 a ha
      have hc := inv_cell_pos hm ha
      have h12 : (k1 a : Rat) + 1 ≤ (k2 a : Rat) := by exact_mod_cast t1
      have h2n : (k2 a : Rat) ≤ (m.nAt a : Rat) := by exact_mod_cast t2
      have h0 : (0 : Rat) ≤ (k1 a : Rat) := by exact_mod_cast Nat.zero_le _
      have hk2 : ((k2 a - 1 : Nat) : Rat) = (k2 a : Rat) - 1 := by
        push_cast [Nat.cast_sub (by omega : 1 ≤ k2 a)]; ring
      refine ⟨?_, ?_, ?_, ?_, ?_, ?_⟩
      · apply indexAx_eq_of_bounds m a _ (k1 a) (by omega) hc <;> rw [t3] <;> nlinarith
      · have : m.indexAx a (r.hi a - m.cellAt a / 2) = k2 a - 1 := by
          apply indexAx_eq_of_bounds m a _ (k2 a - 1) (by omega) hc <;> rw [t4, hk2] <;> nlinarith
        rw [this]; omega
      · rw [t3]; nlinarith
      · rw [t3, hi_eq m a (inv_n_pos hm ha)]; nlinarith
      · rw [t4]; nlinarith
      · rw [t4, hi_eq m a (inv_n_pos hm ha)]; nlinarith
    rw [point2index_eq m _ (by simp) (by
      intro a ha
      rw [getD_tab _ _ _ _ ha]
      exact ⟨(hfacts a ha).2.2.1, (hfacts a ha).2.2.2.1⟩)]
    simp only
    rw [point2index_eq m _ (by simp) (by
      intro a ha
      rw [getD_tab _ _ _ _ ha]
      exact ⟨(hfacts a ha).2.2.2.2.1, (hfacts a ha).2.2.2.2.2⟩)]
    simp only
    congr 1
    apply tab_congr
    intro a ha
    rw [getD_tab _ _ _ _ ha, getD_tab _ _ _ _ ha, getD_tab _ _ _ _ ha, getD_tab _ _ _ _ ha,
      (hfacts a ha).1, (hfacts a ha).2.1]
  · intro a ha i
    obtain ⟨t1, t2, t3, t4⟩ := s3 a ha
    have hc := inv_cell_pos hm ha
    rw [centreAx_cast, t3, t4]
    constructor
    · rintro ⟨h1, h2⟩
      have h1' : (k1 a : Rat) ≤ (i : Rat) := by exact_mod_cast h1
      have h2' : (i : Rat) + 1 ≤ (k2 a : Rat) := by exact_mod_cast h2
      constructor <;> nlinarith
    · rintro ⟨h1, h2⟩
      have a1 : (k1 a : Rat) < (i : Rat) + 1 := by
        by_contra hcon; rw [not_lt] at hcon
        have := mul_le_mul_of_nonneg_right hcon hc.le; nlinarith
      have a2 : (i : Rat) < (k2 a : Rat) := by
        by_contra hcon; rw [not_lt] at hcon
        have := mul_le_mul_of_nonneg_right hcon hc.le; nlinarith
      have n1 : k1 a < i + 1 := by exact_mod_cast a1
      have n2 : i < k2 a := by exact_mod_cast a2
      omega

/-! ## Padding -/

/-- `Mesh.pad` adds exactly the requested number of cells per side: `n' = n + L + H` on every
axis (`L`, `H` the widths requested for that axis, 0 if not named), the corners move by whole
cells, the cell size, names, units and tolerance are kept, the boundary condition is kept. -/
theorem pad_counts (m : Mesh) (hm : m.Inv) (pw : List PadW)
    (hL : ∀ b, b < m.ndim → 0 ≤ sumW m (·.lo) pw b) (hH : ∀ b, b < m.ndim → 0 ≤ sumW m (·.hi) pw b)
    (g : Mesh) (h : padMesh m pw = .ok g) :
    g.ndim = m.ndim ∧ g.region.dims = m.region.dims ∧ g.region.units = m.region.units ∧
    g.region.tol = m.region.tol ∧ g.bc = m.bc.toLower ∧
    ∀ b, b < m.ndim →
      g.nAt b = m.nAt b + (sumW m (·.lo) pw b).toNat + (sumW m (·.hi) pw b).toNat ∧
      g.region.lo b = m.region.lo b - ((sumW m (·.lo) pw b).toNat : Rat) * m.cellAt b ∧
      g.region.hi b = m.region.hi b + ((sumW m (·.hi) pw b).toNat : Rat) * m.cellAt b ∧
      g.cellAt b = m.cellAt b := by
  obtain ⟨e1, _, e3, e4, e5, e6, _, e8⟩ := padMesh_inv m hm pw hL hH g h
  refine ⟨e1, e3, e4, e5, e6, ?_⟩
  intro b hb
  obtain ⟨h1, h2, h3, blk⟩ := e8 b hb
  exact ⟨h1, h2, h3, blk.cell.symm⟩

/-- `Field.pad` pads data and validity by the same widths as the mesh, with the index map of
the chosen mode; cells that hit the constant fill get zeros / `False`. -/
theorem pad_rule (f : Fld) (hf : FldWF f) (pw : List PadW) (hnd : (pw.map (·.dim)).Nodup)
    (mode : PadMode) (g : Fld) (h : padFld f pw mode = .ok g) (j : List Nat) :
    padMesh f.mesh pw = .ok g.mesh ∧
    g.data.get j = (match padSrcIdx mode f.mesh.n
        (fun b => (sumW f.mesh (·.lo) pw b, sumW f.mesh (·.hi) pw b)) j with
      | some i => f.data.get i
      | none => List.replicate f.nvdim 0) ∧
    g.valid.get j = (match padSrcIdx mode f.mesh.n
        (fun b => (sumW f.mesh (·.lo) pw b, sumW f.mesh (·.hi) pw b)) j with
      | some i => f.valid.get i
      | none => false) := by
  obtain ⟨p1, _, p3, p4⟩ := padFld_inv f hf pw hnd mode g h
  refine ⟨p1, ?_, ?_⟩
  · rw [p3]; unfold padNDA; simp only; rw [hf.2.1]; rfl
  · rw [p4]; unfold padNDA; simp only; rw [hf.2.2]; rfl

/-- Cells of the padded field whose centre lies inside the source: the centre of result cell
`j` is the centre of source cell `j - L`, and the result holds that cell's value and validity —
whatever the mode. -/
theorem pad_inside_pointwise (f : Fld) (hf : FldWF f) (pw : List PadW) (hnd : (pw.map (·.dim)).Nodup)
    (mode : PadMode) (g : Fld) (h : padFld f pw mode = .ok g) (j : List Nat)
    (hin : ∀ b, b < f.mesh.ndim →
      (sumW f.mesh (·.lo) pw b).toNat ≤ j.getD b 0 ∧
      j.getD b 0 < (sumW f.mesh (·.lo) pw b).toNat + f.mesh.nAt b) :
    f.mesh.point2index (g.mesh.centre j)
      = .ok (tab f.mesh.ndim fun b => j.getD b 0 - (sumW f.mesh (·.lo) pw b).toNat) ∧
    g.data.get j = f.data.get (tab f.mesh.ndim fun b => j.getD b 0 - (sumW f.mesh (·.lo) pw b).toNat) ∧
    g.valid.get j = f.valid.get (tab f.mesh.ndim fun b => j.getD b 0 - (sumW f.mesh (·.lo) pw b).toNat) := by
  obtain ⟨p1, p2, _, _⟩ := padFld_inv f hf pw hnd mode g h
  obtain ⟨_, r2, r3⟩ := pad_rule f hf pw hnd mode g h j
  obtain ⟨hinv, hds, hvs⟩ := hf
  obtain ⟨e1, _, _, _, _, _, _, e8⟩ := padMesh_inv f.mesh hinv pw (fun b _ => (p2 b).1) (fun b _ => (p2 b).2) g.mesh p1
  have hsrc : padSrcIdx mode f.mesh.n (fun b => (sumW f.mesh (·.lo) pw b, sumW f.mesh (·.hi) pw b)) j
      = some (tab f.mesh.ndim fun b => j.getD b 0 - (sumW f.mesh (·.lo) pw b).toNat) := by
    unfold padSrcIdx
    rw [inv_n_length hinv]
    have hs : ∀ b, b < f.mesh.ndim →
        padSrc mode (f.mesh.n.getD b 0) (sumW f.mesh (·.lo) pw b).toNat (j.getD b 0)
          = some (j.getD b 0 - (sumW f.mesh (·.lo) pw b).toNat) :=
      fun b hb => padSrc_inside mode _ _ _ (hin b hb).1 (hin b hb).2
    have hall : allLt f.mesh.ndim (fun b =>
        (padSrc mode (f.mesh.n.getD b 0) (sumW f.mesh (·.lo) pw b).toNat (j.getD b 0)).isSome) = true := by
      rw [allLt_iff]; intro b hb; rw [hs b hb]; rfl
    simp only
    rw [if_pos hall]
    congr 1
    apply tab_congr
    intro b hb
    rw [hs b hb]; rfl
  rw [hsrc] at r2 r3
  refine ⟨?_, r2, r3⟩
  have hfacts : ∀ b, b < f.mesh.ndim →
      f.mesh.indexAx b ((g.mesh.centre j).getD b 0) = j.getD b 0 - (sumW f.mesh (·.lo) pw b).toNat ∧
      f.mesh.region.lo b ≤ (g.mesh.centre j).getD b 0 ∧ (g.mesh.centre j).getD b 0 ≤ f.mesh.region.hi b := by
    intro b hb
    obtain ⟨_, _, _, blk⟩ := e8 b hb
    have hc := inv_cell_pos hinv hb
    have hlt : j.getD b 0 - (sumW f.mesh (·.lo) pw b).toNat < f.mesh.nAt b := by have := hin b hb; omega
    have hcen := block_centre blk (j.getD b 0 - (sumW f.mesh (·.lo) pw b).toNat)
    have hsum : (sumW f.mesh (·.lo) pw b).toNat + (j.getD b 0 - (sumW f.mesh (·.lo) pw b).toNat) = j.getD b 0 := by
      have := (hin b hb).1; omega
    rw [hsum] at hcen
    rw [centre_getD g.mesh j b (by omega), ← hcen]
    exact ⟨roundtrip f.mesh b _ hlt hc, centre_bounds f.mesh b _ hlt hc⟩
  rw [point2index_eq f.mesh _ (by rw [centre_length, e1]) (fun b hb => (hfacts b hb).2)]
  congr 1
  exact tab_congr _ _ _ (fun b hb => (hfacts b hb).1)

/-- mode `constant`: a position outside the source takes the fill value -/
theorem padSrc_constant (n lo j : Nat) (hout : ¬ (lo ≤ j ∧ j < lo + n)) :
    padSrc .constant n lo j = none := by
  unfold padSrc; rw [if_neg hout]

/-- mode `edge`: a position outside the source takes the nearest source cell -/
theorem padSrc_edge (n lo j : Nat) (hout : ¬ (lo ≤ j ∧ j < lo + n)) :
    padSrc .edge n lo j = some (if j < lo then 0 else n - 1) := by
  unfold padSrc; rw [if_neg hout]
  simp only
  split <;> rfl

/-- mode `wrap` is the periodic continuation: the source cell `i` used at position `j` differs
from `j - lo` by a whole number of periods `n` — in physical terms the two cell centres are a
whole number of edge lengths apart. -/
theorem padSrc_wrap (n lo j : Nat) (hn : 0 < n) :
    ∃ i, padSrc .wrap n lo j = some i ∧ i < n ∧ ∃ k : Int, (j : Int) - (lo : Int) = (i : Int) + k * (n : Int) := by
  have hnz : (n : Int) ≠ 0 := by omega
  have hpos : (0 : Int) < (n : Int) := by omega
  by_cases hin : lo ≤ j ∧ j < lo + n
  · refine ⟨j - lo, padSrc_inside _ _ _ _ hin.1 hin.2, by omega, 0, by omega⟩
  · refine ⟨(((j : Int) - (lo : Int)) % (n : Int)).toNat, ?_, ?_, ((j : Int) - (lo : Int)) / (n : Int), ?_⟩
    · unfold padSrc; rw [if_neg hin]
    · have h1 := Int.emod_lt_of_pos ((j : Int) - (lo : Int)) hpos
      have h0 := Int.emod_nonneg ((j : Int) - (lo : Int)) hnz
      omega
    · have h0 := Int.emod_nonneg ((j : Int) - (lo : Int)) hnz
      rw [Int.toNat_of_nonneg h0]
      have := Int.emod_add_mul_ediv ((j : Int) - (lo : Int)) (n : Int)
      linarith

/-- mode `symmetric` is the mirror continuation about the boundary faces: position `j` shows
source cell `i` where either `j - lo = i` modulo `2n` (even image) or `j - lo = -1 - i` modulo
`2n` (mirror image: the two cell centres are symmetric about a face `lo + K·n`). -/
theorem padSrc_symmetric (n lo j : Nat) (hn : 0 < n) :
    ∃ i, padSrc .symmetric n lo j = some i ∧ i < n ∧
      ∃ k : Int, (j : Int) - (lo : Int) = (i : Int) + k * (2 * (n : Int)) ∨
                 (j : Int) - (lo : Int) = -1 - (i : Int) + k * (2 * (n : Int)) := by
  have hnz : (2 * (n : Int)) ≠ 0 := by omega
  have hpos : (0 : Int) < 2 * (n : Int) := by omega
  by_cases hin : lo ≤ j ∧ j < lo + n
  · refine ⟨j - lo, padSrc_inside _ _ _ _ hin.1 hin.2, by omega, 0, Or.inl (by omega)⟩
  · have h1 := Int.emod_lt_of_pos ((j : Int) - (lo : Int)) hpos
    have h0 := Int.emod_nonneg ((j : Int) - (lo : Int)) hnz
    have hdiv := Int.emod_add_mul_ediv ((j : Int) - (lo : Int)) (2 * (n : Int))
    by_cases hlt : (((j : Int) - (lo : Int)) % (2 * (n : Int))) < (n : Int)
    · refine ⟨(((j : Int) - (lo : Int)) % (2 * (n : Int))).toNat, ?_, by omega,
        ((j : Int) - (lo : Int)) / (2 * (n : Int)), Or.inl ?_⟩
      · unfold padSrc; rw [if_neg hin]; simp only; rw [if_pos hlt]
      · rw [Int.toNat_of_nonneg h0]
        linarith
    · refine ⟨(2 * (n : Int) - 1 - (((j : Int) - (lo : Int)) % (2 * (n : Int)))).toNat, ?_, by omega,
        ((j : Int) - (lo : Int)) / (2 * (n : Int)) + 1, Or.inr ?_⟩
      · unfold padSrc; rw [if_neg hin]; simp only; rw [if_neg hlt]
      · rw [Int.toNat_of_nonneg (by omega)]
        linarith

/-- mode `reflect` is the mirror continuation about the centres of the boundary cells: period
`2n - 2`, `j - lo = ± i` modulo the period (for a single-cell axis numpy repeats the cell). -/
theorem padSrc_reflect (n lo j : Nat) (hn : 2 ≤ n) :
    ∃ i, padSrc .reflect n lo j = some i ∧ i < n ∧
      ∃ k : Int, (j : Int) - (lo : Int) = (i : Int) + k * (2 * (n : Int) - 2) ∨
                 (j : Int) - (lo : Int) = -(i : Int) + k * (2 * (n : Int) - 2) := by
  have hnz : (2 * (n : Int) - 2) ≠ 0 := by omega
  have hpos : (0 : Int) < 2 * (n : Int) - 2 := by omega
  have hn1 : ¬ n = 1 := by omega
  by_cases hin : lo ≤ j ∧ j < lo + n
  · refine ⟨j - lo, padSrc_inside _ _ _ _ hin.1 hin.2, by omega, 0, Or.inl (by omega)⟩
  · have h1 := Int.emod_lt_of_pos ((j : Int) - (lo : Int)) hpos
    have h0 := Int.emod_nonneg ((j : Int) - (lo : Int)) hnz
    have hdiv := Int.emod_add_mul_ediv ((j : Int) - (lo : Int)) (2 * (n : Int) - 2)
    by_cases hlt : (((j : Int) - (lo : Int)) % (2 * (n : Int) - 2)) < (n : Int)
    · refine ⟨(((j : Int) - (lo : Int)) % (2 * (n : Int) - 2)).toNat, ?_, by omega,
        ((j : Int) - (lo : Int)) / (2 * (n : Int) - 2), Or.inl ?_⟩
      · unfold padSrc; rw [if_neg hin]; simp only; rw [if_neg hn1, if_pos hlt]
      · rw [Int.toNat_of_nonneg h0]
        linarith
    · refine ⟨(2 * (n : Int) - 2 - (((j : Int) - (lo : Int)) % (2 * (n : Int) - 2))).toNat, ?_, by omega,
        ((j : Int) - (lo : Int)) / (2 * (n : Int) - 2) + 1, Or.inr ?_⟩
      · unfold padSrc; rw [if_neg hin]; simp only; rw [if_neg hn1, if_neg hlt]
      · rw [Int.toNat_of_nonneg (by omega)]
        linarith

/-- The index statement of `padSrc_wrap` in physical terms: if source cell `i` is shown at
position `j` of an axis padded by `L` cells in front, with `j - L = i + k·n`, then the two cell
centres are exactly `k` edge lengths apart. -/
theorem pad_wrap_physical (f g : Mesh) (b L : Nat) (hn : 0 < f.nAt b)
    (blk : AxisBlock f g b b L (f.nAt b)) (i j : Nat) (k : Int)
    (hk : (j : Int) - (L : Int) = (i : Int) + k * (f.nAt b : Int)) :
    g.centreAx b (j : Int) = f.centreAx b (i : Int) + (k : Rat) * (f.region.hi b - f.region.lo b) := by
  have hj : (j : Rat) = (L : Rat) + (i : Rat) + (k : Rat) * (f.nAt b : Rat) := by
    have : (j : Int) = (L : Int) + (i : Int) + k * (f.nAt b : Int) := by omega
    exact_mod_cast this
  rw [← cover f b hn, centreAx_cast, centreAx_cast, blk.lo, ← blk.cell, hj]; ring

/-! ## Resampling -/

/-- `Field.resample n` keeps the region (corners, names, units, tolerance) and has exactly the
requested cell counts. -/
theorem resample_region (f : Fld) (n : List Int) (g : Fld) (h : resample f n = .ok g) :
    g.mesh.region = f.mesh.region ∧ g.mesh.n = n.map Int.toNat ∧ n.length = f.mesh.ndim ∧
    (∀ k, k ∈ n → 0 < k) := by
  unfold resample at h
  split at h
  · cases h
  · split at h
    · cases h
    · rename_i hlen hpos
      split at h
      · cases h
      · rename_i m' hm'
        split at h
        · cases h
        · obtain ⟨q1, _, _, _⟩ := mkFld_inv _ _ _ _ _ h
          unfold Mesh.mkN? at hm'
          split at hm'
          · cases hm'
          · split at hm'
            · cases hm'
            · split at hm'
              · cases hm'
              · injection hm' with hm'
                subst hm'
                refine ⟨by rw [q1], by rw [q1], by omega, ?_⟩
                intro k hk
                by_contra hcon
                apply hpos
                rw [List.any_eq_true]
                exact ⟨k, hk, by simpa using hcon⟩

/-- Nearest-cell resampling is point sampling: the centre of every result cell lies in the
source region, and the result holds value and validity of the source cell containing that
centre (the lookup of the nearest source centre finds exactly that cell). -/
theorem resample_pointwise (f : Fld) (hf : FldWF f) (n : List Int) (g : Fld) (h : resample f n = .ok g) :
    ∀ j, inRange g.mesh.n j = true →
      f.mesh.point2index (g.mesh.centre j)
        = .ok (tab f.mesh.ndim fun b => f.mesh.indexAx b (g.mesh.centreAx b ((j.getD b 0 : Nat) : Int))) ∧
      g.data.get j = f.data.get
        (tab f.mesh.ndim fun b => f.mesh.indexAx b (g.mesh.centreAx b ((j.getD b 0 : Nat) : Int))) ∧
      g.valid.get j = f.valid.get
        (tab f.mesh.ndim fun b => f.mesh.indexAx b (g.mesh.centreAx b ((j.getD b 0 : Nat) : Int))) := by
  obtain ⟨r1, r2, r3, r4⟩ := resample_region f n g h
  obtain ⟨hinv, hds, hvs⟩ := hf
  -- the target mesh is well formed
  have hgn : g.mesh.ndim = f.mesh.ndim := by unfold Mesh.ndim; rw [r1]
  have hginv : g.mesh.Inv := by
    refine ⟨by rw [r1]; exact hinv.1, by rw [r2, List.length_map, r3]; exact hgn.symm, ?_⟩
    intro b hb
    rw [nAt_def, r2, List.getD_eq_getElem?_getD, List.getElem?_map]
    have hb' : b < n.length := by omega
    rw [List.getElem?_eq_getElem hb']
    simp only [Option.map_some, Option.getD_some]
    have := r4 n[b] (List.getElem_mem hb')
    omega
  unfold resample at h
  rw [if_neg (by omega : ¬ n.length ≠ f.mesh.ndim)] at h
  split at h
  · cases h
  · split at h
    · cases h
    · rename_i m' hm'
      split at h
      · cases h
      · obtain ⟨q1, q2, q3, _⟩ := mkFld_inv _ _ _ _ _ h
        intro j hj
        have hjb : ∀ b, b < f.mesh.ndim → j.getD b 0 < g.mesh.nAt b := fun b hb =>
          inRange_getD _ _ hj b (by rw [inv_n_length hginv]; omega)
        have hcb : ∀ b, b < f.mesh.ndim →
            f.mesh.region.lo b ≤ g.mesh.centreAx b ((j.getD b 0 : Nat) : Int) ∧
            g.mesh.centreAx b ((j.getD b 0 : Nat) : Int) ≤ f.mesh.region.hi b := by
          intro b hb
          have := centre_bounds g.mesh b _ (hjb b hb) (inv_cell_pos hginv (by omega))
          rw [r1] at this
          exact this
        have hnear : (tab f.mesh.ndim fun a => nearestAx f.mesh a (coord g.mesh a (j.getD a 0)))
            = tab f.mesh.ndim fun b => f.mesh.indexAx b (g.mesh.centreAx b ((j.getD b 0 : Nat) : Int)) := by
          apply tab_congr
          intro b hb
          rw [coord_eq g.mesh hginv b (by omega) _ (hjb b hb)]
          exact nearestAx_eq_indexAx f.mesh hinv b hb _ (hcb b hb).1 (hcb b hb).2
        refine ⟨?_, ?_, ?_⟩
        · rw [point2index_eq f.mesh _ (by rw [centre_length, hgn]) (by
            intro b hb
            rw [centre_getD g.mesh j b (by omega)]
            exact hcb b hb)]
          congr 1
          apply tab_congr
          intro b hb
          rw [centre_getD g.mesh j b (by omega)]
        · rw [q2]
          show f.data.get (tab f.mesh.ndim fun a => nearestAx f.mesh a (coord m' a (j.getD a 0))) = _
          rw [← q1, hnear]
        · rw [q3]
          show f.valid.get (tab f.mesh.ndim fun a => nearestAx f.mesh a (coord m' a (j.getD a 0))) = _
          rw [← q1, hnear]

/-- Resampling to the same cell counts returns the same field: same region, same counts, and
every cell keeps its value and validity. -/
theorem resample_id (f : Fld) (hf : FldWF f) (g : Fld)
    (h : resample f (f.mesh.n.map Int.ofNat) = .ok g) :
    g.mesh.region = f.mesh.region ∧ g.mesh.n = f.mesh.n ∧
    ∀ j, inRange f.mesh.n j = true → g.data.get j = f.data.get j ∧ g.valid.get j = f.valid.get j := by
  obtain ⟨r1, r2, _, _⟩ := resample_region f _ g h
  have hn : g.mesh.n = f.mesh.n := by
    rw [r2, List.map_map]
    have : (Int.toNat ∘ Int.ofNat) = id := by funext k; simp
    rw [this, List.map_id]
  refine ⟨r1, hn, ?_⟩
  intro j hj
  have hj' : inRange g.mesh.n j = true := by rw [hn]; exact hj
  obtain ⟨_, p2, p3⟩ := resample_pointwise f hf _ g h j hj'
  have hinv := hf.1
  have hidx : (tab f.mesh.ndim fun b => f.mesh.indexAx b (g.mesh.centreAx b ((j.getD b 0 : Nat) : Int))) = j := by
    symm
    apply eq_tab_of_getD _ _ _ 0 (by rw [inRange_length _ _ hj, inv_n_length hinv])
    intro b hb
    have hjb : j.getD b 0 < f.mesh.nAt b := inRange_getD _ _ hj b (by rw [inv_n_length hinv]; exact hb)
    have hcen : g.mesh.centreAx b ((j.getD b 0 : Nat) : Int) = f.mesh.centreAx b ((j.getD b 0 : Nat) : Int) := by
      unfold centreAx cellAt nAt
      rw [r1, hn]
    rw [hcen, roundtrip f.mesh b _ hjb (inv_cell_pos hinv hb)]
  rw [hidx] at p2 p3
  exact ⟨p2, p3⟩

/-- Malformed target resolutions (wrong number of entries, a zero or negative count) are rejected. -/
theorem resample_rejects (f : Fld) (n : List Int)
    (hbad : n.length ≠ f.mesh.ndim ∨ ∃ k, k ∈ n ∧ k ≤ 0) : ∃ e, resample f n = .error e := by
  unfold resample
  by_cases hl : n.length ≠ f.mesh.ndim
  · exact ⟨_, by rw [if_pos hl]⟩
  · rw [if_neg hl]
    rcases hbad with h | ⟨k, hk, hk0⟩
    · exact absurd h hl
    · have : (n.any fun k => decide (k ≤ 0)) = true := by
        rw [List.any_eq_true]; exact ⟨k, hk, by simpa using hk0⟩
      exact ⟨_, by rw [if_pos this]⟩

/-! ## In-region requests are accepted (exact arithmetic, meshes without subregions) -/

/-- Every coordinate inside the region selects a plane: `Mesh.sel` returns the mesh with the
axis removed and `Field.sel` returns a field on it. -/
theorem sel_plane_accepts (f : Fld) (hf : FldWF f) (hmeta : metaOk f = true) (hs : f.mesh.subs = [])
    (h2 : 2 ≤ f.mesh.ndim) (dim : String) (a : Nat) (hd : f.mesh.region.dim2index dim = .ok a) (x : Rat)
    (h1 : f.mesh.region.lo a ≤ x) (hx2 : x ≤ f.mesh.region.hi a) :
    selMesh f.mesh dim (.point x) = .ok (planeOf f.mesh a) ∧
    ∃ g, selFld f dim (.point x) = .ok (.field g) := by
  obtain ⟨hinv, hds, hvs⟩ := hf
  have ha := dim2index_ndim hinv hd
  have hconv := (selConvert_point f.mesh hinv dim a hd x h1 hx2).1
  have hmesh : selMesh f.mesh dim (.point x) = .ok (planeOf f.mesh a) := by
    unfold selMesh; rw [hconv]; exact selPlaneMesh_ok f.mesh hinv hs a ha h2 _
  refine ⟨hmesh, ?_⟩
  unfold selFld
  rw [hconv, hmesh]
  simp only
  obtain ⟨g, hg⟩ := mkFld_ok (planeOf f.mesh a) f
    (selData f.data a (.plane (f.mesh.centreAx a ((f.mesh.indexAx a x : Nat) : Int)) (f.mesh.indexAx a x)))
    (selData f.valid a (.plane (f.mesh.centreAx a ((f.mesh.indexAx a x : Nat) : Int)) (f.mesh.indexAx a x)))
    (by show removeAt f.data.shape a = removeAt f.mesh.n a; rw [hds])
    (by show removeAt f.valid.shape a = removeAt f.mesh.n a; rw [hvs]) hmeta
  rw [hg]
  exact ⟨_, rfl⟩

/-- Every range inside the region (bounds in either order) is accepted by `Mesh.sel` and
`Field.sel`. -/
theorem sel_range_accepts (f : Fld) (hf : FldWF f) (hmeta : metaOk f = true) (hs : f.mesh.subs = [])
    (dim : String) (a : Nat) (hd : f.mesh.region.dim2index dim = .ok a) (x y : Rat)
    (h1 : f.mesh.region.lo a ≤ min x y) (h2 : max x y ≤ f.mesh.region.hi a) :
    (∃ g, selMesh f.mesh dim (.range x y) = .ok g) ∧ ∃ g, selFld f dim (.range x y) = .ok (.field g) := by
  obtain ⟨hinv, hds, hvs⟩ := hf
  have ha := dim2index_ndim hinv hd
  obtain ⟨hconv, hk, hk2⟩ := selConvert_range f.mesh hinv dim a hd x y h1 h2
  obtain ⟨gm, hgm, hgn⟩ := selRangeMesh_ok f.mesh hinv hs a ha _ _ hk hk2
  have hmesh : selMesh f.mesh dim (.range x y) = .ok gm := by
    unfold selMesh; rw [hconv]; exact hgm
  refine ⟨⟨gm, hmesh⟩, ?_⟩
  unfold selFld
  rw [hconv, hmesh]
  simp only
  have hsh : f.mesh.indexAx a (max x y) + 1 - f.mesh.indexAx a (min x y)
      = f.mesh.indexAx a (max x y) - f.mesh.indexAx a (min x y) + 1 := by omega
  obtain ⟨g, hg⟩ := mkFld_ok gm f
    (selData f.data a (.range (f.mesh.centreAx a ((f.mesh.indexAx a (min x y) : Nat) : Int))
      (f.mesh.centreAx a ((f.mesh.indexAx a (max x y) : Nat) : Int))
      (f.mesh.indexAx a (min x y)) (f.mesh.indexAx a (max x y))))
    (selData f.valid a (.range (f.mesh.centreAx a ((f.mesh.indexAx a (min x y) : Nat) : Int))
      (f.mesh.centreAx a ((f.mesh.indexAx a (max x y) : Nat) : Int))
      (f.mesh.indexAx a (min x y)) (f.mesh.indexAx a (max x y))))
    (by
      show setAt f.data.shape a (f.mesh.indexAx a (max x y) + 1 - f.mesh.indexAx a (min x y)) = gm.n
      rw [hgn, hds, hsh])
    (by
      show setAt f.valid.shape a (f.mesh.indexAx a (max x y) + 1 - f.mesh.indexAx a (min x y)) = gm.n
      rw [hgn, hvs, hsh]) hmeta
  rw [hg]
  exact ⟨_, rfl⟩

/-- In-region plane selections are accepted on meshes WITH subregions too, as long as the
subregions consist of whole cells (which the subregion setter of the mesh enforces): `Mesh.sel`
and `Field.sel` succeed for every coordinate inside the region — the re-built mesh passes the
subregion setter's three tests (inside the region, cell size divides, faces aligned) for every
surviving subregion. -/
theorem sel_plane_accepts_subs (f : Fld) (hf : FldWF f) (hmeta : metaOk f = true)
    (hsubs : ∀ p, p ∈ f.mesh.subs → ∃ k1 k2, SubAligned f.mesh p.2 k1 k2) (h2 : 2 ≤ f.mesh.ndim)
    (dim : String) (a : Nat) (hd : f.mesh.region.dim2index dim = .ok a) (x : Rat)
    (h1 : f.mesh.region.lo a ≤ x) (hx2 : x ≤ f.mesh.region.hi a) :
    (∃ g, selMesh f.mesh dim (.point x) = .ok g) ∧ ∃ g, selFld f dim (.point x) = .ok (.field g) := by
  obtain ⟨hinv, hds, hvs⟩ := hf
  have ha := dim2index_ndim hinv hd
  have hconv := (selConvert_point f.mesh hinv dim a hd x h1 hx2).1
  have hp := selPlaneMesh_ok_subs f.mesh hinv a ha h2
    (f.mesh.centreAx a ((f.mesh.indexAx a x : Nat) : Int)) hsubs
  obtain ⟨gm, hgm, hgn⟩ : ∃ gm, selPlaneMesh f.mesh a (f.mesh.centreAx a ((f.mesh.indexAx a x : Nat) : Int)) = .ok gm ∧
      gm.n = removeAt f.mesh.n a := ⟨_, hp, rfl⟩
  have hmesh : selMesh f.mesh dim (.point x) = .ok gm := by
    unfold selMesh; rw [hconv]; exact hgm
  refine ⟨⟨_, hmesh⟩, ?_⟩
  unfold selFld
  rw [hconv, hmesh]
  simp only
  obtain ⟨g, hg⟩ := mkFld_ok gm f
    (selData f.data a (.plane (f.mesh.centreAx a ((f.mesh.indexAx a x : Nat) : Int)) (f.mesh.indexAx a x)))
    (selData f.valid a (.plane (f.mesh.centreAx a ((f.mesh.indexAx a x : Nat) : Int)) (f.mesh.indexAx a x)))
    (by show removeAt f.data.shape a = gm.n; rw [hds, hgn])
    (by show removeAt f.valid.shape a = gm.n; rw [hvs, hgn]) hmeta
  rw [hg]
  exact ⟨_, rfl⟩

/-- In-region range selections are accepted on meshes with subregions made of whole cells. -/
theorem sel_range_accepts_subs (f : Fld) (hf : FldWF f) (hmeta : metaOk f = true)
    (hsubs : ∀ p, p ∈ f.mesh.subs → ∃ k1 k2, SubAligned f.mesh p.2 k1 k2)
    (dim : String) (a : Nat) (hd : f.mesh.region.dim2index dim = .ok a) (x y : Rat)
    (h1 : f.mesh.region.lo a ≤ min x y) (h2 : max x y ≤ f.mesh.region.hi a) :
    (∃ g, selMesh f.mesh dim (.range x y) = .ok g) ∧ ∃ g, selFld f dim (.range x y) = .ok (.field g) := by
  obtain ⟨hinv, hds, hvs⟩ := hf
  have ha := dim2index_ndim hinv hd
  obtain ⟨hconv, hk, hk2⟩ := selConvert_range f.mesh hinv dim a hd x y h1 h2
  obtain ⟨gm, hgm, hgn⟩ := selRangeMesh_ok_subs f.mesh hinv a ha _ _ hk hk2 hsubs
  have hmesh : selMesh f.mesh dim (.range x y) = .ok gm := by
    unfold selMesh; rw [hconv]; exact hgm
  refine ⟨⟨gm, hmesh⟩, ?_⟩
  unfold selFld
  rw [hconv, hmesh]
  simp only
  have hsh : f.mesh.indexAx a (max x y) + 1 - f.mesh.indexAx a (min x y)
      = f.mesh.indexAx a (max x y) - f.mesh.indexAx a (min x y) + 1 := by omega
  obtain ⟨g, hg⟩ := mkFld_ok gm f
    (selData f.data a (.range (f.mesh.centreAx a ((f.mesh.indexAx a (min x y) : Nat) : Int))
      (f.mesh.centreAx a ((f.mesh.indexAx a (max x y) : Nat) : Int))
      (f.mesh.indexAx a (min x y)) (f.mesh.indexAx a (max x y))))
    (selData f.valid a (.range (f.mesh.centreAx a ((f.mesh.indexAx a (min x y) : Nat) : Int))
      (f.mesh.centreAx a ((f.mesh.indexAx a (max x y) : Nat) : Int))
      (f.mesh.indexAx a (min x y)) (f.mesh.indexAx a (max x y))))
    (by
      show setAt f.data.shape a (f.mesh.indexAx a (max x y) + 1 - f.mesh.indexAx a (min x y)) = gm.n
      rw [hgn, hds, hsh])
    (by
      show setAt f.valid.shape a (f.mesh.indexAx a (max x y) + 1 - f.mesh.indexAx a (min x y)) = gm.n
      rw [hgn, hvs, hsh]) hmeta
  rw [hg]
  exact ⟨_, rfl⟩

/-- Every box inside the region is accepted by `mesh[region]` and `field[region]`. -/
theorem getitem_region_accepts (f : Fld) (hf : FldWF f) (hmeta : metaOk f = true) (item : Region)
    (hbox : BoxIn f.mesh item) (hpm : item.pmax.length = f.mesh.ndim) :
    (∃ g, getRegion f.mesh item = .ok g) ∧ ∃ g, getItem f (.region item) = .ok g := by
  obtain ⟨sm, hsm, hsn⟩ := getRegion_ok f.mesh hf.1 item hbox hpm
  obtain ⟨e1, _, _, _, _, _, _, _, e9⟩ := getRegion_inv f.mesh hf.1 item hbox sm hsm
  exact ⟨⟨sm, hsm⟩, getItem_ok_of_block f hf (.region item) sm hsm e1 (blockLo f.mesh item)
    (fun b => blockHi f.mesh item b - blockLo f.mesh item b + 1) (fun b _ => by omega)
    (fun b hb => (e9 b hb).2.2.2) hsn hmeta⟩

/-- Every subregion made of whole cells is accepted by `mesh[name]` and `field[name]`. -/
theorem getitem_name_accepts (f : Fld) (hf : FldWF f) (hmeta : metaOk f = true) (name : String) (s : Region)
    (hfind : findSub f.mesh.subs name = some s) (k1 k2 : Nat → Nat) (hal : SubAligned f.mesh s k1 k2) :
    (∃ g, getName f.mesh name = .ok g) ∧ ∃ g, getItem f (.name name) = .ok g := by
  obtain ⟨sm, hsm, hsn⟩ := getName_ok f.mesh hf.1 name s hfind k1 k2 hal
  obtain ⟨_, e1, _, e3⟩ := getName_inv f.mesh hf.1 name s hfind k1 k2 hal sm hsm
  exact ⟨⟨sm, hsm⟩, getItem_ok_of_block f hf (.name name) sm hsm e1 k1 (fun b => k2 b - k1 b)
    (fun b hb => by have := (hal.2.2 b hb).1; omega) e3 hsn hmeta⟩

/-- Non-negative pad widths on existing axes are accepted by `Mesh.pad` and `Field.pad`, in
every mode. -/
theorem pad_accepts (f : Fld) (hf : FldWF f) (hmeta : metaOk f = true) (pw : List PadW)
    (hnd : (pw.map (·.dim)).Nodup)
    (hdims : ∀ w, w ∈ pw → ∃ a, f.mesh.region.dim2index w.dim = .ok a)
    (hpos : ∀ w, w ∈ pw → 0 ≤ w.lo ∧ 0 ≤ w.hi)
    (hbc : Mesh.bcOk f.mesh.region.dims f.mesh.bc.toLower = true) (mode : PadMode) :
    (∃ g, padMesh f.mesh pw = .ok g) ∧ ∃ g, padFld f pw mode = .ok g := by
  obtain ⟨hinv, hds, hvs⟩ := hf
  have hsum : ∀ (sel : PadW → Int), (∀ w, w ∈ pw → 0 ≤ sel w) → ∀ b, 0 ≤ sumW f.mesh sel pw b := by
    intro sel hsel b
    clear hnd hdims hpos
    induction pw with
    | nil => simp [sumW]
    | cons w rest ih =>
      rw [sumW_cons]
      have h1 := hsel w (List.mem_cons_self ..)
      have h2 := ih (fun w' hw' => hsel w' (List.mem_cons_of_mem _ hw'))
      cases f.mesh.region.dim2index w.dim with
      | error e => simpa using h2
      | ok a =>
        simp only
        split <;> omega
  have hL := hsum (·.lo) (fun w hw => (hpos w hw).1)
  have hH := hsum (·.hi) (fun w hw => (hpos w hw).2)
  obtain ⟨gm, hgm, hgn⟩ := padMesh_ok f.mesh hinv pw hdims (fun b _ => hL b) (fun b _ => hH b) hbc
  refine ⟨⟨gm, hgm⟩, ?_⟩
  have hax : ∃ d, padAxes f.mesh pw = .ok d := by
    clear hnd hpos hgm hgn hL hH hsum
    induction pw with
    | nil => exact ⟨_, rfl⟩
    | cons w rest ih =>
      obtain ⟨a, ha⟩ := hdims w (List.mem_cons_self ..)
      obtain ⟨d, hd⟩ := ih (fun w' hw' => hdims w' (List.mem_cons_of_mem _ hw'))
      exact ⟨(a, w.lo, w.hi) :: d, by unfold padAxes; rw [ha, hd]⟩
  obtain ⟨d, hd⟩ := hax
  have hw : widthOf d = fun b => (sumW f.mesh (·.lo) pw b, sumW f.mesh (·.hi) pw b) := by
    funext b; exact widthOf_eq_sumW f.mesh pw d hnd hd b
  have hneg : (d.any fun e => decide (e.2.1 < 0) || decide (e.2.2 < 0)) = false := by
    clear hw hgm hgn hL hH hsum hnd hdims
    induction pw generalizing d with
    | nil => unfold padAxes at hd; injection hd with hd; subst hd; rfl
    | cons w rest ih =>
      unfold padAxes at hd
      split at hd
      · cases hd
      · split at hd
        · cases hd
        · rename_i d' hd'
          injection hd with hd; subst hd
          have h1 := hpos w (List.mem_cons_self ..)
          simp only [List.any_cons, Bool.or_eq_false_iff, decide_eq_false_iff_not, not_lt]
          exact ⟨⟨h1.1, h1.2⟩, ih (fun w' hw' => hpos w' (List.mem_cons_of_mem _ hw')) d' hd'⟩
  unfold padFld
  rw [hd]
  simp only
  rw [hneg]
  simp only [Bool.false_eq_true, if_false]
  rw [hgm]
  simp only
  exact mkFld_ok _ _ _ _
    (by
      show (tab f.data.shape.length fun b => f.data.shape.getD b 0 + ((widthOf d) b).1.toNat + ((widthOf d) b).2.toNat) = gm.n
      rw [hgn, hds, hw, inv_n_length hinv]; rfl)
    (by
      show (tab f.valid.shape.length fun b => f.valid.shape.getD b 0 + ((widthOf d) b).1.toNat + ((widthOf d) b).2.toNat) = gm.n
      rw [hgn, hvs, hw, inv_n_length hinv]; rfl) hmeta

/-- Every list of positive cell counts of the right length is accepted by `Field.resample`. -/
theorem resample_accepts (f : Fld) (hf : f.mesh.Inv) (hmeta : metaOk f = true) (n : List Int)
    (hl : n.length = f.mesh.ndim)
    (hpos : ∀ k, k ∈ n → 0 < k) : ∃ g, resample f n = .ok g := by
  unfold resample
  rw [if_neg (by omega)]
  have hany : (n.any fun k => decide (k ≤ 0)) = false := by
    rw [List.any_eq_false]; intro k hk
    have := hpos k hk
    simp only [decide_eq_true_eq, not_le]; exact this
  rw [hany]
  simp only [Bool.false_eq_true, if_false]
  unfold Mesh.mkN?
  rw [if_neg (by rw [List.length_map]; exact fun h => h hl)]
  have hz : ((n.map Int.toNat).any (· = 0)) = false := by
    rw [List.any_eq_false]; intro k hk
    obtain ⟨z, hz, rfl⟩ := List.mem_map.mp hk
    have := hpos z hz
    simp only [decide_eq_true_eq]; omega
  rw [hz]
  simp only [Bool.false_eq_true, if_false]
  rw [emptyLower, bcOk_empty]
  simp only [Bool.not_true, Bool.false_eq_true, if_false]
  have hc : f.mesh.region.containsReg f.mesh.region = true := by
    unfold Region.containsReg
    rw [containsPt_of_exact f.mesh.region f.mesh.region.pmin rfl (fun a ha =>
        ⟨le_refl _, (inv_lo_lt_hi hf ha).le⟩),
      containsPt_of_exact f.mesh.region f.mesh.region.pmax (inv_pmax_length hf) (fun a ha =>
        ⟨(inv_lo_lt_hi hf ha).le, le_refl _⟩)]
    rfl
  rw [hc]
  simp only [Bool.not_true, Bool.false_eq_true, if_false]
  exact mkFld_ok _ _ _ _ rfl rfl hmeta

/-! ## Metadata, well-formedness, subregions/boundary condition of the result mesh, histories -/

/-- Metadata rule of every field operation of the property (`Field.sel` with a plane, the
centre or a range, `field[region]`, `field[name]`, `Field.pad`, `Field.resample`): the result
lives on exactly the mesh the mesh-level operation returns (`Mesh.sel`, `mesh[item]`, `Mesh.pad`,
`Mesh(region, n)`); component count and unit are those of the source; labels and mapping are
what the two constructor setters make of the source's labels and mapping; value array and
validity mask have the shape of the result mesh. -/
theorem op_meta (f : Fld) (op : FOp) (g : Fld) (h : applyOp f op = .ok g) :
    applyMeshOp f.mesh op = .ok g.mesh ∧
    g.nvdim = f.nvdim ∧ g.unit = f.unit ∧ ctorMeta f = .ok (g.vdims, g.vmap) ∧
    g.data.shape = g.mesh.n ∧ g.valid.shape = g.mesh.n := by
  obtain ⟨m, d, v, hm, hc⟩ := applyOp_ctor f op g h
  obtain ⟨q1, q2, q3, q4, q5, q6, q7, q8⟩ := mkFld_inv _ _ _ _ _ hc
  exact ⟨by rw [q1]; exact hm, q6, q7, q8, by rw [q2, q1]; exact q4, by rw [q3, q1]; exact q5⟩

/-- The setters spelled out.  Labels: a labelled source hands its labels through; a source
without labels gets the default labels of its component count (none for a scalar field, `x y z`
up to three components, `v0 v1 …` beyond).  Mapping: handed through as it is — after a plane
selection it still names the removed axis — except that the one-entry mapping of an unlabelled
scalar field is dropped; a non-empty mapping is only accepted if its keys are exactly the labels. -/
theorem op_labels_rule (f : Fld) (op : FOp) (g : Fld) (h : applyOp f op = .ok g) :
    ((f.vdims = none ∧ g.vdims = Fld.defaultVdims f.nvdim) ∨ (f.vdims = some [] ∧ g.vdims = none) ∨
      (∃ x l, f.vdims = some (x :: l) ∧ g.vdims = f.vdims ∧ (x :: l).length = f.nvdim ∧
        hasDup (x :: l) = false)) ∧
    ((f.vmap.length = 1 ∧ f.nvdim = 1 ∧ g.vdims = none ∧ g.vmap = []) ∨
      (g.vmap = f.vmap ∧ (f.vmap = [] ∨ ∃ l, g.vdims = some l ∧ (f.vmap.map (·.1)).isPerm l = true))) := by
  obtain ⟨_, _, _, hmeta, _, _⟩ := op_meta f op g h
  obtain ⟨h1, h2⟩ := ctorMeta_inv f _ _ hmeta
  exact ⟨ctorVdims_rule _ _ _ h1, ctorVmap_rule _ _ _ _ h2⟩

/-- For a field in constructor state (labels and mapping as `Field(...)` leaves them) every
operation hands labels and mapping through unchanged, and the result is again in constructor
state. -/
theorem op_meta_passthrough (f : Fld) (hf : MetaInv f) (op : FOp) (g : Fld) (h : applyOp f op = .ok g) :
    g.vdims = f.vdims ∧ g.vmap = f.vmap ∧ MetaInv g := by
  obtain ⟨_, hn, _, hmeta, _, _⟩ := op_meta f op g h
  unfold MetaInv at hf
  rw [hf] at hmeta
  injection hmeta with hmeta
  injection hmeta with h1 h2
  refine ⟨h1.symm, h2.symm, ?_⟩
  unfold MetaInv ctorMeta
  rw [hn, ← h1, ← h2]
  exact hf

/-- A field whose labels / mapping the constructor setters refuse (e.g. the state left by
`field.vdims = []` on a labelled vector field with a mapping: no labels, mapping keys are the
old labels) is refused by every operation, whatever the request. -/
theorem op_rejects_bad_meta (f : Fld) (hbad : metaOk f = false) (op : FOp) :
    ∃ e, applyOp f op = .error e := by
  cases h : applyOp f op with
  | error e => exact ⟨e, rfl⟩
  | ok g =>
    obtain ⟨_, _, _, hmeta, _, _⟩ := op_meta f op g h
    rw [(metaOk_of_eq f _ hmeta).1] at hbad
    cases hbad

/-- Invariant over histories: after any sequence of operations on a field in constructor state,
component count, unit, labels and mapping are those of the original field, the field is again in
constructor state, and its arrays have the shape of its mesh (given that of the start field). -/
theorem history_meta (ops : List FOp) (f : Fld) (hf : MetaInv f)
    (hs : f.data.shape = f.mesh.n ∧ f.valid.shape = f.mesh.n) (g : Fld) (h : runOps f ops = .ok g) :
    g.nvdim = f.nvdim ∧ g.unit = f.unit ∧ g.vdims = f.vdims ∧ g.vmap = f.vmap ∧ MetaInv g ∧
    g.data.shape = g.mesh.n ∧ g.valid.shape = g.mesh.n := by
  induction ops generalizing f with
  | nil =>
    unfold runOps at h
    injection h with h
    subst h
    exact ⟨rfl, rfl, rfl, rfl, hf, hs.1, hs.2⟩
  | cons op rest ih =>
    unfold runOps at h
    split at h
    · cases h
    · rename_i g1 hg1
      obtain ⟨_, a1, a2, _, a5, a6⟩ := op_meta f op g1 hg1
      obtain ⟨b1, b2, b3⟩ := op_meta_passthrough f hf op g1 hg1
      obtain ⟨c1, c2, c3, c4, c5, c6, c7⟩ := ih g1 b3 ⟨a5, a6⟩ h
      exact ⟨by rw [c1, a1], by rw [c2, a2], by rw [c3, b1], by rw [c4, b2], c5, c6, c7⟩

/-- Without the constructor-state assumption on the start field: one operation puts the field
in constructor state (for a field with at least one component and no empty label list), so after
any non-empty history labels and mapping are what the setters made of the original ones. -/
theorem history_meta_first (op : FOp) (ops : List FOp) (f : Fld) (hk : f.nvdim ≠ 0)
    (hne : f.vdims ≠ some []) (g : Fld) (h : runOps f (op :: ops) = .ok g) :
    g.nvdim = f.nvdim ∧ g.unit = f.unit ∧ ctorMeta f = .ok (g.vdims, g.vmap) ∧ MetaInv g ∧
    g.data.shape = g.mesh.n ∧ g.valid.shape = g.mesh.n := by
  unfold runOps at h
  split at h
  · cases h
  · rename_i g1 hg1
    obtain ⟨_, a1, a2, a3, a5, a6⟩ := op_meta f op g1 hg1
    have hinv : MetaInv g1 := ctorMeta_idem f g1 hk hne a3 a1
    obtain ⟨c1, c2, c3, c4, c5, c6, c7⟩ := history_meta ops g1 hinv ⟨a5, a6⟩ g h
    exact ⟨by rw [c1, a1], by rw [c2, a2], by rw [c3, c4]; exact a3, c5, c6, c7⟩

/-- Element type of the result's value array: `sel`, `__getitem__` and `pad` never return a
boolean or integer array (they promote to `float64`, complex stays complex); `resample` keeps
the kind; applying an operation of the same family again does not change the kind any more. -/
theorem result_kind (op : OpFam) (k : DKind) :
    resultKind op (resultKind op k) = resultKind op k ∧
    (op ≠ .resample → resultKind op k ≠ .bool ∧ resultKind op k ≠ .int ∧
      (k = .complex ↔ resultKind op k = .complex)) ∧
    (op = .resample → resultKind op k = k) := by
  cases op <;> cases k <;> simp [resultKind, asArrayKind]

/-- What the operations do with subregions and boundary condition of the mesh (following the
code): `field[item]`, `pad` and `resample` return a field on a mesh WITHOUT subregions; the
boundary condition survives only `pad`; `sel` keeps (clipped) subregions — see `sel_plane_subs`,
`sel_range_subs` — but drops the boundary condition. -/
theorem op_subs_bc (f : Fld) (op : FOp) (g : Fld) (h : applyOp f op = .ok g) :
    (∀ item, op = .get item → g.mesh.subs = [] ∧ g.mesh.bc = "") ∧
    (∀ pw mode, op = .pad pw mode → g.mesh.subs = [] ∧ g.mesh.bc = f.mesh.bc.toLower) ∧
    (∀ n, op = .resample n → g.mesh.subs = [] ∧ g.mesh.bc = "") ∧
    (∀ dim arg, op = .sel dim arg → g.mesh.bc = "") := by
  obtain ⟨hm, _⟩ := op_meta f op g h
  refine ⟨?_, ?_, ?_, ?_⟩
  · intro item ho; subst ho
    exact getMesh_bare f.mesh item g.mesh hm
  · intro pw mode ho; subst ho
    exact padMesh_bare f.mesh pw g.mesh hm
  · intro n ho; subst ho
    obtain ⟨_, _, r3, r4, _⟩ := mkN_inv _ _ _ hm
    exact ⟨r4, r3⟩
  · intro dim arg ho; subst ho
    exact selMesh_bc f.mesh dim arg g.mesh hm

/-- Every operation returns a well-formed field: its mesh satisfies the mesh invariant (positive
dimension, ordered corners, names/units/counts of matching length, at least one cell per axis)
and value array and mask have the shape of that mesh — so the pointwise theorems of this file
chain along histories. -/
theorem op_wf (f : Fld) (hf : FldWF f) (op : FOp) (hside : OpSide f op) (g : Fld)
    (h : applyOp f op = .ok g) : FldWF g := by
  obtain ⟨hm, _, _, _, s1, s2⟩ := op_meta f op g h
  refine ⟨?_, s1, s2⟩
  cases op with
  | sel dim arg =>
    have hm' : selMesh f.mesh dim arg = .ok g.mesh := hm
    have hconv : ∃ ai, selConvert f.mesh dim arg = .ok ai := by
      unfold selMesh at hm'
      cases hc : selConvert f.mesh dim arg with
      | error e => rw [hc] at hm'; cases hm'
      | ok ai => exact ⟨ai, rfl⟩
    obtain ⟨⟨a, s⟩, hconv⟩ := hconv
    rcases selConvert_kind f.mesh hf.1 dim arg a s hconv with ⟨c, k, hs, _⟩ | ⟨x, y, harg⟩
    · subst hs
      exact (sel_plane_shape f.mesh hf.1 dim arg a c k hconv g.mesh hm').2.2.2.2.2.2
    · subst harg
      obtain ⟨_, _, _, _, _, _, _, _, _, _, _, _, _, hinv⟩ := sel_range_shape f.mesh hf.1 dim x y g.mesh hm'
      exact hinv
  | get item =>
    cases item with
    | region r => exact getRegion_meshInv f.mesh hf.1 r hside g.mesh hm
    | name s =>
      obtain ⟨r, k1, k2, hfind, hal, hdims, hunits⟩ := hside
      obtain ⟨e0, e1, e2, e3⟩ := getName_inv f.mesh hf.1 s r hfind k1 k2 hal g.mesh hm
      exact inv_of_blocks f.mesh g.mesh hf.1 e1 e2 (by rw [e0]; exact hdims) (by rw [e0]; exact hunits)
        (by rw [e0]; exact hal.2.1) k1 (fun b => k2 b - k1 b)
        (fun b hb => by have := (hal.2.2 b hb).1; omega) e3
  | pad pw mode =>
    obtain ⟨p1, p2, _, _⟩ := padFld_inv f hf pw hside mode g h
    exact padMesh_meshInv f.mesh hf.1 pw (fun b _ => (p2 b).1) (fun b _ => (p2 b).2) g.mesh p1
  | resample n => exact mkN_meshInv f.mesh hf.1 _ g.mesh hm

/-! ## Subregions of a selection -/

/-- Subregions of a plane selection (`Mesh.sel` with a coordinate or none): the result carries,
in the original order and under the original names, exactly the subregions whose extent along the
removed axis contains the centre `c` of the selected layer; each has the removed axis taken out
of its corners (every other axis keeps its extent) and is stored with the names, units and
tolerance of the result region. -/
theorem sel_plane_subs (m : Mesh) (hm : m.Inv) (hsub : SubsWF m) (dim : String) (arg : SelArg) (a : Nat)
    (c : Rat) (k : Nat) (hconv : selConvert m dim arg = .ok (a, .plane c k)) (ha : a < m.ndim)
    (g : Mesh) (h : selMesh m dim arg = .ok g) :
    List.Forall₂ (fun q p => q.1 = p.1 ∧ q.2.dims = g.region.dims ∧ q.2.units = g.region.units ∧
        q.2.tol = g.region.tol ∧ q.2.ndim = m.ndim - 1 ∧ q.2.pmax.length = m.ndim - 1 ∧
        ∀ b, b < m.ndim - 1 → q.2.lo b = p.2.lo (skip a b) ∧ q.2.hi b = p.2.hi (skip a b))
      g.subs (m.subs.filter fun p => decide (p.2.lo a ≤ c ∧ c ≤ p.2.hi a)) := by
  have hp := selMesh_plane_inv m hm dim arg a c k hconv g h
  unfold selPlaneMesh at hp
  split at hp
  · cases hp
  · rename_i subs hsubs
    split at hp
    · cases hp
    · rename_i r hr
      unfold mkMesh? at hp
      split at hp
      · cases hp
      · rename_i m0 hm0
        obtain ⟨g1, _, _, g4⟩ := setSubs_inv m0 subs g hp
        obtain ⟨c1, _⟩ := mkCell_inv _ _ _ _ hm0
        rw [g4, List.forall₂_map_left_iff]
        apply forall2_imp_mem (planeSubs_spec a c m.subs subs hsubs)
        intro q p hp' ⟨hq1, hq2⟩
        obtain ⟨s1, s2, s3⟩ := hsub p (List.mem_filter.mp hp').1
        obtain ⟨e1, e2, e3, e4⟩ := regionMk_none_inv _ _ _ _ hq2
        have hlen : (removeAt p.2.pmin a).length = m.ndim - 1 := by
          rw [length_removeAt _ _ (by rw [s1]; exact ha), s1]
        refine ⟨hq1, by show m0.region.dims = _; rw [g1], by show m0.region.units = _; rw [g1],
          by show m0.region.tol = _; rw [g1], ?_, ?_, ?_⟩
        · show q.2.pmin.length = _
          rw [e3, tab_length, hlen]
        · show q.2.pmax.length = _
          rw [e4, tab_length, hlen]
        · intro b hb
          have hs := skip_lt a b m.ndim ha hb
          have hle := s3 (skip a b) hs
          constructor
          · show q.2.pmin.getD b 0 = _
            rw [e3, getD_tab _ _ _ _ (by rw [hlen]; exact hb), getD_removeAt, getD_removeAt]
            exact min_eq_left hle
          · show q.2.pmax.getD b 0 = _
            rw [e4, getD_tab _ _ _ _ (by rw [hlen]; exact hb), getD_removeAt, getD_removeAt]
            exact max_eq_right hle

/-- In cells: a subregion made of the whole cells `s₁ … s₂-1` along the removed axis contains
the centre of the selected layer `k` exactly when `s₁ ≤ k < s₂`. -/
theorem plane_sub_kept_iff (L c : Rat) (hc : 0 < c) (k s1 s2 : Nat) :
    (L + (s1 : Rat) * c ≤ L + ((k : Rat) + 1 / 2) * c ∧ L + ((k : Rat) + 1 / 2) * c ≤ L + (s2 : Rat) * c)
      ↔ (s1 ≤ k ∧ k < s2) := by
  constructor
  · rintro ⟨h1, h2⟩
    have a1 : (s1 : Rat) < (k : Rat) + 1 := by
      by_contra hcon; rw [not_lt] at hcon
      have := mul_le_mul_of_nonneg_right hcon hc.le; nlinarith
    have a2 : (k : Rat) < (s2 : Rat) := by
      by_contra hcon; rw [not_lt] at hcon
      have := mul_le_mul_of_nonneg_right hcon hc.le; nlinarith
    have n1 : s1 < k + 1 := by exact_mod_cast a1
    have n2 : k < s2 := by exact_mod_cast a2
    omega
  · rintro ⟨h1, h2⟩
    have a1 : (s1 : Rat) ≤ (k : Rat) := by exact_mod_cast h1
    have a2 : (k : Rat) + 1 ≤ (s2 : Rat) := by exact_mod_cast h2
    constructor <;> nlinarith

/-- Subregions of a range selection: the result carries, in the original order and under the
original names, exactly the subregions that overlap the kept slab `[g.lo a, g.hi a]` by more
than half a cell (subregions consist of whole cells: a smaller overlap is a rounding artefact at
a shared face); each is clipped to the slab along the selection axis — `[max(lo, s.lo),
min(hi, s.hi)]` — keeps its extent on every other axis, and is stored with the names, units and
tolerance of the result region. -/
theorem sel_range_subs (m : Mesh) (hm : m.Inv) (hsub : SubsWF m) (dim : String) (x y : Rat) (g : Mesh)
    (h : selMesh m dim (.range x y) = .ok g) :
    ∃ a, m.region.dim2index dim = .ok a ∧
      List.Forall₂ (fun q p => q.1 = p.1 ∧ q.2.dims = g.region.dims ∧ q.2.units = g.region.units ∧
          q.2.tol = g.region.tol ∧ q.2.ndim = m.ndim ∧ q.2.pmax.length = m.ndim ∧
          q.2.lo a = max (g.region.lo a) (p.2.lo a) ∧ q.2.hi a = min (g.region.hi a) (p.2.hi a) ∧
          ∀ b, b < m.ndim → b ≠ a → q.2.lo b = p.2.lo b ∧ q.2.hi b = p.2.hi b)
        g.subs (m.subs.filter fun p => decide (p.2.lo a < g.region.hi a - m.cellAt a / 2 ∧
          g.region.lo a < p.2.hi a - m.cellAt a / 2)) := by
  obtain ⟨a, hd, _, _, _, _, _, _, glo, ghi, _, _, _, _⟩ := sel_range_shape m hm dim x y g h
  refine ⟨a, hd, ?_⟩
  have ha := dim2index_ndim hm hd
  have hc := inv_cell_pos hm ha
  unfold selMesh at h
  split at h
  · cases h
  · rename_i ai hconv
    obtain ⟨a', s⟩ := ai
    obtain ⟨hd', b1, b2, hs⟩ := selConvert_range_inv m hm dim x y a' s hconv
    rw [hd] at hd'; injection hd' with hd'; subst hd'
    subst hs
    have hmm : min x y ≤ max x y := le_trans (min_le_left x y) (le_max_left x y)
    have hk := indexAx_mono m a _ _ hc hmm
    have hkr : (m.indexAx a (min x y) : Rat) ≤ (m.indexAx a (max x y) : Rat) := by exact_mod_cast hk
    have hlo : m.centreAx a ((m.indexAx a (min x y) : Nat) : Int) - m.cellAt a / 2 = g.region.lo a := by
      rw [glo, centreAx_cast]; ring
    have hhi : m.centreAx a ((m.indexAx a (max x y) : Nat) : Int) + m.cellAt a / 2 = g.region.hi a := by
      rw [ghi, centreAx_cast]; ring
    have hlh : g.region.lo a ≤ g.region.hi a := by rw [glo, ghi]; nlinarith
    have hp : selRangeMesh m a (m.centreAx a ((m.indexAx a (min x y) : Nat) : Int))
        (m.centreAx a ((m.indexAx a (max x y) : Nat) : Int)) = .ok g := h
    unfold selRangeMesh at hp
    rw [hlo, hhi] at hp
    split at hp
    · cases hp
    · rename_i subs hsubs
      split at hp
      · cases hp
      · rename_i r hr
        unfold mkMesh? at hp
        split at hp
        · cases hp
        · rename_i m0 hm0
          obtain ⟨g1, _, _, g4⟩ := setSubs_inv m0 subs g hp
          rw [g4, List.forall₂_map_left_iff]
          apply forall2_imp_mem (rangeSubs_spec a _ _ _ m.subs subs hsubs)
          intro q p hp' ⟨hq1, hq2⟩
          obtain ⟨hmem, hkeep⟩ := List.mem_filter.mp hp'
          rw [decide_eq_true_iff] at hkeep
          obtain ⟨s1, s2, s3⟩ := hsub p hmem
          obtain ⟨e1, e2, e3, e4⟩ := regionMk_none_inv _ _ _ _ hq2
          have hlen : (setAt p.2.pmin a (max (g.region.lo a) (p.2.lo a))).length = m.ndim := by
            rw [length_setAt, s1]
          have hord : max (g.region.lo a) (p.2.lo a) ≤ min (g.region.hi a) (p.2.hi a) := by
            have := s3 a ha
            apply max_le <;> apply le_min <;> linarith
          refine ⟨hq1, by show m0.region.dims = _; rw [g1], by show m0.region.units = _; rw [g1],
            by show m0.region.tol = _; rw [g1], ?_, ?_, ?_, ?_, ?_⟩
          · show q.2.pmin.length = _
            rw [e3, tab_length, hlen]
          · show q.2.pmax.length = _
            rw [e4, tab_length, hlen]
          · show q.2.pmin.getD a 0 = _
            rw [e3, getD_tab _ _ _ _ (by rw [hlen]; exact ha), getD_setAt_eq _ _ _ _ (by rw [s1]; exact ha),
              getD_setAt_eq _ _ _ _ (by rw [s2]; exact ha)]
            exact min_eq_left hord
          · show q.2.pmax.getD a 0 = _
            rw [e4, getD_tab _ _ _ _ (by rw [hlen]; exact ha), getD_setAt_eq _ _ _ _ (by rw [s1]; exact ha),
              getD_setAt_eq _ _ _ _ (by rw [s2]; exact ha)]
            exact max_eq_right hord
          · intro b hb hba
            have hle := s3 b hb
            constructor
            · show q.2.pmin.getD b 0 = _
              rw [e3, getD_tab _ _ _ _ (by rw [hlen]; exact hb), getD_setAt_ne _ _ _ _ _ hba,
                getD_setAt_ne _ _ _ _ _ hba]
              exact min_eq_left hle
            · show q.2.pmax.getD b 0 = _
              rw [e4, getD_tab _ _ _ _ (by rw [hlen]; exact hb), getD_setAt_ne _ _ _ _ _ hba,
                getD_setAt_ne _ _ _ _ _ hba]
              exact max_eq_right hle

/-- In cells: for a subregion made of the whole cells `s₁ … s₂-1` and a selection keeping cells
`k₁ … k₂`, the clipped extent is the common cells `max(k₁,s₁) … min(k₂+1,s₂)-1`. -/
theorem range_sub_clip_cells (L c : Rat) (hc : 0 < c) (k1 k2 s1 s2 : Nat) :
    max (L + (k1 : Rat) * c) (L + (s1 : Rat) * c) = L + ((max k1 s1 : Nat) : Rat) * c ∧
    min (L + ((k2 : Rat) + 1) * c) (L + (s2 : Rat) * c) = L + ((min (k2 + 1) s2 : Nat) : Rat) * c := by
  constructor
  · rcases le_total k1 s1 with h | h
    · have hr : (k1 : Rat) ≤ (s1 : Rat) := by exact_mod_cast h
      rw [Nat.max_eq_right h, max_eq_right (by nlinarith)]
    · have hr : (s1 : Rat) ≤ (k1 : Rat) := by exact_mod_cast h
      rw [Nat.max_eq_left h, max_eq_left (by nlinarith)]
  · rcases le_total (k2 + 1) s2 with h | h
    · have hr : (k2 : Rat) + 1 ≤ (s2 : Rat) := by exact_mod_cast h
      rw [Nat.min_eq_left h, min_eq_left (by nlinarith)]; push_cast; ring
    · have hr : (s2 : Rat) ≤ (k2 : Rat) + 1 := by exact_mod_cast h
      rw [Nat.min_eq_right h, min_eq_right (by nlinarith)]

/-! ## Composition laws and round trips -/

/-- `field[region]` for a box made of whole cells `k₁ … k₂-1` of the field's mesh: the result
mesh is exactly the box (same corners, `k₂ - k₁` cells per axis, names, units and tolerance of
the source, no boundary condition, no subregions) and result cell `j` holds value and validity
of source cell `k₁ + j`. -/
theorem getitem_aligned_pointwise (f : Fld) (hf : FldWF f) (item : Region) (k1 k2 : Nat → Nat)
    (hal : SubAligned f.mesh item k1 k2) (g : Fld) (h : getItem f (.region item) = .ok g) :
    (∀ a, a < f.mesh.ndim → g.mesh.region.lo a = item.lo a ∧ g.mesh.region.hi a = item.hi a ∧
      g.mesh.nAt a = k2 a - k1 a) ∧
    g.mesh.ndim = f.mesh.ndim ∧ g.mesh.n.length = f.mesh.ndim ∧
    g.mesh.region.pmax.length = f.mesh.ndim ∧
    g.mesh.region.dims = f.mesh.region.dims ∧ g.mesh.region.units = f.mesh.region.units ∧
    g.mesh.region.tol = f.mesh.region.tol ∧ g.mesh.bc = "" ∧ g.mesh.subs = [] ∧
    ∀ j, inRange g.mesh.n j = true →
      g.data.get j = f.data.get (tab f.mesh.ndim fun b => k1 b + j.getD b 0) ∧
      g.valid.get j = f.valid.get (tab f.mesh.ndim fun b => k1 b + j.getD b 0) := by
  have hbox := boxIn_of_aligned f.mesh hf.1 item k1 k2 hal
  obtain ⟨hgm, hpt⟩ := getitem_region_pointwise f hf item hbox g h
  obtain ⟨e1, e2, e3, e4, e5, e6, e7, e8, _⟩ := getRegion_inv f.mesh hf.1 item hbox g.mesh hgm
  refine ⟨getRegion_aligned_exact f.mesh hf.1 item k1 k2 hal g.mesh hgm, e1, e2, e6, e3, e4, e5, e7, e8, ?_⟩
  intro j hj
  obtain ⟨_, p2, p3⟩ := hpt j hj
  have hidx : (tab f.mesh.ndim fun b => blockLo f.mesh item b + j.getD b 0)
      = tab f.mesh.ndim fun b => k1 b + j.getD b 0 :=
    tab_congr _ _ _ (fun b hb => by rw [blockLo_aligned f.mesh hf.1 item k1 k2 hal b hb])
  rw [hidx] at p2 p3
  exact ⟨p2, p3⟩

/-- Extracting the whole region is the identity on geometry and content: `field[field.mesh.region]`
has the same region (corners, names, units, tolerance) and cell counts, and every cell keeps its
value and validity.  (The boundary condition and the subregions of the mesh are not carried over:
`Mesh.__getitem__` builds a bare mesh.) -/
theorem getitem_whole_id (f : Fld) (hf : FldWF f) (g : Fld)
    (h : getItem f (.region f.mesh.region) = .ok g) :
    g.mesh.region = f.mesh.region ∧ g.mesh.n = f.mesh.n ∧ g.mesh.bc = "" ∧ g.mesh.subs = [] ∧
    ∀ j, inRange f.mesh.n j = true → g.data.get j = f.data.get j ∧ g.valid.get j = f.valid.get j := by
  obtain ⟨a1, a2, a3, a4, a5, a6, a7, a8, a9, a10⟩ :=
    getitem_aligned_pointwise f hf f.mesh.region _ _ (whole_aligned f.mesh hf.1) g h
  have hn : g.mesh.n = f.mesh.n := by
    apply list_ext_getD _ _ 0 (by rw [a3, inv_n_length hf.1])
    intro b hb
    have := (a1 b (by omega)).2.2
    simpa [nAt_def] using this
  refine ⟨?_, hn, a8, a9, ?_⟩
  · exact region_ext _ _ a2 (inv_pmax_length hf.1) a4 (fun b hb => (a1 b hb).1) (fun b hb => (a1 b hb).2.1) a5 a6 a7
  · intro j hj
    obtain ⟨p2, p3⟩ := a10 j (by rw [hn]; exact hj)
    have hidx : (tab f.mesh.ndim fun b => 0 + j.getD b 0) = j := by
      symm
      apply eq_tab_of_getD _ _ _ 0 (by rw [inRange_length _ _ hj, inv_n_length hf.1])
      intro b _; omega
    rw [hidx] at p2 p3
    exact ⟨p2, p3⟩

/-- Pad / crop round trip, for every padding mode: padding a field and then extracting the
original region gives back the original field — same region (corners, names, units, tolerance),
same cell counts, and every cell has its original value and validity.  (As with every
`__getitem__`, boundary condition and subregions are not carried over.) -/
theorem pad_crop_roundtrip (f : Fld) (hf : FldWF f) (pw : List PadW) (hnd : (pw.map (·.dim)).Nodup)
    (mode : PadMode) (g : Fld) (hg : padFld f pw mode = .ok g) (h : Fld)
    (hh : getItem g (.region f.mesh.region) = .ok h) :
    h.mesh.region = f.mesh.region ∧ h.mesh.n = f.mesh.n ∧ h.mesh.bc = "" ∧ h.mesh.subs = [] ∧
    ∀ j, inRange f.mesh.n j = true → h.data.get j = f.data.get j ∧ h.valid.get j = f.valid.get j := by
  have hgwf := op_wf f hf (.pad pw mode) hnd g hg
  obtain ⟨p1, p2, _, _⟩ := padFld_inv f hf pw hnd mode g hg
  have hal := pad_source_aligned f.mesh hf.1 pw (fun b _ => (p2 b).1) (fun b _ => (p2 b).2) g.mesh p1
  obtain ⟨e1, _, e3, e4, e5, _, _, _⟩ :=
    padMesh_inv f.mesh hf.1 pw (fun b _ => (p2 b).1) (fun b _ => (p2 b).2) g.mesh p1
  obtain ⟨a1, a2, a3, a4, a5, a6, a7, a8, a9, a10⟩ :=
    getitem_aligned_pointwise g hgwf f.mesh.region _ _ hal h hh
  have hn : h.mesh.n = f.mesh.n := by
    apply list_ext_getD _ _ 0 (by rw [a3, inv_n_length hf.1, e1])
    intro b hb
    have := (a1 b (by omega)).2.2
    rw [nAt_def] at this
    rw [this]
    show _ = f.mesh.nAt b
    omega
  refine ⟨?_, hn, a8, a9, ?_⟩
  · apply region_ext _ _ (by show h.mesh.ndim = f.mesh.ndim; omega) (inv_pmax_length hf.1) (by rw [a4, e1]; rfl)
      (fun b hb => (a1 b (by show b < g.mesh.ndim; rw [e1]; exact hb)).1)
      (fun b hb => (a1 b (by show b < g.mesh.ndim; rw [e1]; exact hb)).2.1)
      (by rw [a5, e3]) (by rw [a6, e4]) (by rw [a7, e5])
  · intro j hj
    obtain ⟨q2, q3⟩ := a10 j (by rw [hn]; exact hj)
    have hjl : j.length = f.mesh.ndim := by rw [inRange_length _ _ hj, inv_n_length hf.1]
    have hjb : ∀ b, b < f.mesh.ndim → j.getD b 0 < f.mesh.nAt b := fun b hb =>
      inRange_getD _ _ hj b (by rw [inv_n_length hf.1]; exact hb)
    obtain ⟨_, r2, r3⟩ := pad_inside_pointwise f hf pw hnd mode g hg
      (tab g.mesh.ndim fun b => (sumW f.mesh (·.lo) pw b).toNat + j.getD b 0) (by
        intro b hb
        rw [getD_tab _ _ _ _ (by rw [e1]; exact hb)]
        have := hjb b hb
        omega)
    have hidx : (tab f.mesh.ndim fun b =>
        (tab g.mesh.ndim fun b => (sumW f.mesh (·.lo) pw b).toNat + j.getD b 0).getD b 0
          - (sumW f.mesh (·.lo) pw b).toNat) = j := by
      symm
      apply eq_tab_of_getD _ _ _ 0 hjl
      intro b hb
      rw [getD_tab _ _ _ _ (by rw [e1]; exact hb)]
      omega
    rw [hidx] at r2 r3
    rw [q2, q3, r2, r3]
    exact ⟨rfl, rfl⟩

/-- Closed form of nearest-cell resampling for ALL target resolutions (finer, coarser, coprime):
target cell `j` takes value and validity of the source cell with index
`⌊(2·j+1)·n / (2·n')⌋` on every axis (`n` source, `n'` target cell count) — the cell containing
the target cell's centre, written in integer arithmetic. -/
theorem resample_source_cell (f : Fld) (hf : FldWF f) (n : List Int) (g : Fld) (h : resample f n = .ok g) :
    ∀ j, inRange g.mesh.n j = true →
      g.data.get j = f.data.get
        (tab f.mesh.ndim fun b => ((2 * j.getD b 0 + 1) * f.mesh.nAt b) / (2 * g.mesh.nAt b)) ∧
      g.valid.get j = f.valid.get
        (tab f.mesh.ndim fun b => ((2 * j.getD b 0 + 1) * f.mesh.nAt b) / (2 * g.mesh.nAt b)) := by
  intro j hj
  obtain ⟨_, p2, p3⟩ := resample_pointwise f hf n g h j hj
  obtain ⟨r1, _, _, _⟩ := resample_region f n g h
  have hg := op_wf f hf (.resample n) trivial g h
  have hgn : g.mesh.ndim = f.mesh.ndim := by unfold Mesh.ndim; rw [r1]
  have hidx : (tab f.mesh.ndim fun b => f.mesh.indexAx b (g.mesh.centreAx b ((j.getD b 0 : Nat) : Int)))
      = tab f.mesh.ndim fun b => ((2 * j.getD b 0 + 1) * f.mesh.nAt b) / (2 * g.mesh.nAt b) := by
    apply tab_congr
    intro b hb
    have hjb : j.getD b 0 < g.mesh.nAt b :=
      inRange_getD _ _ hj b (by rw [inv_n_length hg.1, hgn]; exact hb)
    exact resample_index f.mesh g.mesh b (inv_n_pos hf.1 hb) (inv_n_pos hg.1 (by omega))
      (by rw [r1]) (by rw [r1]) (inv_lo_lt_hi hf.1 hb) _ hjb
  rw [hidx] at p2 p3
  exact ⟨p2, p3⟩

/-- Refinement by integer factors `r b ≥ 1` per axis: target cell `j` is a copy of source cell
`j / r` (every source cell is repeated `r` times along each axis). -/
theorem resample_refine (f : Fld) (hf : FldWF f) (n : List Int) (g : Fld) (h : resample f n = .ok g)
    (r : Nat → Nat) (hr : ∀ b, b < f.mesh.ndim → 0 < r b ∧ g.mesh.nAt b = r b * f.mesh.nAt b) :
    ∀ j, inRange g.mesh.n j = true →
      g.data.get j = f.data.get (tab f.mesh.ndim fun b => j.getD b 0 / r b) ∧
      g.valid.get j = f.valid.get (tab f.mesh.ndim fun b => j.getD b 0 / r b) := by
  intro j hj
  obtain ⟨p2, p3⟩ := resample_source_cell f hf n g h j hj
  have hidx : (tab f.mesh.ndim fun b => ((2 * j.getD b 0 + 1) * f.mesh.nAt b) / (2 * g.mesh.nAt b))
      = tab f.mesh.ndim fun b => j.getD b 0 / r b :=
    tab_congr _ _ _ (fun b hb => by
      rw [(hr b hb).2]; exact refine_div _ _ _ (hr b hb).1 (inv_n_pos hf.1 hb))
  rw [hidx] at p2 p3
  exact ⟨p2, p3⟩

/-- Coarsening by integer factors `r b ≥ 1` per axis: target cell `j` takes the source cell
`r·j + r/2` — the middle one of the `r` source cells it covers for odd `r`, the upper middle one
for even `r` (the target centre then lies on a source face, which belongs to the upper cell). -/
theorem resample_coarsen (f : Fld) (hf : FldWF f) (n : List Int) (g : Fld) (h : resample f n = .ok g)
    (r : Nat → Nat) (hr : ∀ b, b < f.mesh.ndim → f.mesh.nAt b = r b * g.mesh.nAt b) :
    ∀ j, inRange g.mesh.n j = true →
      g.data.get j = f.data.get (tab f.mesh.ndim fun b => r b * j.getD b 0 + r b / 2) ∧
      g.valid.get j = f.valid.get (tab f.mesh.ndim fun b => r b * j.getD b 0 + r b / 2) := by
  intro j hj
  obtain ⟨p2, p3⟩ := resample_source_cell f hf n g h j hj
  obtain ⟨r1, _, _, _⟩ := resample_region f n g h
  have hg := op_wf f hf (.resample n) trivial g h
  have hgn : g.mesh.ndim = f.mesh.ndim := by unfold Mesh.ndim; rw [r1]
  have hidx : (tab f.mesh.ndim fun b => ((2 * j.getD b 0 + 1) * f.mesh.nAt b) / (2 * g.mesh.nAt b))
      = tab f.mesh.ndim fun b => r b * j.getD b 0 + r b / 2 :=
    tab_congr _ _ _ (fun b hb => by
      rw [hr b hb]; exact coarsen_div _ _ _ (inv_n_pos hg.1 (by omega)))
  rw [hidx] at p2 p3
  exact ⟨p2, p3⟩

/-- Refining by integer factors and resampling back to the original cell counts is the identity:
same region, same counts, every cell keeps value and validity. -/
theorem resample_refine_back_id (f : Fld) (hf : FldWF f) (n : List Int) (g : Fld)
    (hg : resample f n = .ok g) (r : Nat → Nat)
    (hr : ∀ b, b < f.mesh.ndim → 0 < r b ∧ g.mesh.nAt b = r b * f.mesh.nAt b)
    (k : Fld) (hk : resample g (f.mesh.n.map Int.ofNat) = .ok k) :
    k.mesh.region = f.mesh.region ∧ k.mesh.n = f.mesh.n ∧
    ∀ j, inRange f.mesh.n j = true → k.data.get j = f.data.get j ∧ k.valid.get j = f.valid.get j := by
  have hgwf := op_wf f hf (.resample n) trivial g hg
  obtain ⟨r1, _, _, _⟩ := resample_region f n g hg
  obtain ⟨s1, s2, _, _⟩ := resample_region g _ k hk
  have hgn : g.mesh.ndim = f.mesh.ndim := by unfold Mesh.ndim; rw [r1]
  have hn : k.mesh.n = f.mesh.n := by
    rw [s2, List.map_map]
    have : (Int.toNat ∘ Int.ofNat) = id := by funext k; simp
    rw [this, List.map_id]
  refine ⟨by rw [s1, r1], hn, ?_⟩
  intro j hj
  have hjl : j.length = f.mesh.ndim := by rw [inRange_length _ _ hj, inv_n_length hf.1]
  have hjb : ∀ b, b < f.mesh.ndim → j.getD b 0 < f.mesh.nAt b := fun b hb =>
    inRange_getD _ _ hj b (by rw [inv_n_length hf.1]; exact hb)
  have hkn : ∀ b, k.mesh.nAt b = f.mesh.nAt b := fun b => by rw [nAt_def, nAt_def, hn]
  obtain ⟨c2, c3⟩ := resample_coarsen g hgwf _ k hk r (by
    intro b hb
    rw [hkn b]; exact (hr b (by omega)).2) j (by rw [hn]; exact hj)
  rw [hgn] at c2 c3
  -- the source cell in `g` is in range, and it is a copy of cell `j` of `f`
  have hin : inRange g.mesh.n (tab f.mesh.ndim fun b => r b * j.getD b 0 + r b / 2) = true := by
    have hlen : g.mesh.n.length = f.mesh.ndim := by rw [inv_n_length hgwf.1, hgn]
    apply inRange_of_getD _ _ (by rw [hlen, tab_length])
    intro b hb
    rw [hlen] at hb
    rw [getD_tab _ _ _ _ hb]
    show _ < g.mesh.nAt b
    rw [(hr b hb).2]
    have h1 := hjb b hb
    have h2 : r b / 2 < r b := Nat.div_lt_self (hr b hb).1 (by omega)
    calc r b * j.getD b 0 + r b / 2 < r b * j.getD b 0 + r b := by omega
      _ = r b * (j.getD b 0 + 1) := by ring
      _ ≤ r b * f.mesh.nAt b := Nat.mul_le_mul_left _ (by omega)
  obtain ⟨d2, d3⟩ := resample_refine f hf n g hg r hr _ hin
  have hidx : (tab f.mesh.ndim fun b =>
      (tab f.mesh.ndim fun b => r b * j.getD b 0 + r b / 2).getD b 0 / r b) = j := by
    symm
    apply eq_tab_of_getD _ _ _ 0 hjl
    intro b hb
    rw [getD_tab _ _ _ _ hb]
    have h2 : r b / 2 < r b := Nat.div_lt_self (hr b hb).1 (by omega)
    rw [Nat.mul_add_div (hr b hb).1, Nat.div_eq_of_lt h2]
    simp
  rw [hidx] at d2 d3
  rw [c2, c3, d2, d3]
  exact ⟨rfl, rfl⟩

/-- Selecting a range and then a sub-range along the same axis equals selecting the sub-range
directly: same region (corners, names, units, tolerance), same cell counts, and every cell has
the same value and validity.  The one exception the code makes is excluded by `hup`: an upper
bound exactly on the upper face of the first selection belongs to the last kept cell there, but to
the next cell of the original mesh (a face belongs to the cell above it, except at the region
boundary). -/
theorem sel_range_range (f : Fld) (hf : FldWF f) (dim : String) (x y x' y' : Rat) (g h h' : Fld)
    (hg : selFld f dim (.range x y) = .ok (.field g))
    (hh : selFld g dim (.range x' y') = .ok (.field h))
    (hh' : selFld f dim (.range x' y') = .ok (.field h'))
    (a : Nat) (hd : f.mesh.region.dim2index dim = .ok a)
    (hup : max x' y' < g.mesh.region.hi a ∨ g.mesh.region.hi a = f.mesh.region.hi a) :
    h.mesh.region = h'.mesh.region ∧ h.mesh.n = h'.mesh.n ∧
    ∀ j, inRange h.mesh.n j = true →
      h.data.get j = h'.data.get j ∧ h.valid.get j = h'.valid.get j := by
  obtain ⟨hinv, hds, hvs⟩ := hf
  have ha := dim2index_ndim hinv hd
  have hc := inv_cell_pos hinv ha
  -- meshes of the three selections
  obtain ⟨gm, _, _, hgm, hgc⟩ := selFld_ctor f dim _ g hg
  obtain ⟨hm, _, _, hhm, hhc⟩ := selFld_ctor g dim _ h hh
  obtain ⟨hm', _, _, hhm', hhc'⟩ := selFld_ctor f dim _ h' hh'
  have egm := (mkFld_inv _ _ _ _ _ hgc).1
  have ehm := (mkFld_inv _ _ _ _ _ hhc).1
  have ehm' := (mkFld_inv _ _ _ _ _ hhc').1
  rw [← egm] at hgm; rw [← ehm] at hhm; rw [← ehm'] at hhm'
  -- first selection
  obtain ⟨a1, hd1, b1, b2, g1, g2, g3, g4, g5, g6, g7, g8, g9, ginv⟩ :=
    sel_range_shape f.mesh hinv dim x y g.mesh hgm
  rw [hd] at hd1; injection hd1 with hd1; subst hd1
  obtain ⟨_, hk, hk2⟩ := selConvert_range f.mesh hinv dim a hd x y b1 b2
  have blk : AxisBlock g.mesh f.mesh a a (f.mesh.indexAx a (min x y))
      (f.mesh.indexAx a (max x y) - f.mesh.indexAx a (min x y) + 1) :=
    ⟨g5, g7, g8, by omega⟩
  have hdg : g.mesh.region.dim2index dim = .ok a := by
    rw [dim2index_congr _ _ g2]; exact hd
  -- second selection, on g
  obtain ⟨a2, hd2, c1, c2, s1, s2, s3, s4, s5, s6, s7, s8, s9, sinv⟩ :=
    sel_range_shape g.mesh ginv dim x' y' h.mesh hhm
  rw [hdg] at hd2; injection hd2 with hd2; subst hd2
  -- direct selection, on f
  obtain ⟨a3, hd3, d1, d2, t1, t2, t3, t4, t5, t6, t7, t8, t9, tinv⟩ :=
    sel_range_shape f.mesh hinv dim x' y' h'.mesh hhm'
  rw [hd] at hd3; injection hd3 with hd3; subst hd3
  have hmm : min x' y' ≤ max x' y' := le_trans (min_le_left _ _) (le_max_left _ _)
  have i1 : f.mesh.indexAx a (min x' y') = f.mesh.indexAx a (min x y) + g.mesh.indexAx a (min x' y') :=
    indexAx_block blk (by omega) hc _ c1 (le_trans hmm c2) (by
      rcases hup with h | h
      · exact Or.inl (lt_of_le_of_lt hmm h)
      · exact Or.inr h)
  have i2 : f.mesh.indexAx a (max x' y') = f.mesh.indexAx a (min x y) + g.mesh.indexAx a (max x' y') :=
    indexAx_block blk (by omega) hc _ (le_trans c1 hmm) c2 hup
  have hgk := indexAx_mono g.mesh a _ _ (by rw [g8]; exact hc) hmm
  have hndh : h.mesh.ndim = h'.mesh.ndim := by rw [s1, t1, g1]
  have hax : ∀ b, b < h'.mesh.ndim →
      h.mesh.region.lo b = h'.mesh.region.lo b ∧ h.mesh.region.hi b = h'.mesh.region.hi b ∧
      h.mesh.nAt b = h'.mesh.nAt b := by
    intro b hb
    by_cases hba : b = a
    · subst hba
      refine ⟨?_, ?_, ?_⟩
      · rw [s5, t5, g5, g8, i1]; push_cast; ring
      · rw [s6, t6, g5, g8, i2]; push_cast; ring
      · rw [s7, t7, i1, i2]; omega
    · obtain ⟨u1, u2, u3, _⟩ := s9 b (by rw [g1, ← t1]; exact hb) hba
      obtain ⟨v1, v2, v3, _⟩ := g9 b (by rw [← t1]; exact hb) hba
      obtain ⟨w1, w2, w3, _⟩ := t9 b (by rw [← t1]; exact hb) hba
      exact ⟨by rw [u1, v1, w1], by rw [u2, v2, w2], by rw [u3, v3, w3]⟩
  have hn : h.mesh.n = h'.mesh.n := by
    apply list_ext_getD _ _ 0 (by rw [inv_n_length sinv, inv_n_length tinv, hndh])
    intro b hb
    exact (hax b (by rw [inv_n_length sinv, hndh] at hb; exact hb)).2.2
  refine ⟨?_, hn, ?_⟩
  · exact region_ext _ _ hndh (inv_pmax_length tinv) (by rw [inv_pmax_length sinv]; exact hndh)
      (fun b hb => (hax b hb).1) (fun b hb => (hax b hb).2.1)
      (by rw [s2, t2, g2]) (by rw [s3, t3, g3]) (by rw [s4, t4, g4])
  · intro j hj
    obtain ⟨a4, hd4, p4⟩ := sel_range_pointwise g ginv dim x' y' h hh
    rw [hdg] at hd4; injection hd4 with hd4; subst hd4
    obtain ⟨a5, hd5, p5⟩ := sel_range_pointwise f hinv dim x' y' h' hh'
    rw [hd] at hd5; injection hd5 with hd5; subst hd5
    obtain ⟨a6, hd6, p6⟩ := sel_range_pointwise f hinv dim x y g hg
    rw [hd] at hd6; injection hd6 with hd6; subst hd6
    obtain ⟨_, e2, e3⟩ := p4 j hj
    obtain ⟨_, e5, e6⟩ := p5 j (by rw [← hn]; exact hj)
    have hjl : j.length = f.mesh.ndim := by
      rw [inRange_length _ _ hj, inv_n_length sinv, s1, g1]
    have hjb : ∀ b, b < f.mesh.ndim → j.getD b 0 < h.mesh.nAt b := fun b hb =>
      inRange_getD _ _ hj b (by rw [inv_n_length sinv, s1, g1]; exact hb)
    have hin : inRange g.mesh.n (setAt j a (j.getD a 0 + g.mesh.indexAx a (min x' y'))) = true := by
      apply inRange_of_getD _ _ (by rw [length_setAt, hjl, inv_n_length ginv, g1])
      intro b hb
      rw [inv_n_length ginv, g1] at hb
      show _ < g.mesh.nAt b
      by_cases hba : b = a
      · subst hba
        rw [getD_setAt_eq _ _ _ _ (by omega)]
        have := hjb b hb
        rw [s7] at this
        have := indexAx_lt g.mesh b (max x' y') (inv_n_pos ginv (by omega))
        omega
      · rw [getD_setAt_ne _ _ _ _ _ hba]
        have := hjb b hb
        rw [(s9 b (by omega) hba).2.2.1] at this
        exact this
    obtain ⟨_, e8, e9⟩ := p6 _ hin
    have hidx : setAt (setAt j a (j.getD a 0 + g.mesh.indexAx a (min x' y'))) a
        ((setAt j a (j.getD a 0 + g.mesh.indexAx a (min x' y'))).getD a 0 + f.mesh.indexAx a (min x y))
        = setAt j a (j.getD a 0 + f.mesh.indexAx a (min x' y')) := by
      rw [setAt_setAt, getD_setAt_eq _ _ _ _ (by omega), i1]
      congr 1; omega
    rw [hidx] at e8 e9
    rw [e2, e3, e5, e6, e8, e9]
    exact ⟨rfl, rfl⟩

/-- The pad / crop round trip is always possible: after any accepted `pad` of a well-formed field
in constructor state, extracting the original region is accepted (for every mode). -/
theorem pad_crop_accepts (f : Fld) (hf : FldWF f) (hmeta : MetaInv f) (pw : List PadW)
    (hnd : (pw.map (·.dim)).Nodup) (mode : PadMode) (g : Fld) (hg : padFld f pw mode = .ok g) :
    ∃ h, getItem g (.region f.mesh.region) = .ok h := by
  have hgwf := op_wf f hf (.pad pw mode) hnd g hg
  obtain ⟨_, _, hginv⟩ := op_meta_passthrough f hmeta (.pad pw mode) g hg
  obtain ⟨p1, p2, _, _⟩ := padFld_inv f hf pw hnd mode g hg
  have hal := pad_source_aligned f.mesh hf.1 pw (fun b _ => (p2 b).1) (fun b _ => (p2 b).2) g.mesh p1
  exact (getitem_region_accepts g hgwf (metaInv_ok g hginv).1 f.mesh.region
    (boxIn_of_aligned g.mesh hgwf.1 _ _ _ hal) hal.2.1).2

/-- One plane selection, everything at once (auxiliary for the commutation law): the result is a
well-formed field on the mesh with the axis removed (names, units, tolerance, per-axis corners,
counts and cell sizes of the kept axes), and result cell `j` is source cell `insertAt j α k`,
an in-range cell of the source. -/
theorem sel_plane_facts (F : Fld) (hF : FldWF F) (d : String) (α : Nat) (hd : F.mesh.region.dim2index d = .ok α)
    (ξ : Rat) (G : Fld) (e : selFld F d (.point ξ) = .ok (.field G)) :
    FldWF G ∧ G.mesh.ndim = F.mesh.ndim - 1 ∧ 2 ≤ F.mesh.ndim ∧
    G.mesh.region.dims = removeAt F.mesh.region.dims α ∧ G.mesh.region.units = removeAt F.mesh.region.units α ∧
    G.mesh.region.tol = F.mesh.region.tol ∧
    (∀ b, b < G.mesh.ndim →
      G.mesh.region.lo b = F.mesh.region.lo (skip α b) ∧ G.mesh.region.hi b = F.mesh.region.hi (skip α b) ∧
      G.mesh.nAt b = F.mesh.nAt (skip α b) ∧ G.mesh.cellAt b = F.mesh.cellAt (skip α b)) ∧
    ∀ j, inRange G.mesh.n j = true →
      inRange F.mesh.n (insertAt j α (F.mesh.indexAx α ξ)) = true ∧
      G.data.get j = F.data.get (insertAt j α (F.mesh.indexAx α ξ)) ∧
      G.valid.get j = F.valid.get (insertAt j α (F.mesh.indexAx α ξ)) := by
  have hwf := op_wf F hF (.sel d (.point ξ)) trivial G (by simp only [applyOp, e])
  obtain ⟨gm, _, _, hgm, hgc⟩ := selFld_ctor F d _ G e
  have egm := (mkFld_inv _ _ _ _ _ hgc).1
  rw [← egm] at hgm
  obtain ⟨α', hd', x1, x2, hpt⟩ := sel_plane_pointwise F hF.1 d ξ G e
  rw [hd] at hd'; injection hd' with hd'; subst hd'
  have hconv := (selConvert_point F.mesh hF.1 d α hd ξ x1 x2).1
  obtain ⟨s1, s2, s3, s4, s5, s6, _⟩ := sel_plane_shape F.mesh hF.1 d _ α _ _ hconv G.mesh hgm
  refine ⟨hwf, s1, s2, s3, s4, s5, s6, ?_⟩
  intro j hj
  obtain ⟨p1, p2, p3⟩ := hpt j hj
  refine ⟨?_, p2, p3⟩
  obtain ⟨_, _, hi⟩ := point2index_inv F.mesh _ _ p1
  rw [hi]
  apply inRange_of_getD _ _ (by rw [tab_length, inv_n_length hF.1])
  intro b hb
  rw [inv_n_length hF.1] at hb
  rw [getD_tab _ _ _ _ hb]
  exact indexAx_lt F.mesh b _ (inv_n_pos hF.1 hb)

/-- The commutation law for `a < b` (the general case follows by symmetry): after removing axis
`a` the second axis has position `b - 1`, after removing `b` the first keeps position `a`. -/
theorem sel_plane_comm_lt (f : Fld) (hf : FldWF f) (da db : String) (a b : Nat) (hab : a < b)
    (hda : f.mesh.region.dim2index da = .ok a) (hdb : f.mesh.region.dim2index db = .ok b) (x y : Rat)
    (g1 h1 g2 h2 : Fld)
    (e1 : selFld f da (.point x) = .ok (.field g1)) (e2 : selFld g1 db (.point y) = .ok (.field h1))
    (e3 : selFld f db (.point y) = .ok (.field g2)) (e4 : selFld g2 da (.point x) = .ok (.field h2)) :
    h1.mesh.region = h2.mesh.region ∧ h1.mesh.n = h2.mesh.n ∧
    ∀ j, inRange h1.mesh.n j = true →
      h1.data.get j = h2.data.get j ∧ h1.valid.get j = h2.valid.get j := by
  have hb := dim2index_ndim hf.1 hdb
  have hdl := inv_dims_length hf.1
  obtain ⟨w1, n1, _, d1, u1, t1, ax1, pt1⟩ := sel_plane_facts f hf da a hda x g1 e1
  obtain ⟨w3, n3, _, d3, u3, t3, ax3, pt3⟩ := sel_plane_facts f hf db b hdb y g2 e3
  have hdb1 : g1.mesh.region.dim2index db = .ok (b - 1) := by
    have := dim2index_removeAt f.mesh.region g1.mesh.region db a b hdb (by omega) (by omega) d1
    rwa [if_neg (by omega)] at this
  have hda2 : g2.mesh.region.dim2index da = .ok a := by
    have := dim2index_removeAt f.mesh.region g2.mesh.region da b a hda (by omega) (by omega) d3
    rwa [if_pos hab] at this
  obtain ⟨w2, n2, h3dim, d2, u2, t2, ax2, pt2⟩ := sel_plane_facts g1 w1 db (b - 1) hdb1 y h1 e2
  obtain ⟨w4, n4, _, d4, u4, t4, ax4, pt4⟩ := sel_plane_facts g2 w3 da a hda2 x h2 e4
  have hs1 : skip a (b - 1) = b := by unfold skip; split <;> omega
  have hs2 : skip b a = a := by unfold skip; split <;> omega
  -- the two layers have the same index whether looked up before or after the other selection
  have k1 : g1.mesh.indexAx (b - 1) y = f.mesh.indexAx b y := by
    obtain ⟨q1, _, q3, q4⟩ := ax1 (b - 1) (by omega)
    rw [hs1] at q1 q3 q4
    exact indexAx_congr _ _ _ _ q1 q3 q4 y
  have k2 : g2.mesh.indexAx a x = f.mesh.indexAx a x := by
    obtain ⟨q1, _, q3, q4⟩ := ax3 a (by omega)
    rw [hs2] at q1 q3 q4
    exact indexAx_congr _ _ _ _ q1 q3 q4 x
  have hnd : h1.mesh.ndim = h2.mesh.ndim := by omega
  have hax : ∀ c, c < h2.mesh.ndim →
      h1.mesh.region.lo c = h2.mesh.region.lo c ∧ h1.mesh.region.hi c = h2.mesh.region.hi c ∧
      h1.mesh.nAt c = h2.mesh.nAt c := by
    intro c hc
    obtain ⟨q1, q2, q3, _⟩ := ax2 c (by omega)
    obtain ⟨r1, r2, r3, _⟩ := ax1 (skip (b - 1) c) (skip_lt _ _ _ (by omega) (by omega))
    obtain ⟨q1', q2', q3', _⟩ := ax4 c hc
    obtain ⟨r1', r2', r3', _⟩ := ax3 (skip a c) (skip_lt _ _ _ (by omega) (by omega))
    rw [skip_skip a b c hab] at r1 r2 r3
    exact ⟨by rw [q1, r1, q1', r1'], by rw [q2, r2, q2', r2'], by rw [q3, r3, q3', r3']⟩
  have hn : h1.mesh.n = h2.mesh.n := by
    apply list_ext_getD _ _ 0 (by rw [inv_n_length w2.1, inv_n_length w4.1, hnd])
    intro c hc
    exact (hax c (by rw [inv_n_length w2.1, hnd] at hc; exact hc)).2.2
  refine ⟨?_, hn, ?_⟩
  · apply region_ext _ _ hnd (inv_pmax_length w4.1) (by rw [inv_pmax_length w2.1]; exact hnd)
      (fun c hc => (hax c hc).1) (fun c hc => (hax c hc).2.1)
    · rw [d2, d1, d4, d3]; exact removeAt_comm _ a b "" hab (by omega)
    · rw [u2, u1, u4, u3]
      exact removeAt_comm _ a b "" hab (by rw [inv_units_length hf.1]; exact hb)
    · rw [t2, t1, t4, t3]
  · intro j hj
    have hjl : j.length = f.mesh.ndim - 2 := by
      rw [inRange_length _ _ hj, inv_n_length w2.1]; omega
    obtain ⟨i2, v2, m2⟩ := pt2 j hj
    obtain ⟨_, v1, m1⟩ := pt1 _ i2
    obtain ⟨i4, v4, m4⟩ := pt4 j (by rw [← hn]; exact hj)
    obtain ⟨_, v3, m3⟩ := pt3 _ i4
    have hcomm := insertAt_comm j a (b - 1) (f.mesh.indexAx a x) (f.mesh.indexAx b y) (by omega) (by omega)
    have hb1 : b - 1 + 1 = b := by omega
    rw [hb1] at hcomm
    rw [v2, v1, m2, m1, v4, v3, m4, m3, k1, k2, hcomm]
    exact ⟨rfl, rfl⟩

/-- Plane selections along different axes commute: selecting the plane `da = x` and then
`db = y` gives the same field as `db = y` first and `da = x` second — same region (corners,
names, units, tolerance), same cell counts, every cell the same value and validity. -/
theorem sel_plane_comm (f : Fld) (hf : FldWF f) (da db : String) (a b : Nat) (hab : a ≠ b)
    (hda : f.mesh.region.dim2index da = .ok a) (hdb : f.mesh.region.dim2index db = .ok b) (x y : Rat)
    (g1 h1 g2 h2 : Fld)
    (e1 : selFld f da (.point x) = .ok (.field g1)) (e2 : selFld g1 db (.point y) = .ok (.field h1))
    (e3 : selFld f db (.point y) = .ok (.field g2)) (e4 : selFld g2 da (.point x) = .ok (.field h2)) :
    h1.mesh.region = h2.mesh.region ∧ h1.mesh.n = h2.mesh.n ∧
    ∀ j, inRange h1.mesh.n j = true →
      h1.data.get j = h2.data.get j ∧ h1.valid.get j = h2.valid.get j := by
  rcases Nat.lt_or_gt_of_ne hab with hlt | hgt
  · exact sel_plane_comm_lt f hf da db a b hlt hda hdb x y g1 h1 g2 h2 e1 e2 e3 e4
  · obtain ⟨r1, r2, r3⟩ := sel_plane_comm_lt f hf db da b a hgt hdb hda y x g2 h2 g1 h1 e3 e4 e1 e2
    refine ⟨r1.symm, r2.symm, ?_⟩
    intro j hj
    obtain ⟨q1, q2⟩ := r3 j (by rw [r2]; exact hj)
    exact ⟨q1.symm, q2.symm⟩

/-- Selecting the whole extent of an axis as a range is the identity on geometry and content:
`field.sel(d=(pmin_d, pmax_d))` has the same region and cell counts, and every cell keeps its value
and validity.  (The boundary condition is dropped by `Mesh.sel`.) -/
theorem sel_range_whole_id (f : Fld) (hf : FldWF f) (dim : String) (a : Nat)
    (hd : f.mesh.region.dim2index dim = .ok a) (g : Fld)
    (h : selFld f dim (.range (f.mesh.region.lo a) (f.mesh.region.hi a)) = .ok (.field g)) :
    g.mesh.region = f.mesh.region ∧ g.mesh.n = f.mesh.n ∧
    ∀ j, inRange f.mesh.n j = true → g.data.get j = f.data.get j ∧ g.valid.get j = f.valid.get j := by
  obtain ⟨hinv, hds, hvs⟩ := hf
  have ha := dim2index_ndim hinv hd
  have hlt := inv_lo_lt_hi hinv ha
  have hc := inv_cell_pos hinv ha
  have hn := inv_n_pos hinv ha
  have hmin : min (f.mesh.region.lo a) (f.mesh.region.hi a) = f.mesh.region.lo a := min_eq_left hlt.le
  have hmax : max (f.mesh.region.lo a) (f.mesh.region.hi a) = f.mesh.region.hi a := max_eq_right hlt.le
  have k1 : f.mesh.indexAx a (f.mesh.region.lo a) = 0 :=
    indexAx_eq_of_bounds f.mesh a _ 0 hn hc (by simp) (by push_cast; linarith)
  have k2 : f.mesh.indexAx a (f.mesh.region.hi a) = f.mesh.nAt a - 1 := indexAx_hi f.mesh a hn hc
  obtain ⟨gm, _, _, hgm, hgc⟩ := selFld_ctor f dim _ g h
  have egm := (mkFld_inv _ _ _ _ _ hgc).1
  rw [← egm] at hgm
  obtain ⟨a', hd', _, _, s1, s2, s3, s4, s5, s6, s7, s8, s9, sinv⟩ :=
    sel_range_shape f.mesh hinv dim _ _ g.mesh hgm
  rw [hd] at hd'; injection hd' with hd'; subst hd'
  rw [hmin, k1] at s5 s7
  rw [hmax, k2] at s6 s7
  have hcast : ((f.mesh.nAt a - 1 : Nat) : Rat) = (f.mesh.nAt a : Rat) - 1 := by
    push_cast [Nat.cast_sub (by omega : 1 ≤ f.mesh.nAt a)]; ring
  have hax : ∀ b, b < f.mesh.ndim →
      g.mesh.region.lo b = f.mesh.region.lo b ∧ g.mesh.region.hi b = f.mesh.region.hi b ∧
      g.mesh.nAt b = f.mesh.nAt b := by
    intro b hb
    by_cases hba : b = a
    · subst hba
      refine ⟨by rw [s5]; simp, ?_, by rw [s7]; omega⟩
      rw [s6, hcast, hi_eq f.mesh b hn]; ring
    · obtain ⟨u1, u2, u3, _⟩ := s9 b hb hba
      exact ⟨u1, u2, u3⟩
  have hgn : g.mesh.n = f.mesh.n := by
    apply list_ext_getD _ _ 0 (by rw [inv_n_length sinv, inv_n_length hinv, s1])
    intro b hb
    exact (hax b (by rw [inv_n_length sinv, s1] at hb; exact hb)).2.2
  refine ⟨?_, hgn, ?_⟩
  · exact region_ext _ _ s1 (inv_pmax_length hinv) (by rw [inv_pmax_length sinv]; exact s1)
      (fun b hb => (hax b hb).1) (fun b hb => (hax b hb).2.1) s2 s3 s4
  · intro j hj
    obtain ⟨a', hd', hpt⟩ := sel_range_pointwise f hinv dim _ _ g h
    rw [hd] at hd'; injection hd' with hd'; subst hd'
    obtain ⟨_, p2, p3⟩ := hpt j (by rw [hgn]; exact hj)
    rw [hmin, k1] at p2 p3
    have hjl : j.length = f.mesh.ndim := by rw [inRange_length _ _ hj, inv_n_length hinv]
    have hidx : setAt j a (j.getD a 0 + 0) = j := by
      apply list_ext_getD _ _ 0 (length_setAt _ _ _)
      intro b hb
      by_cases hba : b = a
      · subst hba
        rw [getD_setAt_eq _ _ _ _ (by omega)]; simp
      · rw [getD_setAt_ne _ _ _ _ _ hba]
    rw [hidx] at p2 p3
    exact ⟨p2, p3⟩

/-- Padding by nothing (an empty dictionary, or zero widths on every named axis) is the identity
on geometry and content, in every mode: same region, same cell counts, every cell keeps value and
validity. -/
theorem pad_zero_id (f : Fld) (hf : FldWF f) (pw : List PadW) (hnd : (pw.map (·.dim)).Nodup)
    (hz : ∀ b, sumW f.mesh (·.lo) pw b = 0 ∧ sumW f.mesh (·.hi) pw b = 0)
    (mode : PadMode) (g : Fld) (h : padFld f pw mode = .ok g) :
    g.mesh.region = f.mesh.region ∧ g.mesh.n = f.mesh.n ∧
    ∀ j, inRange f.mesh.n j = true → g.data.get j = f.data.get j ∧ g.valid.get j = f.valid.get j := by
  obtain ⟨p1, p2, _, _⟩ := padFld_inv f hf pw hnd mode g h
  obtain ⟨e1, e2, e3, e4, e5, _, e7, e8⟩ :=
    padMesh_inv f.mesh hf.1 pw (fun b _ => (p2 b).1) (fun b _ => (p2 b).2) g.mesh p1
  have hax : ∀ b, b < f.mesh.ndim →
      g.mesh.region.lo b = f.mesh.region.lo b ∧ g.mesh.region.hi b = f.mesh.region.hi b ∧
      g.mesh.nAt b = f.mesh.nAt b := by
    intro b hb
    obtain ⟨h1, h2, h3, _⟩ := e8 b hb
    rw [(hz b).1] at h1 h2
    rw [(hz b).2] at h1 h3
    exact ⟨by rw [h2]; simp, by rw [h3]; simp, by rw [h1]; simp⟩
  have hgn : g.mesh.n = f.mesh.n := by
    apply list_ext_getD _ _ 0 (by rw [e2, inv_n_length hf.1])
    intro b hb
    exact (hax b (by rw [e2] at hb; exact hb)).2.2
  refine ⟨?_, hgn, ?_⟩
  · exact region_ext _ _ e1 (inv_pmax_length hf.1) e7 (fun b hb => (hax b hb).1)
      (fun b hb => (hax b hb).2.1) e3 e4 e5
  · intro j hj
    have hjl : j.length = f.mesh.ndim := by rw [inRange_length _ _ hj, inv_n_length hf.1]
    obtain ⟨_, r2, r3⟩ := pad_inside_pointwise f hf pw hnd mode g h j (by
      intro b hb
      rw [(hz b).1]
      have := inRange_getD _ _ hj b (by rw [inv_n_length hf.1]; exact hb)
      simp only [Int.toNat_zero, Nat.zero_le, Nat.zero_add, true_and]
      exact this)
    have hidx : (tab f.mesh.ndim fun b => j.getD b 0 - (sumW f.mesh (·.lo) pw b).toNat) = j := by
      symm
      apply eq_tab_of_getD _ _ _ 0 hjl
      intro b _
      rw [(hz b).1]; simp
    rw [hidx] at r2 r3
    exact ⟨r2, r3⟩

/-- Extracting a region and then a sub-region equals extracting the sub-region directly:
`field[r1][r2]` and `field[r2]` have the same region (corners, names, units, tolerance), the same
cell counts, and the same value and validity in every cell — for every box `r2` inside the block
returned for `r1` (no exception at the faces: lower bounds use `floor`, upper bounds `ceil - 1`,
and both shift with the block's offset). -/
theorem getitem_getitem (f : Fld) (hf : FldWF f) (r1 r2 : Region) (hb1 : BoxIn f.mesh r1)
    (g h h' : Fld) (hg : getItem f (.region r1) = .ok g) (hb2 : BoxIn g.mesh r2)
    (hh : getItem g (.region r2) = .ok h) (hh' : getItem f (.region r2) = .ok h') :
    h.mesh.region = h'.mesh.region ∧ h.mesh.n = h'.mesh.n ∧
    ∀ j, inRange h.mesh.n j = true →
      h.data.get j = h'.data.get j ∧ h.valid.get j = h'.valid.get j := by
  obtain ⟨hgm, hgpt⟩ := getitem_region_pointwise f hf r1 hb1 g hg
  obtain ⟨e1, e2, e3, e4, e5, e6, _, _, e9⟩ := getRegion_inv f.mesh hf.1 r1 hb1 g.mesh hgm
  have gwf : FldWF g := op_wf f hf (.get (.region r1)) hb1 g hg
  have blk : ∀ b, b < f.mesh.ndim → AxisBlock g.mesh f.mesh b b (blockLo f.mesh r1 b)
      (blockHi f.mesh r1 b - blockLo f.mesh r1 b + 1) := fun b hb => (e9 b hb).2.2.2
  -- r2 is inside f's region as well
  have hb2' : BoxIn f.mesh r2 := by
    refine ⟨by rw [hb2.1, e1], ?_⟩
    intro b hb
    obtain ⟨c1, c2, c3⟩ := hb2.2 b (by rw [e1]; exact hb)
    have bb := blk b hb
    have hc := inv_cell_pos hf.1 hb
    have hhi := block_hi bb (by omega)
    have h0 : (0 : Rat) ≤ (blockLo f.mesh r1 b : Rat) := by exact_mod_cast Nat.zero_le _
    have hfit : ((blockLo f.mesh r1 b : Rat) + ((blockHi f.mesh r1 b - blockLo f.mesh r1 b + 1 : Nat) : Rat))
        ≤ (f.mesh.nAt b : Rat) := by exact_mod_cast bb.fits
    refine ⟨?_, c2, ?_⟩
    · rw [bb.lo] at c1; nlinarith
    · rw [hhi] at c3
      rw [hi_eq f.mesh b (inv_n_pos hf.1 hb)]
      nlinarith
  obtain ⟨hhm, hhpt⟩ := getitem_region_pointwise g gwf r2 hb2 h hh
  obtain ⟨hhm', hhpt'⟩ := getitem_region_pointwise f hf r2 hb2' h' hh'
  obtain ⟨a1, a2, a3, a4, a5, a6, _, _, a9⟩ := getRegion_inv g.mesh gwf.1 r2 hb2 h.mesh hhm
  obtain ⟨b1, b2, b3, b4, b5, b6, _, _, b9⟩ := getRegion_inv f.mesh hf.1 r2 hb2' h'.mesh hhm'
  -- the two covering blocks have the same cells
  have hlo : ∀ b, b < f.mesh.ndim → blockLo f.mesh r2 b = blockLo f.mesh r1 b + blockLo g.mesh r2 b := by
    intro b hb
    obtain ⟨c1, c2, c3⟩ := hb2.2 b (by rw [e1]; exact hb)
    exact indexAx_block (blk b hb) (by omega) (inv_cell_pos hf.1 hb) _ c1 (by linarith)
      (Or.inl (lt_of_lt_of_le c2 c3))
  have hhi : ∀ b, b < f.mesh.ndim → blockHi f.mesh r2 b = blockLo f.mesh r1 b + blockHi g.mesh r2 b := by
    intro b hb
    have u := upperIdx_block (blk b hb) (inv_cell_pos hf.1 hb) (r2.hi b)
    rw [(b9 b hb).2.2.1, (a9 b (by rw [e1]; exact hb)).2.2.1] at u
    exact_mod_cast u
  have hnd : h.mesh.ndim = h'.mesh.ndim := by rw [a1, b1, e1]
  have hax : ∀ b, b < h'.mesh.ndim →
      h.mesh.region.lo b = h'.mesh.region.lo b ∧ h.mesh.region.hi b = h'.mesh.region.hi b ∧
      h.mesh.nAt b = h'.mesh.nAt b := by
    intro b hb
    rw [b1] at hb
    obtain ⟨l1, _, _, ab⟩ := a9 b (by rw [e1]; exact hb)
    obtain ⟨l2, _, _, bb⟩ := b9 b hb
    have gb := blk b hb
    have hcnt : blockHi g.mesh r2 b - blockLo g.mesh r2 b + 1 = blockHi f.mesh r2 b - blockLo f.mesh r2 b + 1 := by
      rw [hlo b hb, hhi b hb]; omega
    refine ⟨?_, ?_, ?_⟩
    · rw [ab.lo, bb.lo, gb.lo, gb.cell, hlo b hb]; push_cast; ring
    · rw [block_hi ab (by omega), block_hi bb (by omega), gb.lo, gb.cell, hcnt, hlo b hb]; push_cast; ring
    · rw [ab.n, bb.n, hcnt]
  have hn : h.mesh.n = h'.mesh.n := by
    apply list_ext_getD _ _ 0 (by rw [a2, b2, e1])
    intro b hb
    exact (hax b (by rw [a2, e1, ← b1] at hb; exact hb)).2.2
  refine ⟨?_, hn, ?_⟩
  · exact region_ext _ _ hnd (by rw [b6]; exact b1.symm) (by rw [a6, e1]; exact b1.symm)
      (fun b hb => (hax b hb).1) (fun b hb => (hax b hb).2.1)
      (by rw [a3, b3, e3]) (by rw [a4, b4, e4]) (by rw [a5, b5, e5])
  · intro j hj
    obtain ⟨_, p2, p3⟩ := hhpt j hj
    obtain ⟨_, q2, q3⟩ := hhpt' j (by rw [← hn]; exact hj)
    have hin : inRange g.mesh.n (tab g.mesh.ndim fun b => blockLo g.mesh r2 b + j.getD b 0) = true := by
      apply inRange_of_getD _ _ (by rw [tab_length, e2, e1])
      intro b hb
      rw [e2] at hb
      rw [getD_tab _ _ _ _ (by rw [e1]; exact hb)]
      have ab := (a9 b (by rw [e1]; exact hb)).2.2.2
      have hjb : j.getD b 0 < h.mesh.nAt b := inRange_getD _ _ hj b (by rw [a2, e1]; exact hb)
      rw [ab.n] at hjb
      have := ab.fits
      show _ < g.mesh.nAt b
      omega
    obtain ⟨_, r2', r3'⟩ := hgpt _ hin
    have hidx : (tab f.mesh.ndim fun b => blockLo f.mesh r1 b +
        (tab g.mesh.ndim fun b => blockLo g.mesh r2 b + j.getD b 0).getD b 0)
        = tab f.mesh.ndim fun b => blockLo f.mesh r2 b + j.getD b 0 := by
      apply tab_congr
      intro b hb
      rw [getD_tab _ _ _ _ (by rw [e1]; exact hb), hlo b hb]; omega
    rw [hidx] at r2' r3'
    rw [p2, p3, q2, q3, r2', r3']
    exact ⟨rfl, rfl⟩

/-! ## Further refusals; plane selection of a 1-d field -/

/-- Malformed padding requests are refused: an axis name the region does not have is refused by
`Mesh.pad` and `Field.pad`; a negative width is refused by `Field.pad` (numpy refuses it), in
every mode. -/
theorem pad_rejects (f : Fld) (pw : List PadW) (mode : PadMode) :
    ((∃ w, w ∈ pw ∧ ∀ a, f.mesh.region.dim2index w.dim ≠ .ok a) →
      (∃ e, padMesh f.mesh pw = .error e) ∧ ∃ e, padFld f pw mode = .error e) ∧
    ((∃ w, w ∈ pw ∧ (w.lo < 0 ∨ w.hi < 0)) → ∃ e, padFld f pw mode = .error e) := by
  constructor
  · intro hbad
    constructor
    · obtain ⟨e, he⟩ := padCorners_unknown f.mesh pw f.mesh.region.pmin f.mesh.region.pmax hbad
      exact ⟨e, by unfold padMesh; rw [he]⟩
    · obtain ⟨e, he⟩ := padAxes_unknown f.mesh pw hbad
      exact ⟨e, by unfold padFld; rw [he]⟩
  · rintro ⟨w, hw, hneg⟩
    unfold padFld
    cases hd : padAxes f.mesh pw with
    | error e => exact ⟨e, rfl⟩
    | ok d =>
      simp only
      obtain ⟨a, ha⟩ := padAxes_mem f.mesh pw d hd w hw
      have : (d.any fun e => decide (e.2.1 < 0) || decide (e.2.2 < 0)) = true := by
        rw [List.any_eq_true]
        refine ⟨_, ha, ?_⟩
        rcases hneg with h | h <;> simp [h]
      rw [if_pos this]
      exact ⟨_, rfl⟩

/-- A box of the wrong dimension, or one that sticks out of the region on some axis by more than
the region's comparison tolerance (`atol + rtol·|x|` of `Region.__contains__`), is refused by
`mesh[region]` and `field[region]`; `region2slices` refuses a box of the wrong dimension. -/
theorem getitem_region_rejected (f : Fld) (item : Region)
    (hbad : item.ndim ≠ f.mesh.ndim ∨
      (∃ a, a < f.mesh.ndim ∧ item.lo a < f.mesh.region.lo a ∧
        f.mesh.region.atol + f.mesh.region.tol * absR (item.lo a) < f.mesh.region.lo a - item.lo a) ∨
      (∃ a, a < f.mesh.ndim ∧ f.mesh.region.hi a < item.hi a ∧
        f.mesh.region.atol + f.mesh.region.tol * absR (item.hi a) < item.hi a - f.mesh.region.hi a)) :
    (∃ e, getMesh f.mesh (.region item) = .error e) ∧ (∃ e, getItem f (.region item) = .error e) ∧
    (item.ndim ≠ f.mesh.ndim → ∃ e, region2slices f.mesh item = .error e) := by
  have hc : f.mesh.region.containsReg item = false := by
    unfold Region.containsReg
    rcases hbad with h | ⟨a, ha, h1, h2⟩ | ⟨a, ha, h1, h2⟩
    · have : f.mesh.region.containsPt item.pmin = false := by
        unfold Region.containsPt
        have : decide (item.pmin.length = f.mesh.region.ndim) = false := by
          rw [decide_eq_false_iff_not]; exact h
        rw [this]; rfl
      rw [this]; rfl
    · have : f.mesh.region.containsPt item.pmin = false := by
        unfold Region.containsPt
        have hax : f.mesh.region.containsAx a (item.pmin.getD a 0) = false := by
          unfold Region.containsAx Region.isclose
          have e1 : decide (f.mesh.region.lo a ≤ item.pmin.getD a 0) = false := by
            rw [decide_eq_false_iff_not]; exact not_le.mpr h1
          have e2 : decide (absR (f.mesh.region.lo a - item.pmin.getD a 0)
              ≤ f.mesh.region.atol + f.mesh.region.tol * absR (item.pmin.getD a 0)) = false := by
            rw [decide_eq_false_iff_not, absR_eq_abs, abs_of_pos (by
              show 0 < f.mesh.region.lo a - item.lo a; linarith)]
            exact not_le.mpr h2
          rw [e1, e2]; rfl
        rw [allLt_false_of f.mesh.region.ndim (fun a => f.mesh.region.containsAx a (item.pmin.getD a 0)) a ha hax,
          Bool.and_false]
      rw [this]; rfl
    · have : f.mesh.region.containsPt item.pmax = false := by
        unfold Region.containsPt
        have hax : f.mesh.region.containsAx a (item.pmax.getD a 0) = false := by
          unfold Region.containsAx Region.isclose
          have e1 : decide (item.pmax.getD a 0 ≤ f.mesh.region.hi a) = false := by
            rw [decide_eq_false_iff_not]; exact not_le.mpr h1
          have e2 : decide (absR (f.mesh.region.hi a - item.pmax.getD a 0)
              ≤ f.mesh.region.atol + f.mesh.region.tol * absR (item.pmax.getD a 0)) = false := by
            rw [decide_eq_false_iff_not, absR_eq_abs, abs_of_neg (by
              show f.mesh.region.hi a - item.hi a < 0; linarith)]
            rw [not_le]
            have : -(f.mesh.region.hi a - item.pmax.getD a 0) = item.hi a - f.mesh.region.hi a := by
              show _ = item.pmax.getD a 0 - _; ring
            rw [this]; exact h2
          rw [e1, e2]; simp
        rw [allLt_false_of f.mesh.region.ndim (fun a => f.mesh.region.containsAx a (item.pmax.getD a 0)) a ha hax,
          Bool.and_false]
      rw [this, Bool.and_false]
  obtain ⟨r1, r2⟩ := getitem_outside_rejected f (.region item) (Or.inr ⟨item, rfl, hc⟩)
  refine ⟨r1, r2, ?_⟩
  intro hnd
  exact ⟨_, by unfold region2slices; rw [if_pos hnd]⟩

/-- Plane selection on a 1-d field returns the bare value of the cell containing the
coordinate (there is no 0-dimensional mesh to put a field on). -/
theorem sel_plane_1d_value (f : Fld) (hf : f.mesh.Inv) (h1 : f.mesh.ndim = 1) (dim : String) (a : Nat)
    (hd : f.mesh.region.dim2index dim = .ok a) (x : Rat)
    (hx1 : f.mesh.region.lo a ≤ x) (hx2 : x ≤ f.mesh.region.hi a) :
    a = 0 ∧ selFld f dim (.point x) = .ok (.values (f.data.get [f.mesh.indexAx 0 x])) := by
  have ha := dim2index_ndim hf hd
  have ha0 : a = 0 := by omega
  subst ha0
  refine ⟨rfl, ?_⟩
  have hconv := (selConvert_point f.mesh hf dim 0 hd x hx1 hx2).1
  have hmesh : ∃ e, selMesh f.mesh dim (.point x) = .error e := by
    unfold selMesh
    rw [hconv]
    show ∃ e, selPlaneMesh f.mesh 0 _ = .error e
    unfold selPlaneMesh
    cases planeSubs 0 (f.mesh.centreAx 0 ((f.mesh.indexAx 0 x : Nat) : Int)) f.mesh.subs with
    | error e => exact ⟨e, rfl⟩
    | ok subs =>
      simp only
      have hl : (removeAt f.mesh.region.pmin 0).length = 0 := by
        rw [length_removeAt _ _ (by show 0 < f.mesh.ndim; omega)]
        show f.mesh.ndim - 1 = 0; omega
      have : ∃ e, Region.mk? (removeAt f.mesh.region.pmin 0) (removeAt f.mesh.region.pmax 0)
          (some (removeAt f.mesh.region.dims 0)) (some (removeAt f.mesh.region.units 0)) f.mesh.region.tol
          = .error e := by
        unfold Region.mk?
        by_cases hne : (removeAt f.mesh.region.pmin 0).length ≠ (removeAt f.mesh.region.pmax 0).length
        · rw [if_pos hne]; exact ⟨_, rfl⟩
        · rw [if_neg hne, if_pos hl]; exact ⟨_, rfl⟩
      obtain ⟨e, he⟩ := this
      rw [he]; exact ⟨e, rfl⟩
  obtain ⟨e, he⟩ := hmesh
  unfold selFld
  rw [hconv, he]
  simp only
  rw [if_pos h1]
  rfl

/-- A plane selection of a subregion-free field in constructor state, in closed form: it is
accepted for every coordinate of the closed edge, the result lives on exactly the mesh with the
axis removed (`planeOf`), and is again a well-formed field in constructor state — so plane
selections can be iterated. -/
theorem sel_plane_result (f : Fld) (hf : FldWF f) (hmi : MetaInv f) (hs : f.mesh.subs = []) (h2 : 2 ≤ f.mesh.ndim)
    (dim : String) (a : Nat) (hd : f.mesh.region.dim2index dim = .ok a) (x : Rat)
    (h1 : f.mesh.region.lo a ≤ x) (hx2 : x ≤ f.mesh.region.hi a) :
    ∃ g, selFld f dim (.point x) = .ok (.field g) ∧ g.mesh = planeOf f.mesh a ∧ FldWF g ∧ MetaInv g := by
  obtain ⟨hm, g, hg⟩ := sel_plane_accepts f hf (metaInv_ok f hmi).1 hs h2 dim a hd x h1 hx2
  have happ : applyOp f (.sel dim (.point x)) = .ok g := by simp only [applyOp, hg]
  obtain ⟨hmesh, _⟩ := op_meta f _ g happ
  have hmesh' : selMesh f.mesh dim (.point x) = .ok g.mesh := hmesh
  rw [hm] at hmesh'
  injection hmesh' with hmesh'
  exact ⟨g, hg, hmesh'.symm, op_wf f hf (.sel dim (.point x)) trivial g happ,
    (op_meta_passthrough f hmi _ g happ).2.2⟩

/-! ## Non-vacuity: every hypothesis used above is met by a concrete field

`Ex.f0`: 4 × 2 cells of size 1 × 1 over `[0,4] × [0,2]`, tokens `10·i + j`, a chequered mask;
`Ex.f1`: the same with the subregion `a = [1,3] × [0,1]`. -/
section NonVacuity
open Ex

/-- hypotheses of `selConvert_point`, `sel_plane_accepts` (and so of `sel_plane_shape`,
`sel_plane_pointwise`): the plane `x = 5/2` of `f0` -/
example : ∃ g, selFld f0 "x" (.point (5/2)) = .ok (.field g) :=
  (sel_plane_accepts f0 f0_wf rfl rfl (by decide) "x" 0 (by decide) (5/2)
    (by norm_num [f0, m0, reg, Region.lo]) (by norm_num [f0, m0, reg, Region.hi])).2

/-- … and it is not trivial: the selected layer is cell 2, not cell 0 -/
example : f0.mesh.indexAx 0 (5/2) = 2 :=
  indexAx_eq_of_bounds f0.mesh 0 _ 2 (by decide) (inv_cell_pos f0_wf.1 (by decide))
    (by norm_num [f0, m0, reg, Region.lo, Mesh.cellAt, Mesh.nAt, Region.edge, Region.hi])
    (by norm_num [f0, m0, reg, Region.lo, Mesh.cellAt, Mesh.nAt, Region.edge, Region.hi])

/-- hypothesis of `sel_centre_pointwise`: the central plane along `y` -/
example : ∃ g, selFld f0 "y" .centre = .ok (.field g) := by
  rw [show selFld f0 "y" .centre = selFld f0 "y" (.point 1) from by
    unfold selFld selMesh
    rw [selConvert_centre f0.mesh f0_wf.1 "y" 1 (by decide)]
    norm_num [f0, m0, reg, Region.lo, Region.hi]]
  exact (sel_plane_accepts f0 f0_wf rfl rfl (by decide) "y" 1 (by decide) 1
    (by norm_num [f0, m0, reg, Region.lo]) (by norm_num [f0, m0, reg, Region.hi])).2

/-- hypotheses of `selConvert_range`, `sel_range_shape`, `sel_range_pointwise`: bounds given
in descending order -/
example : (∃ g, selMesh f0.mesh "x" (.range (7/2) (1/2)) = .ok g) ∧
    ∃ g, selFld f0 "x" (.range (7/2) (1/2)) = .ok (.field g) :=
  sel_range_accepts f0 f0_wf rfl rfl "x" 0 (by decide) (7/2) (1/2)
    (by norm_num [f0, m0, reg, Region.lo]) (by norm_num [f0, m0, reg, Region.hi])

/-- hypothesis of `sel_outside_rejected`: `x = 9/2` is outside `[0, 4]` -/
example : ∃ e, selFld f0 "x" (.point (9/2)) = .error e :=
  (sel_outside_rejected f0 "x" (.point (9/2)) (Or.inr (Or.inr (Or.inl ⟨0, 9/2, by decide, rfl,
    Or.inr (by norm_num [f0, m0, reg, Region.hi])⟩)))).2.2

/-- hypotheses of `getRegion_smallest`, `getitem_region_pointwise`: an arbitrary box -/
example : BoxIn f0.mesh box ∧ (∃ g, getRegion f0.mesh box = .ok g) ∧ ∃ g, getItem f0 (.region box) = .ok g :=
  ⟨box_in, getitem_region_accepts f0 f0_wf rfl box box_in rfl⟩

/-- hypotheses of `getRegion_aligned_exact`, `region2slices_spec`, `getitem_name_pointwise`:
the subregion `a` consists of whole cells -/
example : SubAligned f1.mesh s0 k1 k2 ∧ findSub f1.mesh.subs "a" = some s0 ∧
    ∃ g, getItem f1 (.name "a") = .ok g :=
  ⟨s0_aligned, rfl, (getitem_name_accepts f1 f1_wf rfl "a" s0 rfl k1 k2 s0_aligned).2⟩

example : region2slices m1 s0 = .ok [(1, 3), (0, 1)] :=
  (region2slices_spec m1 m1_inv s0 k1 k2 s0_aligned).1

/-- hypothesis of `getitem_outside_rejected` -/
example : ∃ e, getItem f1 (.name "b") = .error e :=
  (getitem_outside_rejected f1 (.name "b") (Or.inl ⟨"b", rfl, by decide⟩)).2

/-- hypotheses of `pad_counts`, `pad_rule`, `pad_inside_pointwise`: pad x by (1, 2), y by (0, 1) -/
example (mode : PadMode) : (pw0.map (·.dim)).Nodup ∧ (∃ g, padMesh f0.mesh pw0 = .ok g) ∧
    ∃ g, padFld f0 pw0 mode = .ok g :=
  ⟨by decide, pad_accepts f0 f0_wf rfl pw0 (by decide)
    (by
      intro w hw
      simp only [pw0, List.mem_cons, List.mem_nil_iff, or_false] at hw
      rcases hw with rfl | rfl
      · exact ⟨0, by decide⟩
      · exact ⟨1, by decide⟩)
    (by
      intro w hw
      simp only [pw0, List.mem_cons, List.mem_nil_iff, or_false] at hw
      rcases hw with rfl | rfl <;> decide)
    (by rw [show f0.mesh.bc = "" from rfl, emptyLower]; exact bcOk_empty _) mode⟩

/-- the five modes at one position: axis of 4 cells padded by 3 in front, position 0
(three cells before the source) -/
example : padSrc .constant 4 3 0 = none ∧ padSrc .edge 4 3 0 = some 0 ∧ padSrc .wrap 4 3 0 = some 1 ∧
    padSrc .symmetric 4 3 0 = some 2 ∧ padSrc .reflect 4 3 0 = some 3 := by decide

/-- hypotheses of `resample_region`, `resample_pointwise`: 4 × 2 → 2 × 3 -/
example : ∃ g, resample f0 [2, 3] = .ok g :=
  resample_accepts f0 f0_wf.1 rfl [2, 3] rfl (by decide)

/-- hypothesis of `resample_id` -/
example : ∃ g, resample f0 (f0.mesh.n.map Int.ofNat) = .ok g :=
  resample_accepts f0 f0_wf.1 rfl _ rfl (by decide)

/-- hypothesis of `resample_rejects` -/
example : ∃ e, resample f0 [2, 0] = .error e :=
  resample_rejects f0 [2, 0] (Or.inr ⟨0, by decide, by decide⟩)

/-! ### second part: metadata, subregions, composition laws, further refusals -/

/-- hypotheses of `op_meta`, `op_labels_rule`, `op_meta_passthrough`, `op_wf`, `op_subs_bc`: `f0` is
in constructor state and e.g. `resample` applies to it -/
example : MetaInv f0 ∧ OpSide f0 (.resample [2, 3]) ∧ ∃ g, applyOp f0 (.resample [2, 3]) = .ok g :=
  ⟨rfl, trivial, resample_accepts f0 f0_wf.1 rfl [2, 3] rfl (by decide)⟩

/-- hypotheses of `history_meta`, `history_meta_first`: a two-step history on `f0` -/
example : ∃ g, runOps f0 [.resample [2, 3], .resample [4, 2]] = .ok g := by
  obtain ⟨g1, hg1⟩ := resample_accepts f0 f0_wf.1 rfl [2, 3] rfl (by decide)
  have hwf := op_wf f0 f0_wf (.resample [2, 3]) trivial g1 hg1
  obtain ⟨_, _, hmi⟩ := op_meta_passthrough f0 rfl (.resample [2, 3]) g1 hg1
  obtain ⟨r1, _, _, _⟩ := resample_region f0 _ g1 hg1
  obtain ⟨g2, hg2⟩ := resample_accepts g1 hwf.1 (metaInv_ok g1 hmi).1 [4, 2]
    (by show 2 = g1.mesh.region.ndim; rw [r1]; rfl) (by decide)
  refine ⟨g2, ?_⟩
  rw [runOps_cons_ok f0 g1 (.resample [2, 3]) _ hg1, runOps_cons_ok g1 g2 (.resample [4, 2]) _ hg2]
  rfl

/-- the default-label rule of `op_labels_rule` is not vacuous: three components without labels
get `x y z` -/
example : ctorMeta { f0 with nvdim := 3 } = .ok (some ["x", "y", "z"], []) := rfl

/-- hypothesis of `op_rejects_bad_meta`: the state left by `field.vdims = []` on a labelled vector
field — no labels, mapping keyed by the old labels — is refused by the setters … -/
example : metaOk fstale = false := rfl

/-- … while the scalar variant has its one-entry mapping silently dropped -/
example : ctorMeta { f0 with vmap := [("s", "x")] } = .ok (none, []) := rfl

/-- hypotheses of `sel_plane_accepts_subs`, `sel_range_accepts_subs`, and through them of
`sel_plane_subs` / `sel_range_subs`: the mesh `m1` with its subregion of whole cells -/
example : SubsWF m1 ∧ (∃ g, selMesh m1 "x" (.point (3/2)) = .ok g) ∧
    (∃ g, selMesh m1 "x" (.range (1/2) (3/2)) = .ok g) ∧
    ∃ g, selFld f1 "x" (.range (1/2) (3/2)) = .ok (.field g) := by
  refine ⟨?_, ?_, ?_, ?_⟩
  · intro p hp
    obtain ⟨k1, k2, hal⟩ := m1_subs_aligned p hp
    obtain ⟨a1, a2, a3⟩ := aligned_wf m1 m1_inv p.2 k1 k2 hal
    exact ⟨a1, a2, fun b hb => (a3 b hb).le⟩
  · exact (sel_plane_accepts_subs f1 f1_wf rfl m1_subs_aligned (by decide) "x" 0 (by decide) (3/2)
      (by norm_num [f1, f0, m1, m0, reg, Region.lo]) (by norm_num [f1, f0, m1, m0, reg, Region.hi])).1
  · exact (sel_range_accepts_subs f1 f1_wf rfl m1_subs_aligned "x" 0 (by decide) (1/2) (3/2)
      (by norm_num [f1, f0, m1, m0, reg, Region.lo]) (by norm_num [f1, f0, m1, m0, reg, Region.hi])).1
  · exact (sel_range_accepts_subs f1 f1_wf rfl m1_subs_aligned "x" 0 (by decide) (1/2) (3/2)
      (by norm_num [f1, f0, m1, m0, reg, Region.lo]) (by norm_num [f1, f0, m1, m0, reg, Region.hi])).2

/-- hypotheses of `getitem_aligned_pointwise`: the aligned box `s0` of `f1` -/
example : SubAligned f1.mesh s0 k1 k2 ∧ ∃ g, getItem f1 (.region s0) = .ok g :=
  ⟨s0_aligned, (getitem_region_accepts f1 f1_wf rfl s0 (boxIn_of_aligned m1 m1_inv s0 k1 k2 s0_aligned) rfl).2⟩

/-- hypothesis of `getitem_whole_id` -/
example : ∃ g, getItem f0 (.region f0.mesh.region) = .ok g :=
  (getitem_region_accepts f0 f0_wf rfl _ (boxIn_of_aligned m0 m0_inv _ _ _ (whole_aligned m0 m0_inv)) rfl).2

/-- hypotheses of `pad_crop_roundtrip` / `pad_crop_accepts`, in every mode -/
example (mode : PadMode) : ∃ g h, padFld f0 pw0 mode = .ok g ∧ getItem g (.region f0.mesh.region) = .ok h := by
  obtain ⟨g, hg⟩ := (pad_accepts f0 f0_wf rfl pw0 (by decide)
    (by
      intro w hw
      simp only [pw0, List.mem_cons, List.mem_nil_iff, or_false] at hw
      rcases hw with rfl | rfl
      · exact ⟨0, by decide⟩
      · exact ⟨1, by decide⟩)
    (by
      intro w hw
      simp only [pw0, List.mem_cons, List.mem_nil_iff, or_false] at hw
      rcases hw with rfl | rfl <;> decide)
    (by rw [show f0.mesh.bc = "" from rfl, emptyLower]; exact bcOk_empty _) mode).2
  obtain ⟨h, hh⟩ := pad_crop_accepts f0 f0_wf rfl pw0 (by decide) mode g hg
  exact ⟨g, h, hg, hh⟩


/-- hypotheses of `resample_refine` (4 × 2 → 8 × 2, factors 2 and 1) and of
`resample_refine_back_id` (back to 4 × 2) -/
example : ∃ g k, resample f0 [8, 2] = .ok g ∧
    (∀ b, b < f0.mesh.ndim → 0 < (fun b => if b = 0 then 2 else 1) b ∧
      g.mesh.nAt b = (fun b => if b = 0 then 2 else 1) b * f0.mesh.nAt b) ∧
    resample g (f0.mesh.n.map Int.ofNat) = .ok k := by
  obtain ⟨g, hg⟩ := resample_accepts f0 f0_wf.1 rfl [8, 2] rfl (by decide)
  have hwf := op_wf f0 f0_wf (.resample [8, 2]) trivial g hg
  obtain ⟨_, _, hmi⟩ := op_meta_passthrough f0 rfl (.resample [8, 2]) g hg
  obtain ⟨r1, r2, _, _⟩ := resample_region f0 _ g hg
  obtain ⟨k, hk⟩ := resample_accepts g hwf.1 (metaInv_ok g hmi).1 (f0.mesh.n.map Int.ofNat)
    (by show 2 = g.mesh.region.ndim; rw [r1]; rfl) (by decide)
  refine ⟨g, k, hg, ?_, hk⟩
  intro b hb
  rcases lt_two b hb with rfl | rfl
  · exact ⟨by decide, by rw [nAt_def, r2]; rfl⟩
  · exact ⟨by decide, by rw [nAt_def, r2]; rfl⟩

/-- hypotheses of `resample_coarsen` (4 × 2 → 2 × 1, factors 2 and 2) -/
example : ∃ g, resample f0 [2, 1] = .ok g ∧
    ∀ b, b < f0.mesh.ndim → f0.mesh.nAt b = (fun _ => 2) b * g.mesh.nAt b := by
  obtain ⟨g, hg⟩ := resample_accepts f0 f0_wf.1 rfl [2, 1] rfl (by decide)
  obtain ⟨_, r2, _, _⟩ := resample_region f0 _ g hg
  refine ⟨g, hg, ?_⟩
  intro b hb
  rcases lt_two b hb with rfl | rfl
  · rw [nAt_def g.mesh, r2]; rfl
  · rw [nAt_def g.mesh, r2]; rfl

/-- hypotheses of `pad_rejects`: an axis name the region does not have; a negative width -/
example : (∃ w, w ∈ [(⟨"q", 1, 1⟩ : PadW)] ∧ ∀ a, f0.mesh.region.dim2index w.dim ≠ .ok a) ∧
    (∃ w, w ∈ [(⟨"x", -1, 1⟩ : PadW)] ∧ (w.lo < 0 ∨ w.hi < 0)) :=
  ⟨⟨⟨"q", 1, 1⟩, List.mem_cons_self .., fun a h => by
      have : f0.mesh.region.dim2index "q" = .error .value := by decide
      rw [this] at h; cases h⟩,
   ⟨⟨"x", -1, 1⟩, List.mem_cons_self .., Or.inl (by decide)⟩⟩

/-- hypothesis of `getitem_region_rejected`: a 1-d box asked of a 2-d mesh -/
example : (reg1 [1] [2]).ndim ≠ f0.mesh.ndim := by decide

/-- hypotheses of `sel_plane_1d_value`: the 1-d field `f2` -/
example : f2.mesh.Inv ∧ f2.mesh.ndim = 1 ∧ f2.mesh.region.dim2index "x" = .ok 0 ∧
    f2.mesh.region.lo 0 ≤ 5/2 ∧ (5/2 : Rat) ≤ f2.mesh.region.hi 0 :=
  ⟨m2_inv, rfl, by decide, by norm_num [f2, m2, reg1, Region.lo], by norm_num [f2, m2, reg1, Region.hi]⟩


/-- hypotheses of `sel_range_range`: cells 1..2 of `f0` along x, then the sub-range
`[5/4, 7/4]` of that, against the sub-range taken directly -/
example : ∃ g h h', selFld f0 "x" (.range (3/2) (5/2)) = .ok (.field g) ∧
    selFld g "x" (.range (5/4) (7/4)) = .ok (.field h) ∧
    selFld f0 "x" (.range (5/4) (7/4)) = .ok (.field h') ∧
    f0.mesh.region.dim2index "x" = .ok 0 ∧ max (5/4 : Rat) (7/4) < g.mesh.region.hi 0 := by
  have hd : f0.mesh.region.dim2index "x" = .ok 0 := by decide
  obtain ⟨g, hg⟩ := (sel_range_accepts f0 f0_wf rfl rfl "x" 0 hd (3/2) (5/2)
    (by norm_num [f0, m0, reg, Region.lo]) (by norm_num [f0, m0, reg, Region.hi])).2
  obtain ⟨h', hh'⟩ := (sel_range_accepts f0 f0_wf rfl rfl "x" 0 hd (5/4) (7/4)
    (by norm_num [f0, m0, reg, Region.lo]) (by norm_num [f0, m0, reg, Region.hi])).2
  have happ : applyOp f0 (.sel "x" (.range (3/2) (5/2))) = .ok g := by simp only [applyOp, hg]
  have hwf := op_wf f0 f0_wf (.sel "x" (.range (3/2) (5/2))) trivial g happ
  obtain ⟨hmesh, _⟩ := op_meta f0 _ g happ
  have hmesh' : selMesh f0.mesh "x" (.range (3/2) (5/2)) = .ok g.mesh := hmesh
  obtain ⟨_, _, hmi⟩ := op_meta_passthrough f0 rfl _ g happ
  obtain ⟨a, hda, _, _, _, gd, _, _, glo, ghi, _⟩ := sel_range_shape f0.mesh f0_wf.1 "x" _ _ g.mesh hmesh'
  rw [hd] at hda; injection hda with hda; subst hda
  have hmin : min (3/2 : Rat) (5/2) = 3/2 := by norm_num
  have hmax : max (3/2 : Rat) (5/2) = 5/2 := by norm_num
  rw [hmin, ex_idx (3/2) 1 (by decide) (by norm_num) (by norm_num)] at glo
  rw [hmax, ex_idx (5/2) 2 (by decide) (by norm_num) (by norm_num)] at ghi
  have hlo : g.mesh.region.lo 0 = 1 := by
    rw [glo]; norm_num [f0, m0, reg, Region.lo, Mesh.cellAt, Mesh.nAt, Region.edge, Region.hi]
  have hhi : g.mesh.region.hi 0 = 3 := by
    rw [ghi]; norm_num [f0, m0, reg, Region.lo, Mesh.cellAt, Mesh.nAt, Region.edge, Region.hi]
  have hsubs : g.mesh.subs = [] := selMesh_nosubs f0.mesh rfl _ _ g.mesh hmesh'
  have hdg : g.mesh.region.dim2index "x" = .ok 0 := by rw [dim2index_congr _ _ gd]; exact hd
  obtain ⟨h, hh⟩ := (sel_range_accepts g hwf (metaInv_ok g hmi).1 hsubs "x" 0 hdg (5/4) (7/4)
    (by rw [hlo]; norm_num) (by rw [hhi]; norm_num)).2
  exact ⟨g, h, h', hg, hh, hh', hd, by rw [hhi]; norm_num⟩


/-- hypotheses of `sel_plane_comm` (and `sel_plane_facts`, `sel_plane_comm_lt`): the planes
`x = 1/2` and `y = 3/2` of the 2 × 2 × 2 field `f3`, in both orders -/
example : ∃ g1 h1 g2 h2, selFld f3 "x" (.point (1/2)) = .ok (.field g1) ∧
    selFld g1 "y" (.point (3/2)) = .ok (.field h1) ∧
    selFld f3 "y" (.point (3/2)) = .ok (.field g2) ∧
    selFld g2 "x" (.point (1/2)) = .ok (.field h2) ∧
    f3.mesh.region.dim2index "x" = .ok 0 ∧ f3.mesh.region.dim2index "y" = .ok 1 := by
  obtain ⟨g1, e1, m1', w1, i1⟩ := sel_plane_result f3 f3_wf rfl rfl (by decide) "x" 0 (by decide) (1/2)
    (by norm_num [f3, m3, reg3, Region.lo]) (by norm_num [f3, m3, reg3, Region.hi])
  obtain ⟨g2, e3, m2', w2, i2⟩ := sel_plane_result f3 f3_wf rfl rfl (by decide) "y" 1 (by decide) (3/2)
    (by norm_num [f3, m3, reg3, Region.lo]) (by norm_num [f3, m3, reg3, Region.hi])
  obtain ⟨h1, e2, _⟩ := sel_plane_result g1 w1 i1 (by rw [m1']; rfl) (by rw [m1']; decide) "y" 0
    (by rw [m1']; decide) (3/2)
    (by rw [m1']; norm_num [planeOf, f3, m3, reg3, Region.lo, removeAt])
    (by rw [m1']; norm_num [planeOf, f3, m3, reg3, Region.hi, removeAt])
  obtain ⟨h2, e4, _⟩ := sel_plane_result g2 w2 i2 (by rw [m2']; rfl) (by rw [m2']; decide) "x" 0
    (by rw [m2']; decide) (1/2)
    (by rw [m2']; norm_num [planeOf, f3, m3, reg3, Region.lo, removeAt])
    (by rw [m2']; norm_num [planeOf, f3, m3, reg3, Region.hi, removeAt])
  exact ⟨g1, h1, g2, h2, e1, e2, e3, e4, by decide, by decide⟩


/-- hypothesis of `sel_range_whole_id`: the whole extent of `x` as a range -/
example : ∃ g, selFld f0 "x" (.range (f0.mesh.region.lo 0) (f0.mesh.region.hi 0)) = .ok (.field g) :=
  (sel_range_accepts f0 f0_wf rfl rfl "x" 0 (by decide) _ _
    (by norm_num [f0, m0, reg, Region.lo, Region.hi]) (by norm_num [f0, m0, reg, Region.lo, Region.hi])).2

/-- hypotheses of `pad_zero_id`: the empty dictionary -/
example (mode : PadMode) : (∀ b, sumW f0.mesh (·.lo) [] b = 0 ∧ sumW f0.mesh (·.hi) [] b = 0) ∧
    ∃ g, padFld f0 [] mode = .ok g :=
  ⟨fun _ => ⟨rfl, rfl⟩, (pad_accepts f0 f0_wf rfl [] (by decide) (fun w hw => by cases hw)
    (fun w hw => by cases hw) (by rw [show f0.mesh.bc = "" from rfl, emptyLower]; exact bcOk_empty _) mode).2⟩

/-- hypotheses of `getitem_getitem`: the box `box` of `f0`, then the same box of the result -/
example : ∃ g h h', BoxIn f0.mesh box ∧ getItem f0 (.region box) = .ok g ∧ BoxIn g.mesh box ∧
    getItem g (.region box) = .ok h ∧ getItem f0 (.region box) = .ok h' := by
  obtain ⟨g, hg⟩ := (getitem_region_accepts f0 f0_wf rfl box box_in rfl).2
  have gwf := op_wf f0 f0_wf (.get (.region box)) box_in g hg
  obtain ⟨_, _, hmi⟩ := op_meta_passthrough f0 rfl (.get (.region box)) g hg
  obtain ⟨hgm, _⟩ := getitem_region_pointwise f0 f0_wf box box_in g hg
  obtain ⟨e1, _, _, hax⟩ := getRegion_smallest f0.mesh f0_wf.1 box box_in g.mesh hgm
  have hb2 : BoxIn g.mesh box := by
    refine ⟨by rw [e1]; exact box_in.1, ?_⟩
    intro a ha
    rw [e1] at ha
    obtain ⟨_, _, _, _, _, _, _, _, q5, q6, _, _⟩ := hax a ha
    exact ⟨q5, (box_in.2 a ha).2.1, q6⟩
  obtain ⟨h, hh⟩ := (getitem_region_accepts g gwf (metaInv_ok g hmi).1 box hb2 (by rw [e1]; rfl)).2
  exact ⟨g, h, g, box_in, hg, hb2, hh, hg⟩

end NonVacuity

/-! ## Second round: refusals as equivalences -/

/-- Plane selection is accepted EXACTLY for the coordinates of the closed edge (rejected ⇔ outside or
unknown axis), on every well-formed field whose subregions consist of whole cells: by the
normalisation, by `Field.sel` (on a 1-d field the answer is the bare value) and — when there is an
axis left — by `Mesh.sel`. -/
theorem sel_plane_ok_iff (f : Fld) (hf : FldWF f) (hmeta : metaOk f = true)
    (hsubs : ∀ p, p ∈ f.mesh.subs → ∃ k1 k2, SubAligned f.mesh p.2 k1 k2)
    (dim : String) (x : Rat) :
    ((∃ r, selConvert f.mesh dim (.point x) = .ok r) ↔
      ∃ a, f.mesh.region.dim2index dim = .ok a ∧ f.mesh.region.lo a ≤ x ∧ x ≤ f.mesh.region.hi a) ∧
    ((∃ out, selFld f dim (.point x) = .ok out) ↔
      ∃ a, f.mesh.region.dim2index dim = .ok a ∧ f.mesh.region.lo a ≤ x ∧ x ≤ f.mesh.region.hi a) ∧
    (2 ≤ f.mesh.ndim → ((∃ g, selMesh f.mesh dim (.point x) = .ok g) ↔
      ∃ a, f.mesh.region.dim2index dim = .ok a ∧ f.mesh.region.lo a ≤ x ∧ x ≤ f.mesh.region.hi a)) := by
  have hconv : (∃ r, selConvert f.mesh dim (.point x) = .ok r) ↔
      ∃ a, f.mesh.region.dim2index dim = .ok a ∧ f.mesh.region.lo a ≤ x ∧ x ≤ f.mesh.region.hi a := by
    constructor
    · rintro ⟨⟨a, s⟩, hr⟩
      obtain ⟨hd, h1, h2, _⟩ := selConvert_point_inv f.mesh hf.1 dim x a s hr
      exact ⟨a, hd, h1, h2⟩
    · rintro ⟨a, hd, h1, h2⟩
      exact ⟨_, (selConvert_point f.mesh hf.1 dim a hd x h1 h2).1⟩
  refine ⟨hconv, ?_, ?_⟩
  · rw [← hconv]
    constructor
    · rintro ⟨out, ho⟩
      unfold selFld at ho
      cases hc : selConvert f.mesh dim (.point x) with
      | error e => rw [hc] at ho; cases ho
      | ok r => exact ⟨r, rfl⟩
    · intro hr
      obtain ⟨a, hd, h1, h2⟩ := hconv.mp hr
      by_cases hnd : 2 ≤ f.mesh.ndim
      · obtain ⟨g, hg⟩ := (sel_plane_accepts_subs f hf hmeta hsubs hnd dim a hd x h1 h2).2
        exact ⟨_, hg⟩
      · have h1d : f.mesh.ndim = 1 := by have := inv_ndim_pos hf.1; omega
        exact ⟨_, (sel_plane_1d_value f hf.1 h1d dim a hd x h1 h2).2⟩
  · intro hnd
    rw [← hconv]
    constructor
    · rintro ⟨g, hg⟩
      unfold selMesh at hg
      cases hc : selConvert f.mesh dim (.point x) with
      | error e => rw [hc] at hg; cases hg
      | ok r => exact ⟨r, rfl⟩
    · intro hr
      obtain ⟨a, hd, h1, h2⟩ := hconv.mp hr
      exact (sel_plane_accepts_subs f hf hmeta hsubs hnd dim a hd x h1 h2).1

/-- Range selection is accepted EXACTLY when both bounds lie in the closed edge of a known axis
(bounds in either order) — by the normalisation, `Mesh.sel` and `Field.sel` alike. -/
theorem sel_range_ok_iff (f : Fld) (hf : FldWF f) (hmeta : metaOk f = true)
    (hsubs : ∀ p, p ∈ f.mesh.subs → ∃ k1 k2, SubAligned f.mesh p.2 k1 k2)
    (dim : String) (x y : Rat) :
    ((∃ r, selConvert f.mesh dim (.range x y) = .ok r) ↔
      ∃ a, f.mesh.region.dim2index dim = .ok a ∧ f.mesh.region.lo a ≤ min x y ∧ max x y ≤ f.mesh.region.hi a) ∧
    ((∃ g, selMesh f.mesh dim (.range x y) = .ok g) ↔
      ∃ a, f.mesh.region.dim2index dim = .ok a ∧ f.mesh.region.lo a ≤ min x y ∧ max x y ≤ f.mesh.region.hi a) ∧
    ((∃ g, selFld f dim (.range x y) = .ok (.field g)) ↔
      ∃ a, f.mesh.region.dim2index dim = .ok a ∧ f.mesh.region.lo a ≤ min x y ∧ max x y ≤ f.mesh.region.hi a) := by
  have hconv : (∃ r, selConvert f.mesh dim (.range x y) = .ok r) ↔
      ∃ a, f.mesh.region.dim2index dim = .ok a ∧ f.mesh.region.lo a ≤ min x y ∧ max x y ≤ f.mesh.region.hi a := by
    constructor
    · rintro ⟨⟨a, s⟩, hr⟩
      obtain ⟨hd, h1, h2, _⟩ := selConvert_range_inv f.mesh hf.1 dim x y a s hr
      exact ⟨a, hd, h1, h2⟩
    · rintro ⟨a, hd, h1, h2⟩
      exact ⟨_, (selConvert_range f.mesh hf.1 dim a hd x y h1 h2).1⟩
  refine ⟨hconv, ?_, ?_⟩
  · rw [← hconv]
    constructor
    · rintro ⟨g, hg⟩
      unfold selMesh at hg
      cases hc : selConvert f.mesh dim (.range x y) with
      | error e => rw [hc] at hg; cases hg
      | ok r => exact ⟨r, rfl⟩
    · intro hr
      obtain ⟨a, hd, h1, h2⟩ := hconv.mp hr
      exact (sel_range_accepts_subs f hf hmeta hsubs dim a hd x y h1 h2).1
  · rw [← hconv]
    constructor
    · rintro ⟨g, hg⟩
      unfold selFld at hg
      cases hc : selConvert f.mesh dim (.range x y) with
      | error e => rw [hc] at hg; cases hg
      | ok r => exact ⟨r, rfl⟩
    · intro hr
      obtain ⟨a, hd, h1, h2⟩ := hconv.mp hr
      exact (sel_range_accepts_subs f hf hmeta hsubs dim a hd x y h1 h2).2

/-- `Field.resample n` is accepted EXACTLY for one positive count per axis. -/
theorem resample_ok_iff (f : Fld) (hf : f.mesh.Inv) (hmeta : metaOk f = true) (n : List Int) :
    (∃ g, resample f n = .ok g) ↔ (n.length = f.mesh.ndim ∧ ∀ k, k ∈ n → 0 < k) := by
  constructor
  · rintro ⟨g, hg⟩
    obtain ⟨_, _, h3, h4⟩ := resample_region f n g hg
    exact ⟨h3, h4⟩
  · rintro ⟨h1, h2⟩
    exact resample_accepts f hf hmeta n h1 h2

/-- `Field.pad` is accepted EXACTLY when every named axis exists and every width is non-negative
(any mode). -/
theorem pad_ok_iff (f : Fld) (hf : FldWF f) (hmeta : metaOk f = true) (pw : List PadW)
    (hnd : (pw.map (·.dim)).Nodup)
    (hbc : Mesh.bcOk f.mesh.region.dims f.mesh.bc.toLower = true) (mode : PadMode) :
    (∃ g, padFld f pw mode = .ok g) ↔
      ∀ w, w ∈ pw → (∃ a, f.mesh.region.dim2index w.dim = .ok a) ∧ 0 ≤ w.lo ∧ 0 ≤ w.hi := by
  constructor
  · rintro ⟨g, hg⟩ w hw
    obtain ⟨r1, r2⟩ := pad_rejects f pw mode
    refine ⟨?_, ?_, ?_⟩
    · by_contra hcon
      obtain ⟨_, e, he⟩ := r1 ⟨w, hw, fun a ha => hcon ⟨a, ha⟩⟩
      rw [hg] at he; cases he
    · by_contra hcon
      obtain ⟨e, he⟩ := r2 ⟨w, hw, Or.inl (by omega)⟩
      rw [hg] at he; cases he
    · by_contra hcon
      obtain ⟨e, he⟩ := r2 ⟨w, hw, Or.inr (by omega)⟩
      rw [hg] at he; cases he
  · intro h
    exact (pad_accepts f hf hmeta pw hnd (fun w hw => (h w hw).1) (fun w hw => (h w hw).2) hbc mode).2

/-- `mesh[name]` / `field[name]` are accepted EXACTLY for the names of subregions. -/
theorem getitem_name_ok_iff (f : Fld) (hf : FldWF f) (hmeta : metaOk f = true)
    (hsubs : ∀ p, p ∈ f.mesh.subs → ∃ k1 k2, SubAligned f.mesh p.2 k1 k2) (name : String) :
    ((∃ g, getName f.mesh name = .ok g) ↔ ∃ s, findSub f.mesh.subs name = some s) ∧
    ((∃ g, getItem f (.name name) = .ok g) ↔ ∃ s, findSub f.mesh.subs name = some s) := by
  have hmem : ∀ s, findSub f.mesh.subs name = some s → ∃ k1 k2, SubAligned f.mesh s k1 k2 := by
    intro s hs
    unfold findSub at hs
    cases hfd : f.mesh.subs.find? (fun p => p.1 == name) with
    | none => rw [hfd] at hs; cases hs
    | some p =>
      rw [hfd] at hs
      simp only [Option.map_some, Option.some.injEq] at hs
      subst hs
      exact hsubs p (List.mem_of_find?_eq_some hfd)
  constructor
  · constructor
    · rintro ⟨g, hg⟩
      cases hfd : findSub f.mesh.subs name with
      | none =>
        obtain ⟨⟨e, he⟩, _⟩ := getitem_outside_rejected f (.name name) (Or.inl ⟨name, rfl, hfd⟩)
        have : getName f.mesh name = .error e := he
        rw [hg] at this; cases this
      | some s => exact ⟨s, rfl⟩
    · rintro ⟨s, hs⟩
      obtain ⟨k1, k2, hal⟩ := hmem s hs
      exact (getitem_name_accepts f hf hmeta name s hs k1 k2 hal).1
  · constructor
    · rintro ⟨g, hg⟩
      cases hfd : findSub f.mesh.subs name with
      | none =>
        obtain ⟨_, e, he⟩ := getitem_outside_rejected f (.name name) (Or.inl ⟨name, rfl, hfd⟩)
        rw [hg] at he; cases he
      | some s => exact ⟨s, rfl⟩
    · rintro ⟨s, hs⟩
      obtain ⟨k1, k2, hal⟩ := hmem s hs
      exact (getitem_name_accepts f hf hmeta name s hs k1 k2 hal).2


/-! ## Composition laws and round trips on inputs only -/

/-- Every accepted operation on a field in constructor state keeps component count, unit, labels
and mapping, and returns a field in constructor state (`op_meta` and `op_meta_passthrough` in one). -/
theorem op_meta_kept (f : Fld) (hmi : MetaInv f) (op : FOp) (g : Fld) (h : applyOp f op = .ok g) :
    g.nvdim = f.nvdim ∧ g.unit = f.unit ∧ g.vdims = f.vdims ∧ g.vmap = f.vmap ∧ MetaInv g := by
  obtain ⟨_, a1, a2, _⟩ := op_meta f op g h
  obtain ⟨b1, b2, b3⟩ := op_meta_passthrough f hmi op g h
  exact ⟨a1, a2, b1, b2, b3⟩

/-- Invariant: subregions made of whole cells stay subregions made of whole cells (of the result
mesh) under a plane selection — so acceptance chains along histories of selections. -/
theorem sel_plane_subs_aligned (m : Mesh) (hm : m.Inv) (hsubs : SubsAligned m) (dim : String) (arg : SelArg)
    (a : Nat) (c : Rat) (k : Nat) (hconv : selConvert m dim arg = .ok (a, .plane c k))
    (g : Mesh) (h : selMesh m dim arg = .ok g) : SubsAligned g := by
  obtain ⟨s1, s2, _, _, _, sax, _⟩ := sel_plane_shape m hm dim arg a c k hconv g h
  have ha : a < m.ndim := by
    unfold selConvert at hconv
    split at hconv
    · cases hconv
    · rename_i a' hd
      have := dim2index_ndim hm hd
      cases arg <;> simp only at hconv
      · split at hconv
        · cases hconv
        · injection hconv with hc; injection hc with hc _; omega
      · split at hconv
        · cases hconv
        · injection hconv with hc; injection hc with hc _; omega
      · split at hconv
        · cases hconv
        · split at hconv
          · cases hconv
          · injection hconv with hc; injection hc with _ hc; cases hc
      · cases hconv
  have hF := sel_plane_subs m hm (subsAligned_wf m hm hsubs) dim arg a c k hconv ha g h
  intro q hq
  obtain ⟨p, hp, _, _, _, _, q5, q6, q7⟩ := forall2_mem_left hF q hq
  obtain ⟨k1, k2, hal⟩ := hsubs p (List.mem_filter.mp hp).1
  refine ⟨fun b => k1 (skip a b), fun b => k2 (skip a b), ?_, ?_, ?_⟩
  · rw [q5, s1]
  · rw [q6, s1]
  · intro b hb
    rw [s1] at hb
    obtain ⟨e1, e2, e3, e4⟩ := sax b (by rw [s1]; exact hb)
    obtain ⟨t1, t2, t3, t4⟩ := hal.2.2 (skip a b) (skip_lt a b m.ndim ha hb)
    obtain ⟨u1, u2⟩ := q7 b hb
    exact ⟨t1, by rw [e3]; exact t2, by rw [u1, t3, e1, e4], by rw [u2, t4, e1, e4]⟩

/-- … and under a range selection: every surviving (clipped) subregion consists of whole cells of the
result mesh. -/
theorem sel_range_subs_aligned (m : Mesh) (hm : m.Inv) (hsubs : SubsAligned m) (dim : String) (x y : Rat)
    (g : Mesh) (h : selMesh m dim (.range x y) = .ok g) : SubsAligned g := by
  obtain ⟨a, hd, b1, b2, g1, g2, g3, g4, g5, g6, g7, g8, g9, ginv⟩ := sel_range_shape m hm dim x y g h
  obtain ⟨a', hd', hF⟩ := sel_range_subs m hm (subsAligned_wf m hm hsubs) dim x y g h
  rw [hd] at hd'; injection hd' with hd'; subst hd'
  have ha := dim2index_ndim hm hd
  have hc := inv_cell_pos hm ha
  obtain ⟨_, hk, hk2⟩ := selConvert_range m hm dim a hd x y b1 b2
  set K1 := m.indexAx a (min x y) with hK1
  set K2 := m.indexAx a (max x y) with hK2
  intro q hq
  obtain ⟨p, hp, _, _, _, _, q5, q6, q7, q8, q9⟩ := forall2_mem_left hF q hq
  obtain ⟨hmem, hkeep⟩ := List.mem_filter.mp hp
  rw [decide_eq_true_iff] at hkeep
  obtain ⟨k1, k2, hal⟩ := hsubs p hmem
  obtain ⟨t1, t2, t3, t4⟩ := hal.2.2 a ha
  rw [t3, t4, g5, g6] at hkeep
  obtain ⟨hkp1, hkp2⟩ := keep_cells _ _ hc K1 K2 (k1 a) (k2 a) hkeep
  obtain ⟨c1, c2⟩ := range_sub_clip_cells (m.region.lo a) (m.cellAt a) hc K1 K2 (k1 a) (k2 a)
  refine ⟨fun b => if b = a then max K1 (k1 a) - K1 else k1 b,
    fun b => if b = a then min (K2 + 1) (k2 a) - K1 else k2 b, ?_, ?_, ?_⟩
  · rw [q5, g1]
  · rw [q6, g1]
  · intro b hb
    rw [g1] at hb
    by_cases hba : b = a
    · subst hba
      simp only [if_true]
      have hge : K1 ≤ min (K2 + 1) (k2 b) := by rw [Nat.le_min]; omega
      have cc1 : ((max K1 (k1 b) - K1 : Nat) : Rat) = ((max K1 (k1 b) : Nat) : Rat) - (K1 : Rat) := by
        push_cast [Nat.cast_sub (Nat.le_max_left K1 (k1 b))]; ring
      have cc2 : ((min (K2 + 1) (k2 b) - K1 : Nat) : Rat) = ((min (K2 + 1) (k2 b) : Nat) : Rat) - (K1 : Rat) := by
        push_cast [Nat.cast_sub hge]; ring
      refine ⟨?_, ?_, ?_, ?_⟩
      · have h1 : max K1 (k1 b) < min (K2 + 1) (k2 b) := by
          rw [Nat.lt_min, Nat.max_lt, Nat.max_lt]; omega
        omega
      · rw [g7]
        have : min (K2 + 1) (k2 b) ≤ K2 + 1 := Nat.min_le_left _ _
        omega
      · rw [q7, g5, t3, c1, g8, cc1]; ring
      · rw [q8, g6, t4, c2, g5, g8, cc2]; ring
    · simp only [hba, if_false]
      obtain ⟨u1, u2⟩ := q9 b hb hba
      obtain ⟨v1, v2, v3, v4⟩ := g9 b hb hba
      obtain ⟨w1, w2, w3, w4⟩ := hal.2.2 b hb
      exact ⟨w1, by rw [v3]; exact w2, by rw [u1, w3, v1, v4], by rw [u2, w4, v1, v4]⟩

/-- Range then sub-range equals the sub-range, on inputs only and without exception: for a range
inside the region and a sub-range inside that range (bounds of both in either order), the three
selections are accepted — also on meshes with subregions — and `f.sel(d=(x,y)).sel(d=(x',y'))` is
`f.sel(d=(x',y'))`: region, counts, metadata, values, validity.  (The face exception of
`sel_range_range` cannot occur: an upper bound on the upper face of the first selection would have
to exceed the first range.) -/
theorem sel_range_range_total (f : Fld) (hf : FldWF f) (hmi : MetaInv f) (hsubs : SubsAligned f.mesh)
    (dim : String) (a : Nat) (hd : f.mesh.region.dim2index dim = .ok a) (x y x' y' : Rat)
    (h1 : f.mesh.region.lo a ≤ min x y) (h2 : max x y ≤ f.mesh.region.hi a)
    (h3 : min x y ≤ min x' y') (h4 : max x' y' ≤ max x y) :
    ∃ g h h', selFld f dim (.range x y) = .ok (.field g) ∧ selFld g dim (.range x' y') = .ok (.field h) ∧
      selFld f dim (.range x' y') = .ok (.field h') ∧
      h.mesh.region = h'.mesh.region ∧ h.mesh.n = h'.mesh.n ∧
      h.nvdim = h'.nvdim ∧ h.unit = h'.unit ∧ h.vdims = h'.vdims ∧ h.vmap = h'.vmap ∧
      ∀ j, inRange h.mesh.n j = true → h.data.get j = h'.data.get j ∧ h.valid.get j = h'.valid.get j := by
  have hinv := hf.1
  have ha := dim2index_ndim hinv hd
  have hc := inv_cell_pos hinv ha
  have hn := inv_n_pos hinv ha
  have hmm : min x y ≤ max x y := le_trans (min_le_left _ _) (le_max_left _ _)
  have hmm' : min x' y' ≤ max x' y' := le_trans (min_le_left _ _) (le_max_left _ _)
  obtain ⟨g, hg⟩ := (sel_range_accepts_subs f hf (metaInv_ok f hmi).1 hsubs dim a hd x y h1 h2).2
  obtain ⟨h', hh'⟩ := (sel_range_accepts_subs f hf (metaInv_ok f hmi).1 hsubs dim a hd x' y'
    (le_trans h1 h3) (le_trans h4 h2)).2
  have happ : applyOp f (.sel dim (.range x y)) = .ok g := by simp only [applyOp, hg]
  have happ' : applyOp f (.sel dim (.range x' y')) = .ok h' := by simp only [applyOp, hh']
  have gwf := op_wf f hf (.sel dim (.range x y)) trivial g happ
  obtain ⟨hgm, _⟩ := op_meta f _ g happ
  have hgm' : selMesh f.mesh dim (.range x y) = .ok g.mesh := hgm
  obtain ⟨m1, m2, m3, m4, gmi⟩ := op_meta_kept f hmi _ g happ
  obtain ⟨m1', m2', m3', m4', _⟩ := op_meta_kept f hmi _ h' happ'
  obtain ⟨a', hda, _, _, g1, g2, _, _, g5, g6, _, g8, _, _⟩ := sel_range_shape f.mesh hinv dim x y g.mesh hgm'
  rw [hd] at hda; injection hda with hda; subst hda
  have hdg : g.mesh.region.dim2index dim = .ok a := by rw [dim2index_congr _ _ g2]; exact hd
  have gsubs := sel_range_subs_aligned f.mesh hinv hsubs dim x y g.mesh hgm'
  obtain ⟨c1, _⟩ := index_contains f.mesh a (min x y) hn (inv_lo_lt_hi hinv ha) h1 (le_trans hmm h2)
  obtain ⟨_, c2⟩ := index_contains f.mesh a (max x y) hn (inv_lo_lt_hi hinv ha) (le_trans h1 hmm) h2
  have hglo : g.mesh.region.lo a ≤ min x' y' := by rw [g5]; linarith
  have hghi : max x' y' ≤ g.mesh.region.hi a ∧
      (max x' y' < g.mesh.region.hi a ∨ g.mesh.region.hi a = f.mesh.region.hi a) := by
    rw [g6]
    rcases c2 with c2 | ⟨c2, c3⟩
    · exact ⟨by linarith, Or.inl (by linarith)⟩
    · have hcast : ((f.mesh.nAt a - 1 : Nat) : Rat) = (f.mesh.nAt a : Rat) - 1 := by
        push_cast [Nat.cast_sub (by omega : 1 ≤ f.mesh.nAt a)]; ring
      have : f.mesh.region.lo a + ((f.mesh.indexAx a (max x y) : Rat) + 1) * f.mesh.cellAt a = f.mesh.region.hi a := by
        rw [c2, hcast, hi_eq f.mesh a hn]; ring
      rw [this]
      exact ⟨le_trans h4 h2, Or.inr rfl⟩
  obtain ⟨h, hh⟩ := (sel_range_accepts_subs g gwf (metaInv_ok g gmi).1 gsubs dim a hdg x' y' hglo hghi.1).2
  have happ2 : applyOp g (.sel dim (.range x' y')) = .ok h := by simp only [applyOp, hh]
  obtain ⟨n1, n2, n3, n4, _⟩ := op_meta_kept g gmi _ h happ2
  obtain ⟨r1, r2, r3⟩ := sel_range_range f hf dim x y x' y' g h h' hg hh hh' a hd hghi.2
  exact ⟨g, h, h', hg, hh, hh', r1, r2, by rw [n1, m1, m1'], by rw [n2, m2, m2'], by rw [n3, m3, m3'],
    by rw [n4, m4, m4'], r3⟩

/-- The exception of `sel_range_range`, exactly: a sub-range whose upper bound lies ON the upper face
of the first selection (and that face is inside the region).  After the first selection the face
belongs to the last kept cell; in the original mesh it belongs to the next cell.  Hence the direct
selection has exactly one more layer on top — same lower corner, one more cell, upper corner one
cell higher, every other axis identical — and agrees with the two-step selection on all cells of
the latter. -/
theorem sel_range_range_face (f : Fld) (hf : FldWF f) (hmi : MetaInv f) (hsubs : SubsAligned f.mesh)
    (dim : String) (a : Nat) (hd : f.mesh.region.dim2index dim = .ok a) (x y x' y' : Rat)
    (h1 : f.mesh.region.lo a ≤ min x y) (h2 : max x y ≤ f.mesh.region.hi a)
    (h3 : f.mesh.region.lo a + (f.mesh.indexAx a (min x y) : Rat) * f.mesh.cellAt a ≤ min x' y')
    (h4 : min x' y' < max x' y')
    (hU : max x' y' = f.mesh.region.lo a + ((f.mesh.indexAx a (max x y) : Rat) + 1) * f.mesh.cellAt a)
    (hUlt : max x' y' < f.mesh.region.hi a) :
    ∃ g h h', selFld f dim (.range x y) = .ok (.field g) ∧ selFld g dim (.range x' y') = .ok (.field h) ∧
      selFld f dim (.range x' y') = .ok (.field h') ∧
      h'.mesh.ndim = h.mesh.ndim ∧
      h'.mesh.region.lo a = h.mesh.region.lo a ∧
      h'.mesh.region.hi a = h.mesh.region.hi a + f.mesh.cellAt a ∧
      h'.mesh.nAt a = h.mesh.nAt a + 1 ∧
      (∀ b, b < f.mesh.ndim → b ≠ a → h'.mesh.region.lo b = h.mesh.region.lo b ∧
        h'.mesh.region.hi b = h.mesh.region.hi b ∧ h'.mesh.nAt b = h.mesh.nAt b) ∧
      ∀ j, inRange h.mesh.n j = true →
        inRange h'.mesh.n j = true ∧ h.data.get j = h'.data.get j ∧ h.valid.get j = h'.valid.get j := by
  have hinv := hf.1
  have ha := dim2index_ndim hinv hd
  have hc := inv_cell_pos hinv ha
  have hn := inv_n_pos hinv ha
  have hmm : min x y ≤ max x y := le_trans (min_le_left _ _) (le_max_left _ _)
  have hmm' : min x' y' ≤ max x' y' := h4.le
  obtain ⟨_, hk, hk2⟩ := selConvert_range f.mesh hinv dim a hd x y h1 h2
  set K1 := f.mesh.indexAx a (min x y) with hK1
  set K2 := f.mesh.indexAx a (max x y) with hK2
  have h0K : (0 : Rat) ≤ (K1 : Rat) := by exact_mod_cast Nat.zero_le _
  have hflo : f.mesh.region.lo a ≤ min x' y' := by nlinarith
  obtain ⟨g, hg⟩ := (sel_range_accepts_subs f hf (metaInv_ok f hmi).1 hsubs dim a hd x y h1 h2).2
  obtain ⟨h', hh'⟩ := (sel_range_accepts_subs f hf (metaInv_ok f hmi).1 hsubs dim a hd x' y' hflo hUlt.le).2
  have happ : applyOp f (.sel dim (.range x y)) = .ok g := by simp only [applyOp, hg]
  have gwf := op_wf f hf (.sel dim (.range x y)) trivial g happ
  obtain ⟨hgm, _⟩ := op_meta f _ g happ
  have hgm' : selMesh f.mesh dim (.range x y) = .ok g.mesh := hgm
  obtain ⟨_, _, _, _, gmi⟩ := op_meta_kept f hmi _ g happ
  obtain ⟨a', hda, _, _, g1, g2, _, _, g5, g6, g7, g8, g9, ginv⟩ := sel_range_shape f.mesh hinv dim x y g.mesh hgm'
  rw [hd] at hda; injection hda with hda; subst hda
  have hdg : g.mesh.region.dim2index dim = .ok a := by rw [dim2index_congr _ _ g2]; exact hd
  have gsubs := sel_range_subs_aligned f.mesh hinv hsubs dim x y g.mesh hgm'
  have hghi : max x' y' = g.mesh.region.hi a := by rw [g6, hU]
  obtain ⟨h, hh⟩ := (sel_range_accepts_subs g gwf (metaInv_ok g gmi).1 gsubs dim a hdg x' y'
    (by rw [g5]; exact h3) hghi.le).2
  refine ⟨g, h, h', hg, hh, hh', ?_⟩
  -- meshes of the second and the direct selection
  obtain ⟨hm, _, _, hhm, hhc⟩ := selFld_ctor g dim _ h hh
  obtain ⟨hm', _, _, hhm', hhc'⟩ := selFld_ctor f dim _ h' hh'
  have ehm := (mkFld_inv _ _ _ _ _ hhc).1
  have ehm' := (mkFld_inv _ _ _ _ _ hhc').1
  rw [← ehm] at hhm; rw [← ehm'] at hhm'
  have blk : AxisBlock g.mesh f.mesh a a K1 (K2 - K1 + 1) := ⟨g5, g7, g8, by omega⟩
  have hgn : 0 < g.mesh.nAt a := by rw [g7]; omega
  have hgc : 0 < g.mesh.cellAt a := by rw [g8]; exact hc
  obtain ⟨a2, hd2, c1, c2, s1, s2, s3, s4, s5, s6, s7, s8, s9, sinv⟩ :=
    sel_range_shape g.mesh ginv dim x' y' h.mesh hhm
  rw [hdg] at hd2; injection hd2 with hd2; subst hd2
  obtain ⟨a3, hd3, d1, d2, t1, t2, t3, t4, t5, t6, t7, t8, t9, tinv⟩ :=
    sel_range_shape f.mesh hinv dim x' y' h'.mesh hhm'
  rw [hd] at hd3; injection hd3 with hd3; subst hd3
  -- the indices
  have i1 : f.mesh.indexAx a (min x' y') = K1 + g.mesh.indexAx a (min x' y') :=
    indexAx_block blk (by omega) hc _ c1 (le_trans hmm' c2) (Or.inl (by rw [← hghi]; exact h4))
  have i2g : g.mesh.indexAx a (max x' y') = K2 - K1 := by
    rw [hghi, indexAx_hi g.mesh a hgn hgc, g7]; omega
  have hK2n : K2 + 1 < f.mesh.nAt a := by
    have e := hi_eq f.mesh a hn
    rw [hU, e] at hUlt
    have : ((K2 : Rat) + 1) < (f.mesh.nAt a : Rat) := by
      by_contra hcon; rw [not_lt] at hcon
      have := mul_le_mul_of_nonneg_right hcon hc.le; linarith
    exact_mod_cast this
  have i2f : f.mesh.indexAx a (max x' y') = K2 + 1 := by
    apply indexAx_eq_of_bounds f.mesh a _ (K2 + 1) hK2n hc
    · rw [hU]; push_cast; linarith
    · rw [hU]; push_cast; linarith
  have hgk := indexAx_mono g.mesh a _ _ hgc hmm'
  rw [i2g] at hgk
  have hnd : h'.mesh.ndim = h.mesh.ndim := by rw [s1, t1, g1]
  have hoth : ∀ b, b < f.mesh.ndim → b ≠ a → h'.mesh.region.lo b = h.mesh.region.lo b ∧
      h'.mesh.region.hi b = h.mesh.region.hi b ∧ h'.mesh.nAt b = h.mesh.nAt b := by
    intro b hb hba
    obtain ⟨u1, u2, u3, _⟩ := s9 b (by rw [g1]; exact hb) hba
    obtain ⟨v1, v2, v3, _⟩ := g9 b hb hba
    obtain ⟨w1, w2, w3, _⟩ := t9 b hb hba
    exact ⟨by rw [u1, v1, w1], by rw [u2, v2, w2], by rw [u3, v3, w3]⟩
  have hna : h'.mesh.nAt a = h.mesh.nAt a + 1 := by rw [s7, t7, i1, i2f, i2g]; omega
  refine ⟨hnd, ?_, ?_, hna, hoth, ?_⟩
  · rw [s5, t5, g5, g8, i1]; push_cast; ring
  · rw [s6, t6, g5, g8, i2f, i2g]
    have : ((K2 - K1 : Nat) : Rat) = (K2 : Rat) - (K1 : Rat) := by push_cast [Nat.cast_sub hk]; ring
    rw [this]; push_cast; ring
  · intro j hj
    have hjl : j.length = f.mesh.ndim := by
      rw [inRange_length _ _ hj, inv_n_length sinv, s1, g1]
    have hjb : ∀ b, b < f.mesh.ndim → j.getD b 0 < h.mesh.nAt b := fun b hb =>
      inRange_getD _ _ hj b (by rw [inv_n_length sinv, s1, g1]; exact hb)
    have hj' : inRange h'.mesh.n j = true := by
      apply inRange_of_getD _ _ (by rw [inv_n_length tinv, t1, hjl])
      intro b hb
      rw [inv_n_length tinv, t1] at hb
      show _ < h'.mesh.nAt b
      by_cases hba : b = a
      · subst hba; rw [hna]; have := hjb b hb; omega
      · rw [(hoth b hb hba).2.2]; exact hjb b hb
    obtain ⟨a4, hd4, p4⟩ := sel_range_pointwise g ginv dim x' y' h hh
    rw [hdg] at hd4; injection hd4 with hd4; subst hd4
    obtain ⟨a5, hd5, p5⟩ := sel_range_pointwise f hinv dim x' y' h' hh'
    rw [hd] at hd5; injection hd5 with hd5; subst hd5
    obtain ⟨a6, hd6, p6⟩ := sel_range_pointwise f hinv dim x y g hg
    rw [hd] at hd6; injection hd6 with hd6; subst hd6
    obtain ⟨_, e2, e3⟩ := p4 j hj
    obtain ⟨_, e5, e6⟩ := p5 j hj'
    have hin : inRange g.mesh.n (setAt j a (j.getD a 0 + g.mesh.indexAx a (min x' y'))) = true := by
      apply inRange_of_getD _ _ (by rw [length_setAt, hjl, inv_n_length ginv, g1])
      intro b hb
      rw [inv_n_length ginv, g1] at hb
      show _ < g.mesh.nAt b
      by_cases hba : b = a
      · subst hba
        rw [getD_setAt_eq _ _ _ _ (by omega)]
        have := hjb b hb
        rw [s7, i2g] at this
        rw [g7]; omega
      · rw [getD_setAt_ne _ _ _ _ _ hba]
        have := hjb b hb
        rw [(s9 b (by omega) hba).2.2.1] at this
        exact this
    obtain ⟨_, e8, e9⟩ := p6 _ hin
    have hidx : setAt (setAt j a (j.getD a 0 + g.mesh.indexAx a (min x' y'))) a
        ((setAt j a (j.getD a 0 + g.mesh.indexAx a (min x' y'))).getD a 0 + f.mesh.indexAx a (min x y))
        = setAt j a (j.getD a 0 + f.mesh.indexAx a (min x' y')) := by
      rw [setAt_setAt, getD_setAt_eq _ _ _ _ (by omega), i1]
      congr 1; omega
    rw [hidx] at e8 e9
    rw [e2, e3, e5, e6, e8, e9]
    exact ⟨hj', rfl, rfl⟩

/-- One accepted plane selection on a mesh with subregions of whole cells, with everything needed to
go on: the result is a well-formed field in constructor state whose subregions again consist of
whole cells, with the source's metadata, on the mesh with the axis removed. -/
theorem sel_plane_result_subs (F : Fld) (hF : FldWF F) (hmi : MetaInv F) (hsubs : SubsAligned F.mesh)
    (h2 : 2 ≤ F.mesh.ndim) (d : String) (α : Nat) (hd : F.mesh.region.dim2index d = .ok α) (ξ : Rat)
    (h1 : F.mesh.region.lo α ≤ ξ) (hx2 : ξ ≤ F.mesh.region.hi α) :
    ∃ G, selFld F d (.point ξ) = .ok (.field G) ∧ FldWF G ∧ MetaInv G ∧ SubsAligned G.mesh ∧
      G.nvdim = F.nvdim ∧ G.unit = F.unit ∧ G.vdims = F.vdims ∧ G.vmap = F.vmap ∧
      G.mesh.ndim = F.mesh.ndim - 1 ∧ G.mesh.region.dims = removeAt F.mesh.region.dims α ∧
      ∀ b, b < G.mesh.ndim →
        G.mesh.region.lo b = F.mesh.region.lo (skip α b) ∧ G.mesh.region.hi b = F.mesh.region.hi (skip α b) := by
  obtain ⟨G, hG⟩ := (sel_plane_accepts_subs F hF (metaInv_ok F hmi).1 hsubs h2 d α hd ξ h1 hx2).2
  have happ : applyOp F (.sel d (.point ξ)) = .ok G := by simp only [applyOp, hG]
  obtain ⟨m1, m2, m3, m4, gmi⟩ := op_meta_kept F hmi _ G happ
  obtain ⟨hgm, _⟩ := op_meta F _ G happ
  have hgm' : selMesh F.mesh d (.point ξ) = .ok G.mesh := hgm
  have hconv := (selConvert_point F.mesh hF.1 d α hd ξ h1 hx2).1
  have gs := sel_plane_subs_aligned F.mesh hF.1 hsubs d _ α _ _ hconv G.mesh hgm'
  obtain ⟨w, n1, _, d1, _, _, ax, _⟩ := sel_plane_facts F hF d α hd ξ G hG
  exact ⟨G, hG, w, gmi, gs, m1, m2, m3, m4, n1, d1, fun b hb => ⟨(ax b hb).1, (ax b hb).2.1⟩⟩

/-- Plane selections along different axes commute, on inputs only: for a field of at least three
dimensions (with subregions of whole cells), two different axes and coordinates inside their edges,
all four selections are accepted and both orders give the same region, counts, metadata, values and
validity. -/
theorem sel_plane_comm_total (f : Fld) (hf : FldWF f) (hmi : MetaInv f) (hsubs : SubsAligned f.mesh)
    (h3 : 3 ≤ f.mesh.ndim) (da db : String) (a b : Nat) (hab : a ≠ b)
    (hda : f.mesh.region.dim2index da = .ok a) (hdb : f.mesh.region.dim2index db = .ok b) (x y : Rat)
    (hx : f.mesh.region.lo a ≤ x ∧ x ≤ f.mesh.region.hi a)
    (hy : f.mesh.region.lo b ≤ y ∧ y ≤ f.mesh.region.hi b) :
    ∃ g1 h1 g2 h2, selFld f da (.point x) = .ok (.field g1) ∧ selFld g1 db (.point y) = .ok (.field h1) ∧
      selFld f db (.point y) = .ok (.field g2) ∧ selFld g2 da (.point x) = .ok (.field h2) ∧
      h1.mesh.region = h2.mesh.region ∧ h1.mesh.n = h2.mesh.n ∧
      h1.nvdim = h2.nvdim ∧ h1.unit = h2.unit ∧ h1.vdims = h2.vdims ∧ h1.vmap = h2.vmap ∧
      ∀ j, inRange h1.mesh.n j = true → h1.data.get j = h2.data.get j ∧ h1.valid.get j = h2.valid.get j := by
  have ha := dim2index_ndim hf.1 hda
  have hb := dim2index_ndim hf.1 hdb
  have hdl := inv_dims_length hf.1
  obtain ⟨g1, e1, w1, i1, s1, p1, p2, p3, p4, n1, d1, ax1⟩ :=
    sel_plane_result_subs f hf hmi hsubs (by omega) da a hda x hx.1 hx.2
  obtain ⟨g2, e3, w2, i2, s2, q1, q2, q3, q4, n2, d2, ax2⟩ :=
    sel_plane_result_subs f hf hmi hsubs (by omega) db b hdb y hy.1 hy.2
  -- the other axis in each intermediate field
  have hdb1 := dim2index_removeAt f.mesh.region g1.mesh.region db a b hdb hab (by omega) d1
  have hda2 := dim2index_removeAt f.mesh.region g2.mesh.region da b a hda (Ne.symm hab) (by omega) d2
  have hsk1 : skip a (if b < a then b else b - 1) = b := by
    unfold skip
    by_cases hlt : b < a
    · rw [if_pos hlt, if_pos hlt]
    · rw [if_neg hlt, if_neg (by omega)]; omega
  have hsk2 : skip b (if a < b then a else a - 1) = a := by
    unfold skip
    by_cases hlt : a < b
    · rw [if_pos hlt, if_pos hlt]
    · rw [if_neg hlt, if_neg (by omega)]; omega
  have hlt1 : (if b < a then b else b - 1) < g1.mesh.ndim := by split <;> omega
  have hlt2 : (if a < b then a else a - 1) < g2.mesh.ndim := by split <;> omega
  obtain ⟨l1, l2⟩ := ax1 _ hlt1
  obtain ⟨l3, l4⟩ := ax2 _ hlt2
  rw [hsk1] at l1 l2
  rw [hsk2] at l3 l4
  obtain ⟨h1, e2, _, _, _, r1, r2, r3, r4, _⟩ :=
    sel_plane_result_subs g1 w1 i1 s1 (by omega) db _ hdb1 y (by rw [l1]; exact hy.1) (by rw [l2]; exact hy.2)
  obtain ⟨h2, e4, _, _, _, t1, t2, t3, t4, _⟩ :=
    sel_plane_result_subs g2 w2 i2 s2 (by omega) da _ hda2 x (by rw [l3]; exact hx.1) (by rw [l4]; exact hx.2)
  obtain ⟨c1, c2, c3⟩ := sel_plane_comm f hf da db a b hab hda hdb x y g1 h1 g2 h2 e1 e2 e3 e4
  exact ⟨g1, h1, g2, h2, e1, e2, e3, e4, c1, c2, by rw [r1, p1, t1, q1], by rw [r2, p2, t2, q2],
    by rw [r3, p3, t3, q3], by rw [r4, p4, t4, q4], c3⟩

/-- `field[r1][r2] = field[r2]` on inputs only: for a box `r1` inside the region and a box `r2` inside
`r1`, the three extractions are accepted and the two routes give the same object. -/
theorem getitem_getitem_total (f : Fld) (hf : FldWF f) (hmi : MetaInv f) (r1 r2 : Region)
    (hb1 : BoxIn f.mesh r1) (hp1 : r1.pmax.length = f.mesh.ndim)
    (hn2 : r2.ndim = f.mesh.ndim) (hp2 : r2.pmax.length = f.mesh.ndim)
    (hin : ∀ a, a < f.mesh.ndim → r1.lo a ≤ r2.lo a ∧ r2.lo a < r2.hi a ∧ r2.hi a ≤ r1.hi a) :
    ∃ g h h', getItem f (.region r1) = .ok g ∧ getItem g (.region r2) = .ok h ∧
      getItem f (.region r2) = .ok h' ∧
      h.mesh.region = h'.mesh.region ∧ h.mesh.n = h'.mesh.n ∧ h.mesh.bc = h'.mesh.bc ∧ h.mesh.subs = h'.mesh.subs ∧
      h.nvdim = h'.nvdim ∧ h.unit = h'.unit ∧ h.vdims = h'.vdims ∧ h.vmap = h'.vmap ∧
      ∀ j, inRange h.mesh.n j = true → h.data.get j = h'.data.get j ∧ h.valid.get j = h'.valid.get j := by
  have hmo := (metaInv_ok f hmi).1
  obtain ⟨g, hg⟩ := (getitem_region_accepts f hf hmo r1 hb1 hp1).2
  have hb2' : BoxIn f.mesh r2 := by
    refine ⟨hn2, ?_⟩
    intro a ha
    obtain ⟨c1, c2, c3⟩ := hin a ha
    obtain ⟨d1, d2, d3⟩ := hb1.2 a ha
    exact ⟨by linarith, c2, by linarith⟩
  obtain ⟨h', hh'⟩ := (getitem_region_accepts f hf hmo r2 hb2' hp2).2
  have gwf := op_wf f hf (.get (.region r1)) hb1 g hg
  obtain ⟨m1, m2, m3, m4, gmi⟩ := op_meta_kept f hmi (.get (.region r1)) g hg
  obtain ⟨m1', m2', m3', m4', _⟩ := op_meta_kept f hmi (.get (.region r2)) h' hh'
  obtain ⟨hgm, _⟩ := getitem_region_pointwise f hf r1 hb1 g hg
  obtain ⟨e1, _, _, hax⟩ := getRegion_smallest f.mesh hf.1 r1 hb1 g.mesh hgm
  have hb2 : BoxIn g.mesh r2 := by
    refine ⟨by rw [e1]; exact hn2, ?_⟩
    intro a ha
    rw [e1] at ha
    obtain ⟨_, _, _, _, _, _, _, _, q5, q6, _, _⟩ := hax a ha
    obtain ⟨c1, c2, c3⟩ := hin a ha
    exact ⟨by linarith, c2, by linarith⟩
  obtain ⟨h, hh⟩ := (getitem_region_accepts g gwf (metaInv_ok g gmi).1 r2 hb2 (by rw [e1]; exact hp2)).2
  obtain ⟨n1, n2, n3, n4, _⟩ := op_meta_kept g gmi (.get (.region r2)) h hh
  obtain ⟨r1', r2', r3'⟩ := getitem_getitem f hf r1 r2 hb1 g h h' hg hb2 hh hh'
  obtain ⟨u1, _⟩ := op_subs_bc g (.get (.region r2)) h hh
  obtain ⟨u1', _⟩ := op_subs_bc f (.get (.region r2)) h' hh'
  obtain ⟨v1, v2⟩ := u1 _ rfl
  obtain ⟨v1', v2'⟩ := u1' _ rfl
  exact ⟨g, h, h', hg, hh, hh', r1', r2', by rw [v2, v2'], by rw [v1, v1'],
    by rw [n1, m1, m1'], by rw [n2, m2, m2'], by rw [n3, m3, m3'], by rw [n4, m4, m4'], r3'⟩

/-- Pad / crop round trip on inputs only: for a well-formed field in constructor state, existing axes
and non-negative widths, in every mode, `pad` is accepted, extracting the original region from the
result is accepted, and the outcome is the original field — region (corners, names, units,
tolerance), cell counts, component count, unit, labels, mapping, every value and every validity bit;
the mesh of the outcome has no boundary condition and no subregions (as after every `__getitem__`). -/
theorem pad_crop_total (f : Fld) (hf : FldWF f) (hmi : MetaInv f) (pw : List PadW)
    (hnd : (pw.map (·.dim)).Nodup)
    (hdims : ∀ w, w ∈ pw → ∃ a, f.mesh.region.dim2index w.dim = .ok a)
    (hpos : ∀ w, w ∈ pw → 0 ≤ w.lo ∧ 0 ≤ w.hi)
    (hbc : Mesh.bcOk f.mesh.region.dims f.mesh.bc.toLower = true) (mode : PadMode) :
    ∃ g h, padFld f pw mode = .ok g ∧ getItem g (.region f.mesh.region) = .ok h ∧
      h.mesh.region = f.mesh.region ∧ h.mesh.n = f.mesh.n ∧ h.mesh.bc = "" ∧ h.mesh.subs = [] ∧
      h.nvdim = f.nvdim ∧ h.unit = f.unit ∧ h.vdims = f.vdims ∧ h.vmap = f.vmap ∧
      ∀ j, inRange f.mesh.n j = true → h.data.get j = f.data.get j ∧ h.valid.get j = f.valid.get j := by
  obtain ⟨g, hg⟩ := (pad_accepts f hf (metaInv_ok f hmi).1 pw hnd hdims hpos hbc mode).2
  obtain ⟨h, hh⟩ := pad_crop_accepts f hf hmi pw hnd mode g hg
  obtain ⟨r1, r2, r3, r4, r5⟩ := pad_crop_roundtrip f hf pw hnd mode g hg h hh
  obtain ⟨a1, a2, a3, a4, a5⟩ := op_meta_kept f hmi (.pad pw mode) g hg
  obtain ⟨b1, b2, b3, b4, _⟩ := op_meta_kept g a5 (.get (.region f.mesh.region)) h hh
  exact ⟨g, h, hg, hh, r1, r2, r3, r4, by rw [b1, a1], by rw [b2, a2], by rw [b3, a3], by rw [b4, a4], r5⟩

/-- Resampling to the field's own cell counts is always accepted and is the identity (on a mesh
without boundary condition and subregions). -/
theorem resample_id_total (f : Fld) (hf : FldWF f) (hmi : MetaInv f) :
    ∃ g, resample f (f.mesh.n.map Int.ofNat) = .ok g ∧
      g.mesh.region = f.mesh.region ∧ g.mesh.n = f.mesh.n ∧ g.mesh.bc = "" ∧ g.mesh.subs = [] ∧
      g.nvdim = f.nvdim ∧ g.unit = f.unit ∧ g.vdims = f.vdims ∧ g.vmap = f.vmap ∧
      ∀ j, inRange f.mesh.n j = true → g.data.get j = f.data.get j ∧ g.valid.get j = f.valid.get j := by
  obtain ⟨g, hg⟩ := resample_accepts f hf.1 (metaInv_ok f hmi).1 (f.mesh.n.map Int.ofNat)
    (by rw [List.length_map]; exact inv_n_length hf.1)
    (by
      intro k hk
      obtain ⟨z, hz, rfl⟩ := List.mem_map.mp hk
      obtain ⟨a, ha, rfl⟩ := mem_getD f.mesh.n z 0 hz
      have := inv_n_pos hf.1 (show a < f.mesh.ndim by rw [← inv_n_length hf.1]; exact ha)
      show (0 : Int) < ((f.mesh.n.getD a 0 : Nat) : Int)
      exact_mod_cast this)
  obtain ⟨r1, r2, r3⟩ := resample_id f hf g hg
  obtain ⟨a1, a2, a3, a4, _⟩ := op_meta_kept f hmi (.resample _) g hg
  obtain ⟨_, _, s3, _⟩ := op_subs_bc f (.resample _) g hg
  obtain ⟨s3a, s3b⟩ := s3 _ rfl
  exact ⟨g, hg, r1, r2, s3b, s3a, a1, a2, a3, a4, r3⟩

/-- Refining first never changes a later resampling: if `g` is `f` refined by integer factors, then
resampling `g` to ANY counts `n2` gives the same field as resampling `f` to `n2` — same region, same
counts, same value and validity in every cell (`⌊⌊x·r⌋/r⌋ = ⌊x⌋`; `resample_refine_back_id` is the
case `n2 = n`). -/
theorem resample_via_refinement (f : Fld) (hf : FldWF f) (n : List Int) (g : Fld)
    (hg : resample f n = .ok g) (r : Nat → Nat)
    (hr : ∀ b, b < f.mesh.ndim → 0 < r b ∧ g.mesh.nAt b = r b * f.mesh.nAt b)
    (n2 : List Int) (k k' : Fld) (hk : resample g n2 = .ok k) (hk' : resample f n2 = .ok k') :
    k.mesh.region = k'.mesh.region ∧ k.mesh.n = k'.mesh.n ∧
    ∀ j, inRange k.mesh.n j = true → k.data.get j = k'.data.get j ∧ k.valid.get j = k'.valid.get j := by
  have hgwf := op_wf f hf (.resample n) trivial g hg
  have hkwf := op_wf g hgwf (.resample n2) trivial k hk
  obtain ⟨r1, _, _, _⟩ := resample_region f n g hg
  obtain ⟨s1, s2, _, _⟩ := resample_region g n2 k hk
  obtain ⟨t1, t2, _, _⟩ := resample_region f n2 k' hk'
  have hgn : g.mesh.ndim = f.mesh.ndim := by unfold Mesh.ndim; rw [r1]
  have hkn : k.mesh.ndim = f.mesh.ndim := by unfold Mesh.ndim; rw [s1, r1]
  have hn : k.mesh.n = k'.mesh.n := by rw [s2, t2]
  refine ⟨by rw [s1, t1, r1], hn, ?_⟩
  intro j hj
  obtain ⟨c2, c3⟩ := resample_source_cell g hgwf n2 k hk j hj
  obtain ⟨d2, d3⟩ := resample_source_cell f hf n2 k' hk' j (by rw [← hn]; exact hj)
  rw [hgn] at c2 c3
  have hjb : ∀ b, b < f.mesh.ndim → j.getD b 0 < k.mesh.nAt b := fun b hb =>
    inRange_getD _ _ hj b (by rw [inv_n_length hkwf.1, hkn]; exact hb)
  have hin : inRange g.mesh.n
      (tab f.mesh.ndim fun b => ((2 * j.getD b 0 + 1) * g.mesh.nAt b) / (2 * k.mesh.nAt b)) = true := by
    have hlen : g.mesh.n.length = f.mesh.ndim := by rw [inv_n_length hgwf.1, hgn]
    apply inRange_of_getD _ _ (by rw [hlen, tab_length])
    intro b hb
    rw [hlen] at hb
    rw [getD_tab _ _ _ _ hb]
    show _ < g.mesh.nAt b
    have h1 := hjb b hb
    have hgp := inv_n_pos hgwf.1 (show b < g.mesh.ndim by omega)
    rw [Nat.div_lt_iff_lt_mul (by omega)]
    calc (2 * j.getD b 0 + 1) * g.mesh.nAt b < (2 * k.mesh.nAt b) * g.mesh.nAt b :=
          Nat.mul_lt_mul_of_pos_right (by omega) hgp
      _ = g.mesh.nAt b * (2 * k.mesh.nAt b) := Nat.mul_comm _ _
  obtain ⟨e2, e3⟩ := resample_refine f hf n g hg r hr _ hin
  have hidx : (tab f.mesh.ndim fun b =>
      (tab f.mesh.ndim fun b => ((2 * j.getD b 0 + 1) * g.mesh.nAt b) / (2 * k.mesh.nAt b)).getD b 0 / r b)
      = tab f.mesh.ndim fun b => ((2 * j.getD b 0 + 1) * f.mesh.nAt b) / (2 * k'.mesh.nAt b) := by
    apply tab_congr
    intro b hb
    rw [getD_tab _ _ _ _ hb, (hr b hb).2]
    have : k.mesh.nAt b = k'.mesh.nAt b := by rw [nAt_def, nAt_def, hn]
    rw [this]
    exact via_div _ _ _ _ (hr b hb).1
  rw [hidx] at e2 e3
  rw [c2, c3, e2, e3, d2, d3]
  exact ⟨rfl, rfl⟩


/-- The same on inputs only: for every well-formed field in constructor state, all positive refinement
factors and all positive target counts, the three resamplings are accepted and the two routes give
the same object (mesh, metadata, values, validity). -/
theorem resample_via_refinement_total (f : Fld) (hf : FldWF f) (hmi : MetaInv f) (r : Nat → Nat)
    (hr : ∀ b, b < f.mesh.ndim → 0 < r b) (n2 : List Int) (hl : n2.length = f.mesh.ndim)
    (hpos : ∀ k, k ∈ n2 → 0 < k) :
    ∃ g k k', resample f (tab f.mesh.ndim fun b => ((r b * f.mesh.nAt b : Nat) : Int)) = .ok g ∧
      resample g n2 = .ok k ∧ resample f n2 = .ok k' ∧
      k.mesh = k'.mesh ∧ k.nvdim = k'.nvdim ∧ k.unit = k'.unit ∧ k.vdims = k'.vdims ∧ k.vmap = k'.vmap ∧
      ∀ j, inRange k.mesh.n j = true → k.data.get j = k'.data.get j ∧ k.valid.get j = k'.valid.get j := by
  have hmo := (metaInv_ok f hmi).1
  obtain ⟨g, hg⟩ := resample_accepts f hf.1 hmo (tab f.mesh.ndim fun b => ((r b * f.mesh.nAt b : Nat) : Int))
    (by rw [tab_length])
    (by
      intro k hk
      obtain ⟨b, hb, rfl⟩ := mem_getD _ k 0 hk
      rw [tab_length] at hb
      rw [getD_tab _ _ _ _ hb]
      have := Nat.mul_pos (hr b hb) (inv_n_pos hf.1 hb)
      exact_mod_cast this)
  have gwf := op_wf f hf (.resample _) trivial g hg
  obtain ⟨m1, m2, m3, m4, gmi⟩ := op_meta_kept f hmi (.resample _) g hg
  obtain ⟨r1, r2, _, _⟩ := resample_region f _ g hg
  have hgn : g.mesh.ndim = f.mesh.ndim := by unfold Mesh.ndim; rw [r1]
  obtain ⟨k, hk⟩ := resample_accepts g gwf.1 (metaInv_ok g gmi).1 n2 (by rw [hl, hgn]) hpos
  obtain ⟨k', hk'⟩ := resample_accepts f hf.1 hmo n2 hl hpos
  obtain ⟨n1, n2', n3, n4, _⟩ := op_meta_kept g gmi (.resample n2) k hk
  obtain ⟨m1', m2', m3', m4', _⟩ := op_meta_kept f hmi (.resample n2) k' hk'
  have hrr : ∀ b, b < f.mesh.ndim → 0 < r b ∧ g.mesh.nAt b = r b * f.mesh.nAt b := by
    intro b hb
    refine ⟨hr b hb, ?_⟩
    rw [nAt_def, r2, List.getD_eq_getElem?_getD, List.getElem?_map]
    have : (tab f.mesh.ndim fun b => ((r b * f.mesh.nAt b : Nat) : Int))[b]? = some ((r b * f.mesh.nAt b : Nat) : Int) := by
      unfold tab
      rw [List.getElem?_map, List.getElem?_range hb]; rfl
    rw [this]
    simp only [Option.map_some, Option.getD_some]
    exact Int.toNat_natCast _
  obtain ⟨q1, q2, q3⟩ := resample_via_refinement f hf _ g hg r hrr n2 k k' hk hk'
  obtain ⟨_, _, s3, _⟩ := op_subs_bc g (.resample n2) k hk
  obtain ⟨_, _, s3', _⟩ := op_subs_bc f (.resample n2) k' hk'
  obtain ⟨u1, u2⟩ := s3 _ rfl
  obtain ⟨u1', u2'⟩ := s3' _ rfl
  have hmesh : k.mesh = k'.mesh := by
    cases hkm : k.mesh; cases hkm' : k'.mesh
    rw [hkm] at q1 q2 u1 u2; rw [hkm'] at q1 q2 u1' u2'
    simp only at q1 q2 u1 u2 u1' u2'
    simp only [Mesh.mk.injEq]
    exact ⟨q1, q2, by rw [u2, u2'], by rw [u1, u1']⟩
  exact ⟨g, k, k', hg, hk, hk', hmesh, by rw [n1, m1, m1'], by rw [n2', m2, m2'], by rw [n3, m3, m3'],
    by rw [n4, m4, m4'], q3⟩

/-! ## Padding modes at object level -/

/-- Mode `wrap` at object level, every width (also wider than the axis): every cell of the padded field
holds value and validity of a source cell whose centre is a whole number of edge lengths away along
every axis. -/
theorem pad_wrap_pointwise (f : Fld) (hf : FldWF f) (pw : List PadW) (hnd : (pw.map (·.dim)).Nodup)
    (g : Fld) (h : padFld f pw .wrap = .ok g) (j : List Nat) :
    ∃ i, inRange f.mesh.n i = true ∧
      (∀ b, b < f.mesh.ndim → ∃ k : Int,
        g.mesh.centreAx b ((j.getD b 0 : Nat) : Int)
          = f.mesh.centreAx b ((i.getD b 0 : Nat) : Int) + (k : Rat) * (f.mesh.region.hi b - f.mesh.region.lo b)) ∧
      g.data.get j = f.data.get i ∧ g.valid.get j = f.valid.get i := by
  refine pad_pointwise_gen f hf pw hnd .wrap g h j (fun b i0 => ∃ k : Int,
    g.mesh.centreAx b ((j.getD b 0 : Nat) : Int)
      = f.mesh.centreAx b ((i0 : Nat) : Int) + (k : Rat) * (f.mesh.region.hi b - f.mesh.region.lo b)) ?_
  intro b hb
  obtain ⟨i0, h0, h1, k, hk⟩ := padSrc_wrap (f.mesh.nAt b) (sumW f.mesh (·.lo) pw b).toNat (j.getD b 0)
    (inv_n_pos hf.1 hb)
  refine ⟨i0, h0, h1, k, ?_⟩
  rw [pad_centre f hf pw hnd .wrap g h b hb, centreAx_cast, ← cover f.mesh b (inv_n_pos hf.1 hb)]
  have hj : ((j.getD b 0 : Nat) : Rat) - (((sumW f.mesh (·.lo) pw b).toNat : Nat) : Rat)
      = (i0 : Rat) + (k : Rat) * (f.mesh.nAt b : Rat) := by exact_mod_cast hk
  rw [hj]; ring

/-- Mode `symmetric` at object level, every width: along every axis the source cell's centre is the
padded cell's centre shifted by an even number of edge lengths, or its mirror image about a
(periodically repeated) boundary face `lo + k·edge`. -/
theorem pad_symmetric_pointwise (f : Fld) (hf : FldWF f) (pw : List PadW) (hnd : (pw.map (·.dim)).Nodup)
    (g : Fld) (h : padFld f pw .symmetric = .ok g) (j : List Nat) :
    ∃ i, inRange f.mesh.n i = true ∧
      (∀ b, b < f.mesh.ndim → ∃ k : Int,
        g.mesh.centreAx b ((j.getD b 0 : Nat) : Int)
          = f.mesh.centreAx b ((i.getD b 0 : Nat) : Int)
            + 2 * (k : Rat) * (f.mesh.region.hi b - f.mesh.region.lo b) ∨
        g.mesh.centreAx b ((j.getD b 0 : Nat) : Int)
          = 2 * (f.mesh.region.lo b + (k : Rat) * (f.mesh.region.hi b - f.mesh.region.lo b))
            - f.mesh.centreAx b ((i.getD b 0 : Nat) : Int)) ∧
      g.data.get j = f.data.get i ∧ g.valid.get j = f.valid.get i := by
  refine pad_pointwise_gen f hf pw hnd .symmetric g h j (fun b i0 => ∃ k : Int,
    g.mesh.centreAx b ((j.getD b 0 : Nat) : Int)
      = f.mesh.centreAx b ((i0 : Nat) : Int) + 2 * (k : Rat) * (f.mesh.region.hi b - f.mesh.region.lo b) ∨
    g.mesh.centreAx b ((j.getD b 0 : Nat) : Int)
      = 2 * (f.mesh.region.lo b + (k : Rat) * (f.mesh.region.hi b - f.mesh.region.lo b))
        - f.mesh.centreAx b ((i0 : Nat) : Int)) ?_
  intro b hb
  obtain ⟨i0, h0, h1, k, hk⟩ := padSrc_symmetric (f.mesh.nAt b) (sumW f.mesh (·.lo) pw b).toNat (j.getD b 0)
    (inv_n_pos hf.1 hb)
  refine ⟨i0, h0, h1, k, ?_⟩
  rw [pad_centre f hf pw hnd .symmetric g h b hb, centreAx_cast, ← cover f.mesh b (inv_n_pos hf.1 hb)]
  rcases hk with hk | hk
  · left
    have hj : ((j.getD b 0 : Nat) : Rat) - (((sumW f.mesh (·.lo) pw b).toNat : Nat) : Rat)
        = (i0 : Rat) + (k : Rat) * (2 * (f.mesh.nAt b : Rat)) := by exact_mod_cast hk
    rw [hj]; ring
  · right
    have hj : ((j.getD b 0 : Nat) : Rat) - (((sumW f.mesh (·.lo) pw b).toNat : Nat) : Rat)
        = -1 - (i0 : Rat) + (k : Rat) * (2 * (f.mesh.nAt b : Rat)) := by exact_mod_cast hk
    rw [hj]; ring

/-- Mode `reflect` at object level, every width (axes of at least two cells): along every axis the
source cell's centre is the padded cell's centre shifted by a multiple of `2(n-1)` cells, or its
mirror image about the centre of a (periodically repeated) boundary cell `k(n-1)`. -/
theorem pad_reflect_pointwise (f : Fld) (hf : FldWF f) (pw : List PadW) (hnd : (pw.map (·.dim)).Nodup)
    (hn2 : ∀ b, b < f.mesh.ndim → 2 ≤ f.mesh.nAt b)
    (g : Fld) (h : padFld f pw .reflect = .ok g) (j : List Nat) :
    ∃ i, inRange f.mesh.n i = true ∧
      (∀ b, b < f.mesh.ndim → ∃ k : Int,
        g.mesh.centreAx b ((j.getD b 0 : Nat) : Int)
          = f.mesh.centreAx b ((i.getD b 0 : Nat) : Int)
            + 2 * (k : Rat) * ((f.mesh.nAt b : Rat) - 1) * f.mesh.cellAt b ∨
        g.mesh.centreAx b ((j.getD b 0 : Nat) : Int)
          = 2 * (f.mesh.region.lo b + ((k : Rat) * ((f.mesh.nAt b : Rat) - 1) + 1 / 2) * f.mesh.cellAt b)
            - f.mesh.centreAx b ((i.getD b 0 : Nat) : Int)) ∧
      g.data.get j = f.data.get i ∧ g.valid.get j = f.valid.get i := by
  refine pad_pointwise_gen f hf pw hnd .reflect g h j (fun b i0 => ∃ k : Int,
    g.mesh.centreAx b ((j.getD b 0 : Nat) : Int)
      = f.mesh.centreAx b ((i0 : Nat) : Int) + 2 * (k : Rat) * ((f.mesh.nAt b : Rat) - 1) * f.mesh.cellAt b ∨
    g.mesh.centreAx b ((j.getD b 0 : Nat) : Int)
      = 2 * (f.mesh.region.lo b + ((k : Rat) * ((f.mesh.nAt b : Rat) - 1) + 1 / 2) * f.mesh.cellAt b)
        - f.mesh.centreAx b ((i0 : Nat) : Int)) ?_
  intro b hb
  obtain ⟨i0, h0, h1, k, hk⟩ := padSrc_reflect (f.mesh.nAt b) (sumW f.mesh (·.lo) pw b).toNat (j.getD b 0)
    (hn2 b hb)
  refine ⟨i0, h0, h1, k, ?_⟩
  rw [pad_centre f hf pw hnd .reflect g h b hb, centreAx_cast]
  rcases hk with hk | hk
  · left
    have hj : ((j.getD b 0 : Nat) : Rat) - (((sumW f.mesh (·.lo) pw b).toNat : Nat) : Rat)
        = (i0 : Rat) + (k : Rat) * (2 * (f.mesh.nAt b : Rat) - 2) := by exact_mod_cast hk
    rw [hj]; ring
  · right
    have hj : ((j.getD b 0 : Nat) : Rat) - (((sumW f.mesh (·.lo) pw b).toNat : Nat) : Rat)
        = -(i0 : Rat) + (k : Rat) * (2 * (f.mesh.nAt b : Rat) - 2) := by exact_mod_cast hk
    rw [hj]; ring

/-- Mode `edge` at object level: every padded cell holds the source cell nearest to it — index 0 in
front of the source, `n-1` behind it, `j - L` inside, on every axis. -/
theorem pad_edge_pointwise (f : Fld) (hf : FldWF f) (pw : List PadW) (hnd : (pw.map (·.dim)).Nodup)
    (g : Fld) (h : padFld f pw .edge = .ok g) (j : List Nat) :
    ∃ i, inRange f.mesh.n i = true ∧
      (∀ b, b < f.mesh.ndim →
        (j.getD b 0 < (sumW f.mesh (·.lo) pw b).toNat → i.getD b 0 = 0) ∧
        ((sumW f.mesh (·.lo) pw b).toNat + f.mesh.nAt b ≤ j.getD b 0 → i.getD b 0 = f.mesh.nAt b - 1) ∧
        ((sumW f.mesh (·.lo) pw b).toNat ≤ j.getD b 0 → j.getD b 0 < (sumW f.mesh (·.lo) pw b).toNat + f.mesh.nAt b →
          i.getD b 0 = j.getD b 0 - (sumW f.mesh (·.lo) pw b).toNat)) ∧
      g.data.get j = f.data.get i ∧ g.valid.get j = f.valid.get i := by
  refine pad_pointwise_gen f hf pw hnd .edge g h j (fun b i0 =>
    (j.getD b 0 < (sumW f.mesh (·.lo) pw b).toNat → i0 = 0) ∧
    ((sumW f.mesh (·.lo) pw b).toNat + f.mesh.nAt b ≤ j.getD b 0 → i0 = f.mesh.nAt b - 1) ∧
    ((sumW f.mesh (·.lo) pw b).toNat ≤ j.getD b 0 → j.getD b 0 < (sumW f.mesh (·.lo) pw b).toNat + f.mesh.nAt b →
      i0 = j.getD b 0 - (sumW f.mesh (·.lo) pw b).toNat)) ?_
  intro b hb
  have hn := inv_n_pos hf.1 hb
  by_cases hin : (sumW f.mesh (·.lo) pw b).toNat ≤ j.getD b 0 ∧ j.getD b 0 < (sumW f.mesh (·.lo) pw b).toNat + f.mesh.nAt b
  · refine ⟨_, padSrc_inside .edge _ _ _ hin.1 hin.2, by omega, fun h => by omega, fun h => by omega, fun _ _ => rfl⟩
  · rw [padSrc_edge _ _ _ hin]
    by_cases hlt : j.getD b 0 < (sumW f.mesh (·.lo) pw b).toNat
    · rw [if_pos hlt]
      exact ⟨0, rfl, hn, fun _ => rfl, fun h => by omega, fun h1 h2 => by omega⟩
    · rw [if_neg hlt]
      exact ⟨_, rfl, by omega, fun h => absurd h hlt, fun _ => rfl, fun h1 h2 => absurd ⟨h1, h2⟩ hin⟩

/-- Mode `constant` at object level: a cell outside the source along some axis holds zeros and is
invalid. -/
theorem pad_constant_pointwise (f : Fld) (hf : FldWF f) (pw : List PadW) (hnd : (pw.map (·.dim)).Nodup)
    (g : Fld) (h : padFld f pw .constant = .ok g) (j : List Nat) (b : Nat) (hb : b < f.mesh.ndim)
    (hout : ¬ ((sumW f.mesh (·.lo) pw b).toNat ≤ j.getD b 0 ∧
      j.getD b 0 < (sumW f.mesh (·.lo) pw b).toNat + f.mesh.nAt b)) :
    g.data.get j = List.replicate f.nvdim 0 ∧ g.valid.get j = false :=
  pad_fill_axis f hf pw hnd .constant g h j b hb (padSrc_constant _ _ _ hout)

/-- Paddings of one field are restrictions of one continuation, in every mode and for all widths: if the
total widths of `pw'` do not exceed those of `pw` on any side, then extracting the region of the
smaller padding from the larger padded field is accepted and returns the smaller padding — same
region, same cell counts, every value and validity bit.  (`pad_crop_roundtrip` is the case of no
padding at all.) -/
theorem pad_crop_smaller (f : Fld) (hf : FldWF f) (pw pw' : List PadW)
    (hnd : (pw.map (·.dim)).Nodup) (hnd' : (pw'.map (·.dim)).Nodup) (mode : PadMode) (g g' : Fld)
    (hg : padFld f pw mode = .ok g) (hg' : padFld f pw' mode = .ok g')
    (hle : ∀ b, b < f.mesh.ndim → sumW f.mesh (·.lo) pw' b ≤ sumW f.mesh (·.lo) pw b ∧
      sumW f.mesh (·.hi) pw' b ≤ sumW f.mesh (·.hi) pw b)
    (hmi : MetaInv f) :
    ∃ h, getItem g (.region g'.mesh.region) = .ok h ∧
      h.mesh.region = g'.mesh.region ∧ h.mesh.n = g'.mesh.n ∧
      ∀ j, inRange g'.mesh.n j = true → h.data.get j = g'.data.get j ∧ h.valid.get j = g'.valid.get j := by
  have hgwf := op_wf f hf (.pad pw mode) hnd g hg
  have hgwf' := op_wf f hf (.pad pw' mode) hnd' g' hg'
  obtain ⟨p1, p2, _, _⟩ := padFld_inv f hf pw hnd mode g hg
  obtain ⟨p1', p2', _, _⟩ := padFld_inv f hf pw' hnd' mode g' hg'
  obtain ⟨e1, e2, e3, e4, e5, _, e7, e8⟩ :=
    padMesh_inv f.mesh hf.1 pw (fun b _ => (p2 b).1) (fun b _ => (p2 b).2) g.mesh p1
  obtain ⟨e1', e2', e3', e4', e5', _, e7', e8'⟩ :=
    padMesh_inv f.mesh hf.1 pw' (fun b _ => (p2' b).1) (fun b _ => (p2' b).2) g'.mesh p1'
  -- abbreviations
  obtain ⟨L, hL⟩ : ∃ L : Nat → Nat, ∀ b, L b = (sumW f.mesh (·.lo) pw b).toNat := ⟨_, fun _ => rfl⟩
  obtain ⟨L', hL'⟩ : ∃ L' : Nat → Nat, ∀ b, L' b = (sumW f.mesh (·.lo) pw' b).toNat := ⟨_, fun _ => rfl⟩
  obtain ⟨H, hH⟩ : ∃ H : Nat → Nat, ∀ b, H b = (sumW f.mesh (·.hi) pw b).toNat := ⟨_, fun _ => rfl⟩
  obtain ⟨H', hH'⟩ : ∃ H' : Nat → Nat, ∀ b, H' b = (sumW f.mesh (·.hi) pw' b).toNat := ⟨_, fun _ => rfl⟩
  have hLL : ∀ b, b < f.mesh.ndim → L' b ≤ L b ∧ H' b ≤ H b := by
    intro b hb
    obtain ⟨c1, c2⟩ := hle b hb
    have := (p2 b); have := (p2' b)
    rw [hL, hL', hH, hH']
    omega
  have hal : SubAligned g.mesh g'.mesh.region (fun b => L b - L' b)
      (fun b => L b - L' b + (f.mesh.nAt b + L' b + H' b)) := by
    refine ⟨by show g'.mesh.ndim = g.mesh.ndim; rw [e1, e1'], by rw [e7', e1], ?_⟩
    intro b hb
    rw [e1] at hb
    obtain ⟨h1, h2, h3, blk⟩ := e8 b hb
    obtain ⟨h1', h2', h3', blk'⟩ := e8' b hb
    rw [← hL, ← hH] at h1
    rw [← hL] at h2
    rw [← hH] at h3
    rw [← hL', ← hH'] at h1'
    rw [← hL'] at h2'
    rw [← hH'] at h3'
    obtain ⟨l1, l2⟩ := hLL b hb
    have hn := inv_n_pos hf.1 hb
    have hc : g.mesh.cellAt b = f.mesh.cellAt b := blk.cell.symm
    have cL : ((L b - L' b : Nat) : Rat) = (L b : Rat) - (L' b : Rat) := by
      push_cast [Nat.cast_sub l1]; ring
    refine ⟨?_, ?_, ?_, ?_⟩
    · show L b - L' b < L b - L' b + (f.mesh.nAt b + L' b + H' b)
      omega
    · show L b - L' b + (f.mesh.nAt b + L' b + H' b) ≤ g.mesh.nAt b
      rw [h1]; omega
    · show g'.mesh.region.lo b = g.mesh.region.lo b + ((L b - L' b : Nat) : Rat) * g.mesh.cellAt b
      rw [h2', h2, hc, cL]; ring
    · show g'.mesh.region.hi b
        = g.mesh.region.lo b + ((L b - L' b + (f.mesh.nAt b + L' b + H' b) : Nat) : Rat) * g.mesh.cellAt b
      rw [h3', h2, hc, hi_eq f.mesh b hn]
      push_cast
      rw [cL]; ring
  obtain ⟨_, _, hgmi⟩ := op_meta_passthrough f hmi (.pad pw mode) g hg
  obtain ⟨h, hh⟩ := (getitem_region_accepts g hgwf (metaInv_ok g hgmi).1 g'.mesh.region
    (boxIn_of_aligned g.mesh hgwf.1 _ _ _ hal) (by rw [e7', e1])).2
  refine ⟨h, hh, ?_⟩
  obtain ⟨a1, a2, a3, a4, a5, a6, a7, _, _, a10⟩ :=
    getitem_aligned_pointwise g hgwf g'.mesh.region _ _ hal h hh
  have hn : h.mesh.n = g'.mesh.n := by
    apply list_ext_getD _ _ 0 (by rw [a3, e2', e1])
    intro b hb
    rw [a3, e1] at hb
    have := (a1 b (by rw [e1]; exact hb)).2.2
    rw [nAt_def] at this
    rw [this]
    show _ = g'.mesh.nAt b
    rw [(e8' b hb).1, ← hL', ← hH']
    show L b - L' b + (f.mesh.nAt b + L' b + H' b) - (L b - L' b) = f.mesh.nAt b + L' b + H' b
    omega
  refine ⟨?_, hn, ?_⟩
  · apply region_ext _ _ (by show h.mesh.ndim = g'.mesh.ndim; rw [a2, e1, e1'])
      (by rw [e7']; exact e1'.symm) (by rw [a4, e1]; exact e1'.symm)
      (fun b hb => (a1 b (by rw [e1]; rw [show g'.mesh.region.pmin.length = g'.mesh.ndim from rfl, e1'] at hb; exact hb)).1)
      (fun b hb => (a1 b (by rw [e1]; rw [show g'.mesh.region.pmin.length = g'.mesh.ndim from rfl, e1'] at hb; exact hb)).2.1)
      (by rw [a5, e3, e3']) (by rw [a6, e4, e4']) (by rw [a7, e5, e5'])
  · intro j hj
    obtain ⟨q2, q3⟩ := a10 j (by rw [hn]; exact hj)
    obtain ⟨_, r2, r3⟩ := pad_rule f hf pw hnd mode g hg
      (tab g.mesh.ndim fun b => L b - L' b + j.getD b 0)
    obtain ⟨_, r2', r3'⟩ := pad_rule f hf pw' hnd' mode g' hg' j
    have hidx : padSrcIdx mode f.mesh.n (fun b => (sumW f.mesh (·.lo) pw b, sumW f.mesh (·.hi) pw b))
        (tab g.mesh.ndim fun b => L b - L' b + j.getD b 0)
        = padSrcIdx mode f.mesh.n (fun b => (sumW f.mesh (·.lo) pw' b, sumW f.mesh (·.hi) pw' b)) j := by
      unfold padSrcIdx
      rw [inv_n_length hf.1]
      have hax : ∀ b, b < f.mesh.ndim →
          padSrc mode (f.mesh.n.getD b 0) (sumW f.mesh (·.lo) pw b).toNat
            ((tab g.mesh.ndim fun b => L b - L' b + j.getD b 0).getD b 0)
          = padSrc mode (f.mesh.n.getD b 0) (sumW f.mesh (·.lo) pw' b).toNat (j.getD b 0) := by
        intro b hb
        rw [getD_tab _ _ _ _ (by rw [e1]; exact hb)]
        have l1 := (hLL b hb).1
        have hs := padSrc_shift mode (f.mesh.n.getD b 0) (L' b) (L b - L' b) (j.getD b 0)
        have e1 : L' b + (L b - L' b) = L b := by omega
        have e2 : j.getD b 0 + (L b - L' b) = L b - L' b + j.getD b 0 := by omega
        rw [e1, e2] at hs
        rw [← hL, ← hL']
        exact hs
      have hall : allLt f.mesh.ndim (fun b =>
            (padSrc mode (f.mesh.n.getD b 0) (sumW f.mesh (·.lo) pw b).toNat
              ((tab g.mesh.ndim fun b => L b - L' b + j.getD b 0).getD b 0)).isSome)
          = allLt f.mesh.ndim (fun b =>
            (padSrc mode (f.mesh.n.getD b 0) (sumW f.mesh (·.lo) pw' b).toNat (j.getD b 0)).isSome) := by
        apply allLt_congr'
        intro b hb
        rw [hax b hb]
      simp only
      rw [hall]
      congr 1
      congr 1
      apply tab_congr
      intro b hb
      rw [hax b hb]
    rw [hidx] at r2 r3
    rw [q2, q3, r2, r3, r2', r3']
    exact ⟨rfl, rfl⟩

/-! ## Extraction by name, index slices -/

/-- Extraction by subregion name is extraction by that subregion's region: for a stored subregion
of whole cells (names, units, tolerance of the mesh region, as the setter stores it) `mesh[name] =
mesh[mesh.subregions[name]]` and `field[name] = field[field.mesh.subregions[name]]`, as objects. -/
theorem getitem_name_eq_region (f : Fld) (hf : FldWF f) (name : String) (s : Region)
    (hfind : findSub f.mesh.subs name = some s) (k1 k2 : Nat → Nat) (hal : SubAligned f.mesh s k1 k2)
    (hd : s.dims = f.mesh.region.dims) (hu : s.units = f.mesh.region.units) (ht : s.tol = f.mesh.region.tol) :
    getMesh f.mesh (.name name) = getMesh f.mesh (.region s) ∧
    getItem f (.name name) = getItem f (.region s) := by
  have hinv := hf.1
  have key : getMesh f.mesh (.name name) = getMesh f.mesh (.region s) := by
    obtain ⟨g1, hg1, hn1⟩ := getName_ok f.mesh hinv name s hfind k1 k2 hal
    have hbox := boxIn_of_aligned f.mesh hinv s k1 k2 hal
    obtain ⟨g2, hg2, hn2⟩ := getRegion_ok f.mesh hinv s hbox hal.2.1
    show getName f.mesh name = getRegion f.mesh s
    rw [hg1, hg2]
    congr 1
    obtain ⟨a1, _, _, _⟩ := getName_inv f.mesh hinv name s hfind k1 k2 hal g1 hg1
    obtain ⟨b1, b2⟩ := getMesh_bare f.mesh (.name name) g1 hg1
    obtain ⟨c1, c2⟩ := getMesh_bare f.mesh (.region s) g2 hg2
    obtain ⟨e1, e2, e3, e4, e5, e6, _, _, _⟩ := getRegion_inv f.mesh hinv s hbox g2 hg2
    have hax := getRegion_aligned_exact f.mesh hinv s k1 k2 hal g2 hg2
    have hreg : g2.region = s := by
      apply region_ext s g2.region (by show g2.ndim = s.ndim; rw [e1, hal.1]) (by rw [hal.2.1]; exact hal.1.symm)
        (by rw [e6]; exact hal.1.symm)
        (fun a ha => (hax a (by rw [← hal.1]; exact ha)).1)
        (fun a ha => (hax a (by rw [← hal.1]; exact ha)).2.1)
        (by rw [e3, hd]) (by rw [e4, hu]) (by rw [e5, ht])
    have hn : g1.n = g2.n := by
      rw [hn1, hn2]
      apply tab_congr
      intro a ha
      have h3 := (hax a ha).2.2
      rw [nAt_def, hn2, getD_tab _ _ _ _ ha] at h3
      exact h3.symm
    cases g1; cases g2
    simp only at a1 b1 b2 c1 c2 hreg hn
    simp only [Mesh.mk.injEq]
    exact ⟨by rw [a1, hreg], hn, by rw [b2, c2], by rw [b1, c1]⟩
  refine ⟨key, ?_⟩
  unfold getItem
  rw [key]

/-- The index slices of the mesh's own region are the full slices `0 : n`. -/
theorem region2slices_whole (m : Mesh) (hm : m.Inv) :
    region2slices m m.region = .ok (tab m.ndim fun a => (0, m.nAt a)) :=
  (region2slices_spec m hm m.region _ _ (whole_aligned m hm)).1

/-- Index slices are monotone in the region: a box inside another box (any boxes, aligned or not) gets
slices inside the other's slices on every axis. -/
theorem region2slices_mono (m : Mesh) (hm : m.Inv) (r1 r2 : Region) (s1 s2 : List (Nat × Nat))
    (h1 : region2slices m r1 = .ok s1) (h2 : region2slices m r2 = .ok s2)
    (hin : ∀ a, a < m.ndim → r2.lo a ≤ r1.lo a ∧ r1.hi a ≤ r2.hi a) :
    ∀ a, a < m.ndim → (s2.getD a (0, 0)).1 ≤ (s1.getD a (0, 0)).1 ∧ (s1.getD a (0, 0)).2 ≤ (s2.getD a (0, 0)).2 := by
  intro a ha
  rw [region2slices_inv m r1 s1 h1, region2slices_inv m r2 s2 h2, getD_tab _ _ _ _ ha, getD_tab _ _ _ _ ha]
  have hc := inv_cell_pos hm ha
  obtain ⟨c1, c2⟩ := hin a ha
  exact ⟨indexAx_mono m a _ _ hc (by linarith), Nat.succ_le_succ (indexAx_mono m a _ _ hc (by linarith))⟩

/-- Index slices of an ARBITRARY box (test points `lo + cell/2`, `hi - cell/2` inside the edge): along
each axis the slice consists exactly of the cells whose centre lies in `(lo, hi]` — a cell centre
exactly on the lower face of the box is left out, one on the upper face is taken. -/
theorem region2slices_cells (m : Mesh) (hm : m.Inv) (r : Region) (s : List (Nat × Nat))
    (h : region2slices m r = .ok s) (a : Nat) (ha : a < m.ndim)
    (hlo : m.region.lo a ≤ r.lo a + m.cellAt a / 2 ∧ r.lo a + m.cellAt a / 2 < m.region.hi a)
    (hhi : m.region.lo a ≤ r.hi a - m.cellAt a / 2 ∧ r.hi a - m.cellAt a / 2 ≤ m.region.hi a)
    (i : Nat) (hi : i < m.nAt a) :
    ((s.getD a (0, 0)).1 ≤ i ∧ i < (s.getD a (0, 0)).2) ↔
      (r.lo a < m.centreAx a (i : Int) ∧ m.centreAx a (i : Int) ≤ r.hi a) := by
  rw [region2slices_inv m r s h, getD_tab _ _ _ _ ha]
  have hc := inv_cell_pos hm ha
  have hn := inv_n_pos hm ha
  have hlt := inv_lo_lt_hi hm ha
  obtain ⟨p1, p2⟩ := index_contains m a (r.lo a + m.cellAt a / 2) hn hlt hlo.1 hlo.2.le
  obtain ⟨q1, q2⟩ := index_contains m a (r.hi a - m.cellAt a / 2) hn hlt hhi.1 hhi.2
  have hq := indexAx_lt m a (r.hi a - m.cellAt a / 2) hn
  rw [centreAx_cast]
  simp only
  set k1 := m.indexAx a (r.lo a + m.cellAt a / 2) with hk1
  set k2 := m.indexAx a (r.hi a - m.cellAt a / 2) with hk2
  have p2' : r.lo a + m.cellAt a / 2 < m.region.lo a + ((k1 : Rat) + 1) * m.cellAt a := by
    rcases p2 with p2 | ⟨_, p2⟩
    · exact p2
    · rw [p2] at hlo; exact absurd hlo.2 (lt_irrefl _)
  constructor
  · rintro ⟨a1, a2⟩
    have b1 : (k1 : Rat) ≤ (i : Rat) := by exact_mod_cast a1
    have b2 : (i : Rat) ≤ (k2 : Rat) := by exact_mod_cast (Nat.lt_succ_iff.mp a2)
    constructor <;> nlinarith
  · rintro ⟨a1, a2⟩
    have b1 : (k1 : Rat) < (i : Rat) + 1 := by
      by_contra hcon; rw [not_lt] at hcon
      have := mul_le_mul_of_nonneg_right hcon hc.le; nlinarith
    have n1 : k1 < i + 1 := by exact_mod_cast b1
    refine ⟨by omega, ?_⟩
    rcases q2 with q2 | ⟨q2, q3⟩
    · have b2 : (i : Rat) < (k2 : Rat) + 1 := by
        by_contra hcon; rw [not_lt] at hcon
        have := mul_le_mul_of_nonneg_right hcon hc.le; nlinarith
      have n2 : i < k2 + 1 := by exact_mod_cast b2
      exact n2
    · omega

/-! ## Requests at non-finite coordinates -/

/-- The extended model (coordinates may be `±inf` / `nan`, IEEE comparisons) refines the rational one:
on finite values `_sel_convert_input`, `Mesh.sel` and `Field.sel` are unchanged. -/
theorem sel_ext_refines (f : Fld) (dim : String) (arg : SelArg) :
    selConvertE f.mesh dim arg.toE = selConvert f.mesh dim arg ∧
    selMeshE f.mesh dim arg.toE = selMesh f.mesh dim arg ∧
    selFldE f dim arg.toE = selFld f dim arg :=
  ⟨selConvertE_fin _ _ _, selMeshE_fin _ _ _, selFldE_fin _ _ _⟩

/-- A selection at a non-finite coordinate — a point at `+inf`, `-inf` or `nan`, a range with such a
bound in either position — is refused by `_sel_convert_input`, `Mesh.sel` and `Field.sel`: `±inf`
fail the range test; `nan` passes it (both comparisons are false) and is refused by the containment
test of `point2index`; `sorted` leaves a pair with a `nan` in the given order. -/
theorem sel_nonfinite_rejected (f : Fld) (hf : f.mesh.Inv) (dim : String) (arg : SelArgE)
    (h : arg.NonFinite) :
    (∃ e, selConvertE f.mesh dim arg = .error e) ∧ (∃ e, selMeshE f.mesh dim arg = .error e) ∧
    (∃ e, selFldE f dim arg = .error e) := by
  obtain ⟨e, he⟩ := selConvertE_nonfin f.mesh hf dim arg h
  exact ⟨⟨e, he⟩, ⟨e, by unfold selMeshE; rw [he]⟩, ⟨e, by unfold selFldE; rw [he]⟩⟩

/-- Accepted ⇔ finite and accepted by the rational model (for all three levels). -/
theorem sel_ext_ok_iff (f : Fld) (hf : f.mesh.Inv) (dim : String) (arg : SelArgE) :
    ((∃ r, selConvertE f.mesh dim arg = .ok r) ↔
      ∃ a : SelArg, arg = a.toE ∧ ∃ r, selConvert f.mesh dim a = .ok r) ∧
    ((∃ g, selMeshE f.mesh dim arg = .ok g) ↔
      ∃ a : SelArg, arg = a.toE ∧ ∃ g, selMesh f.mesh dim a = .ok g) ∧
    ((∃ o, selFldE f dim arg = .ok o) ↔
      ∃ a : SelArg, arg = a.toE ∧ ∃ o, selFld f dim a = .ok o) := by
  rcases selArgE_cases arg with ⟨a, rfl⟩ | hn
  · have inj : ∀ a' : SelArg, a.toE = a'.toE → a = a' := by
      intro a' h
      cases a <;> cases a' <;> simp only [SelArg.toE] at h <;> first | rfl | cases h
      · rfl
      · rfl
    refine ⟨?_, ?_, ?_⟩
    · rw [selConvertE_fin]
      exact ⟨fun h => ⟨a, rfl, h⟩, fun ⟨a', ha', h⟩ => by rw [inj a' ha']; exact h⟩
    · rw [selMeshE_fin]
      exact ⟨fun h => ⟨a, rfl, h⟩, fun ⟨a', ha', h⟩ => by rw [inj a' ha']; exact h⟩
    · rw [selFldE_fin]
      exact ⟨fun h => ⟨a, rfl, h⟩, fun ⟨a', ha', h⟩ => by rw [inj a' ha']; exact h⟩
  · obtain ⟨⟨e1, h1⟩, ⟨e2, h2⟩, ⟨e3, h3⟩⟩ := sel_nonfinite_rejected f hf dim arg hn
    refine ⟨?_, ?_, ?_⟩
    · constructor
      · rintro ⟨r, hr⟩; rw [h1] at hr; cases hr
      · rintro ⟨a, rfl, _⟩; exact absurd hn (toE_not_nonfinite a)
    · constructor
      · rintro ⟨r, hr⟩; rw [h2] at hr; cases hr
      · rintro ⟨a, rfl, _⟩; exact absurd hn (toE_not_nonfinite a)
    · constructor
      · rintro ⟨r, hr⟩; rw [h3] at hr; cases hr
      · rintro ⟨a, rfl, _⟩; exact absurd hn (toE_not_nonfinite a)

/-- `Mesh.point2index` on points that may have non-finite coordinates: on finite points it is the
rational lookup; it answers exactly on the finite points the rational lookup answers on; a
non-finite coordinate on any axis of the mesh is refused. -/
theorem point2index_ext (m : Mesh) :
    (∀ p : List Rat, point2indexE m (p.map .fin) = m.point2index p) ∧
    (∀ (p : List ExtRat) (i : List Nat),
      point2indexE m p = .ok i ↔ ∃ q : List Rat, p = q.map .fin ∧ m.point2index q = .ok i) ∧
    (∀ (p : List ExtRat) (a : Nat), a < m.ndim → (∀ q, p.getD a (.fin 0) ≠ .fin q) →
      ∃ e, point2indexE m p = .error e) :=
  ⟨point2indexE_fin m, point2indexE_ok_iff m, fun p a ha hx => point2indexE_nonfin m p a ha hx⟩

/-- On finite corners `mesh[region]`, `field[region]` and `region2slices` of the extended model are
those of the rational model. -/
theorem getitem_ext_refines (f : Fld) (pmin pmax : List Rat) :
    getRegionE f.mesh (pmin.map .fin) (pmax.map .fin) = getRegion f.mesh (boxRegion pmin pmax) ∧
    getItemE f (pmin.map .fin) (pmax.map .fin) = getItem f (.region (boxRegion pmin pmax)) ∧
    region2slicesE f.mesh (pmin.map .fin) (pmax.map .fin) = region2slices f.mesh (boxRegion pmin pmax) :=
  ⟨getRegionE_fin _ _ _, getItemE_fin _ _ _, region2slicesE_fin _ _ _⟩

/-- A region built from corner points with a non-finite coordinate (`Region(p1, p2)` accepts it: the
edge is not zero) is refused by `mesh[region]`, `field[region]` and — on an axis of the mesh — by
`region2slices`. -/
theorem getitem_nonfinite_rejected (f : Fld) (p1 p2 : List ExtRat) (a : Nat) (ha : a < p1.length)
    (hx : (∀ q, p1.getD a (.fin 0) ≠ .fin q) ∨ (∀ q, p2.getD a (.fin 0) ≠ .fin q))
    (pmin pmax : List ExtRat) (hbox : boxMkE? p1 p2 = .ok (pmin, pmax)) :
    (∃ e, getRegionE f.mesh pmin pmax = .error e) ∧ (∃ e, getItemE f pmin pmax = .error e) ∧
    (a < f.mesh.ndim → ∃ e, region2slicesE f.mesh pmin pmax = .error e) := by
  obtain ⟨l1, l2, hnf⟩ := boxMkE_nonfin p1 p2 pmin pmax hbox a ha hx
  have hnot : ¬ ((∃ l : List Rat, pmin = l.map .fin) ∧ ∃ l : List Rat, pmax = l.map .fin) := by
    rintro ⟨⟨u, hu⟩, ⟨v, hv⟩⟩
    rcases hnf with h | h
    · rw [hu] at h; exact h _ (getD_map_fin u a)
    · rw [hv] at h; exact h _ (getD_map_fin v a)
  obtain ⟨e, he⟩ := getRegionE_nonfin f.mesh pmin pmax hnot
  exact ⟨⟨e, he⟩, ⟨e, by unfold getItemE; rw [he]⟩, fun ha' => region2slicesE_nonfin f.mesh pmin pmax a ha' hnf⟩

/-! ## Any point of a cell; ties and closed form of resampling -/

/-- Ties as the code resolves them: a target cell whose centre lies exactly ON the face between source
cells `i-1` and `i` along some axis takes, along that axis, the upper cell `i` (the nearest-coordinate
lookup finds two equally near source centres and returns the one with the larger index). -/
theorem resample_tie (f : Fld) (hf : FldWF f) (n : List Int) (g : Fld) (h : resample f n = .ok g)
    (j : List Nat) (hj : inRange g.mesh.n j = true) (b : Nat) (hb : b < f.mesh.ndim) (i : Nat)
    (hi : i < f.mesh.nAt b)
    (hface : g.mesh.centreAx b ((j.getD b 0 : Nat) : Int) = f.mesh.region.lo b + (i : Rat) * f.mesh.cellAt b) :
    ∃ s, g.data.get j = f.data.get s ∧ g.valid.get j = f.valid.get s ∧ s.getD b 0 = i ∧
      absR (f.mesh.centreAx b ((i : Nat) : Int) - g.mesh.centreAx b ((j.getD b 0 : Nat) : Int)) = f.mesh.cellAt b / 2 ∧
      (0 < i → absR (f.mesh.centreAx b ((i - 1 : Nat) : Int) - g.mesh.centreAx b ((j.getD b 0 : Nat) : Int))
        = f.mesh.cellAt b / 2) := by
  obtain ⟨_, p2, p3⟩ := resample_pointwise f hf n g h j hj
  have hc := inv_cell_pos hf.1 hb
  refine ⟨_, p2, p3, ?_, ?_, ?_⟩
  · rw [getD_tab _ _ _ _ hb, hface]
    apply indexAx_eq_of_bounds f.mesh b _ i hi hc
    · exact le_refl _
    · nlinarith
  · rw [hface, centreAx_cast, absR_eq_abs]
    have : f.mesh.region.lo b + ((i : Rat) + 1 / 2) * f.mesh.cellAt b - (f.mesh.region.lo b + (i : Rat) * f.mesh.cellAt b)
        = f.mesh.cellAt b / 2 := by ring
    rw [this, abs_of_pos (by linarith)]
  · intro hi0
    rw [hface, centreAx_cast, absR_eq_abs]
    have hcast : ((i - 1 : Nat) : Rat) = (i : Rat) - 1 := by
      push_cast [Nat.cast_sub (by omega : 1 ≤ i)]; ring
    have : f.mesh.region.lo b + (((i - 1 : Nat) : Rat) + 1 / 2) * f.mesh.cellAt b - (f.mesh.region.lo b + (i : Rat) * f.mesh.cellAt b)
        = -(f.mesh.cellAt b / 2) := by rw [hcast]; ring
    rw [this, abs_neg, abs_of_pos (by linarith)]


/-- "At ANY point", not only at cell centres: every point `p` of the half-open box of result cell `j` of
`field[region]` is looked up by the result in cell `j` and by the source in a cell `i` holding the
same value and validity — so `result(p) = source(p)` for every point of the result region except
its upper faces (which the result attributes to its last cells, the source to the next ones). -/
theorem getitem_region_anypoint (f : Fld) (hf : FldWF f) (item : Region) (hbox : BoxIn f.mesh item)
    (g : Fld) (h : getItem f (.region item) = .ok g) (j : List Nat) (hj : inRange g.mesh.n j = true)
    (p : List Rat) (hp : p.length = f.mesh.ndim)
    (hin : ∀ b, b < f.mesh.ndim →
      g.mesh.region.lo b + (j.getD b 0 : Rat) * g.mesh.cellAt b ≤ p.getD b 0 ∧
      p.getD b 0 < g.mesh.region.lo b + ((j.getD b 0 : Rat) + 1) * g.mesh.cellAt b) :
    ∃ i, g.mesh.point2index p = .ok j ∧ f.mesh.point2index p = .ok i ∧
      g.data.get j = f.data.get i ∧ g.valid.get j = f.valid.get i := by
  obtain ⟨hgm, hpt⟩ := getitem_region_pointwise f hf item hbox g h
  obtain ⟨e1, e2, _, _, _, _, _, _, e9⟩ := getRegion_inv f.mesh hf.1 item hbox g.mesh hgm
  obtain ⟨r1, r2⟩ := aligned_any_point f.mesh g.mesh hf.1 e1 e2 (blockLo f.mesh item)
    (fun b => blockHi f.mesh item b - blockLo f.mesh item b + 1) (fun b hb => (e9 b hb).2.2.2) j hj p hp hin
  obtain ⟨_, p2, p3⟩ := hpt j hj
  exact ⟨_, r1, r2, p2, p3⟩

/-- The same for a range selection: `f.sel(d=(x, y))(p) = f(p)` for every point of every half-open
result cell. -/
theorem sel_range_anypoint (f : Fld) (hf : f.mesh.Inv) (dim : String) (x y : Rat) (g : Fld)
    (h : selFld f dim (.range x y) = .ok (.field g)) (j : List Nat) (hj : inRange g.mesh.n j = true)
    (p : List Rat) (hp : p.length = f.mesh.ndim)
    (hin : ∀ b, b < f.mesh.ndim →
      g.mesh.region.lo b + (j.getD b 0 : Rat) * g.mesh.cellAt b ≤ p.getD b 0 ∧
      p.getD b 0 < g.mesh.region.lo b + ((j.getD b 0 : Rat) + 1) * g.mesh.cellAt b) :
    ∃ i, g.mesh.point2index p = .ok j ∧ f.mesh.point2index p = .ok i ∧
      g.data.get j = f.data.get i ∧ g.valid.get j = f.valid.get i := by
  obtain ⟨gm, _, _, hgm, hgc⟩ := selFld_ctor f dim _ g h
  have egm := (mkFld_inv _ _ _ _ _ hgc).1
  rw [← egm] at hgm
  obtain ⟨a, hd, b1, b2, g1, _, _, _, g5, _, g7, g8, g9, ginv⟩ := sel_range_shape f.mesh hf dim x y g.mesh hgm
  obtain ⟨a', hd', hpt⟩ := sel_range_pointwise f hf dim x y g h
  rw [hd] at hd'; injection hd' with hd'; subst hd'
  have ha := dim2index_ndim hf hd
  obtain ⟨_, hk, hk2⟩ := selConvert_range f.mesh hf dim a hd x y b1 b2
  have hblk : ∀ b, b < f.mesh.ndim → AxisBlock g.mesh f.mesh b b
      (if b = a then f.mesh.indexAx a (min x y) else 0)
      (if b = a then f.mesh.indexAx a (max x y) - f.mesh.indexAx a (min x y) + 1 else f.mesh.nAt b) := by
    intro b hb
    by_cases hba : b = a
    · subst hba
      simp only [if_true]
      exact ⟨g5, g7, g8, by omega⟩
    · simp only [hba, if_false]
      obtain ⟨u1, _, u3, u4⟩ := g9 b hb hba
      exact ⟨by rw [u1]; simp, u3, u4, by omega⟩
  obtain ⟨r1, r2⟩ := aligned_any_point f.mesh g.mesh hf g1 (by rw [inv_n_length ginv, g1]) _ _ hblk j hj p hp hin
  obtain ⟨q1, p2, p3⟩ := hpt j hj
  -- both lookups of the source name the same cell
  obtain ⟨_, _, hi1⟩ := point2index_inv f.mesh _ _ r2
  have hjl : j.length = f.mesh.ndim := by rw [inRange_length _ _ hj, inv_n_length ginv, g1]
  have hidx : (tab f.mesh.ndim fun b => (if b = a then f.mesh.indexAx a (min x y) else 0) + j.getD b 0)
      = setAt j a (j.getD a 0 + f.mesh.indexAx a (min x y)) := by
    symm
    apply eq_tab_of_getD _ _ _ 0 (by rw [length_setAt, hjl])
    intro b hb
    by_cases hba : b = a
    · subst hba
      rw [getD_setAt_eq _ _ _ _ (by omega)]; simp; omega
    · rw [getD_setAt_ne _ _ _ _ _ hba]; simp [hba]
  rw [hidx] at r2
  exact ⟨_, r1, r2, p2, p3⟩

/-- The closed-form resampling the driver uses for axes of thousands of cells is the nearest-coordinate
lookup: `resampleFast` is accepted exactly when `resample` is, and the two results have the same mesh,
metadata, array shapes and the same value and validity in every cell. -/
theorem resample_fast_refines (f : Fld) (hf : FldWF f) (n : List Int) :
    ((∃ g, resample f n = .ok g) ↔ ∃ g', resampleFast f n = .ok g') ∧
    ∀ g g', resample f n = .ok g → resampleFast f n = .ok g' →
      g'.mesh = g.mesh ∧ g'.nvdim = g.nvdim ∧ g'.unit = g.unit ∧ g'.vdims = g.vdims ∧ g'.vmap = g.vmap ∧
      g'.data.shape = g.data.shape ∧ g'.valid.shape = g.valid.shape ∧
      ∀ j, inRange g.mesh.n j = true → g'.data.get j = g.data.get j ∧ g'.valid.get j = g.valid.get j := by
  constructor
  · unfold resample resampleFast
    by_cases h1 : n.length ≠ f.mesh.ndim
    · rw [if_pos h1, if_pos h1]
    · rw [if_neg h1, if_neg h1]
      by_cases h2 : (n.any fun k => decide (k ≤ 0)) = true
      · rw [if_pos h2, if_pos h2]
      · rw [if_neg h2, if_neg h2]
        cases hm : Mesh.mkN? f.mesh.region (n.map Int.toNat) with
        | error e => exact Iff.rfl
        | ok m =>
          simp only
          by_cases h3 : (!f.mesh.region.containsReg m.region) = true
          · rw [if_pos h3, if_pos h3]
          · rw [if_neg h3, if_neg h3]
            constructor
            · rintro ⟨g, h⟩
              obtain ⟨_, _, _, q4, q5, _, _, q8⟩ := mkFld_inv _ _ _ _ _ h
              exact mkFld_ok m f _ _ q4 q5 (metaOk_of_eq f _ q8).1
            · rintro ⟨g, h⟩
              obtain ⟨_, _, _, q4, q5, _, _, q8⟩ := mkFld_inv _ _ _ _ _ h
              exact mkFld_ok m f _ _ q4 q5 (metaOk_of_eq f _ q8).1
  · intro g g' hg hg'
    have hsrc := resample_source_cell f hf n g hg
    obtain ⟨m, d, v, hm, hc⟩ := resample_ctor f n g hg
    obtain ⟨p1, p2, p3, p4, p5, p6, p7, p8⟩ := mkFld_inv _ _ _ _ _ hc
    unfold resampleFast at hg'
    split at hg'
    · cases hg'
    · split at hg'
      · cases hg'
      · split at hg'
        · cases hg'
        · rename_i m' hm'
          have hm2 : Mesh.mkN? f.mesh.region (n.map Int.toNat) = .ok m := hm
          rw [hm2] at hm'
          injection hm' with hm'
          subst hm'
          split at hg'
          · cases hg'
          · obtain ⟨q1, q2, q3, q4, q5, q6, q7, q8⟩ := mkFld_inv _ _ _ _ _ hg'
            have hmeta : (g'.vdims, g'.vmap) = (g.vdims, g.vmap) := by
              have := q8.symm.trans p8
              injection this
            injection hmeta with hv1 hv2
            refine ⟨by rw [q1, p1], by rw [q6, p6], by rw [q7, p7], hv1, hv2, ?_, ?_, ?_⟩
            · rw [q2, p2]; exact q4.trans p4.symm
            · rw [q3, p3]; exact q5.trans p5.symm
            · intro j hj
              obtain ⟨s1, s2⟩ := hsrc j hj
              rw [s1, s2, q2, q3, p1]
              exact ⟨rfl, rfl⟩


/-! ## Non-vacuity of the second round -/
section NonVacuity2
open Ex

/-- hypotheses shared by the equivalences and the laws on inputs: `f1` — a subregion, a chequered
mask — is well formed, in constructor state, and its subregions consist of whole cells -/
example : FldWF f1 ∧ metaOk f1 = true ∧ MetaInv f1 ∧ SubsAligned f1.mesh :=
  ⟨f1_wf, rfl, rfl, m1_subs_aligned⟩

/-- both sides of `sel_plane_ok_iff` / `sel_range_ok_iff` occur on `f1`: `x = 5/2` is accepted,
`x = 9/2` refused; the range `[7/2, 1/2]` accepted -/
example : (∃ o, selFld f1 "x" (.point (5/2)) = .ok o) ∧ (¬ ∃ o, selFld f1 "x" (.point (9/2)) = .ok o) ∧
    ∃ g, selFld f1 "x" (.range (7/2) (1/2)) = .ok (.field g) := by
  have hd : f1.mesh.region.dim2index "x" = .ok 0 := by decide
  refine ⟨(sel_plane_ok_iff f1 f1_wf rfl m1_subs_aligned "x" (5/2)).2.1.mpr ⟨0, hd,
      by norm_num [f1, f0, m1, m0, reg, Region.lo], by norm_num [f1, f0, m1, m0, reg, Region.hi]⟩, ?_,
    (sel_range_ok_iff f1 f1_wf rfl m1_subs_aligned "x" (7/2) (1/2)).2.2.mpr ⟨0, hd,
      by norm_num [f1, f0, m1, m0, reg, Region.lo], by norm_num [f1, f0, m1, m0, reg, Region.hi]⟩⟩
  intro hc
  obtain ⟨a, hda, _, h2⟩ := (sel_plane_ok_iff f1 f1_wf rfl m1_subs_aligned "x" (9/2)).2.1.mp hc
  rw [hd] at hda; injection hda with hda; subst hda
  norm_num [f1, f0, m1, m0, reg, Region.hi] at h2

/-- both sides of `resample_ok_iff`, `pad_ok_iff`, `getitem_name_ok_iff` occur -/
example : (∃ g, resample f1 [2, 3] = .ok g) ∧ (¬ ∃ g, resample f1 [2, 0] = .ok g) ∧
    (∃ g, getItem f1 (.name "a") = .ok g) ∧ (¬ ∃ g, getItem f1 (.name "b") = .ok g) ∧
    (∃ g, padFld f0 pw0 .reflect = .ok g) ∧ ¬ ∃ g, padFld f0 [⟨"x", -1, 1⟩] .reflect = .ok g := by
  have hbc : Mesh.bcOk f0.mesh.region.dims f0.mesh.bc.toLower = true := by
    rw [show f0.mesh.bc = "" from rfl, emptyLower]; exact bcOk_empty _
  refine ⟨(resample_ok_iff f1 f1_wf.1 rfl [2, 3]).mpr ⟨rfl, by decide⟩, ?_,
    (getitem_name_ok_iff f1 f1_wf rfl m1_subs_aligned "a").2.mpr ⟨s0, rfl⟩, ?_,
    (pad_ok_iff f0 f0_wf rfl pw0 (by decide) hbc .reflect).mpr ?_, ?_⟩
  · intro hc
    obtain ⟨_, h⟩ := (resample_ok_iff f1 f1_wf.1 rfl [2, 0]).mp hc
    exact absurd (h 0 (by decide)) (by decide)
  · intro hc
    obtain ⟨s, hs⟩ := (getitem_name_ok_iff f1 f1_wf rfl m1_subs_aligned "b").2.mp hc
    have : findSub f1.mesh.subs "b" = none := by decide
    rw [this] at hs; cases hs
  · intro w hw
    simp only [pw0, List.mem_cons, List.mem_nil_iff, or_false] at hw
    rcases hw with rfl | rfl
    · exact ⟨⟨0, by decide⟩, by decide, by decide⟩
    · exact ⟨⟨1, by decide⟩, by decide, by decide⟩
  · intro hc
    have := ((pad_ok_iff f0 f0_wf rfl [⟨"x", -1, 1⟩] (by decide) hbc .reflect).mp hc) ⟨"x", -1, 1⟩
      (List.mem_cons_self ..)
    exact absurd this.2.1 (by decide)

/-- hypotheses of `sel_range_range_total` on `f1` (with its subregion): the range `[1/2, 7/2]`, then
the sub-range `[5/2, 3/2]` given in descending order -/
example : ∃ g h h', selFld f1 "x" (.range (1/2) (7/2)) = .ok (.field g) ∧
    selFld g "x" (.range (5/2) (3/2)) = .ok (.field h) ∧ selFld f1 "x" (.range (5/2) (3/2)) = .ok (.field h') := by
  obtain ⟨g, h, h', r1, r2, r3, _⟩ := sel_range_range_total f1 f1_wf rfl m1_subs_aligned "x" 0 (by decide)
    (1/2) (7/2) (5/2) (3/2) (by norm_num [f1, f0, m1, m0, reg, Region.lo])
    (by norm_num [f1, f0, m1, m0, reg, Region.hi]) (by norm_num) (by norm_num)
  exact ⟨g, h, h', r1, r2, r3⟩

/-- hypotheses of `sel_range_range_face` on `f0`: cells 0..1 first, then `[1, 2]` whose upper bound is
the upper face `x = 2` of the first selection -/
example : ∃ g h h', selFld f0 "x" (.range (1/2) (3/2)) = .ok (.field g) ∧
    selFld g "x" (.range 1 2) = .ok (.field h) ∧ selFld f0 "x" (.range 1 2) = .ok (.field h') ∧
    h'.mesh.nAt 0 = h.mesh.nAt 0 + 1 := by
  have e1 : f0.mesh.indexAx 0 (min (1/2 : Rat) (3/2)) = 0 := by
    rw [show min (1/2 : Rat) (3/2) = 1/2 by norm_num]
    exact ex_idx _ 0 (by decide) (by norm_num) (by norm_num)
  have e2 : f0.mesh.indexAx 0 (max (1/2 : Rat) (3/2)) = 1 := by
    rw [show max (1/2 : Rat) (3/2) = 3/2 by norm_num]
    exact ex_idx _ 1 (by decide) (by norm_num) (by norm_num)
  obtain ⟨g, h, h', r1, r2, r3, _, _, _, r7, _⟩ := sel_range_range_face f0 f0_wf rfl (by intro p hp; cases hp)
    "x" 0 (by decide) (1/2) (3/2) 1 2 (by norm_num [f0, m0, reg, Region.lo])
    (by norm_num [f0, m0, reg, Region.hi])
    (by rw [e1]; norm_num [f0, m0, reg, Region.lo, Mesh.cellAt, Mesh.nAt, Region.edge, Region.hi])
    (by norm_num)
    (by rw [e2]; norm_num [f0, m0, reg, Region.lo, Mesh.cellAt, Mesh.nAt, Region.edge, Region.hi])
    (by norm_num [f0, m0, reg, Region.hi])
  exact ⟨g, h, h', r1, r2, r3, r7⟩

/-- hypotheses of `sel_plane_comm_total` (and `sel_plane_result_subs`): the 2 × 2 × 2 field `f3` -/
example : ∃ g1 h1 g2 h2, selFld f3 "x" (.point (1/2)) = .ok (.field g1) ∧
    selFld g1 "y" (.point (3/2)) = .ok (.field h1) ∧ selFld f3 "y" (.point (3/2)) = .ok (.field g2) ∧
    selFld g2 "x" (.point (1/2)) = .ok (.field h2) := by
  obtain ⟨g1, h1, g2, h2, e1, e2, e3, e4, _⟩ := sel_plane_comm_total f3 f3_wf rfl (by intro p hp; cases hp)
    (by decide) "x" "y" 0 1 (by decide) (by decide) (by decide) (1/2) (3/2)
    ⟨by norm_num [f3, m3, reg3, Region.lo], by norm_num [f3, m3, reg3, Region.hi]⟩
    ⟨by norm_num [f3, m3, reg3, Region.lo], by norm_num [f3, m3, reg3, Region.hi]⟩
  exact ⟨g1, h1, g2, h2, e1, e2, e3, e4⟩

/-- hypotheses of `getitem_getitem_total`: the box `box` of `f0` and the box `[1,2] × [1/2,1]` inside it -/
example : ∃ g h h', getItem f0 (.region box) = .ok g ∧ getItem g (.region (reg [1, 1/2] [2, 1])) = .ok h ∧
    getItem f0 (.region (reg [1, 1/2] [2, 1])) = .ok h' := by
  obtain ⟨g, h, h', r1, r2, r3, _⟩ := getitem_getitem_total f0 f0_wf rfl box (reg [1, 1/2] [2, 1]) box_in rfl rfl rfl
    (by
      intro a ha
      rcases lt_two a ha with rfl | rfl <;> norm_num [box, reg, Region.lo, Region.hi])
  exact ⟨g, h, h', r1, r2, r3⟩

/-- hypotheses of `pad_crop_total`, in every mode -/
example (mode : PadMode) : ∃ g h, padFld f0 pw0 mode = .ok g ∧ getItem g (.region f0.mesh.region) = .ok h := by
  obtain ⟨g, h, r1, r2, _⟩ := pad_crop_total f0 f0_wf rfl pw0 (by decide)
    (by
      intro w hw
      simp only [pw0, List.mem_cons, List.mem_nil_iff, or_false] at hw
      rcases hw with rfl | rfl
      · exact ⟨0, by decide⟩
      · exact ⟨1, by decide⟩)
    (by
      intro w hw
      simp only [pw0, List.mem_cons, List.mem_nil_iff, or_false] at hw
      rcases hw with rfl | rfl <;> decide)
    (by rw [show f0.mesh.bc = "" from rfl, emptyLower]; exact bcOk_empty _) mode
  exact ⟨g, h, r1, r2⟩

/-- hypotheses of `resample_via_refinement_total` / `resample_id_total`: refine 4 × 2 by 2 × 2, then go to
the coprime counts 3 × 1 -/
example : ∃ g k k', resample f0 (tab f0.mesh.ndim fun b => (((fun _ => 2) b * f0.mesh.nAt b : Nat) : Int)) = .ok g ∧
    resample g [3, 1] = .ok k ∧ resample f0 [3, 1] = .ok k' := by
  obtain ⟨g, k, k', r1, r2, r3, _⟩ := resample_via_refinement_total f0 f0_wf rfl (fun _ => 2) (fun _ _ => by decide)
    [3, 1] rfl (by decide)
  exact ⟨g, k, k', r1, r2, r3⟩

/-- hypothesis of `pad_reflect_pointwise`: every axis of `f0` has at least two cells; of
`pad_constant_pointwise`: cell `[0, 0]` of the padded field lies in front of the source along `x` -/
example : (∀ b, b < f0.mesh.ndim → 2 ≤ f0.mesh.nAt b) ∧
    ¬ ((sumW f0.mesh (·.lo) pw0 0).toNat ≤ [0, 0].getD 0 0 ∧
      [0, 0].getD 0 0 < (sumW f0.mesh (·.lo) pw0 0).toNat + f0.mesh.nAt 0) :=
  ⟨fun b hb => by rcases lt_two b hb with rfl | rfl <;> decide, by decide⟩

/-- hypotheses of `getitem_name_eq_region`: the stored subregion `a` of `f1` -/
example : getItem f1 (.name "a") = getItem f1 (.region s0) :=
  (getitem_name_eq_region f1 f1_wf "a" s0 rfl k1 k2 s0_aligned rfl rfl rfl).2

/-- hypotheses of `region2slices_mono` and `region2slices_cells`: the subregion `s0` inside the whole region -/
example : (∃ s1 s2, region2slices m1 s0 = .ok s1 ∧ region2slices m1 m1.region = .ok s2 ∧
      ∀ a, a < m1.ndim → m1.region.lo a ≤ s0.lo a ∧ s0.hi a ≤ m1.region.hi a) ∧
    (m1.region.lo 0 ≤ s0.lo 0 + m1.cellAt 0 / 2 ∧ s0.lo 0 + m1.cellAt 0 / 2 < m1.region.hi 0) ∧
    (m1.region.lo 0 ≤ s0.hi 0 - m1.cellAt 0 / 2 ∧ s0.hi 0 - m1.cellAt 0 / 2 ≤ m1.region.hi 0) := by
  refine ⟨⟨_, _, (region2slices_spec m1 m1_inv s0 k1 k2 s0_aligned).1, region2slices_whole m1 m1_inv, ?_⟩, ?_, ?_⟩
  · intro a ha
    rcases lt_two a ha with rfl | rfl <;> norm_num [m1, m0, s0, reg, Region.lo, Region.hi]
  · norm_num [m1, m0, s0, reg, Region.lo, Region.hi, Mesh.cellAt, Mesh.nAt, Region.edge]
  · norm_num [m1, m0, s0, reg, Region.lo, Region.hi, Mesh.cellAt, Mesh.nAt, Region.edge]

/-- hypotheses of `sel_nonfinite_rejected`: a point at `nan`, a range ending at `+inf` -/
example : (SelArgE.point .nan).NonFinite ∧ (SelArgE.range (.fin 1) .posInf).NonFinite :=
  ⟨fun _ h => ExtRat.noConfusion h, Or.inr (fun _ h => ExtRat.noConfusion h)⟩

/-- hypotheses of `getitem_nonfinite_rejected`: `Region(p1=(0, 0), p2=(inf, 1))` is built … -/
example : boxMkE? [.fin 0, .fin 0] [.posInf, .fin 1] = .ok ([.fin 0, .fin 0], [.posInf, .fin 1]) := by
  decide

/-- … the extended model is not trivial on finite values: `sorted` puts the bounds in order -/
example : sort2 (.fin 3) (.fin (1/2)) = (.fin (1/2), .fin 3) := by
  rw [sort2_fin, show min (3 : Rat) (1/2) = 1/2 by norm_num, show max (3 : Rat) (1/2) = 3 by norm_num]

/-- the hypothesis on `p` of `getitem_region_anypoint` / `sel_range_anypoint` is met by every cell centre
(and by the whole half-open cell around it) -/
example (g : Mesh) (hg : g.Inv) (j : List Nat) (b : Nat) (hb : b < g.ndim) :
    g.region.lo b + (j.getD b 0 : Rat) * g.cellAt b ≤ (g.centre j).getD b 0 ∧
    (g.centre j).getD b 0 < g.region.lo b + ((j.getD b 0 : Rat) + 1) * g.cellAt b := by
  rw [centre_getD g j b hb, centreAx_cast]
  have := inv_cell_pos hg hb
  constructor <;> nlinarith

/-- both sides of `resample_fast_refines` are inhabited: 4 × 2 -> 3 × 5 -/
example : (∃ g, resample f0 [3, 5] = .ok g) ∧ ∃ g', resampleFast f0 [3, 5] = .ok g' := by
  have h := resample_accepts f0 f0_wf.1 rfl [3, 5] rfl (by decide)
  exact ⟨h, (resample_fast_refines f0 f0_wf [3, 5]).1.mp h⟩

/-- hypotheses of `pad_crop_smaller`: `pw0` pads x by (1, 2) and y by (0, 1); the smaller padding pads x by (1, 0) -/
example (mode : PadMode) : ∃ g g', padFld f0 pw0 mode = .ok g ∧ padFld f0 [⟨"x", 1, 0⟩] mode = .ok g' ∧
    ∀ b, b < f0.mesh.ndim → sumW f0.mesh (·.lo) [⟨"x", 1, 0⟩] b ≤ sumW f0.mesh (·.lo) pw0 b ∧
      sumW f0.mesh (·.hi) [⟨"x", 1, 0⟩] b ≤ sumW f0.mesh (·.hi) pw0 b := by
  have hbc : Mesh.bcOk f0.mesh.region.dims f0.mesh.bc.toLower = true := by
    rw [show f0.mesh.bc = "" from rfl, emptyLower]; exact bcOk_empty _
  obtain ⟨g, hg⟩ := (pad_ok_iff f0 f0_wf rfl pw0 (by decide) hbc mode).mpr (by
    intro w hw
    simp only [pw0, List.mem_cons, List.mem_nil_iff, or_false] at hw
    rcases hw with rfl | rfl
    · exact ⟨⟨0, by decide⟩, by decide, by decide⟩
    · exact ⟨⟨1, by decide⟩, by decide, by decide⟩)
  obtain ⟨g', hg'⟩ := (pad_ok_iff f0 f0_wf rfl [⟨"x", 1, 0⟩] (by decide) hbc mode).mpr (by
    intro w hw
    simp only [List.mem_cons, List.mem_nil_iff, or_false] at hw
    subst hw
    exact ⟨⟨0, by decide⟩, by decide, by decide⟩)
  refine ⟨g, g', hg, hg', ?_⟩
  intro b hb
  rcases lt_two b hb with rfl | rfl <;> decide

/-- hypotheses of `resample_tie`: 4 × 2 -> 2 × 1, the centre `x = 1` of target cell 0 is the face between
source cells 0 and 1 -/
example : ∃ g, resample f0 [2, 1] = .ok g ∧
    g.mesh.centreAx 0 ((([0, 0] : List Nat).getD 0 0 : Nat) : Int)
      = f0.mesh.region.lo 0 + ((1 : Nat) : Rat) * f0.mesh.cellAt 0 := by
  obtain ⟨g, hg⟩ := resample_accepts f0 f0_wf.1 rfl [2, 1] rfl (by decide)
  obtain ⟨r1, r2, _, _⟩ := resample_region f0 _ g hg
  refine ⟨g, hg, ?_⟩
  unfold Mesh.centreAx Mesh.cellAt Mesh.nAt Region.edge
  rw [r1, r2]
  have e : List.map Int.toNat [2, 1] = [2, 1] := rfl
  rw [e]
  norm_num [f0, m0, reg, Region.lo, Region.hi]

end NonVacuity2

end DFV.C07
