import DFV.Lemmas.C07SelFld
/-!
# C07 — sub-selection, padding and resampling keep every value at its physical position

Property theorems about the code-shaped model `DFV/Model/C07.lean` of `Mesh.sel`,
`Field.sel`, `Mesh.__getitem__`, `Field.__getitem__`, `Mesh.region2slices`, `Mesh.pad`,
`Field.pad` and `Field.resample`.  Values are only moved, never computed: every statement
about values is an equation between `get`s of the result and of the source, so it holds
verbatim for any value type.  Dimension count, cell counts, selection coordinates, boxes,
pad widths and target resolutions are universally quantified.  Arithmetic is exact (`Rat`).
-/
namespace DFV.C07
open DFV DFV.Mesh

/-! ## Argument normalisation (`_sel_convert_input`) -/

/-- A coordinate inside the region is accepted and normalised to the cell that contains it:
the returned index `k` is the index of that cell, the returned coordinate its centre, and
`lo + k·cell ≤ x < lo + (k+1)·cell` (the last cell is closed at the region's upper face). -/
theorem selConvert_point (m : Mesh) (hm : m.Inv) (dim : String) (a : Nat)
    (hd : m.region.dim2index dim = .ok a) (x : Rat)
    (h1 : m.region.lo a ≤ x) (h2 : x ≤ m.region.hi a) :
    selConvert m dim (.point x)
      = .ok (a, .plane (m.centreAx a ((m.indexAx a x : Nat) : Int)) (m.indexAx a x)) ∧
    m.indexAx a x < m.nAt a ∧
    m.region.lo a + (m.indexAx a x : Rat) * m.cellAt a ≤ x ∧
    (x < m.region.lo a + ((m.indexAx a x : Rat) + 1) * m.cellAt a ∨
      (m.indexAx a x = m.nAt a - 1 ∧ x = m.region.hi a)) := by
  have ha := dim2index_ndim hm hd
  refine ⟨?_, indexAx_lt m a x (inv_n_pos hm ha), index_contains m a x (inv_n_pos hm ha) (inv_lo_lt_hi hm ha) h1 h2⟩
  unfold selConvert
  rw [hd]
  simp only
  rw [selOne_eq m hm a ha x h1 h2]

/-- Without a coordinate the selection goes through the cell containing the region's centre. -/
theorem selConvert_centre (m : Mesh) (hm : m.Inv) (dim : String) (a : Nat)
    (hd : m.region.dim2index dim = .ok a) :
    selConvert m dim .centre
      = selConvert m dim (.point ((m.region.lo a + m.region.hi a) / 2)) := by
  have ha := dim2index_ndim hm hd
  have hlt := inv_lo_lt_hi hm ha
  rw [(selConvert_point m hm dim a hd _ (by linarith) (by linarith)).1]
  unfold selConvert
  rw [hd]
  simp only
  rw [cellOf_eq m hm a ha m.region.center (center_length m) (by
      intro b hb
      rw [center_getD m b hb]
      have := inv_lo_lt_hi hm hb
      constructor <;> linarith)]
  simp only
  rw [center_getD m a ha]

/-- A range inside the region is normalised to the cells containing its lower and its upper
bound (inclusive index range `k₁ … k₂`, `k₁ ≤ k₂`). -/
theorem selConvert_range (m : Mesh) (hm : m.Inv) (dim : String) (a : Nat)
    (hd : m.region.dim2index dim = .ok a) (x y : Rat)
    (h1 : m.region.lo a ≤ min x y) (h2 : max x y ≤ m.region.hi a) :
    selConvert m dim (.range x y)
      = .ok (a, .range (m.centreAx a ((m.indexAx a (min x y) : Nat) : Int))
                 (m.centreAx a ((m.indexAx a (max x y) : Nat) : Int))
                 (m.indexAx a (min x y)) (m.indexAx a (max x y))) ∧
    m.indexAx a (min x y) ≤ m.indexAx a (max x y) ∧ m.indexAx a (max x y) < m.nAt a := by
  have ha := dim2index_ndim hm hd
  have hmm : min x y ≤ max x y := le_trans (min_le_left x y) (le_max_left x y)
  refine ⟨?_, indexAx_mono m a _ _ (inv_cell_pos hm ha) hmm, indexAx_lt m a _ (inv_n_pos hm ha)⟩
  unfold selConvert
  rw [hd]
  simp only
  rw [selOne_eq m hm a ha _ h1 (le_trans hmm h2), selOne_eq m hm a ha _ (le_trans h1 hmm) h2]

/-- The two bounds of a range may be given in either order. -/
theorem sel_range_comm (f : Fld) (dim : String) (x y : Rat) :
    selConvert f.mesh dim (.range x y) = selConvert f.mesh dim (.range y x) ∧
    selMesh f.mesh dim (.range x y) = selMesh f.mesh dim (.range y x) ∧
    selFld f dim (.range x y) = selFld f dim (.range y x) := by
  have h : selConvert f.mesh dim (.range x y) = selConvert f.mesh dim (.range y x) := by
    unfold selConvert
    cases f.mesh.region.dim2index dim with
    | error e => rfl
    | ok a => simp only; rw [min_comm x y, max_comm x y]
  have h2 : selMesh f.mesh dim (.range x y) = selMesh f.mesh dim (.range y x) := by
    unfold selMesh; rw [h]
  exact ⟨h, h2, by unfold selFld; rw [h, h2]⟩

/-- Requests outside the region are rejected: a coordinate below `pmin` or above `pmax`, a
range with a bound outside, an unknown axis name, a malformed value — by `_sel_convert_input`,
`Mesh.sel` and `Field.sel` alike. -/
theorem sel_outside_rejected (f : Fld) (dim : String) (arg : SelArg)
    (hout : (∀ a, f.mesh.region.dim2index dim ≠ .ok a) ∨ arg = .bad ∨
      (∃ a x, f.mesh.region.dim2index dim = .ok a ∧ arg = .point x ∧
        (x < f.mesh.region.lo a ∨ f.mesh.region.hi a < x)) ∨
      (∃ a x y, f.mesh.region.dim2index dim = .ok a ∧ arg = .range x y ∧
        (min x y < f.mesh.region.lo a ∨ f.mesh.region.hi a < max x y))) :
    (∃ e, selConvert f.mesh dim arg = .error e) ∧ (∃ e, selMesh f.mesh dim arg = .error e) ∧
    (∃ e, selFld f dim arg = .error e) := by
  have key : ∃ e, selConvert f.mesh dim arg = .error e := by
    unfold selConvert
    rcases hout with h | h | ⟨a, x, hd, harg, hx⟩ | ⟨a, x, y, hd, harg, hxy⟩
    · cases hdi : f.mesh.region.dim2index dim with
      | error e => exact ⟨e, rfl⟩
      | ok a => exact absurd hdi (h a)
    · subst h
      cases f.mesh.region.dim2index dim with
      | error e => exact ⟨e, rfl⟩
      | ok a => exact ⟨_, rfl⟩
    · subst harg
      rw [hd]
      simp only
      rw [selOne_err _ a x hx]
      exact ⟨_, rfl⟩
    · subst harg
      rw [hd]
      simp only
      rcases hxy with h | h
      · rw [selOne_err _ a _ (Or.inl h)]
        exact ⟨_, rfl⟩
      · cases h1 : selOne f.mesh a (min x y) with
        | error e => exact ⟨e, rfl⟩
        | ok ck =>
          simp only
          rw [selOne_err _ a _ (Or.inr h)]
          exact ⟨_, rfl⟩
  obtain ⟨e, he⟩ := key
  refine ⟨⟨e, he⟩, ⟨e, by unfold selMesh; rw [he]⟩, ⟨e, by unfold selFld; rw [he]⟩⟩

/-! ## Plane selection -/

/-- `Mesh.sel` with a coordinate (or none): the result has exactly axis `a` removed — its
name and unit are gone, every other axis keeps corners, cell count and cell size — and it is
again a well-formed mesh.  (Cell-aligned: kept axes are identical to the source's.) -/
theorem sel_plane_shape (m : Mesh) (hm : m.Inv) (dim : String) (arg : SelArg) (a : Nat) (c : Rat) (k : Nat)
    (hconv : selConvert m dim arg = .ok (a, .plane c k)) (g : Mesh) (h : selMesh m dim arg = .ok g) :
    g.ndim = m.ndim - 1 ∧ 2 ≤ m.ndim ∧
    g.region.dims = removeAt m.region.dims a ∧ g.region.units = removeAt m.region.units a ∧
    g.region.tol = m.region.tol ∧
    (∀ b, b < g.ndim →
      g.region.lo b = m.region.lo (skip a b) ∧ g.region.hi b = m.region.hi (skip a b) ∧
      g.nAt b = m.nAt (skip a b) ∧ g.cellAt b = m.cellAt (skip a b)) ∧
    g.Inv := by
  have ha : a < m.ndim := by
    unfold selConvert at hconv
    split at hconv
    · cases hconv
    · rename_i a' hd
      have := dim2index_ndim hm hd
      cases arg <;> simp only at hconv
      · split at hconv
        · cases hconv
        · injection hconv with hc; injection hc with hc _; omega
      · split at hconv
        · cases hconv
        · injection hconv with hc; injection hc with hc _; omega
      · split at hconv
        · cases hconv
        · split at hconv
          · cases hconv
          · injection hconv with hc; injection hc with _ hc; cases hc
      · cases hconv
  have hp := selMesh_plane_inv m hm dim arg a c k hconv g h
  obtain ⟨e1, e2, e3, e4, e5, e6, e7, e8, e9⟩ := selPlaneMesh_inv m hm a ha c g hp
  have hax : ∀ b, b < g.ndim →
      g.region.lo b = m.region.lo (skip a b) ∧ g.region.hi b = m.region.hi (skip a b) ∧
      g.nAt b = m.nAt (skip a b) ∧ g.cellAt b = m.cellAt (skip a b) := by
    intro b hb
    obtain ⟨h1, h2, h3⟩ := e9 b (by omega)
    refine ⟨h1, h2, h3, ?_⟩
    unfold cellAt Region.edge; rw [h1, h2, h3]
  refine ⟨e1, by omega, e3, e4, e5, hax, ?_⟩
  refine ⟨⟨?_, ?_, ?_, ?_, e7, ?_⟩, ?_, ?_⟩
  · show 0 < g.ndim; omega
  · show g.region.pmax.length = g.ndim; omega
  · rw [e3, length_removeAt _ _ (by rw [inv_dims_length hm]; exact ha), inv_dims_length hm]
    show m.ndim - 1 = g.ndim; omega
  · rw [e4, length_removeAt _ _ (by rw [inv_units_length hm]; exact ha), inv_units_length hm]
    show m.ndim - 1 = g.ndim; omega
  · intro b hb
    have hb' : b < g.ndim := hb
    obtain ⟨h1, h2, _, _⟩ := hax b hb'
    rw [h1, h2]
    exact inv_lo_lt_hi hm (skip_lt a b m.ndim ha (by omega))
  · show g.n.length = g.ndim; omega
  · intro b hb
    rw [(hax b hb).2.2.1]
    exact inv_n_pos hm (skip_lt a b m.ndim ha (by omega))

/-- `Field.sel` with a coordinate `x`: for every cell `j` of the result, the point with the
result cell's centre on the kept axes and `x` on the removed axis lies in the source region,
in the source cell `insertAt j a k` (`k` = index of the layer containing `x`), and the result
holds exactly that cell's value and validity. -/
theorem sel_plane_pointwise (f : Fld) (hf : f.mesh.Inv) (dim : String) (x : Rat) (g : Fld)
    (h : selFld f dim (.point x) = .ok (.field g)) :
    ∃ a, f.mesh.region.dim2index dim = .ok a ∧
      f.mesh.region.lo a ≤ x ∧ x ≤ f.mesh.region.hi a ∧
      ∀ j, inRange g.mesh.n j = true →
        f.mesh.point2index (insertAt (g.mesh.centre j) a x)
          = .ok (insertAt j a (f.mesh.indexAx a x)) ∧
        g.data.get j = f.data.get (insertAt j a (f.mesh.indexAx a x)) ∧
        g.valid.get j = f.valid.get (insertAt j a (f.mesh.indexAx a x)) := by
  unfold selFld at h
  split at h
  · cases h
  · rename_i ai hconv
    obtain ⟨a, s⟩ := ai
    obtain ⟨hd, hx1, hx2, hs⟩ := selConvert_point_inv f.mesh hf dim x a s hconv
    subst hs
    have ha := dim2index_ndim hf hd
    split at h
    · simp only at h
      split at h
      · cases h
      · cases h
    · rename_i m' hm'
      simp only at h
      split at h
      · cases h
      · rename_i g' hg'
        injection h with h
        injection h with h
        subst h
        obtain ⟨q1, q2, q3, _⟩ := mkFld_inv _ _ _ _ _ hg'
        have hp := selMesh_plane_inv f.mesh hf dim _ a _ _ hconv m' hm'
        obtain ⟨e1, e2, _, _, _, _, _, _, e9⟩ := selPlaneMesh_inv f.mesh hf a ha _ m' hp
        refine ⟨a, hd, hx1, hx2, ?_⟩
        intro j hj
        rw [q1] at hj ⊢
        refine ⟨plane_point2index f.mesh m' hf a ha x hx1 hx2 e1 e2 e9 j hj, ?_, ?_⟩
        · rw [q2]; rfl
        · rw [q3]; rfl

/-- The same for the central plane (no coordinate given): the inserted coordinate is the
region's centre along the removed axis. -/
theorem sel_centre_pointwise (f : Fld) (hf : f.mesh.Inv) (dim : String) (g : Fld)
    (h : selFld f dim .centre = .ok (.field g)) :
    ∃ a, f.mesh.region.dim2index dim = .ok a ∧
      ∀ j, inRange g.mesh.n j = true →
        f.mesh.point2index (insertAt (g.mesh.centre j) a ((f.mesh.region.lo a + f.mesh.region.hi a) / 2))
          = .ok (insertAt j a (f.mesh.indexAx a ((f.mesh.region.lo a + f.mesh.region.hi a) / 2))) ∧
        g.data.get j = f.data.get (insertAt j a (f.mesh.indexAx a ((f.mesh.region.lo a + f.mesh.region.hi a) / 2))) ∧
        g.valid.get j = f.valid.get (insertAt j a (f.mesh.indexAx a ((f.mesh.region.lo a + f.mesh.region.hi a) / 2))) := by
  unfold selFld at h
  split at h
  · cases h
  · rename_i ai hconv
    obtain ⟨a, s⟩ := ai
    obtain ⟨hd, hs⟩ := selConvert_centre_inv f.mesh hf dim a s hconv
    subst hs
    have ha := dim2index_ndim hf hd
    have hlt := inv_lo_lt_hi hf ha
    split at h
    · simp only at h
      split at h
      · cases h
      · cases h
    · rename_i m' hm'
      simp only at h
      split at h
      · cases h
      · rename_i g' hg'
        injection h with h
        injection h with h
        subst h
        obtain ⟨q1, q2, q3, _⟩ := mkFld_inv _ _ _ _ _ hg'
        have hp := selMesh_plane_inv f.mesh hf dim _ a _ _ hconv m' hm'
        obtain ⟨e1, e2, _, _, _, _, _, _, e9⟩ := selPlaneMesh_inv f.mesh hf a ha _ m' hp
        refine ⟨a, hd, ?_⟩
        intro j hj
        rw [q1] at hj ⊢
        refine ⟨plane_point2index f.mesh m' hf a ha _ (by linarith) (by linarith) e1 e2 e9 j hj, ?_, ?_⟩
        · rw [q2]; rfl
        · rw [q3]; rfl

/-! ## Range selection -/

/-- `Mesh.sel` with a range: along the chosen axis exactly the cells from the one containing
the lower bound (`k₁`) to the one containing the upper bound (`k₂`) are kept — the new corners
are faces of the source mesh, `n = k₂ - k₁ + 1`, the cell size is unchanged; every other axis,
names, units and tolerance are kept; the result is a well-formed mesh. -/
theorem sel_range_shape (m : Mesh) (hm : m.Inv) (dim : String) (x y : Rat) (g : Mesh)
    (h : selMesh m dim (.range x y) = .ok g) :
    ∃ a, m.region.dim2index dim = .ok a ∧ m.region.lo a ≤ min x y ∧ max x y ≤ m.region.hi a ∧
      g.ndim = m.ndim ∧ g.region.dims = m.region.dims ∧ g.region.units = m.region.units ∧
      g.region.tol = m.region.tol ∧
      g.region.lo a = m.region.lo a + (m.indexAx a (min x y) : Rat) * m.cellAt a ∧
      g.region.hi a = m.region.lo a + ((m.indexAx a (max x y) : Rat) + 1) * m.cellAt a ∧
      g.nAt a = m.indexAx a (max x y) - m.indexAx a (min x y) + 1 ∧ g.cellAt a = m.cellAt a ∧
      (∀ b, b < m.ndim → b ≠ a →
        g.region.lo b = m.region.lo b ∧ g.region.hi b = m.region.hi b ∧ g.nAt b = m.nAt b ∧
        g.cellAt b = m.cellAt b) ∧
      g.Inv := by
  unfold selMesh at h
  split at h
  · cases h
  · rename_i ai hconv
    obtain ⟨a, s⟩ := ai
    obtain ⟨hd, h1, h2, hs⟩ := selConvert_range_inv m hm dim x y a s hconv
    subst hs
    have ha := dim2index_ndim hm hd
    have hmm : min x y ≤ max x y := le_trans (min_le_left x y) (le_max_left x y)
    have hk := indexAx_mono m a _ _ (inv_cell_pos hm ha) hmm
    have hk2 := indexAx_lt m a (max x y) (inv_n_pos hm ha)
    obtain ⟨e1, e2, e3, e4, e5, e6, e7, e8⟩ := selRangeMesh_inv m hm a ha _ _ hk hk2 g h
    have hhi := block_hi e7 (by omega)
    have hcast : ((m.indexAx a (max x y) - m.indexAx a (min x y) + 1 : Nat) : Rat)
        = (m.indexAx a (max x y) : Rat) - (m.indexAx a (min x y) : Rat) + 1 := by
      push_cast [Nat.cast_sub hk]; ring
    refine ⟨a, hd, h1, h2, e1, e3, e4, e5, e7.lo, by rw [hhi, hcast]; ring, e7.n, e7.cell, ?_, ?_⟩
    · intro b hb hba
      have blk := e8 b hb hba
      have hh := block_hi blk (inv_n_pos hm hb)
      refine ⟨by rw [blk.lo]; simp, ?_, blk.n, blk.cell⟩
      rw [hh, hi_eq m b (inv_n_pos hm hb)]; simp
    · have hpos : ∀ b, b < g.ndim → 0 < g.nAt b ∧ g.region.lo b < g.region.hi b := by
        intro b hb
        by_cases hba : b = a
        · subst hba
          have hc := inv_cell_pos hm ha
          refine ⟨by rw [e7.n]; omega, ?_⟩
          rw [hhi, e7.lo, hcast]
          have : (m.indexAx b (min x y) : Rat) ≤ (m.indexAx b (max x y) : Rat) := by exact_mod_cast hk
          nlinarith
        · have blk := e8 b (by omega) hba
          have hh := block_hi blk (inv_n_pos hm (by omega))
          have hc := inv_cell_pos hm (show b < m.ndim by omega)
          refine ⟨by rw [blk.n]; exact inv_n_pos hm (by omega), ?_⟩
          rw [hh, blk.lo]
          have : (0 : Rat) < (m.nAt b : Rat) := by exact_mod_cast inv_n_pos hm (show b < m.ndim by omega)
          nlinarith
      refine ⟨⟨?_, ?_, ?_, ?_, ?_, fun b hb => (hpos b hb).2⟩, ?_, fun b hb => (hpos b hb).1⟩
      · show 0 < g.ndim; rw [e1]; exact inv_ndim_pos hm
      · show g.region.pmax.length = g.ndim; omega
      · rw [e3, inv_dims_length hm]; exact e1.symm
      · rw [e4, inv_units_length hm]; exact e1.symm
      · rw [e3]; exact hm.1.2.2.2.2.1
      · show g.n.length = g.ndim; omega

/-- `Field.sel` with a range: the centre of every result cell `j` lies in the source region, in
the source cell obtained by shifting `j` by `k₁` along the chosen axis, and the result holds
exactly that cell's value and validity. -/
theorem sel_range_pointwise (f : Fld) (hf : f.mesh.Inv) (dim : String) (x y : Rat) (g : Fld)
    (h : selFld f dim (.range x y) = .ok (.field g)) :
    ∃ a, f.mesh.region.dim2index dim = .ok a ∧
      ∀ j, inRange g.mesh.n j = true →
        f.mesh.point2index (g.mesh.centre j)
          = .ok (setAt j a (j.getD a 0 + f.mesh.indexAx a (min x y))) ∧
        g.data.get j = f.data.get (setAt j a (j.getD a 0 + f.mesh.indexAx a (min x y))) ∧
        g.valid.get j = f.valid.get (setAt j a (j.getD a 0 + f.mesh.indexAx a (min x y))) := by
  unfold selFld at h
  split at h
  · cases h
  · rename_i ai hconv
    obtain ⟨a, s⟩ := ai
    obtain ⟨hd, h1, h2, hs⟩ := selConvert_range_inv f.mesh hf dim x y a s hconv
    subst hs
    have ha := dim2index_ndim hf hd
    split at h
    · simp only at h
      cases h
    · rename_i m' hm'
      simp only at h
      split at h
      · cases h
      · rename_i g' hg'
        injection h with h
        injection h with h
        subst h
        obtain ⟨q1, q2, q3, _⟩ := mkFld_inv _ _ _ _ _ hg'
        have hmm : min x y ≤ max x y := le_trans (min_le_left x y) (le_max_left x y)
        have hk := indexAx_mono f.mesh a _ _ (inv_cell_pos hf ha) hmm
        have hk2 := indexAx_lt f.mesh a (max x y) (inv_n_pos hf ha)
        have hr := selMesh_range_inv f.mesh dim _ a _ _ _ _ hconv m' hm'
        obtain ⟨e1, e2, _, _, _, _, e7, e8⟩ := selRangeMesh_inv f.mesh hf a ha _ _ hk hk2 m' hr
        refine ⟨a, hd, ?_⟩
        intro j hj
        rw [q1] at hj ⊢
        have hjl : j.length = f.mesh.ndim := by rw [inRange_length _ _ hj, e2]
        have hp := block_point2index f.mesh m' hf e1 e2
          (fun b => if b = a then f.mesh.indexAx a (min x y) else 0)
          (fun b => if b = a then f.mesh.indexAx a (max x y) - f.mesh.indexAx a (min x y) + 1 else f.mesh.nAt b)
          (by
            intro b hb
            by_cases hba : b = a
            · subst hba; simpa using e7
            · simpa [hba] using e8 b hb hba) j hj
        have hidx : (tab f.mesh.ndim fun b => (if b = a then f.mesh.indexAx a (min x y) else 0) + j.getD b 0)
            = setAt j a (j.getD a 0 + f.mesh.indexAx a (min x y)) := by
          symm
          apply eq_tab_of_getD _ _ _ 0 (by rw [length_setAt, hjl])
          intro b hb
          by_cases hba : b = a
          · subst hba
            rw [getD_setAt_eq _ _ _ _ (by omega)]; simp; omega
          · rw [getD_setAt_ne _ _ _ _ _ hba]; simp [hba]
        rw [hidx] at hp
        refine ⟨hp, ?_, ?_⟩
        · rw [q2]; rfl
        · rw [q3]; rfl

end DFV.C07
