import DFV.Model.C07
namespace DFV.C07
theorem placeholder : True := trivial
end DFV.C07
