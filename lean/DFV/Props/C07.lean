import DFV.Lemmas.C07Ex
/-!
# C07 — sub-selection, padding and resampling keep every value at its physical position

Property theorems about the code-shaped model `DFV/Model/C07.lean` of `Mesh.sel`,
`Field.sel`, `Mesh.__getitem__`, `Field.__getitem__`, `Mesh.region2slices`, `Mesh.pad`,
`Field.pad` and `Field.resample`.  Values are only moved, never computed: every statement
about values is an equation between `get`s of the result and of the source, so it holds
verbatim for any value type.  Dimension count, cell counts, selection coordinates, boxes,
pad widths and target resolutions are universally quantified.  Arithmetic is exact (`Rat`).
-/
namespace DFV.C07
open DFV DFV.Mesh

/-! ## Argument normalisation (`_sel_convert_input`) -/

/-- A coordinate inside the region is accepted and normalised to the cell that contains it:
the returned index `k` is the index of that cell, the returned coordinate its centre, and
`lo + k·cell ≤ x < lo + (k+1)·cell` (the last cell is closed at the region's upper face). -/
theorem selConvert_point (m : Mesh) (hm : m.Inv) (dim : String) (a : Nat)
    (hd : m.region.dim2index dim = .ok a) (x : Rat)
    (h1 : m.region.lo a ≤ x) (h2 : x ≤ m.region.hi a) :
    selConvert m dim (.point x)
      = .ok (a, .plane (m.centreAx a ((m.indexAx a x : Nat) : Int)) (m.indexAx a x)) ∧
    m.indexAx a x < m.nAt a ∧
    m.region.lo a + (m.indexAx a x : Rat) * m.cellAt a ≤ x ∧
    (x < m.region.lo a + ((m.indexAx a x : Rat) + 1) * m.cellAt a ∨
      (m.indexAx a x = m.nAt a - 1 ∧ x = m.region.hi a)) := by
  have ha := dim2index_ndim hm hd
  refine ⟨?_, indexAx_lt m a x (inv_n_pos hm ha), index_contains m a x (inv_n_pos hm ha) (inv_lo_lt_hi hm ha) h1 h2⟩
  unfold selConvert
  rw [hd]
  simp only
  rw [selOne_eq m hm a ha x h1 h2]

/-- Without a coordinate the selection goes through the cell containing the region's centre. -/
theorem selConvert_centre (m : Mesh) (hm : m.Inv) (dim : String) (a : Nat)
    (hd : m.region.dim2index dim = .ok a) :
    selConvert m dim .centre
      = selConvert m dim (.point ((m.region.lo a + m.region.hi a) / 2)) := by
  have ha := dim2index_ndim hm hd
  have hlt := inv_lo_lt_hi hm ha
  rw [(selConvert_point m hm dim a hd _ (by linarith) (by linarith)).1]
  unfold selConvert
  rw [hd]
  simp only
  rw [cellOf_eq m hm a ha m.region.center (center_length m) (by
      intro b hb
      rw [center_getD m b hb]
      have := inv_lo_lt_hi hm hb
      constructor <;> linarith)]
  simp only
  rw [center_getD m a ha]

/-- A range inside the region is normalised to the cells containing its lower and its upper
bound (inclusive index range `k₁ … k₂`, `k₁ ≤ k₂`). -/
theorem selConvert_range (m : Mesh) (hm : m.Inv) (dim : String) (a : Nat)
    (hd : m.region.dim2index dim = .ok a) (x y : Rat)
    (h1 : m.region.lo a ≤ min x y) (h2 : max x y ≤ m.region.hi a) :
    selConvert m dim (.range x y)
      = .ok (a, .range (m.centreAx a ((m.indexAx a (min x y) : Nat) : Int))
                 (m.centreAx a ((m.indexAx a (max x y) : Nat) : Int))
                 (m.indexAx a (min x y)) (m.indexAx a (max x y))) ∧
    m.indexAx a (min x y) ≤ m.indexAx a (max x y) ∧ m.indexAx a (max x y) < m.nAt a := by
  have ha := dim2index_ndim hm hd
  have hmm : min x y ≤ max x y := le_trans (min_le_left x y) (le_max_left x y)
  refine ⟨?_, indexAx_mono m a _ _ (inv_cell_pos hm ha) hmm, indexAx_lt m a _ (inv_n_pos hm ha)⟩
  unfold selConvert
  rw [hd]
  simp only
  rw [selOne_eq m hm a ha _ h1 (le_trans hmm h2), selOne_eq m hm a ha _ (le_trans h1 hmm) h2]

/-- The two bounds of a range may be given in either order. -/
theorem sel_range_comm (f : Fld) (dim : String) (x y : Rat) :
    selConvert f.mesh dim (.range x y) = selConvert f.mesh dim (.range y x) ∧
    selMesh f.mesh dim (.range x y) = selMesh f.mesh dim (.range y x) ∧
    selFld f dim (.range x y) = selFld f dim (.range y x) := by
  have h : selConvert f.mesh dim (.range x y) = selConvert f.mesh dim (.range y x) := by
    unfold selConvert
    cases f.mesh.region.dim2index dim with
    | error e => rfl
    | ok a => simp only; rw [min_comm x y, max_comm x y]
  have h2 : selMesh f.mesh dim (.range x y) = selMesh f.mesh dim (.range y x) := by
    unfold selMesh; rw [h]
  exact ⟨h, h2, by unfold selFld; rw [h, h2]⟩

/-- Requests outside the region are rejected: a coordinate below `pmin` or above `pmax`, a
range with a bound outside, an unknown axis name, a malformed value — by `_sel_convert_input`,
`Mesh.sel` and `Field.sel` alike. -/
theorem sel_outside_rejected (f : Fld) (dim : String) (arg : SelArg)
    (hout : (∀ a, f.mesh.region.dim2index dim ≠ .ok a) ∨ arg = .bad ∨
      (∃ a x, f.mesh.region.dim2index dim = .ok a ∧ arg = .point x ∧
        (x < f.mesh.region.lo a ∨ f.mesh.region.hi a < x)) ∨
      (∃ a x y, f.mesh.region.dim2index dim = .ok a ∧ arg = .range x y ∧
        (min x y < f.mesh.region.lo a ∨ f.mesh.region.hi a < max x y))) :
    (∃ e, selConvert f.mesh dim arg = .error e) ∧ (∃ e, selMesh f.mesh dim arg = .error e) ∧
    (∃ e, selFld f dim arg = .error e) := by
  have key : ∃ e, selConvert f.mesh dim arg = .error e := by
    unfold selConvert
    rcases hout with h | h | ⟨a, x, hd, harg, hx⟩ | ⟨a, x, y, hd, harg, hxy⟩
    · cases hdi : f.mesh.region.dim2index dim with
      | error e => exact ⟨e, rfl⟩
      | ok a => exact absurd hdi (h a)
    · subst h
      cases f.mesh.region.dim2index dim with
      | error e => exact ⟨e, rfl⟩
      | ok a => exact ⟨_, rfl⟩
    · subst harg
      rw [hd]
      simp only
      rw [selOne_err _ a x hx]
      exact ⟨_, rfl⟩
    · subst harg
      rw [hd]
      simp only
      rcases hxy with h | h
      · rw [selOne_err _ a _ (Or.inl h)]
        exact ⟨_, rfl⟩
      · cases h1 : selOne f.mesh a (min x y) with
        | error e => exact ⟨e, rfl⟩
        | ok ck =>
          simp only
          rw [selOne_err _ a _ (Or.inr h)]
          exact ⟨_, rfl⟩
  obtain ⟨e, he⟩ := key
  refine ⟨⟨e, he⟩, ⟨e, by unfold selMesh; rw [he]⟩, ⟨e, by unfold selFld; rw [he]⟩⟩

/-! ## Plane selection -/

/-- `Mesh.sel` with a coordinate (or none): the result has exactly axis `a` removed — its
name and unit are gone, every other axis keeps corners, cell count and cell size — and it is
again a well-formed mesh.  (Cell-aligned: kept axes are identical to the source's.) -/
theorem sel_plane_shape (m : Mesh) (hm : m.Inv) (dim : String) (arg : SelArg) (a : Nat) (c : Rat) (k : Nat)
    (hconv : selConvert m dim arg = .ok (a, .plane c k)) (g : Mesh) (h : selMesh m dim arg = .ok g) :
    g.ndim = m.ndim - 1 ∧ 2 ≤ m.ndim ∧
    g.region.dims = removeAt m.region.dims a ∧ g.region.units = removeAt m.region.units a ∧
    g.region.tol = m.region.tol ∧
    (∀ b, b < g.ndim →
      g.region.lo b = m.region.lo (skip a b) ∧ g.region.hi b = m.region.hi (skip a b) ∧
      g.nAt b = m.nAt (skip a b) ∧ g.cellAt b = m.cellAt (skip a b)) ∧
    g.Inv := by
  have ha : a < m.ndim := by
    unfold selConvert at hconv
    split at hconv
    · cases hconv
    · rename_i a' hd
      have := dim2index_ndim hm hd
      cases arg <;> simp only at hconv
      · split at hconv
        · cases hconv
        · injection hconv with hc; injection hc with hc _; omega
      · split at hconv
        · cases hconv
        · injection hconv with hc; injection hc with hc _; omega
      · split at hconv
        · cases hconv
        · split at hconv
          · cases hconv
          · injection hconv with hc; injection hc with _ hc; cases hc
      · cases hconv
  have hp := selMesh_plane_inv m hm dim arg a c k hconv g h
  obtain ⟨e1, e2, e3, e4, e5, e6, e7, e8, e9⟩ := selPlaneMesh_inv m hm a ha c g hp
  have hax : ∀ b, b < g.ndim →
      g.region.lo b = m.region.lo (skip a b) ∧ g.region.hi b = m.region.hi (skip a b) ∧
      g.nAt b = m.nAt (skip a b) ∧ g.cellAt b = m.cellAt (skip a b) := by
    intro b hb
    obtain ⟨h1, h2, h3⟩ := e9 b (by omega)
    refine ⟨h1, h2, h3, ?_⟩
    unfold cellAt Region.edge; rw [h1, h2, h3]
  refine ⟨e1, by omega, e3, e4, e5, hax, ?_⟩
  refine ⟨⟨?_, ?_, ?_, ?_, e7, ?_⟩, ?_, ?_⟩
  · show 0 < g.ndim; omega
  · show g.region.pmax.length = g.ndim; omega
  · rw [e3, length_removeAt _ _ (by rw [inv_dims_length hm]; exact ha), inv_dims_length hm]
    show m.ndim - 1 = g.ndim; omega
  · rw [e4, length_removeAt _ _ (by rw [inv_units_length hm]; exact ha), inv_units_length hm]
    show m.ndim - 1 = g.ndim; omega
  · intro b hb
    have hb' : b < g.ndim := hb
    obtain ⟨h1, h2, _, _⟩ := hax b hb'
    rw [h1, h2]
    exact inv_lo_lt_hi hm (skip_lt a b m.ndim ha (by omega))
  · show g.n.length = g.ndim; omega
  · intro b hb
    rw [(hax b hb).2.2.1]
    exact inv_n_pos hm (skip_lt a b m.ndim ha (by omega))

/-- `Field.sel` with a coordinate `x`: for every cell `j` of the result, the point with the
result cell's centre on the kept axes and `x` on the removed axis lies in the source region,
in the source cell `insertAt j a k` (`k` = index of the layer containing `x`), and the result
holds exactly that cell's value and validity. -/
theorem sel_plane_pointwise (f : Fld) (hf : f.mesh.Inv) (dim : String) (x : Rat) (g : Fld)
    (h : selFld f dim (.point x) = .ok (.field g)) :
    ∃ a, f.mesh.region.dim2index dim = .ok a ∧
      f.mesh.region.lo a ≤ x ∧ x ≤ f.mesh.region.hi a ∧
      ∀ j, inRange g.mesh.n j = true →
        f.mesh.point2index (insertAt (g.mesh.centre j) a x)
          = .ok (insertAt j a (f.mesh.indexAx a x)) ∧
        g.data.get j = f.data.get (insertAt j a (f.mesh.indexAx a x)) ∧
        g.valid.get j = f.valid.get (insertAt j a (f.mesh.indexAx a x)) := by
  unfold selFld at h
  split at h
  · cases h
  · rename_i ai hconv
    obtain ⟨a, s⟩ := ai
    obtain ⟨hd, hx1, hx2, hs⟩ := selConvert_point_inv f.mesh hf dim x a s hconv
    subst hs
    have ha := dim2index_ndim hf hd
    split at h
    · simp only at h
      split at h
      · cases h
      · cases h
    · rename_i m' hm'
      simp only at h
      split at h
      · cases h
      · rename_i g' hg'
        injection h with h
        injection h with h
        subst h
        obtain ⟨q1, q2, q3, _⟩ := mkFld_inv _ _ _ _ _ hg'
        have hp := selMesh_plane_inv f.mesh hf dim _ a _ _ hconv m' hm'
        obtain ⟨e1, e2, _, _, _, _, _, _, e9⟩ := selPlaneMesh_inv f.mesh hf a ha _ m' hp
        refine ⟨a, hd, hx1, hx2, ?_⟩
        intro j hj
        rw [q1] at hj ⊢
        refine ⟨plane_point2index f.mesh m' hf a ha x hx1 hx2 e1 e2 e9 j hj, ?_, ?_⟩
        · rw [q2]; rfl
        · rw [q3]; rfl

/-- The same for the central plane (no coordinate given): the inserted coordinate is the
region's centre along the removed axis. -/
theorem sel_centre_pointwise (f : Fld) (hf : f.mesh.Inv) (dim : String) (g : Fld)
    (h : selFld f dim .centre = .ok (.field g)) :
    ∃ a, f.mesh.region.dim2index dim = .ok a ∧
      ∀ j, inRange g.mesh.n j = true →
        f.mesh.point2index (insertAt (g.mesh.centre j) a ((f.mesh.region.lo a + f.mesh.region.hi a) / 2))
          = .ok (insertAt j a (f.mesh.indexAx a ((f.mesh.region.lo a + f.mesh.region.hi a) / 2))) ∧
        g.data.get j = f.data.get (insertAt j a (f.mesh.indexAx a ((f.mesh.region.lo a + f.mesh.region.hi a) / 2))) ∧
        g.valid.get j = f.valid.get (insertAt j a (f.mesh.indexAx a ((f.mesh.region.lo a + f.mesh.region.hi a) / 2))) := by
  unfold selFld at h
  split at h
  · cases h
  · rename_i ai hconv
    obtain ⟨a, s⟩ := ai
    obtain ⟨hd, hs⟩ := selConvert_centre_inv f.mesh hf dim a s hconv
    subst hs
    have ha := dim2index_ndim hf hd
    have hlt := inv_lo_lt_hi hf ha
    split at h
    · simp only at h
      split at h
      · cases h
      · cases h
    · rename_i m' hm'
      simp only at h
      split at h
      · cases h
      · rename_i g' hg'
        injection h with h
        injection h with h
        subst h
        obtain ⟨q1, q2, q3, _⟩ := mkFld_inv _ _ _ _ _ hg'
        have hp := selMesh_plane_inv f.mesh hf dim _ a _ _ hconv m' hm'
        obtain ⟨e1, e2, _, _, _, _, _, _, e9⟩ := selPlaneMesh_inv f.mesh hf a ha _ m' hp
        refine ⟨a, hd, ?_⟩
        intro j hj
        rw [q1] at hj ⊢
        refine ⟨plane_point2index f.mesh m' hf a ha _ (by linarith) (by linarith) e1 e2 e9 j hj, ?_, ?_⟩
        · rw [q2]; rfl
        · rw [q3]; rfl

/-! ## Range selection -/

/-- `Mesh.sel` with a range: along the chosen axis exactly the cells from the one containing
the lower bound (`k₁`) to the one containing the upper bound (`k₂`) are kept — the new corners
are faces of the source mesh, `n = k₂ - k₁ + 1`, the cell size is unchanged; every other axis,
names, units and tolerance are kept; the result is a well-formed mesh. -/
theorem sel_range_shape (m : Mesh) (hm : m.Inv) (dim : String) (x y : Rat) (g : Mesh)
    (h : selMesh m dim (.range x y) = .ok g) :
    ∃ a, m.region.dim2index dim = .ok a ∧ m.region.lo a ≤ min x y ∧ max x y ≤ m.region.hi a ∧
      g.ndim = m.ndim ∧ g.region.dims = m.region.dims ∧ g.region.units = m.region.units ∧
      g.region.tol = m.region.tol ∧
      g.region.lo a = m.region.lo a + (m.indexAx a (min x y) : Rat) * m.cellAt a ∧
      g.region.hi a = m.region.lo a + ((m.indexAx a (max x y) : Rat) + 1) * m.cellAt a ∧
      g.nAt a = m.indexAx a (max x y) - m.indexAx a (min x y) + 1 ∧ g.cellAt a = m.cellAt a ∧
      (∀ b, b < m.ndim → b ≠ a →
        g.region.lo b = m.region.lo b ∧ g.region.hi b = m.region.hi b ∧ g.nAt b = m.nAt b ∧
        g.cellAt b = m.cellAt b) ∧
      g.Inv := by
  unfold selMesh at h
  split at h
  · cases h
  · rename_i ai hconv
    obtain ⟨a, s⟩ := ai
    obtain ⟨hd, h1, h2, hs⟩ := selConvert_range_inv m hm dim x y a s hconv
    subst hs
    have ha := dim2index_ndim hm hd
    have hmm : min x y ≤ max x y := le_trans (min_le_left x y) (le_max_left x y)
    have hk := indexAx_mono m a _ _ (inv_cell_pos hm ha) hmm
    have hk2 := indexAx_lt m a (max x y) (inv_n_pos hm ha)
    obtain ⟨e1, e2, e3, e4, e5, e6, e7, e8⟩ := selRangeMesh_inv m hm a ha _ _ hk hk2 g h
    have hhi := block_hi e7 (by omega)
    have hcast : ((m.indexAx a (max x y) - m.indexAx a (min x y) + 1 : Nat) : Rat)
        = (m.indexAx a (max x y) : Rat) - (m.indexAx a (min x y) : Rat) + 1 := by
      push_cast [Nat.cast_sub hk]; ring
    refine ⟨a, hd, h1, h2, e1, e3, e4, e5, e7.lo, by rw [hhi, hcast]; ring, e7.n, e7.cell, ?_, ?_⟩
    · intro b hb hba
      have blk := e8 b hb hba
      have hh := block_hi blk (inv_n_pos hm hb)
      refine ⟨by rw [blk.lo]; simp, ?_, blk.n, blk.cell⟩
      rw [hh, hi_eq m b (inv_n_pos hm hb)]; simp
    · have hpos : ∀ b, b < g.ndim → 0 < g.nAt b ∧ g.region.lo b < g.region.hi b := by
        intro b hb
        by_cases hba : b = a
        · subst hba
          have hc := inv_cell_pos hm ha
          refine ⟨by rw [e7.n]; omega, ?_⟩
          rw [hhi, e7.lo, hcast]
          have : (m.indexAx b (min x y) : Rat) ≤ (m.indexAx b (max x y) : Rat) := by exact_mod_cast hk
          nlinarith
        · have blk := e8 b (by omega) hba
          have hh := block_hi blk (inv_n_pos hm (by omega))
          have hc := inv_cell_pos hm (show b < m.ndim by omega)
          refine ⟨by rw [blk.n]; exact inv_n_pos hm (by omega), ?_⟩
          rw [hh, blk.lo]
          have : (0 : Rat) < (m.nAt b : Rat) := by exact_mod_cast inv_n_pos hm (show b < m.ndim by omega)
          nlinarith
      refine ⟨⟨?_, ?_, ?_, ?_, ?_, fun b hb => (hpos b hb).2⟩, ?_, fun b hb => (hpos b hb).1⟩
      · show 0 < g.ndim; rw [e1]; exact inv_ndim_pos hm
      · show g.region.pmax.length = g.ndim; omega
      · rw [e3, inv_dims_length hm]; exact e1.symm
      · rw [e4, inv_units_length hm]; exact e1.symm
      · rw [e3]; exact hm.1.2.2.2.2.1
      · show g.n.length = g.ndim; omega

/-- The overlap test of `Mesh.sel` for subregions (half a cell of margin on both sides): for a
subregion made of whole cells `s₁ … s₂-1` and a selection keeping cells `k₁ … k₂`, the subregion
is dropped exactly when the two share no whole cell. -/
theorem range_sub_dropped_iff (L c : Rat) (hc : 0 < c) (k1 k2 s1 s2 : Nat) :
    ((L + ((k2 : Rat) + 1) * c) - c / 2 ≤ L + (s1 : Rat) * c ∨ (L + (s2 : Rat) * c) - c / 2 ≤ L + (k1 : Rat) * c)
      ↔ (k2 + 1 ≤ s1 ∨ s2 ≤ k1) := by
  constructor
  · rintro (h | h)
    · left
      have : (k2 : Rat) < (s1 : Rat) := by
        by_contra hcon; rw [not_lt] at hcon
        have := mul_le_mul_of_nonneg_right hcon hc.le; nlinarith
      have : k2 < s1 := by exact_mod_cast this
      omega
    · right
      have : (s2 : Rat) < (k1 : Rat) + 1 := by
        by_contra hcon; rw [not_lt] at hcon
        have := mul_le_mul_of_nonneg_right hcon hc.le; nlinarith
      have : s2 < k1 + 1 := by exact_mod_cast this
      omega
  · rintro (h | h)
    · left
      have : (k2 : Rat) + 1 ≤ (s1 : Rat) := by exact_mod_cast h
      nlinarith
    · right
      have : (s2 : Rat) ≤ (k1 : Rat) := by exact_mod_cast h
      nlinarith

/-- `Field.sel` with a range: the centre of every result cell `j` lies in the source region, in
the source cell obtained by shifting `j` by `k₁` along the chosen axis, and the result holds
exactly that cell's value and validity. -/
theorem sel_range_pointwise (f : Fld) (hf : f.mesh.Inv) (dim : String) (x y : Rat) (g : Fld)
    (h : selFld f dim (.range x y) = .ok (.field g)) :
    ∃ a, f.mesh.region.dim2index dim = .ok a ∧
      ∀ j, inRange g.mesh.n j = true →
        f.mesh.point2index (g.mesh.centre j)
          = .ok (setAt j a (j.getD a 0 + f.mesh.indexAx a (min x y))) ∧
        g.data.get j = f.data.get (setAt j a (j.getD a 0 + f.mesh.indexAx a (min x y))) ∧
        g.valid.get j = f.valid.get (setAt j a (j.getD a 0 + f.mesh.indexAx a (min x y))) := by
  unfold selFld at h
  split at h
  · cases h
  · rename_i ai hconv
    obtain ⟨a, s⟩ := ai
    obtain ⟨hd, h1, h2, hs⟩ := selConvert_range_inv f.mesh hf dim x y a s hconv
    subst hs
    have ha := dim2index_ndim hf hd
    split at h
    · simp only at h
      cases h
    · rename_i m' hm'
      simp only at h
      split at h
      · cases h
      · rename_i g' hg'
        injection h with h
        injection h with h
        subst h
        obtain ⟨q1, q2, q3, _⟩ := mkFld_inv _ _ _ _ _ hg'
        have hmm : min x y ≤ max x y := le_trans (min_le_left x y) (le_max_left x y)
        have hk := indexAx_mono f.mesh a _ _ (inv_cell_pos hf ha) hmm
        have hk2 := indexAx_lt f.mesh a (max x y) (inv_n_pos hf ha)
        have hr := selMesh_range_inv f.mesh dim _ a _ _ _ _ hconv m' hm'
        obtain ⟨e1, e2, _, _, _, _, e7, e8⟩ := selRangeMesh_inv f.mesh hf a ha _ _ hk hk2 m' hr
        refine ⟨a, hd, ?_⟩
        intro j hj
        rw [q1] at hj ⊢
        have hjl : j.length = f.mesh.ndim := by rw [inRange_length _ _ hj, e2]
        have hp := block_point2index f.mesh m' hf e1 e2
          (fun b => if b = a then f.mesh.indexAx a (min x y) else 0)
          (fun b => if b = a then f.mesh.indexAx a (max x y) - f.mesh.indexAx a (min x y) + 1 else f.mesh.nAt b)
          (by
            intro b hb
            by_cases hba : b = a
            · subst hba; simpa using e7
            · simpa [hba] using e8 b hb hba) j hj
        have hidx : (tab f.mesh.ndim fun b => (if b = a then f.mesh.indexAx a (min x y) else 0) + j.getD b 0)
            = setAt j a (j.getD a 0 + f.mesh.indexAx a (min x y)) := by
          symm
          apply eq_tab_of_getD _ _ _ 0 (by rw [length_setAt, hjl])
          intro b hb
          by_cases hba : b = a
          · subst hba
            rw [getD_setAt_eq _ _ _ _ (by omega)]; simp; omega
          · rw [getD_setAt_ne _ _ _ _ _ hba]; simp [hba]
        rw [hidx] at hp
        refine ⟨hp, ?_, ?_⟩
        · rw [q2]; rfl
        · rw [q3]; rfl

/-! ## Extraction by region / by name, `region2slices` -/

/-- `mesh[region]` returns the smallest block of whole source cells containing the box: on
every axis the block is cells `i₁ … i₂` of the source (corners on source faces, same cell
size, `n = i₂ - i₁ + 1`), it contains `[item.lo, item.hi]`, and dropping its first or its last
layer of cells would uncover part of the box. -/
theorem getRegion_smallest (m : Mesh) (hm : m.Inv) (item : Region) (hbox : BoxIn m item) (g : Mesh)
    (h : getRegion m item = .ok g) :
    g.ndim = m.ndim ∧ g.region.dims = m.region.dims ∧ g.region.units = m.region.units ∧
    ∀ a, a < m.ndim →
      ∃ i1 i2 : Nat, i1 ≤ i2 ∧ i2 < m.nAt a ∧
        g.region.lo a = m.region.lo a + (i1 : Rat) * m.cellAt a ∧
        g.region.hi a = m.region.lo a + ((i2 : Rat) + 1) * m.cellAt a ∧
        g.nAt a = i2 - i1 + 1 ∧ g.cellAt a = m.cellAt a ∧
        g.region.lo a ≤ item.lo a ∧ item.hi a ≤ g.region.hi a ∧
        item.lo a < g.region.lo a + m.cellAt a ∧ g.region.hi a - m.cellAt a < item.hi a := by
  obtain ⟨e1, _, e3, e4, _, _, _, _, e9⟩ := getRegion_inv m hm item hbox g h
  refine ⟨e1, e3, e4, ?_⟩
  intro a ha
  obtain ⟨hle, hlt, hU, blk⟩ := e9 a ha
  obtain ⟨b1, b2, b3⟩ := hbox.2 a ha
  have hc := inv_cell_pos hm ha
  have hn := inv_n_pos hm ha
  have hhi := block_hi blk (by omega)
  have hcast : ((blockHi m item a - blockLo m item a + 1 : Nat) : Rat)
      = (blockHi m item a : Rat) - (blockLo m item a : Rat) + 1 := by
    push_cast [Nat.cast_sub hle]; ring
  have hcont := index_contains m a (item.lo a) hn (inv_lo_lt_hi hm ha) b1 (by linarith)
  have hub := upperIdx_bounds m a (item.hi a) hc
  have hUr : (upperIdx m a (item.hi a) : Rat) = (blockHi m item a : Rat) := by
    rw [hU]; push_cast; rfl
  rw [hUr] at hub
  have hhi' : g.region.hi a = m.region.lo a + ((blockHi m item a : Rat) + 1) * m.cellAt a := by
    rw [hhi, hcast]; ring
  refine ⟨blockLo m item a, blockHi m item a, hle, hlt, blk.lo, hhi', blk.n, blk.cell, ?_, ?_, ?_, ?_⟩
  · rw [blk.lo]; exact hcont.1
  · rw [hhi']; exact hub.2
  · rw [blk.lo]
    rcases hcont.2 with h2 | ⟨_, h2⟩
    · unfold blockLo; linarith
    · linarith
  · rw [hhi']; linarith [hub.1]

/-- For a vertex-aligned box the block is exactly the box. -/
theorem getRegion_aligned_exact (m : Mesh) (hm : m.Inv) (item : Region) (k1 k2 : Nat → Nat)
    (hal : SubAligned m item k1 k2) (g : Mesh) (h : getRegion m item = .ok g) :
    ∀ a, a < m.ndim → g.region.lo a = item.lo a ∧ g.region.hi a = item.hi a ∧ g.nAt a = k2 a - k1 a := by
  have hbox : BoxIn m item := by
    refine ⟨hal.1, ?_⟩
    intro a ha
    obtain ⟨t1, t2, t3, t4⟩ := hal.2.2 a ha
    have hc := inv_cell_pos hm ha
    have h12 : (k1 a : Rat) < (k2 a : Rat) := by exact_mod_cast t1
    have h2n : (k2 a : Rat) ≤ (m.nAt a : Rat) := by exact_mod_cast t2
    have h0 : (0 : Rat) ≤ (k1 a : Rat) := by exact_mod_cast Nat.zero_le _
    rw [t3, t4, hi_eq m a (inv_n_pos hm ha)]
    refine ⟨by nlinarith, by nlinarith, by nlinarith⟩
  obtain ⟨_, _, _, hax⟩ := getRegion_smallest m hm item hbox g h
  intro a ha
  obtain ⟨i1, i2, hle, hlt, q1, q2, q3, q4, q5, q6, q7, q8⟩ := hax a ha
  obtain ⟨t1, t2, t3, t4⟩ := hal.2.2 a ha
  have hc := inv_cell_pos hm ha
  rw [q1, t3] at q5 q7
  rw [q2, t4] at q6 q8
  have a1 : (i1 : Rat) ≤ (k1 a : Rat) := by
    by_contra hcon; rw [not_le] at hcon
    have := mul_lt_mul_of_pos_right hcon hc; linarith
  have a2 : (k1 a : Rat) < (i1 : Rat) + 1 := by
    by_contra hcon; rw [not_lt] at hcon
    have := mul_le_mul_of_nonneg_right hcon hc.le; linarith
  have a3 : (k2 a : Rat) ≤ (i2 : Rat) + 1 := by
    by_contra hcon; rw [not_le] at hcon
    have := mul_lt_mul_of_pos_right hcon hc; linarith
  have a4 : (i2 : Rat) < (k2 a : Rat) := by
    by_contra hcon; rw [not_lt] at hcon
    have := mul_le_mul_of_nonneg_right hcon hc.le; linarith
  have n1 : i1 ≤ k1 a := by exact_mod_cast a1
  have n2 : k1 a < i1 + 1 := by exact_mod_cast a2
  have n3 : k2 a ≤ i2 + 1 := by exact_mod_cast a3
  have n4 : i2 < k2 a := by exact_mod_cast a4
  have e1 : i1 = k1 a := by omega
  have e2 : i2 + 1 = k2 a := by omega
  refine ⟨by rw [q1, t3, e1], ?_, by rw [q3]; omega⟩
  rw [q2, t4, ← e2]; push_cast; ring

/-- `field[region]`: the centre of every result cell lies in the source region, in the source
cell `i₁ + j`, and the result holds exactly that cell's value and validity. -/
theorem getitem_region_pointwise (f : Fld) (hf : FldWF f) (item : Region) (hbox : BoxIn f.mesh item)
    (g : Fld) (h : getItem f (.region item) = .ok g) :
    getRegion f.mesh item = .ok g.mesh ∧
    ∀ j, inRange g.mesh.n j = true →
      f.mesh.point2index (g.mesh.centre j)
        = .ok (tab f.mesh.ndim fun b => blockLo f.mesh item b + j.getD b 0) ∧
      g.data.get j = f.data.get (tab f.mesh.ndim fun b => blockLo f.mesh item b + j.getD b 0) ∧
      g.valid.get j = f.valid.get (tab f.mesh.ndim fun b => blockLo f.mesh item b + j.getD b 0) := by
  have hsm : ∃ sm, getMesh f.mesh (.region item) = .ok sm := by
    unfold getItem at h
    cases hh : getMesh f.mesh (.region item) with
    | error e => rw [hh] at h; cases h
    | ok sm => exact ⟨sm, rfl⟩
  obtain ⟨sm, hsm⟩ := hsm
  have hsm' : getRegion f.mesh item = .ok sm := hsm
  obtain ⟨e1, e2, _, _, _, _, _, _, e9⟩ := getRegion_inv f.mesh hf.1 item hbox sm hsm'
  obtain ⟨r1, r2⟩ := getItem_block f hf (.region item) sm hsm e1 e2
    (blockLo f.mesh item) (fun b => blockHi f.mesh item b - blockLo f.mesh item b + 1)
    (fun b _ => by omega) (fun b hb => (e9 b hb).2.2.2) g h
  exact ⟨by rw [r1]; exact hsm', r2⟩

/-- `field[name]` for a subregion made of whole cells `k₁ … k₂-1`: the result mesh is the
subregion itself, and every result cell `j` holds value and validity of source cell `k₁ + j`,
the cell containing the result cell's centre. -/
theorem getitem_name_pointwise (f : Fld) (hf : FldWF f) (name : String) (s : Region)
    (hfind : findSub f.mesh.subs name = some s) (k1 k2 : Nat → Nat) (hal : SubAligned f.mesh s k1 k2)
    (g : Fld) (h : getItem f (.name name) = .ok g) :
    g.mesh.region = s ∧
    ∀ j, inRange g.mesh.n j = true →
      f.mesh.point2index (g.mesh.centre j) = .ok (tab f.mesh.ndim fun b => k1 b + j.getD b 0) ∧
      g.data.get j = f.data.get (tab f.mesh.ndim fun b => k1 b + j.getD b 0) ∧
      g.valid.get j = f.valid.get (tab f.mesh.ndim fun b => k1 b + j.getD b 0) := by
  have hsm : ∃ sm, getMesh f.mesh (.name name) = .ok sm := by
    unfold getItem at h
    cases hh : getMesh f.mesh (.name name) with
    | error e => rw [hh] at h; cases h
    | ok sm => exact ⟨sm, rfl⟩
  obtain ⟨sm, hsm⟩ := hsm
  have hsm' : getName f.mesh name = .ok sm := hsm
  obtain ⟨e0, e1, e2, e3⟩ := getName_inv f.mesh hf.1 name s hfind k1 k2 hal sm hsm'
  obtain ⟨r1, r2⟩ := getItem_block f hf (.name name) sm hsm e1 e2 k1 (fun b => k2 b - k1 b)
    (fun b hb => by have := (hal.2.2 b hb).1; omega) e3 g h
  exact ⟨by rw [r1]; exact e0, r2⟩

/-- A missing subregion name and a box that is not inside the region (beyond the region's
tolerance) are rejected. -/
theorem getitem_outside_rejected (f : Fld) (item : Item)
    (hout : (∃ n, item = .name n ∧ findSub f.mesh.subs n = none) ∨
      (∃ r, item = .region r ∧ f.mesh.region.containsReg r = false)) :
    (∃ e, getMesh f.mesh item = .error e) ∧ (∃ e, getItem f item = .error e) := by
  have key : ∃ e, getMesh f.mesh item = .error e := by
    rcases hout with ⟨n, hi, hn⟩ | ⟨r, hi, hr⟩
    · subst hi; exact ⟨.key, by show getName f.mesh n = _; unfold getName; rw [hn]⟩
    · subst hi; exact ⟨.value, by show getRegion f.mesh r = _; unfold getRegion; rw [hr]; rfl⟩
  obtain ⟨e, he⟩ := key
  exact ⟨⟨e, he⟩, ⟨e, by unfold getItem; rw [he]⟩⟩

/-- `region2slices` of a sub-box made of whole cells `k₁ … k₂-1`: the slices are `k₁ : k₂`, and
these are exactly the cells whose centre lies in the box. -/
theorem region2slices_spec (m : Mesh) (hm : m.Inv) (r : Region) (k1 k2 : Nat → Nat)
    (hal : SubAligned m r k1 k2) :
    region2slices m r = .ok (tab m.ndim fun a => (k1 a, k2 a)) ∧
    ∀ a, a < m.ndim → ∀ i : Nat,
      (k1 a ≤ i ∧ i < k2 a) ↔ (r.lo a ≤ m.centreAx a (i : Int) ∧ m.centreAx a (i : Int) ≤ r.hi a) := by
  obtain ⟨s1, s2, s3⟩ := hal
  constructor
  · unfold region2slices
    rw [if_neg (by simp [s1])]
    have hfacts : ∀ a, a < m.ndim →
        m.indexAx a (r.lo a + m.cellAt a / 2) = k1 a ∧
        m.indexAx a (r.hi a - m.cellAt a / 2) + 1 = k2 a ∧
        m.region.lo a ≤ r.lo a + m.cellAt a / 2 ∧ r.lo a + m.cellAt a / 2 ≤ m.region.hi a ∧
        m.region.lo a ≤ r.hi a - m.cellAt a / 2 ∧ r.hi a - m.cellAt a / 2 ≤ m.region.hi a := by
      intro a ha
      obtain ⟨t1, t2, t3, t4⟩ := s3 a ha
      have hc := inv_cell_pos hm ha
      have h12 : (k1 a : Rat) + 1 ≤ (k2 a : Rat) := by exact_mod_cast t1
      have h2n : (k2 a : Rat) ≤ (m.nAt a : Rat) := by exact_mod_cast t2
      have h0 : (0 : Rat) ≤ (k1 a : Rat) := by exact_mod_cast Nat.zero_le _
      have hk2 : ((k2 a - 1 : Nat) : Rat) = (k2 a : Rat) - 1 := by
        push_cast [Nat.cast_sub (by omega : 1 ≤ k2 a)]; ring
      refine ⟨?_, ?_, ?_, ?_, ?_, ?_⟩
      · apply indexAx_eq_of_bounds m a _ (k1 a) (by omega) hc <;> rw [t3] <;> nlinarith
      · have : m.indexAx a (r.hi a - m.cellAt a / 2) = k2 a - 1 := by
          apply indexAx_eq_of_bounds m a _ (k2 a - 1) (by omega) hc <;> rw [t4, hk2] <;> nlinarith
        rw [this]; omega
      · rw [t3]; nlinarith
      · rw [t3, hi_eq m a (inv_n_pos hm ha)]; nlinarith
      · rw [t4]; nlinarith
      · rw [t4, hi_eq m a (inv_n_pos hm ha)]; nlinarith
    rw [point2index_eq m _ (by simp) (by
      intro a ha
      rw [getD_tab _ _ _ _ ha]
      exact ⟨(hfacts a ha).2.2.1, (hfacts a ha).2.2.2.1⟩)]
    simp only
    rw [point2index_eq m _ (by simp) (by
      intro a ha
      rw [getD_tab _ _ _ _ ha]
      exact ⟨(hfacts a ha).2.2.2.2.1, (hfacts a ha).2.2.2.2.2⟩)]
    simp only
    congr 1
    apply tab_congr
    intro a ha
    rw [getD_tab _ _ _ _ ha, getD_tab _ _ _ _ ha, getD_tab _ _ _ _ ha, getD_tab _ _ _ _ ha,
      (hfacts a ha).1, (hfacts a ha).2.1]
  · intro a ha i
    obtain ⟨t1, t2, t3, t4⟩ := s3 a ha
    have hc := inv_cell_pos hm ha
    rw [centreAx_cast, t3, t4]
    constructor
    · rintro ⟨h1, h2⟩
      have h1' : (k1 a : Rat) ≤ (i : Rat) := by exact_mod_cast h1
      have h2' : (i : Rat) + 1 ≤ (k2 a : Rat) := by exact_mod_cast h2
      constructor <;> nlinarith
    · rintro ⟨h1, h2⟩
      have a1 : (k1 a : Rat) < (i : Rat) + 1 := by
        by_contra hcon; rw [not_lt] at hcon
        have := mul_le_mul_of_nonneg_right hcon hc.le; nlinarith
      have a2 : (i : Rat) < (k2 a : Rat) := by
        by_contra hcon; rw [not_lt] at hcon
        have := mul_le_mul_of_nonneg_right hcon hc.le; nlinarith
      have n1 : k1 a < i + 1 := by exact_mod_cast a1
      have n2 : i < k2 a := by exact_mod_cast a2
      omega

/-! ## Padding -/

/-- `Mesh.pad` adds exactly the requested number of cells per side: `n' = n + L + H` on every
axis (`L`, `H` the widths requested for that axis, 0 if not named), the corners move by whole
cells, the cell size, names, units and tolerance are kept, the boundary condition is kept. -/
theorem pad_counts (m : Mesh) (hm : m.Inv) (pw : List PadW)
    (hL : ∀ b, b < m.ndim → 0 ≤ sumW m (·.lo) pw b) (hH : ∀ b, b < m.ndim → 0 ≤ sumW m (·.hi) pw b)
    (g : Mesh) (h : padMesh m pw = .ok g) :
    g.ndim = m.ndim ∧ g.region.dims = m.region.dims ∧ g.region.units = m.region.units ∧
    g.region.tol = m.region.tol ∧ g.bc = m.bc.toLower ∧
    ∀ b, b < m.ndim →
      g.nAt b = m.nAt b + (sumW m (·.lo) pw b).toNat + (sumW m (·.hi) pw b).toNat ∧
      g.region.lo b = m.region.lo b - ((sumW m (·.lo) pw b).toNat : Rat) * m.cellAt b ∧
      g.region.hi b = m.region.hi b + ((sumW m (·.hi) pw b).toNat : Rat) * m.cellAt b ∧
      g.cellAt b = m.cellAt b := by
  obtain ⟨e1, _, e3, e4, e5, e6, _, e8⟩ := padMesh_inv m hm pw hL hH g h
  refine ⟨e1, e3, e4, e5, e6, ?_⟩
  intro b hb
  obtain ⟨h1, h2, h3, blk⟩ := e8 b hb
  exact ⟨h1, h2, h3, blk.cell.symm⟩

/-- `Field.pad` pads data and validity by the same widths as the mesh, with the index map of
the chosen mode; cells that hit the constant fill get zeros / `False`. -/
theorem pad_rule (f : Fld) (hf : FldWF f) (pw : List PadW) (hnd : (pw.map (·.dim)).Nodup)
    (mode : PadMode) (g : Fld) (h : padFld f pw mode = .ok g) (j : List Nat) :
    padMesh f.mesh pw = .ok g.mesh ∧
    g.data.get j = (match padSrcIdx mode f.mesh.n
        (fun b => (sumW f.mesh (·.lo) pw b, sumW f.mesh (·.hi) pw b)) j with
      | some i => f.data.get i
      | none => List.replicate f.nvdim 0) ∧
    g.valid.get j = (match padSrcIdx mode f.mesh.n
        (fun b => (sumW f.mesh (·.lo) pw b, sumW f.mesh (·.hi) pw b)) j with
      | some i => f.valid.get i
      | none => false) := by
  obtain ⟨p1, _, p3, p4⟩ := padFld_inv f hf pw hnd mode g h
  refine ⟨p1, ?_, ?_⟩
  · rw [p3]; unfold padNDA; simp only; rw [hf.2.1]; rfl
  · rw [p4]; unfold padNDA; simp only; rw [hf.2.2]; rfl

/-- Cells of the padded field whose centre lies inside the source: the centre of result cell
`j` is the centre of source cell `j - L`, and the result holds that cell's value and validity —
whatever the mode. -/
theorem pad_inside_pointwise (f : Fld) (hf : FldWF f) (pw : List PadW) (hnd : (pw.map (·.dim)).Nodup)
    (mode : PadMode) (g : Fld) (h : padFld f pw mode = .ok g) (j : List Nat)
    (hin : ∀ b, b < f.mesh.ndim →
      (sumW f.mesh (·.lo) pw b).toNat ≤ j.getD b 0 ∧
      j.getD b 0 < (sumW f.mesh (·.lo) pw b).toNat + f.mesh.nAt b) :
    f.mesh.point2index (g.mesh.centre j)
      = .ok (tab f.mesh.ndim fun b => j.getD b 0 - (sumW f.mesh (·.lo) pw b).toNat) ∧
    g.data.get j = f.data.get (tab f.mesh.ndim fun b => j.getD b 0 - (sumW f.mesh (·.lo) pw b).toNat) ∧
    g.valid.get j = f.valid.get (tab f.mesh.ndim fun b => j.getD b 0 - (sumW f.mesh (·.lo) pw b).toNat) := by
  obtain ⟨p1, p2, _, _⟩ := padFld_inv f hf pw hnd mode g h
  obtain ⟨_, r2, r3⟩ := pad_rule f hf pw hnd mode g h j
  obtain ⟨hinv, hds, hvs⟩ := hf
  obtain ⟨e1, _, _, _, _, _, _, e8⟩ := padMesh_inv f.mesh hinv pw (fun b _ => (p2 b).1) (fun b _ => (p2 b).2) g.mesh p1
  have hsrc : padSrcIdx mode f.mesh.n (fun b => (sumW f.mesh (·.lo) pw b, sumW f.mesh (·.hi) pw b)) j
      = some (tab f.mesh.ndim fun b => j.getD b 0 - (sumW f.mesh (·.lo) pw b).toNat) := by
    unfold padSrcIdx
    rw [inv_n_length hinv]
    have hs : ∀ b, b < f.mesh.ndim →
        padSrc mode (f.mesh.n.getD b 0) (sumW f.mesh (·.lo) pw b).toNat (j.getD b 0)
          = some (j.getD b 0 - (sumW f.mesh (·.lo) pw b).toNat) :=
      fun b hb => padSrc_inside mode _ _ _ (hin b hb).1 (hin b hb).2
    have hall : allLt f.mesh.ndim (fun b =>
        (padSrc mode (f.mesh.n.getD b 0) (sumW f.mesh (·.lo) pw b).toNat (j.getD b 0)).isSome) = true := by
      rw [allLt_iff]; intro b hb; rw [hs b hb]; rfl
    simp only
    rw [if_pos hall]
    congr 1
    apply tab_congr
    intro b hb
    rw [hs b hb]; rfl
  rw [hsrc] at r2 r3
  refine ⟨?_, r2, r3⟩
  have hfacts : ∀ b, b < f.mesh.ndim →
      f.mesh.indexAx b ((g.mesh.centre j).getD b 0) = j.getD b 0 - (sumW f.mesh (·.lo) pw b).toNat ∧
      f.mesh.region.lo b ≤ (g.mesh.centre j).getD b 0 ∧ (g.mesh.centre j).getD b 0 ≤ f.mesh.region.hi b := by
    intro b hb
    obtain ⟨_, _, _, blk⟩ := e8 b hb
    have hc := inv_cell_pos hinv hb
    have hlt : j.getD b 0 - (sumW f.mesh (·.lo) pw b).toNat < f.mesh.nAt b := by have := hin b hb; omega
    have hcen := block_centre blk (j.getD b 0 - (sumW f.mesh (·.lo) pw b).toNat)
    have hsum : (sumW f.mesh (·.lo) pw b).toNat + (j.getD b 0 - (sumW f.mesh (·.lo) pw b).toNat) = j.getD b 0 := by
      have := (hin b hb).1; omega
    rw [hsum] at hcen
    rw [centre_getD g.mesh j b (by omega), ← hcen]
    exact ⟨roundtrip f.mesh b _ hlt hc, centre_bounds f.mesh b _ hlt hc⟩
  rw [point2index_eq f.mesh _ (by rw [centre_length, e1]) (fun b hb => (hfacts b hb).2)]
  congr 1
  exact tab_congr _ _ _ (fun b hb => (hfacts b hb).1)

/-- mode `constant`: a position outside the source takes the fill value -/
theorem padSrc_constant (n lo j : Nat) (hout : ¬ (lo ≤ j ∧ j < lo + n)) :
    padSrc .constant n lo j = none := by
  unfold padSrc; rw [if_neg hout]

/-- mode `edge`: a position outside the source takes the nearest source cell -/
theorem padSrc_edge (n lo j : Nat) (hout : ¬ (lo ≤ j ∧ j < lo + n)) :
    padSrc .edge n lo j = some (if j < lo then 0 else n - 1) := by
  unfold padSrc; rw [if_neg hout]
  simp only
  split <;> rfl

/-- mode `wrap` is the periodic continuation: the source cell `i` used at position `j` differs
from `j - lo` by a whole number of periods `n` — in physical terms the two cell centres are a
whole number of edge lengths apart. -/
theorem padSrc_wrap (n lo j : Nat) (hn : 0 < n) :
    ∃ i, padSrc .wrap n lo j = some i ∧ i < n ∧ ∃ k : Int, (j : Int) - (lo : Int) = (i : Int) + k * (n : Int) := by
  have hnz : (n : Int) ≠ 0 := by omega
  have hpos : (0 : Int) < (n : Int) := by omega
  by_cases hin : lo ≤ j ∧ j < lo + n
  · refine ⟨j - lo, padSrc_inside _ _ _ _ hin.1 hin.2, by omega, 0, by omega⟩
  · refine ⟨(((j : Int) - (lo : Int)) % (n : Int)).toNat, ?_, ?_, ((j : Int) - (lo : Int)) / (n : Int), ?_⟩
    · unfold padSrc; rw [if_neg hin]
    · have h1 := Int.emod_lt_of_pos ((j : Int) - (lo : Int)) hpos
      have h0 := Int.emod_nonneg ((j : Int) - (lo : Int)) hnz
      omega
    · have h0 := Int.emod_nonneg ((j : Int) - (lo : Int)) hnz
      rw [Int.toNat_of_nonneg h0]
      have := Int.emod_add_mul_ediv ((j : Int) - (lo : Int)) (n : Int)
      linarith

/-- mode `symmetric` is the mirror continuation about the boundary faces: position `j` shows
source cell `i` where either `j - lo = i` modulo `2n` (even image) or `j - lo = -1 - i` modulo
`2n` (mirror image: the two cell centres are symmetric about a face `lo + K·n`). -/
theorem padSrc_symmetric (n lo j : Nat) (hn : 0 < n) :
    ∃ i, padSrc .symmetric n lo j = some i ∧ i < n ∧
      ∃ k : Int, (j : Int) - (lo : Int) = (i : Int) + k * (2 * (n : Int)) ∨
                 (j : Int) - (lo : Int) = -1 - (i : Int) + k * (2 * (n : Int)) := by
  have hnz : (2 * (n : Int)) ≠ 0 := by omega
  have hpos : (0 : Int) < 2 * (n : Int) := by omega
  by_cases hin : lo ≤ j ∧ j < lo + n
  · refine ⟨j - lo, padSrc_inside _ _ _ _ hin.1 hin.2, by omega, 0, Or.inl (by omega)⟩
  · have h1 := Int.emod_lt_of_pos ((j : Int) - (lo : Int)) hpos
    have h0 := Int.emod_nonneg ((j : Int) - (lo : Int)) hnz
    have hdiv := Int.emod_add_mul_ediv ((j : Int) - (lo : Int)) (2 * (n : Int))
    by_cases hlt : (((j : Int) - (lo : Int)) % (2 * (n : Int))) < (n : Int)
    · refine ⟨(((j : Int) - (lo : Int)) % (2 * (n : Int))).toNat, ?_, by omega,
        ((j : Int) - (lo : Int)) / (2 * (n : Int)), Or.inl ?_⟩
      · unfold padSrc; rw [if_neg hin]; simp only; rw [if_pos hlt]
      · rw [Int.toNat_of_nonneg h0]
        linarith
    · refine ⟨(2 * (n : Int) - 1 - (((j : Int) - (lo : Int)) % (2 * (n : Int)))).toNat, ?_, by omega,
        ((j : Int) - (lo : Int)) / (2 * (n : Int)) + 1, Or.inr ?_⟩
      · unfold padSrc; rw [if_neg hin]; simp only; rw [if_neg hlt]
      · rw [Int.toNat_of_nonneg (by omega)]
        linarith

/-- mode `reflect` is the mirror continuation about the centres of the boundary cells: period
`2n - 2`, `j - lo = ± i` modulo the period (for a single-cell axis numpy repeats the cell). -/
theorem padSrc_reflect (n lo j : Nat) (hn : 2 ≤ n) :
    ∃ i, padSrc .reflect n lo j = some i ∧ i < n ∧
      ∃ k : Int, (j : Int) - (lo : Int) = (i : Int) + k * (2 * (n : Int) - 2) ∨
                 (j : Int) - (lo : Int) = -(i : Int) + k * (2 * (n : Int) - 2) := by
  have hnz : (2 * (n : Int) - 2) ≠ 0 := by omega
  have hpos : (0 : Int) < 2 * (n : Int) - 2 := by omega
  have hn1 : ¬ n = 1 := by omega
  by_cases hin : lo ≤ j ∧ j < lo + n
  · refine ⟨j - lo, padSrc_inside _ _ _ _ hin.1 hin.2, by omega, 0, Or.inl (by omega)⟩
  · have h1 := Int.emod_lt_of_pos ((j : Int) - (lo : Int)) hpos
    have h0 := Int.emod_nonneg ((j : Int) - (lo : Int)) hnz
    have hdiv := Int.emod_add_mul_ediv ((j : Int) - (lo : Int)) (2 * (n : Int) - 2)
    by_cases hlt : (((j : Int) - (lo : Int)) % (2 * (n : Int) - 2)) < (n : Int)
    · refine ⟨(((j : Int) - (lo : Int)) % (2 * (n : Int) - 2)).toNat, ?_, by omega,
        ((j : Int) - (lo : Int)) / (2 * (n : Int) - 2), Or.inl ?_⟩
      · unfold padSrc; rw [if_neg hin]; simp only; rw [if_neg hn1, if_pos hlt]
      · rw [Int.toNat_of_nonneg h0]
        linarith
    · refine ⟨(2 * (n : Int) - 2 - (((j : Int) - (lo : Int)) % (2 * (n : Int) - 2))).toNat, ?_, by omega,
        ((j : Int) - (lo : Int)) / (2 * (n : Int) - 2) + 1, Or.inr ?_⟩
      · unfold padSrc; rw [if_neg hin]; simp only; rw [if_neg hn1, if_neg hlt]
      · rw [Int.toNat_of_nonneg (by omega)]
        linarith

/-- The index statement of `padSrc_wrap` in physical terms: if source cell `i` is shown at
position `j` of an axis padded by `L` cells in front, with `j - L = i + k·n`, then the two cell
centres are exactly `k` edge lengths apart. -/
theorem pad_wrap_physical (f g : Mesh) (b L : Nat) (hn : 0 < f.nAt b)
    (blk : AxisBlock f g b b L (f.nAt b)) (i j : Nat) (k : Int)
    (hk : (j : Int) - (L : Int) = (i : Int) + k * (f.nAt b : Int)) :
    g.centreAx b (j : Int) = f.centreAx b (i : Int) + (k : Rat) * (f.region.hi b - f.region.lo b) := by
  have hj : (j : Rat) = (L : Rat) + (i : Rat) + (k : Rat) * (f.nAt b : Rat) := by
    have : (j : Int) = (L : Int) + (i : Int) + k * (f.nAt b : Int) := by omega
    exact_mod_cast this
  rw [← cover f b hn, centreAx_cast, centreAx_cast, blk.lo, ← blk.cell, hj]; ring

/-! ## Resampling -/

/-- `Field.resample n` keeps the region (corners, names, units, tolerance) and has exactly the
requested cell counts. -/
theorem resample_region (f : Fld) (n : List Int) (g : Fld) (h : resample f n = .ok g) :
    g.mesh.region = f.mesh.region ∧ g.mesh.n = n.map Int.toNat ∧ n.length = f.mesh.ndim ∧
    (∀ k, k ∈ n → 0 < k) := by
  unfold resample at h
  split at h
  · cases h
  · split at h
    · cases h
    · rename_i hlen hpos
      split at h
      · cases h
      · rename_i m' hm'
        split at h
        · cases h
        · obtain ⟨q1, _, _, _⟩ := mkFld_inv _ _ _ _ _ h
          unfold Mesh.mkN? at hm'
          split at hm'
          · cases hm'
          · split at hm'
            · cases hm'
            · split at hm'
              · cases hm'
              · injection hm' with hm'
                subst hm'
                refine ⟨by rw [q1], by rw [q1], by omega, ?_⟩
                intro k hk
                by_contra hcon
                apply hpos
                rw [List.any_eq_true]
                exact ⟨k, hk, by simpa using hcon⟩

/-- Nearest-cell resampling is point sampling: the centre of every result cell lies in the
source region, and the result holds value and validity of the source cell containing that
centre (the lookup of the nearest source centre finds exactly that cell). -/
theorem resample_pointwise (f : Fld) (hf : FldWF f) (n : List Int) (g : Fld) (h : resample f n = .ok g) :
    ∀ j, inRange g.mesh.n j = true →
      f.mesh.point2index (g.mesh.centre j)
        = .ok (tab f.mesh.ndim fun b => f.mesh.indexAx b (g.mesh.centreAx b ((j.getD b 0 : Nat) : Int))) ∧
      g.data.get j = f.data.get
        (tab f.mesh.ndim fun b => f.mesh.indexAx b (g.mesh.centreAx b ((j.getD b 0 : Nat) : Int))) ∧
      g.valid.get j = f.valid.get
        (tab f.mesh.ndim fun b => f.mesh.indexAx b (g.mesh.centreAx b ((j.getD b 0 : Nat) : Int))) := by
  obtain ⟨r1, r2, r3, r4⟩ := resample_region f n g h
  obtain ⟨hinv, hds, hvs⟩ := hf
  -- the target mesh is well formed
  have hgn : g.mesh.ndim = f.mesh.ndim := by unfold Mesh.ndim; rw [r1]
  have hginv : g.mesh.Inv := by
    refine ⟨by rw [r1]; exact hinv.1, by rw [r2, List.length_map, r3]; exact hgn.symm, ?_⟩
    intro b hb
    rw [nAt_def, r2, List.getD_eq_getElem?_getD, List.getElem?_map]
    have hb' : b < n.length := by omega
    rw [List.getElem?_eq_getElem hb']
    simp only [Option.map_some, Option.getD_some]
    have := r4 n[b] (List.getElem_mem hb')
    omega
  unfold resample at h
  rw [if_neg (by omega : ¬ n.length ≠ f.mesh.ndim)] at h
  split at h
  · cases h
  · split at h
    · cases h
    · rename_i m' hm'
      split at h
      · cases h
      · obtain ⟨q1, q2, q3, _⟩ := mkFld_inv _ _ _ _ _ h
        intro j hj
        have hjb : ∀ b, b < f.mesh.ndim → j.getD b 0 < g.mesh.nAt b := fun b hb =>
          inRange_getD _ _ hj b (by rw [inv_n_length hginv]; omega)
        have hcb : ∀ b, b < f.mesh.ndim →
            f.mesh.region.lo b ≤ g.mesh.centreAx b ((j.getD b 0 : Nat) : Int) ∧
            g.mesh.centreAx b ((j.getD b 0 : Nat) : Int) ≤ f.mesh.region.hi b := by
          intro b hb
          have := centre_bounds g.mesh b _ (hjb b hb) (inv_cell_pos hginv (by omega))
          rw [r1] at this
          exact this
        have hnear : (tab f.mesh.ndim fun a => nearestAx f.mesh a (coord g.mesh a (j.getD a 0)))
            = tab f.mesh.ndim fun b => f.mesh.indexAx b (g.mesh.centreAx b ((j.getD b 0 : Nat) : Int)) := by
          apply tab_congr
          intro b hb
          rw [coord_eq g.mesh hginv b (by omega) _ (hjb b hb)]
          exact nearestAx_eq_indexAx f.mesh hinv b hb _ (hcb b hb).1 (hcb b hb).2
        refine ⟨?_, ?_, ?_⟩
        · rw [point2index_eq f.mesh _ (by rw [centre_length, hgn]) (by
            intro b hb
            rw [centre_getD g.mesh j b (by omega)]
            exact hcb b hb)]
          congr 1
          apply tab_congr
          intro b hb
          rw [centre_getD g.mesh j b (by omega)]
        · rw [q2]
          show f.data.get (tab f.mesh.ndim fun a => nearestAx f.mesh a (coord m' a (j.getD a 0))) = _
          rw [← q1, hnear]
        · rw [q3]
          show f.valid.get (tab f.mesh.ndim fun a => nearestAx f.mesh a (coord m' a (j.getD a 0))) = _
          rw [← q1, hnear]

/-- Resampling to the same cell counts returns the same field: same region, same counts, and
every cell keeps its value and validity. -/
theorem resample_id (f : Fld) (hf : FldWF f) (g : Fld)
    (h : resample f (f.mesh.n.map Int.ofNat) = .ok g) :
    g.mesh.region = f.mesh.region ∧ g.mesh.n = f.mesh.n ∧
    ∀ j, inRange f.mesh.n j = true → g.data.get j = f.data.get j ∧ g.valid.get j = f.valid.get j := by
  obtain ⟨r1, r2, _, _⟩ := resample_region f _ g h
  have hn : g.mesh.n = f.mesh.n := by
    rw [r2, List.map_map]
    have : (Int.toNat ∘ Int.ofNat) = id := by funext k; simp
    rw [this, List.map_id]
  refine ⟨r1, hn, ?_⟩
  intro j hj
  have hj' : inRange g.mesh.n j = true := by rw [hn]; exact hj
  obtain ⟨_, p2, p3⟩ := resample_pointwise f hf _ g h j hj'
  have hinv := hf.1
  have hidx : (tab f.mesh.ndim fun b => f.mesh.indexAx b (g.mesh.centreAx b ((j.getD b 0 : Nat) : Int))) = j := by
    symm
    apply eq_tab_of_getD _ _ _ 0 (by rw [inRange_length _ _ hj, inv_n_length hinv])
    intro b hb
    have hjb : j.getD b 0 < f.mesh.nAt b := inRange_getD _ _ hj b (by rw [inv_n_length hinv]; exact hb)
    have hcen : g.mesh.centreAx b ((j.getD b 0 : Nat) : Int) = f.mesh.centreAx b ((j.getD b 0 : Nat) : Int) := by
      unfold centreAx cellAt nAt
      rw [r1, hn]
    rw [hcen, roundtrip f.mesh b _ hjb (inv_cell_pos hinv hb)]
  rw [hidx] at p2 p3
  exact ⟨p2, p3⟩

/-- Malformed target resolutions (wrong number of entries, a zero or negative count) are rejected. -/
theorem resample_rejects (f : Fld) (n : List Int)
    (hbad : n.length ≠ f.mesh.ndim ∨ ∃ k, k ∈ n ∧ k ≤ 0) : ∃ e, resample f n = .error e := by
  unfold resample
  by_cases hl : n.length ≠ f.mesh.ndim
  · exact ⟨_, by rw [if_pos hl]⟩
  · rw [if_neg hl]
    rcases hbad with h | ⟨k, hk, hk0⟩
    · exact absurd h hl
    · have : (n.any fun k => decide (k ≤ 0)) = true := by
        rw [List.any_eq_true]; exact ⟨k, hk, by simpa using hk0⟩
      exact ⟨_, by rw [if_pos this]⟩

/-! ## In-region requests are accepted (exact arithmetic, meshes without subregions) -/

/-- Every coordinate inside the region selects a plane: `Mesh.sel` returns the mesh with the
axis removed and `Field.sel` returns a field on it. -/
theorem sel_plane_accepts (f : Fld) (hf : FldWF f) (hmeta : metaOk f = true) (hs : f.mesh.subs = [])
    (h2 : 2 ≤ f.mesh.ndim) (dim : String) (a : Nat) (hd : f.mesh.region.dim2index dim = .ok a) (x : Rat)
    (h1 : f.mesh.region.lo a ≤ x) (hx2 : x ≤ f.mesh.region.hi a) :
    selMesh f.mesh dim (.point x) = .ok (planeOf f.mesh a) ∧
    ∃ g, selFld f dim (.point x) = .ok (.field g) := by
  obtain ⟨hinv, hds, hvs⟩ := hf
  have ha := dim2index_ndim hinv hd
  have hconv := (selConvert_point f.mesh hinv dim a hd x h1 hx2).1
  have hmesh : selMesh f.mesh dim (.point x) = .ok (planeOf f.mesh a) := by
    unfold selMesh; rw [hconv]; exact selPlaneMesh_ok f.mesh hinv hs a ha h2 _
  refine ⟨hmesh, ?_⟩
  unfold selFld
  rw [hconv, hmesh]
  simp only
  obtain ⟨g, hg⟩ := mkFld_ok (planeOf f.mesh a) f
    (selData f.data a (.plane (f.mesh.centreAx a ((f.mesh.indexAx a x : Nat) : Int)) (f.mesh.indexAx a x)))
    (selData f.valid a (.plane (f.mesh.centreAx a ((f.mesh.indexAx a x : Nat) : Int)) (f.mesh.indexAx a x)))
    (by show removeAt f.data.shape a = removeAt f.mesh.n a; rw [hds])
    (by show removeAt f.valid.shape a = removeAt f.mesh.n a; rw [hvs]) hmeta
  rw [hg]
  exact ⟨_, rfl⟩

/-- Every range inside the region (bounds in either order) is accepted by `Mesh.sel` and
`Field.sel`. -/
theorem sel_range_accepts (f : Fld) (hf : FldWF f) (hmeta : metaOk f = true) (hs : f.mesh.subs = [])
    (dim : String) (a : Nat) (hd : f.mesh.region.dim2index dim = .ok a) (x y : Rat)
    (h1 : f.mesh.region.lo a ≤ min x y) (h2 : max x y ≤ f.mesh.region.hi a) :
    (∃ g, selMesh f.mesh dim (.range x y) = .ok g) ∧ ∃ g, selFld f dim (.range x y) = .ok (.field g) := by
  obtain ⟨hinv, hds, hvs⟩ := hf
  have ha := dim2index_ndim hinv hd
  obtain ⟨hconv, hk, hk2⟩ := selConvert_range f.mesh hinv dim a hd x y h1 h2
  obtain ⟨gm, hgm, hgn⟩ := selRangeMesh_ok f.mesh hinv hs a ha _ _ hk hk2
  have hmesh : selMesh f.mesh dim (.range x y) = .ok gm := by
    unfold selMesh; rw [hconv]; exact hgm
  refine ⟨⟨gm, hmesh⟩, ?_⟩
  unfold selFld
  rw [hconv, hmesh]
  simp only
  have hsh : f.mesh.indexAx a (max x y) + 1 - f.mesh.indexAx a (min x y)
      = f.mesh.indexAx a (max x y) - f.mesh.indexAx a (min x y) + 1 := by omega
  obtain ⟨g, hg⟩ := mkFld_ok gm f
    (selData f.data a (.range (f.mesh.centreAx a ((f.mesh.indexAx a (min x y) : Nat) : Int))
      (f.mesh.centreAx a ((f.mesh.indexAx a (max x y) : Nat) : Int))
      (f.mesh.indexAx a (min x y)) (f.mesh.indexAx a (max x y))))
    (selData f.valid a (.range (f.mesh.centreAx a ((f.mesh.indexAx a (min x y) : Nat) : Int))
      (f.mesh.centreAx a ((f.mesh.indexAx a (max x y) : Nat) : Int))
      (f.mesh.indexAx a (min x y)) (f.mesh.indexAx a (max x y))))
    (by
      show setAt f.data.shape a (f.mesh.indexAx a (max x y) + 1 - f.mesh.indexAx a (min x y)) = gm.n
      rw [hgn, hds, hsh])
    (by
      show setAt f.valid.shape a (f.mesh.indexAx a (max x y) + 1 - f.mesh.indexAx a (min x y)) = gm.n
      rw [hgn, hvs, hsh]) hmeta
  rw [hg]
  exact ⟨_, rfl⟩

/-- Every box inside the region is accepted by `mesh[region]` and `field[region]`. -/
theorem getitem_region_accepts (f : Fld) (hf : FldWF f) (hmeta : metaOk f = true) (item : Region)
    (hbox : BoxIn f.mesh item) (hpm : item.pmax.length = f.mesh.ndim) :
    (∃ g, getRegion f.mesh item = .ok g) ∧ ∃ g, getItem f (.region item) = .ok g := by
  obtain ⟨sm, hsm, hsn⟩ := getRegion_ok f.mesh hf.1 item hbox hpm
  obtain ⟨e1, _, _, _, _, _, _, _, e9⟩ := getRegion_inv f.mesh hf.1 item hbox sm hsm
  exact ⟨⟨sm, hsm⟩, getItem_ok_of_block f hf (.region item) sm hsm e1 (blockLo f.mesh item)
    (fun b => blockHi f.mesh item b - blockLo f.mesh item b + 1) (fun b _ => by omega)
    (fun b hb => (e9 b hb).2.2.2) hsn hmeta⟩

/-- Every subregion made of whole cells is accepted by `mesh[name]` and `field[name]`. -/
theorem getitem_name_accepts (f : Fld) (hf : FldWF f) (hmeta : metaOk f = true) (name : String) (s : Region)
    (hfind : findSub f.mesh.subs name = some s) (k1 k2 : Nat → Nat) (hal : SubAligned f.mesh s k1 k2) :
    (∃ g, getName f.mesh name = .ok g) ∧ ∃ g, getItem f (.name name) = .ok g := by
  obtain ⟨sm, hsm, hsn⟩ := getName_ok f.mesh hf.1 name s hfind k1 k2 hal
  obtain ⟨_, e1, _, e3⟩ := getName_inv f.mesh hf.1 name s hfind k1 k2 hal sm hsm
  exact ⟨⟨sm, hsm⟩, getItem_ok_of_block f hf (.name name) sm hsm e1 k1 (fun b => k2 b - k1 b)
    (fun b hb => by have := (hal.2.2 b hb).1; omega) e3 hsn hmeta⟩

/-- Non-negative pad widths on existing axes are accepted by `Mesh.pad` and `Field.pad`, in
every mode. -/
theorem pad_accepts (f : Fld) (hf : FldWF f) (hmeta : metaOk f = true) (pw : List PadW)
    (hnd : (pw.map (·.dim)).Nodup)
    (hdims : ∀ w, w ∈ pw → ∃ a, f.mesh.region.dim2index w.dim = .ok a)
    (hpos : ∀ w, w ∈ pw → 0 ≤ w.lo ∧ 0 ≤ w.hi)
    (hbc : Mesh.bcOk f.mesh.region.dims f.mesh.bc.toLower = true) (mode : PadMode) :
    (∃ g, padMesh f.mesh pw = .ok g) ∧ ∃ g, padFld f pw mode = .ok g := by
  obtain ⟨hinv, hds, hvs⟩ := hf
  have hsum : ∀ (sel : PadW → Int), (∀ w, w ∈ pw → 0 ≤ sel w) → ∀ b, 0 ≤ sumW f.mesh sel pw b := by
    intro sel hsel b
    clear hnd hdims hpos
    induction pw with
    | nil => simp [sumW]
    | cons w rest ih =>
      rw [sumW_cons]
      have h1 := hsel w (List.mem_cons_self ..)
      have h2 := ih (fun w' hw' => hsel w' (List.mem_cons_of_mem _ hw'))
      cases f.mesh.region.dim2index w.dim with
      | error e => simpa using h2
      | ok a =>
        simp only
        split <;> omega
  have hL := hsum (·.lo) (fun w hw => (hpos w hw).1)
  have hH := hsum (·.hi) (fun w hw => (hpos w hw).2)
  obtain ⟨gm, hgm, hgn⟩ := padMesh_ok f.mesh hinv pw hdims (fun b _ => hL b) (fun b _ => hH b) hbc
  refine ⟨⟨gm, hgm⟩, ?_⟩
  have hax : ∃ d, padAxes f.mesh pw = .ok d := by
    clear hnd hpos hgm hgn hL hH hsum
    induction pw with
    | nil => exact ⟨_, rfl⟩
    | cons w rest ih =>
      obtain ⟨a, ha⟩ := hdims w (List.mem_cons_self ..)
      obtain ⟨d, hd⟩ := ih (fun w' hw' => hdims w' (List.mem_cons_of_mem _ hw'))
      exact ⟨(a, w.lo, w.hi) :: d, by unfold padAxes; rw [ha, hd]⟩
  obtain ⟨d, hd⟩ := hax
  have hw : widthOf d = fun b => (sumW f.mesh (·.lo) pw b, sumW f.mesh (·.hi) pw b) := by
    funext b; exact widthOf_eq_sumW f.mesh pw d hnd hd b
  have hneg : (d.any fun e => decide (e.2.1 < 0) || decide (e.2.2 < 0)) = false := by
    clear hw hgm hgn hL hH hsum hnd hdims
    induction pw generalizing d with
    | nil => unfold padAxes at hd; injection hd with hd; subst hd; rfl
    | cons w rest ih =>
      unfold padAxes at hd
      split at hd
      · cases hd
      · split at hd
        · cases hd
        · rename_i d' hd'
          injection hd with hd; subst hd
          have h1 := hpos w (List.mem_cons_self ..)
          simp only [List.any_cons, Bool.or_eq_false_iff, decide_eq_false_iff_not, not_lt]
          exact ⟨⟨h1.1, h1.2⟩, ih (fun w' hw' => hpos w' (List.mem_cons_of_mem _ hw')) d' hd'⟩
  unfold padFld
  rw [hd]
  simp only
  rw [hneg]
  simp only [Bool.false_eq_true, if_false]
  rw [hgm]
  simp only
  exact mkFld_ok _ _ _ _
    (by
      show (tab f.data.shape.length fun b => f.data.shape.getD b 0 + ((widthOf d) b).1.toNat + ((widthOf d) b).2.toNat) = gm.n
      rw [hgn, hds, hw, inv_n_length hinv]; rfl)
    (by
      show (tab f.valid.shape.length fun b => f.valid.shape.getD b 0 + ((widthOf d) b).1.toNat + ((widthOf d) b).2.toNat) = gm.n
      rw [hgn, hvs, hw, inv_n_length hinv]; rfl) hmeta

/-- Every list of positive cell counts of the right length is accepted by `Field.resample`. -/
theorem resample_accepts (f : Fld) (hf : f.mesh.Inv) (hmeta : metaOk f = true) (n : List Int)
    (hl : n.length = f.mesh.ndim)
    (hpos : ∀ k, k ∈ n → 0 < k) : ∃ g, resample f n = .ok g := by
  unfold resample
  rw [if_neg (by omega)]
  have hany : (n.any fun k => decide (k ≤ 0)) = false := by
    rw [List.any_eq_false]; intro k hk
    have := hpos k hk
    simp only [decide_eq_true_eq, not_le]; exact this
  rw [hany]
  simp only [Bool.false_eq_true, if_false]
  unfold Mesh.mkN?
  rw [if_neg (by rw [List.length_map]; exact fun h => h hl)]
  have hz : ((n.map Int.toNat).any (· = 0)) = false := by
    rw [List.any_eq_false]; intro k hk
    obtain ⟨z, hz, rfl⟩ := List.mem_map.mp hk
    have := hpos z hz
    simp only [decide_eq_true_eq]; omega
  rw [hz]
  simp only [Bool.false_eq_true, if_false]
  rw [emptyLower, bcOk_empty]
  simp only [Bool.not_true, Bool.false_eq_true, if_false]
  have hc : f.mesh.region.containsReg f.mesh.region = true := by
    unfold Region.containsReg
    rw [containsPt_of_exact f.mesh.region f.mesh.region.pmin rfl (fun a ha =>
        ⟨le_refl _, (inv_lo_lt_hi hf ha).le⟩),
      containsPt_of_exact f.mesh.region f.mesh.region.pmax (inv_pmax_length hf) (fun a ha =>
        ⟨(inv_lo_lt_hi hf ha).le, le_refl _⟩)]
    rfl
  rw [hc]
  simp only [Bool.not_true, Bool.false_eq_true, if_false]
  exact mkFld_ok _ _ _ _ rfl rfl hmeta

/-! ## Non-vacuity: every hypothesis used above is met by a concrete field

`Ex.f0`: 4 × 2 cells of size 1 × 1 over `[0,4] × [0,2]`, tokens `10·i + j`, a chequered mask;
`Ex.f1`: the same with the subregion `a = [1,3] × [0,1]`. -/
section NonVacuity
open Ex

/-- hypotheses of `selConvert_point`, `sel_plane_accepts` (and so of `sel_plane_shape`,
`sel_plane_pointwise`): the plane `x = 5/2` of `f0` -/
example : ∃ g, selFld f0 "x" (.point (5/2)) = .ok (.field g) :=
  (sel_plane_accepts f0 f0_wf rfl rfl (by decide) "x" 0 (by decide) (5/2)
    (by norm_num [f0, m0, reg, Region.lo]) (by norm_num [f0, m0, reg, Region.hi])).2

/-- … and it is not trivial: the selected layer is cell 2, not cell 0 -/
example : f0.mesh.indexAx 0 (5/2) = 2 :=
  indexAx_eq_of_bounds f0.mesh 0 _ 2 (by decide) (inv_cell_pos f0_wf.1 (by decide))
    (by norm_num [f0, m0, reg, Region.lo, Mesh.cellAt, Mesh.nAt, Region.edge, Region.hi])
    (by norm_num [f0, m0, reg, Region.lo, Mesh.cellAt, Mesh.nAt, Region.edge, Region.hi])

/-- hypothesis of `sel_centre_pointwise`: the central plane along `y` -/
example : ∃ g, selFld f0 "y" .centre = .ok (.field g) := by
  rw [show selFld f0 "y" .centre = selFld f0 "y" (.point 1) from by
    unfold selFld selMesh
    rw [selConvert_centre f0.mesh f0_wf.1 "y" 1 (by decide)]
    norm_num [f0, m0, reg, Region.lo, Region.hi]]
  exact (sel_plane_accepts f0 f0_wf rfl rfl (by decide) "y" 1 (by decide) 1
    (by norm_num [f0, m0, reg, Region.lo]) (by norm_num [f0, m0, reg, Region.hi])).2

/-- hypotheses of `selConvert_range`, `sel_range_shape`, `sel_range_pointwise`: bounds given
in descending order -/
example : (∃ g, selMesh f0.mesh "x" (.range (7/2) (1/2)) = .ok g) ∧
    ∃ g, selFld f0 "x" (.range (7/2) (1/2)) = .ok (.field g) :=
  sel_range_accepts f0 f0_wf rfl rfl "x" 0 (by decide) (7/2) (1/2)
    (by norm_num [f0, m0, reg, Region.lo]) (by norm_num [f0, m0, reg, Region.hi])

/-- hypothesis of `sel_outside_rejected`: `x = 9/2` is outside `[0, 4]` -/
example : ∃ e, selFld f0 "x" (.point (9/2)) = .error e :=
  (sel_outside_rejected f0 "x" (.point (9/2)) (Or.inr (Or.inr (Or.inl ⟨0, 9/2, by decide, rfl,
    Or.inr (by norm_num [f0, m0, reg, Region.hi])⟩)))).2.2

/-- hypotheses of `getRegion_smallest`, `getitem_region_pointwise`: an arbitrary box -/
example : BoxIn f0.mesh box ∧ (∃ g, getRegion f0.mesh box = .ok g) ∧ ∃ g, getItem f0 (.region box) = .ok g :=
  ⟨box_in, getitem_region_accepts f0 f0_wf rfl box box_in rfl⟩

/-- hypotheses of `getRegion_aligned_exact`, `region2slices_spec`, `getitem_name_pointwise`:
the subregion `a` consists of whole cells -/
example : SubAligned f1.mesh s0 k1 k2 ∧ findSub f1.mesh.subs "a" = some s0 ∧
    ∃ g, getItem f1 (.name "a") = .ok g :=
  ⟨s0_aligned, rfl, (getitem_name_accepts f1 f1_wf rfl "a" s0 rfl k1 k2 s0_aligned).2⟩

example : region2slices m1 s0 = .ok [(1, 3), (0, 1)] :=
  (region2slices_spec m1 m1_inv s0 k1 k2 s0_aligned).1

/-- hypothesis of `getitem_outside_rejected` -/
example : ∃ e, getItem f1 (.name "b") = .error e :=
  (getitem_outside_rejected f1 (.name "b") (Or.inl ⟨"b", rfl, by decide⟩)).2

/-- hypotheses of `pad_counts`, `pad_rule`, `pad_inside_pointwise`: pad x by (1, 2), y by (0, 1) -/
example (mode : PadMode) : (pw0.map (·.dim)).Nodup ∧ (∃ g, padMesh f0.mesh pw0 = .ok g) ∧
    ∃ g, padFld f0 pw0 mode = .ok g :=
  ⟨by decide, pad_accepts f0 f0_wf rfl pw0 (by decide)
    (by
      intro w hw
      simp only [pw0, List.mem_cons, List.mem_nil_iff, or_false] at hw
      rcases hw with rfl | rfl
      · exact ⟨0, by decide⟩
      · exact ⟨1, by decide⟩)
    (by
      intro w hw
      simp only [pw0, List.mem_cons, List.mem_nil_iff, or_false] at hw
      rcases hw with rfl | rfl <;> decide)
    (by rw [show f0.mesh.bc = "" from rfl, emptyLower]; exact bcOk_empty _) mode⟩

/-- the five modes at one position: axis of 4 cells padded by 3 in front, position 0
(three cells before the source) -/
example : padSrc .constant 4 3 0 = none ∧ padSrc .edge 4 3 0 = some 0 ∧ padSrc .wrap 4 3 0 = some 1 ∧
    padSrc .symmetric 4 3 0 = some 2 ∧ padSrc .reflect 4 3 0 = some 3 := by decide

/-- hypotheses of `resample_region`, `resample_pointwise`: 4 × 2 → 2 × 3 -/
example : ∃ g, resample f0 [2, 3] = .ok g :=
  resample_accepts f0 f0_wf.1 rfl [2, 3] rfl (by decide)

/-- hypothesis of `resample_id` -/
example : ∃ g, resample f0 (f0.mesh.n.map Int.ofNat) = .ok g :=
  resample_accepts f0 f0_wf.1 rfl _ rfl (by decide)

/-- hypothesis of `resample_rejects` -/
example : ∃ e, resample f0 [2, 0] = .error e :=
  resample_rejects f0 [2, 0] (Or.inr ⟨0, by decide, by decide⟩)

end NonVacuity

end DFV.C07
