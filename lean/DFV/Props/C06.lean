import DFV.Model.C06
namespace DFV.C06
open DFV

/-- placeholder -/
theorem cumulative_all_dirs_rejected (f : Fld) : integrate f .none true = .error .value := rfl

end DFV.C06
